/-
  The budgeted search (memcchr_quote / memcchr_html_quote): for every list of block widths it copies
  min(run of ordinary bytes, budget) bytes, and its sign tells which of the two ended it.
-/
import SonicSpec.Proofs.MemStrBase
namespace SonicSpec.Mem

/-- `ctz` of the mask of a block = length of the run of ordinary bytes, if that ends inside the block -/
theorem ctz_take_map (f : UInt8 → Bool) : ∀ (l : Bytes) (W : Nat), W ≤ l.length →
    ctz ((l.take W).map f) =
      (if (l.takeWhile (fun c => !f c)).length < W then some (l.takeWhile (fun c => !f c)).length else none)
  | [], W, h => by
    have : W = 0 := by simpa using h
    subst this
    simp [ctz]
  | a :: l, 0, _ => by simp [ctz]
  | a :: l, W + 1, h => by
    have ih := ctz_take_map f l W (by simpa using h)
    simp only [List.take_succ_cons, List.map_cons, List.takeWhile_cons]
    cases ha : f a with
    | true => simp [ctz]
    | false =>
      simp only [ctz, ih, Bool.not_false, if_true, List.length_cons]
      by_cases hlt : (l.takeWhile (fun c => !f c)).length < W
      · simp [hlt]
      · simp [hlt]

theorem runLen_at (special : UInt8 → Bool) (s : Bytes) (off : Nat) (h : off < s.length) :
    runLen special s off = if special s[off] then 0 else 1 + runLen special s (off + 1) := by
  simp only [runLen]
  rw [List.drop_eq_getElem_cons h, List.takeWhile_cons]
  cases special s[off] with
  | true => simp
  | false => simp; omega

theorem runLen_past (special : UInt8 → Bool) (s : Bytes) (off : Nat) (h : s.length ≤ off) :
    runLen special s off = 0 := by
  simp [runLen, List.drop_eq_nil_of_le h]

/-- inside a run, the rest of the run is the run from there -/
theorem runLen_add (special : UInt8 → Bool) (s : Bytes) : ∀ (k p : Nat), k ≤ runLen special s p →
    runLen special s p = k + runLen special s (p + k)
  | 0, p, _ => by simp
  | k + 1, p, h => by
    by_cases hp : p < s.length
    · rw [runLen_at special s p hp] at h ⊢
      cases hs : special s[p] with
      | true => simp [hs] at h
      | false =>
        simp only [hs, Bool.false_eq_true, if_false] at h ⊢
        have := runLen_add special s k (p + 1) (by omega)
        rw [this]
        have e : p + 1 + k = p + (k + 1) := by omega
        rw [e]
        omega
    · rw [runLen_past special s p (by omega)] at h
      omega

/-- what the budgeted search returns, in terms of the run `r` of ordinary bytes from `p` and the budget `dn` -/
theorem budgetFind_spec (special : UInt8 → Bool) {rd : Rd} {s : Bytes} (h : Holds rd s) (Ws : List Nat)
    (p dn q : Nat) (ok : Bool) (hp : p ≤ s.length)
    (hr : budgetFind special Ws rd s.length p dn = some (q, ok)) :
    q = p + min (runLen special s p) dn ∧ (ok = true → runLen special s p ≤ dn) ∧
    (ok = false → dn ≤ runLen special s p ∧ p + dn < s.length) := by
  let r := runLen special s p
  -- invariant: `off - p` bytes copied, all of them inside the run, `dn'` = what is left of the budget
  let Inv : Nat → Nat → Prop := fun dn' off => p ≤ off ∧ off ≤ p + r ∧ off ≤ s.length ∧ (off - p) + dn' = dn
  let P : Nat × Bool → Prop := fun x =>
    x.1 = p + min r dn ∧ (x.2 = true → r ≤ dn) ∧ (x.2 = false → dn ≤ r ∧ p + dn < s.length)
  have hrun : ∀ off, p ≤ off → off ≤ p + r → r = (off - p) + runLen special s off := by
    intro off h1 h2
    have := runLen_add special s (off - p) p (by omega)
    have e : p + (off - p) = off := by omega
    rw [e] at this
    exact this
  have htail : ∀ st off x, Inv st off → (bfScan special).tail rd s.length st off = some x → P x := by
    intro st off x hi hx
    refine scalarLoop_inv (bfStep special) (fun _ off => (off, true)) s.length Inv P ?_ ?_ st off x hi hx
    · intro dn' off b ⟨h1, h2, h3, h4⟩ hlt hb
      have hb' : b = s[off] := by
        have := h.get off hlt
        rw [this] at hb
        exact (Option.some.inj hb).symm
      have hr' := hrun off h1 h2
      rw [runLen_at special s off hlt] at hr'
      simp only [bfStep]
      by_cases hz : dn' = 0
      · simp only [hz, if_true]
        subst hz
        refine ⟨?_, ?_, ?_⟩
        · show off = p + min r dn
          have : dn ≤ r := by omega
          omega
        · intro hc; cases hc
        · intro _; exact ⟨by omega, by omega⟩
      · simp only [hz, if_false]
        cases hs : special b with
        | true =>
          simp only [if_true]
          rw [← hb', hs] at hr'
          simp only [if_true] at hr'
          refine ⟨?_, ?_, ?_⟩
          · show off = p + min r dn
            omega
          · intro _; omega
          · intro hc; cases hc
        | false =>
          simp only [Bool.false_eq_true, if_false]
          rw [← hb', hs] at hr'
          simp only [Bool.false_eq_true, if_false] at hr'
          exact ⟨by omega, by omega, by omega, by omega⟩
    · intro dn' off ⟨h1, h2, h3, h4⟩ hlt
      have hoff : off = s.length := by omega
      have hle := runLen_le special s p
      have hr' : p + r = s.length := by
        have : max p s.length = s.length := by omega
        show p + runLen special s p = s.length
        omega
      refine ⟨?_, ?_, ?_⟩
      · show off = p + min r dn
        omega
      · intro _; omega
      · intro hc; cases hc
  have hblk : ∀ st off bs, Inv st off → off + bs.length ≤ s.length → loadW rd bs.length off = some bs →
      (match (bfScan special).blk st off bs with | .done x => P x | .cont st' => Inv st' (off + bs.length)) := by
    intro dn' off bs ⟨h1, h2, h3, h4⟩ hle hl
    have hbs : bs = (s.drop off).take bs.length := by
      have := h.load off (off + bs.length) (by omega) hle
      rw [Nat.add_sub_cancel_left] at this
      rw [this] at hl
      have := Option.some.inj hl
      simp only [slice, Nat.add_sub_cancel_left] at this
      exact this.symm
    have hctz := ctz_take_map special (s.drop off) bs.length (by simp only [List.length_drop]; omega)
    rw [← hbs] at hctz
    have hr' := hrun off h1 h2
    have hrl : runLen special s off = ((s.drop off).takeWhile (fun c => !special c)).length := rfl
    rw [← hrl] at hctz
    show (match bfBlk special dn' off bs with | .done x => P x | .cont st' => Inv st' (off + bs.length))
    simp only [bfBlk, hctz]
    by_cases hge : dn' ≥ bs.length
    · simp only [hge, if_true]
      by_cases hlt : runLen special s off < bs.length
      · simp only [hlt, if_true]
        refine ⟨?_, ?_, ?_⟩
        · show off + runLen special s off = p + min r dn
          omega
        · intro _; omega
        · intro hc; cases hc
      · simp only [hlt, if_false]
        exact ⟨by omega, by omega, by omega, by omega⟩
    · simp only [hge, if_false]
      by_cases hlt : runLen special s off < bs.length
      · simp only [hlt, if_true]
        by_cases hfit : runLen special s off ≤ dn'
        · simp only [hfit, if_true]
          refine ⟨?_, ?_, ?_⟩
          · show off + runLen special s off = p + min r dn
            omega
          · intro _; omega
          · intro hc; cases hc
        · simp only [hfit, if_false]
          refine ⟨?_, ?_, ?_⟩
          · show off + dn' = p + min r dn
            omega
          · intro hc; cases hc
          · intro _; exact ⟨by omega, by omega⟩
      · simp only [hlt, if_false]
        refine ⟨?_, ?_, ?_⟩
        · show off + dn' = p + min r dn
          omega
        · intro hc; cases hc
        · intro _; exact ⟨by omega, by omega⟩
  have := run_inv (bfScan special) s.length Inv P
    (fun st off bs a b c => by
      have := hblk st off bs a b c
      cases hb : (bfScan special).blk st off bs <;> simp only [hb] at this ⊢ <;> exact this)
    htail Ws dn p (q, ok) ⟨Nat.le_refl _, by omega, hp, by omega⟩ hr
  exact this

theorem budgetFind_ne_none (special : UInt8 → Bool) {rd : Rd} {s : Bytes} (h : Holds rd s) (Ws : List Nat) (p dn : Nat) :
    budgetFind special Ws rd s.length p dn ≠ none :=
  run_ne_none_scalar (bfScan special) rfl s.length h.ne_none Ws dn p

end SonicSpec.Mem
