/-
  Decoder IR: the single-pass specification (`Stream.decodeVal`) unfolded kind by kind, on the sub-universe.
-/
import SonicSpec.Proofs.DirWT
namespace SonicSpec.Dir
open SonicSpec SonicSpec.Go SonicSpec.Json SonicSpec.Bind SonicSpec.Stream

theorem sub_ptrBase : ∀ (T : GoType), Sub T = true → Sub (ptrBase T) = true ∧ notPtr (ptrBase T) = true
  | .ptr t, h => by simp only [Sub] at h; simp only [ptrBase]; exact sub_ptrBase t h
  | .bool, h | .int _, h | .uint _, h | .str, h | .f32, h | .f64, h | .any, h | .sl _, h | .arr _ _, h | .st _, h => by simp [ptrBase, notPtr, h]
  | .num, h | .bytes, h | .raw, h | .map _ _, h | .lib _, h => by simp [Sub] at h

/-- the result of decoding into `*t` is the pointer to the result of decoding into `t` -/
def wrapRes (res : Res GoVal) : Res GoVal :=
  match res with
  | .ok (v, e, r) => .ok (.ptr v, e, r)
  | .error x => .error x

theorem skipMismatch_ptr (strict : Bool) (n : Nat) (t : GoType) (s : Bytes) (cur : GoVal) (d : DErr) :
    skipMismatch strict n (.ptr t) s cur d = wrapRes (skipMismatch strict n t s (derefCur t cur) d) := by
  unfold skipMismatch
  cases skipVal strict n s with
  | none => rfl
  | some r => simp only [wrapRes, wrapPtr, peel_ptr]

theorem decodeVal_ptr (o : DecOpts) (n : Nat) (t : GoType) (hs : Sub t = true) (s : Bytes) (cur : GoVal) (hn : isNullLit s = none) :
    decodeVal o (n + 1) (.ptr t) s cur = wrapRes (decodeVal o (n + 1) t s (derefCur t cur)) := by
  obtain ⟨hsb, hnp⟩ := sub_ptrBase t hs
  rw [decodeVal, decodeVal]
  simp only [hn, ptrBase, peel_ptr, skipMismatch_ptr, wrapPtr]
  cases hB : ptrBase t with
  | bool => simp only; split <;> rfl
  | int w => simp only; repeat' (first | rfl | split)
  | uint w => simp only; repeat' (first | rfl | split)
  | str => simp only; repeat' (first | rfl | split)
  | f32 => simp only; repeat' (first | rfl | split)
  | f64 => simp only; repeat' (first | rfl | split)
  | any =>
    simp only [decodeAny]
    cases parseR (n + 1) s with
    | none => rfl
    | some p => rfl
  | sl t' => simp only; repeat' (first | rfl | split)
  | arr k t' => simp only; repeat' (first | rfl | split)
  | st fs => simp only; repeat' (first | rfl | split)
  | ptr t' => rw [hB] at hnp; simp [notPtr] at hnp
  | _ => rw [hB] at hsb; simp [Sub] at hsb


theorem merge_none_left (e : Option DErr) : merge none e = e := by
  cases e with
  | none => rfl
  | some x => cases x <;> rfl

theorem merge_none_right' (e : Option DErr) : merge e none = e := by
  cases e with
  | none => rfl
  | some x => cases x <;> rfl

theorem merge_assoc (a b c : Option DErr) : merge (merge a b) c = merge a (merge b c) := by
  cases a with
  | none => simp [merge_none_left]
  | some x =>
    cases b with
    | none => simp [merge_none_left, merge_none_right']
    | some y =>
      cases c with
      | none => simp [merge_none_right']
      | some z => cases x <;> cases y <;> cases z <;> rfl

theorem merge_ne_none_left {a b : Option DErr} (h : a ≠ none) : merge a b ≠ none := by
  cases a with
  | none => exact absurd rfl h
  | some x => cases b with
    | none => cases x <;> simp [merge]
    | some y => cases x <;> cases y <;> simp [merge]

theorem merge_ne_none_right {a b : Option DErr} (h : b ≠ none) : merge a b ≠ none := by
  cases b with
  | none => exact absurd rfl h
  | some y => cases a with
    | none => cases y <;> simp [merge]
    | some x => cases x <;> cases y <;> simp [merge]

theorem dv_zero (o : DecOpts) (T : GoType) (s : Bytes) (cur : GoVal) : decodeVal o 0 T s cur = .error .syntax := by
  rw [decodeVal]

theorem dv_null (o : DecOpts) (n : Nat) (T : GoType) (s r : Bytes) (cur : GoVal) (h : isNullLit s = some r) :
    decodeVal o (n + 1) T s cur = .ok (bindNull T cur, none, r) := by
  rw [decodeVal]; simp only [h]

theorem dv_bool (o : DecOpts) (n : Nat) (s : Bytes) (cur : GoVal) (hn : isNullLit s = none) :
    decodeVal o (n + 1) .bool s cur =
      match boolLit s with
      | some (b, r) => .ok (.bool b, none, r)
      | none => skipMismatch o.validateString (n + 1) .bool s cur .mismatch := by
  rw [decodeVal]; simp only [hn, ptrBase, peel, wrapPtr]
  repeat' (first | rfl | split)

theorem dv_int (o : DecOpts) (n : Nat) (w : Nat) (s : Bytes) (cur : GoVal) (hn : isNullLit s = none) :
    decodeVal o (n + 1) (.int w) s cur =
      match tok s with
      | .other =>
        match scanNumber s with
        | some (l, r) => .ok ((storeNumber o false l (.int w) cur).1, (storeNumber o false l (.int w) cur).2, r)
        | none => .error .syntax
      | _ => skipMismatch o.validateString (n + 1) (.int w) s cur .mismatch := by
  rw [decodeVal]; simp only [hn, ptrBase, peel, wrapPtr]
  repeat' (first | rfl | split)

theorem dv_uint (o : DecOpts) (n : Nat) (w : Nat) (s : Bytes) (cur : GoVal) (hn : isNullLit s = none) :
    decodeVal o (n + 1) (.uint w) s cur =
      match tok s with
      | .other =>
        match scanNumber s with
        | some (l, r) => .ok ((storeNumber o false l (.uint w) cur).1, (storeNumber o false l (.uint w) cur).2, r)
        | none => .error .syntax
      | _ => skipMismatch o.validateString (n + 1) (.uint w) s cur .mismatch := by
  rw [decodeVal]; simp only [hn, ptrBase, peel, wrapPtr]
  repeat' (first | rfl | split)

theorem dv_f64 (o : DecOpts) (n : Nat) (s : Bytes) (cur : GoVal) (hn : isNullLit s = none) :
    decodeVal o (n + 1) .f64 s cur =
      match tok s with
      | .other =>
        match scanNumber s with
        | some (l, r) => .ok ((storeNumber o false l .f64 cur).1, (storeNumber o false l .f64 cur).2, r)
        | none => .error .syntax
      | _ => skipMismatch o.validateString (n + 1) .f64 s cur .mismatch := by
  rw [decodeVal]; simp only [hn, ptrBase, peel, wrapPtr]
  repeat' (first | rfl | split)

theorem dv_f32 (o : DecOpts) (n : Nat) (s : Bytes) (cur : GoVal) (hn : isNullLit s = none) :
    decodeVal o (n + 1) .f32 s cur =
      match tok s with
      | .other =>
        match scanNumber s with
        | some (l, r) => .ok ((storeNumber o false l .f32 cur).1, (storeNumber o false l .f32 cur).2, r)
        | none => .error .syntax
      | _ => skipMismatch o.validateString (n + 1) .f32 s cur .mismatch := by
  rw [decodeVal]; simp only [hn, ptrBase, peel, wrapPtr]
  repeat' (first | rfl | split)

theorem dv_any (o : DecOpts) (n : Nat) (s : Bytes) (cur : GoVal) (hn : isNullLit s = none) :
    decodeVal o (n + 1) .any s cur =
      match parseR (n + 1) s with
      | some (j, r) => .ok ((toAny o j).1, (toAny o j).2, r)
      | none => .error .syntax := by
  rw [decodeVal]; simp only [hn, ptrBase, peel, wrapPtr, decodeAny]
  cases parseR (n + 1) s with
  | none => rfl
  | some p => rfl

theorem dv_str (o : DecOpts) (n : Nat) (s : Bytes) (cur : GoVal) (hn : isNullLit s = none) :
    decodeVal o (n + 1) .str s cur =
      match tok s with
      | .str r =>
        match scanString r with
        | none => .error .syntax
        | some (b, t) =>
          match unquote b with
          | none => .error .syntax
          | some u => .ok (.str u, none, t)
      | _ => skipMismatch o.validateString (n + 1) .str s cur .mismatch := by
  rw [decodeVal]; simp only [hn, ptrBase, peel, wrapPtr]
  repeat' (first | rfl | split)

theorem dv_sl (o : DecOpts) (n : Nat) (t : GoType) (ht : notU8 t = true) (s : Bytes) (cur : GoVal) (hn : isNullLit s = none) :
    decodeVal o (n + 1) (.sl t) s cur =
      match tok s with
      | .arr r =>
        match skipWs r with
        | 93 :: t' => .ok (.sl [], none, t')
        | r' =>
          match decodeElems o n t r' (curElems cur) none with
          | .error e => .error e
          | .ok (vs, e, t') => .ok (.sl vs, e, t')
      | _ => skipMismatch o.validateString (n + 1) (.sl t) s cur .mismatch := by
  rw [decodeVal]; simp only [hn, ptrBase, peel, wrapPtr]
  cases htk : tok s with
  | arr r => simp only; repeat' (first | rfl | split)
  | str r =>
    simp only
    split
    · simp [notU8] at ht
    · rfl
  | obj r => rfl
  | lit => rfl
  | other => rfl

theorem dv_arr (o : DecOpts) (n : Nat) (k : Nat) (t : GoType) (s : Bytes) (cur : GoVal) (hn : isNullLit s = none) :
    decodeVal o (n + 1) (.arr k t) s cur =
      match tok s with
      | .arr r =>
        match skipWs r with
        | 93 :: t' => .ok (.arr (List.replicate k (zeroOf t)), none, t')
        | r' =>
          match decodeElems o n t r' (curElems cur) (some k) with
          | .error e => .error e
          | .ok (vs, e, t') => .ok (.arr (vs ++ List.replicate (k - vs.length) (zeroOf t)), e, t')
      | _ => skipMismatch o.validateString (n + 1) (.arr k t) s cur .mismatch := by
  rw [decodeVal]; simp only [hn, ptrBase, peel, wrapPtr]
  repeat' (first | rfl | split)

theorem dv_st (o : DecOpts) (n : Nat) (fs : List (String × Option Bytes × GoType)) (s : Bytes) (cur : GoVal) (hn : isNullLit s = none) :
    decodeVal o (n + 1) (.st fs) s cur =
      match tok s with
      | .obj r =>
        match skipWs r with
        | 125 :: t' => .ok (.st (curFields fs cur), none, t')
        | r' =>
          if (resolveFields fs).isEmpty then
            match skipMembers o.validateString n r' with
            | none => .error .syntax
            | some t' => .ok (.st (curFields fs cur), if o.disallowUnknown then some .unknownField else none, t')
          else
          match decodeStruct o n (resolveFields fs) r' (curFields fs cur) with
          | .error e => .error e
          | .ok (vs, e, t') => .ok (.st vs, e, t')
      | _ => skipMismatch o.validateString (n + 1) (.st fs) s cur .mismatch := by
  rw [decodeVal]; simp only [hn, ptrBase, peel, wrapPtr]
  repeat' (first | rfl | split)

theorem skipVal_nil (strict : Bool) (n : Nat) : skipVal strict n [] = none := by
  cases n with
  | zero => rw [skipVal]
  | succ n => simp [skipVal, scanNumber]

/-- nothing decodes from the empty input -/
theorem decodeVal_nil (o : DecOpts) (n : Nat) : ∀ (T : GoType), Sub T = true → ∀ cur, decodeVal o n T [] cur = .error .syntax
  | T, hs, cur => by
    cases n with
    | zero => exact dv_zero o T [] cur
    | succ n =>
      cases T with
      | ptr t =>
        simp only [Sub] at hs
        rw [decodeVal_ptr o n t hs [] cur rfl, decodeVal_nil o (n + 1) t hs]
        rfl
      | bool => rw [dv_bool o n [] cur rfl]; simp [boolLit, skipMismatch, skipVal_nil]
      | int w => rw [dv_int o n w [] cur rfl]; simp [tok, scanNumber]
      | uint w => rw [dv_uint o n w [] cur rfl]; simp [tok, scanNumber]
      | str => rw [dv_str o n [] cur rfl]; simp [tok, skipMismatch, skipVal_nil]
      | f32 => rw [dv_f32 o n [] cur rfl]; simp [tok, scanNumber]
      | f64 => rw [dv_f64 o n [] cur rfl]; simp [tok, scanNumber]
      | any => rw [dv_any o n [] cur rfl]; simp [parseR, scanNumber]
      | sl t =>
        simp only [Sub, Bool.and_eq_true] at hs
        rw [dv_sl o n t hs.1 [] cur rfl]; simp [tok, skipMismatch, skipVal_nil]
      | arr k t => rw [dv_arr o n k t [] cur rfl]; simp [tok, skipMismatch, skipVal_nil]
      | st fs => rw [dv_st o n fs [] cur rfl]; simp [tok, skipMismatch, skipVal_nil]
      | _ => simp [Sub] at hs

end SonicSpec.Dir
