/-
  Encoder IR, compiler correctness (7): structs - compileStructBody inline, or OP_recurse into the struct's own program.
-/
import SonicSpec.Proofs.IrFields
namespace SonicSpec.Ir
open SonicSpec SonicSpec.Go SonicSpec.Enc SonicSpec.Json
variable {o : EncOpts} {co : COpts}

theorem ConfF_length : ∀ (fs : List (String × Option Bytes × GoType)) (ks : List (Option Field)) (vs : List GoVal),
    ConfF fs ks vs = true → ks.length = vs.length := by
  intro fs
  induction fs with
  | nil =>
    intro ks vs h
    cases ks <;> cases vs <;> simp [ConfF] at h ⊢
  | cons d fs ih =>
    intro ks vs h
    obtain ⟨n, tg, t⟩ := d
    cases ks with
    | nil => simp [ConfF] at h
    | cons k ks =>
      cases vs with
      | nil => simp [ConfF] at h
      | cons v vs =>
        simp only [ConfF, Bool.and_eq_true] at h
        simp [ih ks vs h.2]

theorem offsets_length : ∀ (fs : List (String × Option Bytes × GoType)) (off : Nat), (offsets fs off).length = fs.length := by
  intro fs
  induction fs with
  | nil => intro off; rfl
  | cons d fs ih =>
    intro off
    obtain ⟨n, tg, t⟩ := d
    simp [offsets, ih]

/-- compileStructBody (compiler.go:449) -/
def structBody (co : COpts) (pc sp : Nat) (pv : Bool) (fs : List (String × Option Bytes × GoType)) (ks : List (Option Field)) : Program :=
  [Instr.byte 123, Instr.save false, Instr.condSet] ++ codeFields co sp pv fs ks (offsets fs 0) 0 (pc + 3) ++ [Instr.drop, Instr.byte 125]

theorem structBody_ok (hnull : co.encOnlyOmitNull = false) {fs : List (String × Option Bytes × GoType)} {ks : List (Option Field)} {vs : List GoVal}
    (hk : keepList fs = some ks) (hS : SubF fs = true) (hK : subK ks = true) (hC : ConfF fs ks vs = true)
    (hIH : ∀ v ∈ vs, ∀ t, Sub t = true → Conf t v = true → CodeOK o co t v)
    (hIH2 : ∀ w, GoVal.ptr w ∈ vs → ∀ e, Sub e = true → Conf e w = true → CodeOK o co e w)
    (addr fpv : Bool) (P : Program) (pc sp : Nat) (pv : Bool) (r : Regs) (s : Stack) (b : Bytes)
    (hat : At P pc (structBody co pc sp pv fs ks)) (hg : r.p.get = some (.st vs)) (hs : s.length + (needF fs + 1) ≤ maxStack) :
    (∀ j, encV o addr (.st fs) (.st vs) = .ok j → ∀ res,
        Halts o co fpv P (pc + (structBody co pc sp pv fs ks).length) r s (b ++ render j) res → Halts o co fpv P pc r s b res) ∧
    (∀ e, encV o addr (.st fs) (.st vs) = .error e → e = .unsupportedValue ∧ Halts o co fpv P pc r s b (.error (.enc e))) := by
  unfold structBody at hat ⊢
  generalize hcf : codeFields co sp pv fs ks (offsets fs 0) 0 (pc + 3) = cf at hat ⊢
  have hA : At P pc [Instr.byte 123, Instr.save false, Instr.condSet] := hat.left.left
  have hF : At P (pc + 3) cf := At.right' hat.left (by simp)
  have hE : At P (pc + 3 + cf.length) [Instr.drop, Instr.byte 125] := At.right' hat (by simp <;> omega)
  have hsave : ∀ q bb, step o (.save false) q r s bb = .next (q + 1) r (r :: s) bb := by
    intro q bb
    simp only [step]
    rw [if_neg (by omega)]
    simp
  obtain ⟨fok, ferr⟩ := fields_ok (o := o) (co := co) hnull (addr := addr) (fpv := fpv) (P := P) (sp := sp) (pv := pv) r vs hg s hIH hIH2
    fs ks (offsets fs 0) vs 0 (pc + 3) true (b ++ [123]) (keepList_aligned hk) hS hK hC (offsets_length fs 0) (by simp) (by simp; omega) (hcf ▸ hF)
  rw [hcf] at fok
  have hlen := ConfF_length fs ks vs hC
  have henc : encV o addr (.st fs) (.st vs) = (encF o addr ks vs).map .obj := by
    simp only [encV, hk, hlen, beq_self_eq_true, if_true]
  rw [henc]
  have pre : ∀ res, Halts o co fpv P (pc + 3) { r with cond := true } (r :: s) (b ++ [123]) res → Halts o co fpv P pc r s b res := by
    intro res h
    refine halts_step (hA.get 0 (by omega) rfl) (by simp only [step]; rfl) ?_
    refine halts_step (hA.get 1 (by omega) rfl) (hsave _ _) ?_
    refine halts_step (hA.get 2 (by omega) rfl) (by simp only [step]; rfl) ?_
    exact h
  constructor
  · intro j hj res h
    cases hms : encF o addr ks vs with
    | error e => rw [hms] at hj; cases hj
    | ok ms =>
      rw [hms] at hj
      simp only [Except.map] at hj
      injection hj with hj; subst hj
      refine pre res (fok ms hms res ?_)
      refine halts_step (hE.get 0 (by omega) rfl) (by simp only [step]; rfl) ?_
      refine halts_step (hE.get 1 (by omega) rfl) (by simp only [step]; rfl) ?_
      exact halts_cast h (by simp <;> omega) rfl rfl (by simp [render_obj])
  · intro e hj
    cases hms : encF o addr ks vs with
    | ok ms => rw [hms] at hj; cases hj
    | error e' =>
      rw [hms] at hj
      simp only [Except.map] at hj
      injection hj with hj; subst hj
      obtain ⟨h1, h2⟩ := ferr _ hms
      exact ⟨h1, pre _ h2⟩


theorem maxIlbuf_pos : 0 < maxIlbuf := by decide

theorem code_st_inline {pc sp : Nat} {pv : Bool} {fs : List (String × Option Bytes × GoType)} {ks : List (Option Field)}
    (hk : keepList fs = some ks)
    (hc : (decide (sp ≥ co.maxInlineDepth) || decide (pc ≥ maxIlbuf) || (decide (sp > 0) && decide (fs.length ≥ maxFields))) = false) :
    code co pc sp pv (.st fs) = structBody co pc sp pv fs ks := by
  rw [code]
  simp only [hc, Bool.false_eq_true, if_false, hk]
  rfl

theorem code_st_recurse {pc sp : Nat} {pv : Bool} {fs : List (String × Option Bytes × GoType)}
    (hc : (decide (sp ≥ co.maxInlineDepth) || decide (pc ≥ maxIlbuf) || (decide (sp > 0) && decide (fs.length ≥ maxFields))) = true) :
    code co pc sp pv (.st fs) = [Instr.recurse (.st fs) pv] := by
  rw [code]
  simp only [hc, if_true]

/-- structs: inline (compileStructBody) or out of line (OP_recurse runs the struct's own program, compiled at depth 0) -/
theorem codeOK_st (hnull : co.encOnlyOmitNull = false) (hco : 0 < co.maxInlineDepth)
    {fs : List (String × Option Bytes × GoType)} {vs : List GoVal}
    (hS : Sub (.st fs) = true) (hC : Conf (.st fs) (.st vs) = true)
    (hIH : ∀ v ∈ vs, ∀ t, Sub t = true → Conf t v = true → CodeOK o co t v)
    (hIH2 : ∀ w, GoVal.ptr w ∈ vs → ∀ e, Sub e = true → Conf e w = true → CodeOK o co e w) :
    CodeOK o co (.st fs) (.st vs) := by
  intro addr fpv P pc sp pv r s b hat hg hs
  simp only [need] at hs
  simp only [Sub, Bool.and_eq_true] at hS
  simp only [Conf] at hC
  cases hk : keepList fs with
  | none => rw [hk] at hC; cases hC
  | some ks =>
    rw [hk] at hC hS
    simp only at hC hS
    cases hc : (decide (sp ≥ co.maxInlineDepth) || decide (pc ≥ maxIlbuf) || (decide (sp > 0) && decide (fs.length ≥ maxFields))) with
    | false =>
      rw [code_st_inline hk hc] at hat ⊢
      exact structBody_ok hnull hk hS.2 hS.1 hC hIH hIH2 addr fpv P pc sp pv r s b hat hg hs
    | true =>
      rw [code_st_recurse hc] at hat ⊢
      -- the callee: the struct's program at position 0, depth 0
      have hc0 : (decide (0 ≥ co.maxInlineDepth) || decide (0 ≥ maxIlbuf) || (decide (0 > 0) && decide (fs.length ≥ maxFields))) = false := by
        have := maxIlbuf_pos
        simp
        omega
      have hprog : compile co (.st fs) (fpv || pv) = structBody co 0 0 (fpv || pv) fs ks := by
        unfold compile
        exact code_st_inline hk hc0
      obtain ⟨cok, cerr⟩ := structBody_ok (o := o) hnull hk hS.2 hS.1 hC hIH hIH2 addr (fpv || pv) (structBody co 0 0 (fpv || pv) fs ks) 0 0 (fpv || pv)
        (Regs.start r.p) s b (At.whole _) hg hs
      have hstep : step o (Instr.recurse (.st fs) pv) pc r s b = .call (.st fs) pv r.p := by simp only [step]
      constructor
      · intro j hj res h
        refine halts_call (hat.get 0 (by omega) rfl) hstep ?_ (halts_cast h (by simp) rfl rfl rfl)
        rw [hprog]
        exact cok j hj _ (halts_done (At.end_none (by simp)))
      · intro e hj
        obtain ⟨h1, h2⟩ := cerr e hj
        refine ⟨h1, halts_callErr (hat.get 0 (by omega) rfl) hstep ?_⟩
        rw [hprog]
        exact h2

end SonicSpec.Ir
