/-
  Encoder IR, compiler correctness (7): structs - compileStructBody inline, or OP_recurse into the struct's own program.
-/
import SonicSpec.Proofs.IrFields
namespace SonicSpec.Ir
open SonicSpec SonicSpec.Go SonicSpec.Enc SonicSpec.Json
variable {o : EncOpts} {co : COpts}

theorem ConfF_length {c0 : COpts} : ∀ (fs : List (String × Option Bytes × GoType)) (ks : List (Option Field)) (vs : List GoVal),
    ConfF c0 fs ks vs = true → ks.length = vs.length := by
  intro fs
  induction fs with
  | nil =>
    intro ks vs h
    cases ks <;> cases vs <;> simp [ConfF] at h ⊢
  | cons d fs ih =>
    intro ks vs h
    obtain ⟨n, tg, t⟩ := d
    cases ks with
    | nil => simp [ConfF] at h
    | cons k ks =>
      cases vs with
      | nil => simp [ConfF] at h
      | cons v vs =>
        simp only [ConfF, Bool.and_eq_true] at h
        simp [ih ks vs h.2]

theorem offsets_length : ∀ (fs : List (String × Option Bytes × GoType)) (off : Nat), (offsets fs off).length = fs.length := by
  intro fs
  induction fs with
  | nil => intro off; rfl
  | cons d fs ih =>
    intro off
    obtain ⟨n, tg, t⟩ := d
    simp [offsets, ih]

/-- compileStructBody (compiler.go:449) -/
def structBody (co : COpts) (lib : LibCode) (tab : List GoType) (pc sp : Nat) (pv : Bool) (fs : List (String × Option Bytes × GoType))
    (ks : List (Option Field)) : Program :=
  [Instr.byte 123, Instr.save false, Instr.condSet] ++ codeFields co lib tab sp pv fs ks (offsets fs 0) 0 (pc + 3) ++ [Instr.drop, Instr.byte 125]

theorem structBody_ok {fs : List (String × Option Bytes × GoType)} {ks : List (Option Field)} {vs : List GoVal}
    (hk : keepList fs = some ks) (hS : SubF fs = true) (hK : subK ks = true) (hC : ConfF co fs ks vs = true)
    (hIH : ∀ v ∈ vs, ∀ t, Sub t = true → Conf co t v = true → CodeOK o co t v)
    (hIH2 : ∀ w, GoVal.ptr w ∈ vs → ∀ e, Sub e = true → Conf co e w = true → CodeOK o co e w)
    (lv : Nat) (tab : List GoType) (hlv : libLeft tab ≤ lv)
    (addr fpv : Bool) (P : Program) (pc sp : Nat) (pv : Bool) (r : Regs) (s : Stack) (b : Bytes)
    (hat : At P pc (structBody co (libK co lv) tab pc sp pv fs ks)) (hg : r.p.get = some (.st vs)) (hs : s.length + (needF fs vs + 1) ≤ maxStack) :
    (∀ ms, encF o addr ks vs = .ok ms → ∀ res,
        Halts o co fpv P (pc + (structBody co (libK co lv) tab pc sp pv fs ks).length) r s (b ++ render (.obj ms)) res → Halts o co fpv P pc r s b res) ∧
    (∀ e, encF o addr ks vs = .error e → e = .unsupportedValue ∧ Halts o co fpv P pc r s b (.error (.enc e))) := by
  unfold structBody at hat ⊢
  generalize hcf : codeFields co (libK co lv) tab sp pv fs ks (offsets fs 0) 0 (pc + 3) = cf at hat ⊢
  have hA : At P pc [Instr.byte 123, Instr.save false, Instr.condSet] := hat.left.left
  have hF : At P (pc + 3) cf := At.right' hat.left (by simp)
  have hE : At P (pc + 3 + cf.length) [Instr.drop, Instr.byte 125] := At.right' hat (by simp <;> omega)
  have hsave : ∀ q bb, step o (.save false) q r s bb = .next (q + 1) r (r :: s) bb := by
    intro q bb
    simp only [step]
    rw [if_neg (by omega)]
    simp
  obtain ⟨fok, ferr⟩ := fields_ok (o := o) (co := co) (addr := addr) (fpv := fpv) (P := P) (sp := sp) (pv := pv) hlv r vs hg s hIH hIH2
    fs ks (offsets fs 0) vs 0 (pc + 3) true (b ++ [123]) (keepList_aligned hk) hS hK hC (offsets_length fs 0) (by simp) (by simp; omega) (hcf ▸ hF)
  rw [hcf] at fok
  have pre : ∀ res, Halts o co fpv P (pc + 3) { r with cond := true } (r :: s) (b ++ [123]) res → Halts o co fpv P pc r s b res := by
    intro res h
    refine halts_step (hA.get 0 (by omega) rfl) (by simp only [step]; rfl) ?_
    refine halts_step (hA.get 1 (by omega) rfl) (hsave _ _) ?_
    refine halts_step (hA.get 2 (by omega) rfl) (by simp only [step]; rfl) ?_
    exact h
  constructor
  · intro ms hms res h
    refine pre res (fok ms hms res ?_)
    refine halts_step (hE.get 0 (by omega) rfl) (by simp only [step]; rfl) ?_
    refine halts_step (hE.get 1 (by omega) rfl) (by simp only [step]; rfl) ?_
    exact halts_cast h (by simp <;> omega) rfl rfl (by simp [render_obj])
  · intro e hms
    obtain ⟨h1, h2⟩ := ferr _ hms
    exact ⟨h1, pre _ h2⟩

theorem maxIlbuf_pos : 0 < maxIlbuf := by decide

theorem cutOff_zero (hco : 0 < co.maxInlineDepth) (n : Nat) : cutOff co 0 0 n = false := by
  have := maxIlbuf_pos
  unfold cutOff
  simp
  omega

/-- the object a struct value denotes, as `encV` computes it for both the unnamed and the named struct types -/
theorem mapObj_cases {x : Except EErr (List (Bytes × JVal))}
    {P1 : JVal → Prop} {P2 : EErr → Prop}
    (h1 : ∀ ms, x = .ok ms → P1 (.obj ms)) (h2 : ∀ e, x = .error e → P2 e) :
    (∀ j, x.map JVal.obj = .ok j → P1 j) ∧ (∀ e, x.map JVal.obj = .error e → P2 e) := by
  cases x with
  | ok ms =>
    refine ⟨fun j hj => ?_, fun e he => (by cases he)⟩
    simp only [Except.map] at hj
    injection hj with hj; subst hj
    exact h1 ms rfl
  | error e' =>
    refine ⟨fun j hj => (by cases hj), fun e he => ?_⟩
    simp only [Except.map] at he
    injection he with he; subst he
    exact h2 _ rfl

/-- unnamed structs: inline (compileStructBody) or out of line (OP_recurse runs the struct's own program, compiled at depth 0) -/
theorem codeOK_st (hco : 0 < co.maxInlineDepth)
    {fs : List (String × Option Bytes × GoType)} {vs : List GoVal}
    (hS : Sub (.st fs) = true) (hC : Conf co (.st fs) (.st vs) = true)
    (hIH : ∀ v ∈ vs, ∀ t, Sub t = true → Conf co t v = true → CodeOK o co t v)
    (hIH2 : ∀ w, GoVal.ptr w ∈ vs → ∀ e, Sub e = true → Conf co e w = true → CodeOK o co e w) :
    CodeOKn o co (.st fs) (.st vs) := by
  intro lv tab hlv hnh addr fpv P pc sp pv r s b hat hg hs
  simp only [needV] at hs
  simp only [Sub, Bool.and_eq_true] at hS
  simp only [Conf] at hC
  cases hk : keepList fs with
  | none => rw [hk] at hC; cases hC
  | some ks =>
    rw [hk] at hC hS
    simp only at hC hS
    have hlen := ConfF_length fs ks vs hC
    have henc : encV o addr (.st fs) (.st vs) = (encF o addr ks vs).map .obj := by
      simp only [encV, hk, hlen, beq_self_eq_true, if_true]
    rw [henc]
    rw [code, if_neg (by simp [hnh])] at hat ⊢
    cases hc : cutOff co pc sp fs.length with
    | false =>
      simp only [hc, Bool.false_eq_true, if_false, hk] at hat ⊢
      obtain ⟨bok, berr⟩ := structBody_ok (o := o) hk hS.2 hS.1 hC hIH hIH2 lv (.st fs :: tab) (Nat.le_trans (libLeft_cons_le _ _) hlv)
        addr fpv P pc sp pv r s b hat hg hs
      exact mapObj_cases (fun ms hms res h => bok ms hms res h) (fun e he => berr e he)
    | true =>
      simp only [hc, if_true] at hat ⊢
      have hprog : compile co (.st fs) (fpv || pv) = structBody co (libK co libNames.length) [.st fs] 0 0 (fpv || pv) fs ks := by
        unfold compile
        rw [code, if_neg (by simp [tabHas]), cutOff_zero hco]
        simp only [Bool.false_eq_true, if_false, hk]
        rfl
      obtain ⟨cok, cerr⟩ := structBody_ok (o := o) hk hS.2 hS.1 hC hIH hIH2 libNames.length [.st fs]
        (Nat.le_trans (libLeft_cons_le _ _) (Nat.le_of_eq libLeft_nil)) addr (fpv || pv)
        (structBody co (libK co libNames.length) [.st fs] 0 0 (fpv || pv) fs ks) 0 0 (fpv || pv) (Regs.start r.p) s b (At.whole _) hg hs
      have hstep : step o (Instr.recurse (.st fs) pv) pc r s b = .call (.st fs) pv r.p := by simp only [step]
      refine mapObj_cases (fun ms hms res h => ?_) (fun e he => ?_)
      · refine halts_call (hat.get 0 (by omega) rfl) hstep ?_ (halts_cast h (by simp) rfl rfl rfl)
        rw [hprog]
        exact cok ms hms _ (halts_done (At.end_none (by simp)))
      · obtain ⟨h1, h2⟩ := cerr e he
        refine ⟨h1, halts_callErr (hat.get 0 (by omega) rfl) hstep ?_⟩
        rw [hprog]
        exact h2


/-! ### named struct types -/

theorem lib_facts_aux (fs : List (String × Option Bytes × GoType))
    (h1 : (match keepList fs with | some ks => subK ks | none => false) = true) : ∃ ks, keepList fs = some ks ∧ subK ks = true := by
  cases hk : keepList fs with
  | none => rw [hk] at h1; cases h1
  | some ks => rw [hk] at h1; exact ⟨ks, rfl, h1⟩

theorem lib_facts {n : String} (h : libNames.contains n = true) :
    ∃ fs ks, libStruct n = some fs ∧ keepList fs = some ks ∧ SubF fs = true ∧ subK ks = true := by
  simp [libNames] at h
  rcases h with rfl | rfl
  · obtain ⟨ks, h1, h2⟩ := lib_facts_aux libRec (by decide +kernel)
    exact ⟨libRec, ks, rfl, h1, by decide +kernel, h2⟩
  · obtain ⟨ks, h1, h2⟩ := lib_facts_aux libTree (by decide +kernel)
    exact ⟨libTree, ks, rfl, h1, by decide +kernel, h2⟩

theorem encV_lib {n : String} (h : libNames.contains n = true) {fs : List (String × Option Bytes × GoType)} {ks : List (Option Field)}
    (hls : libStruct n = some fs) (hk : keepList fs = some ks) (addr : Bool) (vs : List GoVal) (hlen : ks.length = vs.length) :
    encV o addr (.lib n) (.st vs) = (encF o addr ks vs).map .obj := by
  simp [libNames] at h
  rcases h with rfl | rfl
  · simp only [libStruct] at hls
    injection hls with hls; subst hls
    simp [encV, libStruct, hk, hlen]
  · simp only [libStruct] at hls
    injection hls with hls; subst hls
    simp [encV, libStruct, hk, hlen]


theorem cbCode_names {n : String} (h : libNames.contains n = true) (pv : Bool) : cbCode n pv = none := by
  simp [libNames] at h
  rcases h with rfl | rfl <;> rfl

/-- named struct types: the body comes from the table, the name is in `tab` while it is compiled -/
theorem codeOK_lib (hco : 0 < co.maxInlineDepth) {n : String} {vs : List GoVal}
    (hS : libNames.contains n = true) (hC : Conf co (.lib n) (.st vs) = true)
    (hIH : ∀ v ∈ vs, ∀ t, Sub t = true → Conf co t v = true → CodeOK o co t v)
    (hIH2 : ∀ w, GoVal.ptr w ∈ vs → ∀ e, Sub e = true → Conf co e w = true → CodeOK o co e w) :
    CodeOKn o co (.lib n) (.st vs) := by
  intro lv tab hlv hnh addr fpv P pc sp pv r s b hat hg hs
  obtain ⟨fs, ks, hls, hk, hSF, hSK⟩ := lib_facts hS
  simp only [Conf, hls, hk] at hC
  simp only [needV, hls] at hs
  have hlen := ConfF_length fs ks vs hC
  rw [encV_lib hS hls hk addr vs hlen]
  have hlt := libLeft_lib_lt hS hnh
  rw [code, if_neg (by simp [hnh])] at hat ⊢
  simp only [cbCode_names hS] at hat ⊢
  cases lv with
  | zero => omega
  | succ lv' =>
    simp only [libK, hls, Option.map, Option.getD] at hat ⊢
    cases hc : cutOff co pc sp fs.length with
    | false =>
      simp only [hc, Bool.false_eq_true, if_false, hk] at hat ⊢
      obtain ⟨bok, berr⟩ := structBody_ok (o := o) hk hSF hSK hC hIH hIH2 lv' (.lib n :: tab) (by omega)
        addr fpv P pc sp pv r s b hat hg hs
      exact mapObj_cases (fun ms hms res h => bok ms hms res h) (fun e he => berr e he)
    | true =>
      simp only [hc, if_true] at hat ⊢
      have hl1 : libLeft [GoType.lib n] ≤ 1 := by
        have := libLeft_lib_lt (tab := []) hS rfl
        rw [libLeft_nil] at this
        simp [libNames] at this
        omega
      have hprog : compile co (.lib n) (fpv || pv) = structBody co (libK co 1) [.lib n] 0 0 (fpv || pv) fs ks := by
        unfold compile
        rw [code, if_neg (by simp [tabHas])]
        simp only [cbCode_names hS, libNames, List.length_cons, List.length_nil, libK, hls, Option.map, Option.getD, cutOff_zero hco,
          Bool.false_eq_true, if_false, hk]
        rfl
      obtain ⟨cok, cerr⟩ := structBody_ok (o := o) hk hSF hSK hC hIH hIH2 1 [.lib n] hl1 addr (fpv || pv)
        (structBody co (libK co 1) [.lib n] 0 0 (fpv || pv) fs ks) 0 0 (fpv || pv) (Regs.start r.p) s b (At.whole _) hg hs
      have hstep : step o (Instr.recurse (.lib n) pv) pc r s b = .call (.lib n) pv r.p := by simp only [step]
      refine mapObj_cases (fun ms hms res h => ?_) (fun e he => ?_)
      · refine halts_call (hat.get 0 (by omega) rfl) hstep ?_ (halts_cast h (by simp) rfl rfl rfl)
        rw [hprog]
        exact cok ms hms _ (halts_done (At.end_none (by simp)))
      · obtain ⟨h1, h2⟩ := cerr e he
        refine ⟨h1, halts_callErr (hat.get 0 (by omega) rfl) hstep ?_⟩
        rw [hprog]
        exact h2

end SonicSpec.Ir
