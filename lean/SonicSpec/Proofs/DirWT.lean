/-
  Decoder IR: values of the right shape (`WT T v`): what the machine relies on when it follows offsets, and what the
  zero value of a type is.
-/
import SonicSpec.Proofs.DirSkip
namespace SonicSpec.Dir
open SonicSpec SonicSpec.Go SonicSpec.Json SonicSpec.Bind SonicSpec.Stream

/-- the dynamic type is not a pointer (what the generic decoder stores) -/
def notPtrT : GoType → Bool
  | .ptr _ => false
  | _ => true

mutual
/-- `v` has the shape of a value of type `T` (sub-universe of the theorem) -/
def WT : GoType → GoVal → Bool
  | .bool, .bool _ => true
  | .int _, .int _ => true
  | .uint _, .uint _ => true
  | .str, .str _ => true
  | .f32, .f32 _ => true
  | .f64, .f64 _ => true
  | .any, .nil => true
  | .any, .any t _ => notPtrT t
  | .ptr _, .nil => true
  | .ptr t, .ptr v => WT t v
  | .sl _, .nil => true
  | .sl t, .sl xs => WTs t xs
  | .arr n t, .arr xs => xs.length == n && WTs t xs
  | .st fs, .st vs => WTf fs vs
  | _, _ => false
def WTs : GoType → List GoVal → Bool
  | _, [] => true
  | t, x :: xs => WT t x && WTs t xs
def WTf : List (String × Option Bytes × GoType) → List GoVal → Bool
  | [], [] => true
  | (_, _, t) :: fs, v :: vs => WT t v && WTf fs vs
  | _, _ => false
end

theorem wts_iff (t : GoType) : ∀ (xs : List GoVal), WTs t xs = true ↔ ∀ x ∈ xs, WT t x = true
  | [] => by simp [WTs]
  | x :: xs => by simp [WTs, wts_iff t xs]

theorem wts_replicate (t : GoType) (v : GoVal) (h : WT t v = true) (n : Nat) : WTs t (List.replicate n v) = true := by
  rw [wts_iff]; intro x hx; rw [(List.mem_replicate.mp hx).2]; exact h

theorem wts_append (t : GoType) (xs ys : List GoVal) : WTs t (xs ++ ys) = true ↔ WTs t xs = true ∧ WTs t ys = true := by
  simp only [wts_iff, List.mem_append]
  constructor
  · intro h; exact ⟨fun x hx => h x (Or.inl hx), fun x hx => h x (Or.inr hx)⟩
  · intro h x hx; cases hx with
    | inl hx => exact h.1 x hx
    | inr hx => exact h.2 x hx

theorem wtf_length : ∀ (fs : List (String × Option Bytes × GoType)) (vs : List GoVal), WTf fs vs = true → vs.length = fs.length
  | [], [], _ => rfl
  | [], _ :: _, h => by simp [WTf] at h
  | _ :: _, [], h => by simp [WTf] at h
  | (_, _, t) :: fs, v :: vs, h => by
    simp only [WTf, Bool.and_eq_true] at h
    simp [wtf_length fs vs h.2]

theorem wtf_get : ∀ (fs : List (String × Option Bytes × GoType)) (vs : List GoVal), WTf fs vs = true →
    ∀ (i : Nat) (f : String × Option Bytes × GoType) (v : GoVal), fs[i]? = some f → vs[i]? = some v → WT f.2.2 v = true
  | [], [], _, i, f, v, hf, _ => by simp at hf
  | [], _ :: _, h, _, _, _, _, _ => by simp [WTf] at h
  | _ :: _, [], h, _, _, _, _, _ => by simp [WTf] at h
  | (n, tg, t) :: fs, w :: vs, h, i, f, v, hf, hv => by
    simp only [WTf, Bool.and_eq_true] at h
    cases i with
    | zero => simp at hf hv; subst hf; subst hv; exact h.1
    | succ i => simp at hf hv; exact wtf_get fs vs h.2 i f v hf hv

theorem wtf_set : ∀ (fs : List (String × Option Bytes × GoType)) (vs : List GoVal), WTf fs vs = true →
    ∀ (i : Nat) (f : String × Option Bytes × GoType) (v : GoVal), fs[i]? = some f → WT f.2.2 v = true → WTf fs (vs.set i v) = true
  | [], [], _, i, f, v, hf, _ => by simp at hf
  | [], _ :: _, h, _, _, _, _, _ => by simp [WTf] at h
  | _ :: _, [], h, _, _, _, _, _ => by simp [WTf] at h
  | (n, tg, t) :: fs, w :: vs, h, i, f, v, hf, hv => by
    simp only [WTf, Bool.and_eq_true] at h
    cases i with
    | zero => simp at hf; subst hf; simp only [List.set_cons_zero, WTf, Bool.and_eq_true]; exact ⟨hv, h.2⟩
    | succ i =>
      simp at hf
      simp only [List.set_cons_succ, WTf, Bool.and_eq_true]
      exact ⟨h.1, wtf_set fs vs h.2 i f v hf hv⟩

mutual
theorem wt_zero : ∀ (T : GoType), Sub T = true → WT T (zeroOf T) = true
  | .bool, _ => by simp [zeroOf, WT]
  | .int _, _ => by simp [zeroOf, WT]
  | .uint _, _ => by simp [zeroOf, WT]
  | .str, _ => by simp [zeroOf, WT]
  | .f32, _ => by simp [zeroOf, WT]
  | .f64, _ => by simp [zeroOf, WT]
  | .any, _ => by simp [zeroOf, WT]
  | .ptr _, _ => by simp [zeroOf, WT]
  | .sl _, _ => by simp [zeroOf, WT]
  | .arr n t, h => by
    simp only [Sub] at h
    simp only [zeroOf, WT, List.length_replicate, beq_self_eq_true, Bool.true_and]
    exact wts_replicate t _ (wt_zero t h) n
  | .st fs, h => by
    simp only [Sub, Bool.and_eq_true] at h
    simp only [zeroOf, WT]
    exact wt_zeroF fs h.1
  | .num, h | .bytes, h | .raw, h | .map _ _, h | .lib _, h => by simp [Sub] at h
theorem wt_zeroF : ∀ (fs : List (String × Option Bytes × GoType)), SubF fs = true → WTf fs (zeroFields fs) = true
  | [], _ => by simp [zeroFields, WTf]
  | (n, tg, t) :: fs, h => by
    simp only [SubF, Bool.and_eq_true] at h
    simp only [zeroFields, WTf, Bool.and_eq_true]
    exact ⟨wt_zero t h.1, wt_zeroF fs h.2⟩
end

/-- what `_OP_deref` finds behind a pointer (allocating the zero value when it is nil) -/
def derefCur (t : GoType) : GoVal → GoVal
  | .ptr v => v
  | _ => zeroOf t

theorem wt_derefCur {t : GoType} {c : GoVal} (hs : Sub t = true) (h : WT (.ptr t) c = true) : WT t (derefCur t c) = true := by
  cases c <;> simp_all [WT, derefCur, wt_zero]

theorem peel_zero : ∀ (t : GoType), peel t (zeroOf t) = zeroOf (ptrBase t)
  | .ptr t => by simp [zeroOf, peel, ptrBase]
  | .bool | .int _ | .uint _ | .f32 | .f64 | .str | .num | .bytes | .raw | .any | .sl _ | .arr _ _ | .map _ _ | .st _ | .lib _ => by
    simp [peel, ptrBase]

theorem peel_ptr (t : GoType) (c : GoVal) : peel (.ptr t) c = peel t (derefCur t c) := by
  cases c <;> simp [peel, derefCur, peel_zero]

end SonicSpec.Dir
