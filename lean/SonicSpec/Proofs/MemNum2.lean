/-
  do_skip_number, vector side, and the assembly: every list of block widths accepts exactly the numbers
  the scalar code accepts, with the same length.
-/
import SonicSpec.Model.MemScan
import SonicSpec.Proofs.Mem
import SonicSpec.Proofs.MemNum
namespace SonicSpec.Mem

/-! ### the prefix in front of the first non-number character -/

theorem ctz_none_all (p : UInt8 → Bool) : ∀ (bs : Bytes), ctz (bs.map p) = none → ∀ b ∈ bs, p b = false
  | [], _, b, hb => by cases hb
  | c :: r, h, b, hb => by
    simp only [List.map_cons] at h
    cases hc : p c with
    | true => simp [hc, ctz] at h
    | false =>
      simp only [hc, ctz, Option.map_eq_none_iff] at h
      rcases List.mem_cons.mp hb with rfl | hb'
      · exact hc
      · exact ctz_none_all p r h b hb'

theorem ctz_some_split (p : UInt8 → Bool) : ∀ (bs : Bytes) (i : Nat), ctz (bs.map p) = some i →
    (∀ b ∈ bs.take i, p b = false) ∧ (bs.take i).length = i ∧ ∃ c rest, bs = bs.take i ++ c :: rest ∧ p c = true
  | [], i, h => by simp [ctz] at h
  | c :: r, i, h => by
    simp only [List.map_cons] at h
    cases hc : p c with
    | true =>
      simp only [hc, ctz, Option.some.injEq] at h
      subst h
      exact ⟨by simp, by simp, c, r, by simp, hc⟩
    | false =>
      simp only [hc, ctz, Option.map_eq_some_iff] at h
      obtain ⟨j, hj, rfl⟩ := h
      obtain ⟨h1, h2, c', rest, h3, h4⟩ := ctz_some_split p r j hj
      refine ⟨?_, by simp [h2], c', rest, ?_, h4⟩
      · intro b hb
        simp only [List.take_succ_cons, List.mem_cons] at hb
        rcases hb with rfl | hb
        · exact hc
        · exact h1 b hb
      · simp only [List.take_succ_cons, List.cons_append]
        rw [← h3]

/-! ### one slot of the vector round -/

theorem vidx_ok (k : UInt8 → Bool) (iv : Int) (pre : Bytes) (off : Nat) (h : slotOK k iv pre) :
    vidx iv (pre.map k) off = .inl (slotNew k iv off pre) := by
  simp only [vidx, slotNew]
  cases hc : ctz (pre.map k) with
  | none =>
    simp only
    split <;> simp_all
  | some j =>
    have hiv : iv = -1 := by
      rcases h.2 with h2 | h2
      · rw [hc] at h2; cases h2
      · exact h2
    simp [hiv]

theorem vidx_bad (k : UInt8 → Bool) (iv : Int) (pre : Bytes) (off : Nat) (hs : second (pre.map k) = none)
    (h : ¬ slotOK k iv pre) : ∃ r, r < 0 ∧ vidx iv (pre.map k) off = .inr r := by
  simp only [slotOK, hs, true_and, not_or] at h
  simp only [vidx]
  cases hc : ctz (pre.map k) with
  | none => exact absurd hc h.1
  | some j =>
    have : (iv == -1) = false := by simpa using h.2
    simp only [this, Bool.false_eq_true, if_false]
    exact ⟨_, by omega, rfl⟩

/-! ### the vector round -/

/-- the round in terms of the prefix `pre` of number characters and whether it fills the block -/
theorem numBlk_pre (st : NumSt) (off : Nat) (bs pre : Bytes) (full : Bool)
    (hi : numCut bs = pre.length)
    (hpre : pre = bs.take pre.length) (hfull : full = (pre.length == bs.length)) :
    ((slotOK isDot st.di pre ∧ slotOK isExp st.ei pre ∧ slotOK isSign st.si pre) →
      numBlk st off bs =
        (let st' : NumSt := ⟨slotNew isDot st.di off pre, slotNew isExp st.ei off pre, slotNew isSign st.si off pre⟩
         if full then .cont st' else .done (checkIndex st' ((off + pre.length : Nat) : Int)))) ∧
    (¬ (slotOK isDot st.di pre ∧ slotOK isExp st.ei pre ∧ slotOK isSign st.si pre) →
      ∃ r, r < 0 ∧ numBlk st off bs = .done r) := by
  have emd : (bs.map isDot).take pre.length = pre.map isDot := by rw [← List.map_take, ← hpre]
  have eme : (bs.map isExp).take pre.length = pre.map isExp := by rw [← List.map_take, ← hpre]
  have ems : (bs.map isSign).take pre.length = pre.map isSign := by rw [← List.map_take, ← hpre]
  simp only [numBlk, hi, emd, eme, ems]
  constructor
  · intro ⟨hd, he, hs⟩
    simp only [hd.1, he.1, hs.1, vidx_ok _ _ _ off hd, vidx_ok _ _ _ off he, vidx_ok _ _ _ off hs, hfull]
    by_cases hEq : pre.length = bs.length
    · simp [hEq]
    · simp [hEq]
  · intro hnot
    cases hsd : second (pre.map isDot) with
    | some k => exact ⟨_, by omega, rfl⟩
    | none =>
      cases hse : second (pre.map isExp) with
      | some k => exact ⟨_, by omega, rfl⟩
      | none =>
        cases hss : second (pre.map isSign) with
        | some k => exact ⟨_, by omega, rfl⟩
        | none =>
          simp only
          by_cases hd : slotOK isDot st.di pre
          · rw [vidx_ok _ _ _ off hd]
            simp only
            by_cases he : slotOK isExp st.ei pre
            · rw [vidx_ok _ _ _ off he]
              simp only
              have hs : ¬ slotOK isSign st.si pre := fun hs => hnot ⟨hd, he, hs⟩
              obtain ⟨r, hr, hv⟩ := vidx_bad _ _ _ off hss hs
              rw [hv]
              exact ⟨r, hr, rfl⟩
            · obtain ⟨r, hr, hv⟩ := vidx_bad _ _ _ off hse he
              rw [hv]
              exact ⟨r, hr, rfl⟩
          · obtain ⟨r, hr, hv⟩ := vidx_bad _ _ _ off hsd hd
            rw [hv]
            exact ⟨r, hr, rfl⟩

/-- the relation between the scalar code over a block and the vector round: equal unless both reject -/
theorem numBlk_sim (st : NumSt) (off : Nat) (bs : Bytes) :
    foldSteps numStep st off bs = numBlk st off bs ∨
    (∃ r r', r < 0 ∧ r' < 0 ∧ foldSteps numStep st off bs = .done r ∧ numBlk st off bs = .done r') := by
  cases hc : ctz (bs.map fun b => !isNumCh b) with
  | none =>
    -- the whole block consists of number characters
    have hall : ∀ b ∈ bs, isNumCh b = true := by
      intro b hb
      have := ctz_none_all (fun b => !isNumCh b) bs hc b hb
      simpa using this
    have hb := numBlk_pre st off bs bs true (by simp only [numCut, hc]) (by simp) (by simp)
    have hf := numFold_pre bs st off hall
    by_cases hok : slotOK isDot st.di bs ∧ slotOK isExp st.ei bs ∧ slotOK isSign st.si bs
    · left
      rw [hf.1 hok, hb.1 hok]
      simp
    · right
      obtain ⟨r, hr, h1⟩ := hf.2 hok
      obtain ⟨r', hr', h2⟩ := hb.2 hok
      exact ⟨r, r', hr, hr', h1, h2⟩
  | some i =>
    obtain ⟨hpre, hlen, c, rest, hsplit, hcn⟩ := ctz_some_split (fun b => !isNumCh b) bs i hc
    have hall : ∀ b ∈ bs.take i, isNumCh b = true := by
      intro b hb
      have := hpre b hb
      simpa using this
    have hcn' : isNumCh c = false := by simpa using hcn
    have hlt : i < bs.length := by
      have := congrArg List.length hsplit
      simp only [List.length_append, List.length_cons, hlen] at this
      omega
    have hb := numBlk_pre st off bs (bs.take i) false (by simp only [numCut, hc, hlen]) (by rw [hlen]) (by
      rw [hlen]
      have : (i == bs.length) = false := by simpa using (Nat.ne_of_lt hlt)
      rw [this])
    have hf := numFold_pre (bs.take i) st off hall
    have happ := foldSteps_append numStep (bs.take i) (c :: rest) st off
    rw [← hsplit] at happ
    by_cases hok : slotOK isDot st.di (bs.take i) ∧ slotOK isExp st.ei (bs.take i) ∧ slotOK isSign st.si (bs.take i)
    · left
      rw [happ, hf.1 hok, hb.1 hok]
      simp only [isNumCh, Bool.or_eq_false_iff] at hcn'
      obtain ⟨⟨⟨c1, c2⟩, c3⟩, c4⟩ := hcn'
      simp [foldSteps, numStep, c1, c2, c3, c4, hlen]
    · right
      obtain ⟨r, hr, h1⟩ := hf.2 hok
      obtain ⟨r', hr', h2⟩ := hb.2 hok
      exact ⟨r, r', hr, hr', by rw [happ, h1], h2⟩

/-! ### assembly -/

theorem accept_neg (r : Int) (h : r < 0) : accept r = none := by simp [accept, h]

theorem numScan_blk_tail {rd : Rd} (len : Nat) (st : NumSt) (off : Nat) (bs : Bytes)
    (hle : off + bs.length ≤ len) (hl : loadW rd bs.length off = some bs) :
    (numScan.tail rd len st off).map accept =
      (match numScan.blk st off bs with
       | .done r => some (accept r)
       | .cont st' => (numScan.tail rd len st' (off + bs.length)).map accept) := by
  show (scalarLoop numStep (fun st off => checkIndex st off) rd len st off).map accept =
      (match numBlk st off bs with
       | .done r => some (accept r)
       | .cont st' => (scalarLoop numStep (fun st off => checkIndex st off) rd len st' (off + bs.length)).map accept)
  rw [scalarLoop_block numStep _ len bs st off hle hl]
  rcases numBlk_sim st off bs with h | ⟨r, r', hr, hr', h1, h2⟩
  · rw [h]
    cases numBlk st off bs <;> rfl
  · rw [h1, h2]
    simp [accept_neg r hr, accept_neg r' hr']

/-- every list of block widths accepts what the scalar code accepts, with the same length -/
theorem doSkipNumber_accept_eq_scalar {rd : Rd} (nb : Nat) (h : ∀ i, i < nb → rd i ≠ none) (Ws : List Nat) :
    (doSkipNumber Ws rd nb).map accept = (doSkipNumber [] rd nb).map accept := by
  have hrun : (numScan.run rd nb Ws ⟨-1, -1, -1⟩ 0).map accept = (numScan.run rd nb [] ⟨-1, -1, -1⟩ 0).map accept := by
    rw [run_eq_tail_proj numScan accept (rd := rd) nb (fun _ => True) (fun _ _ _ _ _ _ => trivial)
      (fun st off bs _ hle hl => by
        rw [numScan_blk_tail nb st off bs hle hl]
        cases numScan.blk st off bs <;> rfl) Ws _ 0 trivial h, Scan.run.eq_1]
  simp only [doSkipNumber]
  by_cases h0 : nb = 0
  · simp only [if_pos h0]
  · simp only [if_neg h0]
    cases rd 0 with
    | none => rfl
    | some c0 =>
      simp only
      split
      · rfl
      · rfl
      · exact hrun

end SonicSpec.Mem
