/-
  C02: the shared recursive-descent tree parser (`Json.parseDoc`, Model/JsonTree.lean - the model of "a valid
  JSON text" that the other properties build on) against the `Strict` grammar.
-/
import SonicSpec.Proofs.JsonFsm
import SonicSpec.Proofs.JsonGrammar
namespace SonicSpec.Json

theorem simpleEsc_of_or {e : UInt8}
    (h : (e == 34 || e == 92 || e == 47 || e == 98 || e == 102 || e == 110 || e == 114 || e == 116) = true) :
    isSimpleEsc e = true := h

theorem scanString_sound : ∀ (s body t : Bytes), scanString s = some (body, t) →
    s = body ++ 34 :: t ∧ StrictBody body := by
  intro s
  induction s using scanString.induct with
  | case1 => intro body t h; simp [scanString] at h
  | case2 r =>
    intro body t h
    simp only [scanString, Option.some.injEq, Prod.mk.injEq] at h
    obtain ⟨rfl, rfl⟩ := h
    exact ⟨rfl, .nil⟩
  | case3 a b c d r hx ih =>
    intro body t h
    simp only [scanString, hx, if_true, Option.map_eq_some_iff] at h
    obtain ⟨⟨b0, t0⟩, h0, h1⟩ := h
    simp only [Prod.mk.injEq] at h1
    obtain ⟨rfl, rfl⟩ := h1
    obtain ⟨rfl, hb⟩ := ih b0 t0 h0
    simp only [Bool.and_eq_true] at hx
    exact ⟨rfl, .uni a b c d b0 hx.1.1.1 hx.1.1.2 hx.1.2 hx.2 hb⟩
  | case4 a b c d r hx =>
    intro body t h
    simp [scanString, hx] at h
  | case5 e r hne he ih =>
    intro body t h
    rw [scanString] at h
    · simp only [he, if_true, Option.map_eq_some_iff] at h
      obtain ⟨⟨b0, t0⟩, h0, h1⟩ := h
      simp only [Prod.mk.injEq] at h1
      obtain ⟨rfl, rfl⟩ := h1
      obtain ⟨rfl, hb⟩ := ih b0 t0 h0
      exact ⟨rfl, .esc e b0 (simpleEsc_of_or he) hb⟩
    · exact hne
  | case6 e r hne he =>
    intro body t h
    rw [scanString] at h
    · simp [he] at h
    · exact hne
  | case7 c r h1 h2 h3 hc =>
    intro body t h
    rw [scanString] at h
    · simp [hc] at h
    · exact h1
    · exact h2
    · exact h3
  | case8 c r h1 h2 h3 hc ih =>
    intro body t h
    rw [scanString] at h
    · simp only [hc, Bool.false_eq_true, if_false, Option.map_eq_some_iff] at h
      obtain ⟨⟨b0, t0⟩, h0, h4⟩ := h
      simp only [Prod.mk.injEq] at h4
      obtain ⟨rfl, rfl⟩ := h4
      obtain ⟨rfl, hb⟩ := ih b0 t0 h0
      simp only [Bool.or_eq_true, decide_eq_true_eq, beq_iff_eq, not_or, UInt8.not_lt] at hc
      exact ⟨rfl, .plain c b0 hc.1 (fun e => h1 e) hc.2 hb⟩
    · exact h1
    · exact h2
    · exact h3

/-! ### numbers: `scanNumber` cut into its four parts -/

def snSign (s : Bytes) : Bytes × Bytes := match s with
  | 45 :: r => ([45], r)
  | _ => ([], s)
def snInt (s1 : Bytes) : Option (Bytes × Bytes) := match s1 with
  | 48 :: r => some ([48], r)
  | c :: r => if isDigit c then let (d, t) := takeDigits r; some (c :: d, t) else none
  | [] => none
def snFrac (s2 : Bytes) : Option (Bytes × Bytes) := match s2 with
  | 46 :: r => let (d, t) := takeDigits r; if d.isEmpty then none else some (46 :: d, t)
  | _ => some ([], s2)
def snExp (s3 : Bytes) : Option (Bytes × Bytes) := match s3 with
  | c :: r =>
    if c == 101 || c == 69 then
      let (sg, r2) : Bytes × Bytes := match r with
        | 43 :: r' => ([43], r')
        | 45 :: r' => ([45], r')
        | _ => ([], r)
      let (d, t) := takeDigits r2
      if d.isEmpty then none else some (c :: (sg ++ d), t)
    else some ([], s3)
  | [] => some ([], s3)

theorem scanNumber_eq (s : Bytes) : scanNumber s =
    match snInt (snSign s).2 with
    | none => none
    | some (ip, s2) =>
      match snFrac s2 with
      | none => none
      | some (fp, s3) =>
        match snExp s3 with
        | none => none
        | some (ep, s4) => some ((snSign s).1 ++ ip ++ fp ++ ep, s4) := by
  unfold scanNumber snSign snInt snFrac snExp
  rfl

theorem takeDigits_spec : ∀ (s : Bytes), (takeDigits s).1 ++ (takeDigits s).2 = s ∧ AllDigits (takeDigits s).1 := by
  intro s
  induction s with
  | nil => exact ⟨rfl, allDigits_nil⟩
  | cons c r ih =>
    unfold takeDigits
    by_cases hc : isDigit c = true
    · simp only [hc, if_true]
      exact ⟨by simp [ih.1], allDigits_cons hc ih.2⟩
    · simp only [hc, Bool.false_eq_true, if_false]
      exact ⟨rfl, allDigits_nil⟩

theorem snInt_sound {s1 ip s2 : Bytes} (h : snInt s1 = some (ip, s2)) : s1 = ip ++ s2 ∧ IntPart ip := by
  unfold snInt at h
  split at h
  · cases h; exact ⟨rfl, .zero⟩
  · rename_i c r hne
    by_cases hc : isDigit c = true
    · simp only [hc, if_true, Option.some.injEq, Prod.mk.injEq] at h
      obtain ⟨rfl, rfl⟩ := h
      have := takeDigits_spec r
      refine ⟨by simp [this.1], .nz c _ hc ?_ this.2⟩
      intro e; subst e; simp at hne
    · simp [hc] at h
  · cases h

theorem snFrac_sound {s2 fp s3 : Bytes} (h : snFrac s2 = some (fp, s3)) : s2 = fp ++ s3 ∧ FracPart fp := by
  unfold snFrac at h
  split at h
  · rename_i r
    have := takeDigits_spec r
    by_cases he : (takeDigits r).1.isEmpty = true
    · simp [he] at h
    · simp only [he, Bool.false_eq_true, if_false, Option.some.injEq, Prod.mk.injEq] at h
      obtain ⟨rfl, rfl⟩ := h
      refine ⟨by simp [this.1], .some _ ?_ this.2⟩
      intro e; rw [e] at he; simp at he
  · cases h; exact ⟨rfl, .none⟩

theorem snExp_sound {s3 ep s4 : Bytes} (h : snExp s3 = some (ep, s4)) : s3 = ep ++ s4 ∧ ExpPart ep := by
  unfold snExp at h
  split at h
  · rename_i c r
    by_cases hc : (c == 101 || c == 69) = true
    · have hc' : c = 101 ∨ c = 69 := by simpa using hc
      simp only [hc, if_true] at h
      split at h
      · rename_i r'
        have := takeDigits_spec r'
        by_cases he : (takeDigits r').1.isEmpty = true
        · simp [he] at h
        · simp only [he, Bool.false_eq_true, if_false, Option.some.injEq, Prod.mk.injEq] at h
          obtain ⟨rfl, rfl⟩ := h
          have hne : (takeDigits r').1 ≠ [] := by intro e; rw [e] at he; simp at he
          exact ⟨by simp [this.1], by simpa using ExpPart.signed c 43 (takeDigits r').1 hc' (Or.inl rfl) hne this.2⟩
      · rename_i r'
        have := takeDigits_spec r'
        by_cases he : (takeDigits r').1.isEmpty = true
        · simp [he] at h
        · simp only [he, Bool.false_eq_true, if_false, Option.some.injEq, Prod.mk.injEq] at h
          obtain ⟨rfl, rfl⟩ := h
          have hne : (takeDigits r').1 ≠ [] := by intro e; rw [e] at he; simp at he
          exact ⟨by simp [this.1], by simpa using ExpPart.signed c 45 (takeDigits r').1 hc' (Or.inr rfl) hne this.2⟩
      · have := takeDigits_spec r
        by_cases he : (takeDigits r).1.isEmpty = true
        · simp [he] at h
        · simp only [he, Bool.false_eq_true, if_false, Option.some.injEq, Prod.mk.injEq] at h
          obtain ⟨rfl, rfl⟩ := h
          have hne : (takeDigits r).1 ≠ [] := by intro e; rw [e] at he; simp at he
          exact ⟨by simp [this.1], by simpa using ExpPart.unsigned c (takeDigits r).1 hc' hne this.2⟩
    · simp only [hc, Bool.false_eq_true, if_false, Option.some.injEq, Prod.mk.injEq] at h
      obtain ⟨rfl, rfl⟩ := h
      exact ⟨rfl, .none⟩
  · cases h; exact ⟨rfl, .none⟩

theorem scanNumber_sound {s lit rest : Bytes} (h : scanNumber s = some (lit, rest)) : s = lit ++ rest ∧ Number lit := by
  rw [scanNumber_eq] at h
  cases hi : snInt (snSign s).2 with
  | none => rw [hi] at h; cases h
  | some p1 =>
    obtain ⟨ip, s2⟩ := p1
    rw [hi] at h
    simp only at h
    cases hf : snFrac s2 with
    | none => rw [hf] at h; cases h
    | some p2 =>
      obtain ⟨fp, s3⟩ := p2
      rw [hf] at h
      simp only at h
      cases he : snExp s3 with
      | none => rw [he] at h; cases h
      | some p3 =>
        obtain ⟨ep, s4⟩ := p3
        rw [he] at h
        simp only [Option.some.injEq, Prod.mk.injEq] at h
        obtain ⟨rfl, rfl⟩ := h
        obtain ⟨e1, h1⟩ := snInt_sound hi
        obtain ⟨e2, h2⟩ := snFrac_sound hf
        obtain ⟨e3, h3⟩ := snExp_sound he
        have hb : NumBody (ip ++ (fp ++ ep)) := .mk ip fp ep h1 h2 h3
        unfold snSign at e1 ⊢
        split at e1
        · rename_i r
          simp only at e1 ⊢
          refine ⟨by rw [e1, e2, e3]; simp, ?_⟩
          have : [45] ++ ip ++ fp ++ ep = 45 :: (ip ++ (fp ++ ep)) := by simp
          rw [this]; exact .neg _ hb
        · simp only at e1 ⊢
          refine ⟨by rw [e1, e2, e3]; simp, ?_⟩
          have : [] ++ ip ++ fp ++ ep = ip ++ (fp ++ ep) := by simp
          rw [this]; exact .pos _ hb

/-! ### the recursive descent is sound for the Strict grammar -/

theorem parseVal_zero (s : Bytes) : parseVal 0 s = none := by unfold parseVal; rfl
theorem parseElems_zero (s : Bytes) : parseElems 0 s = none := by unfold parseElems; rfl
theorem parseMembers_zero (s : Bytes) : parseMembers 0 s = none := by unfold parseMembers; rfl

theorem ws_split (s : Bytes) : ∃ w, s = w ++ skipWs s ∧ AllSpace w := by
  obtain ⟨w, h1, h2, _⟩ := skipWs_spec s
  exact ⟨w, h1, h2⟩

/-- what `parseElems` consumed: an element and what may follow it -/
def ElemsText (s r : Bytes) : Prop :=
  ∃ kv m v tl, s = v ++ (tl ++ r) ∧ Val StrictBody kv v ∧ ArrTail StrictBody m tl

/-- what `parseMembers` consumed: a member and what may follow it -/
def MembersText (s r : Bytes) : Prop :=
  ∃ key w1 w2 kv m v tl, s = 34 :: (key ++ 34 :: (w1 ++ 58 :: (w2 ++ (v ++ (tl ++ r))))) ∧
    StrictBody key ∧ AllSpace w1 ∧ AllSpace w2 ∧ Val StrictBody kv v ∧ ObjTail StrictBody m tl

theorem parse_sound : ∀ n : Nat,
    (∀ s v r, parseVal n s = some (v, r) → ∃ k t, s = t ++ r ∧ Val StrictBody k t) ∧
    (∀ s xs r, parseElems n s = some (xs, r) → ElemsText s r) ∧
    (∀ s kvs r, parseMembers n s = some (kvs, r) → MembersText s r) := by
  intro n
  induction n with
  | zero => simp [parseVal_zero, parseElems_zero, parseMembers_zero]
  | succ n ih =>
    obtain ⟨ihv, ihe, ihm⟩ := ih
    refine ⟨?_, ?_, ?_⟩
    · intro s v r h
      unfold parseVal at h
      split at h
      · cases h; exact ⟨0, [110, 117, 108, 108], rfl, .nul⟩
      · cases h; exact ⟨0, [116, 114, 117, 101], rfl, .tru⟩
      · cases h; exact ⟨0, [102, 97, 108, 115, 101], rfl, .fls⟩
      · rename_i r0
        simp only [Option.map_eq_some_iff] at h
        obtain ⟨⟨b, t⟩, h0, h1⟩ := h
        simp only [Option.some.injEq, Prod.mk.injEq] at h1
        obtain ⟨_, rfl⟩ := h1
        obtain ⟨rfl, hb⟩ := scanString_sound _ _ _ h0
        exact ⟨0, 34 :: (b ++ [34]), by simp, .str b hb⟩
      · rename_i r0
        obtain ⟨w, hw1, hw2⟩ := ws_split r0
        split at h
        · rename_i t heq
          cases h
          rw [heq] at hw1
          exact ⟨1, 91 :: (w ++ [93]), by rw [hw1]; simp, .arr 1 _ (.empty w hw2)⟩
        · simp only [Option.map_eq_some_iff] at h
          obtain ⟨⟨xs, t⟩, h0, h1⟩ := h
          simp only [Option.some.injEq, Prod.mk.injEq] at h1
          obtain ⟨_, rfl⟩ := h1
          obtain ⟨kv, m, v1, tl, he, hv, htl⟩ := ihe _ _ _ h0
          rw [he] at hw1
          exact ⟨_, 91 :: (w ++ (v1 ++ tl)), by rw [hw1]; simp, .arr _ _ (.elems w v1 tl kv m hw2 hv htl)⟩
      · rename_i r0
        obtain ⟨w, hw1, hw2⟩ := ws_split r0
        split at h
        · rename_i t heq
          cases h
          rw [heq] at hw1
          exact ⟨1, 123 :: (w ++ [125]), by rw [hw1]; simp, .obj 1 _ (.empty w hw2)⟩
        · simp only [Option.map_eq_some_iff] at h
          obtain ⟨⟨kvs, t⟩, h0, h1⟩ := h
          simp only [Option.some.injEq, Prod.mk.injEq] at h1
          obtain ⟨_, rfl⟩ := h1
          obtain ⟨key, w1, w2, kv, m, v1, tl, he, hk, hw1', hw2', hv, htl⟩ := ihm _ _ _ h0
          rw [he] at hw1
          exact ⟨_, 123 :: (w ++ 34 :: (key ++ 34 :: (w1 ++ 58 :: (w2 ++ (v1 ++ tl))))), by rw [hw1]; simp,
            .obj _ _ (.members w key w1 w2 v1 tl kv m hw2 hk hw1' hw2' hv htl)⟩
      · simp only [Option.map_eq_some_iff] at h
        obtain ⟨⟨l, t⟩, h0, h1⟩ := h
        simp only [Option.some.injEq, Prod.mk.injEq] at h1
        obtain ⟨_, rfl⟩ := h1
        obtain ⟨rfl, hn⟩ := scanNumber_sound h0
        exact ⟨0, l, rfl, .num l hn⟩
    · intro s xs r h
      unfold parseElems at h
      cases hv : parseVal n s with
      | none => rw [hv] at h; cases h
      | some p =>
        obtain ⟨v, r1⟩ := p
        rw [hv] at h
        simp only at h
        obtain ⟨kv, tv, rfl, hval⟩ := ihv _ _ _ hv
        obtain ⟨w, hw1, hw2⟩ := ws_split r1
        split at h
        · rename_i t heq
          simp only [Option.map_eq_some_iff] at h
          obtain ⟨⟨ys, t'⟩, h0, h1⟩ := h
          simp only [Option.some.injEq, Prod.mk.injEq] at h1
          obtain ⟨_, rfl⟩ := h1
          obtain ⟨w', hw1', hw2'⟩ := ws_split t
          obtain ⟨kv2, m2, v2, tl2, he, hv2, htl2⟩ := ihe _ _ _ h0
          rw [heq, hw1', he] at hw1
          exact ⟨kv, _, tv, w ++ 44 :: (w' ++ (v2 ++ tl2)), by rw [hw1]; simp, hval,
            .more w w' v2 tl2 kv2 m2 hw2 hw2' hv2 htl2⟩
        · rename_i t heq
          cases h
          rw [heq] at hw1
          exact ⟨kv, 1, tv, w ++ [93], by rw [hw1]; simp, hval, .close w hw2⟩
        · cases h
    · intro s kvs r h
      unfold parseMembers at h
      split at h
      · rename_i r0
        cases hs : scanString r0 with
        | none => rw [hs] at h; cases h
        | some p =>
          obtain ⟨key, r1⟩ := p
          rw [hs] at h
          simp only at h
          obtain ⟨rfl, hkey⟩ := scanString_sound _ _ _ hs
          obtain ⟨w1, hw1a, hw1b⟩ := ws_split r1
          split at h
          · rename_i r2 heq1
            obtain ⟨w2, hw2a, hw2b⟩ := ws_split r2
            cases hv : parseVal n (skipWs r2) with
            | none => rw [hv] at h; cases h
            | some q =>
              obtain ⟨v, r3⟩ := q
              rw [hv] at h
              simp only at h
              obtain ⟨kv, tv, htv, hval⟩ := ihv _ _ _ hv
              obtain ⟨w3, hw3a, hw3b⟩ := ws_split r3
              split at h
              · rename_i t heq3
                simp only [Option.map_eq_some_iff] at h
                obtain ⟨⟨ys, t'⟩, h0, h1⟩ := h
                simp only [Option.some.injEq, Prod.mk.injEq] at h1
                obtain ⟨_, rfl⟩ := h1
                obtain ⟨w4, hw4a, hw4b⟩ := ws_split t
                obtain ⟨key2, u1, u2, kv2, m2, v2, tl2, he, hk2, hu1, hu2, hv2, htl2⟩ := ihm _ _ _ h0
                refine ⟨key, w1, w2, kv, _, tv, w3 ++ 44 :: (w4 ++ 34 :: (key2 ++ 34 :: (u1 ++ 58 :: (u2 ++ (v2 ++ tl2))))), ?_,
                  hkey, hw1b, hw2b, hval, .more w3 w4 key2 u1 u2 v2 tl2 kv2 m2 hw3b hw4b hk2 hu1 hu2 hv2 htl2⟩
                rw [hw1a, heq1, hw2a, htv, hw3a, heq3, hw4a, he]
                simp
              · rename_i t heq3
                cases h
                refine ⟨key, w1, w2, kv, 1, tv, w3 ++ [125], ?_, hkey, hw1b, hw2b, hval, .close w3 hw3b⟩
                rw [hw1a, heq1, hw2a, htv, hw3a, heq3]
                simp
              · cases h
          · cases h
      · cases h

/-- `parseDoc` only returns a tree for a text of the Strict grammar -/
theorem parseDoc_sound {s : Bytes} {v : JVal} (h : parseDoc s = some v) : Strict.doc s := by
  unfold parseDoc at h
  cases hv : parseVal (s.length + 1) (skipWs s) with
  | none => rw [hv] at h; cases h
  | some p =>
    obtain ⟨v', r⟩ := p
    rw [hv] at h
    simp only at h
    by_cases he : (skipWs r).isEmpty = true
    · obtain ⟨k, t, ht, hval⟩ := (parse_sound _).1 _ _ _ hv
      obtain ⟨w, hw1, hw2⟩ := ws_split s
      obtain ⟨w', hw1', hw2'⟩ := ws_split r
      have : skipWs r = [] := by simpa using he
      rw [this, List.append_nil] at hw1'
      refine ⟨k, ?_⟩
      have e : s = w ++ (t ++ w') := by rw [hw1, ht, ← hw1']
      rw [e]
      exact .mk w t w' k hw2 hval hw2'
    · simp [he] at h

/-! ### ... and complete for it -/

theorem scanString_complete {b : Bytes} (t : Bytes) (h : StrictBody b) : scanString (b ++ 34 :: t) = some (b, t) := by
  induction h with
  | nil => simp [scanString]
  | plain c b h0 h1 h2 _ ih =>
    rw [List.cons_append, scanString]
    · have : (decide (c < 32) || c == 92) = false := by
        simp only [Bool.or_eq_false_iff, decide_eq_false_iff_not, UInt8.not_lt, beq_eq_false_iff_ne, ne_eq]
        exact ⟨h0, h2⟩
      simp [this, ih]
    · exact h1
    · intro a b' c' d r1 hc; exact absurd hc h2
    · intro e r1 hc; exact absurd hc h2
  | esc e b he _ ih =>
    rw [List.cons_append, List.cons_append, scanString]
    · have : (e == 34 || e == 92 || e == 47 || e == 98 || e == 102 || e == 110 || e == 114 || e == 116) = true := he
      simp [this, ih]
    · intro a b' c d r1 hu; subst hu; exact absurd he (by decide)
  | uni h1 h2 h3 h4 b x1 x2 x3 x4 _ ih =>
    simp only [List.cons_append]
    simp [scanString, x1, x2, x3, x4, ih]

theorem takeDigits_complete : ∀ (d t : Bytes), AllDigits d → (∀ c r, t = c :: r → isDigit c = false) →
    takeDigits (d ++ t) = (d, t) := by
  intro d
  induction d with
  | nil =>
    intro t _ ht
    cases t with
    | nil => rfl
    | cons c r => simp [takeDigits, ht c r rfl]
  | cons c d ih =>
    intro t hd ht
    have hc : isDigit c = true := hd c (by simp)
    have hd' : AllDigits d := fun x hx => hd x (by simp [hx])
    rw [List.cons_append, takeDigits]
    simp [hc, ih t hd' ht]

/-- the byte after a number part is not a digit -/
def NoDigit (t : Bytes) : Prop := ∀ c r, t = c :: r → isDigit c = false

theorem noDigit_of_numEnd {r : Bytes} (h : NumEnd r) : NoDigit r := fun c t e => (numChar_false (h c t e)).1

theorem snInt_complete {ip : Bytes} (t : Bytes) (h : IntPart ip) (ht : NoDigit t) : snInt (ip ++ t) = some (ip, t) := by
  cases h with
  | zero => simp [snInt]
  | nz c ds hc hne hds =>
    rw [List.cons_append]
    unfold snInt
    split
    · rename_i r heq; simp at heq; exact absurd heq.1 hne
    · rename_i c' r' _ heq
      simp only [List.cons.injEq] at heq
      obtain ⟨rfl, rfl⟩ := heq
      simp [hc, takeDigits_complete ds t hds ht]
    · rename_i heq; simp at heq

theorem snFrac_complete {fp : Bytes} (t : Bytes) (h : FracPart fp) (ht : NoDigit t) (hdot : ∀ r, t ≠ 46 :: r) :
    snFrac (fp ++ t) = some (fp, t) := by
  cases h with
  | none =>
    unfold snFrac
    split
    · rename_i r heq; exact absurd heq (hdot r)
    · rfl
  | some ds hne hds =>
    have : ds.isEmpty = false := by cases ds with | nil => exact absurd rfl hne | cons _ _ => rfl
    simp [snFrac, takeDigits_complete ds t hds ht, this]

theorem snExp_complete {ep : Bytes} (t : Bytes) (h : ExpPart ep) (ht : NoDigit t)
    (hexp : ∀ c r, t = c :: r → c ≠ 101 ∧ c ≠ 69) : snExp (ep ++ t) = some (ep, t) := by
  cases h with
  | none =>
    cases t with
    | nil => simp [snExp]
    | cons c r =>
      obtain ⟨h1, h2⟩ := hexp c r rfl
      simp [snExp, h1, h2]
  | unsigned e ds he hne hds =>
    have h0 : ds.isEmpty = false := by cases ds with | nil => exact absurd rfl hne | cons _ _ => rfl
    have hce : (e == 101 || e == 69) = true := by rcases he with rfl | rfl <;> rfl
    rw [List.cons_append]
    unfold snExp
    simp only [hce, if_true]
    -- the first exponent byte is a digit: neither `+` nor `-`
    cases ds with
    | nil => exact absurd rfl hne
    | cons d ds' =>
      have hd : isDigit d = true := hds d (by simp)
      obtain ⟨_, _, _, h43, h45⟩ := digit_ne hd
      split
      · rename_i r' heq; simp at heq; exact absurd heq.1 h43
      · rename_i r' heq; simp at heq; exact absurd heq.1 h45
      · have := takeDigits_complete (d :: ds') t hds ht
        rw [List.cons_append] at this
        simp [this]
  | signed e sg ds he hsg hne hds =>
    have h0 : ds.isEmpty = false := by cases ds with | nil => exact absurd rfl hne | cons _ _ => rfl
    have hce : (e == 101 || e == 69) = true := by rcases he with rfl | rfl <;> rfl
    simp only [List.cons_append]
    unfold snExp
    simp only [hce, if_true]
    rcases hsg with rfl | rfl
    · simp [takeDigits_complete ds t hds ht, h0]
    · simp [takeDigits_complete ds t hds ht, h0]

theorem scanNumber_complete {n : Bytes} (r : Bytes) (h : Number n) (hr : NumEnd r) : scanNumber (n ++ r) = some (n, r) := by
  have key : ∀ (nb : Bytes), NumBody nb →
      (match snInt (nb ++ r) with
       | none => none
       | some (ip, s2) =>
         match snFrac s2 with
         | none => none
         | some (fp, s3) =>
           match snExp s3 with
           | none => none
           | some (ep, s4) => some (ip ++ fp ++ ep, s4)) = some (nb, r) := by
    intro nb hb
    cases hb with
    | mk i f e hi hf he =>
      have nd_r : NoDigit r := noDigit_of_numEnd hr
      have nd_e : NoDigit (e ++ r) := by
        cases he with
        | none => simpa using nd_r
        | unsigned c ds hc _ _ => intro x t hx; simp at hx; obtain ⟨rfl, _⟩ := hx; rcases hc with rfl | rfl <;> decide
        | signed c sg ds hc _ _ _ => intro x t hx; simp at hx; obtain ⟨rfl, _⟩ := hx; rcases hc with rfl | rfl <;> decide
      have nd_fe : NoDigit (f ++ (e ++ r)) := by
        cases hf with
        | none => simpa using nd_e
        | some ds _ _ => intro x t hx; simp at hx; obtain ⟨rfl, _⟩ := hx; decide
      have dot_e : ∀ t, e ++ r ≠ 46 :: t := by
        intro t hx
        cases he with
        | none => simp at hx; exact absurd rfl (numChar_false (hr 46 t hx)).2.1
        | unsigned c ds hc _ _ => simp at hx; rcases hc with rfl | rfl <;> simp at hx
        | signed c sg ds hc _ _ _ => simp at hx; rcases hc with rfl | rfl <;> simp at hx
      have exp_r : ∀ c t, r = c :: t → c ≠ 101 ∧ c ≠ 69 := fun c t hx =>
        ⟨(numChar_false (hr c t hx)).2.2.1, (numChar_false (hr c t hx)).2.2.2.1⟩
      rw [List.append_assoc, List.append_assoc, snInt_complete _ hi nd_fe]
      simp only
      rw [snFrac_complete _ hf nd_e dot_e]
      simp only
      rw [snExp_complete _ he nd_r exp_r]
      simp
  rw [scanNumber_eq]
  cases h with
  | pos nb hb =>
    obtain ⟨c, t, rfl, hc⟩ := numBody_head hb
    have hne : c ≠ 45 := (digit_ne hc).2.2.2.2
    have hs : snSign ((c :: t) ++ r) = ([], (c :: t) ++ r) := by
      unfold snSign
      split
      · rename_i r' heq; simp at heq; exact absurd heq.1 hne
      · rfl
    rw [hs]
    simpa using key _ hb
  | neg nb hb =>
    have hs : snSign ((45 :: nb) ++ r) = ([45], nb ++ r) := by simp [snSign]
    rw [hs]
    have := key _ hb
    simp only at this ⊢
    cases hi : snInt (nb ++ r) with
    | none => rw [hi] at this; cases this
    | some p1 =>
      obtain ⟨ip, s2⟩ := p1
      rw [hi] at this
      simp only at this ⊢
      cases hf : snFrac s2 with
      | none => rw [hf] at this; cases this
      | some p2 =>
        obtain ⟨fp, s3⟩ := p2
        rw [hf] at this
        simp only at this ⊢
        cases he : snExp s3 with
        | none => rw [he] at this; cases this
        | some p3 =>
          obtain ⟨ep, s4⟩ := p3
          rw [he] at this
          simp only [Option.some.injEq, Prod.mk.injEq] at this ⊢
          obtain ⟨h1, h2⟩ := this
          exact ⟨by simp [← h1], h2⟩

theorem skipWs_at {w : Bytes} {c : UInt8} (x : Bytes) (hw : AllSpace w) (hc : isSpace c = false) :
    skipWs (w ++ c :: x) = c :: x := by
  rw [skipWs_append w _ hw, skipWs_nonspace x hc]

theorem parseVal_arr (n : Nat) (r : Bytes) : parseVal (n + 1) (91 :: r) =
    match skipWs r with
    | 93 :: t => some (.arr [], t)
    | r' => (parseElems n r').map fun (xs, t) => (.arr xs, t) := by
  rw [parseVal]; rfl

theorem parseVal_obj (n : Nat) (r : Bytes) : parseVal (n + 1) (123 :: r) =
    match skipWs r with
    | 125 :: t => some (.obj [], t)
    | r' => (parseMembers n r').map fun (kvs, t) => (.obj kvs, t) := by
  rw [parseVal]; rfl

theorem parseVal_str (n : Nat) (r : Bytes) : parseVal (n + 1) (34 :: r) =
    (scanString r).map fun (b, t) => (.str b, t) := by
  rw [parseVal]

theorem parseVal_num (n : Nat) {c : UInt8} (t : Bytes) (hc : isDigit c = true ∨ c = 45) :
    parseVal (n + 1) (c :: t) = (scanNumber (c :: t)).map fun (l, t) => (.num l, t) := by
  have h : c ≠ 110 ∧ c ≠ 116 ∧ c ≠ 102 ∧ c ≠ 34 ∧ c ≠ 91 ∧ c ≠ 123 := by
    rcases hc with hc | rfl
    · refine ⟨?_, ?_, ?_, ?_, ?_, ?_⟩ <;> (rintro rfl; exact absurd hc (by decide))
    · decide
  obtain ⟨h1, h2, h3, h4, h5, h6⟩ := h
  unfold parseVal
  split
  · rename_i heq; simp at heq; exact absurd heq.1 h1
  · rename_i heq; simp at heq; exact absurd heq.1 h2
  · rename_i heq; simp at heq; exact absurd heq.1 h3
  · rename_i heq; simp at heq; exact absurd heq.1 h4
  · rename_i heq; simp at heq; exact absurd heq.1 h5
  · rename_i heq; simp at heq; exact absurd heq.1 h6
  · rfl

theorem arrTail_len_pos' {m : Nat} {tl : Bytes} (h : ArrTail StrictBody m tl) : tl.length ≥ 1 := arrTail_len_pos h

theorem objTail_len_pos {SB : Bytes → Prop} {m : Nat} {tl : Bytes} (h : ObjTail SB m tl) : tl.length ≥ 1 := by
  cases h <;> (simp only [List.length_append, List.length_cons]; omega)

mutual
theorem pval : ∀ {k : Nat} {v : Bytes}, Val StrictBody k v → ∀ (r : Bytes) (n : Nat), NumEnd r → v.length < n →
    ∃ j, parseVal n (v ++ r) = some (j, r)
  | _, _, .nul, r, n, _, hn => by
    cases n with
    | zero => simp at hn
    | succ n => exact ⟨.null, by simp [parseVal]⟩
  | _, _, .tru, r, n, _, hn => by
    cases n with
    | zero => simp at hn
    | succ n => exact ⟨.bool true, by simp [parseVal]⟩
  | _, _, .fls, r, n, _, hn => by
    cases n with
    | zero => simp at hn
    | succ n => exact ⟨.bool false, by simp [parseVal]⟩
  | _, _, .num nb hnb, r, n, hr, hn => by
    cases n with
    | zero => simp at hn
    | succ n =>
      have hhead : ∃ c t, nb = c :: t ∧ (isDigit c = true ∨ c = 45) := by
        cases hnb with
        | pos b hb => obtain ⟨c, t, rfl, hc⟩ := numBody_head hb; exact ⟨c, t, rfl, Or.inl hc⟩
        | neg b _ => exact ⟨45, b, rfl, Or.inr rfl⟩
      obtain ⟨c, t, rfl, hc⟩ := hhead
      refine ⟨.num (c :: t), ?_⟩
      rw [List.cons_append, parseVal_num n _ hc]
      have := scanNumber_complete r hnb hr
      rw [List.cons_append] at this
      rw [this]; rfl
  | _, _, .str b hb, r, n, _, hn => by
    cases n with
    | zero => simp at hn
    | succ n =>
      refine ⟨.str b, ?_⟩
      rw [List.cons_append, parseVal_str, List.append_assoc]
      simp [scanString_complete r hb]
  | _, _, .arr k t ht, r, n, _, hn => by
    cases n with
    | zero => simp at hn
    | succ n => exact parrBody ht r n (by simpa using hn)
  | _, _, .obj k t ht, r, n, _, hn => by
    cases n with
    | zero => simp at hn
    | succ n => exact pobjBody ht r n (by simpa using hn)
theorem parrBody : ∀ {k : Nat} {t : Bytes}, ArrBody StrictBody k t → ∀ (r : Bytes) (n : Nat), t.length < n →
    ∃ j, parseVal (n + 1) (91 :: (t ++ r)) = some (j, r)
  | _, _, .empty w hw, r, n, _ => by
    refine ⟨.arr [], ?_⟩
    rw [parseVal_arr, List.append_assoc, List.singleton_append, skipWs_at r hw (by decide)]; rfl
  | _, _, .elems w v tl kv m hw hv htl, r, n, hn => by
    obtain ⟨ch, v', hveq, h1, _, h3, _⟩ := val_head hv
    have hl := arrTail_len_pos htl
    cases n with
    | zero => simp at hn
    | succ n' =>
      simp only [List.length_append] at hn
      obtain ⟨jv, hjv⟩ := pval hv (tl ++ r) n' (arrTail_numEnd r htl) (by omega)
      obtain ⟨xs, hxs⟩ := parrTail htl (v ++ (tl ++ r)) jv r n' hjv (by omega)
      refine ⟨.arr xs, ?_⟩
      have hsk : skipWs ((w ++ (v ++ tl)) ++ r) = ch :: (v' ++ (tl ++ r)) := by
        rw [hveq]; simp only [List.append_assoc, List.cons_append]; exact skipWs_at _ hw h1
      rw [parseVal_arr, hsk]
      have : ch :: (v' ++ (tl ++ r)) = v ++ (tl ++ r) := by rw [hveq]; rfl
      split
      · rename_i t' heq; simp at heq; exact absurd heq.1 h3
      · rw [this, hxs]; rfl
theorem parrTail : ∀ {m : Nat} {tl : Bytes}, ArrTail StrictBody m tl → ∀ (s : Bytes) (jv : JVal) (r : Bytes) (n : Nat),
    parseVal n s = some (jv, tl ++ r) → tl.length ≤ n → ∃ xs, parseElems (n + 1) s = some (xs, r)
  | _, _, .close w hw, s, jv, r, n, hjv, _ => by
    refine ⟨[jv], ?_⟩
    rw [parseElems, hjv]
    simp only
    rw [List.append_assoc, List.singleton_append, skipWs_at r hw (by decide)]; rfl
  | _, _, .more w w' v2 tl2 kv m hw hw' hv2 htl2, s, jv, r, n, hjv, hn => by
    obtain ⟨ch, v', hveq, h1, _, _, _⟩ := val_head hv2
    have hl := arrTail_len_pos htl2
    cases n with
    | zero => simp at hn
    | succ n' =>
      simp only [List.length_append, List.length_cons] at hn
      obtain ⟨j2, hj2⟩ := pval hv2 (tl2 ++ r) n' (arrTail_numEnd r htl2) (by omega)
      obtain ⟨ys, hys⟩ := parrTail htl2 (v2 ++ (tl2 ++ r)) j2 r n' hj2 (by omega)
      refine ⟨jv :: ys, ?_⟩
      rw [parseElems, hjv]
      simp only
      have e1 : skipWs ((w ++ 44 :: (w' ++ (v2 ++ tl2))) ++ r) = 44 :: (w' ++ (v2 ++ (tl2 ++ r))) := by
        simp only [List.append_assoc, List.cons_append]; exact skipWs_at _ hw (by decide)
      have e2 : skipWs (w' ++ (v2 ++ (tl2 ++ r))) = v2 ++ (tl2 ++ r) := by
        rw [hveq]; simp only [List.cons_append]; exact skipWs_at _ hw' h1
      rw [e1]
      simp only
      rw [e2, hys]; rfl
theorem pobjBody : ∀ {k : Nat} {t : Bytes}, ObjBody StrictBody k t → ∀ (r : Bytes) (n : Nat), t.length < n →
    ∃ j, parseVal (n + 1) (123 :: (t ++ r)) = some (j, r)
  | _, _, .empty w hw, r, n, _ => by
    refine ⟨.obj [], ?_⟩
    rw [parseVal_obj, List.append_assoc, List.singleton_append, skipWs_at r hw (by decide)]; rfl
  | _, _, .members w key w1 w2 v tl kv m hw hkey hw1 hw2 hv htl, r, n, hn => by
    have hl := objTail_len_pos htl
    cases n with
    | zero => simp at hn
    | succ n' =>
      simp only [List.length_append, List.length_cons] at hn
      obtain ⟨jv, hjv⟩ := pval hv (tl ++ r) n' (objTail_numEnd r htl) (by omega)
      obtain ⟨kvs, hkvs⟩ := pobjTail htl key w1 w2 v jv r n' hkey hw1 hw2 hv hjv (by omega)
      refine ⟨.obj kvs, ?_⟩
      have hsk : skipWs ((w ++ 34 :: (key ++ 34 :: (w1 ++ 58 :: (w2 ++ (v ++ tl))))) ++ r) =
          34 :: (key ++ 34 :: (w1 ++ 58 :: (w2 ++ (v ++ (tl ++ r))))) := by
        simp only [List.append_assoc, List.cons_append]; exact skipWs_at _ hw (by decide)
      rw [parseVal_obj, hsk]
      split
      · rename_i t' heq; simp at heq
      · rw [hkvs]; rfl
theorem pobjTail : ∀ {m : Nat} {tl : Bytes}, ObjTail StrictBody m tl → ∀ (key w1 w2 v : Bytes) (jv : JVal) (r : Bytes) (n : Nat)
    {kv : Nat}, StrictBody key → AllSpace w1 → AllSpace w2 → Val StrictBody kv v →
    parseVal n (v ++ (tl ++ r)) = some (jv, tl ++ r) → tl.length ≤ n →
    ∃ kvs, parseMembers (n + 1) (34 :: (key ++ 34 :: (w1 ++ 58 :: (w2 ++ (v ++ (tl ++ r)))))) = some (kvs, r)
  | _, _, .close w hw, key, w1, w2, v, jv, r, n, _, hkey, hw1, hw2, hv, hjv, _ => by
    obtain ⟨ch, v', hveq, h1, _, _, _⟩ := val_head hv
    refine ⟨[(key, jv)], ?_⟩
    have e0 : skipWs (w1 ++ 58 :: (w2 ++ (v ++ ((w ++ [125]) ++ r)))) = 58 :: (w2 ++ (v ++ ((w ++ [125]) ++ r))) :=
      skipWs_at _ hw1 (by decide)
    have e1 : skipWs (w2 ++ (v ++ ((w ++ [125]) ++ r))) = v ++ ((w ++ [125]) ++ r) := by
      rw [hveq]; simp only [List.cons_append]; exact skipWs_at _ hw2 h1
    rw [parseMembers, scanString_complete _ hkey]
    simp only
    rw [e0]
    simp only
    rw [e1, hjv]
    simp only
    rw [List.append_assoc, List.singleton_append, skipWs_at r hw (by decide)]; rfl
  | _, _, .more w w0 key2 u1 u2 v2 tl2 kv2 m2 hw hw0 hkey2 hu1 hu2 hv2 htl2, key, w1, w2, v, jv, r, n, _, hkey, hw1, hw2, hv, hjv, hn => by
    obtain ⟨ch, v', hveq, h1, _, _, _⟩ := val_head hv
    have hl := objTail_len_pos htl2
    cases n with
    | zero => simp at hn
    | succ n' =>
      simp only [List.length_append, List.length_cons] at hn
      obtain ⟨j2, hj2⟩ := pval hv2 (tl2 ++ r) n' (objTail_numEnd r htl2) (by omega)
      obtain ⟨ys, hys⟩ := pobjTail htl2 key2 u1 u2 v2 j2 r n' hkey2 hu1 hu2 hv2 hj2 (by omega)
      refine ⟨(key, jv) :: ys, ?_⟩
      let T := (w ++ 44 :: (w0 ++ 34 :: (key2 ++ 34 :: (u1 ++ 58 :: (u2 ++ (v2 ++ tl2)))))) ++ r
      have e0 : skipWs (w1 ++ 58 :: (w2 ++ (v ++ T))) = 58 :: (w2 ++ (v ++ T)) := skipWs_at _ hw1 (by decide)
      have e1 : skipWs (w2 ++ (v ++ T)) = v ++ T := by
        rw [hveq]; simp only [List.cons_append]; exact skipWs_at _ hw2 h1
      have e2 : skipWs T = 44 :: (w0 ++ 34 :: (key2 ++ 34 :: (u1 ++ 58 :: (u2 ++ (v2 ++ (tl2 ++ r)))))) := by
        show skipWs ((w ++ 44 :: (w0 ++ 34 :: (key2 ++ 34 :: (u1 ++ 58 :: (u2 ++ (v2 ++ tl2)))))) ++ r) = _
        simp only [List.append_assoc, List.cons_append]; exact skipWs_at _ hw (by decide)
      have e3 : skipWs (w0 ++ 34 :: (key2 ++ 34 :: (u1 ++ 58 :: (u2 ++ (v2 ++ (tl2 ++ r)))))) =
          34 :: (key2 ++ 34 :: (u1 ++ 58 :: (u2 ++ (v2 ++ (tl2 ++ r))))) := skipWs_at _ hw0 (by decide)
      rw [parseMembers, scanString_complete _ hkey]
      simp only
      rw [e0]
      simp only
      rw [e1, hjv]
      simp only
      rw [e2]
      simp only
      rw [e3, hys]; rfl
end

/-- every text of the Strict grammar gets a tree -/
theorem parseDoc_complete {s : Bytes} (h : Strict.doc s) : ∃ v, parseDoc s = some v := by
  obtain ⟨k, hd⟩ := h
  cases hd with
  | mk w v w' k hw hv hw' =>
    obtain ⟨ch, v', hveq, h1, _, _, _⟩ := val_head hv
    have e : skipWs (w ++ (v ++ w')) = v ++ w' := by
      rw [hveq]; simp only [List.cons_append]; exact skipWs_at _ hw h1
    obtain ⟨j, hj⟩ := pval hv w' ((w ++ (v ++ w')).length + 1) (numEnd_ws hw') (by simp only [List.length_append]; omega)
    refine ⟨j, ?_⟩
    unfold parseDoc
    rw [e, hj]
    simp only
    have : skipWs w' = [] := by
      have := skipWs_append w' [] hw'
      simpa [skipWs] using this
    simp [this]

/-- the shared recursive-descent parser accepts exactly the Strict grammar -/
theorem parseDoc_iff_strict (s : Bytes) : (parseDoc s).isSome = true ↔ Strict.doc s := by
  constructor
  · intro h
    cases hp : parseDoc s with
    | none => rw [hp] at h; cases h
    | some v => exact parseDoc_sound hp
  · intro h
    obtain ⟨v, hv⟩ := parseDoc_complete h
    rw [hv]; rfl

end SonicSpec.Json
