/- byte-level helper lemmas shared by the proof modules -/
namespace SonicSpec

/-- a statement about every byte follows from the 256 instances (then `decide +kernel`) -/
theorem forall_uint8 {P : UInt8 → Prop} (h : ∀ n : Fin 256, P (UInt8.ofNat n.val)) : ∀ c, P c := by
  intro c
  have := h ⟨c.toNat, c.toNat_lt⟩
  simpa using this

end SonicSpec
