/-
  C16 - the invariant holds in every reachable state of every system of disciplined threads.
-/
import SonicSpec.Proofs.RWMain
namespace SonicSpec.RW

variable {pf : Bool}

theorem absOp_loopOp {a : Abs} {o : Op} (hk : a.k = .nonraw) (hwl : a.wl = false) (hwp : a.wp = false)
    (hwc : a.wc = false) (ho : isLoopOp o = true) : absOp a o = some a := by
  cases o <;> simp [isLoopOp] at ho <;> simp [absOp, Abs.canRead, hk, hwl, hwp, hwc]

theorem inv_step {s : State} (hI : Inv pf s) (i : Nat) : Inv pf (step pf s i) := by
  unfold step
  cases hth : s.ths[i]? with
  | none => exact hI
  | some th =>
    obtain ⟨a, hs, hok⟩ := hI.2 i th hth
    simp only
    cases hp : th.prog with
    | done => simp only [stepTh, hp]; exact inv_same hI hth
    | abort => simp only [stepTh, hp]; exact inv_same hI hth
    | op o k =>
      simp only [stepTh, hp]
      rw [hp] at hs
      simp only [safe] at hs
      split at hs
      next a' habs => exact inv_execOp hI hth hok habs hs
      next => cases hs
    | br c x y =>
      simp only [stepTh, hp]
      rw [hp] at hs
      exact inv_br hI hth hok hs
    | loop cur body k =>
      rw [hp] at hs
      simp only [safe, Bool.and_eq_true, beq_iff_eq, Bool.not_eq_true'] at hs
      obtain ⟨⟨⟨⟨⟨⟨hk, hwl⟩, hwp⟩, hwc⟩, hcur⟩, hbody⟩, hsk⟩ := hs
      cases cur with
      | nil =>
        simp only [stepTh, hp]
        split
        · apply inv_local hI hth hok
          simp only [safe, Bool.and_eq_true, beq_iff_eq, Bool.not_eq_true']
          exact ⟨⟨⟨⟨⟨⟨hk, hwl⟩, hwp⟩, hwc⟩, hbody⟩, hbody⟩, hsk⟩
        · exact inv_local hI hth hok hsk
      | cons o cur =>
        simp only [stepTh, hp]
        simp only [List.all_cons, Bool.and_eq_true] at hcur
        apply inv_execOp hI hth hok (absOp_loopOp hk hwl hwp hwc hcur.1)
        simp only [safe, Bool.and_eq_true, beq_iff_eq, Bool.not_eq_true']
        exact ⟨⟨⟨⟨⟨⟨hk, hwl⟩, hwp⟩, hwc⟩, hcur.2⟩, hbody⟩, hsk⟩

theorem inv_run {s : State} (hI : Inv pf s) (sched : List Nat) : Inv pf (run pf s sched) := by
  induction sched generalizing s with
  | nil => exact hI
  | cons i r ih => exact ih (inv_step hI i)

theorem inv_init (ps : List (Prog × List Bool)) (hs : ∀ p ∈ ps, safe pf Abs.init p.1 = true) :
    Inv pf (State.init ps) := by
  constructor
  · constructor
    · rfl
    · rfl
    · intro h; cases h
    · intro i h; cases h
    · intro _; exact ⟨rfl, rfl, rfl⟩
    · intro _; exact ⟨rfl, rfl, rfl⟩
    · intro h; cases h
    · intro h; exact absurd rfl h
    · intro _ a ha; cases ha
    · intro a ha; cases ha
    · intro a ha; cases ha
    · intro a ha; cases ha
    · intro _ a ha; cases ha
    · intro i th _
      exact ⟨fun h => (by cases h), fun h => (by cases h)⟩
    · intro a ha; cases ha
    · exact List.Pairwise.nil
    · intro _ a ha; cases ha
    · exact List.Pairwise.nil
  · intro i th hth
    simp only [State.init, List.getElem?_map] at hth
    cases hp : ps[i]? with
    | none => rw [hp] at hth; cases hth
    | some p =>
      rw [hp] at hth
      simp only [Option.map_some] at hth
      cases hth
      refine ⟨Abs.init, hs p (List.mem_of_getElem? hp), ?_⟩
      exact { hW := ⟨fun h => (by cases h), fun h => (by cases h)⟩,
              hR := ⟨fun h => (by cases h), fun h => (by cases h)⟩,
              lkHeld := (by intro h; cases h), wlw := (by intro h; cases h),
              wlH := (by intro h; cases h), wpH := (by intro h; cases h), wcH := (by intro h; cases h),
              nofault := rfl, mread := (by intro h; cases h), lv := (by intro h; cases h),
              know := rfl, view := rfl, tvok := (by intro v g h; cases h) }

theorem inv_initLoaded (ps : List (Prog × List Bool)) (hs : ∀ p ∈ ps, safe pf Abs.init p.1 = true) :
    Inv pf (State.initLoaded ps) := by
  constructor
  · constructor
    · rfl
    · rfl
    · intro h; cases h
    · intro i h; cases h
    · intro _; exact ⟨rfl, rfl, rfl⟩
    · intro h; cases h
    · intro _; exact ⟨rfl, rfl, rfl⟩
    · intro _ a ha; cases ha
    · intro h; cases h
    · intro a ha; cases ha
    · intro a ha; cases ha
    · intro a ha; cases ha
    · intro h; cases h
    · intro i th _
      exact ⟨fun h => (by cases h), fun h => (by cases h)⟩
    · intro a ha; cases ha
    · exact List.Pairwise.nil
    · intro _ a ha; cases ha
    · exact List.Pairwise.nil
  · intro i th hth
    simp only [State.initLoaded, List.getElem?_map] at hth
    cases hp : ps[i]? with
    | none => rw [hp] at hth; cases hth
    | some p =>
      rw [hp] at hth
      simp only [Option.map_some] at hth
      cases hth
      refine ⟨Abs.init, hs p (List.mem_of_getElem? hp), ?_⟩
      exact { hW := ⟨fun h => (by cases h), fun h => (by cases h)⟩,
              hR := ⟨fun h => (by cases h), fun h => (by cases h)⟩,
              lkHeld := (by intro h; cases h), wlw := (by intro h; cases h),
              wlH := (by intro h; cases h), wpH := (by intro h; cases h), wcH := (by intro h; cases h),
              nofault := rfl, mread := (by intro h; cases h), lv := (by intro h; cases h),
              know := rfl, view := rfl, tvok := (by intro v g h; cases h) }

/-- every reachable state of a system of disciplined threads satisfies the invariant -/
theorem inv_reachable (ps : List (Prog × List Bool)) (hs : ∀ p ∈ ps, safe pf Abs.init p.1 = true)
    (sched : List Nat) : Inv pf (run pf (State.init ps) sched) :=
  inv_run (inv_init ps hs) sched

theorem inv_reachable_loaded (ps : List (Prog × List Bool)) (hs : ∀ p ∈ ps, safe pf Abs.init p.1 = true)
    (sched : List Nat) : Inv pf (run pf (State.initLoaded ps) sched) :=
  inv_run (inv_initLoaded ps hs) sched

/-! ### consequences for one thread of a state that satisfies the invariant -/

theorem Inv.thread {s : State} (hI : Inv pf s) {th : Th} (hth : th ∈ s.ths) :
    ∃ i a, s.ths[i]? = some th ∧ safe pf a th.prog = true ∧ ThOK i s.sh th a := by
  obtain ⟨i, hi, hget⟩ := List.mem_iff_getElem.mp hth
  have : s.ths[i]? = some th := by rw [List.getElem?_eq_getElem hi, hget]
  obtain ⟨a, h1, h2⟩ := hI.2 i th this
  exact ⟨i, a, this, h1, h2⟩

theorem Inv.not_torn {s : State} (hI : Inv pf s) {th : Th} (hth : th ∈ s.ths) : th.torn = false := by
  obtain ⟨_, _, _, _, hok⟩ := hI.thread hth
  simp [Th.torn, hok.view]

theorem Inv.no_fault {s : State} (hI : Inv pf s) {th : Th} (hth : th ∈ s.ths) : th.fault = false := by
  obtain ⟨_, _, _, _, hok⟩ := hI.thread hth
  exact hok.nofault

theorem Inv.not_abort {s : State} (hI : Inv pf s) {th : Th} (hth : th ∈ s.ths) : th.prog ≠ .abort := by
  obtain ⟨_, a, _, hs, _⟩ := hI.thread hth
  intro h; rw [h] at hs; simp [safe] at hs

/-- the snapshot behind a completed read is one of the two a sequential run can see -/
theorem Inv.snapshot {s : State} (hI : Inv pf s) {th : Th} (hth : th ∈ s.ths)
    {v : TV} {g a b : Nat} (htv : th.tv = some (v, g)) (hl : th.lg = some a) (hp : th.pg = some b) :
    (v = .raw ∧ a = 0 ∧ b = 0) ∨ (v = .parsed ∧ a = 1 ∧ b = 1) := by
  obtain ⟨_, _, _, _, hok⟩ := hI.thread hth
  obtain ⟨h1, h2, h3, h4⟩ := viewOK_inv hok.view htv
  have ea : a = g := by rcases h1 with h | h <;> rw [hl] at h <;> cases h; rfl
  have eb : b = g := by rcases h2 with h | h <;> rw [hp] at h <;> cases h; rfl
  cases v
  · exact Or.inl ⟨rfl, by rw [ea, h3 rfl], by rw [eb, h3 rfl]⟩
  · exact Or.inr ⟨rfl, by rw [ea, h4 rfl], by rw [eb, h4 rfl]⟩
  · exact absurd rfl (hok.tvok _ _ htv)

/-! ### no plain write after publication -/

def isWriteOp : Op → Bool
  | .storeT | .writeL | .writeP | .writeC | .writeAll => true
  | _ => false

theorem execOp_writes {i : Nat} {sh : Sh} {th : Th} {o : Op} {K : Prog} (h : isWriteOp o = false) :
    (execOp i sh th o K).1.hist.filter (·.wr) = sh.hist.filter (·.wr) := by
  cases o <;> simp [isWriteOp] at h <;> simp only [execOp]
  case acqW => split <;> rfl
  case acqR => split <;> rfl
  case relW => split <;> rfl
  case relR => split <;> rfl
  all_goals simp [Sh.record, mkAcc, List.filter]

theorem absOp_write_needs_raw {s : State} {i : Nat} {th : Th} {a a' : Abs} {o : Op}
    (hok : ThOK i s.sh th a) (hw : isWriteOp o = true) (habs : absOp a o = some a') : s.sh.t = .raw := by
  have key : a.canWrite = true → s.sh.t = .raw := fun hc => (canWrite_info hok hc).2.2.2.2.1
  cases o <;> simp [isWriteOp] at hw <;> simp only [absOp] at habs
  case storeT =>
    split at habs
    next hc => simp only [Bool.and_eq_true] at hc; exact key hc.1.1
    next => cases habs
  case writeL =>
    split at habs
    next hc => simp only [Bool.and_eq_true] at hc; exact key hc.1
    next => cases habs
  case writeP =>
    split at habs
    next hc => simp only [Bool.and_eq_true] at hc; exact key hc.1
    next => cases habs
  case writeC =>
    split at habs
    next hc => exact key hc
    next => cases habs
  case writeAll => cases habs

/-- once the type word is non-raw (the conversion has been published), no step of any disciplined
    thread writes the node's fields or the memory behind `p` any more -/
theorem writes_only_while_raw {s : State} (hI : Inv pf s) (ht : s.sh.t ≠ .raw) (i : Nat) :
    (step pf s i).sh.hist.filter (·.wr) = s.sh.hist.filter (·.wr) := by
  unfold step
  cases hth : s.ths[i]? with
  | none => rfl
  | some th =>
    obtain ⟨a, hs, hok⟩ := hI.2 i th hth
    simp only
    cases hp : th.prog with
    | done => simp only [stepTh, hp]
    | abort => simp only [stepTh, hp]
    | br c x y => simp only [stepTh, hp]
    | op o k =>
      simp only [stepTh, hp]
      rw [hp] at hs
      simp only [safe] at hs
      split at hs
      next a' habs =>
        cases hw : isWriteOp o
        · exact execOp_writes hw
        · exact absurd (absOp_write_needs_raw hok hw habs) ht
      next => cases hs
    | loop cur body k =>
      rw [hp] at hs
      simp only [safe, Bool.and_eq_true, beq_iff_eq, Bool.not_eq_true'] at hs
      cases cur with
      | nil => simp only [stepTh, hp]; split <;> rfl
      | cons o cur =>
        simp only [stepTh, hp]
        have ho := hs.1.1.2
        simp only [List.all_cons, Bool.and_eq_true] at ho
        apply execOp_writes
        cases o <;> simp [isLoopOp] at ho <;> rfl

/-! ### fixed points of the interleaving semantics (used for deadlock witnesses) -/

theorem step_oob {pf : Bool} {s : State} {j : Nat} (h : s.ths.length ≤ j) : step pf s j = s := by
  unfold step
  rw [List.getElem?_eq_none h]

theorem run_fixed {pf : Bool} {s : State} (h : ∀ j, step pf s j = s) : ∀ sched : List Nat, run pf s sched = s := by
  intro sched
  induction sched with
  | nil => rfl
  | cons j r ih => simp only [run, h j, ih]

end SonicSpec.RW
