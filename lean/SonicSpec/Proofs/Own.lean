/-
  C06 helper lemmas, part 1: one slice under construction (`SBuf`), the restart loop and the
  encoder body.  Core Lean only.
-/
import SonicSpec.Model.Own
namespace SonicSpec.Own
open SonicSpec

/-- `b'` is `b` with `x` appended: same array unless the generation moved -/
structure Ext (b b' : SBuf) (x : Bytes) : Prop where
  wf : b'.WF
  bytes : b'.bytes = b.bytes ++ x
  len : b'.len = b.len + x.length
  gen_le : b.gen ≤ b'.gen
  same : b'.gen = b.gen → b'.mem.length = b.mem.length

theorem SBuf.bytes_length {b : SBuf} (h : b.WF) : b.bytes.length = b.len := by
  unfold SBuf.bytes SBuf.WF at *; simp [List.length_take]; omega

theorem SBuf.ofPrior_bytes (prior dirt : Bytes) : (SBuf.ofPrior prior dirt).bytes = prior := by
  simp [SBuf.bytes, SBuf.ofPrior]

theorem SBuf.ofPrior_wf (prior dirt : Bytes) : (SBuf.ofPrior prior dirt).WF := by
  simp [SBuf.WF, SBuf.ofPrior]

theorem Ext.refl {b : SBuf} (h : b.WF) : Ext b b [] :=
  ⟨h, by simp, by simp, Nat.le_refl _, fun _ => rfl⟩

theorem Ext.trans {a b c : SBuf} {x y : Bytes} (h1 : Ext a b x) (h2 : Ext b c y) : Ext a c (x ++ y) := by
  refine ⟨h2.wf, ?_, ?_, Nat.le_trans h1.gen_le h2.gen_le, ?_⟩
  · rw [h2.bytes, h1.bytes, List.append_assoc]
  · rw [h2.len, h1.len, List.length_append]; omega
  · intro h
    have e1 : b.gen = a.gen := by have := h1.gen_le; have := h2.gen_le; omega
    have e2 : c.gen = b.gen := by omega
    rw [h2.same e2, h1.same e1]

namespace SBuf

theorem store_ok {b : SBuf} {w : Bytes} (hwf : b.WF) (hfit : b.len + w.length ≤ b.mem.length) :
    ∃ b1, b.store w = .ok b1 ∧ b1.len = b.len ∧ b1.gen = b.gen ∧ b1.mem.length = b.mem.length ∧
      b1.mem.take b.len = b.mem.take b.len ∧ b1.mem.take (b.len + w.length) = b.mem.take b.len ++ w := by
  unfold WF at hwf
  have hl : (b.mem.take b.len).length = b.len := by simp [List.length_take]; omega
  refine ⟨{ b with mem := b.mem.take b.len ++ (w ++ b.mem.drop (b.len + w.length)) }, by simp [store, hfit],
    rfl, rfl, ?_, ?_, ?_⟩
  · simp only [List.length_append, hl, List.length_drop]; omega
  · show List.take b.len (b.mem.take b.len ++ (w ++ b.mem.drop (b.len + w.length))) = _
    exact List.take_left' hl
  · show List.take (b.len + w.length) (b.mem.take b.len ++ (w ++ b.mem.drop (b.len + w.length))) = _
    rw [← List.append_assoc]
    exact List.take_left' (by simp [hl])

theorem advance_ok {b : SBuf} {n : Nat} (h : b.len + n ≤ b.mem.length) :
    b.advance n = .ok { b with len := b.len + n } := by simp [advance, h]

theorem fill_length (env : Env) (g k : Nat) : (fill env g k).length = k := by simp [fill]

theorem realloc_ext (env : Env) {b : SBuf} (hwf : b.WF) (c : Nat) :
    Ext b (b.realloc env c) [] ∧ c ≤ (b.realloc env c).mem.length ∧ (b.realloc env c).gen = b.gen + 1 := by
  have hl := bytes_length hwf
  refine ⟨⟨?_, ?_, by simp [realloc], by simp [realloc], ?_⟩, ?_, rfl⟩
  · simp [WF, realloc, hl, fill_length]
  · simp only [bytes, realloc, List.append_nil]
    have : (b.mem.take b.len).length = b.len := hl
    rw [List.take_append_of_le_length (by omega), List.take_of_length_le (by omega)]
  · intro h; simp [realloc] at h
  · simp [realloc, hl, fill_length]; omega

theorem growTo_ok {env : Env} (henv : env.OK) {b : SBuf} (hwf : b.WF) {n : Nat} (h : b.len ≤ n) :
    ∃ b1, b.growTo env n = .ok b1 ∧ Ext b b1 [] ∧ n ≤ b1.mem.length ∧ b1.gen = b.gen + 1 := by
  have hr := realloc_ext env hwf (env.grow b.cap n)
  refine ⟨_, by simp [growTo, Nat.not_lt.mpr h], hr.1, ?_, hr.2.2⟩
  exact Nat.le_trans (henv.grow_ge _ _) hr.2.1

theorem ensure_ok {env : Env} (henv : env.OK) {b : SBuf} (hwf : b.WF) (n : Nat) :
    ∃ b1, b.ensure env n = .ok b1 ∧ Ext b b1 [] ∧ b1.len + n ≤ b1.mem.length := by
  by_cases h : b.len + n ≤ b.mem.length
  · exact ⟨b, by simp [ensure, h], Ext.refl hwf, h⟩
  · obtain ⟨b1, e, x, hc, _⟩ := growTo_ok henv hwf (n := b.len + n) (by omega)
    refine ⟨b1, by simp [ensure, h, e], x, ?_⟩
    have := x.len; simp at this; omega

theorem store_advance_ext {b : SBuf} {w : Bytes} (hwf : b.WF) (hfit : b.len + w.length ≤ b.mem.length)
    {k : Nat} (hk : k ≤ w.length) :
    ∃ b1 b2, b.store w = .ok b1 ∧ b1.advance k = .ok b2 ∧ Ext b b2 (w.take k) ∧ b2.gen = b.gen ∧
      b2.mem.length = b.mem.length := by
  obtain ⟨b1, e1, hlen, hgen, hcap, hpre, hall⟩ := store_ok hwf hfit
  have hadv : b1.len + k ≤ b1.mem.length := by omega
  refine ⟨b1, _, e1, advance_ok hadv, ⟨?_, ?_, ?_, ?_, ?_⟩, hgen, hcap⟩
  · simp [WF]; omega
  · simp only [bytes]
    unfold WF at hwf
    have hl : (b.mem.take b.len).length = b.len := by simp [List.length_take]; omega
    have : b1.len + k = min (b1.len + k) (b.len + w.length) := by omega
    rw [this, ← List.take_take, hall, hlen]
    rw [List.take_append, hl]
    rw [List.take_of_length_le (by omega)]
    congr 2; omega
  · simp [hlen, List.length_take]; omega
  · simp [hgen]
  · intro _; simpa using hcap

theorem emit_ok {env : Env} (henv : env.OK) {b : SBuf} (hwf : b.WF) (c : Bytes) :
    ∃ b', b.emit env c = .ok b' ∧ Ext b b' c := by
  obtain ⟨b1, e1, x1, hfit⟩ := ensure_ok henv hwf c.length
  obtain ⟨b2, b3, e2, e3, x2, _, _⟩ := store_advance_ext x1.wf hfit (Nat.le_refl c.length)
  refine ⟨b3, by simp [emit, e1, e2, e3], ?_⟩
  have := x1.trans x2
  simpa using this

theorem guard_ext (env : Env) {b : SBuf} (hwf : b.WF) (n : Nat) :
    Ext b (b.guard env n) [] ∧ (b.guard env n).len + n ≤ (b.guard env n).mem.length := by
  unfold guard
  by_cases h : b.mem.length - b.len < n
  · simp only [h, if_true]
    generalize hc' : (if b.mem.length / 2 + n + b.len < 32 then 32 else b.mem.length / 2 + n + b.len) = c
    have hge : n + b.len ≤ c := by rw [← hc']; split <;> omega
    have hr := realloc_ext env hwf c
    refine ⟨hr.1, ?_⟩
    have hl := hr.1.len
    have hc := hr.2.1
    simp only [List.length_nil, Nat.add_zero] at hl
    rw [hl]
    omega
  · simp only [h, if_false]
    unfold WF at hwf
    exact ⟨Ext.refl hwf, by omega⟩

end SBuf

open SBuf

/-- the restart loop appends exactly the image of the remaining input, for every native routine
    meeting the contract, every growth rule and every prior content of the spare capacity -/
theorem restartLoop_ok {env : Env} (henv : env.OK) {spec : Bytes → Bytes} {nat : Native}
    (hnat : NativeOK spec 6 nat) (hnil : spec [] = []) :
    ∀ (fuel : Nat) (b : SBuf) (rest : Bytes), b.WF → 0 < b.mem.length →
      7 * rest.length + (6 - min 6 (b.mem.length - b.len)) < fuel →
      ∃ b', restartLoop env nat fuel b rest = .ok b' ∧ Ext b b' (spec rest) := by
  intro fuel
  induction fuel with
  | zero => intro b rest _ _ h; omega
  | succ fuel ih =>
    intro b rest hwf hcap hfuel
    unfold restartLoop
    by_cases hemp : rest.isEmpty
    · have : rest = [] := by simpa using hemp
      subst this
      exact ⟨b, by simp, by rw [hnil]; exact Ext.refl hwf⟩
    · have hne : rest ≠ [] := by simpa using hemp
      simp only [hemp, Bool.false_eq_true, if_false]
      have hfit := hnat.fits rest b.spare
      have hemit := hnat.emitted_le rest b.spare
      have himg := hnat.image rest b.spare
      have hsplit := hnat.nosplit rest b.spare
      generalize hr : nat rest b.spare = r at *
      have hfit' : b.len + r.written.length ≤ b.mem.length := by
        unfold WF at hwf; unfold spare at hfit; omega
      obtain ⟨b1, b2, e1, e2, x2, hgen2, hcap2⟩ := store_advance_ext hwf hfit' hemit
      simp only [e1, e2]
      rw [himg] at x2
      by_cases hdone : r.done
      · simp only [hdone, if_true]
        have hall := hnat.done_all rest b.spare
        rw [hr] at hall
        have := hall hdone
        rw [List.take_of_length_le this] at x2
        exact ⟨b2, rfl, x2⟩
      · simp only [hdone, Bool.false_eq_true, if_false]
        have hwf2 := x2.wf
        obtain ⟨b3, e3, x3, hc3, _⟩ := growTo_ok henv hwf2 (n := b2.cap * 2) (by unfold WF at hwf2; unfold cap; omega)
        simp only [e3]
        have hprog := hnat.progress rest b.spare hne
        rw [hr] at hprog
        have hdone' : r.done = false := by simpa using hdone
        have hlen3 : b3.len = b2.len := by have := x3.len; simpa using this
        have hlen2 : b2.len = b.len + (spec (rest.take r.consumed)).length := x2.len
        have hcap3 : 0 < b3.mem.length := by unfold cap at hc3; omega
        have hmeasure : 7 * (rest.drop r.consumed).length + (6 - min 6 (b3.mem.length - b3.len)) < fuel := by
          rw [List.length_drop]
          by_cases hc0 : r.consumed = 0
          · have hsp := hprog hdone' hc0
            have hz : (spec (rest.take r.consumed)).length = 0 := by rw [hc0]; simp [hnil]
            unfold spare at hsp
            unfold cap at hc3
            unfold WF at hwf
            omega
          · have : 0 < rest.length := List.length_pos_iff.mpr hne
            omega
        obtain ⟨b', e', x'⟩ := ih b3 (rest.drop r.consumed) x3.wf hcap3 hmeasure
        refine ⟨b', e', ?_⟩
        have := (x2.trans x3).trans x'
        rw [List.append_nil, hsplit] at this
        exact this

theorem loopFuel_ok (s : Bytes) (k : Nat) : 7 * s.length + (6 - min 6 k) < loopFuel s := by
  unfold loopFuel; omega

theorem quoteBody_nil : Str.quoteBody [] = [] := rfl

theorem quoteLoop_ok {env : Env} (henv : env.OK) {nat : Native} (hnat : NativeOK Str.quoteBody 6 nat)
    (b : SBuf) (hwf : b.WF) (s : Bytes) :
    ∃ b', quoteLoop env nat b s = .ok b' ∧ Ext b b' (Str.quote s) := by
  unfold quoteLoop
  by_cases hemp : s.isEmpty
  · have : s = [] := by simpa using hemp
    subst this
    obtain ⟨b', e, x⟩ := emit_ok henv hwf [34, 34]
    exact ⟨b', by simp [e], by simpa [Str.quote, Str.quoteBody] using x⟩
  · simp only [hemp, Bool.false_eq_true, if_false]
    obtain ⟨b1, e1, x1⟩ := emit_ok henv hwf [34]
    have hg := guard_ext env x1.wf (s.length + 1)
    have hcap : 0 < (b1.guard env (s.length + 1)).mem.length := by have := hg.2; omega
    obtain ⟨b3, e3, x3⟩ := restartLoop_ok henv hnat quoteBody_nil (loopFuel s) _ s hg.1.wf hcap (loopFuel_ok s _)
    obtain ⟨b4, e4, x4⟩ := emit_ok henv x3.wf [34]
    refine ⟨b4, by simp [e1, e3, e4], ?_⟩
    have := ((x1.trans hg.1).trans x3).trans x4
    simpa [Str.quote] using this

theorem jitString_ok {env : Env} (henv : env.OK) {nat : Native} (hnat : NativeOK Str.quoteBody 6 nat)
    (b : SBuf) (hwf : b.WF) (s : Bytes) :
    ∃ b', jitString env nat b s = .ok b' ∧ Ext b b' (Str.quote s) := by
  unfold jitString
  by_cases hemp : s.isEmpty
  · have : s = [] := by simpa using hemp
    subst this
    obtain ⟨b', e, x⟩ := emit_ok henv hwf [34, 34]
    exact ⟨b', by simp [e], by simpa [Str.quote, Str.quoteBody] using x⟩
  · simp only [hemp, Bool.false_eq_true, if_false]
    obtain ⟨b0, e0, x0, h0⟩ := ensure_ok henv hwf (s.length + 2)
    obtain ⟨b1, e1, x1⟩ := emit_ok henv x0.wf [34]
    have hcap : 0 < b1.mem.length := by
      have := x1.wf; have := x1.len; unfold WF at *; simp at *; omega
    obtain ⟨b3, e3, x3⟩ := restartLoop_ok henv hnat quoteBody_nil (loopFuel s) _ s x1.wf hcap (loopFuel_ok s _)
    obtain ⟨b4, e4, x4⟩ := emit_ok henv x3.wf [34]
    refine ⟨b4, by simp [e0, e1, e3, e4], ?_⟩
    have := ((x0.trans x1).trans x3).trans x4
    simpa [Str.quote] using this

theorem htmlEscape_nil : htmlEscape [] = [] := by simp [htmlEscape]

theorem htmlEscapeLoop_ok {env : Env} (henv : env.OK) {nat : Native} (hnat : NativeOK htmlEscape 6 nat)
    (b : SBuf) (hwf : b.WF) (src : Bytes) :
    ∃ b', htmlEscapeLoop env nat b src = .ok b' ∧ Ext b b' (htmlEscape src) := by
  unfold htmlEscapeLoop
  by_cases hs : b.mem.length - b.len < src.length + bufPadding
  · simp only [hs, if_true]
    obtain ⟨b1, e1, x1, hc1, _⟩ := growTo_ok henv hwf (n := b.len + src.length * 3 / 2 + bufPadding) (by omega)
    simp only [e1]
    have hcap : 0 < b1.mem.length := by unfold bufPadding at hc1; omega
    obtain ⟨b3, e3, x3⟩ := restartLoop_ok henv hnat htmlEscape_nil (loopFuel src) _ src x1.wf hcap (loopFuel_ok src _)
    exact ⟨b3, e3, by simpa using x1.trans x3⟩
  · simp only [hs, if_false]
    have hcap : 0 < b.mem.length := by unfold bufPadding at hs; omega
    exact restartLoop_ok henv hnat htmlEscape_nil (loopFuel src) _ src hwf hcap (loopFuel_ok src _)

/-- what a string routine must do for the body theorem -/
def StrEncOK (f : SBuf → Bytes → Except Fault SBuf) : Prop :=
  ∀ b s, b.WF → ∃ b', f b s = .ok b' ∧ Ext b b' (Str.quote s)

structure Natives.OK (n : Natives) : Prop where
  quote : NativeOK Str.quoteBody 6 n.quote
  html : NativeOK htmlEscape 6 n.html

theorem strEnc_ok {env : Env} (henv : env.OK) {n : Natives} (hn : n.OK) (impl : StrImpl) :
    StrEncOK (strEnc env n impl) := by
  intro b s hwf
  cases impl
  · exact jitString_ok henv hn.quote b hwf s
  · exact quoteLoop_ok henv hn.quote b hwf s

theorem encodeToks_ok {env : Env} (henv : env.OK) {f : SBuf → Bytes → Except Fault SBuf} (hf : StrEncOK f) :
    ∀ (toks : List Tok) (b : SBuf), b.WF →
      ∃ b', encodeToks env f toks b = .ok (b', hasBad toks) ∧ Ext b b' (renderToks toks) := by
  intro toks
  induction toks with
  | nil => intro b hwf; exact ⟨b, rfl, Ext.refl hwf⟩
  | cons t r ih =>
    intro b hwf
    cases t with
    | lit c =>
      obtain ⟨b1, e1, x1⟩ := emit_ok henv hwf c
      obtain ⟨b', e', x'⟩ := ih b1 x1.wf
      exact ⟨b', by simp [encodeToks, e1, e', hasBad], by simpa [renderToks] using x1.trans x'⟩
    | str s =>
      obtain ⟨b1, e1, x1⟩ := hf b s hwf
      obtain ⟨b', e', x'⟩ := ih b1 x1.wf
      exact ⟨b', by simp [encodeToks, e1, e', hasBad], by simpa [renderToks] using x1.trans x'⟩
    | bad => exact ⟨b, by simp [encodeToks, hasBad], by simpa [renderToks] using Ext.refl hwf⟩

end SonicSpec.Own
