/-
  C15 - refinement of the single operations applied to the node itself (part 1).
-/
import SonicSpec.Proofs.AstFind
set_option linter.unusedSimpArgs false
namespace SonicSpec.Ast

theorem retChild_live (c : NodeM) (hl : c.live = true) (hr : c.repOk = true) :
    retChild (some c) = .val c.abs.canon := by
  simp [retChild, hl, NodeM.canon, (encode_spec c hr).1]

theorem kidAt_obj (kvs : List (Key × Tree)) (i : Nat) (t : Tree) (h : (Tree.obj kvs).kidAt i = some t) :
    ∃ k, kvs[i]? = some (k, t) := by
  simp only [Tree.kidAt] at h
  cases hq : kvs[i]? with
  | none => simp [hq] at h
  | some p => obtain ⟨k, v⟩ := p; simp [hq] at h; subst h; exact ⟨k, rfl⟩

theorem abs_obj_of_kind (n : NodeM) (hr : n.repOk = true) (hk : n.kind = .obj) : ∃ kvs, n.abs = .obj kvs := by
  have := kind_abs n hr
  rw [hk] at this
  cases h : n.abs <;> simp [h, Tree.kind] at this
  exact ⟨_, rfl⟩

theorem abs_arr_of_kind (n : NodeM) (hr : n.repOk = true) (hk : n.kind = .arr) : ∃ xs, n.abs = .arr xs := by
  have := kind_abs n hr
  rw [hk] at this
  cases h : n.abs <;> simp [h, Tree.kind] at this
  exact ⟨_, rfl⟩

theorem get_not_obj (t : Tree) (k : Key) (h : t.kind ≠ .obj) : t.stepHere (.get k) = (.err .unsupported, t) := by
  cases t <;> simp [Tree.kind] at h <;> rfl

theorem here_get (n : NodeM) (k : Key) (hr : n.repOk = true) (hn : n.isRaw = false) :
    Refines (n.stepHere (.get k)) (n.abs.stepHere (.get k)) := by
  have hcr := checkRaw_of_not_raw n hn
  simp only [NodeM.stepHere, hcr]
  by_cases hk : n.kind = .obj
  · rw [if_neg (by simp [hk])]
    obtain ⟨s1, s2, s3, s4⟩ := skipKey_spec n k hr hn hk
    cases hf : (n.skipKey k).2 with
    | «at» j =>
      simp only [hf] at s4 ⊢
      obtain ⟨i, kvs, ⟨c, c1, c2, c3, c4, c5⟩, ha, hfk⟩ := s4
      rw [s1, ha] at c4
      obtain ⟨k', hk'⟩ := kidAt_obj kvs i c.abs c4
      have e : n.abs.stepHere (.get k) = (.val c.abs.canon, n.abs) := by
        rw [ha]; simp only [Tree.stepHere, hfk, hk']
      rw [e]; exact ⟨by simp [c1, retChild_live c c2 c3], s1, s2⟩
    | no =>
      simp only [hf] at s4 ⊢
      obtain ⟨⟨kvs, ha, hfk⟩, _⟩ := s4
      have e : n.abs.stepHere (.get k) = (.nx, n.abs) := by
        rw [ha]; simp only [Tree.stepHere, hfk]
      rw [e]; exact ⟨rfl, s1, s2⟩
  · rw [if_pos (by simpa using hk)]
    have : n.abs.kind ≠ .obj := by rw [← kind_abs n hr]; exact hk
    rw [get_not_obj _ _ this]
    exact ⟨rfl, rfl, hr⟩

/-! #### Index -/

theorem idx_kid (t : Tree) (i : Nat) (h : t.kind = .arr ∨ t.kind = .obj) :
    t.stepHere (.idx i) = (match t.kidAt i with | some v => (.val v.canon, t) | none => (.nx, t)) := by
  cases t with
  | arr xs => simp only [Tree.stepHere, Tree.kidAt]; cases xs[i]? <;> rfl
  | obj kvs =>
    simp only [Tree.stepHere, Tree.kidAt]
    cases hq : kvs[i]? with
    | none => rfl
    | some p => obtain ⟨k, v⟩ := p; rfl
  | _ => simp [Tree.kind] at h

theorem idx_other (t : Tree) (i : Nat) (h1 : t.kind ≠ .arr) (h2 : t.kind ≠ .obj) :
    t.stepHere (.idx i) = (.err .unsupported, t) := by
  cases t <;> simp [Tree.kind] at h1 h2 <;> rfl

theorem here_idx (n : NodeM) (i : Nat) (hr : n.repOk = true) (hn : n.isRaw = false) :
    Refines (n.stepHere (.idx i)) (n.abs.stepHere (.idx i)) := by
  have hcr := checkRaw_of_not_raw n hn
  have hka := kind_abs n hr
  simp only [NodeM.stepHere, hcr]
  by_cases hk : n.kind ≠ .arr ∧ n.kind ≠ .obj
  · rw [if_pos hk, idx_other _ _ (by rw [← hka]; exact hk.1) (by rw [← hka]; exact hk.2)]
    exact ⟨rfl, rfl, hr⟩
  · rw [if_neg hk]
    have hk' : n.abs.kind = .arr ∨ n.abs.kind = .obj := by
      rw [← hka]
      by_cases h1 : n.kind = .arr
      · exact Or.inl h1
      · by_cases h2 : n.kind = .obj
        · exact Or.inr h2
        · exact absurd ⟨h1, h2⟩ hk
    obtain ⟨s1, s2, s3, s4⟩ := skipIndex_spec n i hr hn
    rw [idx_kid _ _ hk']
    cases hf : (n.skipIndex i).2 with
    | none =>
      simp only [hf] at s4 ⊢
      rw [s4]; exact ⟨rfl, s1, s2⟩
    | some j =>
      simp only [hf] at s4 ⊢
      obtain ⟨c, c1, c2, c3, c4, c5⟩ := s4
      rw [s1] at c4
      rw [c4, c1, retChild_live c c2 c3]
      exact ⟨rfl, s1, s2⟩

/-! #### Len -/

theorem absElems_length (st : List NodeM) : (absElems st).length = countLive NodeM.live st := by
  rw [absElems_eq]; simp [countLive]

theorem absPairs_length (st : List PairM) : (absPairs st).length = countLive pairLive st := by
  rw [absPairs_eq]; simp [countLive]

theorem here_len (n : NodeM) (hr : n.repOk = true) (hn : n.isRaw = false) (hs : n.lenSafe = true) :
    Refines (n.stepHere .len) (n.abs.stepHere .len) := by
  have hcr := checkRaw_of_not_raw n hn
  simp only [NodeM.lenSafe, hcr] at hs
  simp only [NodeM.stepHere, hcr]
  cases n with
  | arr l st =>
    have h2 : l = countLive NodeM.live st := by
      simp only [NodeM.repOk, Bool.and_eq_true, decide_eq_true_eq] at hr; exact hr.2
    exact ⟨by simp [NodeM.abs, Tree.stepHere, absElems_length, h2], rfl, hr⟩
  | obj l st ix =>
    have h2 : l = countLive pairLive st := by
      simp only [NodeM.repOk, Bool.and_eq_true, decide_eq_true_eq] at hr; exact hr.1.2
    exact ⟨by simp [NodeM.abs, Tree.stepHere, absPairs_length, h2], rfl, hr⟩
  | arrLazy pre rest => simp at hs
  | objLazy pre rest => simp at hs
  | raw v lock => simp [NodeM.isRaw] at hn
  | gone => simp [NodeM.repOk] at hr
  | _ => exact ⟨rfl, rfl, hr⟩

/-! #### iteration -/

theorem skipAll_kind (n : NodeM) : n.skipAll.kind = n.kind := by
  cases n <;> simp [NodeM.skipAll, NodeM.kind, mkObject]

theorem skipAll_isRaw (n : NodeM) : n.skipAll.isRaw = n.isRaw := by
  cases n <;> simp [NodeM.skipAll, NodeM.isRaw, mkObject]

theorem iter_kid (t : Tree) (h : t.kind = .arr ∨ t.kind = .obj) : t.stepHere .iter = (.val t.canon, t) := by
  cases t <;> simp [Tree.kind] at h <;> rfl

theorem iter_other (t : Tree) (h1 : t.kind ≠ .arr) (h2 : t.kind ≠ .obj) :
    t.stepHere .iter = (.err .unsupported, t) := by
  cases t <;> simp [Tree.kind] at h1 h2 <;> rfl

theorem here_iter (n : NodeM) (hr : n.repOk = true) (hn : n.isRaw = false) :
    Refines (n.stepHere .iter) (n.abs.stepHere .iter) := by
  have hcr := checkRaw_of_not_raw n hn
  have hka := kind_abs n hr
  simp only [NodeM.stepHere, hcr]
  by_cases hk : n.kind ≠ .arr ∧ n.kind ≠ .obj
  · rw [if_pos hk, iter_other _ (by rw [← hka]; exact hk.1) (by rw [← hka]; exact hk.2)]
    exact ⟨rfl, rfl, hr⟩
  · rw [if_neg hk]
    have hk' : n.abs.kind = .arr ∨ n.abs.kind = .obj := by
      rw [← hka]
      by_cases h1 : n.kind = .arr
      · exact Or.inl h1
      · by_cases h2 : n.kind = .obj
        · exact Or.inr h2
        · exact absurd ⟨h1, h2⟩ hk
    obtain ⟨a1, a2⟩ := skipAll_spec n hr
    rw [iter_kid _ hk']
    exact ⟨by simp [NodeM.canon, (encode_spec _ a2).1, a1], a1, a2⟩

/-! #### Set -/

theorem rawNode_facts (v : Tree) :
    (NodeM.raw v false).live = true ∧ (NodeM.raw v false).repOk = true ∧ (NodeM.raw v false).abs = v :=
  ⟨rfl, rfl, rfl⟩

@[simp] theorem pairLive_mk (h : Hash) (k : Key) (c : NodeM) : pairLive (h, k, c) = c.live := rfl
@[simp] theorem live_raw (v : Tree) (b : Bool) : (NodeM.raw v b).live = true := rfl

theorem kind_ne_gone (n : NodeM) (hr : n.repOk = true) : n.kind ≠ .gone := by
  rw [kind_abs n hr]; cases n.abs <;> simp [Tree.kind]

theorem set_other (t : Tree) (k : Key) (v : Tree) (h1 : t.kind ≠ .obj) (h2 : t.kind ≠ .null) :
    t.stepHere (.set k v) = (.err .unsupported, t) := by
  cases t <;> simp [Tree.kind] at h1 h2 <;> rfl

theorem setKid_obj_key (kvs : List (Key × Tree)) (k : Key) (i : Nat) (v : Tree) (h : findKey k kvs = some i) :
    (Tree.obj kvs).setKid i v = .obj (kvs.set i (k, v)) := by
  obtain ⟨w, hw⟩ := findKey_getElem k kvs i h
  simp [Tree.setKid, hw]

theorem here_set (n : NodeM) (k : Key) (v : Tree) (hr : n.repOk = true) (hn : n.isRaw = false) :
    Refines (n.stepHere (.set k v)) (n.abs.stepHere (.set k v)) := by
  have hcr := checkRaw_of_not_raw n hn
  have hka := kind_abs n hr
  simp only [NodeM.stepHere, hcr]
  cases hkd : n.kind with
  | gone => exact absurd hkd (kind_ne_gone n hr)
  | null =>
    have : n.abs = .null := by
      rw [hkd] at hka; cases h : n.abs <;> simp [h, Tree.kind] at hka; rfl
    rw [this]
    exact ⟨rfl, by simp [NodeM.abs, absPairs, mkPair, NodeM.live, Tree.stepHere],
      by simp [NodeM.repOk, repPairs, mkPair, countLive, List.filter_cons, ixOk]⟩
  | obj =>
    obtain ⟨s1, s2, s3, s4⟩ := skipKey_spec n k hr hn hkd
    cases hf : (n.skipKey k).2 with
    | «at» j =>
      simp only [hf] at s4 ⊢
      obtain ⟨i, kvs, hfa, ha, hfk⟩ := s4
      have hfa' := hfa
      obtain ⟨c, c1, c2, c3, c4, c5⟩ := hfa
      obtain ⟨e1, e2⟩ := setChildAt_spec _ j i (NodeM.raw v false) s2 hfa' rfl rfl
      simp only [c1, c2, if_true]
      have e : n.abs.stepHere (.set k v) = (.b true, .obj (kvs.set i (k, v))) := by
        rw [ha]; simp only [Tree.stepHere, hfk]
      rw [e]
      refine ⟨rfl, ?_, e2⟩
      rw [e1, s1, ha]; exact setKid_obj_key kvs k i v hfk
    | no =>
      simp only [hf] at s4 ⊢
      obtain ⟨⟨kvs, ha, hfk⟩, l, st, ix, hshape⟩ := s4
      have e : n.abs.stepHere (.set k v) = (.b false, .obj (kvs ++ [(k, v)])) := by
        rw [ha]; simp only [Tree.stepHere, hfk]
      rw [e, hshape]
      rw [hshape] at s1 s2
      simp only [NodeM.repOk, Bool.and_eq_true, decide_eq_true_eq] at s2
      obtain ⟨⟨s2r, s2l⟩, s2x⟩ := s2
      simp only [NodeM.abs] at s1
      rw [ha] at s1
      have hkvs : absPairs st = kvs := by injection s1
      by_cases hl : l = 0
      · simp only [hl, if_true]
        have : kvs = [] := by
          rw [← hkvs]; apply List.eq_nil_of_length_eq_zero; rw [absPairs_length]; omega
        subst this
        exact ⟨rfl, by simp [NodeM.abs, absPairs, mkPair, NodeM.live],
          by simp [NodeM.repOk, repPairs, mkPair, countLive, List.filter_cons, ixOk]⟩
      · simp only [hl, if_false]
        have hnone : firstLiveKey k st = none := by
          have := firstLiveKey_findKey k st
          cases hq : firstLiveKey k st with
          | none => rfl
          | some p =>
            simp only [hq] at this
            obtain ⟨_, _, _, _, h4⟩ := this
            rw [hkvs, hfk] at h4; simp at h4
        have hix : ixOk (st ++ [mkPair k (NodeM.raw v false)])
            (ix.map (fun m => ixSet m (some k) st.length)) = true := by
          cases ix with
          | none => rfl
          | some m => exact ixOk_push st m k _ s2r s2x hnone
        refine ⟨rfl, ?_, ?_⟩
        · simp [NodeM.abs, absPairs_append, absPairs, mkPair, NodeM.live, hkvs]
        · simp [NodeM.repOk, repPairs_append, repPairs, mkPair, s2r, countLive_append, countLive, List.filter_cons, hix]
          refine ⟨by have := s2l; simpa [countLive] using this, ?_⟩
          simpa [mkPair] using hix
  | arr => rw [set_other _ _ _ (by rw [← hka, hkd]; simp) (by rw [← hka, hkd]; simp)]; exact ⟨rfl, rfl, hr⟩
  | bool => rw [set_other _ _ _ (by rw [← hka, hkd]; simp) (by rw [← hka, hkd]; simp)]; exact ⟨rfl, rfl, hr⟩
  | num => rw [set_other _ _ _ (by rw [← hka, hkd]; simp) (by rw [← hka, hkd]; simp)]; exact ⟨rfl, rfl, hr⟩
  | str => rw [set_other _ _ _ (by rw [← hka, hkd]; simp) (by rw [← hka, hkd]; simp)]; exact ⟨rfl, rfl, hr⟩

/-! #### Unset -/

theorem map_eraseIdx' {α β : Type} (f : α → β) : ∀ (l : List α) (i : Nat), (l.eraseIdx i).map f = (l.map f).eraseIdx i
  | [], _ => by simp
  | _ :: _, 0 => by simp
  | x :: xs, i + 1 => by simp [map_eraseIdx' f xs i]

theorem map_insertIdx' {α β : Type} (f : α → β) : ∀ (l : List α) (i : Nat) (a : α),
    (l.insertIdx i a).map f = (l.map f).insertIdx i (f a)
  | _, 0, _ => by simp
  | [], i + 1, _ => by simp
  | x :: xs, i + 1, a => by simp [map_insertIdx' f xs i a]

theorem absPairs_kill (st : List PairM) (j : Nat) (p : PairM) (h : st[j]? = some p) (hl : pairLive p = true) :
    absPairs (st.set j deadPair) = (absPairs st).eraseIdx (countLive pairLive (st.take j)) ∧
    countLive pairLive (st.set j deadPair) = countLive pairLive st - 1 := by
  have hf := filter_set_dead pairLive st j p deadPair h hl rfl
  have hlt := countLive_take_lt pairLive st j p h hl
  constructor
  · rw [absPairs_eq, absPairs_eq, hf, map_eraseIdx']
  · unfold countLive at hlt ⊢
    rw [hf, List.length_eraseIdx]; unfold countLive; rw [if_pos hlt]

theorem absElems_kill (st : List NodeM) (j : Nat) (c : NodeM) (h : st[j]? = some c) (hl : c.live = true) :
    absElems (st.set j .gone) = (absElems st).eraseIdx (countLive NodeM.live (st.take j)) ∧
    countLive NodeM.live (st.set j .gone) = countLive NodeM.live st - 1 := by
  have hf := filter_set_dead NodeM.live st j c .gone h hl rfl
  have hlt := countLive_take_lt NodeM.live st j c h hl
  constructor
  · rw [absElems_eq, absElems_eq, hf, map_eraseIdx']
  · unfold countLive at hlt ⊢
    rw [hf, List.length_eraseIdx]; unfold countLive; rw [if_pos hlt]

theorem skipAll_obj_shape (n : NodeM) (hk : n.kind = .obj) (hn : n.isRaw = false) :
    ∃ l st ix, n.skipAll = .obj l st ix := by
  cases n <;> simp [NodeM.kind, NodeM.isRaw] at hk hn
  · exact ⟨_, _, _, rfl⟩
  · exact ⟨_, _, _, rfl⟩

theorem skipAll_arr_shape (n : NodeM) (hk : n.kind = .arr) (hn : n.isRaw = false) :
    ∃ l st, n.skipAll = .arr l st := by
  cases n <;> simp [NodeM.kind, NodeM.isRaw] at hk hn
  · exact ⟨_, _, rfl⟩
  · exact ⟨_, _, rfl⟩

theorem skipKey_obj_fst (l : Nat) (st : List PairM) (ix : Option Index) (k : Key) :
    ((NodeM.obj l st ix).skipKey k).1 = .obj l st ix := by
  rw [skipKey_obj]; split <;> rfl

theorem unset_other (t : Tree) (k : Key) (h1 : t.kind ≠ .obj) : t.stepHere (.unset k) = (.err .unsupported, t) := by
  cases t <;> simp [Tree.kind] at h1 <;> rfl

theorem here_unset (n : NodeM) (k : Key) (hr : n.repOk = true) (hn : n.isRaw = false) :
    Refines (n.stepHere (.unset k)) (n.abs.stepHere (.unset k)) := by
  have hcr := checkRaw_of_not_raw n hn
  have hka := kind_abs n hr
  simp only [NodeM.stepHere, hcr]
  by_cases hk : n.kind = .obj
  · rw [if_neg (by simp [hk])]
    obtain ⟨a1, a2⟩ := skipAll_spec n hr
    obtain ⟨l, st, ix, hshape⟩ := skipAll_obj_shape n hk hn
    rw [hshape] at a1 a2
    obtain ⟨s1, s2, s3, s4⟩ := skipKey_spec (.obj l st ix) k a2 rfl rfl
    rw [hshape]
    have hfst := skipKey_obj_fst l st ix k
    cases hf : ((NodeM.obj l st ix).skipKey k).2 with
    | no =>
      simp only [hf] at s4 ⊢
      obtain ⟨⟨kvs, ha, hfk⟩, _⟩ := s4
      rw [a1] at ha
      have e : n.abs.stepHere (.unset k) = (.b false, n.abs) := by
        rw [ha]; simp only [Tree.stepHere, hfk]
      rw [e]; exact ⟨rfl, by rw [s1, a1], s2⟩
    | «at» j =>
      simp only [hf] at s4 ⊢
      obtain ⟨i, kvs, ⟨c, c1, c2, c3, c4, c5⟩, ha, hfk⟩ := s4
      rw [a1] at ha
      rw [hfst] at c1 c5 ⊢
      simp only [c1, c2, if_true]
      have e : n.abs.stepHere (.unset k) = (.b true, .obj (kvs.eraseIdx i)) := by
        rw [ha]; simp only [Tree.stepHere, hfk]
      rw [e]
      simp only [NodeM.childAt] at c1
      cases hp : st[j]? with
      | none => simp [hp] at c1
      | some p =>
        simp [hp] at c1
        have hpl : pairLive p = true := by simpa [pairLive, c1] using c2
        obtain ⟨k1, k2⟩ := absPairs_kill st j p hp hpl
        simp only [NodeM.logIdx] at c5
        simp only [NodeM.repOk, Bool.and_eq_true, decide_eq_true_eq] at a2
        obtain ⟨⟨a2r, a2l⟩, a2x⟩ := a2
        have hkvs : absPairs st = kvs := by
          simp only [NodeM.abs] at a1; rw [ha] at a1; injection a1
        refine ⟨rfl, ?_, ?_⟩
        · simp only [NodeM.abs, k1, c5, hkvs]
        · simp only [NodeM.repOk, Bool.and_eq_true, decide_eq_true_eq, k2, a2l, ixOk_kill st ix j a2x, and_true]
          exact repPairs_set st j deadPair a2r (by simp [deadPair, pairLive, NodeM.live]) (by simp [deadPair])
  · rw [if_pos (by simpa using hk), unset_other _ _ (by rw [← hka]; exact hk)]
    exact ⟨rfl, rfl, hr⟩

end SonicSpec.Ast
