/-
  Base lemmas for the string routines over memory: a reader that holds a byte list, invariants of
  `scalarLoop` / `Scan.run`, the budgeted search.
-/
import SonicSpec.Model.MemStr
import SonicSpec.Proofs.Mem
import SonicSpec.Proofs.MemScan
import SonicSpec.Proofs.MemApi
namespace SonicSpec.Mem

theorem Holds.ne_none {rd : Rd} {s : Bytes} (h : Holds rd s) : ∀ i, i < s.length → rd i ≠ none := by
  intro i hi
  rw [h i hi]
  simp [hi]

theorem Holds.agree {rd : Rd} {s : Bytes} (h : Holds rd s) : ∀ i, i < s.length → rd i = ofList s i := by
  intro i hi
  rw [h i hi]
  rfl

theorem Holds.get {rd : Rd} {s : Bytes} (h : Holds rd s) (i : Nat) (hi : i < s.length) : rd i = some s[i] := by
  rw [h i hi]
  simp [hi]

/-- the slice `s[p .. q)` -/
def slice (s : Bytes) (p q : Nat) : Bytes := (s.drop p).take (q - p)

theorem slice_self (s : Bytes) (p : Nat) : slice s p p = [] := by simp [slice]

theorem slice_append (s : Bytes) (p q r : Nat) (h1 : p ≤ q) (h2 : q ≤ r) :
    slice s p q ++ slice s q r = slice s p r := by
  simp only [slice]
  have e : r - p = (q - p) + (r - q) := by omega
  rw [e, List.take_add, List.drop_drop]
  have e2 : p + (q - p) = q := by omega
  rw [e2]

theorem slice_succ (s : Bytes) (p : Nat) (hp : p < s.length) : slice s p (p + 1) = [s[p]] := by
  unfold slice
  rw [List.drop_eq_getElem_cons hp]
  have : p + 1 - p = 1 := by omega
  rw [this]
  rfl

theorem slice_drop (s : Bytes) (p : Nat) (q : Nat) (hq : s.length ≤ q) : slice s p q = s.drop p := by
  simp only [slice]
  apply List.take_of_length_le
  simp only [List.length_drop]
  omega

theorem drop_eq_slice_append (s : Bytes) (p q : Nat) (h1 : p ≤ q) : s.drop p = slice s p q ++ s.drop q := by
  simp only [slice]
  have : s.drop q = (s.drop p).drop (q - p) := by
    rw [List.drop_drop]
    congr 1
    omega
  rw [this, List.take_append_drop]

theorem Holds.load {rd : Rd} {s : Bytes} (h : Holds rd s) (p q : Nat) (h1 : p ≤ q) (h2 : q ≤ s.length) :
    loadW rd (q - p) p = some (slice s p q) := by
  rw [loadW_congr (rd' := ofList s) (q - p) p (fun i hi1 hi2 => h.agree i (by omega))]
  exact loadW_ofList s (q - p) p (by omega)

/-- length of the run of ordinary bytes from `p` on -/
def runLen (special : UInt8 → Bool) (s : Bytes) (p : Nat) : Nat :=
  ((s.drop p).takeWhile (fun c => !special c)).length

theorem scalarFind_ofList (special : UInt8 → Bool) (s : Bytes) (p : Nat) :
    findSpecial special [] (ofList s) s.length p = some (p + runLen special s p) := by
  simp only [findSpecial, Scan.run.eq_1, findScan, runLen]
  fun_induction scalarLoop (findStep special) (fun _ off => off) (ofList s) s.length () p with
  | case1 st off hlt hb => simp [ofList, hlt] at hb
  | case2 st off hlt b hb r hs =>
    simp only [ofList, List.getElem?_eq_getElem hlt, Option.some.injEq] at hb
    simp only [findStep] at hs
    split at hs
    · cases hs
      rw [List.drop_eq_getElem_cons hlt, hb]
      simp [*]
    · cases hs
  | case3 st off hlt b hb st' hs ih =>
    simp only [ofList, List.getElem?_eq_getElem hlt, Option.some.injEq] at hb
    simp only [findStep] at hs
    split at hs
    · cases hs
    · rw [ih, List.drop_eq_getElem_cons hlt, hb]
      simp only [*, Bool.not_false, List.takeWhile_cons_of_pos, List.length_cons]
      congr 1
      omega
  | case4 st off hlt =>
    have : s.drop off = [] := List.drop_eq_nil_of_le (by omega)
    simp [this]

/-- every list of block widths finds the end of the run of ordinary bytes -/
theorem Holds.find {rd : Rd} {s : Bytes} (h : Holds rd s) (special : UInt8 → Bool) (Ws : List Nat) (p : Nat) :
    findSpecial special Ws rd s.length p = some (p + runLen special s p) := by
  rw [findSpecial_eq_scalar s.length special h.ne_none Ws p,
      findSpecial_congr s.length special h.agree [] p, scalarFind_ofList]

theorem takeWhile_len_le (f : UInt8 → Bool) : ∀ l : Bytes, (l.takeWhile f).length ≤ l.length
  | [] => by simp
  | a :: l => by
    simp only [List.takeWhile_cons]
    split
    · simp only [List.length_cons]; have := takeWhile_len_le f l; omega
    · simp

theorem mem_takeWhile_sat (f : UInt8 → Bool) : ∀ (l : Bytes) (c : UInt8), c ∈ l.takeWhile f → f c = true
  | [], c, h => by simp at h
  | a :: l, c, h => by
    simp only [List.takeWhile_cons] at h
    split at h
    · rcases List.mem_cons.mp h with rfl | h'
      · assumption
      · exact mem_takeWhile_sat f l c h'
    · simp at h

theorem runLen_le (special : UInt8 → Bool) (s : Bytes) (p : Nat) : p + runLen special s p ≤ max p s.length := by
  simp only [runLen]
  have := takeWhile_len_le (fun c => !special c) (s.drop p)
  simp only [List.length_drop] at this
  omega

/-- the bytes of the run are ordinary -/
theorem runLen_plain (special : UInt8 → Bool) (s : Bytes) (p : Nat) :
    ∀ c ∈ slice s p (p + runLen special s p), special c = false := by
  intro c hc
  simp only [slice, runLen, Nat.add_sub_cancel_left] at hc
  have e : (s.drop p).take ((s.drop p).takeWhile (fun c => !special c)).length
      = (s.drop p).takeWhile (fun c => !special c) := by
    generalize s.drop p = l
    induction l with
    | nil => rfl
    | cons a l ih =>
      simp only [List.takeWhile_cons]
      split
      · simp [ih]
      · simp
  rw [e] at hc
  have := mem_takeWhile_sat _ _ _ hc
  simpa using this

/-- the run stops at the end of the input or in front of a special byte -/
theorem runLen_stop (special : UInt8 → Bool) (s : Bytes) (p : Nat) (hp : p ≤ s.length) :
    p + runLen special s p = s.length ∨
    ∃ h : p + runLen special s p < s.length, special s[p + runLen special s p] = true := by
  have key : ∀ (l : Bytes), (l.takeWhile (fun c => !special c)).length = l.length ∨
      ∃ h : (l.takeWhile (fun c => !special c)).length < l.length,
        special l[(l.takeWhile (fun c => !special c)).length] = true := by
    intro l
    induction l with
    | nil => left; rfl
    | cons a l ih =>
      by_cases ha : special a = true
      · right
        have e : (a :: l).takeWhile (fun c => !special c) = [] := by simp [List.takeWhile_cons, ha]
        rw [e]
        exact ⟨by simp, by simpa using ha⟩
      · have ha' : special a = false := by simpa using ha
        have e : (a :: l).takeWhile (fun c => !special c) = a :: l.takeWhile (fun c => !special c) := by
          simp [List.takeWhile_cons, ha']
        rw [e]
        rcases ih with ih | ⟨h1, h2⟩
        · left; simp only [List.length_cons]; omega
        · right
          exact ⟨by simp only [List.length_cons]; omega, by simpa using h2⟩
  have hlen : (s.drop p).length = s.length - p := by simp
  rcases key (s.drop p) with h1 | ⟨h1, h2⟩
  · left; simp only [runLen]; omega
  · right
    refine ⟨by simp only [runLen]; omega, ?_⟩
    simp only [List.getElem_drop] at h2
    exact h2

/-! ### invariants -/

section inv
variable {σ ρ : Type}

theorem scalarLoop_inv (step : σ → Nat → UInt8 → Step σ ρ) (eof : σ → Nat → ρ) {rd : Rd} (len : Nat)
    (Inv : σ → Nat → Prop) (P : ρ → Prop)
    (hstep : ∀ st off b, Inv st off → off < len → rd off = some b →
      (match step st off b with | .done r => P r | .cont st' => Inv st' (off + 1)))
    (heof : ∀ st off, Inv st off → ¬ off < len → P (eof st off))
    (st : σ) (off : Nat) (r : ρ) (hi : Inv st off) (h : scalarLoop step eof rd len st off = some r) : P r := by
  fun_induction scalarLoop step eof rd len st off with
  | case1 st off hlt hb => cases h
  | case2 st off hlt b hb r' hs =>
    cases h
    have := hstep st off b hi hlt hb
    rw [hs] at this
    exact this
  | case3 st off hlt b hb st' hs ih =>
    have := hstep st off b hi hlt hb
    rw [hs] at this
    exact ih this h
  | case4 st off hlt =>
    cases h
    exact heof st off hi hlt

theorem run_inv (S : Scan σ ρ) {rd : Rd} (len : Nat) (Inv : σ → Nat → Prop) (P : ρ → Prop)
    (hblk : ∀ st off bs, Inv st off → off + bs.length ≤ len → loadW rd bs.length off = some bs →
      (match S.blk st off bs with | .done r => P r | .cont st' => Inv st' (off + bs.length)))
    (htail : ∀ st off r, Inv st off → S.tail rd len st off = some r → P r)
    (Ws : List Nat) (st : σ) (off : Nat) (r : ρ) (hi : Inv st off) (h : S.run rd len Ws st off = some r) : P r := by
  fun_induction Scan.run S rd len Ws st off with
  | case1 st off => exact htail st off r hi h
  | case2 W Ws st off hc hl => cases h
  | case3 W Ws st off hc bs hl r' hb =>
    cases h
    have hlen := loadW_length W off bs hl
    have := hblk st off bs hi (by omega) (by rw [hlen]; exact hl)
    rw [hb] at this
    exact this
  | case4 W Ws st off hc bs hl st' hb ih =>
    have hlen := loadW_length W off bs hl
    have := hblk st off bs hi (by omega) (by rw [hlen]; exact hl)
    rw [hb, hlen] at this
    exact ih this h
  | case5 W Ws st off hc ih => exact ih hi h

end inv

end SonicSpec.Mem
