/-
  Encoder IR, compiler correctness (9): string-keyed maps (compileMap / compileMapBody), sorted or in iteration order.
-/
import SonicSpec.Proofs.IrMapLoop
namespace SonicSpec.Ir
open SonicSpec SonicSpec.Go SonicSpec.Enc SonicSpec.Json
variable {o : EncOpts} {co : COpts}

/-- compileMap / compileMapBody for a string key, the two copies of the value's code given -/
def mapCode (t : GoType) (pc : Nat) (v1 v2 : Program) : Program :=
  [Instr.isNil (pc + 11 + v1.length + 6 + v2.length + 1 + 4), Instr.byte 123, Instr.isZeroMap (pc + 11 + v1.length + 6 + v2.length + 1 + 2),
    Instr.save false, Instr.mapIter (.map .str t), Instr.save false, Instr.mapCheckKey (pc + 11 + v1.length + 6 + v2.length + 1)] ++
  ([Instr.mapWriteKey (pc + 7 + 2), Instr.str, Instr.byte 58, Instr.mapValueNext] ++ v1) ++
  [Instr.mapCheckKey (pc + 11 + v1.length + 6 + v2.length + 1), Instr.byte 44] ++
  ([Instr.mapWriteKey (pc + 11 + v1.length + 2 + 2), Instr.str, Instr.byte 58, Instr.mapValueNext] ++ v2) ++
  [Instr.goto (pc + 11 + v1.length), Instr.mapStop, Instr.drop2, Instr.byte 125, Instr.goto (pc + 11 + v1.length + 6 + v2.length + 1 + 5),
    Instr.emptyObj]

theorem code_map_str (pc sp : Nat) (pv : Bool) (t : GoType) :
    code co pc sp pv (.map .str t) =
      mapCode t pc (code co (pc + 7 + 4) (sp + 2) false t)
        (code co (pc + 11 + (code co (pc + 7 + 4) (sp + 2) false t).length + 2 + 4) (sp + 2) false t) := by
  rw [code]
  simp only [keyCode, mapCode, List.length_cons, List.length_nil]
  have e1 : pc + 8 + (0 + 1) + 2 = pc + 7 + 4 := by omega
  rw [e1]
  generalize code co (pc + 7 + 4) (sp + 2) false t = v1
  have e2 : pc + 8 + (0 + 1) + 2 + v1.length + 3 + (0 + 1) + 2 = pc + 11 + v1.length + 2 + 4 := by omega
  rw [e2]
  generalize code co (pc + 11 + v1.length + 2 + 4) (sp + 2) false t = v2
  simp only [List.append_assoc, List.cons_append, List.nil_append]


theorem keyBodies_str : ∀ (es : List (Bytes × JVal)), keyBodies o .str es = .ok (es.map (qk o)) := by
  intro es
  induction es with
  | nil => rfl
  | cons e r ih =>
    obtain ⟨ks, j⟩ := e
    simp only [keyBodies, keyBody, isTextKey, Bool.and_false, Bool.false_eq_true, if_false, ih, bind, Except.bind, pure, Except.pure,
      List.map_cons, qk]

/-- the error of a value's code is the specification's, whatever the program around it -/
theorem codeOK_err_kind {T : GoType} {v : GoVal} (h : CodeOK o co T v) (hn : need T ≤ maxStack) {addr : Bool} {e : EErr}
    (he : encV o addr T v = .error e) : e = .unsupportedValue :=
  ((h addr false (code co 0 0 false T) 0 0 false (Regs.start (.val v)) [] [] (At.whole _) rfl (by simpa using hn)).2 e he).1

theorem encIt_err_kind {t : GoType} : ∀ (l : Iter), (∀ x ∈ l, ∀ e, encV o false t x.2 = .error e → e = .unsupportedValue) →
    ∀ e, encIt o t l = .error e → e = .unsupportedValue := by
  intro l
  induction l with
  | nil => intro _ e h; simp only [encIt] at h; cases h
  | cons x r ih =>
    intro hall e h
    simp only [encIt, entrySpec] at h
    cases hv : encV o false t x.2 with
    | error e' =>
      rw [hv] at h
      simp only [Except.map] at h
      injection h with h; subst h
      exact hall x (by simp) _ hv
    | ok j =>
      rw [hv] at h
      simp only [Except.map] at h
      split at h
      · rename_i e' hr
        injection h with h; subst h
        exact ih (fun y hy => hall y (by simp [hy])) _ hr
      · cases h

theorem codeOK_map_nil (t : GoType) : CodeOK o co (.map .str t) .nil := by
  intro addr fpv P pc sp pv r s b hat hg _
  rw [code_map_str] at hat ⊢
  generalize code co (pc + 7 + 4) (sp + 2) false t = v1 at hat ⊢
  generalize code co (pc + 11 + v1.length + 2 + 4) (sp + 2) false t = v2 at hat ⊢
  unfold mapCode at hat ⊢
  have hA := hat.left.left.left.left
  have hL6 := At.right' (q := pc + 11 + v1.length + 6 + v2.length) hat (by simp <;> omega)
  constructor
  · intro j hj res h
    simp only [encV, keyTypeOK, if_true] at hj
    injection hj with hj; subst hj
    refine halts_step (hA.get 0 (by omega) rfl) (by simp only [step, hg, jumpIf]; rfl) ?_
    refine halts_step (hL6.get 5 (by omega) rfl) (by simp only [step]; rfl) ?_
    exact halts_cast h (by simp <;> omega) rfl rfl rfl
  · intro e he; simp only [encV, keyTypeOK, if_true] at he; cases he


theorem ConfM_keys {t : GoType} : ∀ (kvs : List (GoVal × GoVal)), ConfM .str t kvs = true → ∀ e ∈ kvs, ∃ ks, e.1 = GoVal.str ks := by
  intro kvs
  induction kvs with
  | nil => intro _ e he; cases he
  | cons x r ih =>
    intro h e he
    obtain ⟨a, v⟩ := x
    simp only [ConfM, Bool.and_eq_true] at h
    rcases List.mem_cons.mp he with he | he
    · subst he
      cases a <;> try (simp [Conf] at h; done)
      exact ⟨_, rfl⟩
    · exact ih h.2 e he

theorem codeOK_map {t : GoType} (kvs : List (GoVal × GoVal)) (hC : ConfM .str t kvs = true)
    (hall : ∀ e ∈ kvs, CodeOK o co t e.2) : CodeOK o co (.map .str t) (.map kvs) := by
  intro addr fpv P pc sp pv r s b hat hg hs
  simp only [need] at hs
  rw [code_map_str] at hat ⊢
  generalize hv1 : code co (pc + 7 + 4) (sp + 2) false t = v1 at hat ⊢
  generalize hv2 : code co (pc + 11 + v1.length + 2 + 4) (sp + 2) false t = v2 at hat ⊢
  unfold mapCode at hat ⊢
  have hA := hat.left.left.left.left
  have hE1 := At.right' (q := pc + 7) hat.left.left.left (by simp)
  have hL2 := At.right' (q := pc + 11 + v1.length) hat.left.left (by simp <;> omega)
  have hE2 := At.right' (q := pc + 11 + v1.length + 2) hat.left (by simp <;> omega)
  have hL6 := At.right' (q := pc + 11 + v1.length + 6 + v2.length) hat (by simp <;> omega)
  have hlen : pc + ([Instr.isNil (pc + 11 + v1.length + 6 + v2.length + 1 + 4), Instr.byte 123, Instr.isZeroMap (pc + 11 + v1.length + 6 + v2.length + 1 + 2),
      Instr.save false, Instr.mapIter (.map .str t), Instr.save false, Instr.mapCheckKey (pc + 11 + v1.length + 6 + v2.length + 1)] ++
    ([Instr.mapWriteKey (pc + 7 + 2), Instr.str, Instr.byte 58, Instr.mapValueNext] ++ v1) ++
    [Instr.mapCheckKey (pc + 11 + v1.length + 6 + v2.length + 1), Instr.byte 44] ++
    ([Instr.mapWriteKey (pc + 11 + v1.length + 2 + 2), Instr.str, Instr.byte 58, Instr.mapValueNext] ++ v2) ++
    [Instr.goto (pc + 11 + v1.length), Instr.mapStop, Instr.drop2, Instr.byte 125, Instr.goto (pc + 11 + v1.length + 6 + v2.length + 1 + 5),
      Instr.emptyObj]).length = pc + 11 + v1.length + 6 + v2.length + 1 + 5 := by
    simp <;> omega
  rw [hlen]
  -- the specification
  have hspec : encV o addr (.map .str t) (.map kvs) =
      (encIt o t kvs).map fun es => JVal.obj ((if o.sortMapKeys then sortKV es else es).map (qk o)) := by
    simp only [encV, keyTypeOK, if_true, encM_eq_encIt t kvs hC]
    cases encIt o t kvs with
    | error e => rfl
    | ok es => simp only [Except.bind, keyBodies_str, Except.map]
  rw [hspec]
  have hneed : need t ≤ maxStack := by omega
  have herrk : ∀ x ∈ kvs, ∀ e, encV o false t x.2 = .error e → e = .unsupportedValue :=
    fun x hx e he => codeOK_err_kind (hall x hx) hneed he
  cases kvs with
  | nil =>
    constructor
    · intro j hj res h
      simp only [encIt, Except.map] at hj
      injection hj with hj; subst hj
      refine halts_step (hA.get 0 (by omega) rfl) (by simp only [step, hg, jumpIf]; rfl) ?_
      refine halts_step (hA.get 1 (by omega) rfl) (by simp only [step]; rfl) ?_
      refine halts_step (hA.get 2 (by omega) rfl) (by simp only [step, hg, jumpIf]; rfl) ?_
      refine halts_step (hL6.get 3 (by omega) rfl) (by simp only [step]; rfl) ?_
      refine halts_step (hL6.get 4 (by omega) rfl) (by simp only [step]; rfl) ?_
      exact halts_cast h rfl rfl rfl (by cases o.sortMapKeys <;> simp [render, renderMembers, sortKV])
    · intro e he; simp only [encIt, Except.map] at he; cases he
  | cons e0 kvs' =>
    -- the iterator the machine builds
    generalize hit : (if o.sortMapKeys then sortIt (e0 :: kvs') else (e0 :: kvs')) = it
    have hmem : ∀ x, x ∈ it ↔ x ∈ e0 :: kvs' := by
      intro x; rw [← hit]; split
      · exact mem_sortIt
      · exact Iff.rfl
    have hiter : step o (Instr.mapIter (.map .str t)) (pc + 4) r (r :: s) (b ++ [123]) =
        .next (pc + 4 + 1) { r with q := some it } (r :: s) (b ++ [123]) := by
      simp only [step, hg, List.isEmpty_cons, Bool.not_false, Bool.and_true, renderKeys_str t _ hC]
      rw [← hit]
      cases o.sortMapKeys <;> rfl
    have hsave1 : ∀ q bb, step o (.save false) q r s bb = .next (q + 1) r (r :: s) bb := by
      intro q bb
      simp only [step]
      rw [if_neg (by omega)]
      simp
    have hsave2 : ∀ q bb, step o (.save false) q { r with q := some it } (r :: s) bb =
        .next (q + 1) { r with q := some it } ({ r with q := some it } :: r :: s) bb := by
      intro q bb
      simp only [step]
      rw [if_neg (by simp; omega)]
      simp
    have pre : ∀ res, Halts o co fpv P (pc + 6) { r with q := some it } ({ r with q := some it } :: r :: s) (b ++ [123]) res →
        Halts o co fpv P pc r s b res := by
      intro res h
      refine halts_step (hA.get 0 (by omega) rfl) (by simp only [step, hg, jumpIf]; rfl) ?_
      refine halts_step (hA.get 1 (by omega) rfl) (by simp only [step]; rfl) ?_
      refine halts_step (hA.get 2 (by omega) rfl) (by simp only [step, hg, jumpIf, List.isEmpty_cons]; rfl) ?_
      refine halts_step (hA.get 3 (by omega) rfl) (hsave1 _ _) ?_
      refine halts_step (hA.get 4 (by omega) rfl) hiter ?_
      refine halts_step (hA.get 5 (by omega) rfl) (hsave2 _ _) ?_
      exact halts_cast h (by omega) rfl rfl rfl
    have post : ∀ res rr bb, Halts o co fpv P (pc + 11 + v1.length + 6 + v2.length + 1 + 5) r s (bb ++ [125]) res →
        Halts o co fpv P (pc + 11 + v1.length + 6 + v2.length + 1) rr ({ r with q := some it } :: r :: s) bb res := by
      intro res rr bb h
      refine halts_step (hL6.get 1 (by omega) rfl) (by simp only [step]; rfl) ?_
      refine halts_step (hL6.get 2 (by omega) rfl) (by simp only [step]; rfl) ?_
      refine halts_step (hL6.get 3 (by omega) rfl) (by simp only [step]; rfl) ?_
      refine halts_step (hL6.get 4 (by omega) rfl) (by simp only [step]; rfl) ?_
      exact h
    -- everything the iterator shows
    have hkeys : ∀ x ∈ it, ∃ ks, x.1 = GoVal.str ks := fun x hx => ConfM_keys _ hC x ((hmem x).mp hx)
    have hcode : ∀ x ∈ it, CodeOK o co t x.2 := fun x hx => hall x ((hmem x).mp hx)
    have hroom : ({ r with q := some it } :: r :: s).length + need t ≤ maxStack := by simp; omega
    have whole : (∀ ms, encIt o t it = .ok ms → ∀ res,
          Halts o co fpv P (pc + 11 + v1.length + 6 + v2.length + 1 + 5) r s (b ++ [123] ++ emitM true (ms.map (qk o)) ++ [125]) res →
          Halts o co fpv P pc r s b res) ∧
        (∀ e, encIt o t it = .error e → e = .unsupportedValue ∧ Halts o co fpv P pc r s b (.error (.enc e))) := by
      cases it with
      | nil => exact absurd ((hmem e0).mpr (by simp)) (by simp)
      | cons x it' =>
        obtain ⟨k0, val0⟩ := x
        obtain ⟨ks0, hks0⟩ := hkeys (k0, val0) (by simp)
        simp only at hks0
        subst hks0
        obtain ⟨eok, eerr⟩ := entry_ok (o := o) (co := co) (fpv := fpv) (P := P) (sp := sp + 2) (pc + 7) (hv1 ▸ hE1)
          { r with q := some ((GoVal.str ks0, val0) :: it') } ks0 val0 it' _ (b ++ [123]) hroom (hcode (.str ks0, val0) (by simp))
        rw [hv1] at eok
        obtain hloop := mapLoop_ok (o := o) (co := co) (fpv := fpv) (P := P) (sp := sp + 2)
          (i := pc + 11 + v1.length + 6 + v2.length + 1) hL2 (hv2 ▸ hE2)
          (by
            rw [hv2]
            have h := At.left (a := [Instr.goto (pc + 11 + v1.length)]) (c := [_, _, _, _, _]) hL6
            have e : pc + 11 + v1.length + 2 + 4 + v2.length = pc + 11 + v1.length + 6 + v2.length := by omega
            rw [e]; exact h)
          { r with q := some ((GoVal.str ks0, val0) :: it') } _ hroom it' (fun x hx => hkeys x (by simp [hx])) (fun x hx => hcode x (by simp [hx])) (.val val0)
        have hcheck : ∀ bb, step o (Instr.mapCheckKey (pc + 11 + v1.length + 6 + v2.length + 1)) (pc + 6)
            { r with q := some ((GoVal.str ks0, val0) :: it') } ({ r with q := some ((GoVal.str ks0, val0) :: it') } :: r :: s) bb =
            .next (pc + 6 + 1) { r with p := .val (.str ks0), q := some ((GoVal.str ks0, val0) :: it') }
              ({ r with q := some ((GoVal.str ks0, val0) :: it') } :: r :: s) bb := by
          intro bb; simp only [step]
        constructor
        · intro ms hms res h
          simp only [encIt, entrySpec, iterKey] at hms
          cases hv : encV o false t val0 with
          | error x => rw [hv] at hms; simp only [Except.map] at hms; cases hms
          | ok jv =>
            rw [hv] at hms
            simp only [Except.map] at hms
            split at hms
            · cases hms
            · rename_i mr hr
              injection hms with hms; subst hms
              refine pre res ?_
              refine halts_step (hA.get 6 (by omega) rfl) (hcheck _) ?_
              refine eok jv hv res ?_
              refine halts_cast ((hloop _).1 mr hr res (fun rr => post res rr _ ?_)) (by omega) rfl rfl rfl
              exact halts_cast h rfl rfl rfl (by simp [emitM, qk])
        · intro e hms
          simp only [encIt, entrySpec, iterKey] at hms
          cases hv : encV o false t val0 with
          | error x =>
            rw [hv] at hms
            simp only [Except.map] at hms
            injection hms with hms; subst hms
            obtain ⟨h1, h2⟩ := eerr _ hv
            refine ⟨h1, pre _ ?_⟩
            exact halts_step (hA.get 6 (by omega) rfl) (hcheck _) h2
          | ok jv =>
            rw [hv] at hms
            simp only [Except.map] at hms
            split at hms
            · rename_i x hr
              injection hms with hms; subst hms
              obtain ⟨h1, h2⟩ := (hloop (b ++ [123] ++ memb (quoteBody o.escapeHTML o.validateString ks0, jv))).2 _ hr
              refine ⟨h1, pre _ ?_⟩
              refine halts_step (hA.get 6 (by omega) rfl) (hcheck _) ?_
              exact eok jv hv _ (halts_cast h2 (by omega) rfl rfl rfl)
            · cases hms
    obtain ⟨wok, werr⟩ := whole
    constructor
    · intro j hj res h
      cases hes : encIt o t (e0 :: kvs') with
      | error e => rw [hes] at hj; cases hj
      | ok es =>
        rw [hes] at hj
        simp only [Except.map] at hj
        injection hj with hj; subst hj
        have hite : encIt o t it = .ok (if o.sortMapKeys then sortKV es else es) := by
          rw [← hit]
          cases o.sortMapKeys with
          | true => exact encIt_sort _ _ hes
          | false => exact hes
        refine wok _ hite res ?_
        exact halts_cast h rfl rfl rfl (by simp [render_obj])
    · intro e hj
      cases hes : encIt o t (e0 :: kvs') with
      | ok es => rw [hes] at hj; cases hj
      | error e' =>
        rw [hes] at hj
        simp only [Except.map] at hj
        injection hj with hj; subst hj
        have hk := encIt_err_kind (o := o) (t := t) _ herrk _ hes
        subst hk
        have hite : ∃ e'', encIt o t it = .error e'' := by
          rw [← hit]
          cases o.sortMapKeys with
          | true => exact encIt_sort_err hes
          | false => exact ⟨_, hes⟩
        obtain ⟨e'', he''⟩ := hite
        obtain ⟨h1, h2⟩ := werr _ he''
        subst h1
        exact ⟨rfl, h2⟩

end SonicSpec.Ir
