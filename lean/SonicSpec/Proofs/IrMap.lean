/-
  Encoder IR, compiler correctness (9): maps with string / integer keys (compileMap / compileMapBody), sorted or in
  iteration order.
-/
import SonicSpec.Proofs.IrMapLoop
namespace SonicSpec.Ir
open SonicSpec SonicSpec.Go SonicSpec.Enc SonicSpec.Json
variable {o : EncOpts} {co : COpts}

/-- compileMap / compileMapBody, the two copies of the value's code given -/
def mapCode (k t : GoType) (pc : Nat) (v1 v2 : Program) : Program :=
  [Instr.isNil (pc + 7 + 1 + (keyCode k).length + 2 + v1.length + 2 + 1 + (keyCode k).length + 2 + v2.length + 1 + 4), Instr.byte 123,
    Instr.isZeroMap (pc + 7 + 1 + (keyCode k).length + 2 + v1.length + 2 + 1 + (keyCode k).length + 2 + v2.length + 1 + 2),
    Instr.save false, Instr.mapIter (.map k t), Instr.save false,
    Instr.mapCheckKey (pc + 7 + 1 + (keyCode k).length + 2 + v1.length + 2 + 1 + (keyCode k).length + 2 + v2.length + 1)] ++
  ([Instr.mapWriteKey (pc + 7 + 1 + (keyCode k).length)] ++ keyCode k ++ [Instr.byte 58, Instr.mapValueNext] ++ v1) ++
  [Instr.mapCheckKey (pc + 7 + 1 + (keyCode k).length + 2 + v1.length + 2 + 1 + (keyCode k).length + 2 + v2.length + 1), Instr.byte 44] ++
  ([Instr.mapWriteKey (pc + 7 + 1 + (keyCode k).length + 2 + v1.length + 2 + 1 + (keyCode k).length)] ++ keyCode k ++
    [Instr.byte 58, Instr.mapValueNext] ++ v2) ++
  [Instr.goto (pc + 7 + 1 + (keyCode k).length + 2 + v1.length), Instr.mapStop, Instr.drop2, Instr.byte 125,
    Instr.goto (pc + 7 + 1 + (keyCode k).length + 2 + v1.length + 2 + 1 + (keyCode k).length + 2 + v2.length + 1 + 5), Instr.emptyObj]

theorem code_map (lib : LibCode) (tab : List GoType) (pc sp : Nat) (pv : Bool) (k t : GoType) (hnh : tabHas tab (.map k t) = false) :
    code co lib tab pc sp pv (.map k t) =
      mapCode k t pc (code co lib (.map k t :: tab) (pc + 7 + 1 + (keyCode k).length + 2) (sp + 2) false t)
        (code co lib (.map k t :: tab)
          (pc + 7 + 1 + (keyCode k).length + 2 + (code co lib (.map k t :: tab) (pc + 7 + 1 + (keyCode k).length + 2) (sp + 2) false t).length + 2 + 1 +
            (keyCode k).length + 2) (sp + 2) false t) := by
  rw [code, if_neg (by simp [hnh])]
  simp only [mapCode]
  generalize (keyCode k).length = n
  have e1 : pc + 8 + n + 2 = pc + 7 + 1 + n + 2 := by omega
  rw [e1]
  generalize code co lib (.map k t :: tab) (pc + 7 + 1 + n + 2) (sp + 2) false t = v1
  have e2 : pc + 7 + 1 + n + 2 + v1.length + 3 + n + 2 = pc + 7 + 1 + n + 2 + v1.length + 2 + 1 + n + 2 := by omega
  rw [e2]
  generalize code co lib (.map k t :: tab) (pc + 7 + 1 + n + 2 + v1.length + 2 + 1 + n + 2) (sp + 2) false t = v2
  have e3 : pc + 8 + n = pc + 7 + 1 + n := by omega
  have e4 : pc + 7 + 1 + n + 2 + v1.length + 3 + n = pc + 7 + 1 + n + 2 + v1.length + 2 + 1 + n := by omega
  simp only [e3, e4, List.append_assoc, List.cons_append, List.nil_append]

theorem keyBodies_sub {k : GoType} (hk : keySub k = true) : ∀ (es : List (Bytes × JVal)), keyBodies o k es = .ok (es.map (qk o)) := by
  have htk : isTextKey k = false := by
    cases k <;> first | rfl | (simp [keySub] at hk)
  intro es
  induction es with
  | nil => rfl
  | cons e r ih =>
    obtain ⟨ks, j⟩ := e
    simp only [keyBodies, keyBody, htk, Bool.and_false, Bool.false_eq_true, if_false, ih, bind, Except.bind, pure, Except.pure,
      List.map_cons, qk]

theorem keyTypeOK_sub {k : GoType} (hk : keySub k = true) : keyTypeOK k = true := by
  cases k <;> first | rfl | (simp [keySub] at hk)

/-- the error of a value's code is the specification's, whatever the program around it -/
theorem codeOK_err_kind {T : GoType} {v : GoVal} (h : CodeOK o co T v) (hn : needV T v ≤ maxStack) {addr : Bool} {e : EErr}
    (he : encV o addr T v = .error e) : e = .unsupportedValue :=
  ((h libNames.length [] (Nat.le_of_eq libLeft_nil) addr false (compile co T false) 0 0 false (Regs.start (.val v)) [] [] (At.whole _) rfl
    (by simpa using hn)).2 e he).1

theorem encIt_err_kind {t : GoType} {kt : GoVal × GoVal → Bytes} : ∀ (l : Iter), (∀ x ∈ l, ∀ e, encV o false t x.2 = .error e → e = .unsupportedValue) →
    ∀ e, encIt o t kt l = .error e → e = .unsupportedValue := by
  intro l
  induction l with
  | nil => intro _ e h; simp only [encIt] at h; cases h
  | cons x r ih =>
    intro hall e h
    simp only [encIt, entrySpec] at h
    cases hv : encV o false t x.2 with
    | error e' =>
      rw [hv] at h
      simp only [Except.map] at h
      injection h with h; subst h
      exact hall x (by simp) _ hv
    | ok j =>
      rw [hv] at h
      simp only [Except.map] at h
      split at h
      · rename_i e' hr
        injection h with h; subst h
        exact ih (fun y hy => hall y (by simp [hy])) _ hr
      · cases h

theorem codeOK_map_nil {k : GoType} (hk : keySub k = true) (t : GoType) : CodeOKn o co (.map k t) .nil := by
  intro lv tab _hlv hnh addr fpv P pc sp pv r s b hat hg _hs
  rw [code_map _ _ _ _ _ _ _ hnh] at hat ⊢
  generalize code co (libK co lv) (.map k t :: tab) (pc + 7 + 1 + (keyCode k).length + 2) (sp + 2) false t = v1 at hat ⊢
  generalize code co (libK co lv) (.map k t :: tab) (pc + 7 + 1 + (keyCode k).length + 2 + v1.length + 2 + 1 + (keyCode k).length + 2) (sp + 2) false t = v2 at hat ⊢
  unfold mapCode at hat ⊢
  have hA := hat.left.left.left.left
  have hL6 := At.right' (q := pc + 7 + 1 + (keyCode k).length + 2 + v1.length + 2 + 1 + (keyCode k).length + 2 + v2.length) hat (by simp <;> omega)
  constructor
  · intro j hj res h
    simp only [encV, keyTypeOK_sub hk, if_true] at hj
    injection hj with hj; subst hj
    refine halts_step (hA.get 0 (by omega) rfl) (by simp only [step, hg, jumpIf]; rfl) ?_
    refine halts_step (hL6.get 5 (by omega) rfl) (by simp only [step]; rfl) ?_
    exact halts_cast h (by simp <;> omega) rfl rfl rfl
  · intro e he; simp only [encV, keyTypeOK_sub hk, if_true] at he; cases he

theorem ConfM_keys {c0 : COpts} {k t : GoType} : ∀ (kvs : List (GoVal × GoVal)), ConfM c0 k t kvs = true → ∀ e ∈ kvs, Conf c0 k e.1 = true := by
  intro kvs
  induction kvs with
  | nil => intro _ e he; cases he
  | cons x r ih =>
    intro h e he
    obtain ⟨a, v⟩ := x
    simp only [ConfM, Bool.and_eq_true] at h
    rcases List.mem_cons.mp he with he | he
    · subst he; exact h.1.1
    · exact ih h.2 e he

theorem needM_mem {t : GoType} : ∀ (kvs : List (GoVal × GoVal)), ∀ e ∈ kvs, needV t e.2 ≤ needM t kvs := by
  intro kvs
  induction kvs with
  | nil => intro e he; cases he
  | cons x r ih =>
    intro e he
    obtain ⟨a, v⟩ := x
    simp only [needM]
    rcases List.mem_cons.mp he with he | he
    · subst he; simp only; omega
    · have := ih e he; omega

theorem mem_rend {k : GoType} {kvs : Iter} {x : GoVal × GoVal} (h : x ∈ rend k kvs) : ∃ e ∈ kvs, x = (GoVal.str (ktOf k e), e.2) := by
  unfold rend at h
  obtain ⟨e, he, rfl⟩ := List.mem_map.mp h
  exact ⟨e, he, rfl⟩

theorem codeOK_map {k t : GoType} (hk : keySub k = true) (kvs : List (GoVal × GoVal)) (hC : ConfM co k t kvs = true)
    (hall : ∀ e ∈ kvs, CodeOK o co t e.2) : CodeOKn o co (.map k t) (.map kvs) := by
  intro lv tab hlv hnh addr fpv P pc sp pv r s b hat hg hs
  simp only [needV] at hs
  have hlv' : libLeft (.map k t :: tab) ≤ lv := Nat.le_trans (libLeft_cons_le _ _) hlv
  rw [code_map _ _ _ _ _ _ _ hnh] at hat ⊢
  generalize hv1 : code co (libK co lv) (.map k t :: tab) (pc + 7 + 1 + (keyCode k).length + 2) (sp + 2) false t = v1 at hat ⊢
  generalize hv2 : code co (libK co lv) (.map k t :: tab) (pc + 7 + 1 + (keyCode k).length + 2 + v1.length + 2 + 1 + (keyCode k).length + 2) (sp + 2) false t = v2 at hat ⊢
  generalize hn : (keyCode k).length = n at hat hv1 hv2 ⊢
  unfold mapCode at hat ⊢
  rw [hn] at hat ⊢
  have hA := hat.left.left.left.left
  have hE1 := At.right' (q := pc + 7) hat.left.left.left (by simp)
  have hL2 := At.right' (q := pc + 7 + 1 + n + 2 + v1.length) hat.left.left (by simp <;> omega)
  have hE2 := At.right' (q := pc + 7 + 1 + n + 2 + v1.length + 2) hat.left (by simp <;> omega)
  have hL6 := At.right' (q := pc + 7 + 1 + n + 2 + v1.length + 2 + 1 + n + 2 + v2.length) hat (by simp <;> omega)
  have hlen : ∀ (X : Program), X = ([Instr.isNil (pc + 7 + 1 + n + 2 + v1.length + 2 + 1 + n + 2 + v2.length + 1 + 4), Instr.byte 123,
      Instr.isZeroMap (pc + 7 + 1 + n + 2 + v1.length + 2 + 1 + n + 2 + v2.length + 1 + 2),
      Instr.save false, Instr.mapIter (.map k t), Instr.save false,
      Instr.mapCheckKey (pc + 7 + 1 + n + 2 + v1.length + 2 + 1 + n + 2 + v2.length + 1)] ++
    ([Instr.mapWriteKey (pc + 7 + 1 + n)] ++ keyCode k ++ [Instr.byte 58, Instr.mapValueNext] ++ v1) ++
    [Instr.mapCheckKey (pc + 7 + 1 + n + 2 + v1.length + 2 + 1 + n + 2 + v2.length + 1), Instr.byte 44] ++
    ([Instr.mapWriteKey (pc + 7 + 1 + n + 2 + v1.length + 2 + 1 + n)] ++ keyCode k ++
      [Instr.byte 58, Instr.mapValueNext] ++ v2) ++
    [Instr.goto (pc + 7 + 1 + n + 2 + v1.length), Instr.mapStop, Instr.drop2, Instr.byte 125,
      Instr.goto (pc + 7 + 1 + n + 2 + v1.length + 2 + 1 + n + 2 + v2.length + 1 + 5), Instr.emptyObj]) →
      pc + X.length = pc + 7 + 1 + n + 2 + v1.length + 2 + 1 + n + 2 + v2.length + 1 + 5 := by
    intro X hX; subst hX; simp [hn] <;> omega
  rw [hlen _ rfl]
  -- the specification
  have hspec : encV o addr (.map k t) (.map kvs) =
      (encIt o t (ktOf k) kvs).map fun es => JVal.obj ((if o.sortMapKeys then sortKV es else es).map (qk o)) := by
    simp only [encV, keyTypeOK_sub hk, if_true, encM_eq_encIt hk t kvs hC]
    cases encIt o t (ktOf k) kvs with
    | error e => rfl
    | ok es => simp only [Except.bind, keyBodies_sub hk, Except.map]
  rw [hspec]
  cases kvs with
  | nil =>
    constructor
    · intro j hj res h
      simp only [encIt, Except.map] at hj
      injection hj with hj; subst hj
      refine halts_step (hA.get 0 (by omega) rfl) (by simp only [step, hg, jumpIf]; rfl) ?_
      refine halts_step (hA.get 1 (by omega) rfl) (by simp only [step]; rfl) ?_
      refine halts_step (hA.get 2 (by omega) rfl) (by simp only [step, hg, jumpIf]; rfl) ?_
      refine halts_step (hL6.get 3 (by omega) rfl) (by simp only [step]; rfl) ?_
      refine halts_step (hL6.get 4 (by omega) rfl) (by simp only [step]; rfl) ?_
      exact halts_cast h rfl rfl rfl (by cases o.sortMapKeys <;> simp [render, renderMembers, sortKV])
    · intro e he; simp only [encIt, Except.map] at he; cases he
  | cons e0 kvs' =>
    simp only [List.isEmpty_cons, Bool.false_eq_true, if_false] at hs
    have hneed : ∀ x ∈ e0 :: kvs', needV t x.2 ≤ maxStack := fun x hx => by have := needM_mem (t := t) _ x hx; omega
    have herrk : ∀ x ∈ e0 :: kvs', ∀ e, encV o false t x.2 = .error e → e = .unsupportedValue :=
      fun x hx e he => codeOK_err_kind (hall x hx) (hneed x hx) he
    -- the iterator the machine builds, and the text it shows for each key
    generalize hit : (if o.sortMapKeys then sortIt (rend k (e0 :: kvs')) else (e0 :: kvs')) = it
    generalize hkt : (if o.sortMapKeys then iterKey else ktOf k) = kt
    have hiter : step o (Instr.mapIter (.map k t)) (pc + 4) r (r :: s) (b ++ [123]) =
        .next (pc + 4 + 1) { r with q := some it } (r :: s) (b ++ [123]) := by
      simp only [step, hg, List.isEmpty_cons, Bool.not_false, Bool.and_true, renderKeys_ok hk t _ hC]
      rw [← hit]
      cases o.sortMapKeys <;> rfl
    -- every entry the iterator shows comes from the map
    have hfrom : ∀ x ∈ it, ∃ e ∈ e0 :: kvs', x.2 = e.2 ∧ KeyShown o co k kt x := by
      intro x hx
      rw [← hit] at hx
      rw [← hkt]
      cases hsort : o.sortMapKeys with
      | true =>
        rw [hsort] at hx
        simp only [if_true] at hx ⊢
        obtain ⟨e, he, rfl⟩ := mem_rend (mem_sortIt.mp hx)
        exact ⟨e, he, rfl, Or.inl ⟨hsort, rfl⟩⟩
      | false =>
        rw [hsort] at hx
        simp only [Bool.false_eq_true, if_false] at hx ⊢
        refine ⟨x, hx, rfl, Or.inr ⟨hsort, ConfM_keys _ hC x hx, ?_⟩⟩
        obtain ⟨ks, h1, _⟩ := keyText_conf hk (ConfM_keys _ hC x hx)
        simp [ktOf, h1]
    have hne : it ≠ [] := by
      intro h0
      rw [← hit] at h0
      cases hsort : o.sortMapKeys with
      | true =>
        rw [hsort] at h0
        simp only [if_true] at h0
        have : (GoVal.str (ktOf k e0), e0.2) ∈ sortIt (rend k (e0 :: kvs')) := mem_sortIt.mpr (by simp [rend])
        rw [h0] at this; cases this
      | false => rw [hsort] at h0; simp at h0
    have hsave1 : ∀ q bb, step o (.save false) q r s bb = .next (q + 1) r (r :: s) bb := by
      intro q bb
      simp only [step]
      rw [if_neg (by omega)]
      simp
    have hsave2 : ∀ q bb, step o (.save false) q { r with q := some it } (r :: s) bb =
        .next (q + 1) { r with q := some it } ({ r with q := some it } :: r :: s) bb := by
      intro q bb
      simp only [step]
      rw [if_neg (by simp; omega)]
      simp
    have pre : ∀ res, Halts o co fpv P (pc + 6) { r with q := some it } ({ r with q := some it } :: r :: s) (b ++ [123]) res →
        Halts o co fpv P pc r s b res := by
      intro res h
      refine halts_step (hA.get 0 (by omega) rfl) (by simp only [step, hg, jumpIf]; rfl) ?_
      refine halts_step (hA.get 1 (by omega) rfl) (by simp only [step]; rfl) ?_
      refine halts_step (hA.get 2 (by omega) rfl) (by simp only [step, hg, jumpIf, List.isEmpty_cons]; rfl) ?_
      refine halts_step (hA.get 3 (by omega) rfl) (hsave1 _ _) ?_
      refine halts_step (hA.get 4 (by omega) rfl) hiter ?_
      refine halts_step (hA.get 5 (by omega) rfl) (hsave2 _ _) ?_
      exact halts_cast h (by omega) rfl rfl rfl
    have post : ∀ res rr bb, Halts o co fpv P (pc + 7 + 1 + n + 2 + v1.length + 2 + 1 + n + 2 + v2.length + 1 + 5) r s (bb ++ [125]) res →
        Halts o co fpv P (pc + 7 + 1 + n + 2 + v1.length + 2 + 1 + n + 2 + v2.length + 1) rr ({ r with q := some it } :: r :: s) bb res := by
      intro res rr bb h
      refine halts_step (hL6.get 1 (by omega) rfl) (by simp only [step]; rfl) ?_
      refine halts_step (hL6.get 2 (by omega) rfl) (by simp only [step]; rfl) ?_
      refine halts_step (hL6.get 3 (by omega) rfl) (by simp only [step]; rfl) ?_
      refine halts_step (hL6.get 4 (by omega) rfl) (by simp only [step]; rfl) ?_
      exact h
    have hshown : ∀ x ∈ it, KeyShown o co k kt x := fun x hx => (hfrom x hx).choose_spec.2.2
    have hcode : ∀ x ∈ it, CodeOK o co t x.2 := fun x hx => by
      obtain ⟨e, he, h2, _⟩ := hfrom x hx
      rw [h2]; exact hall e he
    have hroom : ∀ x ∈ it, ({ r with q := some it } :: r :: s).length + needV t x.2 ≤ maxStack := fun x hx => by
      obtain ⟨e, he, h2, _⟩ := hfrom x hx
      have := needM_mem (t := t) _ e he
      rw [h2]; simp; omega
    have whole : (∀ ms, encIt o t kt it = .ok ms → ∀ res,
          Halts o co fpv P (pc + 7 + 1 + n + 2 + v1.length + 2 + 1 + n + 2 + v2.length + 1 + 5) r s (b ++ [123] ++ emitM true (ms.map (qk o)) ++ [125]) res →
          Halts o co fpv P pc r s b res) ∧
        (∀ e, encIt o t kt it = .error e → e = .unsupportedValue ∧ Halts o co fpv P pc r s b (.error (.enc e))) := by
      cases it with
      | nil => exact absurd rfl hne
      | cons x it' =>
        obtain ⟨ka, val0⟩ := x
        obtain ⟨eok, eerr⟩ := entry_ok (o := o) (co := co) hk (kt := kt) (fpv := fpv) (P := P) (sp := sp + 2) hlv' (pc + 7)
          (by rw [hn, hv1]; exact hE1)
          { r with q := some ((ka, val0) :: it') } ka val0 it' (hshown (ka, val0) (by simp)) _ (b ++ [123]) (hroom (ka, val0) (by simp))
          (hcode (ka, val0) (by simp))
        rw [hn, hv1] at eok
        have hG : At P (pc + 7 + 1 + n + 2 + v1.length + 2 + 1 + n + 2 + v2.length) [Instr.goto (pc + 7 + 1 + n + 2 + v1.length)] :=
          At.left (a := [Instr.goto (pc + 7 + 1 + n + 2 + v1.length)]) (c := [_, _, _, _, _]) hL6
        obtain hloop := mapLoop_ok (o := o) (co := co) hk (kt := kt) (fpv := fpv) (P := P) (sp := sp + 2)
          (i := pc + 7 + 1 + n + 2 + v1.length + 2 + 1 + n + 2 + v2.length + 1) hlv' hL2
          (by rw [hn, hv2]; exact hE2) (by rw [hn, hv2]; exact hG)
          { r with q := some ((ka, val0) :: it') } _ it' (fun x hx => hshown x (by simp [hx])) (fun x hx => hcode x (by simp [hx]))
          (fun x hx => hroom x (by simp [hx])) (.val val0)
        have hcheck : ∀ bb, step o (Instr.mapCheckKey (pc + 7 + 1 + n + 2 + v1.length + 2 + 1 + n + 2 + v2.length + 1)) (pc + 6)
            { r with q := some ((ka, val0) :: it') } ({ r with q := some ((ka, val0) :: it') } :: r :: s) bb =
            .next (pc + 6 + 1) { r with p := .val ka, q := some ((ka, val0) :: it') }
              ({ r with q := some ((ka, val0) :: it') } :: r :: s) bb := by
          intro bb; simp only [step]
        constructor
        · intro ms hms res h
          simp only [encIt, entrySpec] at hms
          cases hv : encV o false t val0 with
          | error x => rw [hv] at hms; simp only [Except.map] at hms; cases hms
          | ok jv =>
            rw [hv] at hms
            simp only [Except.map] at hms
            split at hms
            · cases hms
            · rename_i mr hr
              injection hms with hms; subst hms
              refine pre res ?_
              refine halts_step (hA.get 6 (by omega) rfl) (hcheck _) ?_
              refine eok jv hv res ?_
              refine halts_cast ((hloop _).1 mr hr res (fun rr => post res rr _ ?_)) (by omega) rfl rfl rfl
              exact halts_cast h rfl rfl rfl (by simp [emitM, qk])
        · intro e hms
          simp only [encIt, entrySpec] at hms
          cases hv : encV o false t val0 with
          | error x =>
            rw [hv] at hms
            simp only [Except.map] at hms
            injection hms with hms; subst hms
            obtain ⟨h1, h2⟩ := eerr _ hv
            refine ⟨h1, pre _ ?_⟩
            exact halts_step (hA.get 6 (by omega) rfl) (hcheck _) h2
          | ok jv =>
            rw [hv] at hms
            simp only [Except.map] at hms
            split at hms
            · rename_i x hr
              injection hms with hms; subst hms
              obtain ⟨h1, h2⟩ := (hloop (b ++ [123] ++ memb (quoteBody o.escapeHTML o.validateString (kt (ka, val0)), jv))).2 _ hr
              refine ⟨h1, pre _ ?_⟩
              refine halts_step (hA.get 6 (by omega) rfl) (hcheck _) ?_
              exact eok jv hv _ (halts_cast h2 (by omega) rfl rfl rfl)
            · cases hms
    obtain ⟨wok, werr⟩ := whole
    -- the iterator's entries against the specification's
    have hite_ok : ∀ es, encIt o t (ktOf k) (e0 :: kvs') = .ok es → encIt o t kt it = .ok (if o.sortMapKeys then sortKV es else es) := by
      intro es hes
      rw [← hit, ← hkt]
      cases o.sortMapKeys with
      | true =>
        simp only [if_true]
        exact encIt_sort _ _ (by rw [encIt_rend]; exact hes)
      | false => exact hes
    have hite_err : ∀ e, encIt o t (ktOf k) (e0 :: kvs') = .error e → ∃ e'', encIt o t kt it = .error e'' := by
      intro e hes
      rw [← hit, ← hkt]
      cases o.sortMapKeys with
      | true =>
        simp only [if_true]
        exact encIt_sort_err (by rw [encIt_rend]; exact hes)
      | false => exact ⟨_, hes⟩
    constructor
    · intro j hj res h
      cases hes : encIt o t (ktOf k) (e0 :: kvs') with
      | error e => rw [hes] at hj; cases hj
      | ok es =>
        rw [hes] at hj
        simp only [Except.map] at hj
        injection hj with hj; subst hj
        refine wok _ (hite_ok es hes) res ?_
        exact halts_cast h rfl rfl rfl (by simp [render_obj])
    · intro e hj
      cases hes : encIt o t (ktOf k) (e0 :: kvs') with
      | ok es => rw [hes] at hj; cases hj
      | error e' =>
        rw [hes] at hj
        simp only [Except.map] at hj
        injection hj with hj; subst hj
        have hk2 := encIt_err_kind (o := o) (t := t) _ herrk _ hes
        subst hk2
        obtain ⟨e'', he''⟩ := hite_err _ hes
        obtain ⟨h1, h2⟩ := werr _ he''
        subst h1
        exact ⟨rfl, h2⟩

end SonicSpec.Ir
