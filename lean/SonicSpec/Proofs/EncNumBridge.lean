/-
  Bridge between the two number grammars of the project: every literal the exact decimal parser of
  core C accepts (`Num.parseDec`, hence everything `Num.fmtBits` prints, which is returned only when it
  parses back) has the shape the strict JSON scanner of core A reads back (`Enc.NumShape`).
-/
import SonicSpec.Proofs.NumFmt
import SonicSpec.Proofs.NumInt
import SonicSpec.Proofs.EncJsonNum
namespace SonicSpec.Enc
open SonicSpec

theorem numIsDigit_eq (c : UInt8) : Num.isDigit c = Json.isDigit c := rfl

theorem numAllDigits {ds : Bytes} (h : Num.AllDigits ds) : AllDigits ds :=
  fun c hc => by rw [← numIsDigit_eq]; exact h c hc

/-- digits consumed by `Num.takeDigits`: the input is `ds ++ rest` with `ds` all digits -/
theorem numTake (s : Bytes) (acc n : Nat) :
    ∃ ds, s = ds ++ (Num.takeDigits s acc n).2.2 ∧ AllDigits ds ∧ (Num.takeDigits s acc n).2.1 = n + ds.length := by
  obtain ⟨ds, h1, h2, _, h4, _⟩ := Num.takeDigits_spec s acc n
  exact ⟨ds, h1, numAllDigits h2, h4⟩

theorem parseExpDigits_shape {r : Bytes} {x : Int} (h : Num.parseExpDigits r = some x) :
    ∃ sg ds, r = sg ++ ds ∧ (sg = [] ∨ sg = [43] ∨ sg = [45]) ∧ ds ≠ [] ∧ AllDigits ds := by
  unfold Num.parseExpDigits at h
  have key : ∀ (sg body : Bytes), (sg = [] ∨ sg = [43] ∨ sg = [45]) → r = sg ++ body →
      ((Num.takeDigits body 0 0).2.1 == 0 || !(Num.takeDigits body 0 0).2.2.isEmpty) = false →
      ∃ sg ds, r = sg ++ ds ∧ (sg = [] ∨ sg = [43] ∨ sg = [45]) ∧ ds ≠ [] ∧ AllDigits ds := by
    intro sg body hsg hr hc
    obtain ⟨ds, h1, h2, h3⟩ := numTake body 0 0
    simp only [Bool.or_eq_false_iff, beq_eq_false_iff_ne, ne_eq, Bool.not_eq_false', List.isEmpty_iff] at hc
    rw [hc.2, List.append_nil] at h1
    refine ⟨sg, ds, by rw [hr, h1], hsg, ?_, h2⟩
    intro hh
    rw [hh] at h3
    exact hc.1 (by simpa using h3)
  split at h
  · rename_i t
    by_cases hc : ((Num.takeDigits t 0 0).2.1 == 0 || !(Num.takeDigits t 0 0).2.2.isEmpty) = true
    · simp [hc] at h
    · exact key [43] t (by simp) rfl (by simpa using hc)
  · rename_i t
    by_cases hc : ((Num.takeDigits t 0 0).2.1 == 0 || !(Num.takeDigits t 0 0).2.2.isEmpty) = true
    · simp [hc] at h
    · exact key [45] t (by simp) rfl (by simpa using hc)
  · by_cases hc : ((Num.takeDigits r 0 0).2.1 == 0 || !(Num.takeDigits r 0 0).2.2.isEmpty) = true
    · simp [hc] at h
    · exact key [] r (by simp) rfl (by simpa using hc)

theorem parseExp_shape {neg : Bool} {m nf : Nat} {hf : Bool} {s : Bytes} {d : Num.Dec}
    (h : Num.parseExp neg m nf hf s = some d) : ExpPart s := by
  unfold Num.parseExp at h
  split at h
  · exact Or.inl rfl
  · rename_i c r
    by_cases hc : (c == 101 || c == 69) = true
    · simp only [hc, if_true] at h
      cases hx : Num.parseExpDigits r with
      | none => simp [hx] at h
      | some x =>
        obtain ⟨sg, ds, h1, h2, h3, h4⟩ := parseExpDigits_shape hx
        right
        refine ⟨c, sg, ds, by rw [h1], ?_, h2, h3, h4⟩
        simpa [Bool.or_eq_true] using hc
    · simp [hc] at h

theorem parseFrac_shape {neg : Bool} {m : Nat} {s : Bytes} {d : Num.Dec}
    (h : Num.parseFrac neg m s = some d) : ∃ fp ep, s = fp ++ ep ∧ FracPart fp ∧ ExpPart ep := by
  unfold Num.parseFrac at h
  split at h
  · rename_i r
    obtain ⟨ds, h1, h2, h3⟩ := numTake r m 0
    by_cases hz : ((Num.takeDigits r m 0).2.1 == 0) = true
    · simp [hz] at h
    · simp only [hz, Bool.false_eq_true, if_false] at h
      refine ⟨46 :: ds, (Num.takeDigits r m 0).2.2, by rw [List.cons_append, ← h1], ?_, parseExp_shape h⟩
      right
      refine ⟨ds, rfl, ?_, h2⟩
      intro hh
      rw [hh] at h3
      exact hz (by simpa using h3)
  · exact ⟨[], s, rfl, Or.inl rfl, parseExp_shape h⟩

theorem parseInt1_shape {neg : Bool} {s : Bytes} {d : Num.Dec} (h : Num.parseInt1 neg s = some d) :
    ∃ ip fp ep, s = ip ++ fp ++ ep ∧ IntPart ip ∧ FracPart fp ∧ ExpPart ep := by
  unfold Num.parseInt1 at h
  split at h
  · cases h
  · rename_i c r
    by_cases h0 : (c == 48) = true
    · simp only [h0, if_true] at h
      obtain ⟨fp, ep, h1, h2, h3⟩ := parseFrac_shape h
      have : c = 48 := by simpa using h0
      subst this
      exact ⟨[48], fp, ep, by simp [h1], Or.inl rfl, h2, h3⟩
    · simp only [h0, Bool.false_eq_true, if_false] at h
      by_cases h1 : (49 ≤ c && c ≤ 57) = true
      · simp only [h1, if_true] at h
        obtain ⟨ds, e1, e2, e3⟩ := numTake (c :: r) 0 0
        obtain ⟨fp, ep, f1, f2, f3⟩ := parseFrac_shape h
        have hcd : Json.isDigit c = true := by
          simp only [Bool.and_eq_true, decide_eq_true_eq] at h1
          rw [Json.isDigit]
          simp only [Bool.and_eq_true, decide_eq_true_eq, ge_iff_le]
          exact ⟨UInt8.le_trans (by decide) h1.1, h1.2⟩
        -- the digit prefix is not empty: it starts with `c`
        cases ds with
        | nil =>
          exfalso
          simp only [List.nil_append] at e1
          have hd : Num.isDigit c = true := by rw [numIsDigit_eq]; exact hcd
          have : Num.takeDigits (c :: r) 0 0 = Num.takeDigits r (0 * 10 + Num.digitVal c) (0 + 1) := by
            simp [Num.takeDigits, hd]
          obtain ⟨ds', g1, _, _⟩ := numTake r (0 * 10 + Num.digitVal c) (0 + 1)
          rw [this] at e1
          have := congrArg List.length e1
          have l2 := congrArg List.length g1
          simp only [List.length_cons, List.length_append] at this l2
          omega
        | cons c' ds' =>
          have hc' : c' = c := by
            have := congrArg List.head? e1
            simp at this
            exact this.symm
          subst hc'
          refine ⟨c' :: ds', fp, ep, ?_, ?_, f2, f3⟩
          · rw [e1, f1]; simp
          · right
            refine ⟨c', ds', rfl, hcd, ?_, fun x hx => e2 x (by simp [hx])⟩
            intro hh; subst hh; simp at h0
      · simp [h1] at h

/-- every literal `Num.parseDec` accepts is a JSON number literal for the strict scanner -/
theorem parseDec_shape {lit : Bytes} {d : Num.Dec} (h : Num.parseDec lit = some d) : NumShape lit := by
  unfold Num.parseDec at h
  split at h
  · rename_i r
    obtain ⟨ip, fp, ep, h1, h2, h3, h4⟩ := parseInt1_shape h
    exact ⟨[45], ip, fp, ep, by simp [h1], Or.inr rfl, h2, h3, h4⟩
  · rename_i hne
    obtain ⟨ip, fp, ep, h1, h2, h3, h4⟩ := parseInt1_shape h
    exact ⟨[], ip, fp, ep, by simp [h1], Or.inl rfl, h2, h3, h4⟩

theorem toBits_shape {f : Num.Fmt} {lit : Bytes} {b : Nat} (h : Num.toBits f lit = .ok b) : NumShape lit := by
  unfold Num.toBits at h
  split at h
  · cases h
  · rename_i d hd; exact parseDec_shape hd

/-- what the project's float formatter prints is a JSON number literal -/
theorem numFmtF64_shape {b : UInt64} {l : Bytes} (h : Num.fmtF64 b = some l) : NumShape l :=
  toBits_shape (Num.fmtBits_roundtrip _ _ _ _ h)

theorem numFmtF32_shape {b : UInt32} {l : Bytes} (h : Num.fmtF32 b = some l) : NumShape l :=
  toBits_shape (Num.fmtBits_roundtrip _ _ _ _ h)

end SonicSpec.Enc
