/-
  Helper lemmas for C20: HTML escaping of a string body does not change what it denotes.
-/
import SonicSpec.Model.Str
import SonicSpec.Model.StrSpec
import SonicSpec.Proofs.U8
import SonicSpec.Proofs.StrQuote
import SonicSpec.Proofs.StrDenote
import SonicSpec.Proofs.StrHtml
namespace SonicSpec.Str

/-- a byte that is neither E2 nor one of `<>&` is copied -/
theorem htmlEscape_cons_copy (c : UInt8) (s : Bytes) (h226 : c ≠ 226) (h60 : c ≠ 60) (h62 : c ≠ 62) (h38 : c ≠ 38) :
    htmlEscape (c :: s) = c :: htmlEscape s := by
  have hb : htmlByte c = [c] := by
    have a : (c == 60) = false := by simpa using h60
    have b : (c == 62) = false := by simpa using h62
    have d : (c == 38) = false := by simpa using h38
    simp only [htmlByte, a, b, d, Bool.false_eq_true, ↓reduceIte]
  have hc : (c == 226) = false := by simpa using h226
  match s with
  | [] => rw [htmlEscape_short c [] (by intro _ _ _ e; cases e), hb]; rfl
  | [y] => rw [htmlEscape_short c [y] (by intro _ _ _ e; cases e), hb]; rfl
  | y :: z :: t' =>
    rw [htmlEscape_other c y z t' (by simp [hc]) (by simp [hc]), hb]; rfl

/-- no triple at the head: the first byte is escaped on its own -/
theorem htmlEscape_cons_single (c : UInt8) (s : Bytes)
    (h : ∀ t', s = 128 :: 168 :: t' → c ≠ 226) (h' : ∀ t', s = 128 :: 169 :: t' → c ≠ 226) :
    htmlEscape (c :: s) = htmlByte c ++ htmlEscape s := by
  match s with
  | [] => exact htmlEscape_short c [] (by intro _ _ _ e; cases e)
  | [y] => exact htmlEscape_short c [y] (by intro _ _ _ e; cases e)
  | y :: z :: t' =>
    refine htmlEscape_other c y z t' ?_ ?_
    · intro hh
      simp only [Bool.and_eq_true, beq_iff_eq] at hh
      obtain ⟨⟨h1, h2⟩, h3⟩ := hh
      subst h1; subst h2; subst h3
      exact h t' rfl rfl
    · intro hh
      simp only [Bool.and_eq_true, beq_iff_eq] at hh
      obtain ⟨⟨h1, h2⟩, h3⟩ := hh
      subst h1; subst h2; subst h3
      exact h' t' rfl rfl

theorem hexVal_plain : ∀ x : UInt8, (hexVal x).isSome = true → x ≠ 226 ∧ x ≠ 60 ∧ x ≠ 62 ∧ x ≠ 38 ∧ x ≠ 92 := by
  apply forall_uint8
  decide +kernel

theorem simpleEsc_plain : ∀ e : UInt8, (simpleEsc e).isSome = true → e ≠ 226 ∧ e ≠ 60 ∧ e ≠ 62 ∧ e ≠ 38 := by
  apply forall_uint8
  decide +kernel

theorem hex4_digits {a b c d : UInt8} {r : Nat} (h : hex4 a b c d = some r) :
    (hexVal a).isSome = true ∧ (hexVal b).isSome = true ∧ (hexVal c).isSome = true ∧ (hexVal d).isSome = true := by
  unfold hex4 at h
  split at h
  · rename_i x y z w h1 h2 h3 h4
    simp [h1, h2, h3, h4]
  · cases h

/-- a `\uXXXX` escape passes through unchanged -/
theorem htmlEscape_uescape {a b c d : UInt8} {r : Nat} (h : hex4 a b c d = some r) (s : Bytes) :
    htmlEscape (92 :: 117 :: a :: b :: c :: d :: s) = 92 :: 117 :: a :: b :: c :: d :: htmlEscape s := by
  obtain ⟨ha, hb, hc, hd⟩ := hex4_digits h
  have pa := hexVal_plain a ha
  have pb := hexVal_plain b hb
  have pc := hexVal_plain c hc
  have pd := hexVal_plain d hd
  rw [htmlEscape_cons_copy 92 _ (by decide) (by decide) (by decide) (by decide),
    htmlEscape_cons_copy 117 _ (by decide) (by decide) (by decide) (by decide),
    htmlEscape_cons_copy a _ pa.1 pa.2.1 pa.2.2.1 pa.2.2.2.1,
    htmlEscape_cons_copy b _ pb.1 pb.2.1 pb.2.2.1 pb.2.2.2.1,
    htmlEscape_cons_copy c _ pc.1 pc.2.1 pc.2.2.1 pc.2.2.2.1,
    htmlEscape_cons_copy d _ pd.1 pd.2.1 pd.2.2.1 pd.2.2.2.1]

/-- the output starts with a given byte other than a backslash only by copying it -/
theorem htmlEscape_head_copy (s : Bytes) (v : UInt8) (rest : Bytes) (hv : v ≠ 92) (h : htmlEscape s = v :: rest) :
    ∃ t, s = v :: t ∧ htmlEscape t = rest := by
  match s with
  | [] => rw [htmlEscape_nil] at h; cases h
  | x :: r =>
    rcases htmlEscape_head x r with hh | hh
    · rw [h] at hh
      simp only [List.head?_cons, Option.some.injEq] at hh
      exact absurd hh hv
    · rw [hh] at h
      injection h with h1 h2
      subst h1
      exact ⟨r, rfl, h2⟩

theorem hexVal_ne92 {x : UInt8} (h : (hexVal x).isSome = true) : x ≠ 92 := (hexVal_plain x h).2.2.2.2

/-- a low-surrogate escape at the head of the output was already at the head of the input -/
theorem startsLo_of_htmlEscape (s : Bytes) (h : StartsLo (htmlEscape s)) : StartsLo s := by
  obtain ⟨a, b, c, d, r, t, he, hx, hlo⟩ := h
  obtain ⟨ha, hb, hc, hd⟩ := hex4_digits hx
  match s with
  | [] => rw [htmlEscape_nil] at he; cases he
  | x :: rest =>
    -- either x is copied, or an escape image was produced whose value is not a low surrogate
    by_cases hx92 : x = 92
    · subst hx92
      rw [htmlEscape_cons_copy 92 _ (by decide) (by decide) (by decide) (by decide)] at he
      injection he with _ he
      obtain ⟨t1, rfl, he1⟩ := htmlEscape_head_copy rest 117 _ (by decide) he
      obtain ⟨t2, rfl, he2⟩ := htmlEscape_head_copy t1 a _ (hexVal_ne92 ha) he1
      obtain ⟨t3, rfl, he3⟩ := htmlEscape_head_copy t2 b _ (hexVal_ne92 hb) he2
      obtain ⟨t4, rfl, he4⟩ := htmlEscape_head_copy t3 c _ (hexVal_ne92 hc) he3
      obtain ⟨t5, rfl, _⟩ := htmlEscape_head_copy t4 d _ (hexVal_ne92 hd) he4
      exact ⟨a, b, c, d, r, t5, rfl, hx, hlo⟩
    · -- x ≠ 92: the output starts with an image of x (or of a triple), all of which carry a value < 0xDC00
      exfalso
      have himg : ∀ img : Bytes, (img = htmlLS ∨ img = htmlPS ∨ img = htmlLt ∨ img = htmlGt ∨ img = htmlAmp) →
          ∀ tail, img ++ tail = 92 :: 117 :: a :: b :: c :: d :: t → False := by
        intro img hi tail e
        rcases hi with rfl | rfl | rfl | rfl | rfl <;>
        · simp only [htmlLS, htmlPS, htmlLt, htmlGt, htmlAmp, List.cons_append, List.nil_append, List.cons.injEq] at e
          obtain ⟨_, _, rfl, rfl, rfl, rfl, _⟩ := e
          revert hx
          simp only [hex4, hexVal]
          intro hx
          simp at hx
          subst hx
          unfold isLo at hlo
          omega
      have hbyte : htmlByte x = [x] ∨ htmlByte x = htmlLt ∨ htmlByte x = htmlGt ∨ htmlByte x = htmlAmp := by
        unfold htmlByte
        repeat' split
        all_goals simp
      have single : htmlEscape (x :: rest) = htmlByte x ++ htmlEscape rest → False := by
        intro e
        rw [e] at he
        rcases hbyte with hb' | hb' | hb' | hb'
        · rw [hb'] at he
          injection he with he _
          exact hx92 he
        · exact himg _ (Or.inr (Or.inr (Or.inl hb'))) _ he
        · exact himg _ (Or.inr (Or.inr (Or.inr (Or.inl hb')))) _ he
        · exact himg _ (Or.inr (Or.inr (Or.inr (Or.inr hb')))) _ he
      match rest with
      | [] => exact single (htmlEscape_short x [] (by intro _ _ _ e; cases e))
      | [y] => exact single (htmlEscape_short x [y] (by intro _ _ _ e; cases e))
      | y :: z :: t' =>
        by_cases h1 : (x == 226 && y == 128 && z == 168) = true
        · rw [htmlEscape_ls x y z t' h1] at he
          exact himg _ (Or.inl rfl) _ he
        · by_cases h2 : (x == 226 && y == 128 && z == 169) = true
          · rw [htmlEscape_ps x y z t' h1 h2] at he
            exact himg _ (Or.inr (Or.inl rfl)) _ he
          · exact single (htmlEscape_other x y z t' h1 h2)

theorem denotes_htmlByte (u : Bool) (c : UInt8) (hc : c ≠ 92) {s o : Bytes} (h : Denotes u s o) :
    Denotes u (htmlByte c ++ s) (c :: o) := by
  unfold htmlByte
  split
  · rename_i h60; have : c = 60 := by simpa using h60
    subst this
    exact Denotes.bmp (a := 48) (b := 48) (c := 51) (d := 99) (r := 60) (by decide) (by unfold isSurr; omega) h
  split
  · rename_i h62; have : c = 62 := by simpa using h62
    subst this
    exact Denotes.bmp (a := 48) (b := 48) (c := 51) (d := 101) (r := 62) (by decide) (by unfold isSurr; omega) h
  split
  · rename_i h38; have : c = 38 := by simpa using h38
    subst this
    exact Denotes.bmp (a := 48) (b := 48) (c := 50) (d := 54) (r := 38) (by decide) (by unfold isSurr; omega) h
  · exact Denotes.plain hc h

theorem denotes_plain_inv {u : Bool} {c : UInt8} {s o : Bytes} (hc : c ≠ 92) (h : Denotes u (c :: s) o) :
    ∃ o', o = c :: o' ∧ Denotes u s o' := by
  cases h with
  | plain _ hd => exact ⟨_, rfl, hd⟩
  | simple _ _ => exact absurd rfl hc
  | bmp _ _ _ => exact absurd rfl hc
  | pair _ _ _ _ _ => exact absurd rfl hc
  | lone _ _ _ _ _ => exact absurd rfl hc

/-- HTML escaping a string body does not change its denotation -/
theorem denotes_htmlEscape (u : Bool) : ∀ (n : Nat) (b o : Bytes), b.length ≤ n → Denotes u b o →
    Denotes u (htmlEscape b) o := by
  intro n
  induction n with
  | zero =>
    intro b o hl h
    match b, hl with
    | [], _ => rw [htmlEscape_nil]; exact h
  | succ n ih =>
    intro b o hl h
    cases h with
    | nil => rw [htmlEscape_nil]; exact Denotes.nil
    | @plain c s o' hc hd =>
      have hls : s.length ≤ n := by simp only [List.length_cons] at hl; omega
      -- a U+2028 / U+2029 triple at the head, or a single byte
      by_cases h1 : ∃ t', c = 226 ∧ s = 128 :: 168 :: t'
      · obtain ⟨t', rfl, rfl⟩ := h1
        obtain ⟨o1, rfl, hd1⟩ := denotes_plain_inv (by decide) hd
        obtain ⟨o2, rfl, hd2⟩ := denotes_plain_inv (by decide) hd1
        rw [htmlEscape_ls 226 128 168 t' (by decide)]
        have := ih t' o2 (by simp only [List.length_cons] at hls; omega) hd2
        exact Denotes.bmp (a := 50) (b := 48) (c := 50) (d := 56) (r := 8232) (by decide) (by unfold isSurr; omega) this
      · by_cases h2 : ∃ t', c = 226 ∧ s = 128 :: 169 :: t'
        · obtain ⟨t', rfl, rfl⟩ := h2
          obtain ⟨o1, rfl, hd1⟩ := denotes_plain_inv (by decide) hd
          obtain ⟨o2, rfl, hd2⟩ := denotes_plain_inv (by decide) hd1
          rw [htmlEscape_ps 226 128 169 t' (by decide) (by decide)]
          have := ih t' o2 (by simp only [List.length_cons] at hls; omega) hd2
          exact Denotes.bmp (a := 50) (b := 48) (c := 50) (d := 57) (r := 8233) (by decide) (by unfold isSurr; omega) this
        · rw [htmlEscape_cons_single c s (fun t' e hc' => h1 ⟨t', hc', e⟩) (fun t' e hc' => h2 ⟨t', hc', e⟩)]
          exact denotes_htmlByte u c hc (ih s o' hls hd)
    | @simple e v s o' hv hd =>
      have hls : s.length ≤ n := by simp only [List.length_cons] at hl; omega
      have pe := simpleEsc_plain e (by rw [hv]; rfl)
      rw [htmlEscape_cons_copy 92 _ (by decide) (by decide) (by decide) (by decide),
        htmlEscape_cons_copy e _ pe.1 pe.2.1 pe.2.2.1 pe.2.2.2]
      exact Denotes.simple hv (ih s o' hls hd)
    | @bmp a b' c d r s o' hx hns hd =>
      have hls : s.length ≤ n := by simp only [List.length_cons] at hl; omega
      rw [htmlEscape_uescape hx]
      exact Denotes.bmp hx hns (ih s o' hls hd)
    | @pair a b' c d a' b'' c' d' hi lo s o' hx hh hx' hlo hd =>
      have hls : s.length ≤ n := by simp only [List.length_cons] at hl; omega
      rw [htmlEscape_uescape hx, htmlEscape_uescape hx']
      exact Denotes.pair hx hh hx' hlo (ih s o' hls hd)
    | @lone a b' c d r s o' hu hx hs hn hd =>
      have hls : s.length ≤ n := by simp only [List.length_cons] at hl; omega
      rw [htmlEscape_uescape hx]
      refine Denotes.lone hu hx hs ?_ (ih s o' hls hd)
      rintro ⟨hhi, hst⟩
      exact hn ⟨hhi, startsLo_of_htmlEscape s hst⟩

/-! ### every literal has a denotation (with replacement of lone surrogates) -/

theorem litBody_u_inv {a b c d : UInt8} {t : Bytes} (h : LitBody (92 :: 117 :: a :: b :: c :: d :: t)) : LitBody t := by
  cases h with
  | plain _ _ h92 _ => exact absurd rfl h92
  | simple hv _ => rw [simpleEsc_u] at hv; cases hv
  | uni _ ht => exact ht

theorem litBody_denotes' : ∀ (n : Nat) (b : Bytes), b.length ≤ n → LitBody b → ∃ o, Denotes true b o := by
  intro n
  induction n with
  | zero =>
    intro b hl h
    match b, hl with
    | [], _ => exact ⟨[], Denotes.nil⟩
  | succ n ih =>
    intro b hl h
    cases h with
    | nil => exact ⟨[], Denotes.nil⟩
    | @plain c t _ _ h92 ht =>
      obtain ⟨o, ho⟩ := ih t (by simp only [List.length_cons] at hl; omega) ht
      exact ⟨c :: o, Denotes.plain h92 ho⟩
    | @simple e v t hv ht =>
      obtain ⟨o, ho⟩ := ih t (by simp only [List.length_cons] at hl; omega) ht
      exact ⟨v :: o, Denotes.simple hv ho⟩
    | @uni a b' c d r t hx ht =>
      have hlt : t.length ≤ n := by simp only [List.length_cons] at hl; omega
      obtain ⟨o, ho⟩ := ih t hlt ht
      by_cases hs : isSurr r
      · by_cases hp : isHi r ∧ StartsLo t
        · obtain ⟨hhi, a', b'', c', d', lo, t', rfl, hx', hlo⟩ := hp
          obtain ⟨o', ho'⟩ := ih t' (by simp only [List.length_cons] at hlt; omega) (litBody_u_inv ht)
          exact ⟨_, Denotes.pair hx hhi hx' hlo ho'⟩
        · exact ⟨_, Denotes.lone rfl hx hs hp ho⟩
      · exact ⟨_, Denotes.bmp hx hs ho⟩

theorem litBodyOk_sound' : ∀ (n : Nat) (b : Bytes), b.length ≤ n → litBodyOk b = true → LitBody b := by
  intro n
  induction n with
  | zero =>
    intro b hl _
    match b, hl with
    | [], _ => exact LitBody.nil
  | succ n ih =>
    intro b hl h
    match b with
    | [] => exact LitBody.nil
    | c :: t =>
      rw [litBodyOk.eq_def] at h
      simp only at h
      split at h
      · rename_i hc
        have : c = 92 := by simpa using hc
        subst this
        split at h
        · rename_i e t'
          split at h
          · rename_i he
            have : e = 117 := by simpa using he
            subst this
            split at h
            · rename_i a b' c' d t''
              simp only [Bool.and_eq_true] at h
              obtain ⟨r, hr⟩ := Option.isSome_iff_exists.mp h.1
              exact LitBody.uni hr (ih t'' (by simp only [List.length_cons] at hl; omega) h.2)
            · cases h
          · simp only [Bool.and_eq_true] at h
            obtain ⟨v, hv⟩ := Option.isSome_iff_exists.mp h.1
            exact LitBody.simple hv (ih t' (by simp only [List.length_cons] at hl; omega) h.2)
        · cases h
      · rename_i hc
        split at h
        · cases h
        · rename_i hc2
          simp only [Bool.or_eq_true, decide_eq_true_eq, beq_iff_eq, not_or] at hc2
          exact LitBody.plain (UInt8.not_lt.mp hc2.1) hc2.2 (by simpa using hc)
            (ih t (by simp only [List.length_cons] at hl; omega) h)

end SonicSpec.Str
