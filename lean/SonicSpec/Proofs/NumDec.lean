/-
  Helper lemmas for C19: `roundDec` (decimal literal -> binary float) with its two exponent guards.
-/
import SonicSpec.Proofs.NumRound
namespace SonicSpec.Num

/-- side conditions on a format that the exponent guards of `roundDec` rely on -/
structure Fmt.Ok (f : Fmt) : Prop where
  prec_pos : 1 ≤ f.prec
  bias_small : f.bias + 2 ≤ 1200
  big : 2 ^ (f.prec + 1) * 2 ^ f.tmax ≤ 10 ^ 401 * 2 ^ f.bias

theorem f64_ok : f64.Ok := ⟨by decide, by decide, by decide +kernel⟩
theorem f32_ok : f32.Ok := ⟨by decide, by decide, by decide +kernel⟩

theorem scale_den_ne_zero (m : Nat) (e : Int) : (scale m e).2 ≠ 0 := by
  simp only [scale]
  split
  · exact Nat.one_ne_zero
  · exact Nat.ne_of_gt (Nat.pow_pos (by decide))

theorem scale_num_ne_zero (m : Nat) (e : Int) (hm : m ≠ 0) : (scale m e).1 ≠ 0 := by
  simp only [scale]
  split
  · exact Nat.ne_of_gt (Nat.mul_pos (Nat.pos_of_ne_zero hm) (Nat.pow_pos (by decide)))
  · exact hm

/-- the underflow guard is sound: the literal is below half of the smallest subnormal -/
theorem tiny_isRNE (f : Fmt) (hf : f.Ok) (m k : Nat)
    (hg : Nat.log2 m + 1200 < 3 * k) : IsRNE f.prec (m * 2 ^ f.bias) (10 ^ k) 0 0 := by
  have h1 := @Nat.lt_log2_self m
  have hb := hf.bias_small
  -- 2 * (m * 2^bias) < 2^(L + 1 + bias + 1) ≤ 2^(3k) = 8^k ≤ 10^k
  have h2 : 2 * (m * 2 ^ f.bias) < 2 ^ (Nat.log2 m + 1 + f.bias + 1) := by
    have : 2 ^ (Nat.log2 m + 1 + f.bias + 1) = 2 * (2 ^ (Nat.log2 m + 1) * 2 ^ f.bias) := by
      simp only [Nat.pow_add, Nat.pow_one]; ac_rfl
    rw [this]
    have : m * 2 ^ f.bias < 2 ^ (Nat.log2 m + 1) * 2 ^ f.bias :=
      Nat.mul_lt_mul_of_pos_right h1 (Nat.two_pow_pos _)
    omega
  have h3 : 2 ^ (Nat.log2 m + 1 + f.bias + 1) ≤ 2 ^ (3 * k) := Nat.pow_le_pow_right (by decide) (by omega)
  have h4 : 2 ^ (3 * k) ≤ 10 ^ k := by
    rw [Nat.pow_mul]; exact Nat.pow_le_pow_left (by decide) k
  have hlt : 2 * (m * 2 ^ f.bias) < 10 ^ k := by omega
  have hp1 : 1 ≤ 2 ^ f.prec := Nat.two_pow_pos _
  refine ⟨0, 0, ?_, by omega, ?_, ?_, ?_, Or.inl ⟨rfl, rfl, Nat.two_pow_pos _⟩⟩
  · simp only [Nat.pow_zero, Nat.mul_one]
    have : 10 ^ k ≤ 2 ^ f.prec * 10 ^ k := Nat.le_mul_of_pos_left _ hp1
    omega
  · simp only [Nat.pow_zero, Nat.mul_one, Nat.zero_mul, Nat.sub_zero]; omega
  · simp
  · intro _; rfl

/-- what `roundDec` returns for a non-zero literal is the correctly rounded value, canonical and finite -/
theorem roundDec_spec (f : Fmt) (hf : f.Ok) (m : Nat) (e : Int) (hm : m ≠ 0) (q t : Nat)
    (h : roundDec f m e = some (q, t)) :
    IsRNE f.prec ((scale m e).1 * 2 ^ f.bias) (scale m e).2 q t ∧ Canonical f.prec q t ∧ t ≤ f.tmax := by
  simp only [roundDec, if_neg hm] at h
  split at h
  · cases h
  · split at h
    · rename_i _ hg
      cases h
      have he : ¬ e ≥ 0 := by omega
      simp only [scale, if_neg he]
      refine ⟨tiny_isRNE f hf m _ hg.2, ⟨Nat.two_pow_pos _, fun h => absurd h (by decide)⟩, Nat.zero_le _⟩
    · split at h
      · cases h
      · rename_i hle
        have hr := Option.some.inj h
        have hN : (scale m e).1 * 2 ^ f.bias ≠ 0 :=
          Nat.ne_of_gt (Nat.mul_pos (Nat.pos_of_ne_zero (scale_num_ne_zero m e hm)) (Nat.two_pow_pos _))
        obtain ⟨h1, h2⟩ := roundNat_spec f.prec _ _ hN (scale_den_ne_zero m e) hf.prec_pos
        rw [hr] at h1 h2 hle
        exact ⟨h1, h2, by simp only at hle; omega⟩

theorem roundDec_zero (f : Fmt) (e : Int) : roundDec f 0 e = some (0, 0) := by
  simp [roundDec]

/-- the bits of a finite result fit the width of the format -/
theorem bits_lt (f : Fmt) (hp : 1 ≤ f.prec) (q t : Nat) (neg : Bool) (hc : Canonical f.prec q t)
    (ht : t + 2 ≤ 2 ^ f.ebits) :
    packBits f q t + (if neg then signBit f else 0) < 2 * signBit f := by
  obtain ⟨hq, _⟩ := hc
  have h2 : 2 ^ f.prec = 2 * 2 ^ (f.prec - 1) := by
    have : f.prec = (f.prec - 1) + 1 := by omega
    rw [this, Nat.pow_succ]; simp [Nat.mul_comm]
  have h3 : (t + 2) * 2 ^ (f.prec - 1) ≤ 2 ^ f.ebits * 2 ^ (f.prec - 1) := Nat.mul_le_mul_right _ ht
  have h4 : signBit f = 2 ^ f.ebits * 2 ^ (f.prec - 1) := by
    simp only [signBit]; rw [Nat.pow_add, Nat.mul_comm]
  simp only [packBits]
  rw [Nat.add_mul] at h3
  generalize 2 ^ (f.prec - 1) = H at *
  generalize signBit f = S at *
  generalize 2 ^ f.ebits * H = S' at *
  split <;> omega

end SonicSpec.Num
