/-
  Encoder IR, compiler correctness: callback leaves (json.Marshaler / encoding.TextMarshaler library types).
  The callback's text is an opaque leaf of the machine (`Ir.callbackText`) as of the specification (`Enc.encV`); what is
  proved is the compiler's choice of instruction: OP_marshal / OP_marshal_text on the value, the `_p` forms on `*T` when
  the value is reached through a pointer (`pv`), and compileMarshaler's nil test for a pointer type.
-/
import SonicSpec.Proofs.IrMap
namespace SonicSpec.Ir
open SonicSpec SonicSpec.Go SonicSpec.Enc SonicSpec.Json
variable {o : EncOpts} {co : COpts}

theorem cbKind_names {n : String} {k : Bool × Bool} (h : cbKind n = some k) :
    n = "MV" ∨ n = "LJ" ∨ n = "MP" ∨ n = "LJP" ∨ n = "TV" ∨ n = "LT" ∨ n = "TP" := by
  unfold cbKind at h
  split at h <;> simp_all

/-- the specification's dispatch: the method is called when it is in the method set of the value (value receiver) or the
    value is addressable -/
theorem encV_cb {n : String} {json vr : Bool} {w : GoVal} {m : Bytes} (hk : cbKind n = some (json, vr))
    (ht : callbackText n w = some m) (addr : Bool) (ha : vr = true ∨ addr = true) :
    encV o addr (.lib n) w = if json then marshalerOut o m else textOut o m := by
  fun_cases callbackText n w
  case case8 =>
    rw [callbackText.eq_8] at ht <;> first | assumption | (cases ht)
  all_goals (simp [cbKind] at hk; obtain ⟨h1, h2⟩ := hk; subst h1; subst h2)
  all_goals (rw [callbackText] at ht; injection ht with ht; subst ht)
  all_goals first
    | (simp [encV]; done)
    | (rcases ha with ha | ha
       · simp at ha
       · subst ha; simp [encV])

theorem libStruct_cb {n : String} {k : Bool × Bool} (h : cbKind n = some k) : libStruct n = none := by
  rcases cbKind_names h with rfl | rfl | rfl | rfl | rfl | rfl | rfl <;> rfl

theorem conf_cb {c0 : COpts} {n : String} {k : Bool × Bool} {w : GoVal} (hk : cbKind n = some k) (hC : Conf c0 (.lib n) w = true) :
    ∃ m j, callbackText n w = some m ∧ parseDoc m = some j := by
  have hcb : cbConf n w = true := by
    cases w <;> try (simp [Conf] at hC; done)
    · simpa [Conf, libStruct_cb hk] using hC
    · simpa [Conf] using hC
  unfold cbConf at hcb
  cases ht : callbackText n w with
  | none => rw [ht] at hcb; cases hcb
  | some m =>
    rw [ht] at hcb
    simp only at hcb
    cases hp : parseDoc m with
    | none => rw [hp] at hcb; cases hcb
    | some j => exact ⟨m, j, rfl, hp⟩

/-- with JSON text neither back end's check nor the specification's can refuse the callback -/
theorem cbOut_ok {json : Bool} {m : Bytes} {j : JVal} (hp : parseDoc m = some j) :
    ∃ j', (if json then marshalerOut o m else textOut o m) = .ok j' := by
  cases json
  · simp only [Bool.false_eq_true, if_false, textOut]
    split
    · exact ⟨j, by rw [hp]⟩
    · exact ⟨_, rfl⟩
  · exact ⟨j, by simp [marshalerOut, hp]⟩


/-- the four callback instructions (vm.go:233-256, :327-350) -/
def cbInstr (json ptrOp : Bool) (T : GoType) : Instr :=
  if json then (if ptrOp then .marshalP T else .marshal T) else (if ptrOp then .marshalTextP T else .marshalText T)

theorem step_cb {json ptrOp : Bool} {T : GoType} {v w : GoVal} {n : String} {m : Bytes} {j : JVal}
    (harg : callbackArg ptrOp T v = some (n, w)) (ht : callbackText n w = some m)
    (hout : (if json then marshalerOut o m else textOut o m) = .ok j)
    (pc : Nat) (r : Regs) (s : Stack) (b : Bytes) (hg : r.p.get = some v) :
    step o (cbInstr json ptrOp T) pc r s b = .next (pc + 1) r s (b ++ render j) := by
  cases json <;> cases ptrOp <;> simp only [cbInstr, Bool.false_eq_true, if_false, if_true] at hout ⊢ <;>
    simp only [step, hg, harg, ht, hout]

/-- a callback type with a value receiver: OP_marshal(_text) on the value, OP_marshal(_text)_p on `*T` through a pointer -/
theorem codeOK_cbVal {n : String} {json : Bool} (hk : cbKind n = some (json, true)) {w : GoVal} (hC : Conf co (.lib n) w = true) :
    CodeOKn o co (.lib n) w := by
  intro lv tab _hlv hnh addr fpv P pc sp pv r s b hat hg _hs
  obtain ⟨m, j0, ht, hp⟩ := conf_cb hk hC
  obtain ⟨j, hout⟩ := cbOut_ok (o := o) (json := json) hp
  rw [encV_cb hk ht addr (Or.inl rfl), hout]
  have hcode : code co (libK co lv) tab pc sp pv (.lib n) = [cbInstr json pv (if pv then .ptr (.lib n) else .lib n)] := by
    rw [code, if_neg (by simp [hnh])]
    cases pv <;> cases json <;> simp [cbCode, hk, cbInstr]
  rw [hcode] at hat ⊢
  have harg : callbackArg pv (if pv then .ptr (.lib n) else .lib n) w = some (n, w) := by
    cases pv <;> simp [callbackArg]
  constructor
  · intro j' hj res h
    injection hj with hj; subst hj
    exact halts_step (hat.get 0 (by omega) rfl) (step_cb harg ht hout pc r s b hg) (halts_cast h (by simp) rfl rfl rfl)
  · intro e he; cases he

/-- a pointer to a callback type (either receiver): compileMarshaler's nil test, then the method through the pointer -/
theorem codeOK_cbPtr_nil {n : String} {k : Bool × Bool} (hk : cbKind n = some k) : CodeOKn o co (.ptr (.lib n)) .nil := by
  intro lv tab _hlv hnh addr fpv P pc sp pv r s b hat hg _hs
  obtain ⟨json, vr⟩ := k
  rw [code, if_neg (by simp [hnh])] at hat ⊢
  simp only [cbPtrCode, hk] at hat ⊢
  constructor
  · intro j hj res h
    simp only [encV] at hj
    injection hj with hj; subst hj
    refine halts_step (hat.get 0 (by omega) rfl) (by simp only [step, hg, jumpIf]; rfl) ?_
    refine halts_step (hat.get 3 (by omega) rfl) (by simp only [step]; rfl) ?_
    exact halts_cast h (by simp) rfl rfl rfl
  · intro e he; simp only [encV] at he; cases he

theorem codeOK_cbPtr {n : String} {k : Bool × Bool} (hk : cbKind n = some k) {w : GoVal} (hC : Conf co (.lib n) w = true) :
    CodeOKn o co (.ptr (.lib n)) (.ptr w) := by
  intro lv tab _hlv hnh addr fpv P pc sp pv r s b hat hg _hs
  obtain ⟨json, vr⟩ := k
  obtain ⟨m, j0, ht, hp⟩ := conf_cb hk hC
  obtain ⟨j, hout⟩ := cbOut_ok (o := o) (json := json) hp
  simp only [encV]
  rw [encV_cb hk ht true (Or.inr rfl), hout]
  rw [code, if_neg (by simp [hnh])] at hat ⊢
  simp only [cbPtrCode, hk] at hat ⊢
  have hins : (if json then Instr.marshal (.ptr (.lib n)) else Instr.marshalText (.ptr (.lib n))) = cbInstr json false (.ptr (.lib n)) := by
    cases json <;> rfl
  rw [hins] at hat ⊢
  have harg : callbackArg false (.ptr (.lib n)) (.ptr w) = some (n, w) := by simp [callbackArg]
  constructor
  · intro j' hj res h
    injection hj with hj; subst hj
    refine halts_step (hat.get 0 (by omega) rfl) (by simp only [step, hg, jumpIf]; rfl) ?_
    refine halts_step (hat.get 1 (by omega) rfl) (step_cb harg ht hout _ r s b hg) ?_
    refine halts_step (hat.get 2 (by omega) rfl) (by simp only [step]; rfl) ?_
    exact halts_cast h (by simp) rfl rfl rfl
  · intro e he; cases he

end SonicSpec.Ir
