/-
  `Enc.encode` under the std-shaped option word against the separately written specification of
  encoding/json (Model/EncStd.lean): same success, same bytes, on the sub-universe `stdSub`.
-/
import SonicSpec.Proofs.EncStdLeaf
import SonicSpec.Proofs.EncNumBridge
import SonicSpec.Proofs.EncStdSort
import SonicSpec.Proofs.EncStdFields
namespace SonicSpec.EncStd
open SonicSpec SonicSpec.Go SonicSpec.Json SonicSpec.Enc

/-- the option word that is encoding/json's behaviour (ConfigStd when `html`) -/
def stdO (html : Bool) : EncOpts :=
  { sortMapKeys := true, escapeHTML := html, compactMarshaler := true, validateString := true }

/-- success value of a result, the error kind forgotten -/
def opt {α : Type} (x : Except EErr α) : Option α := x.toOption

@[simp] theorem opt_ok {α : Type} (a : α) : opt (Except.ok a : Except EErr α) = some a := rfl
@[simp] theorem opt_error {α : Type} (e : EErr) : opt (Except.error e : Except EErr α) = none := rfl
@[simp] theorem opt_pure {α : Type} (a : α) : opt (pure a : Except EErr α) = some a := rfl

theorem opt_map {α β : Type} (x : Except EErr α) (f : α → β) : opt (x.map f) = (opt x).map f := by
  cases x <;> rfl

theorem opt_bind {α β : Type} (x : Except EErr α) (f : α → Except EErr β) :
    opt (x >>= f) = (opt x).bind fun a => opt (f a) := by
  cases x <;> rfl

theorem opt_bind' {α β : Type} (x : Except EErr α) (f : α → Except EErr β) :
    opt (x.bind f) = (opt x).bind fun a => opt (f a) := by
  cases x <;> rfl

/-- elements as arrayEncoder writes them -/
def elemsBytes : Bool → List JVal → Bytes
  | _, [] => []
  | first, j :: r => (if first then [] else [44]) ++ render j ++ elemsBytes false r

theorem elemsBytes_false : ∀ (js : List JVal), js ≠ [] → elemsBytes false js = 44 :: renderElems js := by
  intro js
  induction js with
  | nil => intro h; exact absurd rfl h
  | cons j r ih =>
    intro _
    cases r with
    | nil => simp [elemsBytes, renderElems]
    | cons j2 r2 =>
      have := ih (by simp)
      simp [elemsBytes, renderElems] at this ⊢
      rw [this]

theorem elemsBytes_true (js : List JVal) : elemsBytes true js = renderElems js := by
  cases js with
  | nil => rfl
  | cons j r =>
    cases r with
    | nil => simp [elemsBytes, renderElems]
    | cons j2 r2 =>
      simp only [elemsBytes, renderElems, if_true, List.nil_append, Bool.false_eq_true, if_false]
      have := elemsBytes_false (j2 :: r2) (by simp)
      simp only [elemsBytes, Bool.false_eq_true, if_false] at this
      rw [this]

theorem arr_bytes (js : List JVal) : 91 :: (elemsBytes true js ++ [93]) = render (.arr js) := by
  rw [elemsBytes_true]; simp [render]

/-- members as structEncoder / mapEncoder write them: `next` before the first, `,` before the others -/
def membersBytes : UInt8 → List (Bytes × JVal) → Bytes
  | _, [] => []
  | n, (k, j) :: r => n :: 34 :: (k ++ 34 :: 58 :: render j) ++ membersBytes 44 r

theorem membersBytes_cons : ∀ (ms : List (Bytes × JVal)) (n : UInt8), ms ≠ [] → membersBytes n ms = n :: renderMembers ms := by
  intro ms
  induction ms with
  | nil => intro _ h; exact absurd rfl h
  | cons e r ih =>
    intro n _
    obtain ⟨k, j⟩ := e
    cases r with
    | nil => simp [membersBytes, renderMembers]
    | cons e2 r2 =>
      obtain ⟨k2, j2⟩ := e2
      have := ih 44 (by simp)
      simp only [membersBytes] at this ⊢
      rw [this]
      simp [renderMembers]

theorem obj_bytes (ms : List (Bytes × JVal)) (h : ms ≠ []) : membersBytes 123 ms ++ [125] = render (.obj ms) := by
  rw [membersBytes_cons ms 123 h]; simp [render]

/-- what `Enc.keyBodies` makes of an entry with a plain (string / integer) key -/
def kb (html : Bool) (e : Bytes × JVal) : Bytes × JVal := (quoteBody html true e.1, e.2)
/-- the same entry in the byte-level specification: key text, rendered value -/
def fb (e : Bytes × JVal) : Bytes × Bytes := (e.1, render e.2)

theorem writeEntries_false (html : Bool) : ∀ (es : List (Bytes × JVal)),
    writeEntries html false (es.map fb) = membersBytes 44 (es.map (kb html)) := by
  intro es
  induction es with
  | nil => rfl
  | cons e r ih =>
    obtain ⟨k, j⟩ := e
    simp only [List.map_cons, fb, kb, writeEntries, membersBytes, Bool.false_eq_true, if_false, appendString_eq, quoteLit]
    rw [ih]
    first | rfl | simp

theorem obj_entries (html : Bool) (es : List (Bytes × JVal)) :
    123 :: (writeEntries html true (es.map fb) ++ [125]) = render (.obj (es.map (kb html))) := by
  cases es with
  | nil => simp [writeEntries, render, renderMembers]
  | cons e r =>
    obtain ⟨k, j⟩ := e
    rw [← obj_bytes _ (by simp)]
    have := writeEntries_false html r
    simp only [List.map_cons, fb, kb, writeEntries, membersBytes, if_true, appendString_eq, quoteLit] at this ⊢
    rw [this]
    simp

/-- key kinds encoding/json accepts: strings, integers, and the two TextMarshaler types of the harness -/
def plainKey : GoType → Bool
  | .str | .int _ | .uint _ => true
  | .lib n => n == "TV" || n == "LT"
  | _ => false

theorem plainKey_ok {k : GoType} (h : plainKey k = true) : keyTypeOK k = true ∧ mapKeyOK k = true := by
  cases k <;> simp [plainKey] at h <;> try (simp [keyTypeOK, mapKeyOK]; done)
  rcases h with h | h <;> subst h <;> exact ⟨rfl, rfl⟩

theorem ascii_tv : ascii "tv" = [116, 118] := by decide
theorem ascii_tp : ascii "tp" = [116, 112] := by decide

theorem resolveKeyName_eq {k : GoType} (h : plainKey k = true) (a : GoVal) : resolveKeyName k a = keyText k a := by
  cases k <;> simp [plainKey] at h <;> try (cases a <;> simp [resolveKeyName, keyText, itoa_eq, natDigits_eq]; done)
  rcases h with h | h <;> subst h
  · cases a <;> try rfl
    rename_i l
    rcases l with _ | ⟨x, _ | ⟨y, r⟩⟩ <;> try rfl
    · cases x <;> try rfl
      simp [resolveKeyName, keyText, itoa_eq, ascii_tv]
    · cases x <;> rfl
  · cases a <;> rfl

theorem keyBodies_plain (html : Bool) {k : GoType} : ∀ (es : List (Bytes × JVal)),
    keyBodies (stdO html) k es = .ok (es.map (kb html)) := by
  intro es
  induction es with
  | nil => rfl
  | cons e r ih =>
    obtain ⟨ks, j⟩ := e
    show (do let b ← keyBody (stdO html) k ks; let rs ← keyBodies (stdO html) k r; pure ((b, j) :: rs)) = _
    rw [ih]
    simp [keyBody, stdO, kb, bind, Except.bind, pure, Except.pure]

/-- the key texts of a map value, in the order of its entries -/
def keyTexts (k : GoType) : List (GoVal × GoVal) → List Bytes
  | [] => []
  | (a, _) :: r => (match keyText k a with | some ks => [ks] | none => []) ++ keyTexts k r

def distinctB : List Bytes → Bool
  | [] => true
  | x :: r => !r.contains x && distinctB r

theorem distinctB_nodup : ∀ (l : List Bytes), distinctB l = true → l.Nodup := by
  intro l
  induction l with
  | nil => intro _; exact List.nodup_nil
  | cons x r ih =>
    intro h
    simp only [distinctB, Bool.and_eq_true, Bool.not_eq_true'] at h
    rw [List.nodup_cons]
    refine ⟨?_, ih h.2⟩
    intro hm
    have : r.contains x = true := by simpa using hm
    rw [this] at h; cases h.1

theorem encM_keys (o : EncOpts) (k t : GoType) : ∀ (kvs : List (GoVal × GoVal)) (es : List (Bytes × JVal)),
    encM o k t kvs = .ok es → es.map (·.1) = keyTexts k kvs := by
  intro kvs
  induction kvs with
  | nil => intro es h; simp [encM] at h; subst h; rfl
  | cons e r ih =>
    intro es h
    obtain ⟨a, b⟩ := e
    simp only [encM] at h
    cases hk : keyText k a with
    | none => simp [hk] at h
    | some ks =>
      simp only [hk] at h
      cases hv : encV o false t b with
      | error e => simp [hv, bind, Except.bind] at h
      | ok j =>
        cases hr : encM o k t r with
        | error e => simp [hv, hr, bind, Except.bind] at h
        | ok rs =>
          simp [hv, hr, bind, Except.bind, pure, Except.pure] at h
          subst h
          simp [keyTexts, hk, ih rs hr]

/-- value and static type are of the same kind at the top (what `reflect.Kind` would say) -/
def kindMatch : GoType → GoVal → Bool
  | .bool, .bool _ | .int _, .int _ | .uint _, .uint _ | .f64, .f64 _ | .f32, .f32 _ | .str, .str _ | .num, .num _ => true
  | .bytes, .nil | .bytes, .bytes _ | .raw, .nil | .raw, .raw _ | .any, .nil | .any, .any _ _ => true
  | .ptr _, .nil | .ptr _, .ptr _ | .sl _, .nil | .sl _, .sl _ | .arr _ _, .arr _ | .map _ _, .nil | .map _ _, .map _ => true
  | .st _, .st _ | .lib _, .st _ | .lib _, .lib _ => true                 -- the library types are all of kind struct
  | _, _ => false

theorem len0 {α : Type} (l : List α) : (l.length == 0) = l.isEmpty := by cases l <;> rfl

/-- the emptiness test by static kind is the Enc model's emptiness test -/
theorem isEmptyValue_eq (T : GoType) (v : GoVal) (h : kindMatch T v = true) : isEmptyValue T v = isEmptyV T v := by
  cases T <;> cases v <;> simp [kindMatch] at h <;>
    simp [isEmptyValue, isEmptyV, floatIsZero64, floatIsZero32, len0]

/-- `,string` scalars of the sub-universe -/
def qLeafOK : GoType → GoVal → Bool
  | .bool, .bool _ | .int _, .int _ | .uint _, .uint _ | .f64, .f64 _ | .f32, .f32 _ | .str, .str _ => true
  | _, _ => false

def quotedOK : GoType → GoVal → Bool
  | .ptr _, .nil => true
  | .ptr t, .ptr w => qLeafOK t w
  | t, w => qLeafOK t w

theorem ascii_true : ascii "true" = [116, 114, 117, 101] := by decide
theorem ascii_false : ascii "false" = [102, 97, 108, 115, 101] := by decide

theorem qfloat (html : Bool) (l : Option Bytes) :
    opt ((floatText l).map quoteWrap) = (opt ((floatLit (stdO html) l).map JVal.str)).map render := by
  cases l <;> simp [floatText, floatLit, stdO, Except.map, render, quoteWrap]

theorem quotedScalar_eq (html : Bool) (t : GoType) (w : GoVal) (h : qLeafOK t w = true) :
    opt (quotedScalar html t w) = (opt (quotedLeaf (stdO html) t w)).map render := by
  cases t <;> cases w <;> simp [qLeafOK] at h
  case bool.bool b => cases b <;> simp [quotedScalar, quotedLeaf, render, quoteWrap, ascii_true, ascii_false]
  case int.int => simp [quotedScalar, quotedLeaf, render, quoteWrap, itoa_eq]
  case uint.uint => simp [quotedScalar, quotedLeaf, render, quoteWrap, natDigits_eq]
  case f64.f64 => simp only [quotedScalar, quotedLeaf]; exact qfloat html _
  case f32.f32 => simp only [quotedScalar, quotedLeaf]; exact qfloat html _
  case str.str => simp [quotedScalar, quotedLeaf, render, appendString_eq, quoteLit, stdO]

theorem quotedField_eq (html : Bool) (T : GoType) (v : GoVal) (h : quotedOK T v = true) :
    opt (quotedField html T v) = (opt (quotedVal (stdO html) T v)).map render := by
  cases T <;> cases v <;> simp only [quotedOK] at h
  all_goals first
    | (simpa [quotedField, quotedVal] using quotedScalar_eq html _ _ h)
    | (simp [quotedField, quotedVal, render, nullText])

theorem isU8_eq {t : GoType} (h : isU8 t = true) : t = .uint 8 := by
  unfold isU8 at h
  split at h
  · rfl
  · cases h

theorem allU8_eq : ∀ (xs : List GoVal), allU8 xs = u8s xs := by
  intro xs
  induction xs with
  | nil => rfl
  | cons x r ih => cases x <;> simp [allU8, u8s, ih]

mutual
/-- the sub-universe of `encode_eq_std_partial`: everything but json.Number, RawMessage, the json.Marshaler library
    types (their text goes through `compact`), the embedded-field library type and `omitzero` fields -/
def stdSub : GoType → GoVal → Bool
  | .bool, .bool _ => true
  | .int _, .int _ => true
  | .uint _, .uint _ => true
  | .f64, .f64 _ => true
  | .f32, .f32 _ => true
  | .str, .str _ => true
  | .bytes, .nil => true
  | .bytes, .bytes _ => true
  | .any, .nil => true
  | .any, .any t v => stdSub t v
  | .ptr _, .nil => true
  | .ptr t, .ptr v => stdSub t v
  | .sl _, .nil => true
  | .sl t, .sl xs => isU8 t || stdSubL t xs
  | .arr n t, .arr xs => xs.length == n && stdSubL t xs
  | .map k _, .nil => plainKey k
  | .map k t, .map kvs => plainKey k && stdSubM t kvs && distinctB (keyTexts k kvs)
  | .st fs, .st vs => (match keepList fs with | some ks => stdSubF ks vs | none => false)
  | .lib "TV", .st [.int _] => true
  | .lib "TP", .st [.int _] => true
  | .lib "LT", .lib _ => true
  | .lib name, .st vs =>
    (match libStruct name with
     | some fs => (match keepList fs with | some ks => stdSubF ks vs | none => false)
     | none => false)
  | _, _ => false
/-- struct members: no `omitzero` (Go 1.23 does not know it), `,string` on scalars and pointers to scalars only -/
def stdSubF : List (Option Field) → List GoVal → Bool
  | none :: fs, _ :: vs => stdSubF fs vs
  | some f :: fs, v :: vs =>
    !f.omitZero && kindMatch f.typ v &&
      (if f.omitEmpty && isEmptyV f.typ v then true else if f.quoted then quotedOK f.typ v else stdSub f.typ v) &&
      stdSubF fs vs
  | _, _ => true
def stdSubL : GoType → List GoVal → Bool
  | _, [] => true
  | t, x :: xs => stdSub t x && stdSubL t xs
/-- map entries: the values are carried (the keys are of a plain kind, pairwise different as texts) -/
def stdSubM : GoType → List (GoVal × GoVal) → Bool
  | _, [] => true
  | t, (_, b) :: r => stdSub t b && stdSubM t r
end

theorem floatVal_eq (html : Bool) (l : Option Bytes) (hl : ∀ x, l = some x → NumShape x) :
    opt (floatText l) = (opt ((floatLit (stdO html) l).map fun l => if l == nullLit then JVal.null else JVal.num l)).map render := by
  cases l with
  | none => simp [floatText, floatLit, stdO, Except.map]
  | some x =>
    have hs := hl x rfl
    have hne : (x == nullLit) = false := by
      obtain ⟨c, tl, h1, hc⟩ := hs.head
      subst h1
      rcases hc with hc | hc
      · subst hc; simp [nullLit]
      · have : c ≠ 110 := by intro hh; subst hh; exact absurd hc (by decide)
        simp [nullLit, this]
    simp [floatText, floatLit, Except.map, hne, render]

theorem eq_std_all (html : Bool) :
    (∀ (addr : Bool) (T : GoType) (v : GoVal), stdSub T v = true →
        opt (encValue html addr T v) = (opt (encV (stdO html) addr T v)).map render) ∧
    (∀ (addr : Bool) (ks : List (Option Field)) (vs : List GoVal), stdSubF ks vs = true → ∀ next,
        opt (encFields html addr (convL ks) vs next) =
          (opt (encF (stdO html) addr ks vs)).map fun ms => (membersBytes next ms, if ms.isEmpty then next else 44)) ∧
    (∀ (k t : GoType) (kvs : List (GoVal × GoVal)), plainKey k = true → stdSubM t kvs = true →
        opt (encEntries html k t kvs) = (opt (encM (stdO html) k t kvs)).map (List.map fb)) ∧
    (∀ (addr : Bool) (t : GoType) (xs : List GoVal), stdSubL t xs = true → ∀ first,
        opt (encElems html addr t first xs) = (opt (encL (stdO html) addr t xs)).map (elemsBytes first)) := by
  apply encV.mutual_induct (stdO html)
    (motive_1 := fun addr T v => stdSub T v = true →
        opt (encValue html addr T v) = (opt (encV (stdO html) addr T v)).map render)
    (motive_2 := fun addr ks vs => stdSubF ks vs = true → ∀ next,
        opt (encFields html addr (convL ks) vs next) =
          (opt (encF (stdO html) addr ks vs)).map fun ms => (membersBytes next ms, if ms.isEmpty then next else 44))
    (motive_3 := fun k t kvs => plainKey k = true → stdSubM t kvs = true →
        opt (encEntries html k t kvs) = (opt (encM (stdO html) k t kvs)).map (List.map fb))
    (motive_4 := fun addr t xs => stdSubL t xs = true → ∀ first,
        opt (encElems html addr t first xs) = (opt (encL (stdO html) addr t xs)).map (elemsBytes first))
  case case1 => intro addr b _; cases b <;> simp [encValue, encV, render]
  case case2 => intro addr bits n _; simp [encValue, encV, render, itoa_eq]
  case case3 => intro addr bits n _; simp [encValue, encV, render, natDigits_eq]
  case case4 =>
    intro addr b _
    simp only [encValue, encV]
    exact floatVal_eq html _ (fun x hx => numFmtF64_shape hx)
  case case5 =>
    intro addr b _
    simp only [encValue, encV]
    exact floatVal_eq html _ (fun x hx => numFmtF32_shape hx)
  case case6 =>
    intro addr s _
    simp [encValue, encV, strVal, render, appendString_eq, quoteLit, stdO]
  case case8 => intro addr _; simp [encValue, encV, nilSlice, stdO, render, nullText]
  case case9 => intro addr b _; simp [encValue, encV, render, quoteWrap, base64_eq]
  case case12 => intro addr _; simp [encValue, encV, render, nullText]
  case case13 =>
    intro addr t v ih hs
    simp only [stdSub] at hs
    simpa [encValue, encV] using ih hs
  case case14 => intro addr t _; simp [encValue, encV, render, nullText]
  case case15 =>
    intro addr t v ih hs
    simp only [stdSub] at hs
    simpa [encValue, encV] using ih hs
  case case16 => intro addr t _; simp [encValue, encV, nilSlice, stdO, render, nullText]
  case case19 =>
    intro addr t xs hu ih hs
    simp only [stdSub, Bool.or_eq_true] at hs
    have hs2 : stdSubL t xs = true := by
      rcases hs with hs | hs
      · exact absurd hs hu
      · exact hs
    have hval : encValue html addr (.sl t) (.sl xs) = (encElems html true t true xs).map fun b => 91 :: (b ++ [93]) := by
      cases t <;> first | rfl | skip
      rename_i bits
      by_cases hb : bits = 8
      · subst hb; simp [isU8] at hu
      · rw [encValue]
        intro hh; injection hh with hh; exact absurd hh hb
    rw [hval, opt_map, ih hs2 true]
    simp only [encV, hu, Bool.false_eq_true, if_false, opt_map, Option.map_map]
    congr 1
    funext js
    simp [arr_bytes]
  case case20 =>
    intro addr n t xs hl ih hs
    simp only [stdSub, Bool.and_eq_true] at hs
    simp only [encValue, encV, hl, if_true, opt_map, ih hs.2 true, Option.map_map]
    congr 1
    funext js
    simp [arr_bytes]
  case case22 =>
    intro addr k t hk hs
    simp only [stdSub] at hs
    simp [encValue, encV, (plainKey_ok hs).2, hk, nilMap, stdO, render, nullText]
  case case23 =>
    intro addr k t hk hs
    simp only [stdSub] at hs
    exact absurd (plainKey_ok hs).1 hk
  case case25 =>
    intro addr k t kvs hk hs
    simp only [stdSub, Bool.and_eq_true] at hs
    exact absurd (plainKey_ok hs.1.1).1 hk
  case case24 =>
    intro addr k t kvs hk ih hs
    simp only [stdSub, Bool.and_eq_true] at hs
    obtain ⟨⟨hp, hm⟩, hd⟩ := hs
    have hpk := plainKey_ok hp
    have ih' := ih hp hm
    simp only [encValue, hpk.2, if_true, opt_map, ih', encV, hk, opt_bind']
    cases he : encM (stdO html) k t kvs with
    | error e => simp
    | ok es =>
      have hn : (es.map (·.1)).Nodup := by
        rw [encM_keys _ _ _ _ _ he]; exact distinctB_nodup _ hd
      have hfb : List.map fb es = es.map fun e => (e.1, render e.2) := rfl
      have hsort : (stdO html).sortMapKeys = true := rfl
      simp only [opt_ok, Option.map_some, Option.bind_some, hsort, if_true]
      rw [keyBodies_plain html]
      simp only [Except.map, opt_ok, Option.map_some, hfb]
      rw [mergeSort_eq_sortKV es hn]
      exact congrArg some (obj_entries html (sortKV es))
  case case17 =>
    intro addr t xs hu b hb _
    have ht := isU8_eq hu
    subst ht
    simp [encValue, encV, isU8, allU8_eq, hb, render, quoteWrap, base64_eq]
  case case18 =>
    intro addr t xs hu hb _
    have ht := isU8_eq hu
    subst ht
    simp [encValue, encV, isU8, allU8_eq, hb]
  case case32 => intro addr n _; simp [encValue, encV, textOut, stdO, strVal, render, appendString_eq, quoteLit, itoa_eq, ascii_tv]
  case case33 => intro n _; simp [encValue, encV, textOut, stdO, strVal, render, appendString_eq, quoteLit, itoa_eq, ascii_tp]
  case case34 =>
    intro addr n ha _
    have ha' : addr = false := by simpa using ha
    subst ha'
    have hV : quoteBody html true (ascii "V") = [86] := by cases html <;> decide +kernel
    simp [encValue, encV, render, renderMembers, nameKey, stdO, itoa_eq, hV]
  case case38 => intro addr t _; simp [encValue, encV, textOut, stdO, strVal, render, appendString_eq, quoteLit]
  case case40 =>
    intro addr name vs h1 h2 h3 h4 h5 fs hlib ks hkeep hl ih hs
    have hn : name = "Rec" ∨ name = "Tree" := by
      unfold libStruct at hlib
      split at hlib
      · exact Or.inl rfl
      · exact Or.inr rfl
      · cases hlib
    have hl' : ((convL ks).length == vs.length) = true := by simpa [convL] using hl
    have hsf : stdSubF ks vs = true := by
      rcases hn with hn | hn <;> subst hn <;> simpa [stdSub, hlib, hkeep] using hs
    have hv : encValue html addr (.lib name) (.st vs) =
        (encFields html addr (convL ks) vs 123).map fun bn => if bn.2 == 123 then [123, 125] else bn.1 ++ [125] := by
      rcases hn with hn | hn <;> subst hn <;> simp [encValue, hlib, typeFields_eq, hkeep, hl']
    have hm : encV (stdO html) addr (.lib name) (.st vs) = (encF (stdO html) addr ks vs).map .obj := by
      rcases hn with hn | hn <;> subst hn <;> simp [encV, hlib, hkeep, hl]
    rw [hv, hm]
    simp only [opt_map, ih hsf 123, Option.map_map]
    congr 1
    funext ms
    cases ms with
    | nil => simp [membersBytes, render, renderMembers]
    | cons e r =>
      have := obj_bytes (e :: r) (by simp)
      simp [this]
  case case41 =>
    intro addr name vs h1 h2 h3 h4 h5 fs hlib ks hkeep hl hs
    have hn : name = "Rec" ∨ name = "Tree" := by
      unfold libStruct at hlib
      split at hlib
      · exact Or.inl rfl
      · exact Or.inr rfl
      · cases hlib
    have hl' : ((convL ks).length == vs.length) = false := by simpa [convL] using hl
    rcases hn with hn | hn <;> subst hn <;> simp [encValue, encV, hlib, typeFields_eq, hkeep, hl', hl]
  case case26 =>
    intro addr fs vs ks hkeep hl ih hs
    simp only [stdSub, hkeep] at hs
    have hl' : ((convL ks).length == vs.length) = true := by simpa [convL] using hl
    simp only [encValue, typeFields_eq, hkeep, Option.map_some, hl', if_true, opt_map, ih hs 123, encV, hl, Option.map_map]
    congr 1
    funext ms
    cases ms with
    | nil => simp [membersBytes, render, renderMembers]
    | cons e r =>
      have := obj_bytes (e :: r) (by simp)
      simp [this]
  case case27 =>
    intro addr fs vs ks hkeep hl hs
    have hl' : ((convL ks).length == vs.length) = false := by simpa [convL] using hl
    simp [encValue, typeFields_eq, hkeep, hl', encV, hl]
  case case45 =>
    intro addr fs v vs ih hs next
    simp only [stdSubF] at hs
    simpa [convL, encFields, encF] using ih hs next
  case case46 =>
    intro addr f fs v vs h ih hs next
    simp only [stdSubF, Bool.and_eq_true, Bool.not_eq_true'] at hs
    obtain ⟨⟨⟨hz, hk⟩, _⟩, hrest⟩ := hs
    have hc : (f.omitEmpty && isEmptyV f.typ v) = true := by simpa [hz] using h
    have e : convL (some f :: fs) = some (conv f) :: convL fs := rfl
    have e2 : (conv f).omitEmpty = f.omitEmpty := rfl
    have e3 : (conv f).typ = f.typ := rfl
    rw [e]
    simp only [encFields, encF, e2, e3, isEmptyValue_eq _ _ hk, hc, hz, if_true, Bool.true_or]
    exact ih hrest next
  case case47 =>
    intro addr f fs v vs h hq ih hs next
    simp only [stdSubF, Bool.and_eq_true, Bool.not_eq_true'] at hs
    obtain ⟨⟨⟨hz, hk⟩, hmid⟩, hrest⟩ := hs
    have hc : (f.omitEmpty && isEmptyV f.typ v) = false := by simpa [hz] using h
    have hc' : ¬(f.omitEmpty = true ∧ isEmptyV f.typ v = true) := by rw [← Bool.and_eq_true]; simp [hc]
    rw [if_neg hc'] at hmid
    simp only [hq, if_true] at hmid
    have e : convL (some f :: fs) = some (conv f) :: convL fs := rfl
    have e2 : (conv f).omitEmpty = f.omitEmpty := rfl
    have e3 : (conv f).typ = f.typ := rfl
    have e4 : (conv f).quoted = f.quoted := rfl
    have e5 : (conv f).name = f.name := rfl
    rw [e]
    simp only [encFields, encF, e2, e3, e4, e5, isEmptyValue_eq _ _ hk, hc, hz, hq, if_true, Bool.false_or, Bool.false_and,
      Bool.false_eq_true, if_false, opt_bind, quotedField_eq html _ _ hmid, ih hrest 44]
    generalize opt (quotedVal (stdO html) f.typ v) = a
    generalize opt (encF (stdO html) addr fs vs) = b
    cases a <;> cases b <;> simp [membersBytes, nameKey, stdO, appendString_eq, quoteLit]
  case case48 =>
    intro addr f fs v vs h hq ih2 ih1 hs next
    simp only [stdSubF, Bool.and_eq_true, Bool.not_eq_true'] at hs
    obtain ⟨⟨⟨hz, hk⟩, hmid⟩, hrest⟩ := hs
    have hc : (f.omitEmpty && isEmptyV f.typ v) = false := by simpa [hz] using h
    have hq' : f.quoted = false := by simpa using hq
    have hc' : ¬(f.omitEmpty = true ∧ isEmptyV f.typ v = true) := by rw [← Bool.and_eq_true]; simp [hc]
    rw [if_neg hc'] at hmid
    simp only [hq', Bool.false_eq_true, if_false] at hmid
    have e : convL (some f :: fs) = some (conv f) :: convL fs := rfl
    have e2 : (conv f).omitEmpty = f.omitEmpty := rfl
    have e3 : (conv f).typ = f.typ := rfl
    have e4 : (conv f).quoted = f.quoted := rfl
    have e5 : (conv f).name = f.name := rfl
    rw [e]
    simp only [encFields, encF, e2, e3, e4, e5, isEmptyValue_eq _ _ hk, hc, hz, hq', if_true, Bool.false_or, Bool.false_and,
      Bool.false_eq_true, if_false, opt_bind, ih1 hmid, ih2 hrest 44]
    generalize opt (encV (stdO html) addr f.typ v) = a
    generalize opt (encF (stdO html) addr fs vs) = b
    cases a <;> cases b <;> simp [membersBytes, nameKey, stdO, appendString_eq, quoteLit]
  case case49 =>
    intro vs addr ks h1 h2 hs next
    cases ks with
    | nil => simp [convL, encFields, encF, membersBytes]
    | cons g r =>
      cases vs with
      | nil => simp [convL, encFields, encF, membersBytes]
      | cons w ws =>
        cases g with
        | none => exact absurd rfl (h1 r w ws rfl)
        | some f => exact absurd rfl (h2 f r w ws rfl)
  case case52 => intro k t _ _; simp [encEntries, encM]
  case case53 =>
    intro k t a b r hk hp _
    simp [encEntries, encM, hk, resolveKeyName_eq hp]
  case case54 =>
    intro k t a b r ks hk ih2 ih1 hp hs
    simp only [stdSubM, Bool.and_eq_true] at hs
    simp only [encEntries, encM, hk, resolveKeyName_eq hp, opt_bind, ih2 hs.1, ih1 hp hs.2]
    generalize opt (encV (stdO html) false t b) = x
    generalize opt (encM (stdO html) k t r) = y
    cases x <;> cases y <;> simp [fb]
  case case50 => intro addr t _ first; simp [encElems, encL, elemsBytes]
  case case51 =>
    intro addr t v r ih2 ih1 hs first
    simp only [stdSubL, Bool.and_eq_true] at hs
    simp only [encElems, encL, opt_bind, ih2 hs.1, ih1 hs.2 false]
    generalize opt (encV (stdO html) addr t v) = a
    generalize opt (encL (stdO html) addr t r) = b
    cases a <;> cases b <;> simp [elemsBytes]
  all_goals first
    | (intros; trivial)
    | (intros; rename_i hs; simp [stdSub] at hs; done)
    | (intros; rename_i hs _; simp [stdSub] at hs; done)
    | (intros; simp_all [stdSub]; done)

end SonicSpec.EncStd
