/-
  Decoder IR, proof infrastructure: termination with a result (`Halts`), fuel monotonicity, determinism, `Ends`
  (the run from a position ends with a result in a given set), the one-instruction rules in continuation form,
  and `At` (a code fragment sits at a position of a program).
-/
import SonicSpec.Model.DirSub
namespace SonicSpec.Dir
open SonicSpec SonicSpec.Go SonicSpec.Json SonicSpec.Bind SonicSpec.Stream

abbrev Out := Except XErr St

/-- the machine started at `pc` returns `res` (for some, hence every larger, amount of fuel) -/
def Halts (o : DecOpts) (co : COpts) (lim : Option Nat) (P : Program) (pc : Nat) (s : St) (res : Out) : Prop :=
  ∃ n, run o co lim n P pc s = some res

theorem run_mono (o : DecOpts) (co : COpts) (lim : Option Nat) : ∀ (n : Nat) (P : Program) (pc : Nat) (s : St) (res : Out),
    run o co lim n P pc s = some res → run o co lim (n + 1) P pc s = some res := by
  intro n
  induction n with
  | zero => intro P pc s res h; rw [run] at h; cases h
  | succ n ih =>
    intro P pc s res h
    rw [run] at h
    rw [run]
    cases hf : P[pc]? with
    | none => rw [hf] at h; exact h
    | some ins =>
      rw [hf] at h
      simp only at h ⊢
      cases hs : step o lim ins pc s with
      | next pc' s' => rw [hs] at h; simp only at h ⊢; exact ih _ _ _ _ h
      | err e => rw [hs] at h; exact h
      | call T =>
        rw [hs] at h
        simp only at h ⊢
        cases hc : run o co lim n (compile co T) 0 { s with et := none } with
        | none => rw [hc] at h; cases h
        | some rc =>
          rw [hc] at h
          rw [ih _ _ _ _ hc]
          cases rc with
          | error e => exact h
          | ok s' =>
            simp only at h ⊢
            exact ih _ _ _ _ h

theorem run_mono_add (o : DecOpts) (co : COpts) (lim : Option Nat) {n : Nat} {P : Program} {pc : Nat} {s : St} {res : Out}
    (h : run o co lim n P pc s = some res) (k : Nat) : run o co lim (n + k) P pc s = some res := by
  induction k with
  | zero => exact h
  | succ k ih => exact run_mono o co lim _ _ _ _ _ ih

theorem run_mono_le (o : DecOpts) (co : COpts) (lim : Option Nat) {n m : Nat} {P : Program} {pc : Nat} {s : St} {res : Out}
    (h : run o co lim n P pc s = some res) (hm : n ≤ m) : run o co lim m P pc s = some res := by
  obtain ⟨k, rfl⟩ := Nat.exists_eq_add_of_le hm
  exact run_mono_add o co lim h k

/-- the result does not depend on the fuel -/
theorem Halts.unique {o : DecOpts} {co : COpts} {lim : Option Nat} {P : Program} {pc : Nat} {s : St} {a c : Out}
    (ha : Halts o co lim P pc s a) (hc : Halts o co lim P pc s c) : a = c := by
  obtain ⟨n, hn⟩ := ha
  obtain ⟨m, hm⟩ := hc
  have h1 := run_mono_le o co lim hn (Nat.le_max_left n m)
  have h2 := run_mono_le o co lim hm (Nat.le_max_right n m)
  rw [h1] at h2
  injection h2

variable {o : DecOpts} {co : COpts} {lim : Option Nat} {P : Program}

theorem halts_done {pc : Nat} {s : St} (h : P[pc]? = none) : Halts o co lim P pc s (.ok s) := ⟨1, by rw [run, h]⟩

theorem halts_step {pc : Nat} {s : St} {ins : Instr} {pc' : Nat} {s' : St} {res : Out}
    (hf : P[pc]? = some ins) (hs : step o lim ins pc s = .next pc' s')
    (h : Halts o co lim P pc' s' res) : Halts o co lim P pc s res := by
  obtain ⟨n, hn⟩ := h
  exact ⟨n + 1, by rw [run, hf]; simp only [hs]; exact hn⟩

theorem halts_err {pc : Nat} {s : St} {ins : Instr} {e : XErr}
    (hf : P[pc]? = some ins) (hs : step o lim ins pc s = .err e) : Halts o co lim P pc s (.error e) :=
  ⟨1, by rw [run, hf]; simp only [hs]⟩

/-- what the caller of `_OP_recurse` goes on with when the callee returns `s'` -/
def retState (s s' : St) : St := { s' with vp := s.vp, et := merge s.et s'.et, sr := s.sr }

theorem halts_call {pc : Nat} {s : St} {ins : Instr} {T : GoType} {s' : St} {res : Out}
    (hf : P[pc]? = some ins) (hs : step o lim ins pc s = .call T)
    (hc : Halts o co lim (compile co T) 0 { s with et := none } (.ok s'))
    (h : Halts o co lim P (pc + 1) (retState s s') res) : Halts o co lim P pc s res := by
  obtain ⟨n, hn⟩ := hc
  obtain ⟨m, hm⟩ := h
  refine ⟨max n m + 1, ?_⟩
  rw [run, hf]
  simp only [hs]
  rw [run_mono_le o co lim hn (Nat.le_max_left n m)]
  exact run_mono_le o co lim hm (Nat.le_max_right n m)

theorem halts_callErr {pc : Nat} {s : St} {ins : Instr} {T : GoType} {e : XErr}
    (hf : P[pc]? = some ins) (hs : step o lim ins pc s = .call T)
    (hc : Halts o co lim (compile co T) 0 { s with et := none } (.error e)) :
    Halts o co lim P pc s (.error e) := by
  obtain ⟨n, hn⟩ := hc
  refine ⟨n + 1, ?_⟩
  rw [run, hf]
  simp only [hs]
  rw [hn]

/-! ### `Ends`: the run ends with a result in `R` -/

def Ends (o : DecOpts) (co : COpts) (lim : Option Nat) (R : Out → Prop) (P : Program) (pc : Nat) (s : St) : Prop :=
  ∃ out, Halts o co lim P pc s out ∧ R out

variable {R : Out → Prop}

theorem ends_done {pc : Nat} {s : St} (h : P[pc]? = none) (hr : R (.ok s)) : Ends o co lim R P pc s :=
  ⟨_, halts_done h, hr⟩

theorem ends_step {pc : Nat} {s : St} {ins : Instr} {pc' : Nat} {s' : St}
    (hf : P[pc]? = some ins) (hs : step o lim ins pc s = .next pc' s')
    (h : Ends o co lim R P pc' s') : Ends o co lim R P pc s := by
  obtain ⟨out, ho, hr⟩ := h
  exact ⟨out, halts_step hf hs ho, hr⟩

theorem ends_err {pc : Nat} {s : St} {ins : Instr} {e : XErr}
    (hf : P[pc]? = some ins) (hs : step o lim ins pc s = .err e) (hr : R (.error e)) : Ends o co lim R P pc s :=
  ⟨_, halts_err hf hs, hr⟩

/-- `_OP_recurse`: the callee's run ends either in an error the caller's set tolerates, or in a state from which the
    caller goes on -/
theorem ends_call {pc : Nat} {s : St} {T : GoType}
    (hf : P[pc]? = some (.recurse T))
    (hc : Ends o co lim (fun out => match out with
      | .ok s' => Ends o co lim R P (pc + 1) (retState s s')
      | .error x => R (.error x)) (compile co T) 0 { s with et := none }) :
    Ends o co lim R P pc s := by
  obtain ⟨out, ho, hr⟩ := hc
  cases out with
  | error x => exact ⟨_, halts_callErr hf rfl ho, hr⟩
  | ok s' =>
    obtain ⟨out2, ho2, hr2⟩ := hr
    exact ⟨out2, halts_call hf rfl ho ho2, hr2⟩

/-! ### code at a position -/

/-- the fragment `c` occupies the positions `pc ..` of `P` -/
def At (P : Program) (pc : Nat) (c : Program) : Prop := ∃ pre post, P = pre ++ c ++ post ∧ pre.length = pc

theorem At.whole (c : Program) : At c 0 c := ⟨[], [], by simp, rfl⟩

theorem At.left {pc : Nat} {a c : Program} (h : At P pc (a ++ c)) : At P pc a := by
  obtain ⟨pre, post, rfl, hl⟩ := h
  exact ⟨pre, c ++ post, by simp, hl⟩

theorem At.right {pc : Nat} {a c : Program} (h : At P pc (a ++ c)) : At P (pc + a.length) c := by
  obtain ⟨pre, post, rfl, hl⟩ := h
  exact ⟨pre ++ a, post, by simp, by simp [hl]⟩

theorem At.right' {pc q : Nat} {a c : Program} (h : At P pc (a ++ c)) (hq : q = pc + a.length) : At P q c := hq ▸ h.right

theorem At.head {pc : Nat} {i : Instr} {c : Program} (h : At P pc (i :: c)) : P[pc]? = some i := by
  obtain ⟨pre, post, rfl, hl⟩ := h
  subst hl
  simp

theorem At.tail {pc : Nat} {i : Instr} {c : Program} (h : At P pc (i :: c)) : At P (pc + 1) c :=
  At.right (a := [i]) (by simpa using h)

/-- the `k`-th instruction of a fragment -/
theorem At.get {pc : Nat} {c : Program} (h : At P pc c) (k : Nat) {i : Instr} (hk : c[k]? = some i) : P[pc + k]? = some i := by
  obtain ⟨pre, post, rfl, hl⟩ := h
  subst hl
  rw [List.append_assoc, List.getElem?_append_right (by omega)]
  simp only [Nat.add_sub_cancel_left]
  have hlt : k < c.length := by
    rcases Nat.lt_or_ge k c.length with h | h
    · exact h
    · rw [List.getElem?_eq_none h] at hk; cases hk
  rw [List.getElem?_append_left hlt]
  exact hk

/-- a middle part of a fragment -/
theorem At.mid {pc : Nat} {a b c : Program} (h : At P pc (a ++ b ++ c)) : At P (pc + a.length) b := by
  have := h.left (a := a ++ b) (c := c)
  exact this.right

theorem At.mid' {pc q : Nat} {a b c : Program} (h : At P pc (a ++ b ++ c)) (hq : q = pc + a.length) : At P q b := hq ▸ h.mid

/-- past the last instruction of the whole program -/
theorem At.end_none {c : Program} {pc : Nat} (hp : pc = c.length) : c[pc]? = none := by
  subst hp; simp

end SonicSpec.Dir
