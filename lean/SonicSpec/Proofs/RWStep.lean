/-
  C16 - preservation of the invariant by the individual operations (helper lemmas).
-/
import SonicSpec.Proofs.RWInv
namespace SonicSpec.RW

variable {pf : Bool}

theorem races_false_iff {hist : List Acc} {hb : List Nat} {a : Acc} :
    races hist hb a = false ↔ ∀ b ∈ hist, conflict b a = true → b.id ∈ hb := by
  unfold races
  rw [List.any_eq_false]
  constructor
  · intro h b hb1 hc
    have := h b hb1
    simp only [hc, Bool.true_and, Bool.not_eq_true'] at this
    simpa using this
  · intro h b hb1
    cases hc : conflict b a
    · simp
    · have := h b hb1 hc
      simp [this]

/-- generic re-assembly: thread `i` moved, everybody else kept their abstract state -/
theorem inv_update {s : State} {i : Nat} {th th' : Th} {sh' : Sh}
    (hI : Inv pf s) (hth : s.ths[i]? = some th)
    (hG : Glob ⟨sh', s.ths.set i th'⟩)
    (hi : ∃ a, safe pf a th'.prog = true ∧ ThOK i sh' th' a)
    (hframe : ∀ j thj a, j ≠ i → s.ths[j]? = some thj → ThOK j s.sh thj a → ThOK j sh' thj a) :
    Inv pf ⟨sh', s.ths.set i th'⟩ := by
  refine ⟨hG, ?_⟩
  intro j thj hj
  simp only at hj
  rw [getElem?_set_ite hth] at hj
  by_cases hij : i = j
  · subst hij
    simp only [if_true] at hj
    cases hj
    exact hi
  · simp only [hij, if_false] at hj
    obtain ⟨a, hs, hok⟩ := hI.2 j thj hj
    exact ⟨a, hs, hframe j thj a (fun h => hij h.symm) hj hok⟩

/-- a purely thread-local step (shared state untouched, happens-before set untouched) -/
theorem glob_local {s : State} {i : Nat} {th th' : Th}
    (hG : Glob s) (hth : s.ths[i]? = some th) (hhb : th'.hb = th.hb) :
    Glob ⟨s.sh, s.ths.set i th'⟩ := by
  refine { hG with holdHB := ?_, own := ?_, ordered := ?_ }
  · intro j thj hj
    simp only at hj
    rw [getElem?_set_ite hth] at hj
    by_cases hij : i = j
    · subst hij
      simp only [if_true] at hj
      cases hj
      rw [hhb]
      exact hG.holdHB i th hth
    · simp only [hij, if_false] at hj
      exact hG.holdHB j thj hj
  · intro a ha thj hj
    simp only at hj ha
    rw [getElem?_set_ite hth] at hj
    by_cases hij : i = a.tid
    · simp only [hij, if_true] at hj
      cases hj
      rw [hhb]
      exact hG.own a ha th (hij ▸ hth)
    · simp only [hij, if_false] at hj
      exact hG.own a ha thj hj
  · exact ordered_mono hG.ordered hth (by rw [hhb]; exact fun x hx => hx)

/-- a recorded read access (plain read or atomic load): only the history grows -/
theorem glob_read {s : State} {i : Nat} {th th' : Th} {f : Fld} {atm : Bool}
    (hG : Glob s) (hth : s.ths[i]? = some th)
    (hrace : ∀ b ∈ s.sh.hist, conflict b (mkAcc i f false atm s.sh) = true → b.id ∈ th.hb)
    (hat : atm = true → f = .t)
    (hrd : s.sh.t = .raw → atm = false → f ≠ .m → s.sh.w = some i ∨ i ∈ s.sh.r)
    (hhb : ∀ x, x = s.sh.hist.length ∨ x ∈ th.hb → x ∈ th'.hb) :
    Glob ⟨s.sh.record th.hb (mkAcc i f false atm s.sh), s.ths.set i th'⟩ := by
  have hr := races_false_iff.mpr hrace
  constructor
  · exact hG.m
  · simp [Sh.record, hG.norace, hr]
  · exact hG.noerr
  · exact hG.excl
  · exact hG.wfree
  · exact hG.gRaw
  · exact hG.gParsed
  · intro ht b hb hbw
    simp only [Sh.record] at hb ht ⊢
    rcases List.mem_cons.mp hb with rfl | hb
    · simp [mkAcc] at hbw
    · exact hG.hbT ht b hb hbw
  · intro ht b hb hbw
    simp only [Sh.record] at hb ht ⊢
    rcases List.mem_cons.mp hb with rfl | hb
    · simp [mkAcc] at hbw
    · exact hG.wrBy ht b hb hbw
  · intro b hb hbw
    simp only [Sh.record] at hb
    rcases List.mem_cons.mp hb with rfl | hb
    · simp [mkAcc] at hbw
    · exact hG.wrAtomicT b hb hbw
  · intro b hb hbw
    simp only [Sh.record] at hb
    rcases List.mem_cons.mp hb with rfl | hb
    · simp [mkAcc] at hbw
    · exact hG.wrNotM b hb hbw
  · intro b hb hba
    simp only [Sh.record] at hb
    rcases List.mem_cons.mp hb with rfl | hb
    · simp only [mkAcc] at hba ⊢; exact hat hba
    · exact hG.atomicT b hb hba
  · intro ht b hb hbw hba hbm
    simp only [Sh.record] at hb ht ⊢
    rcases List.mem_cons.mp hb with rfl | hb
    · simp only [mkAcc] at hba hbm ⊢
      rcases hrd ht hba hbm with h | h
      · exact Or.inr (Or.inr (Or.inl h))
      · exact Or.inr (Or.inr (Or.inr h))
    · exact hG.rdRel ht b hb hbw hba hbm
  · intro j thj hj
    simp only [Sh.record] at hj ⊢
    rw [getElem?_set_ite hth] at hj
    by_cases hij : i = j
    · subst hij
      simp only [if_true] at hj
      cases hj
      have := hG.holdHB i th hth
      exact ⟨fun hw => ⟨fun x hx => hhb x (Or.inr ((this.1 hw).1 x hx)), fun x hx => hhb x (Or.inr ((this.1 hw).2 x hx))⟩,
             fun hr x hx => hhb x (Or.inr (this.2 hr x hx))⟩
    · simp only [hij, if_false] at hj
      exact hG.holdHB j thj hj
  · intro b hb thj hj
    simp only [Sh.record] at hb hj
    rw [getElem?_set_ite hth] at hj
    rcases List.mem_cons.mp hb with rfl | hb
    · simp only [mkAcc, if_true] at hj ⊢
      cases hj
      exact hhb _ (Or.inl rfl)
    · by_cases hij : i = b.tid
      · simp only [hij, if_true] at hj
        cases hj
        exact hhb _ (Or.inr (hG.own b hb th (hij ▸ hth)))
      · simp only [hij, if_false] at hj
        exact hG.own b hb thj hj
  · simp only [Sh.record]
    exact ordered_cons hG.ordered hth (fun x hx => hhb x (Or.inr hx)) rfl
      (fun b hb hc => hhb _ (Or.inr (hrace b hb hc)))
  · intro ht a ha
    simp only [Sh.record] at ha ht
    rcases List.mem_cons.mp ha with rfl | ha
    · simp [mkAcc]
    · exact hG.rawNoStore ht a ha
  · simp only [Sh.record]
    exact List.pairwise_cons.mpr ⟨fun b _ _ => by simp [mkAcc], hG.noWriteAfterStore⟩


/-! ### views -/

theorem viewOK_inv {th : Th} {v : TV} {g : Nat} (h : th.viewOK = true) (htv : th.tv = some (v, g)) :
    (th.lg = none ∨ th.lg = some g) ∧ (th.pg = none ∨ th.pg = some g) ∧ (v = .raw → g = 0) ∧ (v = .parsed → g = 1) := by
  unfold Th.viewOK at h
  rw [htv] at h
  simp only [Bool.and_eq_true] at h
  obtain ⟨⟨h1, h2⟩, h3⟩ := h
  refine ⟨?_, ?_, ?_, ?_⟩
  · cases hl : th.lg with
    | none => exact Or.inl rfl
    | some x => rw [hl] at h1; simp at h1; exact Or.inr (by rw [h1])
  · cases hl : th.pg with
    | none => exact Or.inl rfl
    | some x => rw [hl] at h2; simp at h2; exact Or.inr (by rw [h2])
  · intro hv; subst hv; simpa using h3
  · intro hv; subst hv; simpa using h3

theorem viewOK_of {th : Th} {v : TV} {g : Nat} (htv : th.tv = some (v, g))
    (hl : th.lg = none ∨ th.lg = some g) (hp : th.pg = none ∨ th.pg = some g)
    (hr : v = .raw → g = 0) (hpv : v = .parsed → g = 1) : th.viewOK = true := by
  unfold Th.viewOK
  rw [htv]
  simp only [Bool.and_eq_true]
  refine ⟨⟨?_, ?_⟩, ?_⟩
  · rcases hl with hl | hl <;> rw [hl] <;> simp
  · rcases hp with hp | hp <;> rw [hp] <;> simp
  · cases v
    · simpa using hr rfl
    · simpa using hpv rfl
    · rfl

/-! ### plain reads of t / l / p -/

theorem canRead_info {s : State} {i : Nat} {th : Th} {a : Abs} (hok : ThOK i s.sh th a)
    (hc : a.canRead = true) :
    a.wl = false ∧ a.wp = false ∧ a.wc = false ∧
    ((∃ v g, th.tv = some (v, g) ∧ v ≠ .raw ∧ NonRawFacts s.sh th g) ∨
     (∃ g, th.tv = some (.raw, g) ∧ s.sh.t = .raw ∧ g = s.sh.tg ∧ (s.sh.w = some i ∨ i ∈ s.sh.r))) := by
  simp only [Abs.canRead, Bool.and_eq_true, Bool.or_eq_true, beq_iff_eq, Bool.not_eq_true'] at hc
  obtain ⟨⟨⟨hk, hwl⟩, hwp⟩, hwc⟩ := hc
  refine ⟨hwl, hwp, hwc, ?_⟩
  have hkn := hok.know
  unfold KnowOK at hkn
  rcases hk with hk | ⟨hk, hlk⟩
  · rw [hk] at hkn
    exact Or.inl hkn
  · rw [hk] at hkn
    obtain ⟨g, h1, h2⟩ := hkn
    obtain ⟨h3, h4⟩ := h2 hlk
    refine Or.inr ⟨g, h1, h3, h4, ?_⟩
    rcases hok.lkHeld hlk with h | h
    · exact Or.inr (hok.hR.mp h)
    · exact Or.inl (hok.hW.mp h)

theorem conflict_read {b : Acc} {i : Nat} {f : Fld} {atm : Bool} {sh : Sh}
    (h : conflict b (mkAcc i f false atm sh) = true) :
    b.f = f ∧ b.tid ≠ i ∧ b.wr = true ∧ (b.atomic = false ∨ atm = false) := by
  simp only [conflict, mkAcc, Bool.and_eq_true, beq_iff_eq, bne_iff_ne, ne_eq, Bool.or_false,
    Bool.not_eq_true', Bool.and_eq_false_iff] at h
  obtain ⟨⟨⟨h1, h2⟩, h3⟩, h4⟩ := h
  exact ⟨h1, h2, h3, h4⟩

/-- under `canRead`, every write of another thread happens-before the reader -/
theorem read_writes_hb {s : State} {i : Nat} {th : Th} {a : Abs} (hG : Glob s) (hok : ThOK i s.sh th a)
    (hc : a.canRead = true) : ∀ b ∈ s.sh.hist, b.wr = true → b.tid ≠ i → b.id ∈ th.hb := by
  intro b hb hbw hbi
  obtain ⟨_, _, _, h | h⟩ := canRead_info hok hc
  · obtain ⟨v, g, _, _, _, _, h3⟩ := h
    exact h3 b hb hbw
  · obtain ⟨g, _, ht, _, hl⟩ := h
    obtain ⟨hw, _⟩ := hG.wrBy ht b hb hbw
    rcases hl with hl | hl
    · rw [hw] at hl; injection hl with hl; exact absurd hl hbi
    · have := hG.excl _ hw; rw [this] at hl; cases hl

/-- under `canRead`, the fields l and p both carry the generation of the `t` last loaded -/
theorem read_vals {s : State} {i : Nat} {th : Th} {a : Abs} (hG : Glob s) (hok : ThOK i s.sh th a)
    (hc : a.canRead = true) : ∃ v g, th.tv = some (v, g) ∧ s.sh.l = g ∧ s.sh.p = g := by
  obtain ⟨hwl, hwp, _, h | h⟩ := canRead_info hok hc
  · obtain ⟨v, g, h1, _, h2, h3, _⟩ := h
    refine ⟨v, g, h1, ?_⟩
    have hp : s.sh.t = .parsed := by
      cases ht : s.sh.t
      · exact absurd ht h2
      · rfl
      · exact absurd ht hG.noerr
    obtain ⟨e1, e2, e3⟩ := hG.gParsed hp
    rw [h3, e1]; exact ⟨e2, e3⟩
  · obtain ⟨g, h1, ht, hg, hl⟩ := h
    refine ⟨.raw, g, h1, ?_⟩
    obtain ⟨e1, e2, e3⟩ := hG.gRaw ht
    have hfl : s.sh.wl = false ∧ s.sh.wp = false := by
      rcases hl with hl | hl
      · have := hok.wlw (hok.hW.mpr hl)
        rw [this.1, this.2.1]; exact ⟨hwl, hwp⟩
      · have hn : s.sh.w = none := by
          cases hw : s.sh.w with
          | none => rfl
          | some j => have := hG.excl j hw; rw [this] at hl; cases hl
        exact ⟨(hG.wfree hn).1, (hG.wfree hn).2.1⟩
    rw [hfl.1] at e2; rw [hfl.2] at e3
    rw [hg, e1]; exact ⟨e2, e3⟩

theorem canRead_rdRel {s : State} {i : Nat} {th : Th} {a : Abs} (hok : ThOK i s.sh th a)
    (hc : a.canRead = true) (ht : s.sh.t = .raw) : s.sh.w = some i ∨ i ∈ s.sh.r := by
  obtain ⟨_, _, _, h | h⟩ := canRead_info hok hc
  · obtain ⟨v, g, _, _, h2, _⟩ := h
    exact absurd ht h2
  · obtain ⟨g, _, _, _, hl⟩ := h
    exact hl

/-- a plain read of `t`, `l` or `p` by a thread that may read -/
theorem inv_plain_read {s : State} {i : Nat} {th th' : Th} {a : Abs} {f : Fld}
    (hI : Inv pf s) (hth : s.ths[i]? = some th) (hok : ThOK i s.sh th a) (hc : a.canRead = true)
    (hs : safe pf a th'.prog = true)
    (htv : th'.tv = th.tv) (hhb : th'.hb = s.sh.hist.length :: th.hb) (hfa : th'.fault = th.fault)
    (hmv : th'.mv = th.mv) (hlv : th'.lockv = th.lockv) (hview : th'.viewOK = true) :
    Inv pf ⟨s.sh.record th.hb (mkAcc i f false false s.sh), s.ths.set i th'⟩ := by
  have hG := hI.1
  apply inv_update hI hth
  · apply glob_read hG hth
    · intro b hb hcf
      obtain ⟨_, h2, h3, _⟩ := conflict_read hcf
      exact read_writes_hb hG hok hc b hb h3 h2
    · intro h; cases h
    · intro ht _ _
      exact canRead_rdRel hok hc ht
    · intro x hx
      rw [hhb]
      rcases hx with hx | hx
      · rw [hx]; exact List.mem_cons_self
      · exact List.mem_cons_of_mem _ hx
  · refine ⟨a, hs, ?_⟩
    apply hok.read_step (sh' := s.sh.record th.hb (mkAcc i f false false s.sh)) (acc := mkAcc i f false false s.sh) rfl rfl rfl rfl rfl rfl rfl rfl rfl htv
    · intro x hx; rw [hhb]; exact List.mem_cons_of_mem _ hx
    · exact hfa
    · intro h; rw [hmv]; exact hok.mread h
    · exact hlv
    · exact hview
  · intro j thj aj _ _ hj
    exact hj.frame_read (sh' := s.sh.record th.hb (mkAcc i f false false s.sh)) (acc := mkAcc i f false false s.sh) rfl rfl rfl rfl rfl rfl rfl rfl rfl

end SonicSpec.RW
