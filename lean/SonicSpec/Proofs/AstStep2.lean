/-
  C15 - refinement of the single operations applied to the node itself (part 2).
-/
import SonicSpec.Proofs.AstStep
set_option linter.unusedSimpArgs false
namespace SonicSpec.Ast

/-! #### SetByIndex -/

theorem kind_cases (n : NodeM) (hr : n.repOk = true) :
    n.abs.kind = n.kind ∧ n.kind ≠ .gone := ⟨(kind_abs n hr).symm, kind_ne_gone n hr⟩

theorem abs_null_of_kind (n : NodeM) (hr : n.repOk = true) (hk : n.kind = .null) : n.abs = .null := by
  have hka := kind_abs n hr
  rw [hk] at hka; cases h : n.abs <;> simp [h, Tree.kind] at hka; rfl

theorem seti_kid (t : Tree) (i : Nat) (v : Tree) (h : t.kind = .arr ∨ t.kind = .obj) :
    t.stepHere (.seti i v) =
      (match t.kidAt i with | some _ => (.b true, t.setKid i v) | none => (.err .notfound, t)) := by
  cases t with
  | arr xs =>
    simp only [Tree.stepHere, Tree.kidAt, Tree.setKid]
    by_cases hi : i < xs.length
    · simp [hi]
    · simp [hi]
  | obj kvs =>
    simp only [Tree.stepHere, Tree.kidAt, Tree.setKid]
    cases hq : kvs[i]? with
    | none => rfl
    | some p => obtain ⟨k, w⟩ := p; rfl
  | _ => simp [Tree.kind] at h

theorem seti_scalar (t : Tree) (i : Nat) (v : Tree) (h1 : t.kind ≠ .arr) (h2 : t.kind ≠ .obj) (h3 : t.kind ≠ .null) :
    t.stepHere (.seti i v) = (.err .notfound, t) := by
  cases t <;> simp [Tree.kind] at h1 h2 h3 <;> rfl

theorem here_seti (n : NodeM) (i : Nat) (v : Tree) (hr : n.repOk = true) (hn : n.isRaw = false) :
    Refines (n.stepHere (.seti i v)) (n.abs.stepHere (.seti i v)) := by
  have hcr := checkRaw_of_not_raw n hn
  have hka := kind_abs n hr
  have hng := kind_ne_gone n hr
  simp only [NodeM.stepHere, hcr]
  by_cases h0 : i = 0 ∧ (n.kind = .gone ∨ n.kind = .null)
  · rw [if_pos h0]
    have hnull : n.kind = .null := by rcases h0.2 with h | h; exact absurd h hng; exact h
    rw [abs_null_of_kind n hr hnull, h0.1]
    exact ⟨rfl, by simp [NodeM.abs, absElems, Tree.stepHere], by simp [NodeM.repOk, repElems, countLive, List.filter_cons]⟩
  · rw [if_neg h0]
    by_cases hk : n.kind ≠ .arr ∧ n.kind ≠ .obj
    · rw [if_pos hk]
      by_cases hnull : n.kind = .null
      · have hi : i ≠ 0 := fun h => h0 ⟨h, Or.inr hnull⟩
        rw [abs_null_of_kind n hr hnull]
        exact ⟨by simp [Tree.stepHere, hi], by simp [Tree.stepHere, hi, abs_null_of_kind n hr hnull], hr⟩
      · rw [seti_scalar _ _ _ (by rw [← hka]; exact hk.1) (by rw [← hka]; exact hk.2) (by rw [← hka]; exact hnull)]
        exact ⟨rfl, rfl, hr⟩
    · rw [if_neg hk]
      have hk' : n.abs.kind = .arr ∨ n.abs.kind = .obj := by
        rw [← hka]
        by_cases h1 : n.kind = .arr
        · exact Or.inl h1
        · by_cases h2 : n.kind = .obj
          · exact Or.inr h2
          · exact absurd ⟨h1, h2⟩ hk
      obtain ⟨s1, s2, s3, s4⟩ := skipIndex_spec n i hr hn
      rw [seti_kid _ _ _ hk']
      cases hf : (n.skipIndex i).2 with
      | none =>
        simp only [hf] at s4 ⊢
        rw [s4]; exact ⟨rfl, s1, s2⟩
      | some j =>
        simp only [hf] at s4 ⊢
        have hfa := s4
        obtain ⟨c, c1, c2, c3, c4, c5⟩ := s4
        obtain ⟨e1, e2⟩ := setChildAt_spec _ j i (NodeM.raw v false) s2 hfa rfl rfl
        rw [s1] at c4
        simp only [c1, c2, if_true, c4]
        exact ⟨rfl, by rw [e1, s1]; rfl, e2⟩

/-! #### Add -/

theorem add_other (t : Tree) (v : Tree) (h1 : t.kind ≠ .arr) (h2 : t.kind ≠ .null) :
    t.stepHere (.add v) = (.err .unsupported, t) := by
  cases t <;> simp [Tree.kind] at h1 h2 <;> rfl

theorem here_add (n : NodeM) (v : Tree) (hr : n.repOk = true) (hn : n.isRaw = false) :
    Refines (n.stepHere (.add v)) (n.abs.stepHere (.add v)) := by
  have hcr := checkRaw_of_not_raw n hn
  have hka := kind_abs n hr
  simp only [NodeM.stepHere, hcr]
  cases hkd : n.kind with
  | gone => exact absurd hkd (kind_ne_gone n hr)
  | null =>
    rw [abs_null_of_kind n hr hkd]
    exact ⟨rfl, by simp [NodeM.abs, absElems, Tree.stepHere], by simp [NodeM.repOk, repElems, countLive, List.filter_cons]⟩
  | arr =>
    obtain ⟨a1, a2⟩ := skipAll_spec n hr
    obtain ⟨l, st, hshape⟩ := skipAll_arr_shape n hkd hn
    rw [hshape] at a1 a2 ⊢
    obtain ⟨xs, ha⟩ := abs_arr_of_kind n hr hkd
    simp only [NodeM.repOk, Bool.and_eq_true, decide_eq_true_eq] at a2
    simp only [NodeM.abs] at a1
    rw [ha] at a1
    have hxs : absElems st = xs := by injection a1
    rw [ha]
    refine ⟨rfl, ?_, ?_⟩
    · simp [NodeM.abs, absElems_append, absElems, hxs, Tree.stepHere]
    · simp [NodeM.repOk, repElems_append, repElems, a2.1, countLive_append, countLive, List.filter_cons]
      have := a2.2; simp [countLive] at this; omega
  | obj => rw [add_other _ _ (by rw [← hka, hkd]; simp) (by rw [← hka, hkd]; simp)]; exact ⟨rfl, rfl, hr⟩
  | bool => rw [add_other _ _ (by rw [← hka, hkd]; simp) (by rw [← hka, hkd]; simp)]; exact ⟨rfl, rfl, hr⟩
  | num => rw [add_other _ _ (by rw [← hka, hkd]; simp) (by rw [← hka, hkd]; simp)]; exact ⟨rfl, rfl, hr⟩
  | str => rw [add_other _ _ (by rw [← hka, hkd]; simp) (by rw [← hka, hkd]; simp)]; exact ⟨rfl, rfl, hr⟩

/-! #### Pop -/

theorem repElems_take (st : List NodeM) (k : Nat) (h : repElems st = true) : repElems (st.take k) = true := by
  rw [repElems_iff] at h ⊢
  exact fun x hx hl => h x (List.mem_of_mem_take hx) hl

theorem repPairs_take (st : List PairM) (k : Nat) (h : repPairs st = true) : repPairs (st.take k) = true := by
  rw [repPairs_iff] at h ⊢
  exact fun x hx => h x (List.mem_of_mem_take hx)

theorem pop_elems (st : List NodeM) (l : Nat) (hr : repElems st = true) (hl : l = countLive NodeM.live st) :
    absElems (popLive NodeM.live st).1 = (absElems st).dropLast ∧
    repElems (popLive NodeM.live st).1 = true ∧
    (if (popLive NodeM.live st).2 then l - 1 else l) = countLive NodeM.live (popLive NodeM.live st).1 := by
  obtain ⟨h1, h2, k, h3⟩ := popLive_spec NodeM.live st
  refine ⟨by rw [absElems_eq, absElems_eq, h1, List.map_dropLast], by rw [h3]; exact repElems_take st k hr, ?_⟩
  unfold countLive at hl ⊢
  rw [h1, List.length_dropLast]
  by_cases hp : (popLive NodeM.live st).2 = true
  · rw [if_pos hp, hl]
  · rw [if_neg hp]
    have : List.filter NodeM.live st = [] := by
      by_cases h : List.filter NodeM.live st = []
      · exact h
      · exact absurd (h2.mpr h) hp
    rw [hl, this]; rfl

theorem pop_pairs (st : List PairM) (l : Nat) (hr : repPairs st = true) (hl : l = countLive pairLive st) :
    absPairs (popLive pairLive st).1 = (absPairs st).dropLast ∧
    repPairs (popLive pairLive st).1 = true ∧
    (if (popLive pairLive st).2 then l - 1 else l) = countLive pairLive (popLive pairLive st).1 := by
  obtain ⟨h1, h2, k, h3⟩ := popLive_spec pairLive st
  refine ⟨by rw [absPairs_eq, absPairs_eq, h1, List.map_dropLast], by rw [h3]; exact repPairs_take st k hr, ?_⟩
  unfold countLive at hl ⊢
  rw [h1, List.length_dropLast]
  by_cases hp : (popLive pairLive st).2 = true
  · rw [if_pos hp, hl]
  · rw [if_neg hp]
    have : List.filter pairLive st = [] := by
      by_cases h : List.filter pairLive st = []
      · exact h
      · exact absurd (h2.mpr h) hp
    rw [hl, this]; rfl

theorem pop_index (st : List PairM) (ix : Option Index) (hr : repPairs st = true) (hok : ixOk st ix = true) :
    ixOk (popLive pairLive st).1
      (ix.map (fun m => ixPopSlots m (popLive pairLive st).1.length (st.drop (popLive pairLive st).1.length))) = true := by
  obtain ⟨_, _, k, h3⟩ := popLive_spec pairLive st
  have hn : st.take k = st.take (st.take k).length := by
    rcases Nat.le_total k st.length with h | h
    · simp [Nat.min_eq_left h]
    · rw [List.take_of_length_le h]; simp
  rw [h3, hn]
  simpa using ixOk_pop st ix (st.take k).length hr hok

theorem pop_other (t : Tree) (h1 : t.kind ≠ .arr) (h2 : t.kind ≠ .obj) : t.stepHere .pop = (.err .unsupported, t) := by
  cases t <;> simp [Tree.kind] at h1 h2 <;> rfl

theorem here_pop (n : NodeM) (hr : n.repOk = true) (hn : n.isRaw = false) :
    Refines (n.stepHere .pop) (n.abs.stepHere .pop) := by
  have hcr := checkRaw_of_not_raw n hn
  have hka := kind_abs n hr
  simp only [NodeM.stepHere, hcr]
  cases hkd : n.kind with
  | arr =>
    obtain ⟨a1, a2⟩ := skipAll_spec n hr
    obtain ⟨l, st, hshape⟩ := skipAll_arr_shape n hkd hn
    rw [hshape] at a1 a2 ⊢
    simp only [NodeM.repOk, Bool.and_eq_true, decide_eq_true_eq] at a2
    obtain ⟨p1, p2, p3⟩ := pop_elems st l a2.1 a2.2
    rw [← a1]
    exact ⟨rfl, by simp [NodeM.abs, Tree.stepHere, p1], by simp [NodeM.repOk, p2, p3]⟩
  | obj =>
    obtain ⟨a1, a2⟩ := skipAll_spec n hr
    obtain ⟨l, st, ix, hshape⟩ := skipAll_obj_shape n hkd hn
    rw [hshape] at a1 a2 ⊢
    simp only [NodeM.repOk, Bool.and_eq_true, decide_eq_true_eq] at a2
    obtain ⟨⟨a2r, a2l⟩, a2x⟩ := a2
    obtain ⟨p1, p2, p3⟩ := pop_pairs st l a2r a2l
    have p4 := pop_index st ix a2r a2x
    rw [← a1]
    exact ⟨rfl, by simp [NodeM.abs, Tree.stepHere, p1], by simp [NodeM.repOk, p2, p3, p4]⟩
  | gone => exact absurd hkd (kind_ne_gone n hr)
  | null => rw [pop_other _ (by rw [← hka, hkd]; simp) (by rw [← hka, hkd]; simp)]; exact ⟨rfl, rfl, hr⟩
  | bool => rw [pop_other _ (by rw [← hka, hkd]; simp) (by rw [← hka, hkd]; simp)]; exact ⟨rfl, rfl, hr⟩
  | num => rw [pop_other _ (by rw [← hka, hkd]; simp) (by rw [← hka, hkd]; simp)]; exact ⟨rfl, rfl, hr⟩
  | str => rw [pop_other _ (by rw [← hka, hkd]; simp) (by rw [← hka, hkd]; simp)]; exact ⟨rfl, rfl, hr⟩

/-! #### UnsetByIndex -/

theorem unseti_other (t : Tree) (i : Nat) (h1 : t.kind ≠ .arr) (h2 : t.kind ≠ .obj) :
    t.stepHere (.unseti i) = (.err .unsupported, t) := by
  cases t <;> simp [Tree.kind] at h1 h2 <;> rfl

theorem here_unseti (n : NodeM) (i : Nat) (hr : n.repOk = true) (hn : n.isRaw = false) :
    Refines (n.stepHere (.unseti i)) (n.abs.stepHere (.unseti i)) := by
  have hcr := checkRaw_of_not_raw n hn
  have hka := kind_abs n hr
  simp only [NodeM.stepHere, hcr]
  cases hkd : n.kind with
  | arr =>
    obtain ⟨a1, a2⟩ := skipAll_spec n hr
    obtain ⟨l, st, hshape⟩ := skipAll_arr_shape n hkd hn
    rw [hshape] at a1 a2 ⊢
    have a2' := a2
    simp only [NodeM.repOk, Bool.and_eq_true, decide_eq_true_eq] at a2
    have hlen : (absElems st).length = l := by rw [absElems_length, a2.2]
    rw [← a1]
    by_cases hi : i < l
    · obtain ⟨p, x, h1, h2, h3, h4, h5⟩ := slotAt_spec NodeM.live l st i a2.2 hi
      simp only [h1, h2, h3, Bool.not_true, Bool.false_eq_true, if_false]
      by_cases hlast : i = l - 1
      · rw [if_pos hlast]
        obtain ⟨p1, p2, p3⟩ := pop_elems st l a2.1 a2.2
        refine ⟨by simp [NodeM.abs, Tree.stepHere, hlen, hi], ?_, by simp [NodeM.repOk, p2, p3]⟩
        simp only [NodeM.abs, Tree.stepHere, hlen, hi, if_true, p1]
        rw [hlast, ← hlen, List.eraseIdx_length_sub_one]
      · rw [if_neg hlast]
        obtain ⟨k1, k2⟩ := absElems_kill st p x h2 h3
        refine ⟨by simp [NodeM.abs, Tree.stepHere, hlen, hi], ?_, ?_⟩
        · simp only [NodeM.abs, Tree.stepHere, hlen, hi, if_true, k1, h5]
        · simp only [NodeM.repOk, Bool.and_eq_true, decide_eq_true_eq, k2, a2.2, and_true]
          exact repElems_set st p .gone a2.1 (by simp [NodeM.live])
    · have hn := slotAt_none NodeM.live l st i a2.2 (by omega)
      simp only [hn]
      exact ⟨by simp [NodeM.abs, Tree.stepHere, hlen, hi], by simp [NodeM.abs, Tree.stepHere, hlen, hi], a2'⟩
  | obj =>
    obtain ⟨a1, a2⟩ := skipAll_spec n hr
    obtain ⟨l, st, ix, hshape⟩ := skipAll_obj_shape n hkd hn
    rw [hshape] at a1 a2 ⊢
    have a2' := a2
    simp only [NodeM.repOk, Bool.and_eq_true, decide_eq_true_eq] at a2
    obtain ⟨a2, a2x⟩ := a2
    have hlen : (absPairs st).length = l := by rw [absPairs_length, a2.2]
    rw [← a1]
    by_cases hi : i < l
    · obtain ⟨p, x, h1, h2, h3, h4, h5⟩ := slotAt_spec pairLive l st i a2.2 hi
      simp only [h1, h2, h3, Bool.not_true, Bool.false_eq_true, if_false]
      by_cases hlast : i = l - 1
      · rw [if_pos hlast]
        obtain ⟨p1, p2, p3⟩ := pop_pairs st l a2.1 a2.2
        have p4 := pop_index st ix a2.1 a2x
        refine ⟨by simp [NodeM.abs, Tree.stepHere, hlen, hi], ?_, by simp [NodeM.repOk, p2, p3, p4]⟩
        simp only [NodeM.abs, Tree.stepHere, hlen, hi, if_true, p1]
        rw [hlast, ← hlen, List.eraseIdx_length_sub_one]
      · rw [if_neg hlast]
        obtain ⟨k1, k2⟩ := absPairs_kill st p x h2 h3
        refine ⟨by simp [NodeM.abs, Tree.stepHere, hlen, hi], ?_, ?_⟩
        · simp only [NodeM.abs, Tree.stepHere, hlen, hi, if_true, k1, h5]
        · simp only [NodeM.repOk, Bool.and_eq_true, decide_eq_true_eq, k2, a2.2, ixOk_kill st ix p a2x, and_true]
          exact repPairs_set st p deadPair a2.1 (by simp [deadPair, NodeM.live]) (by simp [deadPair])
    · have hn := slotAt_none pairLive l st i a2.2 (by omega)
      simp only [hn]
      exact ⟨by simp [NodeM.abs, Tree.stepHere, hlen, hi], by simp [NodeM.abs, Tree.stepHere, hlen, hi], a2'⟩
  | gone => exact absurd hkd (kind_ne_gone n hr)
  | null => rw [unseti_other _ _ (by rw [← hka, hkd]; simp) (by rw [← hka, hkd]; simp)]; exact ⟨rfl, rfl, hr⟩
  | bool => rw [unseti_other _ _ (by rw [← hka, hkd]; simp) (by rw [← hka, hkd]; simp)]; exact ⟨rfl, rfl, hr⟩
  | num => rw [unseti_other _ _ (by rw [← hka, hkd]; simp) (by rw [← hka, hkd]; simp)]; exact ⟨rfl, rfl, hr⟩
  | str => rw [unseti_other _ _ (by rw [← hka, hkd]; simp) (by rw [← hka, hkd]; simp)]; exact ⟨rfl, rfl, hr⟩

/-! #### Load, Raw, MarshalJSON -/

theorem loadAllOnce_spec (n : NodeM) (h : n.repOk = true) :
    n.loadAllOnce.abs = n.abs ∧ n.loadAllOnce.repOk = true := by
  cases n with
  | arrLazy pre rest =>
    simp only [NodeM.repOk, Bool.and_eq_true] at h
    obtain ⟨⟨hr, hl⟩, _⟩ := h
    have hall := (allLiveElems_iff pre).mp hl
    obtain ⟨c1, c2, c3⟩ := childL_elems rest
    simp [NodeM.loadAllOnce, NodeM.abs, NodeM.repOk, absElems_append, c1, repElems_append, hr, c2,
      countLive_append, countLive_all _ _ hall, countLive_all _ _ c3]
  | objLazy pre rest =>
    simp only [NodeM.repOk, Bool.and_eq_true] at h
    obtain ⟨⟨hr, hl⟩, _⟩ := h
    have hall := (allLivePairs_iff pre).mp hl
    obtain ⟨c1, c2, c3⟩ := lockedPair_pairs rest
    have hr' : repPairs (pre ++ rest.map lockedPair) = true := by simp [repPairs_append, hr, c2]
    have hl' : ∀ p ∈ pre ++ rest.map lockedPair, pairLive p = true := by
      intro p hp
      rcases List.mem_append.mp hp with hp | hp
      · exact hall p hp
      · exact c3 p hp
    obtain ⟨m1, m2⟩ := mkObject_spec _ hr' hl'
    simp [NodeM.loadAllOnce, m1, m2, NodeM.abs, absPairs_append, c1]
  | _ => simp [NodeM.loadAllOnce, h]

theorem here_load (n : NodeM) (hr : n.repOk = true) : Refines (n.stepHere .load) (n.abs.stepHere .load) := by
  cases n with
  | raw v lock =>
    obtain ⟨p1, p2, _⟩ := parse1_spec true v
    exact ⟨rfl, by simp [NodeM.stepHere, p1, NodeM.abs, Tree.stepHere], by simp [NodeM.stepHere, p2]⟩
  | gone => simp [NodeM.repOk] at hr
  | arrLazy pre rest =>
    obtain ⟨l1, l2⟩ := loadAllOnce_spec (.arrLazy pre rest) hr
    exact ⟨rfl, by simp only [NodeM.stepHere, l1, Tree.stepHere], by simp only [NodeM.stepHere, l2]⟩
  | objLazy pre rest =>
    obtain ⟨l1, l2⟩ := loadAllOnce_spec (.objLazy pre rest) hr
    exact ⟨rfl, by simp only [NodeM.stepHere, l1, Tree.stepHere], by simp only [NodeM.stepHere, l2]⟩
  | _ => exact ⟨rfl, rfl, hr⟩

theorem here_raw (n : NodeM) (hr : n.repOk = true) : Refines (n.stepHere .raw) (n.abs.stepHere .raw) := by
  obtain ⟨e1, e2, e3⟩ := encode_spec n hr
  exact ⟨by simp [NodeM.stepHere, Tree.stepHere, e1], by simp [NodeM.stepHere, Tree.stepHere, e2], by simp [NodeM.stepHere, e3]⟩

theorem here_mar (n : NodeM) (hr : n.repOk = true) : Refines (n.stepHere .mar) (n.abs.stepHere .mar) := by
  obtain ⟨e1, e2, e3⟩ := encode_spec n hr
  exact ⟨by simp [NodeM.stepHere, Tree.stepHere, e1], by simp [NodeM.stepHere, Tree.stepHere, e2], by simp [NodeM.stepHere, e3]⟩

end SonicSpec.Ast
