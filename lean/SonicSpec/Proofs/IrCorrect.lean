/-
  Encoder IR, compiler correctness (10): the induction on the value, whole programs, the stack bound.
-/
import SonicSpec.Proofs.IrCallback
namespace SonicSpec.Ir
open SonicSpec SonicSpec.Go SonicSpec.Enc SonicSpec.Json
variable {o : EncOpts} {co : COpts}

theorem ConfL_mem {c0 : COpts} {t : GoType} : ∀ (xs : List GoVal), ConfL c0 t xs = true → ∀ x ∈ xs, Conf c0 t x = true := by
  intro xs
  induction xs with
  | nil => intro _ x hx; cases hx
  | cons y r ih =>
    intro h x hx
    simp only [ConfL, Bool.and_eq_true] at h
    rcases List.mem_cons.mp hx with hx | hx
    · subst hx; exact h.1
    · exact ih h.2 x hx

theorem ConfM_mem {c0 : COpts} {k t : GoType} : ∀ (kvs : List (GoVal × GoVal)), ConfM c0 k t kvs = true → ∀ e ∈ kvs, Conf c0 t e.2 = true := by
  intro kvs
  induction kvs with
  | nil => intro _ e he; cases he
  | cons y r ih =>
    intro h e he
    obtain ⟨a, v⟩ := y
    simp only [ConfM, Bool.and_eq_true] at h
    rcases List.mem_cons.mp he with he | he
    · subst he; exact h.1.2
    · exact ih h.2 e he

/-- interface{}: OP_eface re-enters on the dynamic type (vm.go:192), `null` for the nil interface -/
theorem codeOK_any_nil : CodeOK o co .any .nil := by
  intro lv tab _hlv addr fpv P pc sp pv r s b hat hg _hs
  rw [code] at hat ⊢
  constructor
  · intro j hj res h
    simp only [encV] at hj
    injection hj with hj; subst hj
    exact halts_step (hat.get 0 (by omega) rfl) (by simp only [step, hg]; rfl) (halts_cast h (by simp) rfl rfl rfl)
  · intro e he; simp only [encV] at he; cases he

theorem codeOK_any (T : GoType) (w : GoVal) (ih : CodeOK o co T w) : CodeOK o co .any (.any T w) := by
  intro lv tab _hlv addr fpv P pc sp pv r s b hat hg hs
  rw [code] at hat ⊢
  simp only [needV] at hs
  simp only [encV]
  obtain ⟨cok, cerr⟩ := ih libNames.length [] (Nat.le_of_eq libLeft_nil) false (fpv || false)
    (compile co T (fpv || false)) 0 0 (fpv || false) (Regs.start (.val w)) s b (At.whole _) rfl hs
  have hstep : step o Instr.eface pc r s b = .call T false (.val w) := by simp only [step, hg]
  constructor
  · intro j hj res h
    refine halts_call (hat.get 0 (by omega) rfl) hstep ?_ (halts_cast h (by simp) rfl rfl rfl)
    exact cok j hj _ (halts_done (At.end_none (by unfold compile; simp)))
  · intro e hj
    obtain ⟨h1, h2⟩ := cerr e hj
    exact ⟨h1, halts_callErr (hat.get 0 (by omega) rfl) hstep h2⟩

theorem code_recurse_sl (lib : LibCode) (tab : List GoType) (pc sp : Nat) (pv : Bool) (t : GoType) (h : tabHas tab (.sl t) = true) :
    code co lib tab pc sp pv (.sl t) = [Instr.recurse (.sl t) pv] := by rw [code, if_pos h]
theorem code_recurse_arr (lib : LibCode) (tab : List GoType) (pc sp : Nat) (pv : Bool) (n : Nat) (t : GoType) (h : tabHas tab (.arr n t) = true) :
    code co lib tab pc sp pv (.arr n t) = [Instr.recurse (.arr n t) pv] := by rw [code, if_pos h]
theorem code_recurse_ptr (lib : LibCode) (tab : List GoType) (pc sp : Nat) (pv : Bool) (t : GoType) (h : tabHas tab (.ptr t) = true) :
    code co lib tab pc sp pv (.ptr t) = [Instr.recurse (.ptr t) pv] := by rw [code, if_pos h]
theorem code_recurse_map (lib : LibCode) (tab : List GoType) (pc sp : Nat) (pv : Bool) (k t : GoType) (h : tabHas tab (.map k t) = true) :
    code co lib tab pc sp pv (.map k t) = [Instr.recurse (.map k t) pv] := by rw [code, if_pos h]
theorem code_recurse_st (lib : LibCode) (tab : List GoType) (pc sp : Nat) (pv : Bool) (fs : List (String × Option Bytes × GoType))
    (h : tabHas tab (.st fs) = true) : code co lib tab pc sp pv (.st fs) = [Instr.recurse (.st fs) pv] := by rw [code, if_pos h]
theorem code_recurse_lib (lib : LibCode) (tab : List GoType) (pc sp : Nat) (pv : Bool) (n : String) (h : tabHas tab (.lib n) = true) :
    code co lib tab pc sp pv (.lib n) = [Instr.recurse (.lib n) pv] := by rw [code, if_pos h]

theorem cbPtr_false {t : GoType} (h : cbPtr t = false) (pc : Nat) : cbPtrCode t pc = none := by
  cases t <;> try rfl
  rename_i n
  simp only [cbPtr] at h
  simp only [cbPtrCode]
  cases hk : cbKind n with
  | none => rfl
  | some k => rw [hk] at h; cases h

theorem cbPtr_true {t : GoType} (h : cbPtr t = true) : ∃ n k, t = .lib n ∧ cbKind n = some k := by
  cases t <;> try (cases h; done)
  rename_i n
  simp only [cbPtr] at h
  cases hk : cbKind n with
  | none => rw [hk] at h; cases h
  | some k => exact ⟨n, k, rfl, hk⟩

theorem cbValue_true {n : String} (h : cbValue n = true) : ∃ json, cbKind n = some (json, true) := by
  unfold cbValue at h
  cases hk : cbKind n with
  | none => rw [hk] at h; cases h
  | some k =>
    obtain ⟨json, vr⟩ := k
    rw [hk] at h
    simp only at h
    subst h
    exact ⟨json, rfl⟩

/-- compiler correctness on the sub-universe, by induction on the size of the VALUE (the type may be recursive) -/
theorem code_ok (hco : 0 < co.maxInlineDepth) :
    ∀ (n : Nat) (v : GoVal), sizeOf v < n → ∀ T, Sub T = true → Conf co T v = true → CodeOK o co T v := by
  intro n
  induction n with
  | zero => intro v h; cases h
  | succ n ih =>
    intro v hn T hS hC
    cases T <;> try (simp [Sub] at hS; done)
    case bool => cases v <;> try (simp [Conf] at hC; done)
                 exact codeOK_bool _
    case int => cases v <;> try (simp [Conf] at hC; done)
                exact codeOK_int _ _
    case uint => cases v <;> try (simp [Conf] at hC; done)
                 exact codeOK_uint _ _
    case f32 => cases v <;> try (simp [Conf] at hC; done)
                exact codeOK_f32 _
    case f64 => cases v <;> try (simp [Conf] at hC; done)
                exact codeOK_f64 _
    case str => cases v <;> try (simp [Conf] at hC; done)
                exact codeOK_str _
    case num => cases v <;> try (simp [Conf] at hC; done)
                exact codeOK_num _
    case bytes => exact codeOK_bytes v hC
    case any =>
      cases v <;> try (simp [Conf] at hC; done)
      case nil => exact codeOK_any_nil
      case any T' w =>
        simp only [Conf, Bool.and_eq_true] at hC
        refine codeOK_any T' w (ih w ?_ T' hC.1 hC.2)
        simp only [GoVal.any.sizeOf_spec] at hn
        omega
    case sl t =>
      simp only [Sub] at hS
      refine codeOK_of_nohit (code_recurse_sl (co := co) · · · · · t) ?_
      cases hu : isU8 t with
      | true => exact codeOK_slU8 hu v hC
      | false =>
        cases v <;> try (simp [Conf] at hC; done)
        case nil => exact codeOK_sl_nil hu
        case sl xs =>
          simp only [Conf] at hC
          refine codeOK_sl hu xs (fun x hx => ih x ?_ t hS (ConfL_mem xs hC x hx))
          have := List.sizeOf_lt_of_mem hx
          simp only [GoVal.sl.sizeOf_spec] at hn
          omega
    case arr k t =>
      simp only [Sub] at hS
      refine codeOK_of_nohit (code_recurse_arr (co := co) · · · · · k t) ?_
      cases v <;> try (simp [Conf] at hC; done)
      case arr xs =>
        simp only [Conf, Bool.and_eq_true, beq_iff_eq] at hC
        refine codeOK_arr k xs hC.1 (fun x hx => ih x ?_ t hS (ConfL_mem xs hC.2 x hx))
        have := List.sizeOf_lt_of_mem hx
        simp only [GoVal.arr.sizeOf_spec] at hn
        omega
    case ptr t =>
      simp only [Sub, Bool.or_eq_true] at hS
      refine codeOK_of_nohit (code_recurse_ptr (co := co) · · · · · t) ?_
      cases hcb : cbPtr t with
      | true =>
        obtain ⟨nm, kk, rfl, hkk⟩ := cbPtr_true hcb
        cases v <;> try (simp [Conf] at hC; done)
        case nil => exact codeOK_cbPtr_nil hkk
        case ptr w =>
          simp only [Conf] at hC
          exact codeOK_cbPtr hkk hC
      | false =>
        have hSt : Sub t = true := by
          rcases hS with h | h
          · exact h
          · rw [hcb] at h; cases h
        cases v <;> try (simp [Conf] at hC; done)
        case nil => exact codeOK_ptr_nil t (cbPtr_false hcb)
        case ptr w =>
          simp only [Conf] at hC
          refine codeOK_ptr t (cbPtr_false hcb) w (ih w ?_ t hSt hC)
          simp only [GoVal.ptr.sizeOf_spec] at hn
          omega
    case map k t =>
      simp only [Sub, Bool.and_eq_true] at hS
      refine codeOK_of_nohit (code_recurse_map (co := co) · · · · · k t) ?_
      cases v <;> try (simp [Conf] at hC; done)
      case nil => exact codeOK_map_nil hS.1 t
      case map kvs =>
        simp only [Conf] at hC
        refine codeOK_map hS.1 kvs hC (fun e he => ih e.2 ?_ t hS.2 (ConfM_mem kvs hC e he))
        have h1 := List.sizeOf_lt_of_mem he
        have h2 : sizeOf e.2 < sizeOf e := by
          obtain ⟨a, c⟩ := e
          simp only [Prod.mk.sizeOf_spec]
          omega
        simp only [GoVal.map.sizeOf_spec] at hn
        omega
    case st fs =>
      refine codeOK_of_nohit (code_recurse_st (co := co) · · · · · fs) ?_
      cases v <;> try (simp [Conf] at hC; done)
      case st vs =>
        simp only [GoVal.st.sizeOf_spec] at hn
        refine codeOK_st hco hS hC (fun x hx t hSt hCt => ih x ?_ t hSt hCt) (fun w hw e hSe hCe => ih w ?_ e hSe hCe)
        · have := List.sizeOf_lt_of_mem hx
          omega
        · have := List.sizeOf_lt_of_mem hw
          simp only [GoVal.ptr.sizeOf_spec] at this
          omega
    case lib nm =>
      simp only [Sub, Bool.or_eq_true] at hS
      refine codeOK_of_nohit (code_recurse_lib (co := co) · · · · · nm) ?_
      cases hln : libNames.contains nm with
      | false =>
        have hcv : cbValue nm = true := by
          rcases hS with h | h
          · rw [hln] at h; cases h
          · exact h
        obtain ⟨json, hkk⟩ := cbValue_true hcv
        exact codeOK_cbVal hkk hC
      | true =>
        cases v <;> try (simp [Conf] at hC; done)
        case st vs =>
          simp only [GoVal.st.sizeOf_spec] at hn
          refine codeOK_lib hco hln hC (fun x hx t hSt hCt => ih x ?_ t hSt hCt) (fun w hw e hSe hCe => ih w ?_ e hSe hCe)
          · have := List.sizeOf_lt_of_mem hx
            omega
          · have := List.sizeOf_lt_of_mem hw
            simp only [GoVal.ptr.sizeOf_spec] at this
            omega
        case lib m =>
          obtain ⟨fs, ks, hls, _, _, _⟩ := lib_facts hln
          exfalso
          have hnk : cbKind nm = none := by
            simp [libNames] at hln
            rcases hln with rfl | rfl <;> rfl
          simp [Conf, cbConf] at hC
          cases hct : callbackText nm (.lib m) with
          | none => rw [hct] at hC; simp at hC
          | some mm =>
            simp [libNames] at hln
            rcases hln with rfl | rfl <;> simp [callbackText] at hct

/-! ### whole programs -/

/-- the program of `T`, run from its first instruction on a value of `T` with room on the stack, returns with the
    stack it was given and the specification's text appended - or with the specification's error -/
theorem compile_run (hco : 0 < co.maxInlineDepth) {T : GoType} {v : GoVal}
    (hS : Sub T = true) (hC : Conf co T v = true) (pv fpv : Bool) (s : Stack) (b : Bytes) (hroom : s.length + needV T v ≤ maxStack) :
    Halts o co fpv (compile co T pv) 0 (Regs.start (.val v)) s b
      (match encV o false T v with
       | .ok j => .ok (s, b ++ render j)
       | .error e => .error (.enc e)) := by
  obtain ⟨hok, herr⟩ := code_ok (o := o) hco (sizeOf v + 1) v (Nat.lt_succ_self _) T hS hC libNames.length [] (Nat.le_of_eq libLeft_nil)
    false fpv (compile co T pv) 0 0 pv (Regs.start (.val v)) s b (At.whole _) rfl hroom
  cases hj : encV o false T v with
  | ok j => exact hok j hj _ (halts_done (At.end_none (by unfold compile; simp)))
  | error e => exact (herr e hj).2

/-- one instruction never lets the state stack grow beyond `maxStack` -/
theorem step_stack_le {ins : Instr} {pc : Nat} {r : Regs} {s : Stack} {b : Bytes} {pc' : Nat} {r' : Regs} {s' : Stack} {b' : Bytes}
    (hs : s.length ≤ maxStack) (h : step o ins pc r s b = .next pc' r' s' b') : s'.length ≤ maxStack := by
  cases ins <;> simp only [step, floatOut, jumpIf] at h
  all_goals (repeat' (split at h))
  all_goals first
    | (cases h; done)
    | (injection h with h1 h2 h3 h4; subst h3; first | exact hs | (simp only [List.length_cons] at hs ⊢; omega))


/-- whatever the program, a run that returns leaves at most `maxStack` states on the stack it was given at most `maxStack` of -/
theorem run_stack_le : ∀ (n : Nat) (fpv : Bool) (P : Program) (pc : Nat) (r : Regs) (s : Stack) (b : Bytes) (s' : Stack) (b' : Bytes),
    s.length ≤ maxStack → run o co n fpv P pc r s b = some (.ok (s', b')) → s'.length ≤ maxStack := by
  intro n
  induction n with
  | zero => intro fpv P pc r s b s' b' _ h; rw [run] at h; cases h
  | succ n ih =>
    intro fpv P pc r s b s' b' hs h
    rw [run] at h
    cases hf : P[pc]? with
    | none => rw [hf] at h; simp only at h; injection h with h; injection h with h; injection h with h1 h2; subst h1; exact hs
    | some ins =>
      rw [hf] at h
      simp only at h
      cases hst : step o ins pc r s b with
      | next pc' r' s1 b1 => rw [hst] at h; exact ih _ _ _ _ _ _ _ _ (step_stack_le hs hst) h
      | err e => rw [hst] at h; cases h
      | call T pv c =>
        rw [hst] at h
        simp only at h
        cases hc : run o co n (fpv || pv) (compile co T (fpv || pv)) 0 (Regs.start c) s b with
        | none => rw [hc] at h; cases h
        | some rc =>
          rw [hc] at h
          cases rc with
          | error e => cases h
          | ok sb =>
            obtain ⟨s1, b1⟩ := sb
            simp only at h
            exact ih _ _ _ _ _ _ _ _ (ih _ _ _ _ _ _ _ _ hs hc) h

/-! ### `exec` as a function -/

/-- the machine returns `res` on program `P` and value `v` (with some, hence any larger, amount of fuel) -/
def Exec (o : EncOpts) (co : COpts) (P : Program) (v : GoVal) (res : Except XErr Bytes) : Prop :=
  ∃ n, execFuel n o co P v = some res

theorem exec_unique {o : EncOpts} {co : COpts} {P : Program} {v : GoVal} {a c : Except XErr Bytes}
    (ha : Exec o co P v a) (hc : Exec o co P v c) : a = c := by
  obtain ⟨n, hn⟩ := ha
  obtain ⟨m, hm⟩ := hc
  unfold execFuel at hn hm
  cases h1 : run o co n false P 0 (Regs.start (.val v)) [] [] with
  | none => rw [h1] at hn; cases hn
  | some r1 =>
    cases h2 : run o co m false P 0 (Regs.start (.val v)) [] [] with
    | none => rw [h2] at hm; cases hm
    | some r2 =>
      have := Halts.unique ⟨n, h1⟩ ⟨m, h2⟩
      subst this
      rw [h1] at hn; rw [h2] at hm
      simp only [Option.map] at hn hm
      injection hn with hn; injection hm with hm
      rw [← hn, ← hm]

/-- `exec : Opts → Program → GoVal → Except _ Bytes`, the result of the interpreter (the executable form is `Ir.execFuel`;
    a run that never returns - none exists for compiled programs on the sub-universe - counts as `stuck`) -/
noncomputable def exec (o : EncOpts) (co : COpts) (P : Program) (v : GoVal) : Except XErr Bytes :=
  open Classical in if h : ∃ res, Exec o co P v res then Classical.choose h else .error .stuck

theorem exec_eq_of_fuel {o : EncOpts} {co : COpts} {P : Program} {v : GoVal} {n : Nat} {res : Except XErr Bytes}
    (h : execFuel n o co P v = some res) : exec o co P v = res := by
  have hex : ∃ res, Exec o co P v res := ⟨res, n, h⟩
  unfold exec
  rw [dif_pos hex]
  exact exec_unique (Classical.choose_spec hex) ⟨n, h⟩

/-- the specification's answer in the machine's result type -/
def liftE : Except EErr Bytes → Except XErr Bytes
  | .ok b => .ok b
  | .error e => .error (.enc e)

end SonicSpec.Ir
