/-
  Decoder IR: the bounded value stack (`_MaxStack`): a push beyond the limit is the nesting-depth error, the stack never
  grows beyond the limit, and the bounded machine differs from the unbounded one by that error only.
-/
import SonicSpec.Proofs.DirCorrect
namespace SonicSpec.Dir
open SonicSpec SonicSpec.Go SonicSpec.Json SonicSpec.Bind SonicSpec.Stream

variable {o : DecOpts} {co : COpts}

/-- `_OP_save` on a full value stack is the nesting-depth error (`_stack_error`), whatever else the state is -/
theorem save_full (L : Nat) (enter : Bool) (pc : Nat) (σ : St) (h : L ≤ σ.stack.length) :
    step o (some L) (.save enter) pc σ = .err .depth := by
  simp only [step]
  rw [if_pos (by simpa using h)]

/-- the bounded machine differs from the unbounded one only by that error -/
theorem step_lim (L : Nat) (ins : Instr) (pc : Nat) (σ : St) :
    step o (some L) ins pc σ = step o none ins pc σ ∨ step o (some L) ins pc σ = .err .depth := by
  cases ins with
  | save enter =>
    by_cases h : L ≤ σ.stack.length
    · exact Or.inr (save_full L enter pc σ h)
    · left
      simp only [step]
      rw [if_neg (by simpa using h)]
      simp
  | mapKey k t tgt =>
    left
    cases k <;> cases t <;> first
      | rfl
      | (rename_i K E; cases K <;> first
          | rfl
          | (rename_i K'; cases K' <;> rfl))
  | unmarshalP t f | unmarshal t f =>
    left
    cases t with
    | ptr t' => cases t' <;> rfl
    | _ => rfl
  | _ => exact Or.inl rfl

theorem run_bounded (L : Nat) : ∀ (n : Nat) (P : Program) (pc : Nat) (σ : St) (out : Out),
    run o co (some L) n P pc σ = some out → out = .error .depth ∨ run o co none n P pc σ = some out := by
  intro n
  induction n with
  | zero => intro P pc σ out h; rw [run] at h; cases h
  | succ n ih =>
    intro P pc σ out h
    rw [run] at h
    rw [run]
    cases hf : P[pc]? with
    | none => rw [hf] at h; exact Or.inr h
    | some ins =>
      rw [hf] at h
      simp only at h ⊢
      rcases step_lim (o := o) L ins pc σ with hs | hs
      · rw [hs] at h
        cases hst : step o none ins pc σ with
        | next pc' σ' => rw [hst] at h; simp only at h ⊢; exact ih _ _ _ _ h
        | err e => rw [hst] at h; exact Or.inr h
        | call T =>
          rw [hst] at h
          simp only at h ⊢
          cases hc : run o co (some L) n (compile co T) 0 { σ with et := none } with
          | none => rw [hc] at h; cases h
          | some rc =>
            rw [hc] at h
            rcases ih _ _ _ _ hc with hd | hn
            · subst hd
              simp only at h
              injection h with h
              exact Or.inl h.symm
            · rw [hn]
              cases rc with
              | error e => exact Or.inr h
              | ok σ' => simp only at h ⊢; exact ih _ _ _ _ h
      · rw [hs] at h
        simp only at h
        injection h with h
        exact Or.inl h.symm

theorem skipTo_stack {s : St} {src : Bytes} {tgt pc' : Nat} {s' : St} (h : skipTo o s src tgt = .next pc' s') : s'.stack = s.stack := by
  unfold skipTo at h
  split at h
  · injection h with _ h; rw [← h]
  · cases h

theorem numOp_stack {T : GoType} {pc pc' : Nat} {s s' : St} (h : numOp o T pc s = .next pc' s') : s'.stack = s.stack := by
  unfold numOp at h
  split at h
  · split at h
    · cases h
    · split at h
      · cases h
      · simp only at h
        split at h
        · injection h with _ h; rw [← h]; rfl
        · split at h
          · cases h
          · injection h with _ h; rw [← h]
  · exact (skipTo_stack h).trans rfl

theorem skipKV_stack {s : St} {src : Bytes} {tgt pc' : Nat} {s' : St} (h : skipKV o s src tgt = .next pc' s') : s'.stack = s.stack := by
  unfold skipKV at h
  repeat' (split at h)
  all_goals first
    | (cases h; done)
    | (injection h with _ h; subst h; rfl)

theorem mapEntry_stack {s : St} {k : GoVal} {E : GoType} {r : Bytes} {pc pc' : Nat} {s' : St} (h : mapEntry s k E r pc = .next pc' s') :
    s'.stack = s.stack := by
  unfold mapEntry at h
  repeat' (split at h)
  all_goals first
    | (cases h; done)
    | (injection h with _ h; subst h; rfl)

theorem intKeyOp_stack {b : Bool} {w : Nat} {E : GoType} {tgt pc pc' : Nat} {s s' : St} (h : intKeyOp o b w E tgt pc s = .next pc' s') :
    s'.stack = s.stack := by
  unfold intKeyOp at h
  repeat' (split at h)
  all_goals first
    | (cases h; done)
    | exact (skipKV_stack h).trans rfl
    | exact mapEntry_stack h

theorem floatKeyOp_stack {K E : GoType} {tgt pc pc' : Nat} {s s' : St} (h : floatKeyOp o K E tgt pc s = .next pc' s') :
    s'.stack = s.stack := by
  unfold floatKeyOp at h
  repeat' (split at h)
  all_goals first
    | (cases h; done)
    | exact (skipKV_stack h).trans rfl
    | exact mapEntry_stack h

theorem textKeyOp_stack {n : String} {b : Bool} {E : GoType} {pc pc' : Nat} {s s' : St} (h : textKeyOp n b E pc s = .next pc' s') :
    s'.stack = s.stack := by
  unfold textKeyOp at h
  repeat' (split at h)
  all_goals first
    | (cases h; done)
    | exact mapEntry_stack h

/-- no instruction takes a value stack of at most `L` slots beyond `L` -/
theorem step_stack_le (L : Nat) (ins : Instr) (pc pc' : Nat) (σ σ' : St) (hs : σ.stack.length ≤ L)
    (h : step o (some L) ins pc σ = .next pc' σ') : σ'.stack.length ≤ L := by
  cases ins with
  | save enter =>
    simp only [step] at h
    split at h
    · cases h
    · rename_i hlt
      injection h with _ h; rw [← h]
      simp only [List.length_cons]
      simp at hlt
      omega
  | drop =>
    simp only [step] at h
    split at h
    · rename_i f rest hst
      injection h with _ h; rw [← h]
      simp only
      rw [hst] at hs; simp at hs; omega
    · cases h
  | drop2 =>
    simp only [step] at h
    split at h
    · rename_i f1 f rest hst
      injection h with _ h; rw [← h]
      simp only
      rw [hst] at hs; simp at hs; omega
    · cases h
  | sliceAppend t =>
    simp only [step] at h
    split at h
    · rename_i f rest hst
      split at h
      · injection h with _ h; rw [← h]
        simp only [List.length_cons]
        rw [hst] at hs; simpa using hs
      · cases h
    · cases h
  | i8 | i16 | i32 | i64 | u8 | u16 | u32 | u64 | f32 | f64 => simp only [step] at h; rw [numOp_stack h]; exact hs
  | goSkip t => simp only [step] at h; rw [skipTo_stack h]; exact hs
  | objectNext => simp only [step] at h; rw [skipTo_stack h]; exact hs
  | recurse t => simp only [step] at h; cases h
  | bin | emptyBytes | debug => cases h
  | dyn t f | unmarshalText t f | unmarshalTextP t f => cases h
  | unmarshalP t f | unmarshal t f =>
    cases t with
    | ptr t' =>
      cases t' with
      | lib n =>
        simp only [step] at h
        repeat' (split at h)
        all_goals first
          | (cases h; done)
          | (injection h with _ h; rw [← h]; exact hs)
      | _ => cases h
    | _ => cases h
  | mapKey k t tgt =>
    cases k with
    | utext | utextP =>
      cases t with
      | map K E =>
        cases K with
        | lib n =>
          first
            | (cases h; done)
            | (simp only [step] at h; rw [textKeyOp_stack h]; exact hs)
        | ptr K' =>
          cases K' with
          | lib n =>
            first
              | (cases h; done)
              | (simp only [step] at h; rw [textKeyOp_stack h]; exact hs)
          | _ => cases h
        | _ => cases h
      | _ => cases h
    | _ =>
      cases t <;> try (cases h; done)
      all_goals simp only [step] at h
      all_goals first
        | (rw [intKeyOp_stack h]; exact hs)
        | (rw [floatKeyOp_stack h]; exact hs)
        | skip
      repeat' (split at h)
      all_goals first
        | (cases h; done)
        | (injection h with _ h; rw [← h]; exact hs)
  | _ =>
    simp only [step] at h
    repeat' (split at h)
    all_goals first
      | (cases h; done)
      | (injection h with _ h; rw [← h]; exact hs)
      | (rw [(skipTo_stack h).trans rfl]; exact hs)

/-- neither does a whole run, calls through `_OP_recurse` included: `_Stack.sb[_MaxStack]` is never indexed out of bounds -/
theorem run_stack_le (L : Nat) : ∀ (n : Nat) (P : Program) (pc : Nat) (σ σ' : St),
    σ.stack.length ≤ L → run o co (some L) n P pc σ = some (.ok σ') → σ'.stack.length ≤ L := by
  intro n
  induction n with
  | zero => intro P pc σ σ' _ h; rw [run] at h; cases h
  | succ n ih =>
    intro P pc σ σ' hs h
    rw [run] at h
    cases hf : P[pc]? with
    | none => rw [hf] at h; injection h with h; injection h with h; rw [← h]; exact hs
    | some ins =>
      rw [hf] at h
      simp only at h
      cases hst : step o (some L) ins pc σ with
      | next pc' σ1 => rw [hst] at h; simp only at h; exact ih _ _ _ _ (step_stack_le L ins pc pc' σ σ1 hs hst) h
      | err e => rw [hst] at h; cases h
      | call T =>
        rw [hst] at h
        simp only at h
        cases hc : run o co (some L) n (compile co T) 0 { σ with et := none } with
        | none => rw [hc] at h; cases h
        | some rc =>
          rw [hc] at h
          cases rc with
          | error e => cases h
          | ok σ1 =>
            simp only at h
            have h1 : σ1.stack.length ≤ L := ih (compile co T) 0 { σ with et := none } σ1 hs hc
            exact ih P (pc + 1) { σ1 with vp := σ.vp, et := merge σ.et σ1.et, sr := σ.sr } σ' h1 h

end SonicSpec.Dir
