/-
  Helper lemmas for C19: `fmtBits` is total on finite bit patterns (the shortest digits exist, and both
  layouts parse back to the same float).
-/
import SonicSpec.Proofs.NumLayout
namespace SonicSpec.Num

/-- further side conditions of a format, for formatting: the exponent field is `ebits` wide and 17
    significant digits are enough (`2^p < 10^16`) -/
structure Fmt.Fin (f : Fmt) : Prop where
  tmax_eq : f.tmax + 3 = 2 ^ f.ebits
  p16 : 2 ^ f.prec < 10 ^ 16

theorem f64_fin : f64.Fin := ⟨by decide, by decide⟩
theorem f32_fin : f32.Fin := ⟨by decide, by decide⟩

/-- stripping trailing zeros keeps the value -/
theorem stripZeros_spec : ∀ (fuel d : Nat) (j : Int), d ≠ 0 →
    (stripZeros fuel d j).1 ≠ 0 ∧ (stripZeros fuel d j).1 ≤ d ∧
      ∃ k : Nat, (stripZeros fuel d j).2 = j + k ∧ d = (stripZeros fuel d j).1 * 10 ^ k
  | 0, d, j, h => ⟨h, Nat.le_refl _, 0, by simp [stripZeros], by simp [stripZeros]⟩
  | fuel + 1, d, j, h => by
    simp only [stripZeros]
    split
    · rename_i hc
      have hd10 : d / 10 ≠ 0 := by omega
      obtain ⟨a, a2, k, b, c⟩ := stripZeros_spec fuel (d / 10) (j + 1) hd10
      refine ⟨a, by omega, k + 1, by rw [b]; omega, ?_⟩
      have : d = d / 10 * 10 := by omega
      rw [Nat.pow_succ, ← Nat.mul_assoc, ← c]; exact this
    · exact ⟨h, Nat.le_refl _, 0, by simp, by simp⟩

/-- two spellings of one decimal value round alike -/
theorem roundDec_congr (f : Fmt) (hf : f.Ok) (m1 : Nat) (e1 : Int) (m2 : Nat) (e2 : Int) (s : Nat)
    (h1 : 0 ≤ e1 + s) (h2 : 0 ≤ e2 + s) (heq : m1 * 10 ^ (e1 + s).toNat = m2 * 10 ^ (e2 + s).toNat)
    (hm1 : m1 ≠ 0) (hm2 : m2 ≠ 0) (q t : Nat) (hr : roundDec f m1 e1 = some (q, t)) :
    roundDec f m2 e2 = some (q, t) := by
  obtain ⟨r1, r2, r3⟩ := roundDec_spec f hf m1 e1 hm1 q t hr
  have hD1 : 0 < (scale m1 e1).2 := Nat.pos_of_ne_zero (scale_den_ne_zero _ _)
  refine roundDec_complete f hf m2 e2 hm2 q t r2 r3 _ _ hD1 ?_ r1
  exact Nat.le_antisymm
    (dec_le_of_shift m2 e2 m1 e1 s (2 ^ f.bias) h2 h1 (Nat.le_of_eq heq.symm))
    (dec_le_of_shift m1 e1 m2 e2 s (2 ^ f.bias) h1 h2 (Nat.le_of_eq heq))

theorem parseInt1_some_head (neg : Bool) (s : Bytes) (d : Dec) (h : parseInt1 neg s = some d) :
    ∀ r, s ≠ 45 :: r := by
  intro r hs
  subst hs
  simp [parseInt1] at h

/-- a sign in front of what `parseInt1` reads -/
theorem parseDec_sign (neg : Bool) (s : Bytes) (d : Dec) (h : parseInt1 neg s = some d) :
    parseDec ((if neg then [45] else []) ++ s) = some d := by
  cases neg with
  | true => simpa [parseDec] using h
  | false =>
    simp only [Bool.false_eq_true, if_false, List.nil_append]
    unfold parseDec
    split
    · rename_i r
      exact absurd rfl (parseInt1_some_head false _ d h r)
    · exact h

/-- fields of finite magnitude bits: the pair is canonical, finite, and packs back -/
theorem unpack_spec (f : Fmt) (hf : f.Ok) (hfin : f.Fin) (mag : Nat)
    (hE : (fields f mag).1 < 2 ^ f.ebits - 1) :
    Canonical f.prec (unpack f mag).1 (unpack f mag).2 ∧ (unpack f mag).2 ≤ f.tmax ∧
      packBits f (unpack f mag).1 (unpack f mag).2 = mag ∧ (mag ≠ 0 → (unpack f mag).1 ≠ 0) := by
  have hK := two_pow_eq_double f.prec hf.prec_pos
  have hH : 0 < 2 ^ (f.prec - 1) := Nat.two_pow_pos _
  have h1 := Nat.div_add_mod mag (2 ^ (f.prec - 1))
  have h2 := Nat.mod_lt mag hH
  have ht := hfin.tmax_eq
  simp only [fields] at hE
  simp only [unpack, fields, packBits, Canonical]
  by_cases hE0 : mag / 2 ^ (f.prec - 1) = 0
  · simp only [hE0, ↓reduceIte]
    rw [hE0] at h1
    simp only [Nat.mul_zero, Nat.zero_add] at h1
    generalize 2 ^ (f.prec - 1) = H at *
    refine ⟨⟨by omega, fun h => absurd h (by decide)⟩, by omega, by omega, by omega⟩
  · simp only [hE0, ↓reduceIte]
    generalize 2 ^ (f.prec - 1) = H at *
    generalize mag / H = E at *
    generalize mag % H = M at *
    generalize 2 ^ f.ebits = X at *
    have e : (E - 1) * H + H = E * H := by
      obtain ⟨E', rfl⟩ : ∃ E', E = E' + 1 := ⟨E - 1, by omega⟩
      rw [Nat.add_sub_cancel, Nat.add_mul, Nat.one_mul]
    have e2 : H * E = E * H := Nat.mul_comm _ _
    refine ⟨⟨by omega, fun _ => by omega⟩, by omega, by omega, fun _ => by omega⟩

theorem toBits_of_parse (f : Fmt) (txt : Bytes) (d : Dec) (q t : Nat) (hp : parseDec txt = some d)
    (hr : roundDec f d.m d.e = some (q, t)) :
    toBits f txt = .ok (packBits f q t + (if d.neg then signBit f else 0)) := by
  simp [toBits, hp, hr]

/-- what the digit search returns rounds back and is not zero -/
theorem shortest_rounds (f : Fmt) (q t : Nat) (hq : q ≠ 0) (c : Nat × Int) (h : shortest f q t = some c) :
    roundDec f c.1 c.2 = some (q, t) ∧ c.1 ≠ 0 := by
  simp only [shortest] at h
  split at h
  · obtain ⟨k', _, _, _, h4, _⟩ := searchDigits_spec f q t _ _ _ 17 1 c h
    have hr : roundDec f c.1 c.2 = some (q, t) := by simpa [roundsTo] using h4
    refine ⟨hr, ?_⟩
    intro h0
    rw [h0, roundDec_zero] at hr
    simp only [Option.some.injEq, Prod.mk.injEq] at hr
    exact hq hr.1.symm
  · cases h

/-- the text produced for a finite bit pattern parses back to the same bits -/
theorem fmtBitsRaw_spec (f : Fmt) (hf : f.Ok) (hfin : f.Fin) (th : Thresh) (bits : Nat)
    (hb : bits < 2 * signBit f) (hfinite : (fields f (bits % signBit f)).1 ≠ 2 ^ f.ebits - 1) :
    ∃ txt, fmtBitsRaw f th bits = some txt ∧ toBits f txt = .ok bits := by
  have hsb : 0 < signBit f := Nat.two_pow_pos _
  have hdm := Nat.div_add_mod bits (signBit f)
  have hml := Nat.mod_lt bits hsb
  have hdiv : bits / signBit f < 2 := (Nat.div_lt_iff_lt_mul hsb).mpr hb
  -- exponent field below all-ones
  have hE : (fields f (bits % signBit f)).1 < 2 ^ f.ebits - 1 := by
    have h1 : (fields f (bits % signBit f)).1 < 2 ^ f.ebits := by
      simp only [fields]
      apply (Nat.div_lt_iff_lt_mul (Nat.two_pow_pos _)).mpr
      have : signBit f = 2 ^ f.ebits * 2 ^ (f.prec - 1) := by
        simp only [signBit]; rw [Nat.pow_add, Nat.mul_comm]
      omega
    omega
  obtain ⟨u1, u2, u3, u4⟩ := unpack_spec f hf hfin (bits % signBit f) hE
  -- bits = mag + sign
  have hbits : ∀ x, x = bits % signBit f →
      x + (if decide (bits / signBit f % 2 = 1) = true then signBit f else 0) = bits := by
    intro x hx
    have hd01 : bits / signBit f = 0 ∨ bits / signBit f = 1 :=
      (fun (n : Nat) (hn : n < 2) => (by omega : n = 0 ∨ n = 1)) _ hdiv
    rcases hd01 with h | h
    · rw [h] at hdm ⊢
      simp only [Nat.mul_zero, Nat.zero_add] at hdm
      simp only [Nat.zero_mod, Nat.zero_ne_one, decide_false, Bool.false_eq_true, if_false]
      omega
    · rw [h] at hdm ⊢
      simp only [Nat.mul_one] at hdm
      simp only [Nat.one_mod, decide_true, if_true]
      omega
  simp only [fmtBitsRaw, if_neg hfinite]
  by_cases hmag : bits % signBit f = 0
  · simp only [if_pos hmag]
    refine ⟨_, rfl, ?_⟩
    have hp : parseInt1 (decide (bits / signBit f % 2 = 1)) [48] =
        some { neg := decide (bits / signBit f % 2 = 1), m := 0, e := 0, isInt := true } := by
      simp [parseInt1, parseFrac, parseExp]
    have hpd := parseDec_sign _ _ _ hp
    simp only [decide_eq_true_eq] at hpd
    rw [toBits_of_parse f _ _ 0 0 hpd (roundDec_zero f 0)]
    have := hbits 0 hmag.symm
    simp only [packBits, Nat.zero_mul, Nat.add_zero] at this ⊢
    rw [this]
  · simp only [if_neg hmag]
    obtain ⟨c, hc⟩ := shortest_isSome f hf _ _ u1 u2 (u4 hmag) hfin.p16
    obtain ⟨d0, j0⟩ := c
    obtain ⟨hr0, hd0⟩ := shortest_rounds f _ _ (u4 hmag) _ hc
    rw [hc]
    simp only
    obtain ⟨s1, _, k, s2, s3⟩ := stripZeros_spec 20 d0 j0 hd0
    generalize hdj : stripZeros 20 d0 j0 = dj at *
    obtain ⟨d, j⟩ := dj
    simp only at s1 s2 s3
    -- the stripped decimal rounds alike
    have hr : roundDec f d j = some ((unpack f (bits % signBit f)).1, (unpack f (bits % signBit f)).2) := by
      refine roundDec_congr f hf d0 j0 d j (-j0).toNat (by omega) (by omega) ?_ hd0 s1 _ _ hr0
      have : (j + ((-j0).toNat : Nat)).toNat = k + (j0 + ((-j0).toNat : Nat)).toNat := by omega
      rw [this, Nat.pow_add, s3]; ac_rfl
    have hdp : ((natDigits d).length : Int) + j - ((natDigits d).length : Int) = j := by omega
    have fin : ∀ (txt : Bytes) (m : Nat) (e : Int) (isI : Bool),
        parseInt1 (decide (bits / signBit f % 2 = 1)) txt =
          some { neg := decide (bits / signBit f % 2 = 1), m := m, e := e, isInt := isI } →
        roundDec f m e = some ((unpack f (bits % signBit f)).1, (unpack f (bits % signBit f)).2) →
        toBits f ((if bits / signBit f % 2 = 1 then [45] else []) ++ txt) = .ok bits := by
      intro txt m e isI hp hre
      have hpd := parseDec_sign _ _ _ hp
      simp only [decide_eq_true_eq] at hpd
      rw [toBits_of_parse f _ _ _ _ hpd hre, u3]
      exact congrArg _ (hbits _ rfl)
    split
    · refine ⟨_, rfl, ?_⟩
      have hp := parse_fmtE (decide (bits / signBit f % 2 = 1)) d s1 (((natDigits d).length : Int) + j)
      rw [hdp] at hp
      exact fin _ _ _ _ hp hr
    · refine ⟨_, rfl, ?_⟩
      obtain ⟨m, e, isI, hp, hme⟩ := parse_fmtF (decide (bits / signBit f % 2 = 1)) d s1 (((natDigits d).length : Int) + j)
      rw [hdp] at hme
      rcases hme with ⟨rfl, rfl⟩ | ⟨hj, rfl, rfl⟩
      · exact fin _ _ _ _ hp hr
      · refine fin _ _ _ _ hp ?_
        refine roundDec_congr f hf d j _ 0 0 (by omega) (by omega) ?_ s1 ?_ _ _ hr
        · simp
        · exact Nat.ne_of_gt (Nat.mul_pos (Nat.pos_of_ne_zero s1) (pow10_pos _))

/-- `fmtBits` is total on finite bit patterns of the format's width -/
theorem fmtBits_isSome (f : Fmt) (hf : f.Ok) (hfin : f.Fin) (th : Thresh) (bits : Nat)
    (hb : bits < 2 * signBit f) (hfinite : (fields f (bits % signBit f)).1 ≠ 2 ^ f.ebits - 1) :
    ∃ txt, fmtBits f th bits = some txt := by
  obtain ⟨txt, h1, h2⟩ := fmtBitsRaw_spec f hf hfin th bits hb hfinite
  exact ⟨txt, by simp [fmtBits, h1, h2]⟩

end SonicSpec.Num
