/-
  C16 - preservation of the invariant: atomic load/store of t, reads of m, the writes of `assign`,
  the mutex operations (helper lemmas).
-/
import SonicSpec.Proofs.RWStep
namespace SonicSpec.RW

variable {pf : Bool}

theorem KnowOK.transfer {sh sh' : Sh} {th th' : Th} {a a' : Abs} (h : KnowOK sh th a)
    (hk : a'.k = a.k) (hlk : a'.lk = true → a.lk = true)
    (ht : sh'.t = sh.t) (htg : sh'.tg = sh.tg) (hh : sh'.hist = sh.hist)
    (htv : th'.tv = th.tv) (hhb : ∀ x ∈ th.hb, x ∈ th'.hb) : KnowOK sh' th' a' := by
  have hall : ∀ g, NonRawFacts sh th g → NonRawFacts sh' th' g := by
    intro g ⟨h1, h2, h3⟩
    refine ⟨by rw [ht]; exact h1, by rw [htg]; exact h2, ?_⟩
    intro b hb hbw
    rw [hh] at hb
    exact hhb _ (h3 b hb hbw)
  have hraw : ∀ g, RawFacts sh a g → RawFacts sh' a' g := by
    intro g hg hl; rw [ht, htg]; exact hg (hlk hl)
  unfold KnowOK at h ⊢
  rw [htv, hk]
  cases hka : a.k <;> rw [hka] at h <;> simp only at h ⊢
  · exact h
  · obtain ⟨v, g, h1, h2, h3⟩ := h
    exact ⟨v, g, h1, fun hv => hraw g (h2 hv), fun hv => hall g (h3 hv)⟩
  · obtain ⟨g, h1, h2⟩ := h
    exact ⟨g, h1, hraw g h2⟩
  · obtain ⟨v, g, h1, h2, h3⟩ := h
    exact ⟨v, g, h1, h2, hall g h3⟩

theorem viewOK_congr {th th' : Th} (h : th.viewOK = true) (h1 : th'.tv = th.tv) (h2 : th'.lg = th.lg)
    (h3 : th'.pg = th.pg) : th'.viewOK = true := by
  unfold Th.viewOK at h ⊢
  rw [h1, h2, h3]; exact h

/-! ### read of m -/

theorem inv_readM {s : State} {i : Nat} {th : Th} {a : Abs} {K : Prog}
    (hI : Inv pf s) (hth : s.ths[i]? = some th) (hok : ThOK i s.sh th a)
    (hK : safe pf { a with mread := true } K = true) :
    Inv pf ⟨(execOp i s.sh th .readM K).1, s.ths.set i (execOp i s.sh th .readM K).2⟩ := by
  have hG := hI.1
  simp only [execOp]
  apply inv_update hI hth
  · apply glob_read hG hth
    · intro b hb hcf
      obtain ⟨h1, _, h3, _⟩ := conflict_read hcf
      exact absurd h1 (hG.wrNotM b hb h3)
    · intro h; cases h
    · intro _ _ h; exact absurd rfl h
    · intro x hx
      rcases hx with hx | hx
      · rw [hx]; exact List.mem_cons_self
      · exact List.mem_cons_of_mem _ hx
  · refine ⟨_, hK, ?_⟩
    have h1 : ThOK i (s.sh.record th.hb (mkAcc i .m false false s.sh))
        { th with prog := K, mv := s.sh.m, hb := (mkAcc i .m false false s.sh).id :: th.hb } a := by
      apply hok.read_step (sh' := s.sh.record th.hb (mkAcc i .m false false s.sh))
        (th' := { th with prog := K, mv := s.sh.m, hb := (mkAcc i .m false false s.sh).id :: th.hb })
        (acc := mkAcc i .m false false s.sh) rfl rfl rfl rfl rfl rfl rfl rfl rfl rfl
      · intro x hx; exact List.mem_cons_of_mem _ hx
      · rfl
      · intro _; exact hG.m
      · rfl
      · exact viewOK_congr hok.view rfl rfl rfl
    exact { h1 with mread := fun _ => hG.m, know := h1.know }
  · intro j thj aj _ _ hj
    exact hj.frame_read (sh' := s.sh.record th.hb (mkAcc i .m false false s.sh)) (acc := mkAcc i .m false false s.sh) rfl rfl rfl rfl rfl rfl rfl rfl rfl

/-! ### atomic load of t -/

theorem inv_loadT {s : State} {i : Nat} {th : Th} {a a' : Abs} {K : Prog}
    (hI : Inv pf s) (hth : s.ths[i]? = some th) (hok : ThOK i s.sh th a)
    (habs : absOp a .loadT = some a') (hK : safe pf a' K = true) :
    Inv pf ⟨(execOp i s.sh th .loadT K).1, s.ths.set i (execOp i s.sh th .loadT K).2⟩ := by
  have hG := hI.1
  simp only [execOp]
  apply inv_update hI hth
  · apply glob_read hG hth
    · intro b hb hcf
      obtain ⟨h1, _, h3, h4⟩ := conflict_read hcf
      have := hG.wrAtomicT b hb h3 h1
      rcases h4 with h4 | h4
      · rw [this] at h4; cases h4
      · cases h4
    · intro _; rfl
    · intro _ h; cases h
    · intro x hx
      apply List.mem_append_right
      rcases hx with hx | hx
      · rw [hx]; exact List.mem_cons_self
      · exact List.mem_cons_of_mem _ hx
  · refine ⟨a', hK, ?_⟩
    simp only [absOp] at habs
    have hview : ∀ th' : Th, th'.tv = some (s.sh.t, s.sh.tg) → th'.lg = none → th'.pg = none → th'.viewOK = true := by
      intro th' h1 h2 h3
      apply viewOK_of (v := s.sh.t) (g := s.sh.tg) h1 (Or.inl h2) (Or.inl h3)
      · intro h; exact (hG.gRaw h).1
      · intro h; exact (hG.gParsed h).1
    have htvok : ∀ v g, some (s.sh.t, s.sh.tg) = some (v, g) → v ≠ .err := by
      intro v g h; injection h with h; injection h with h1 _; rw [← h1]; exact hG.noerr
    have hsub : ∀ x ∈ th.hb, x ∈ s.sh.relT ++ ((mkAcc i .t false true s.sh).id :: th.hb) :=
      fun x hx => List.mem_append_right _ (List.mem_cons_of_mem _ hx)
    split at habs
    · cases habs
    · split at habs
      · -- already known to be non-raw: nothing changes abstractly
        rename_i hk
        cases habs
        have hk : a.k = .nonraw := by simpa using hk
        have hkn := hok.know
        unfold KnowOK at hkn
        rw [hk] at hkn
        obtain ⟨v, g, h1, h2, h3, h4, h5⟩ := hkn
        refine { hW := hok.hW, hR := hok.hR, lkHeld := hok.lkHeld, wlw := hok.wlw, wlH := hok.wlH,
                 wpH := hok.wpH, wcH := hok.wcH, nofault := hok.nofault, mread := hok.mread, lv := hok.lv, tvok := htvok,
                 know := ?_, view := hview _ rfl rfl rfl }
        unfold KnowOK
        rw [hk]
        refine ⟨s.sh.t, s.sh.tg, rfl, h3, h3, rfl, ?_⟩
        intro b hb hbw
        simp only [Sh.record] at hb
        rcases List.mem_cons.mp hb with rfl | hb
        · simp [mkAcc] at hbw
        · exact hsub _ (h5 b hb hbw)
      · cases habs
        refine { hW := hok.hW, hR := hok.hR, lkHeld := ?_, wlw := hok.wlw, wlH := hok.wlH,
                 wpH := hok.wpH, wcH := hok.wcH, nofault := hok.nofault, mread := hok.mread, lv := hok.lv, tvok := htvok,
                 know := ?_, view := hview _ rfl rfl rfl }
        · intro h
          simp only [Bool.or_eq_true] at h
          exact h
        · unfold KnowOK
          simp only
          refine ⟨s.sh.t, s.sh.tg, rfl, ?_, ?_⟩
          · intro hv _; exact ⟨hv, rfl⟩
          · intro hv
            refine ⟨hv, rfl, ?_⟩
            intro b hb hbw
            simp only [Sh.record] at hb
            rcases List.mem_cons.mp hb with rfl | hb
            · simp [mkAcc] at hbw
            · exact List.mem_append_left _ (hG.hbT hv b hb hbw)
  · intro j thj aj _ _ hj
    exact hj.frame_read (sh' := s.sh.record th.hb (mkAcc i .t false true s.sh)) (acc := mkAcc i .t false true s.sh) rfl rfl rfl rfl rfl rfl rfl rfl rfl

end SonicSpec.RW
