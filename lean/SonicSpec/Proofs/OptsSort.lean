/-
  Helper lemmas of the C18 work package, part 2 (core Lean only): bytewise order is a total preorder,
  stable insertion sort (permutation, sortedness, fixed point on sorted lists), SortMapKeys on trees
  (idempotent, result sorted), number retagging, field matching.
-/
import SonicSpec.Model.Opts
namespace SonicSpec.Opts
open SonicSpec SonicSpec.Json

/-! ### 3. bytewise order and insertion sort -/

theorem lexLe_total : ∀ a b : Bytes, lexLe a b = true ∨ lexLe b a = true
  | [], _ => Or.inl (by simp [lexLe])
  | _ :: _, [] => Or.inr (by simp [lexLe])
  | x :: xs, y :: ys => by
    simp only [lexLe, Bool.or_eq_true, decide_eq_true_eq, Bool.and_eq_true, beq_iff_eq]
    rcases Nat.lt_trichotomy x.toNat y.toNat with h | h | h
    · exact Or.inl (Or.inl (UInt8.lt_iff_toNat_lt.mpr h))
    · have e : x = y := UInt8.toNat_inj.mp h
      subst e
      rcases lexLe_total xs ys with h | h
      · exact Or.inl (Or.inr ⟨rfl, h⟩)
      · exact Or.inr (Or.inr ⟨rfl, h⟩)
    · exact Or.inr (Or.inl (UInt8.lt_iff_toNat_lt.mpr h))

theorem lexLe_trans : ∀ a b c : Bytes, lexLe a b = true → lexLe b c = true → lexLe a c = true
  | [], _, _, _, _ => by simp [lexLe]
  | _ :: _, [], _, h, _ => by simp [lexLe] at h
  | _ :: _, _ :: _, [], _, h => by simp [lexLe] at h
  | x :: xs, y :: ys, z :: zs, h1, h2 => by
    simp only [lexLe, Bool.or_eq_true, decide_eq_true_eq, Bool.and_eq_true, beq_iff_eq] at h1 h2 ⊢
    rcases h1 with h1 | ⟨e1, h1⟩
    · rcases h2 with h2 | ⟨e2, _⟩
      · exact Or.inl (UInt8.lt_iff_toNat_lt.mpr (Nat.lt_trans (UInt8.lt_iff_toNat_lt.mp h1) (UInt8.lt_iff_toNat_lt.mp h2)))
      · subst e2; exact Or.inl h1
    · subst e1
      rcases h2 with h2 | ⟨e2, h2⟩
      · exact Or.inl h2
      · subst e2; exact Or.inr ⟨rfl, lexLe_trans xs ys zs h1 h2⟩

theorem keyLe_total (a b : Member) : keyLe a b = true ∨ keyLe b a = true := lexLe_total _ _
theorem keyLe_trans (a b c : Member) : keyLe a b = true → keyLe b c = true → keyLe a c = true := lexLe_trans _ _ _

/-- members in bytewise order of their (decoded) keys -/
def Sorted (l : List Member) : Prop := l.Pairwise (fun a b => keyLe a b = true)

theorem insertM_perm (x : Member) : ∀ l, (insertM x l).Perm (x :: l)
  | [] => List.Perm.refl _
  | y :: ys => by
    unfold insertM
    split
    · exact List.Perm.refl _
    · exact ((insertM_perm x ys).cons y).trans (List.Perm.swap x y ys)

theorem isort_perm : ∀ l, (isort l).Perm l
  | [] => List.Perm.refl _
  | x :: xs => (insertM_perm x (isort xs)).trans ((isort_perm xs).cons x)

theorem insertM_sorted (x : Member) : ∀ l, Sorted l → Sorted (insertM x l)
  | [], _ => by simp [insertM, Sorted]
  | y :: ys, h => by
    unfold insertM
    have hy : ∀ z ∈ ys, keyLe y z = true := (List.pairwise_cons.mp h).1
    have hys : Sorted ys := (List.pairwise_cons.mp h).2
    split
    · rename_i hxy
      refine List.pairwise_cons.mpr ⟨?_, h⟩
      intro z hz
      rcases List.mem_cons.mp hz with rfl | hz
      · exact hxy
      · exact keyLe_trans x y z hxy (hy z hz)
    · rename_i hxy
      have hyx : keyLe y x = true := (keyLe_total x y).resolve_left hxy
      refine List.pairwise_cons.mpr ⟨?_, insertM_sorted x ys hys⟩
      intro z hz
      rcases List.mem_cons.mp ((insertM_perm x ys).subset hz) with rfl | hz
      · exact hyx
      · exact hy z hz

theorem isort_sorted : ∀ l, Sorted (isort l)
  | [] => List.Pairwise.nil
  | x :: xs => insertM_sorted x _ (isort_sorted xs)

theorem insertM_of_sorted (x : Member) (l : List Member) (h : Sorted (x :: l)) : insertM x l = x :: l := by
  cases l with
  | nil => rfl
  | cons y ys =>
    have : keyLe x y = true := (List.pairwise_cons.mp h).1 y (List.mem_cons_self ..)
    simp [insertM, this]

theorem isort_of_sorted : ∀ l, Sorted l → isort l = l
  | [], _ => rfl
  | x :: xs, h => by
    have hxs : Sorted xs := (List.pairwise_cons.mp h).2
    simp only [isort, isort_of_sorted xs hxs, insertM_of_sorted x xs h]

theorem isort_idem (l : List Member) : isort (isort l) = isort l := isort_of_sorted _ (isort_sorted l)


/-! ### 4. SortMapKeys on trees -/

theorem sortElems_eq_map (kp : Bytes → Bool) : ∀ xs, sortElems kp xs = xs.map (sortKeysP kp)
  | [] => rfl
  | x :: xs => by simp [sortElems, sortElems_eq_map kp xs]

theorem sortMembers_eq_map (kp : Bytes → Bool) : ∀ l, sortMembers kp l = l.map (fun kv => (kv.1, sortKeysP kp kv.2))
  | [] => rfl
  | (k, v) :: r => by simp [sortMembers, sortMembers_eq_map kp r]

theorem sortMembers_keys (kp : Bytes → Bool) (l : List Member) : (sortMembers kp l).map (·.1) = l.map (·.1) := by
  rw [sortMembers_eq_map]; simp [List.map_map, Function.comp_def]

theorem isFixed_perm (kp : Bytes → Bool) {l l' : List Member} (h : l.Perm l') : isFixed kp l = isFixed kp l' := by
  unfold isFixed
  have h1 : l.isEmpty = l'.isEmpty := by
    cases l <;> cases l' <;> simp_all
  have h2 : l.all (fun kv => kp kv.1) = l'.all (fun kv => kp kv.1) := by
    rw [Bool.eq_iff_iff]; simp only [List.all_eq_true]
    exact ⟨fun hh x hx => hh x (h.symm.subset hx), fun hh x hx => hh x (h.subset hx)⟩
  rw [h1, h2]

theorem isFixed_sortMembers (kp : Bytes → Bool) (l : List Member) : isFixed kp (sortMembers kp l) = isFixed kp l := by
  unfold isFixed
  rw [sortMembers_eq_map]
  cases l <;> simp [List.all_map, Function.comp_def]

theorem keyLe_fst (a b : Member) (va vb : JVal) : keyLe (a.1, va) (b.1, vb) = keyLe a b := rfl

theorem map_insertM (f : JVal → JVal) (x : Member) : ∀ l : List Member,
    (insertM x l).map (fun kv => (kv.1, f kv.2)) = insertM (x.1, f x.2) (l.map (fun kv => (kv.1, f kv.2)))
  | [] => rfl
  | y :: ys => by
    simp only [insertM, List.map_cons, keyLe_fst]
    by_cases h : keyLe x y = true
    · simp [h]
    · simp [h, map_insertM f x ys]

theorem map_isort (f : JVal → JVal) : ∀ l : List Member,
    (isort l).map (fun kv => (kv.1, f kv.2)) = isort (l.map (fun kv => (kv.1, f kv.2)))
  | [] => rfl
  | x :: xs => by simp only [isort, List.map_cons, map_insertM, map_isort f xs]

theorem sortMembers_isort (kp : Bytes → Bool) (l : List Member) : sortMembers kp (isort l) = isort (sortMembers kp l) := by
  rw [sortMembers_eq_map, sortMembers_eq_map, map_isort]

mutual
theorem sortKeysP_idem (kp : Bytes → Bool) : ∀ t, sortKeysP kp (sortKeysP kp t) = sortKeysP kp t
  | .null => rfl
  | .bool _ => rfl
  | .num _ => rfl
  | .str _ => rfl
  | .arr xs => by simp only [sortKeysP, sortElems_idem kp xs]
  | .obj kvs => by
    have ih := sortMembers_idem kp kvs
    simp only [sortKeysP]
    split
    · rename_i hfix
      simp only [sortKeysP, ih, hfix, if_true]
    · rename_i hfix
      have h1 : isFixed kp (isort (sortMembers kp kvs)) = false := by
        rw [isFixed_perm kp (isort_perm _)]; simpa using hfix
      simp only [sortKeysP, sortMembers_isort, ih, h1, isort_idem]
      simp
theorem sortElems_idem (kp : Bytes → Bool) : ∀ xs, sortElems kp (sortElems kp xs) = sortElems kp xs
  | [] => rfl
  | x :: xs => by simp only [sortElems, sortKeysP_idem kp x, sortElems_idem kp xs]
theorem sortMembers_idem (kp : Bytes → Bool) : ∀ l, sortMembers kp (sortMembers kp l) = sortMembers kp l
  | [] => rfl
  | (k, v) :: r => by simp only [sortMembers, sortKeysP_idem kp v, sortMembers_idem kp r]
end

mutual
/-- every object that is not a fixed-order (struct) object has its members in key order, recursively -/
def allSorted (kp : Bytes → Bool) : JVal → Prop
  | .arr xs => allSortedL kp xs
  | .obj kvs => (isFixed kp kvs = true ∨ Sorted kvs) ∧ allSortedM kp kvs
  | _ => True
def allSortedL (kp : Bytes → Bool) : List JVal → Prop
  | [] => True
  | x :: xs => allSorted kp x ∧ allSortedL kp xs
def allSortedM (kp : Bytes → Bool) : List Member → Prop
  | [] => True
  | (_, v) :: r => allSorted kp v ∧ allSortedM kp r
end

theorem allSortedM_iff (kp : Bytes → Bool) : ∀ l, allSortedM kp l ↔ ∀ kv ∈ l, allSorted kp kv.2
  | [] => by simp [allSortedM]
  | (k, v) :: r => by simp [allSortedM, allSortedM_iff kp r]

theorem allSortedM_perm (kp : Bytes → Bool) {l l' : List Member} (h : l.Perm l') (hs : allSortedM kp l) : allSortedM kp l' := by
  rw [allSortedM_iff] at hs ⊢
  exact fun kv hkv => hs kv (h.symm.subset hkv)

mutual
theorem sortKeysP_sorted (kp : Bytes → Bool) : ∀ t, allSorted kp (sortKeysP kp t)
  | .null => trivial
  | .bool _ => trivial
  | .num _ => trivial
  | .str _ => trivial
  | .arr xs => by simp only [sortKeysP, allSorted]; exact sortElems_sorted kp xs
  | .obj kvs => by
    have ih := sortMembers_sorted kp kvs
    simp only [sortKeysP]
    split
    · rename_i hfix
      exact ⟨Or.inl hfix, ih⟩
    · exact ⟨Or.inr (isort_sorted _), allSortedM_perm kp (isort_perm _).symm ih⟩
theorem sortElems_sorted (kp : Bytes → Bool) : ∀ xs, allSortedL kp (sortElems kp xs)
  | [] => trivial
  | x :: xs => ⟨sortKeysP_sorted kp x, sortElems_sorted kp xs⟩
theorem sortMembers_sorted (kp : Bytes → Bool) : ∀ l, allSortedM kp (sortMembers kp l)
  | [] => trivial
  | (_, v) :: r => ⟨sortKeysP_sorted kp v, sortMembers_sorted kp r⟩
end


/-! ### 5. numbers under interface{}, field matching -/

theorem retagNum_anyNum (m : NumMode) (lit : Bytes) : retagNum m (anyNum .float lit) = anyNum m lit := rfl

mutual
theorem retag_toAny (m : NumMode) : ∀ t, retag m (toAny .float t) = toAny m t
  | .null => rfl
  | .bool _ => rfl
  | .num _ => rfl
  | .str _ => rfl
  | .arr xs => by simp only [toAny, retag, retagL_toAnyL m xs]
  | .obj kvs => by simp only [toAny, retag, retagM_toAnyM m kvs]
theorem retagL_toAnyL (m : NumMode) : ∀ xs, retagL m (toAnyL .float xs) = toAnyL m xs
  | [] => rfl
  | x :: xs => by simp only [toAnyL, retagL, retag_toAny m x, retagL_toAnyL m xs]
theorem retagM_toAnyM (m : NumMode) : ∀ l, retagM m (toAnyM .float l) = toAnyM m l
  | [] => rfl
  | (k, v) :: r => by simp only [toAnyM, retagM, retag_toAny m v, retagM_toAnyM m r]
end

theorem findName_some_lt (p : Bytes → Bool) : ∀ (fs : List Bytes) (i j : Nat), findName p fs i = some j → i ≤ j
  | [], _, _, h => by simp [findName] at h
  | f :: r, i, j, h => by
    unfold findName at h
    split at h
    · injection h with h; omega
    · have := findName_some_lt p r (i + 1) j h; omega

theorem matchField_caseSensitive_subset (fs : List Bytes) (k : Bytes) (i : Nat)
    (h : matchField true fs k = some i) : matchField false fs k = some i := by
  unfold matchField at h ⊢
  cases he : findName (fun f => f == k) fs 0 with
  | some j => simpa [he] using h
  | none => simp [he] at h

theorem matchField_exact_unaffected (fs : List Bytes) (k : Bytes) (i : Nat)
    (h : findName (fun f => f == k) fs 0 = some i) (cs : Bool) : matchField cs fs k = some i := by
  unfold matchField; simp [h]


end SonicSpec.Opts
