/-
  C15 - the stable sort by key commutes with dropping emptied slots; SortKeys refines Tree.sortKeys.
-/
import SonicSpec.Proofs.AstStep2
set_option linter.unusedSimpArgs false
namespace SonicSpec.Ast
variable {α β : Type}

/-! ### the stable sort by key -/

theorem keyLt_nil_right (a : Key) : keyLt a [] = false := by
  simp [keyLt]

theorem keyLt_nil_left_false (b : Key) (h : keyLt [] b = false) : b = [] := by
  cases b with
  | nil => rfl
  | cons c r => simp [keyLt] at h

theorem insertBy_cons (key : α → Key) (x y : α) (ys : List α) :
    insertBy key x (y :: ys) = if keyLt (key y) (key x) then y :: insertBy key x ys else x :: y :: ys := rfl

theorem mem_insertBy (key : α → Key) (x : α) : ∀ (ys : List α) (y : α), y ∈ insertBy key x ys ↔ y = x ∨ y ∈ ys
  | [], y => by simp [insertBy]
  | z :: zs, y => by
    rw [insertBy_cons]
    by_cases h : keyLt (key z) (key x)
    · simp [h, mem_insertBy key x zs y, or_left_comm]
    · simp [h]

theorem mem_sortBy (key : α → Key) : ∀ (xs : List α) (y : α), y ∈ sortBy key xs ↔ y ∈ xs
  | [], y => by simp [sortBy]
  | x :: xs, y => by simp [sortBy, mem_insertBy, mem_sortBy key xs y]

theorem length_insertBy (key : α → Key) (x : α) : ∀ ys : List α, (insertBy key x ys).length = ys.length + 1
  | [] => by simp [insertBy]
  | z :: zs => by
    unfold insertBy
    by_cases h : keyLt (key z) (key x) <;> simp [h, length_insertBy key x zs]

theorem length_sortBy (key : α → Key) : ∀ xs : List α, (sortBy key xs).length = xs.length
  | [] => by simp [sortBy]
  | x :: xs => by simp [sortBy, length_insertBy, length_sortBy key xs]

theorem insertBy_map (k1 : α → Key) (k2 : β → Key) (f : α → β) (h : ∀ a, k2 (f a) = k1 a) (x : α) :
    ∀ ys : List α, (insertBy k1 x ys).map f = insertBy k2 (f x) (ys.map f)
  | [] => by simp [insertBy]
  | z :: zs => by
    unfold insertBy
    by_cases hz : keyLt (k1 z) (k1 x)
    · simp [hz, h, insertBy_map k1 k2 f h x zs]
    · simp [hz, h]

theorem sortBy_map (k1 : α → Key) (k2 : β → Key) (f : α → β) (h : ∀ a, k2 (f a) = k1 a) :
    ∀ xs : List α, (sortBy k1 xs).map f = sortBy k2 (xs.map f)
  | [] => by simp [sortBy]
  | x :: xs => by simp [sortBy, insertBy_map k1 k2 f h, sortBy_map k1 k2 f h xs]

theorem insertBy_nil_key (key : α → Key) (x : α) (hx : key x = []) : ∀ l : List α, insertBy key x l = x :: l
  | [] => rfl
  | z :: zs => by simp [insertBy, hx, keyLt_nil_right]

theorem filter_insertBy_dead (key : α → Key) (live : α → Bool) (x : α) (hx : live x = false) :
    ∀ ys : List α, (insertBy key x ys).filter live = ys.filter live
  | [] => by simp [insertBy, hx]
  | z :: zs => by
    unfold insertBy
    by_cases h : keyLt (key z) (key x)
    · simp [h, List.filter_cons, filter_insertBy_dead key live x hx zs]
    · simp [h, List.filter_cons, hx]

theorem filter_insertBy_live (key : α → Key) (live : α → Bool) (x : α) (hx : live x = true) :
    ∀ ys : List α, (∀ y ∈ ys, live y = false → key y = []) →
      (insertBy key x ys).filter live = insertBy key x (ys.filter live)
  | [], _ => by simp [insertBy, hx]
  | z :: zs, hd => by
    have hd' : ∀ y ∈ zs, live y = false → key y = [] := fun y hy => hd y (by simp [hy])
    have ih := filter_insertBy_live key live x hx zs hd'
    by_cases hz : live z
    · rw [insertBy_cons]
      by_cases h : keyLt (key z) (key x)
      · simp [h, List.filter_cons, hz, ih, insertBy_cons]
      · simp [h, List.filter_cons, hz, hx, insertBy_cons]
    · have hz' : live z = false := by simpa using hz
      have hk : key z = [] := hd z (by simp) hz'
      rw [insertBy_cons]
      by_cases h : keyLt (key z) (key x)
      · simp [h, List.filter_cons, hz', ih]
      · have hxk : key x = [] := by
          rw [hk] at h; exact keyLt_nil_left_false _ (by simpa using h)
        simp [h, List.filter_cons, hz', hx, insertBy_nil_key key x hxk]

theorem sortBy_filter (key : α → Key) (live : α → Bool) :
    ∀ xs : List α, (∀ y ∈ xs, live y = false → key y = []) →
      (sortBy key xs).filter live = sortBy key (xs.filter live)
  | [], _ => by simp [sortBy]
  | x :: xs, hd => by
    have hd' : ∀ y ∈ xs, live y = false → key y = [] := fun y hy => hd y (by simp [hy])
    have ih := sortBy_filter key live xs hd'
    have hds : ∀ y ∈ sortBy key xs, live y = false → key y = [] :=
      fun y hy => hd' y ((mem_sortBy key xs y).mp hy)
    by_cases hx : live x
    · simp [sortBy, List.filter_cons, hx, filter_insertBy_live key live x hx _ hds, ih]
    · have hx' : live x = false := by simpa using hx
      simp [sortBy, List.filter_cons, hx', filter_insertBy_dead key live x hx', ih]

/-! ### SortKeys -/

theorem sortElems_eq (r : Bool) : ∀ xs : List Tree, sortElems r xs = xs.map (Tree.sortKeys r)
  | [] => by simp [sortElems]
  | x :: xs => by simp [sortElems, sortElems_eq r xs]

theorem sortMembers_eq : ∀ kvs : List (Key × Tree), sortMembers kvs = kvs.map (fun kv => (kv.1, kv.2.sortKeys true))
  | [] => by simp [sortMembers]
  | (k, v) :: kvs => by simp [sortMembers, sortMembers_eq kvs]

theorem sortElems_append (r : Bool) (a b : List Tree) : sortElems r (a ++ b) = sortElems r a ++ sortElems r b := by
  simp [sortElems_eq]

theorem sortMembers_append (a b : List (Key × Tree)) : sortMembers (a ++ b) = sortMembers a ++ sortMembers b := by
  simp [sortMembers_eq]

theorem sortStore_fst (st : List PairM) (ix : Option Index) :
    (sortStore st ix).1 = sortBy (fun p : PairM => p.2.1) st := rfl

theorem sortPairs_spec (st : List PairM) (hr : repPairs st = true) :
    absPairs (sortBy (fun p : PairM => p.2.1) st) = sortByKey (absPairs st) ∧
    repPairs (sortBy (fun p : PairM => p.2.1) st) = true ∧
    countLive pairLive (sortBy (fun p : PairM => p.2.1) st) = countLive pairLive st ∧
    (sortBy (fun p : PairM => p.2.1) st).length = st.length := by
  have hdead : ∀ y ∈ st, pairLive y = false → y.2.1 = [] := fun y hy hd => (((repPairs_iff st).mp hr y hy).2 hd).1
  have hf := sortBy_filter (fun p : PairM => p.2.1) pairLive st hdead
  have hm := sortBy_map (fun p : PairM => p.2.1) (fun kv : Key × Tree => kv.1)
    (fun p : PairM => (p.2.1, p.2.2.abs)) (fun _ => rfl) (st.filter pairLive)
  refine ⟨?_, ?_, ?_, ?_⟩
  · simp only [sortByKey]
    rw [absPairs_eq, absPairs_eq, hf, hm]
  · rw [repPairs_iff] at hr ⊢
    exact fun x hx => hr x ((mem_sortBy _ st x).mp hx)
  · simp only [countLive]
    rw [hf, length_sortBy]
  · simp only [length_sortBy]

theorem sortStore_ix (st : List PairM) (hr : repPairs st = true) (ix : Option Index) :
    ixOk (sortBy (fun p : PairM => p.2.1) st) (sortStore st ix).2 = true := by
  cases ix with
  | none => rfl
  | some m => exact ixOk_build _ (sortPairs_spec st hr).2.1

theorem kid_spec (lock : Bool) (v : Tree) : (kid lock v).abs = v ∧ (kid lock v).live = true ∧ (kid lock v).repOk = true := by
  cases lock
  · exact ⟨rfl, rfl, rfl⟩
  · simpa [kid] using childL_spec v

theorem kid_pairs (lock : Bool) (kvs : List (Key × Tree)) :
    absPairs (kvs.map (fun kv => mkPair kv.1 (kid lock kv.2))) = kvs ∧
    repPairs (kvs.map (fun kv => mkPair kv.1 (kid lock kv.2))) = true ∧
    (∀ p ∈ kvs.map (fun kv => mkPair kv.1 (kid lock kv.2)), pairLive p = true) := by
  induction kvs with
  | nil => simp [absPairs, repPairs]
  | cons x xs ih =>
    obtain ⟨k, v⟩ := x
    obtain ⟨h1, h2, h3⟩ := kid_spec lock v
    simp only [mkPair] at ih ⊢
    refine ⟨by simp [absPairs, h2, h1, ih.1], by simp [repPairs, h2, h3, ih.2.1], ?_⟩
    intro p hp
    rcases List.mem_cons.mp hp with rfl | hp
    · simpa using h2
    · exact ih.2.2 p hp

mutual
theorem sortRaw_spec : ∀ (r lock : Bool) (v : Tree),
    (sortRaw r lock v).abs = v.sortKeys r ∧ (sortRaw r lock v).live = true ∧ (sortRaw r lock v).repOk = true
  | r, lock, .obj kvs => by
    have ih := sortRawPairs_spec lock kvs
    cases kvs with
    | nil => cases r <;> simp [sortRaw, NodeM.abs, absPairs, Tree.sortKeys, sortMembers, sortByKey, sortBy, NodeM.live, NodeM.repOk, repPairs, countLive, ixOk]
    | cons y ys =>
      obtain ⟨i1, i2, i3, i4⟩ := ih
      obtain ⟨k1, k2, k3⟩ := kid_pairs lock (y :: ys)
      cases r
      · obtain ⟨s1, s2, s3, s4⟩ := sortPairs_spec ((y :: ys).map (fun kv => mkPair kv.1 (kid lock kv.2))) k2
        have s5 := sortStore_ix ((y :: ys).map (fun kv => mkPair kv.1 (kid lock kv.2))) k2
        simp only [sortRaw, sortStore_fst, Bool.false_eq_true, if_false, NodeM.abs, s1, k1, Tree.sortKeys, NodeM.live, NodeM.repOk, s2,
          s3, s5, countLive_all _ _ k3, Bool.true_and, Bool.and_true, decide_true, and_self]
      · obtain ⟨s1, s2, s3, s4⟩ := sortPairs_spec (sortRawPairs lock (y :: ys)) i2
        have s5 := sortStore_ix (sortRawPairs lock (y :: ys)) i2
        simp only [sortRaw, sortStore_fst, if_true, NodeM.abs, s1, i1, Tree.sortKeys, NodeM.live, NodeM.repOk, s2,
          s3, s5, countLive_all _ _ i3, Bool.true_and, Bool.and_true, decide_true, and_self]
  | r, lock, .arr xs => by
    have ih := sortRawElems_spec r lock xs
    cases xs with
    | nil => simp [sortRaw, NodeM.abs, absElems, Tree.sortKeys, sortElems, NodeM.live, NodeM.repOk, repElems, countLive]
    | cons y ys =>
      obtain ⟨i1, i2, i3, i4⟩ := ih
      simp only [sortRaw, NodeM.abs, i1, Tree.sortKeys, NodeM.live, NodeM.repOk, i2, countLive_all _ _ i3, i4,
        Bool.true_and, decide_true, and_self]
  | r, lock, .null => by simpa [sortRaw, Tree.sortKeys] using kid_spec lock .null
  | r, lock, .bool b => by simpa [sortRaw, Tree.sortKeys] using kid_spec lock (.bool b)
  | r, lock, .num l => by simpa [sortRaw, Tree.sortKeys] using kid_spec lock (.num l)
  | r, lock, .str s => by simpa [sortRaw, Tree.sortKeys] using kid_spec lock (.str s)
theorem sortRawElems_spec : ∀ (r lock : Bool) (xs : List Tree),
    absElems (sortRawElems r lock xs) = sortElems r xs ∧ repElems (sortRawElems r lock xs) = true ∧
    (∀ x ∈ sortRawElems r lock xs, x.live = true) ∧ (sortRawElems r lock xs).length = xs.length
  | r, lock, [] => by simp [sortRawElems, absElems, sortElems, repElems]
  | r, lock, x :: xs => by
    obtain ⟨h1, h2, h3⟩ := sortRaw_spec r lock x
    obtain ⟨i1, i2, i3, i4⟩ := sortRawElems_spec r lock xs
    simp only [sortRawElems, absElems, h2, if_true, h1, i1, sortElems, repElems, h3, i2, Bool.and_self,
      List.mem_cons, List.length_cons, i4, true_and, and_true]
    intro p hp
    rcases hp with rfl | hp
    · exact h2
    · exact i3 p hp
theorem sortRawPairs_spec : ∀ (lock : Bool) (kvs : List (Key × Tree)),
    absPairs (sortRawPairs lock kvs) = sortMembers kvs ∧ repPairs (sortRawPairs lock kvs) = true ∧
    (∀ p ∈ sortRawPairs lock kvs, pairLive p = true) ∧ (sortRawPairs lock kvs).length = kvs.length
  | lock, [] => by simp [sortRawPairs, absPairs, sortMembers, repPairs]
  | lock, (k, x) :: xs => by
    obtain ⟨h1, h2, h3⟩ := sortRaw_spec true lock x
    obtain ⟨i1, i2, i3, i4⟩ := sortRawPairs_spec lock xs
    refine ⟨by simp [sortRawPairs, absPairs, h2, h1, i1, sortMembers], by simp [sortRawPairs, repPairs, h2, h3, i2],
      ?_, by simp [sortRawPairs, i4]⟩
    intro p hp
    simp only [sortRawPairs, List.mem_cons] at hp
    rcases hp with rfl | hp
    · simpa using h2
    · exact i3 p hp
end

theorem sortKeys_scalar (r : Bool) (t : Tree) (h : isContainer t = false) : t.sortKeys r = t := by
  cases t <;> simp [isContainer] at h <;> simp [Tree.sortKeys]

mutual
theorem sortM_spec : ∀ (r : Bool) (n : NodeM), n.repOk = true →
    (n.sortM r).abs = n.abs.sortKeys r ∧ (n.sortM r).repOk = true ∧ (n.sortM r).live = true
  | r, .gone, h => by simp [NodeM.repOk] at h
  | r, .null, _ => by simp [NodeM.sortM, NodeM.abs, Tree.sortKeys, NodeM.repOk, NodeM.live]
  | r, .bool b, _ => by simp [NodeM.sortM, NodeM.abs, Tree.sortKeys, NodeM.repOk, NodeM.live]
  | r, .num l, _ => by simp [NodeM.sortM, NodeM.abs, Tree.sortKeys, NodeM.repOk, NodeM.live]
  | r, .str s, _ => by simp [NodeM.sortM, NodeM.abs, Tree.sortKeys, NodeM.repOk, NodeM.live]
  | r, .raw v lock, _ => by
    by_cases hc : isContainer v = true
    · obtain ⟨s1, s2, s3⟩ := sortRaw_spec r lock v
      simp only [NodeM.sortM, hc, if_true, s1, s2, s3, NodeM.abs, and_self]
    · have hc' : isContainer v = false := by simpa using hc
      simp [NodeM.sortM, hc', NodeM.abs, sortKeys_scalar r v hc', NodeM.repOk, NodeM.live]
  | r, .arr l st, h => by
    simp only [NodeM.repOk, Bool.and_eq_true, decide_eq_true_eq] at h
    obtain ⟨i1, i2, i3⟩ := sortElemsM_spec r st h.1
    simp only [NodeM.sortM, NodeM.abs, i1, Tree.sortKeys, NodeM.repOk, i2, NodeM.live, Bool.true_and,
      decide_eq_true_eq, and_true, true_and]
    rw [h.2]; exact (countLive_of_map _ _ _ _ i3).symm
  | r, .arrLazy pre rest, h => by
    simp only [NodeM.repOk, Bool.and_eq_true] at h
    obtain ⟨⟨hr, hl⟩, _⟩ := h
    have hall := (allLiveElems_iff pre).mp hl
    obtain ⟨i1, i2, i3⟩ := sortElemsM_spec r pre hr
    obtain ⟨j1, j2, j3, j4⟩ := sortRawElems_spec r false rest
    have hc : countLive NodeM.live (sortElemsM r pre) = pre.length := by
      rw [countLive_of_map _ NodeM.live _ pre i3, countLive_all _ _ hall]
    simp only [NodeM.sortM, NodeM.abs, absElems_append, i1, j1, Tree.sortKeys, sortElems_append, NodeM.repOk,
      repElems_append, i2, j2, NodeM.live, countLive_append, hc, countLive_all _ _ j3, j4, Bool.true_and,
      decide_true, and_self]
  | r, .obj l st ix, h => by
    simp only [NodeM.repOk, Bool.and_eq_true, decide_eq_true_eq] at h
    replace h := h.1
    obtain ⟨i1, i2, i3⟩ := sortPairsM_spec st h.1
    cases r
    · obtain ⟨s1, s2, s3, s4⟩ := sortPairs_spec st h.1
      have s5 := sortStore_ix st h.1
      simp only [NodeM.sortM, sortStore_fst, Bool.false_eq_true, if_false, NodeM.abs, s1, Tree.sortKeys, NodeM.repOk, s2, s3, s5, h.2,
        NodeM.live, Bool.true_and, Bool.and_true, decide_true, and_self]
    · obtain ⟨s1, s2, s3, s4⟩ := sortPairs_spec (sortPairsM st) i2
      have s5 := sortStore_ix (sortPairsM st) i2
      simp only [NodeM.sortM, sortStore_fst, if_true, NodeM.abs, s1, i1, Tree.sortKeys, NodeM.repOk, s2, s3, s5, NodeM.live,
        Bool.true_and, Bool.and_true, decide_eq_true_eq, and_true, true_and]
      rw [h.2]; exact (countLive_of_map _ _ _ _ i3).symm
  | r, .objLazy pre rest, h => by
    simp only [NodeM.repOk, Bool.and_eq_true] at h
    obtain ⟨⟨hr, hl⟩, _⟩ := h
    have hall := (allLivePairs_iff pre).mp hl
    obtain ⟨i1, i2, i3⟩ := sortPairsM_spec pre hr
    obtain ⟨j1, j2, j3, j4⟩ := sortRawPairs_spec false rest
    cases r
    · have hr' : repPairs (pre ++ rest.map rawPair) = true := by simp [repPairs_append, hr, repPairs_raw]
      have hl' : ∀ p ∈ pre ++ rest.map rawPair, pairLive p = true := by
        intro p hp
        rcases List.mem_append.mp hp with hp | hp
        · exact hall p hp
        · simp at hp; obtain ⟨k, v, _, rfl⟩ := hp; rfl
      obtain ⟨s1, s2, s3, s4⟩ := sortPairs_spec (pre ++ rest.map rawPair) hr'
      have s5 := sortStore_ix (pre ++ rest.map rawPair) hr'
      simp only [NodeM.sortM, sortStore_fst, Bool.false_eq_true, if_false, NodeM.abs, s1, absPairs_append, raw_pairs_abs,
        Tree.sortKeys, NodeM.repOk, s2, s3, s5, countLive_all _ _ hl', NodeM.live, Bool.true_and, Bool.and_true, decide_true, and_self]
    · have hr' : repPairs (sortPairsM pre ++ sortRawPairs false rest) = true := by simp [repPairs_append, i2, j2]
      have hc : countLive pairLive (sortPairsM pre) = pre.length := by
        rw [countLive_of_map _ pairLive _ pre i3, countLive_all _ _ hall]
      have hlen : (sortPairsM pre).length = pre.length := by
        have := congrArg List.length i3; simpa using this
      obtain ⟨s1, s2, s3, s4⟩ := sortPairs_spec (sortPairsM pre ++ sortRawPairs false rest) hr'
      have s5 := sortStore_ix (sortPairsM pre ++ sortRawPairs false rest) hr'
      simp only [NodeM.sortM, sortStore_fst, if_true, NodeM.abs, s1, absPairs_append, i1, j1, sortMembers_append,
        Tree.sortKeys, NodeM.repOk, s2, s3, s5, countLive_append, hc, countLive_all _ _ j3, NodeM.live,
        List.length_append, hlen, Bool.true_and, Bool.and_true, decide_true, and_self]
theorem sortElemsM_spec : ∀ (r : Bool) (st : List NodeM), repElems st = true →
    absElems (sortElemsM r st) = sortElems r (absElems st) ∧ repElems (sortElemsM r st) = true ∧
    (sortElemsM r st).map NodeM.live = st.map NodeM.live
  | r, [], _ => by simp [sortElemsM, absElems, sortElems, repElems]
  | r, x :: xs, h => by
    unfold repElems at h
    rw [Bool.and_eq_true] at h
    obtain ⟨i1, i2, i3⟩ := sortElemsM_spec r xs h.2
    by_cases hx : x.live
    · have hr : x.repOk = true := by simpa [hx] using h.1
      obtain ⟨s1, s2, s3⟩ := sortM_spec r x hr
      simp [sortElemsM, absElems, hx, s1, s2, s3, i1, i2, i3, sortElems, repElems]
    · have hg : x = .gone := by cases x <;> simp [NodeM.live] at hx; rfl
      subst hg
      simp [sortElemsM, NodeM.sortM, absElems, NodeM.live, i1, i2, i3, repElems]
theorem sortPairsM_spec : ∀ (st : List (Hash × Key × NodeM)), repPairs st = true →
    absPairs (sortPairsM st) = sortMembers (absPairs st) ∧ repPairs (sortPairsM st) = true ∧
    (sortPairsM st).map pairLive = st.map pairLive
  | [], _ => by simp [sortPairsM, absPairs, sortMembers, repPairs]
  | (hh, k, v) :: xs, h => by
    unfold repPairs at h
    rw [Bool.and_eq_true] at h
    obtain ⟨i1, i2, i3⟩ := sortPairsM_spec xs h.2
    by_cases hx : v.live
    · have hr : v.repOk = true ∧ hh = some k := by simpa [hx] using h.1
      obtain ⟨s1, s2, s3⟩ := sortM_spec true v hr.1
      simp [sortPairsM, absPairs, hx, s1, s2, s3, i1, i2, i3, sortMembers, repPairs, hr.2]
    · have hg : v = .gone := by cases v <;> simp [NodeM.live] at hx; rfl
      subst hg
      have hk : k.isEmpty = true ∧ hh.isNone = true := by simpa [NodeM.live] using h.1
      simp [sortPairsM, NodeM.sortM, absPairs, NodeM.live, i1, i2, i3, repPairs, hk.1, hk.2]
end

theorem sort_tree (t : Tree) (r : Bool) : t.stepHere (.sort r) = (.ok, t.sortKeys r) := rfl

theorem here_sort (n : NodeM) (r : Bool) (hr : n.repOk = true) :
    Refines (n.stepHere (.sort r)) (n.abs.stepHere (.sort r)) := by
  obtain ⟨c1, c2, c3⟩ := checkRaw_spec n hr
  obtain ⟨s1, s2, s3⟩ := sortM_spec r n.checkRaw c2
  exact ⟨rfl, by simp only [NodeM.stepHere, s1, c1, sort_tree], by simp only [NodeM.stepHere, s2]⟩

end SonicSpec.Ast
