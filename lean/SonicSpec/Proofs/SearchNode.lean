/-
  C14 helper lemmas, part 8: the byte-level lazy loader (Model/SearchNode.lean) against the tree.
-/
import SonicSpec.Model.SearchNode
import SonicSpec.Proofs.SearchRaw
namespace SonicSpec.Search
open SonicSpec SonicSpec.Json

/-- an answer (raw text of the returned child, or nothing) denotes the specified value -/
def AnsOK (a : Option Bytes) (w : Option JVal) : Prop :=
  match a, w with
  | some raw, some v => parseDoc raw = some v
  | none, none => True
  | _, _ => False

/-- loaded pairs stand for a list of members: same decoded keys, raw texts that parse to the values -/
inductive PairsOK : List (Bytes × Bytes) → List (Bytes × JVal) → Prop where
  | nil : PairsOK [] []
  | cons {k' raw kb : Bytes} {v : JVal} {ps : List (Bytes × Bytes)} {ms : List (Bytes × JVal)} :
      k' = unescapeKey kb → parseDoc raw = some v → PairsOK ps ms → PairsOK ((k', raw) :: ps) ((kb, v) :: ms)

theorem PairsOK.length_eq {ps ms} (h : PairsOK ps ms) : ps.length = ms.length := by
  induction h with
  | nil => rfl
  | cons _ _ _ ih => simp [ih]

theorem PairsOK.snoc {ps ms} (h : PairsOK ps ms) {kb raw : Bytes} {v : JVal} (hr : parseDoc raw = some v) :
    PairsOK (ps ++ [(unescapeKey kb, raw)]) (ms ++ [(kb, v)]) := by
  induction h with
  | nil => exact .cons rfl hr .nil
  | cons h1 h2 _ ih => exact .cons h1 h2 ih

theorem findPair_ok {ps ms} (h : PairsOK ps ms) (k : Bytes) : AnsOK (findPair k ps) (lookupKey k ms) := by
  induction h with
  | nil => simp [findPair, lookupKey, AnsOK]
  | cons h1 h2 _ ih =>
    subst h1
    simp only [findPair, lookupKey]
    split
    · simpa [AnsOK] using h2
    · exact ih

theorem lookupKey_append (k : Bytes) (a b : List (Bytes × JVal)) :
    lookupKey k (a ++ b) = match lookupKey k a with
      | some w => some w
      | none => lookupKey k b := by
  induction a with
  | nil => simp [lookupKey]
  | cons m a ih =>
    obtain ⟨kb, v⟩ := m
    simp only [List.cons_append, lookupKey]
    split
    · rfl
    · exact ih

theorem PairsOK.get {ps ms} (h : PairsOK ps ms) (i : Nat) :
    AnsOK ((ps[i]?).map (·.2)) ((ms[i]?).map (·.2)) := by
  induction h generalizing i with
  | nil => simp [AnsOK]
  | cons _ h2 _ ih =>
    cases i with
    | zero => simpa [AnsOK] using h2
    | succ i => simpa using ih i

/-- the lazy object state against the members of the object: `done` are loaded, `todo` is what the
    strict parser still reads at the parser position -/
def ObjInv (o : LazyObj) (kvs : List (Bytes × JVal)) : Prop :=
  ∃ done todo, kvs = done ++ todo ∧ PairsOK o.pairs done ∧
    match o.pos with
    | none => todo = []
    | some p => ∃ n r, parseMembers n (skipWs p) = some (todo, r)

theorem parseMembers_len : ∀ n x ms r, parseMembers n x = some (ms, r) → ms.length ≤ n := by
  intro n
  induction n with
  | zero => intro x ms r h; rw [parseMembers_zero] at h; cases h
  | succ n ih =>
    intro x ms r h
    obtain ⟨t, k, r1, r2, v, r3, hs, hk, h58, hv, hrest⟩ := parseMembers_inv h
    rcases hrest with ⟨t', kvs', hc, hm, rfl⟩ | ⟨hc, rfl⟩
    · have := ih _ _ _ hm; simp; omega
    · simp

theorem todo_len_le_pos {n : Nat} {p : Bytes} {todo r} (h : parseMembers n (skipWs p) = some (todo, r)) :
    todo.length ≤ p.length := by
  obtain ⟨pre, _, e, hri⟩ := (parse_ri n).2.2 _ _ _ h
  have h2 := hri pre.length (Nat.le_refl _) r
  rw [← e] at h2
  have h3 := parseMembers_len _ _ _ _ h2
  have h4 : pre.length ≤ (skipWs p).length := by rw [e]; simp
  have h5 := skipWs_length_le p
  omega

/-- one `skipNextPair` on a state whose parser still has members to read -/
theorem nextPair_step {o : LazyObj} {p : Bytes} (hp : o.pos = some p) {n : Nat} {todo : List (Bytes × JVal)} {r : Bytes}
    (h : parseMembers n (skipWs p) = some (todo, r)) :
    ∃ kb v todo' raw pos', todo = (kb, v) :: todo' ∧ parseDoc raw = some v ∧
      nextPair o = some ({ pos := pos', pairs := o.pairs ++ [(unescapeKey kb, raw)] }, some (unescapeKey kb, raw)) ∧
      (match pos' with
       | none => todo' = []
       | some p' => ∃ n' r', parseMembers n' (skipWs p') = some (todo', r')) := by
  cases n with
  | zero => rw [parseMembers_zero] at h; cases h
  | succ n =>
    obtain ⟨t, kb, r1, r2, v, r3, hs, hk, h58, hv, hrest⟩ := parseMembers_inv h
    have hfollow : NumFollow r3 := by
      rcases hrest with ⟨t', _, hc, _, _⟩ | ⟨hc, _⟩
      · exact numFollow_of_skipWs hc (by decide)
      · exact numFollow_of_skipWs hc (by decide)
    have hskip := skipFast_of_parse hv hfollow
    have hstr := strEnd_of_scanString t hk
    have hraw := parseDoc_raw hv
    rcases hrest with ⟨t', kvs', hc, hm, rfl⟩ | ⟨hc, rfl⟩
    · refine ⟨kb, v, kvs', rawOf (skipWs r2, r3), some t', rfl, hraw, ?_, n, r, hm⟩
      unfold nextPair
      simp [hp, hs, hstr, h58, hskip, hc]
    · refine ⟨kb, v, [], rawOf (skipWs r2, r3), none, rfl, hraw, ?_, rfl⟩
      unfold nextPair
      simp [hp, hs, hstr, h58, hskip, hc]

/-- the lazy loop of `skipKey` -/
theorem getKeyLoop_ok (k : Bytes) : ∀ (fuel : Nat) (o : LazyObj) (done todo : List (Bytes × JVal)),
    PairsOK o.pairs done →
    (match o.pos with
     | none => todo = []
     | some p => ∃ n r, parseMembers n (skipWs p) = some (todo, r)) →
    todo.length < fuel →
    ∃ o' a, getKeyLoop k fuel o = some (o', a) ∧ ObjInv o' (done ++ todo) ∧ AnsOK a (lookupKey k todo) := by
  intro fuel
  induction fuel with
  | zero => intro o done todo _ _ hf; omega
  | succ fuel ih =>
    intro o done todo hd hpos hf
    cases hp : o.pos with
    | none =>
      rw [hp] at hpos
      subst hpos
      refine ⟨o, none, ?_, ⟨done, [], rfl, hd, by rw [hp]⟩, by simp [lookupKey, AnsOK]⟩
      simp [getKeyLoop, nextPair, hp]
    | some p =>
      rw [hp] at hpos
      obtain ⟨n, r, hm⟩ := hpos
      obtain ⟨kb, v, todo', raw, pos', rfl, hraw, hnext, hrest⟩ := nextPair_step hp hm
      simp only [getKeyLoop, hnext]
      by_cases hk : unescapeKey kb = k
      · refine ⟨{ pos := pos', pairs := o.pairs ++ [(unescapeKey kb, raw)] }, some raw, by simp [hk],
          ⟨done ++ [(kb, v)], todo', by simp, hd.snoc hraw, hrest⟩, ?_⟩
        simp [lookupKey, hk, AnsOK, hraw]
      · simp only [hk, if_false]
        have := ih { pos := pos', pairs := o.pairs ++ [(unescapeKey kb, raw)] } (done ++ [(kb, v)]) todo'
          (hd.snoc hraw) hrest (by simp at hf; omega)
        obtain ⟨o', a, h1, h2, h3⟩ := this
        refine ⟨o', a, h1, by simpa using h2, ?_⟩
        simpa [lookupKey, hk] using h3

theorem getKey_ok (k : Bytes) {o : LazyObj} {kvs : List (Bytes × JVal)} (h : ObjInv o kvs) :
    ∃ o' a, getKey k o = some (o', a) ∧ ObjInv o' kvs ∧ AnsOK a (lookupKey k kvs) := by
  obtain ⟨done, todo, rfl, hd, hpos⟩ := h
  have hf := findPair_ok hd k
  unfold getKey
  cases hfp : findPair k o.pairs with
  | some raw =>
    rw [hfp] at hf
    refine ⟨o, some raw, rfl, ⟨done, todo, rfl, hd, hpos⟩, ?_⟩
    rw [lookupKey_append]
    cases hl : lookupKey k done with
    | none => rw [hl] at hf; simp [AnsOK] at hf
    | some w => rw [hl] at hf; simpa [AnsOK] using hf
  | none =>
    rw [hfp] at hf
    have hl : lookupKey k done = none := by
      cases hl : lookupKey k done with
      | none => rfl
      | some w => rw [hl] at hf; simp [AnsOK] at hf
    have hlen : todo.length < posLen o.pos + 1 := by
      cases hp : o.pos with
      | none => rw [hp] at hpos; subst hpos; simp
      | some p =>
        rw [hp] at hpos
        obtain ⟨n, r, hm⟩ := hpos
        have := todo_len_le_pos hm
        simp [posLen]; omega
    obtain ⟨o', a, h1, h2, h3⟩ := getKeyLoop_ok k _ o done todo hd hpos hlen
    refine ⟨o', a, h1, h2, ?_⟩
    rw [lookupKey_append, hl]; exact h3

/-! ## `Index` on an object (pairs by position) -/

theorem idxPairLoop_ok (i : Nat) : ∀ (fuel : Nat) (o : LazyObj) (done todo : List (Bytes × JVal)),
    PairsOK o.pairs done →
    (match o.pos with
     | none => todo = []
     | some p => ∃ n r, parseMembers n (skipWs p) = some (todo, r)) →
    todo.length < fuel → done.length ≤ i →
    ∃ o' a, idxPairLoop i fuel o = some (o', a) ∧ ObjInv o' (done ++ todo) ∧
      AnsOK a (((done ++ todo)[i]?).map (·.2)) := by
  intro fuel
  induction fuel with
  | zero => intro o done todo _ _ hf; omega
  | succ fuel ih =>
    intro o done todo hd hpos hf hi
    cases hp : o.pos with
    | none =>
      rw [hp] at hpos
      subst hpos
      refine ⟨o, none, ?_, ⟨done, [], rfl, hd, by rw [hp]⟩, ?_⟩
      · simp [idxPairLoop, nextPair, hp]
      · have : done[i]? = none := by simp; omega
        simp [this, AnsOK]
    | some p =>
      rw [hp] at hpos
      obtain ⟨n, r, hm⟩ := hpos
      obtain ⟨kb, v, todo', raw, pos', rfl, hraw, hnext, hrest⟩ := nextPair_step hp hm
      have hlen := hd.length_eq
      simp only [idxPairLoop, hnext, List.length_append, List.length_cons, List.length_nil]
      by_cases hgt : o.pairs.length + (0 + 1) > i
      · have hi' : i = done.length := by omega
        refine ⟨{ pos := pos', pairs := o.pairs ++ [(unescapeKey kb, raw)] }, some raw, by simp [hgt],
          ⟨done ++ [(kb, v)], todo', by simp, hd.snoc hraw, hrest⟩, ?_⟩
        subst hi'
        simp [AnsOK, hraw]
      · simp only [hgt, if_false]
        have := ih { pos := pos', pairs := o.pairs ++ [(unescapeKey kb, raw)] } (done ++ [(kb, v)]) todo'
          (hd.snoc hraw) hrest (by simp at hf; omega) (by simp; omega)
        obtain ⟨o', a, h1, h2, h3⟩ := this
        exact ⟨o', a, h1, by simpa using h2, by simpa using h3⟩

theorem getIdxPair_ok (i : Nat) {o : LazyObj} {kvs : List (Bytes × JVal)} (h : ObjInv o kvs) :
    ∃ o' a, getIdxPair i o = some (o', a) ∧ ObjInv o' kvs ∧ AnsOK a ((kvs[i]?).map (·.2)) := by
  obtain ⟨done, todo, rfl, hd, hpos⟩ := h
  have hg := hd.get i
  have hlen := hd.length_eq
  unfold getIdxPair
  cases hfp : o.pairs[i]? with
  | some x =>
    obtain ⟨k', raw⟩ := x
    have hi : i < done.length := by
      have := (List.getElem?_eq_some_iff.1 hfp).1; omega
    refine ⟨o, some raw, rfl, ⟨done, todo, rfl, hd, hpos⟩, ?_⟩
    rw [hfp] at hg
    rw [List.getElem?_append_left hi]
    simpa using hg
  | none =>
    have hi : done.length ≤ i := by
      have := List.getElem?_eq_none_iff.1 hfp; omega
    have hlen2 : todo.length < posLen o.pos + 1 := by
      cases hp : o.pos with
      | none => rw [hp] at hpos; subst hpos; simp
      | some p =>
        rw [hp] at hpos
        obtain ⟨n, r, hm⟩ := hpos
        have := todo_len_le_pos hm
        simp [posLen]; omega
    exact idxPairLoop_ok i _ o done todo hd hpos hlen2 hi

/-! ## arrays -/

inductive ElemsOK : List Bytes → List JVal → Prop where
  | nil : ElemsOK [] []
  | cons {raw : Bytes} {v : JVal} {rs : List Bytes} {vs : List JVal} :
      parseDoc raw = some v → ElemsOK rs vs → ElemsOK (raw :: rs) (v :: vs)

theorem ElemsOK.length_eq {rs vs} (h : ElemsOK rs vs) : rs.length = vs.length := by
  induction h with
  | nil => rfl
  | cons _ _ ih => simp [ih]

theorem ElemsOK.snoc {rs vs} (h : ElemsOK rs vs) {raw : Bytes} {v : JVal} (hr : parseDoc raw = some v) :
    ElemsOK (rs ++ [raw]) (vs ++ [v]) := by
  induction h with
  | nil => exact .cons hr .nil
  | cons h1 _ ih => exact .cons h1 ih

theorem ElemsOK.get {rs vs} (h : ElemsOK rs vs) (i : Nat) : AnsOK (rs[i]?) (vs[i]?) := by
  induction h generalizing i with
  | nil => simp [AnsOK]
  | cons h1 _ ih =>
    cases i with
    | zero => simpa [AnsOK] using h1
    | succ i => simpa using ih i

def ArrInv (a : LazyArr) (xs : List JVal) : Prop :=
  ∃ done todo, xs = done ++ todo ∧ ElemsOK a.elems done ∧
    match a.pos with
    | none => todo = []
    | some p => ∃ n r, parseElems n (skipWs p) = some (todo, r)

theorem parseElems_len : ∀ n x ms r, parseElems n x = some (ms, r) → ms.length ≤ n := by
  intro n
  induction n with
  | zero => intro x ms r h; rw [parseElems_zero] at h; cases h
  | succ n ih =>
    intro x ms r h
    obtain ⟨v, r1, hv, hrest⟩ := parseElems_inv h
    rcases hrest with ⟨t', xs', hc, hm, rfl⟩ | ⟨hc, rfl⟩
    · have := ih _ _ _ hm; simp; omega
    · simp

theorem todoElems_len_le_pos {n : Nat} {p : Bytes} {todo r} (h : parseElems n (skipWs p) = some (todo, r)) :
    todo.length ≤ p.length := by
  obtain ⟨pre, _, e, hri⟩ := (parse_ri n).2.1 _ _ _ h
  have h2 := hri pre.length (Nat.le_refl _) r
  rw [← e] at h2
  have h3 := parseElems_len _ _ _ _ h2
  have h4 : pre.length ≤ (skipWs p).length := by rw [e]; simp
  have h5 := skipWs_length_le p
  omega

theorem parseVal_head_ne_close {n : Nat} {x : Bytes} {v : JVal} {r : Bytes} (h : parseVal n x = some (v, r)) :
    ∃ c t, x = c :: t ∧ c ≠ 93 := by
  cases n with
  | zero => rw [parseVal_zero] at h; cases h
  | succ n =>
    cases parseVal_inv h with
    | null hs _ => exact ⟨_, _, hs, by decide⟩
    | tru hs _ => exact ⟨_, _, hs, by decide⟩
    | fls hs _ => exact ⟨_, _, hs, by decide⟩
    | str t b hs _ _ => exact ⟨_, _, hs, by decide⟩
    | arr0 t hs _ _ => exact ⟨_, _, hs, by decide⟩
    | arr t xs hs _ _ _ => exact ⟨_, _, hs, by decide⟩
    | obj0 t hs _ _ => exact ⟨_, _, hs, by decide⟩
    | obj t kvs hs _ _ _ => exact ⟨_, _, hs, by decide⟩
    | num l hl _ =>
      obtain ⟨hs, _, c0, l', hl0, hc0⟩ := scanNumber_spec hl
      subst hl0
      refine ⟨c0, l' ++ r, hs, ?_⟩
      rcases hc0 with rfl | hd
      · decide
      · intro e; subst e; simp [isDigit] at hd

theorem nextElem_step {a : LazyArr} {p : Bytes} (hp : a.pos = some p) {n : Nat} {todo : List JVal} {r : Bytes}
    (h : parseElems n (skipWs p) = some (todo, r)) :
    ∃ v todo' raw pos', todo = v :: todo' ∧ parseDoc raw = some v ∧
      nextElem a = some ({ pos := pos', elems := a.elems ++ [raw] }, some raw) ∧
      (match pos' with
       | none => todo' = []
       | some p' => ∃ n' r', parseElems n' (skipWs p') = some (todo', r')) := by
  cases n with
  | zero => rw [parseElems_zero] at h; cases h
  | succ n =>
    obtain ⟨v, r1, hv, hrest⟩ := parseElems_inv h
    have hfollow : NumFollow r1 := by
      rcases hrest with ⟨t', _, hc, _, _⟩ | ⟨hc, _⟩
      · exact numFollow_of_skipWs hc (by decide)
      · exact numFollow_of_skipWs hc (by decide)
    have hskip := skipFast_of_parse hv hfollow
    have hraw := parseDoc_raw hv
    obtain ⟨c, t, hx, hc93⟩ := parseVal_head_ne_close hv
    have hb : (c == 93) = false := by simpa using hc93
    rcases hrest with ⟨t', xs', hc, hm, rfl⟩ | ⟨hc, rfl⟩
    · refine ⟨v, xs', rawOf (skipWs p, r1), some t', rfl, hraw, ?_, n, r, hm⟩
      unfold nextElem
      simp [hp, hx, hb, hskip, hc]
    · refine ⟨v, [], rawOf (skipWs p, r1), none, rfl, hraw, ?_, rfl⟩
      unfold nextElem
      simp [hp, hx, hb, hskip, hc]

theorem idxLoop_ok (i : Nat) : ∀ (fuel : Nat) (a : LazyArr) (done todo : List JVal),
    ElemsOK a.elems done →
    (match a.pos with
     | none => todo = []
     | some p => ∃ n r, parseElems n (skipWs p) = some (todo, r)) →
    todo.length < fuel → done.length ≤ i →
    ∃ a' r, idxLoop i fuel a = some (a', r) ∧ ArrInv a' (done ++ todo) ∧ AnsOK r ((done ++ todo)[i]?) := by
  intro fuel
  induction fuel with
  | zero => intro a done todo _ _ hf; omega
  | succ fuel ih =>
    intro a done todo hd hpos hf hi
    cases hp : a.pos with
    | none =>
      rw [hp] at hpos
      subst hpos
      refine ⟨a, none, ?_, ⟨done, [], rfl, hd, by rw [hp]⟩, ?_⟩
      · simp [idxLoop, nextElem, hp]
      · have : done[i]? = none := by simp; omega
        simp [this, AnsOK]
    | some p =>
      rw [hp] at hpos
      obtain ⟨n, r, hm⟩ := hpos
      obtain ⟨v, todo', raw, pos', rfl, hraw, hnext, hrest⟩ := nextElem_step hp hm
      have hlen := hd.length_eq
      simp only [idxLoop, hnext, List.length_append, List.length_cons, List.length_nil]
      by_cases hgt : a.elems.length + (0 + 1) > i
      · have hi' : i = done.length := by omega
        refine ⟨{ pos := pos', elems := a.elems ++ [raw] }, some raw, by simp [hgt],
          ⟨done ++ [v], todo', by simp, hd.snoc hraw, hrest⟩, ?_⟩
        subst hi'
        simp [AnsOK, hraw]
      · simp only [hgt, if_false]
        have := ih { pos := pos', elems := a.elems ++ [raw] } (done ++ [v]) todo'
          (hd.snoc hraw) hrest (by simp at hf; omega) (by simp; omega)
        obtain ⟨a', r', h1, h2, h3⟩ := this
        exact ⟨a', r', h1, by simpa using h2, by simpa using h3⟩

theorem getIdx_ok (i : Nat) {a : LazyArr} {xs : List JVal} (h : ArrInv a xs) :
    ∃ a' r, getIdx i a = some (a', r) ∧ ArrInv a' xs ∧ AnsOK r (xs[i]?) := by
  obtain ⟨done, todo, rfl, hd, hpos⟩ := h
  have hg := hd.get i
  have hlen := hd.length_eq
  unfold getIdx
  cases hfp : a.elems[i]? with
  | some raw =>
    have hi : i < done.length := by
      have := (List.getElem?_eq_some_iff.1 hfp).1; omega
    refine ⟨a, some raw, rfl, ⟨done, todo, rfl, hd, hpos⟩, ?_⟩
    rw [hfp] at hg
    rw [List.getElem?_append_left hi]
    exact hg
  | none =>
    have hi : done.length ≤ i := by
      have := List.getElem?_eq_none_iff.1 hfp; omega
    have hlen2 : todo.length < posLen a.pos + 1 := by
      cases hp : a.pos with
      | none => rw [hp] at hpos; subst hpos; simp
      | some p =>
        rw [hp] at hpos
        obtain ⟨n, r, hm⟩ := hpos
        have := todoElems_len_le_pos hm
        simp [posLen]; omega
    exact idxLoop_ok i _ a done todo hd hpos hlen2 hi


/-! ## nodes -/

/-- the node state stands for the value `d` -/
def Rep : LNode → JVal → Prop
  | .raw t, d => parseDoc t = some d
  | .obj o, d => ∃ kvs, d = .obj kvs ∧ ObjInv o kvs
  | .arr a, d => ∃ xs, d = .arr xs ∧ ArrInv a xs
  | .other, d => ∀ e, stepSpec d e = none

theorem parseRaw_rep {t : Bytes} {d : JVal} (h : parseDoc t = some d) :
    Rep (parseRaw t) d ∧ ∀ x, parseRaw t ≠ .raw x := by
  unfold parseDoc at h
  split at h
  · rename_i v r hp
    split at h
    · cases h
      generalize hn : t.length + 1 = n at hp
      cases n with
      | zero => cases hn
      | succ n =>
      unfold parseRaw
      cases parseVal_inv hp with
      | null hs hv => subst hv; rw [hs]; refine ⟨?_, by simp⟩; intro e; cases e <;> rfl
      | tru hs hv => subst hv; rw [hs]; refine ⟨?_, by simp⟩; intro e; cases e <;> rfl
      | fls hs hv => subst hv; rw [hs]; refine ⟨?_, by simp⟩; intro e; cases e <;> rfl
      | str t' b hs _ hv => subst hv; rw [hs]; refine ⟨?_, by simp⟩; intro e; cases e <;> rfl
      | num l hl hv =>
        subst hv
        obtain ⟨hs, _, c0, l', hl0, hc0⟩ := scanNumber_spec hl
        subst hl0
        obtain ⟨h1, h2, _⟩ := numStart_kind c0 hc0
        rw [hs]
        refine ⟨?_, ?_⟩
        · simp only [List.cons_append]
          split
          · rename_i heq; injection heq with e1 _; exact absurd e1 h2
          · rename_i heq; injection heq with e1 _; exact absurd e1 h1
          · intro e; cases e <;> rfl
        · intro x
          simp only [List.cons_append]
          split
          · rename_i heq; injection heq with e1 _; exact absurd e1 h2
          · rename_i heq; injection heq with e1 _; exact absurd e1 h1
          · simp
      | obj0 t' hs h0 hv =>
        subst hv; rw [hs]
        simp only [h0]
        exact ⟨⟨[], rfl, [], [], rfl, .nil, rfl⟩, by simp⟩
      | obj t' kvs hs hne hm hv =>
        subst hv; rw [hs]
        simp only
        exact ⟨⟨kvs, rfl, [], kvs, rfl, .nil, n, r, hm⟩, by simp⟩
      | arr0 t' hs h0 hv =>
        subst hv; rw [hs]
        simp only [h0]
        exact ⟨⟨[], rfl, [], [], rfl, .nil, rfl⟩, by simp⟩
      | arr t' xs hs hne hm hv =>
        subst hv; rw [hs]
        simp only
        exact ⟨⟨xs, rfl, [], xs, rfl, .nil, n, r, hm⟩, by simp⟩
    · cases h
  · cases h

theorem force_rep {n : LNode} {d : JVal} (h : Rep n d) : Rep (force n) d ∧ ∀ x, force n ≠ .raw x := by
  cases n with
  | raw t => exact parseRaw_rep h
  | obj o => exact ⟨h, by simp [force]⟩
  | arr a => exact ⟨h, by simp [force]⟩
  | other => exact ⟨h, by simp [force]⟩

/-- ONE Get / Index on a node in ANY reachable state: the state still stands for the same value, and
    the answer is the child the specification names -/
theorem nodeStep_ok {n : LNode} {d : JVal} (h : Rep n d) (e : PathElem) :
    Rep (nodeStep n e).1 d ∧ AnsOK (nodeStep n e).2 (stepSpec d e) := by
  obtain ⟨hf, hnr⟩ := force_rep h
  unfold nodeStep
  cases hn : force n with
  | raw x => exact absurd hn (hnr x)
  | other =>
    rw [hn] at hf
    simp only
    exact ⟨hf, by rw [hf e]; simp [AnsOK]⟩
  | obj o =>
    rw [hn] at hf
    obtain ⟨kvs, rfl, hinv⟩ := hf
    cases e with
    | key k =>
      obtain ⟨o', a, h1, h2, h3⟩ := getKey_ok k hinv
      simp only [h1]
      exact ⟨⟨kvs, rfl, h2⟩, h3⟩
    | idx i =>
      simp only
      by_cases hi : i < 0
      · simp only [hi, if_true]
        exact ⟨⟨kvs, rfl, hinv⟩, by simp [stepSpec, hi, AnsOK]⟩
      · simp only [hi, if_false]
        obtain ⟨o', a, h1, h2, h3⟩ := getIdxPair_ok i.toNat hinv
        simp only [h1]
        exact ⟨⟨kvs, rfl, h2⟩, by simpa [stepSpec, hi] using h3⟩
  | arr a =>
    rw [hn] at hf
    obtain ⟨xs, rfl, hinv⟩ := hf
    cases e with
    | key k => exact ⟨⟨xs, rfl, hinv⟩, by simp [stepSpec, AnsOK]⟩
    | idx i =>
      simp only
      by_cases hi : i < 0
      · simp only [hi, if_true]
        exact ⟨⟨xs, rfl, hinv⟩, by simp [stepSpec, hi, AnsOK]⟩
      · simp only [hi, if_false]
        obtain ⟨a', r, h1, h2, h3⟩ := getIdx_ok i.toNat hinv
        simp only [h1]
        exact ⟨⟨xs, rfl, h2⟩, by simpa [stepSpec, hi] using h3⟩

/-- pointwise agreement of answers and specified values -/
def AnsAll : List (Option Bytes) → List (Option JVal) → Prop
  | [], [] => True
  | a :: as, w :: ws => AnsOK a w ∧ AnsAll as ws
  | _, _ => False

theorem nodeRun_ok {n : LNode} {d : JVal} (h : Rep n d) (es : List PathElem) :
    AnsAll (nodeRun n es) (es.map (stepSpec d)) := by
  induction es generalizing n with
  | nil => simp [nodeRun, AnsAll]
  | cons e es ih =>
    have := nodeStep_ok h e
    simp only [nodeRun, List.map_cons, AnsAll]
    exact ⟨this.2, ih this.1⟩

theorem nodeGetByPath_ok : ∀ (p : Path) {n : LNode} {d : JVal}, Rep n d →
    Rep (nodeGetByPath n p).1 d ∧ AnsOK (nodeGetByPath n p).2 (pathSpec d p) := by
  intro p
  induction p with
  | nil => intro n d h; exact ⟨h, by simp [nodeGetByPath, pathSpec, AnsOK]⟩
  | cons e p ih =>
    intro n d h
    have hs := nodeStep_ok h e
    cases p with
    | nil => simpa [nodeGetByPath, pathSpec] using hs
    | cons e2 p' =>
      simp only [nodeGetByPath, pathSpec]
      cases ha : (nodeStep n e).2 with
      | none =>
        have : nodeStep n e = ((nodeStep n e).1, none) := by rw [← ha]
        rw [this]
        rw [ha] at hs
        cases hw : stepSpec d e with
        | none => exact ⟨hs.1, by simp [AnsOK]⟩
        | some w => rw [hw] at hs; simp [AnsOK] at hs
      | some raw =>
        have : nodeStep n e = ((nodeStep n e).1, some raw) := by rw [← ha]
        rw [this]
        rw [ha] at hs
        cases hw : stepSpec d e with
        | none => rw [hw] at hs; simp [AnsOK] at hs
        | some w =>
          rw [hw] at hs
          have hrep : Rep (LNode.raw raw) w := by
            have := hs.2
            simpa [AnsOK, Rep] using this
          exact ⟨hs.1, by simpa using (ih hrep).2⟩

theorem nodeRunPaths_ok {n : LNode} {d : JVal} (h : Rep n d) (ps : List Path) :
    AnsAll (nodeRunPaths n ps) (ps.map (pathSpec d)) := by
  induction ps generalizing n with
  | nil => simp [nodeRunPaths, AnsAll]
  | cons p ps ih =>
    have := nodeGetByPath_ok p h
    simp only [nodeRunPaths, List.map_cons, AnsAll]
    exact ⟨this.2, ih this.1⟩

/-- whenever `locate` (encoding/json's reading of the path) finds a value, so does the Node API's
    reading of it, and the same one -/
theorem pathSpec_of_locate : ∀ (p : Path) (d w : JVal), p ≠ [] → locate d p = some w → pathSpec d p = some w := by
  intro p
  induction p with
  | nil => intro d w h; exact absurd rfl h
  | cons e p ih =>
    intro d w _ hl
    unfold locate at hl
    cases p with
    | nil =>
      cases e with
      | key k =>
        cases d <;> simp [locateR, Res.toOption] at hl
        rename_i kvs
        cases hk : lookupKey k kvs with
        | none => rw [hk] at hl; simp [Res.toOption] at hl
        | some v => rw [hk] at hl; simp [locateR, Res.toOption] at hl; subst hl; simp [pathSpec, stepSpec, hk]
      | idx i =>
        cases d <;> simp [locateR, Res.toOption] at hl
        rename_i xs
        by_cases hi : i < 0
        · simp [hi, Res.toOption] at hl
        · simp only [hi, if_false] at hl
          cases hx : xs[i.toNat]? with
          | none => rw [hx] at hl; simp [Res.toOption] at hl
          | some v => rw [hx] at hl; simp [locateR, Res.toOption] at hl; subst hl; simp [pathSpec, stepSpec, hi, hx]
    | cons e2 p' =>
      cases e with
      | key k =>
        cases d <;> simp [locateR, Res.toOption] at hl
        rename_i kvs
        cases hk : lookupKey k kvs with
        | none => rw [hk] at hl; simp [Res.toOption] at hl
        | some v =>
          rw [hk] at hl
          have := ih v w (by simp) (by unfold locate; exact hl)
          simp [pathSpec, stepSpec, hk, this]
      | idx i =>
        cases d <;> simp [locateR, Res.toOption] at hl
        rename_i xs
        by_cases hi : i < 0
        · simp [hi, Res.toOption] at hl
        · simp only [hi, if_false] at hl
          cases hx : xs[i.toNat]? with
          | none => rw [hx] at hl; simp [Res.toOption] at hl
          | some v =>
            rw [hx] at hl
            have := ih v w (by simp) (by unfold locate; exact hl)
            simp [pathSpec, stepSpec, hi, hx, this]


end SonicSpec.Search
