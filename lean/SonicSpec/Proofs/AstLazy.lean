/-
  C15 - children by logical index, overwriting a found slot, nodeAt/pairAt, and the lazy loading loops.
-/
import SonicSpec.Proofs.AstParts
set_option linter.unusedSimpArgs false
namespace SonicSpec.Ast
/-! ### children by logical index -/

def Tree.kidAt (t : Tree) (i : Nat) : Option Tree :=
  match t with
  | .arr xs => xs[i]?
  | .obj kvs => (kvs[i]?).map (·.2)
  | _ => none

def Tree.setKid (t : Tree) (i : Nat) (c : Tree) : Tree :=
  match t with
  | .arr xs => .arr (xs.set i c)
  | .obj kvs => match kvs[i]? with
    | some (k, _) => .obj (kvs.set i (k, c))
    | none => t
  | _ => t

/-- logical index of the physical slot `j` -/
def NodeM.logIdx (n : NodeM) (j : Nat) : Nat :=
  match n with
  | .arr _ st => countLive NodeM.live (st.take j)
  | .arrLazy pre _ => countLive NodeM.live (pre.take j)
  | .obj _ st _ => countLive pairLive (st.take j)
  | .objLazy pre _ => countLive pairLive (pre.take j)
  | _ => 0

/-- physical slot `j` of `m` holds a live, well-formed child, which is child number `i` of `abs m` -/
def FoundAt (m : NodeM) (j i : Nat) : Prop :=
  ∃ c, m.childAt j = some c ∧ c.live = true ∧ c.repOk = true ∧ m.abs.kidAt i = some c.abs ∧ m.logIdx j = i

theorem absElems_getElem (st : List NodeM) (j : Nat) (c : NodeM) (h : st[j]? = some c) (hl : c.live = true) :
    (absElems st)[countLive NodeM.live (st.take j)]? = some c.abs := by
  induction st generalizing j with
  | nil => simp at h
  | cons x xs ih =>
    cases j with
    | zero => simp at h; subst h; simp [absElems, hl, countLive]
    | succ j =>
      have h' : xs[j]? = some c := by simpa using h
      have := ih j h'
      by_cases hx : x.live
      · simp [absElems, hx, List.take_succ_cons, countLive_cons]
        rw [Nat.add_comm]; simpa using this
      · simp [absElems, hx, List.take_succ_cons, countLive_cons]; exact this

theorem absPairs_getElem (st : List PairM) (j : Nat) (p : PairM) (h : st[j]? = some p) (hl : pairLive p = true) :
    (absPairs st)[countLive pairLive (st.take j)]? = some (p.2.1, p.2.2.abs) := by
  induction st generalizing j with
  | nil => simp at h
  | cons x xs ih =>
    obtain ⟨hh, k, v⟩ := x
    cases j with
    | zero => simp at h; subst h; simp [pairLive] at hl; simp [absPairs, hl, countLive]
    | succ j =>
      have h' : xs[j]? = some p := by simpa using h
      have := ih j h'
      by_cases hx : v.live
      · simp [absPairs, hx, List.take_succ_cons, countLive_cons, pairLive]
        rw [Nat.add_comm]; simpa using this
      · simp [absPairs, hx, List.take_succ_cons, countLive_cons, pairLive]; exact this

theorem absElems_set (st : List NodeM) (j : Nat) (c c' : NodeM) (h : st[j]? = some c)
    (hl : c.live = true) (hl' : c'.live = true) :
    absElems (st.set j c') = (absElems st).set (countLive NodeM.live (st.take j)) c'.abs ∧
    countLive NodeM.live (st.set j c') = countLive NodeM.live st := by
  have := filter_set_live NodeM.live st j c c' h hl hl'
  constructor
  · rw [absElems_eq, absElems_eq, this, List.map_set]
  · simp [countLive, this]

theorem absPairs_set (st : List PairM) (j : Nat) (p : PairM) (c' : NodeM) (h : st[j]? = some p)
    (hl : pairLive p = true) (hl' : c'.live = true) :
    absPairs (st.set j (p.1, p.2.1, c')) = (absPairs st).set (countLive pairLive (st.take j)) (p.2.1, c'.abs) ∧
    countLive pairLive (st.set j (p.1, p.2.1, c')) = countLive pairLive st := by
  have := filter_set_live pairLive st j p (p.1, p.2.1, c') h hl (by simpa [pairLive] using hl')
  constructor
  · rw [absPairs_eq, absPairs_eq, this, List.map_set]
  · simp [countLive, this]

theorem repElems_set (st : List NodeM) (j : Nat) (c' : NodeM) (hr : repElems st = true)
    (h' : c'.live = true → c'.repOk = true) : repElems (st.set j c') = true := by
  rw [repElems_iff] at hr ⊢
  intro x hx hlx
  rcases List.mem_or_eq_of_mem_set hx with hx | rfl
  · exact hr x hx hlx
  · exact h' hlx

theorem repPairs_set (st : List PairM) (j : Nat) (p' : PairM) (hr : repPairs st = true)
    (h1 : pairLive p' = true → p'.2.2.repOk = true ∧ p'.1 = some p'.2.1)
    (h2 : pairLive p' = false → p'.2.1 = [] ∧ p'.1 = none) :
    repPairs (st.set j p') = true := by
  rw [repPairs_iff] at hr ⊢
  intro x hx
  rcases List.mem_or_eq_of_mem_set hx with hx | rfl
  · exact hr x hx
  · exact ⟨h1, h2⟩

theorem skel_set_val (st : List PairM) (j : Nat) (p : PairM) (c' : NodeM) (hp : st[j]? = some p)
    (hpl : pairLive p = true) (hl' : c'.live = true) :
    (st.set j (p.1, p.2.1, c')).map skelOf = st.map skelOf := by
  apply List.ext_getElem?
  intro i
  simp only [List.getElem?_map, List.getElem?_set]
  by_cases hij : j = i
  · subst hij
    have hlt : j < st.length := by
      rcases Nat.lt_or_ge j st.length with h | h
      · exact h
      · rw [List.getElem?_eq_none h] at hp; simp at hp
    simp only [if_true, hlt, hp, Option.map_some]
    simp only [pairLive] at hpl
    simp [skelOf, pairLive, hl', hpl]
  · simp [hij]

theorem allLive_set {α : Type} (live : α → Bool) (st : List α) (j : Nat) (y : α) (h : ∀ x ∈ st, live x = true)
    (hy : live y = true) : ∀ x ∈ st.set j y, live x = true := by
  intro x hx
  rcases List.mem_or_eq_of_mem_set hx with hx | rfl
  · exact h x hx
  · exact hy

/-- `*p = node` on a found slot replaces that child in the abstraction and keeps the invariant -/
theorem setChildAt_spec (m : NodeM) (j i : Nat) (c' : NodeM) (hm : m.repOk = true) (hf : FoundAt m j i)
    (hl' : c'.live = true) (hr' : c'.repOk = true) :
    (m.setChildAt j c').abs = m.abs.setKid i c'.abs ∧ (m.setChildAt j c').repOk = true := by
  obtain ⟨c, h1, h2, h3, h4, h5⟩ := hf
  cases m with
  | arr l st =>
    simp only [NodeM.childAt] at h1
    simp only [NodeM.logIdx] at h5
    simp only [NodeM.repOk, Bool.and_eq_true, decide_eq_true_eq] at hm
    obtain ⟨e1, e2⟩ := absElems_set st j c c' h1 h2 hl'
    simp only [NodeM.setChildAt, NodeM.abs, Tree.setKid, e1, h5, NodeM.repOk, Bool.and_eq_true,
      decide_eq_true_eq, e2, hm.2, and_true, true_and]
    exact repElems_set st j c' hm.1 (fun _ => hr')
  | arrLazy pre rest =>
    simp only [NodeM.childAt] at h1
    simp only [NodeM.logIdx] at h5
    simp only [NodeM.repOk, Bool.and_eq_true] at hm
    obtain ⟨⟨hr, hl⟩, hne⟩ := hm
    obtain ⟨e1, e2⟩ := absElems_set pre j c c' h1 h2 hl'
    have hlt : countLive NodeM.live (pre.take j) < (absElems pre).length := by
      have := countLive_take_lt NodeM.live pre j c h1 h2
      simpa [absElems_eq, countLive] using this
    simp only [NodeM.setChildAt, NodeM.abs, Tree.setKid, e1, h5, NodeM.repOk, Bool.and_eq_true, hne, and_true]
    refine ⟨?_, repElems_set pre j c' hr (fun _ => hr'), ?_⟩
    · rw [← h5, List.set_append_left _ _ hlt]
    · rw [allLiveElems_iff] at hl ⊢
      exact allLive_set NodeM.live pre j c' hl hl'
  | obj l st ix =>
    simp only [NodeM.childAt] at h1
    simp only [NodeM.logIdx] at h5
    simp only [NodeM.repOk, Bool.and_eq_true, decide_eq_true_eq] at hm
    obtain ⟨⟨hrp, hlen⟩, hix⟩ := hm
    cases hp : st[j]? with
    | none => simp [hp] at h1
    | some p =>
      simp [hp] at h1
      have hpl : pairLive p = true := by simpa [pairLive, h1] using h2
      obtain ⟨e1, e2⟩ := absPairs_set st j p c' hp hpl hl'
      have hk := absPairs_getElem st j p hp hpl
      have hh := rep_live_hash st hrp p (List.mem_of_getElem? hp) hpl
      have hix' : ixOk (st.set j (p.1, p.2.1, c')) ix = true := by
        rw [ixOk_congr _ _ ix (skel_set_val st j p c' hp hpl hl')]; exact hix
      simp only [NodeM.setChildAt, setVal, hp, NodeM.abs, Tree.setKid, e1, h5, NodeM.repOk, Bool.and_eq_true,
        decide_eq_true_eq, e2, hlen, hix', and_true]
      rw [h5] at hk
      simp only [hk, true_and]
      exact repPairs_set st j _ hrp (fun _ => ⟨hr', hh⟩) (by simp [pairLive, hl'])
  | objLazy pre rest =>
    simp only [NodeM.childAt] at h1
    simp only [NodeM.logIdx] at h5
    simp only [NodeM.repOk, Bool.and_eq_true] at hm
    obtain ⟨⟨hr, hl⟩, hne⟩ := hm
    cases hp : pre[j]? with
    | none => simp [hp] at h1
    | some p =>
      simp [hp] at h1
      have hpl : pairLive p = true := by simpa [pairLive, h1] using h2
      obtain ⟨e1, e2⟩ := absPairs_set pre j p c' hp hpl hl'
      have hk := absPairs_getElem pre j p hp hpl
      have hlt : countLive pairLive (pre.take j) < (absPairs pre).length := by
        have := countLive_take_lt pairLive pre j p hp hpl
        simpa [absPairs_eq, countLive] using this
      rw [h5] at hk hlt
      simp only [NodeM.setChildAt, setVal, hp, NodeM.abs, Tree.setKid, e1, h5, NodeM.repOk, Bool.and_eq_true, hne,
        and_true, List.getElem?_append_left hlt, hk]
      have hh := rep_live_hash pre hr p (List.mem_of_getElem? hp) hpl
      refine ⟨?_, repPairs_set pre j _ hr (fun _ => ⟨hr', hh⟩) (by simp [pairLive, hl']), ?_⟩
      · rw [List.set_append_left _ _ hlt]
      · rw [allLivePairs_iff] at hl ⊢
        exact allLive_set pairLive pre j _ hl (by simpa [pairLive] using hl')
  | _ => simp [NodeM.childAt] at h1



/-! ### `nodeAt` / `pairAt` -/

theorem countLive_take_all {α : Type} (live : α → Bool) (st : List α) (h : ∀ x ∈ st, live x = true) (j : Nat)
    (hj : j ≤ st.length) : countLive live (st.take j) = j := by
  rw [countLive_all live (st.take j) (fun x hx => h x (List.mem_of_mem_take hx))]
  simp; omega

theorem slotAt_spec {α : Type} (live : α → Bool) (l : Nat) (st : List α) (i : Nat)
    (hl : l = countLive live st) (hi : i < l) :
    ∃ p x, slotAt live l st i = some p ∧ st[p]? = some x ∧ live x = true ∧
      (st.filter live)[i]? = some x ∧ countLive live (st.take p) = i := by
  unfold slotAt
  by_cases hne : st.length ≠ l
  · rw [if_pos hne]
    cases hq : nthLive live st i with
    | none => rw [nthLive_none] at hq; omega
    | some p =>
      obtain ⟨x, h1, h2, h3, h4⟩ := nthLive_some live st i p hq
      exact ⟨p, x, rfl, h1, h2, h3, h4⟩
  · have heq : st.length = l := by simpa using hne
    have hall := countLive_eq_length live st (by omega)
    have hi' : i < st.length := by omega
    rw [if_neg hne, if_pos hi']
    refine ⟨i, st[i], rfl, by simp [hi'], hall _ (List.getElem_mem _), ?_, countLive_take_all live st hall i (by omega)⟩
    rw [List.filter_eq_self.mpr hall]; simp [hi']

theorem slotAt_none {α : Type} (live : α → Bool) (l : Nat) (st : List α) (i : Nat)
    (hl : l = countLive live st) (hi : l ≤ i) : slotAt live l st i = none := by
  unfold slotAt
  by_cases hne : st.length ≠ l
  · rw [if_pos hne, nthLive_none]; omega
  · have heq : st.length = l := by simpa using hne
    rw [if_neg hne, if_neg (by omega)]

/-! ### the lazy loops -/

theorem mkLazyArr_spec (pre : List NodeM) (rest : List Tree) (hr : repElems pre = true)
    (hl : ∀ x ∈ pre, x.live = true) :
    (mkLazyArr pre rest).abs = .arr (absElems pre ++ rest) ∧ (mkLazyArr pre rest).repOk = true ∧
    (mkLazyArr pre rest).isRaw = false := by
  cases rest with
  | nil => simp [mkLazyArr, NodeM.abs, NodeM.repOk, NodeM.isRaw, hr, countLive_all _ _ hl]
  | cons y ys => simp [mkLazyArr, NodeM.abs, NodeM.repOk, NodeM.isRaw, hr, (allLiveElems_iff pre).mpr hl]

theorem mkLazyArr_childAt (pre : List NodeM) (rest : List Tree) (j : Nat) :
    (mkLazyArr pre rest).childAt j = pre[j]? ∧ (mkLazyArr pre rest).logIdx j = countLive NodeM.live (pre.take j) := by
  cases rest <;> simp [mkLazyArr, NodeM.childAt, NodeM.logIdx]

theorem skipIndexLazy_spec : ∀ (rest : List Tree) (pre : List NodeM) (index : Nat),
    repElems pre = true → (∀ x ∈ pre, x.live = true) → pre.length ≤ index →
    let r := skipIndexLazy pre rest index
    r.1.abs = .arr (absElems pre ++ rest) ∧ r.1.repOk = true ∧ r.1.isRaw = false ∧
    (match r.2 with
     | some j => FoundAt r.1 j index
     | none => (absElems pre ++ rest)[index]? = none)
  | [], pre, index, hr, hl, hle => by
    simp only [skipIndexLazy, NodeM.abs, NodeM.repOk, NodeM.isRaw, hr, countLive_all _ _ hl, List.append_nil,
      Bool.true_and, decide_true, true_and]
    rw [absElems_eq, List.filter_eq_self.mpr hl]; simp; omega
  | x :: r, pre, index, hr, hl, hle => by
    have hr' : repElems (pre ++ [NodeM.raw x false]) = true := by
      simp [repElems_append, hr, repElems, NodeM.live, NodeM.repOk]
    have hl' : ∀ y ∈ pre ++ [NodeM.raw x false], y.live = true := by
      intro y hy; rcases List.mem_append.mp hy with hy | hy
      · exact hl y hy
      · simp at hy; subst hy; rfl
    have habs : absElems (pre ++ [NodeM.raw x false]) ++ r = absElems pre ++ x :: r := by
      simp [absElems_append, absElems, NodeM.live, NodeM.abs]
    unfold skipIndexLazy
    by_cases hgt : (pre ++ [NodeM.raw x false]).length > index
    · simp only [hgt, if_true]
      obtain ⟨m1, m2, m3⟩ := mkLazyArr_spec (pre ++ [NodeM.raw x false]) r hr' hl'
      obtain ⟨c1, c2⟩ := mkLazyArr_childAt (pre ++ [NodeM.raw x false]) r ((pre ++ [NodeM.raw x false]).length - 1)
      have hidx : index = pre.length := by simp at hgt; omega
      refine ⟨by rw [m1, habs], m2, m3, NodeM.raw x false, ?_, rfl, rfl, ?_, ?_⟩
      · rw [c1]; simp
      · rw [m1, habs, hidx]
        have : (absElems pre).length = pre.length := by rw [absElems_eq, List.filter_eq_self.mpr hl]; simp
        simp [Tree.kidAt, NodeM.abs, List.getElem?_append_right, this]
      · rw [c2, hidx]
        have := countLive_take_all NodeM.live _ hl' pre.length (by simp)
        simpa using this
    · simp only [hgt, if_false]
      have ih := skipIndexLazy_spec r (pre ++ [NodeM.raw x false]) index hr' hl' (by omega)
      simp only [habs] at ih
      exact ih

theorem mkLazyObj_spec (pre : List PairM) (rest : List (Key × Tree)) (hr : repPairs pre = true)
    (hl : ∀ x ∈ pre, pairLive x = true) :
    (mkLazyObj pre rest).abs = .obj (absPairs pre ++ rest) ∧ (mkLazyObj pre rest).repOk = true ∧
    (mkLazyObj pre rest).isRaw = false := by
  cases rest with
  | nil =>
    obtain ⟨m1, m2⟩ := mkObject_spec pre hr hl
    simp only [mkLazyObj, m1, m2, List.append_nil, true_and]
    simp [mkObject, NodeM.isRaw]
  | cons y ys => simp [mkLazyObj, NodeM.abs, NodeM.repOk, NodeM.isRaw, hr, (allLivePairs_iff pre).mpr hl]

theorem mkLazyObj_childAt (pre : List PairM) (rest : List (Key × Tree)) (j : Nat) :
    (mkLazyObj pre rest).childAt j = (pre[j]?).map (·.2.2) ∧
    (mkLazyObj pre rest).logIdx j = countLive pairLive (pre.take j) := by
  cases rest <;> simp [mkLazyObj, mkObject, NodeM.childAt, NodeM.logIdx]

theorem absPairs_length_all (pre : List PairM) (hl : ∀ x ∈ pre, pairLive x = true) :
    (absPairs pre).length = pre.length := by
  rw [absPairs_eq, List.filter_eq_self.mpr hl]; simp

theorem rawPair_facts (pre : List PairM) (x : Key × Tree) (hr : repPairs pre = true)
    (hl : ∀ y ∈ pre, pairLive y = true) :
    repPairs (pre ++ [rawPair x]) = true ∧ (∀ y ∈ pre ++ [rawPair x], pairLive y = true) ∧
    (∀ r, absPairs (pre ++ [rawPair x]) ++ r = absPairs pre ++ x :: r) := by
  obtain ⟨k, v⟩ := x
  refine ⟨by simp [repPairs_append, hr, repPairs, rawPair, mkPair, NodeM.live, NodeM.repOk], ?_, ?_⟩
  · intro y hy; rcases List.mem_append.mp hy with hy | hy
    · exact hl y hy
    · simp at hy; subst hy; rfl
  · intro r; simp [absPairs_append, absPairs, rawPair, mkPair, NodeM.live, NodeM.abs]

theorem skipIndexPairLazy_spec : ∀ (rest : List (Key × Tree)) (pre : List PairM) (index : Nat),
    repPairs pre = true → (∀ x ∈ pre, pairLive x = true) → pre.length ≤ index →
    let r := skipIndexPairLazy pre rest index
    r.1.abs = .obj (absPairs pre ++ rest) ∧ r.1.repOk = true ∧ r.1.isRaw = false ∧
    (match r.2 with
     | some j => FoundAt r.1 j index
     | none => (absPairs pre ++ rest)[index]? = none)
  | [], pre, index, hr, hl, hle => by
    obtain ⟨m1, m2⟩ := mkObject_spec pre hr hl
    simp only [skipIndexPairLazy, m1, m2, List.append_nil, true_and]
    have := absPairs_length_all pre hl
    refine ⟨by simp [mkObject, NodeM.isRaw], ?_⟩
    simp; omega
  | x :: r, pre, index, hr, hl, hle => by
    obtain ⟨hr', hl', habs⟩ := rawPair_facts pre x hr hl
    unfold skipIndexPairLazy
    by_cases hgt : (pre ++ [rawPair x]).length > index
    · simp only [hgt, if_true]
      obtain ⟨m1, m2, m3⟩ := mkLazyObj_spec (pre ++ [rawPair x]) r hr' hl'
      obtain ⟨c1, c2⟩ := mkLazyObj_childAt (pre ++ [rawPair x]) r ((pre ++ [rawPair x]).length - 1)
      have hidx : index = pre.length := by simp at hgt; omega
      refine ⟨by rw [m1, habs], m2, m3, NodeM.raw x.2 false, ?_, rfl, rfl, ?_, ?_⟩
      · rw [c1]; simp [rawPair, mkPair]
      · rw [m1, habs, hidx]
        have := absPairs_length_all pre hl
        simp [Tree.kidAt, NodeM.abs, List.getElem?_append_right, this]
      · rw [c2, hidx]
        have := countLive_take_all pairLive _ hl' pre.length (by simp)
        simpa using this
    · simp only [hgt, if_false]
      have ih := skipIndexPairLazy_spec r (pre ++ [rawPair x]) index hr' hl' (by omega)
      simp only [habs] at ih
      exact ih

theorem findKey_append_none {β : Type} (k : Key) (b : List (Key × β)) :
    ∀ a : List (Key × β), findKey k a = none → findKey k (a ++ b) = (findKey k b).map (· + a.length)
  | [], _ => by simp
  | (k', v) :: r, h => by
    unfold findKey at h
    by_cases hk : k' = k
    · simp [hk] at h
    · simp only [hk, if_false, Option.map_eq_none_iff] at h
      simp only [List.cons_append, findKey, hk, if_false, findKey_append_none k b r h, Option.map_map]
      congr 1

theorem skipKeyLazy_spec : ∀ (rest : List (Key × Tree)) (pre : List PairM) (key : Key),
    repPairs pre = true → (∀ x ∈ pre, pairLive x = true) → findKey key (absPairs pre) = none →
    let r := skipKeyLazy pre rest key
    r.1.abs = .obj (absPairs pre ++ rest) ∧ r.1.repOk = true ∧ r.1.isRaw = false ∧
    (match r.2 with
     | some j => ∃ i, FoundAt r.1 j i ∧ findKey key (absPairs pre ++ rest) = some i
     | none => findKey key (absPairs pre ++ rest) = none ∧ ∃ l st ix, r.1 = .obj l st ix)
  | [], pre, key, hr, hl, hnf => by
    obtain ⟨m1, m2⟩ := mkObject_spec pre hr hl
    simp only [skipKeyLazy, m1, m2, List.append_nil, true_and, hnf]
    exact ⟨by simp [mkObject, NodeM.isRaw], _, _, _, rfl⟩
  | x :: r, pre, key, hr, hl, hnf => by
    obtain ⟨hr', hl', habs⟩ := rawPair_facts pre x hr hl
    have hlen := absPairs_length_all pre hl
    unfold skipKeyLazy
    by_cases hk : x.1 = key
    · simp only [hk, if_true]
      obtain ⟨m1, m2, m3⟩ := mkLazyObj_spec (pre ++ [rawPair x]) r hr' hl'
      obtain ⟨c1, c2⟩ := mkLazyObj_childAt (pre ++ [rawPair x]) r ((pre ++ [rawPair x]).length - 1)
      refine ⟨by rw [m1, habs], m2, m3, pre.length, ⟨NodeM.raw x.2 false, ?_, rfl, rfl, ?_, ?_⟩, ?_⟩
      · rw [c1]; simp [rawPair, mkPair]
      · rw [m1, habs]
        simp [Tree.kidAt, NodeM.abs, List.getElem?_append_right, hlen]
      · rw [c2]
        have := countLive_take_all pairLive _ hl' pre.length (by simp)
        simpa using this
      · rw [findKey_append_none key _ _ hnf]
        obtain ⟨k, v⟩ := x
        simp at hk; subst hk
        simp [findKey, hlen]
    · simp only [hk, if_false]
      have hnf' : findKey key (absPairs (pre ++ [rawPair x])) = none := by
        have := habs []
        simp only [List.append_nil] at this
        rw [this, findKey_append_none key _ _ hnf]
        obtain ⟨k, v⟩ := x
        simp at hk
        simp [findKey, hk]
      have ih := skipKeyLazy_spec r (pre ++ [rawPair x]) key hr' hl' hnf'
      simp only [habs] at ih
      exact ih

end SonicSpec.Ast
