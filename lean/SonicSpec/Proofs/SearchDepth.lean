/-
  C14 helper lemmas, part 6: the depth-bounded Preorder traverser on valid input fails with the
  depth error exactly when the real nesting depth exceeds the bound, and otherwise delivers the
  flattening of the tree.
-/
import SonicSpec.Proofs.SearchRaw
namespace SonicSpec.Search
open SonicSpec SonicSpec.Json

theorem travValD_num {L n k : Nat} {c0 : UInt8} {t l r : Bytes} (hc : c0 = 45 ∨ isDigit c0 = true)
    (h : scanNumber (c0 :: t) = some (l, r)) : travValD L (n + 1) k (c0 :: t) = .ok ([.num l], r) := by
  obtain ⟨h1, h2, h3, h4, h5, h6⟩ := numStart_kind c0 hc
  unfold travValD
  split
  · rename_i heq; injection heq with e _; exact absurd e h5
  · rename_i heq; injection heq with e _; exact absurd e h4
  · rename_i heq; injection heq with e _; exact absurd e h6
  · rename_i heq; injection heq with e _; exact absurd e h3
  · rename_i heq; injection heq with e _; exact absurd e h1
  · rename_i heq; injection heq with e _; exact absurd e h2
  · simp [h]

/-- on the text of a strictly valid value the bounded traverser succeeds with the flattening iff
    the nesting fits, and fails with the depth error otherwise -/
theorem travD_valid (L : Nat) : ∀ n,
    (∀ k s v r, k ≤ L → parseVal n s = some (v, r) →
      travValD L n k s = if k + depth v ≤ L then .ok (flatten v, r) else .tooDeep) ∧
    (∀ k s xs r, k ≤ L → parseElems n s = some (xs, r) →
      travElemsD L n k s = if k + depthElems xs ≤ L then .ok (flattenElems xs ++ [Event.arrEnd], r) else .tooDeep) ∧
    (∀ k s kvs r, k ≤ L → parseMembers n s = some (kvs, r) →
      travMembersD L n k s = if k + depthMembers kvs ≤ L then .ok (flattenMembers kvs ++ [Event.objEnd], r) else .tooDeep) := by
  intro n
  induction n with
  | zero =>
    refine ⟨?_, ?_, ?_⟩
    · intro k s v r _ h; rw [parseVal_zero] at h; cases h
    · intro k s v r _ h; rw [parseElems_zero] at h; cases h
    · intro k s v r _ h; rw [parseMembers_zero] at h; cases h
  | succ n ih =>
    obtain ⟨ihv, ihe, ihm⟩ := ih
    refine ⟨?_, ?_, ?_⟩
    · intro k s v r hkL h
      cases parseVal_inv h with
      | null hs hv => subst hv hs; unfold travValD; simp [depth, flatten, hkL]
      | tru hs hv => subst hv hs; unfold travValD; simp [depth, flatten, hkL]
      | fls hs hv => subst hv hs; unfold travValD; simp [depth, flatten, hkL]
      | str t b hs hb hv => subst hv hs; unfold travValD; simp [depth, flatten, hb, hkL]
      | arr0 t hs h0 hv =>
        subst hv hs; unfold travValD
        simp only [h0, depth, depthElems, flatten, flattenElems]
        by_cases hk : k ≥ L
        · have : ¬ (k + (1 + 0) ≤ L) := by omega
          simp [hk, this]
        · have : k + (1 + 0) ≤ L := by omega
          simp [hk, this]
      | obj0 t hs h0 hv =>
        subst hv hs; unfold travValD
        simp only [h0, depth, depthMembers, flatten, flattenMembers]
        by_cases hk : k ≥ L
        · have : ¬ (k + (1 + 0) ≤ L) := by omega
          simp [hk, this]
        · have : k + (1 + 0) ≤ L := by omega
          simp [hk, this]
      | arr t xs hs hne he hv =>
        subst hv hs; unfold travValD
        simp only [depth, flatten]
        by_cases hk : k ≥ L
        · have : ¬ (k + (1 + depthElems xs) ≤ L) := by omega
          simp [hk, this]
        · simp only [hk, if_false]
          rw [ihe (k + 1) _ _ _ (by omega) he]
          by_cases hd : k + 1 + depthElems xs ≤ L
          · have : k + (1 + depthElems xs) ≤ L := by omega
            simp [hd, this]
          · have : ¬ (k + (1 + depthElems xs) ≤ L) := by omega
            simp [hd, this]
      | obj t kvs hs hne hm hv =>
        subst hv hs; unfold travValD
        simp only [depth, flatten]
        by_cases hk : k ≥ L
        · have : ¬ (k + (1 + depthMembers kvs) ≤ L) := by omega
          simp [hk, this]
        · simp only [hk, if_false]
          rw [ihm (k + 1) _ _ _ (by omega) hm]
          by_cases hd : k + 1 + depthMembers kvs ≤ L
          · have : k + (1 + depthMembers kvs) ≤ L := by omega
            simp [hd, this]
          · have : ¬ (k + (1 + depthMembers kvs) ≤ L) := by omega
            simp [hd, this]
      | num l hl hv =>
        subst hv
        obtain ⟨hs, _, c0, l', hl0, hc0⟩ := scanNumber_spec hl
        subst hl0
        rw [hs] at hl ⊢
        have e : (c0 :: l') ++ r = c0 :: (l' ++ r) := rfl
        rw [e] at hl ⊢
        rw [travValD_num hc0 hl]
        simp [depth, flatten, hkL]
    · intro k s xs r hkL h
      obtain ⟨v, r1, hv, hrest⟩ := parseElems_inv h
      unfold travElemsD
      rw [ihv k _ _ _ hkL hv]
      rcases hrest with ⟨t, xs', hc, he, rfl⟩ | ⟨hc, rfl⟩
      · simp only [depthElems, flattenElems]
        by_cases h1 : k + depth v ≤ L
        · simp only [h1, if_true, hc]
          rw [ihe k _ _ _ hkL he]
          by_cases h2 : k + depthElems xs' ≤ L
          · have : k + max (depth v) (depthElems xs') ≤ L := by omega
            simp [h2, this]
          · have : ¬ (k + max (depth v) (depthElems xs') ≤ L) := by omega
            simp [h2, this]
        · have : ¬ (k + max (depth v) (depthElems xs') ≤ L) := by omega
          simp [h1, this]
      · simp only [depthElems, flattenElems]
        by_cases h1 : k + depth v ≤ L
        · have : k + max (depth v) 0 ≤ L := by omega
          simp [h1, this, hc]
        · have : ¬ (k + max (depth v) 0 ≤ L) := by omega
          simp [h1, this]
    · intro k s kvs r hkL h
      obtain ⟨t, key, r1, r2, v, r3, hs, hk, h58, hv, hrest⟩ := parseMembers_inv h
      subst hs
      unfold travMembersD
      simp only [hk, h58]
      rw [ihv k _ _ _ hkL hv]
      rcases hrest with ⟨t', kvs', hc, hm, rfl⟩ | ⟨hc, rfl⟩
      · simp only [depthMembers, flattenMembers]
        by_cases h1 : k + depth v ≤ L
        · simp only [h1, if_true, hc]
          rw [ihm k _ _ _ hkL hm]
          by_cases h2 : k + depthMembers kvs' ≤ L
          · have : k + max (depth v) (depthMembers kvs') ≤ L := by omega
            simp [h2, this]
          · have : ¬ (k + max (depth v) (depthMembers kvs') ≤ L) := by omega
            simp [h2, this]
        · have : ¬ (k + max (depth v) (depthMembers kvs') ≤ L) := by omega
          simp [h1, this]
      · simp only [depthMembers, flattenMembers]
        by_cases h1 : k + depth v ≤ L
        · have : k + max (depth v) 0 ≤ L := by omega
          simp [h1, this, hc]
        · have : ¬ (k + max (depth v) 0 ≤ L) := by omega
          simp [h1, this]

end SonicSpec.Search
