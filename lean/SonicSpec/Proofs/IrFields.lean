/-
  Encoder IR, compiler correctness (6): the field loop of compileStructBody.
-/
import SonicSpec.Proofs.IrFieldStep
namespace SonicSpec.Ir
open SonicSpec SonicSpec.Go SonicSpec.Enc SonicSpec.Json
variable {o : EncOpts} {co : COpts}

theorem codeFields_none (lv : Nat) (tab : List GoType) (sp : Nat) (pv : Bool) (n : String) (tg : Option Bytes) (t : GoType) (fs : List (String × Option Bytes × GoType))
    (ks : List (Option Field)) (off : Nat) (offs : List Nat) (i pc : Nat) :
    codeFields co (libK co lv) tab sp pv ((n, tg, t) :: fs) (none :: ks) (off :: offs) i pc = codeFields co (libK co lv) tab sp pv fs ks offs (i + 1) pc := by
  rw [codeFields.eq_1]; rfl

theorem codeFields_some (lv : Nat) (tab : List GoType) (sp : Nat) (pv : Bool) (n : String) (tg : Option Bytes) (t : GoType) (fs : List (String × Option Bytes × GoType))
    (f : Field) (ks : List (Option Field)) (off : Nat) (offs : List Nat) (i pc : Nat) :
    codeFields co (libK co lv) tab sp pv ((n, tg, t) :: fs) (some f :: ks) (off :: offs) i pc =
      fieldCode co f t (fun pc' => code co (libK co lv) tab pc' (sp + 1) pv t) (elemCode co (libK co lv) tab t (sp + 1) pv) i off pc ++
      codeFields co (libK co lv) tab sp pv fs ks offs (i + 1)
        (pc + (fieldCode co f t (fun pc' => code co (libK co lv) tab pc' (sp + 1) pv t) (elemCode co (libK co lv) tab t (sp + 1) pv) i off pc).length) := by
  rw [codeFields.eq_2]; rfl

theorem need_le_needF_head (t : GoType) (n : String) (tg : Option Bytes) (fs : List (String × Option Bytes × GoType)) (v : GoVal) (vs : List GoVal) :
    needV t v ≤ needF ((n, tg, t) :: fs) (v :: vs) ∧ needF fs vs ≤ needF ((n, tg, t) :: fs) (v :: vs) := by
  simp only [needF]; omega

theorem regs_cond_and (fr : Regs) (c : Bool) : ({ fr with cond := c && true } : Regs) = { fr with cond := c } := by simp

theorem encF_some_eq (addr : Bool) (f : Field) (ks : List (Option Field)) (v : GoVal) (vs : List GoVal) :
    encF o addr (some f :: ks) (v :: vs) =
      if fieldSkip f f.typ v then encF o addr ks vs
      else (fieldSpec o addr f f.typ v).bind fun j => (encF o addr ks vs).bind fun js => .ok ((nameKey o f.name, j) :: js) := by
  rw [encF]
  unfold fieldSkip fieldSpec
  split
  · rfl
  · cases f.quoted <;> rfl

/-- the loop of compileStructBody over the declared fields from selector `i` on -/
theorem fields_ok {addr fpv : Bool} {P : Program} {sp : Nat} {pv : Bool} {lv : Nat} {tab : List GoType} (hlv : libLeft tab ≤ lv)
    (fr : Regs) (vs : List GoVal) (hfr : fr.p.get = some (.st vs)) (s : Stack)
    (hIH : ∀ v ∈ vs, ∀ t, Sub t = true → Conf co t v = true → CodeOK o co t v)
    (hIH2 : ∀ w, GoVal.ptr w ∈ vs → ∀ e, Sub e = true → Conf co e w = true → CodeOK o co e w) :
    ∀ (fs : List (String × Option Bytes × GoType)) (ks : List (Option Field)) (offs : List Nat) (vsR : List GoVal) (i pc : Nat) (c : Bool) (b : Bytes),
      Aligned fs ks → SubF fs = true → subK ks = true → ConfF co fs ks vsR = true → offs.length = fs.length → vs.drop i = vsR →
      (fr :: s).length + needF fs vsR ≤ maxStack →
      At P pc (codeFields co (libK co lv) tab sp pv fs ks offs i pc) →
      (∀ ms, encF o addr ks vsR = .ok ms → ∀ res,
          Halts o co fpv P (pc + (codeFields co (libK co lv) tab sp pv fs ks offs i pc).length) { fr with cond := c && ms.isEmpty } (fr :: s) (b ++ emitM c ms) res →
          Halts o co fpv P pc { fr with cond := c } (fr :: s) b res) ∧
      (∀ e, encF o addr ks vsR = .error e → e = .unsupportedValue ∧ Halts o co fpv P pc { fr with cond := c } (fr :: s) b (.error (.enc e))) := by
  intro fs
  induction fs with
  | nil =>
    intro ks offs vsR i pc c b hal _ _ hC _ _ _ _
    cases ks with
    | cons k ks => simp [Aligned] at hal
    | nil =>
      cases vsR with
      | cons v r => simp [ConfF] at hC
      | nil =>
        constructor
        · intro ms hms res h
          simp only [encF] at hms
          injection hms with hms; subst hms
          exact halts_cast h (by simp [codeFields]) (by simp) rfl (by simp [emitM])
        · intro e he; simp only [encF] at he; cases he
  | cons d fs ih =>
    intro ks offs vsR i pc c b hal hS hK hC hoff hdrop hroom hat
    obtain ⟨n, tg, t⟩ := d
    cases ks with
    | nil => simp [Aligned] at hal
    | cons k ks =>
    cases vsR with
    | nil => simp [ConfF] at hC
    | cons v vsR =>
    cases offs with
    | nil => simp at hoff
    | cons off offs =>
    simp only [Aligned] at hal
    simp only [SubF, Bool.and_eq_true] at hS
    simp only [ConfF, Bool.and_eq_true] at hC
    obtain ⟨hget, hdrop'⟩ := drop_getElem? hdrop
    have hmem : v ∈ vs := List.mem_of_getElem? hget
    have hoff' : offs.length = fs.length := by simpa using hoff
    obtain ⟨hn1, hn2⟩ := need_le_needF_head t n tg fs v vsR
    cases k with
    | none =>
      rw [codeFields_none] at hat ⊢
      simp only [subK] at hK
      simp only [encF]
      exact ih ks offs vsR (i + 1) pc c b hal.2 hS.2 hK hC.2 hoff' hdrop' (by omega) hat
    | some f =>
      rw [codeFields_some] at hat ⊢
      simp only [subK, Bool.and_eq_true, Bool.not_eq_true'] at hK
      obtain ⟨htyp, hq⟩ := hal.1 f rfl
      have hfld : (!(f.omitEmpty && negZero v)) = true ∧ omitNullOK co f t v = true := by
        have := hC.1.2
        simpa only [Bool.and_eq_true] using this
      have hnz : (f.omitEmpty && negZero v) = false := by
        have := hfld.1
        cases h1 : f.omitEmpty <;> cases h2 : negZero v <;> simp_all
      generalize hfc : fieldCode co f t (fun pc' => code co (libK co lv) tab pc' (sp + 1) pv t) (elemCode co (libK co lv) tab t (sp + 1) pv) i off pc = fc at hat ⊢
      obtain ⟨fskip, fkeep⟩ := field_ok (o := o) (co := co) (addr := addr) (fpv := fpv) (P := P) (sp := sp + 1) (pv := pv) (i := i) (off := off)
        hlv hfld.2 hC.1.1 hnz hq (by rw [← htyp]; exact hK.1)
        (hIH v hmem t hS.1 hC.1.1)
        (fun e w ht hv hst => by
          subst ht hv
          simp only [Sub] at hS
          simp only [Conf] at hC
          have hncb : cbPtr e = false := by cases e <;> first | rfl | (simp [stringable] at hst)
          rw [hncb, Bool.or_false] at hS
          exact hIH2 w hmem e hS.1 hC.1.1)
        fr hfr hget s (by omega) pc c b (hfc ▸ hat.left)
      rw [hfc] at fskip fkeep
      have hrest := At.right' (q := pc + fc.length) hat rfl
      rw [encF_some_eq, htyp]
      cases hskip : fieldSkip f t v with
      | true =>
        simp only [if_true]
        obtain ⟨rok, rerr⟩ := ih ks offs vsR (i + 1) (pc + fc.length) c b hal.2 hS.2 hK.2 hC.2 hoff' hdrop' (by omega) hrest
        constructor
        · intro ms hms res h
          refine fskip hskip res (rok ms hms res ?_)
          exact halts_cast h (by simp <;> omega) rfl rfl rfl
        · intro e he
          obtain ⟨h1, h2⟩ := rerr e he
          exact ⟨h1, fskip hskip _ h2⟩
      | false =>
        simp only [Bool.false_eq_true, if_false]
        obtain ⟨vok, verr⟩ := fkeep hskip
        constructor
        · intro ms hms res h
          simp only [Except.bind] at hms
          split at hms
          · cases hms
          · rename_i j hj
            split at hms
            · cases hms
            · rename_i js hjs
              injection hms with hms; subst hms
              refine vok j hj res ?_
              obtain ⟨rok, _⟩ := ih ks offs vsR (i + 1) (pc + fc.length) false (b ++ ((if c then [] else [44]) ++ memb (nameKey o f.name, j)))
                hal.2 hS.2 hK.2 hC.2 hoff' hdrop' (by omega) hrest
              refine rok js hjs res ?_
              exact halts_cast h (by simp <;> omega) (by simp) rfl (by simp [emitM])
        · intro e he
          simp only [Except.bind] at he
          split at he
          · rename_i e' hj
            injection he with he; subst he
            exact verr _ hj
          · rename_i j hj
            split at he
            · rename_i e' hjs
              injection he with he; subst he
              obtain ⟨_, rerr⟩ := ih ks offs vsR (i + 1) (pc + fc.length) false (b ++ ((if c then [] else [44]) ++ memb (nameKey o f.name, j)))
                hal.2 hS.2 hK.2 hC.2 hoff' hdrop' (by omega) hrest
              obtain ⟨h1, h2⟩ := rerr _ hjs
              exact ⟨h1, vok j hj _ h2⟩
            · cases he

end SonicSpec.Ir
