/-
  Decoder IR: compiler correctness on the sub-universe - by induction on the specification's fuel, every successful
  result of the single-pass specification is what the compiled program does (`all_ok`); `exec` as a function; the
  bounded value stack (`_MaxStack`).
-/
import SonicSpec.Proofs.DirArray
namespace SonicSpec.Dir
open SonicSpec SonicSpec.Go SonicSpec.Json SonicSpec.Bind SonicSpec.Stream

variable {o : DecOpts} {co : COpts}

theorem opsOK_all (n : Nat) (hco : 0 < co.maxInlineDepth) (ihE : ElemsOK o co n) (ihA : ArrOK o co n) (ihS : StructOK o co n) :
    ∀ B, Sub B = true → notPtr B = true → OpsOK o co (n + 1) B
  | .bool, _, _ => opsOK_bool (n + 1)
  | .int w, hs, _ => opsOK_int (n + 1) w (by simpa [Sub] using hs)
  | .uint w, hs, _ => opsOK_uint (n + 1) w (by simpa [Sub] using hs)
  | .str, _, _ => opsOK_str (n + 1)
  | .f32, _, _ => opsOK_f32 (n + 1)
  | .f64, _, _ => opsOK_f64 (n + 1)
  | .any, _, _ => opsOK_any (n + 1)
  | .sl t, hs, _ => opsOK_sl n ihE t hs
  | .arr N t, hs, _ => opsOK_arr n ihA N t hs
  | .st fs, hs, _ => opsOK_st n hco ihS fs hs
  | .ptr _, _, hp => by simp [notPtr] at hp
  | .num, h, _ | .bytes, h, _ | .raw, h, _ | .map _ _, h, _ | .lib _, h, _ => by simp [Sub] at h

theorem opsOK_zero (B : GoType) : OpsOK o co 0 B := by
  intro s cur v e r _ _ h
  rw [dv_zero] at h; cases h

/-- THE SIMULATION: for every fuel of the specification, compileOne / the slice loop / the array loop / the member loop
    do what the specification's successful results say -/
theorem all_ok (hco : 0 < co.maxInlineDepth) : ∀ n : Nat, ValOK o co n ∧ ElemsOK o co n ∧ ArrOK o co n ∧ StructOK o co n
  | 0 => ⟨valOK_of_ops 0 (fun B _ _ => opsOK_zero B), elemsOK_zero, arrOK_zero, structOK_zero⟩
  | n + 1 => by
    obtain ⟨ihV, ihE, ihA, ihS⟩ := all_ok hco n
    exact ⟨valOK_of_ops (n + 1) (opsOK_all n hco ihE ihA ihS), elemsOK_succ n ihV ihE, arrOK_succ n ihV ihA, structOK_succ n ihV ihS⟩

/-! ### `exec` as a function -/

/-- the machine returns `res` on program `P`, input `s` and destination `dest` (with some, hence any larger, fuel) -/
def Exec (o : DecOpts) (co : COpts) (lim : Option Nat) (P : Program) (s : Bytes) (dest : GoVal) (res : Except XErr GoVal) : Prop :=
  ∃ n, execFuel n o co lim P s dest = some res

theorem exec_unique {lim : Option Nat} {P : Program} {s : Bytes} {dest : GoVal} {a c : Except XErr GoVal}
    (ha : Exec o co lim P s dest a) (hc : Exec o co lim P s dest c) : a = c := by
  obtain ⟨n, hn⟩ := ha
  obtain ⟨m, hm⟩ := hc
  unfold execFuel at hn hm
  cases h1 : run o co lim n P 0 (St.start s dest) with
  | none => rw [h1] at hn; cases hn
  | some r1 =>
    cases h2 : run o co lim m P 0 (St.start s dest) with
    | none => rw [h2] at hm; cases hm
    | some r2 =>
      have := Halts.unique ⟨n, h1⟩ ⟨m, h2⟩
      subst this
      rw [h1] at hn; rw [h2] at hm
      simp only [Option.map] at hn hm
      injection hn with hn; injection hm with hm
      rw [← hn, ← hm]

/-- `exec : DecOpts → Program → Bytes → GoVal → Except _ GoVal`, the result of the machine (the executable form is
    `Dir.execFuel`; a run that never returns counts as `stuck`) -/
noncomputable def exec (o : DecOpts) (co : COpts) (lim : Option Nat) (P : Program) (s : Bytes) (dest : GoVal) : Except XErr GoVal :=
  open Classical in if h : ∃ res, Exec o co lim P s dest res then Classical.choose h else .error .stuck

theorem exec_eq_of_fuel {lim : Option Nat} {P : Program} {s : Bytes} {dest : GoVal} {n : Nat} {res : Except XErr GoVal}
    (h : execFuel n o co lim P s dest = some res) : exec o co lim P s dest = res := by
  have hex : ∃ res, Exec o co lim P s dest res := ⟨res, n, h⟩
  unfold exec
  rw [dif_pos hex]
  exact exec_unique (Classical.choose_spec hex) ⟨n, h⟩

theorem exec_of_halts {lim : Option Nat} {P : Program} {s : Bytes} {dest : GoVal} {out : Out}
    (h : Halts o co lim P 0 (St.start s dest) out) : exec o co lim P s dest = finish out := by
  obtain ⟨n, hn⟩ := h
  exact exec_eq_of_fuel (n := n) (by unfold execFuel; rw [hn]; rfl)

/-! ### the run of a whole document -/

theorem decode_ok_inv {T : GoType} {s : Bytes} {v : GoVal} (h : Stream.decode o T s = .ok v) :
    ∃ r, decodeVal o (s.length + 1) T (skipWs s) (zeroOf T) = .ok (v, none, r) ∧ (skipWs r).isEmpty = true := by
  unfold Stream.decode Stream.decodeFull at h
  cases hd : decodeVal o (s.length + 1) T (skipWs s) (zeroOf T) with
  | error x => rw [hd] at h; cases h
  | ok q =>
    obtain ⟨v', e, r⟩ := q
    rw [hd] at h
    simp only at h
    by_cases hr : (skipWs r).isEmpty = true
    · rw [if_pos hr] at h
      cases e with
      | none => simp only at h; injection h with h; subst h; exact ⟨r, rfl, hr⟩
      | some x => cases h
    · rw [if_neg hr] at h; cases h

/-- the compiled program of `T` run on the whole document from ANY value stack `stk` (unbounded): it returns, with the
    specification's value at the destination, no error saved, and exactly the stack it found -/
theorem run_compile_ok (hco : 0 < co.maxInlineDepth) {T : GoType} (hs : Sub T = true) {s : Bytes} {v : GoVal}
    (h : Stream.decode o T s = .ok v) (stk : List Frame) :
    ∃ σ' r, Halts o co none (compile co T) 0 { St.start s (zeroOf T) with stack := stk } (.ok σ') ∧
      σ'.inp = r ∧ (skipWs r).isEmpty = true ∧ σ'.root = v ∧ σ'.et = none ∧ σ'.stack = stk := by
  obtain ⟨r, hd, hr⟩ := decode_ok_inv h
  have hval := (all_ok (o := o) hco (s.length + 1)).1 T s (zeroOf T) v none r hs (wt_zero T hs) hd
  have hat : At (compile co T) 0 (one co (libK co (co.maxInlineDepth + 2)) [] 0 0 T).1 := At.whole _
  have hsim := hval.2 (libK co (co.maxInlineDepth + 2)) [] (compile co T) 0 0 (above_nil T) hat
    { St.start s (zeroOf T) with stack := stk } rfl (getAt_nil _)
  obtain ⟨out, hh, hR⟩ := hsim (fun out => ∃ σ', out = .ok σ' ∧ σ'.inp = r ∧ σ'.root = v ∧ σ'.et = none ∧ σ'.stack = stk)
    (fun hne => absurd rfl hne) (by
      intro σ' hp
      refine ends_done (At.end_none (by simp [compile])) ⟨σ', rfl, hp.1, ?_, ?_, hp.2.2.1⟩
      · rw [hp.2.1]; exact setAt_nil _ _
      · rw [hp.2.2.2]; rfl)
  obtain ⟨σ', ho, h1, h2, h3, h4⟩ := hR
  subst ho
  exact ⟨σ', r, hh, h1, hr, h2, h3, h4⟩

/-- ... hence `exec` (unbounded stack) returns the specification's value -/
theorem exec_of_stream_ok (hco : 0 < co.maxInlineDepth) {T : GoType} (hs : Sub T = true) {s : Bytes} {v : GoVal}
    (h : Stream.decode o T s = .ok v) : exec o co none (compile co T) s (zeroOf T) = .ok v := by
  obtain ⟨σ', r, hh, h1, hr, h2, h3, _⟩ := run_compile_ok (co := co) hco hs h []
  have hh' : Halts o co none (compile co T) 0 (St.start s (zeroOf T)) (.ok σ') := hh
  rw [exec_of_halts hh']
  simp only [finish, h1, hr, if_true, h3, h2]

/-- whenever the specification gets through the value without a syntax error - it may have saved a type error, and
    anything may follow the value - the program accepts exactly when the specification does, with the same value -/
theorem exec_toOption_of_decodeVal (hco : 0 < co.maxInlineDepth) {T : GoType} (hs : Sub T = true) {s : Bytes} {v : GoVal}
    {e : Option DErr} {r : Bytes} (hd : decodeVal o (s.length + 1) T (skipWs s) (zeroOf T) = .ok (v, e, r)) :
    (exec o co none (compile co T) s (zeroOf T)).toOption = (Stream.decode o T s).toOption := by
  by_cases hok : e = none ∧ (skipWs r).isEmpty = true
  · obtain ⟨he, hr⟩ := hok
    subst he
    have hdec : Stream.decode o T s = .ok v := by
      unfold Stream.decode Stream.decodeFull
      rw [hd]; simp only [hr, if_true]
    rw [exec_of_stream_ok (co := co) hco hs hdec, hdec]
    rfl
  · -- the specification refuses: so does the program
    have hdec : ∃ x, Stream.decode o T s = .error x := by
      unfold Stream.decode Stream.decodeFull
      rw [hd]
      simp only
      by_cases hr : (skipWs r).isEmpty = true
      · rw [if_pos hr]
        cases e with
        | none => exact absurd ⟨rfl, hr⟩ hok
        | some x => exact ⟨x, rfl⟩
      · rw [if_neg hr]; exact ⟨_, rfl⟩
    obtain ⟨x, hx⟩ := hdec
    have hval := (all_ok (o := o) hco (s.length + 1)).1 T s (zeroOf T) v e r hs (wt_zero T hs) hd
    have hat : At (compile co T) 0 (one co (libK co (co.maxInlineDepth + 2)) [] 0 0 T).1 := At.whole _
    have hsim := hval.2 (libK co (co.maxInlineDepth + 2)) [] (compile co T) 0 0 (above_nil T) hat (St.start s (zeroOf T)) rfl (getAt_nil _)
    obtain ⟨out, hh, hR⟩ := hsim (fun out => ∃ y, finish out = .error y) (fun _ y => ⟨y, rfl⟩) (by
      intro σ' hp
      refine ends_done (At.end_none (by simp [compile])) ?_
      simp only [finish]
      by_cases hr : (skipWs σ'.inp).isEmpty = true
      · rw [if_pos hr]
        have he : e ≠ none := by
          intro he; exact hok ⟨he, by rw [← hp.1]; exact hr⟩
        have : σ'.et ≠ none := by
          rw [hp.2.2.2]; exact merge_ne_none_right he
        cases hq : σ'.et with
        | none => exact absurd hq this
        | some y => exact ⟨_, rfl⟩
      · rw [if_neg hr]; exact ⟨_, rfl⟩)
    obtain ⟨y, hy⟩ := hR
    rw [exec_of_halts hh, hy, hx]
    rfl

theorem decodeFull_ok_inv {T : GoType} {s : Bytes} {ve : GoVal × Option DErr} (h : Stream.decodeFull o T s = .ok ve) :
    ∃ r, decodeVal o (s.length + 1) T (skipWs s) (zeroOf T) = .ok (ve.1, ve.2, r) := by
  unfold Stream.decodeFull at h
  cases hd : decodeVal o (s.length + 1) T (skipWs s) (zeroOf T) with
  | error x => rw [hd] at h; cases h
  | ok q =>
    obtain ⟨v', e, r⟩ := q
    rw [hd] at h
    simp only at h
    split at h
    · injection h with h; subst h; exact ⟨r, rfl⟩
    · cases h

/-- ON EVERY DOCUMENT OF THE STRICT JSON GRAMMAR the program accepts exactly when the specification does, with the same
    value (the specification gets through such a document without a syntax error: Proofs/BindStream `decodeFull_eq`) -/
theorem exec_toOption_of_parses (hco : 0 < co.maxInlineDepth) {T : GoType} (hs : Sub T = true) {s : Bytes} {j : RVal}
    (hj : parseRDoc s = some j) :
    (exec o co none (compile co T) s (zeroOf T)).toOption = (Stream.decode o T s).toOption := by
  obtain ⟨r, hd⟩ := decodeFull_ok_inv (Stream.decodeFull_eq o T s j hj)
  exact exec_toOption_of_decodeVal hco hs hd

/-! ### reading off a computed run (`GoVal` has no decidable equality: shape predicates) -/

theorem exec_ok_of {o : DecOpts} {co : COpts} {lim : Option Nat} {P : Program} {s : Bytes} {dest : GoVal} {n : Nat} (p : GoVal → Bool)
    (h : (match execFuel n o co lim P s dest with
      | some (.ok v) => p v
      | _ => false) = true) : ∃ v, exec o co lim P s dest = .ok v ∧ p v = true := by
  cases hq : execFuel n o co lim P s dest with
  | none => rw [hq] at h; cases h
  | some r =>
    cases r with
    | error x => rw [hq] at h; cases h
    | ok v => rw [hq] at h; exact ⟨v, exec_eq_of_fuel hq, h⟩

theorem exec_err_of {o : DecOpts} {co : COpts} {lim : Option Nat} {P : Program} {s : Bytes} {dest : GoVal} {n : Nat} (x : XErr)
    (h : (match execFuel n o co lim P s dest with
      | some (.error y) => y == x
      | _ => false) = true) : exec o co lim P s dest = .error x := by
  cases hq : execFuel n o co lim P s dest with
  | none => rw [hq] at h; cases h
  | some r =>
    rw [hq] at h
    cases r with
    | ok v => cases h
    | error y =>
      have : y = x := by simpa using h
      rw [exec_eq_of_fuel hq, this]

theorem stream_err_of {o : DecOpts} {T : GoType} {s : Bytes} (e : DErr)
    (h : (match Stream.decode o T s with
      | .error y => y == e
      | _ => false) = true) : Stream.decode o T s = .error e := by
  cases hq : Stream.decode o T s with
  | ok v => rw [hq] at h; cases h
  | error y =>
    rw [hq] at h
    have : y = e := by simpa using h
    rw [this]

theorem stream_ok_of {o : DecOpts} {T : GoType} {s : Bytes} (p : GoVal → Bool)
    (h : (match Stream.decode o T s with
      | .ok v => p v
      | _ => false) = true) : ∃ v, Stream.decode o T s = .ok v ∧ p v = true := by
  cases hq : Stream.decode o T s with
  | error x => rw [hq] at h; cases h
  | ok v => rw [hq] at h; exact ⟨v, rfl, h⟩


end SonicSpec.Dir
