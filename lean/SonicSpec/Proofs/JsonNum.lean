/-
  C02, lexical layer 1: `do_skip_number` (index-based, as in the C code) recognises exactly the
  unsigned number bodies of RFC 8259 - soundness for every input, completeness under maximal munch
  (the byte after the number is not a number byte).
-/
import SonicSpec.Model.JsonValidate
namespace SonicSpec.Json

/-- the bytes `do_skip_number` keeps scanning over -/
def numChar (c : UInt8) : Bool :=
  isDigit c || c == 46 || c == 101 || c == 69 || c == 43 || c == 45

/-- maximal munch: what follows a number is not a number byte -/
def NumEnd (rest : Bytes) : Prop := ∀ c r, rest = c :: r → numChar c = false

theorem digit_ne {c : UInt8} (h : isDigit c = true) :
    c ≠ 46 ∧ c ≠ 101 ∧ c ≠ 69 ∧ c ≠ 43 ∧ c ≠ 45 := by
  refine ⟨?_, ?_, ?_, ?_, ?_⟩ <;> (rintro rfl; exact absurd h (by decide))

theorem numChar_false {c : UInt8} (h : numChar c = false) :
    isDigit c = false ∧ c ≠ 46 ∧ c ≠ 101 ∧ c ≠ 69 ∧ c ≠ 43 ∧ c ≠ 45 := by
  simp only [numChar, Bool.or_eq_false_iff, beq_eq_false_iff_ne, ne_eq] at h
  obtain ⟨⟨⟨⟨⟨h1, h2⟩, h3⟩, h4⟩, h5⟩, h6⟩ := h
  exact ⟨h1, h2, h3, h4, h5, h6⟩

/-! ### unfolding `numLoop` one byte -/

theorem numLoop_digit {c : UInt8} (r : Bytes) (i : Int) (x : NumIdx) (h : isDigit c = true) :
    numLoop (c :: r) i x = numLoop r (i + 1) x := by
  simp [numLoop, h]

theorem numLoop_dot (r : Bytes) (i : Int) (x : NumIdx) :
    numLoop (46 :: r) i x = if x.di = -1 then numLoop r (i + 1) { x with di := i } else none := by
  have : isDigit 46 = false := by decide
  simp [numLoop, this]

theorem numLoop_exp {c : UInt8} (r : Bytes) (i : Int) (x : NumIdx) (h : c = 101 ∨ c = 69) :
    numLoop (c :: r) i x = if x.ei = -1 then numLoop r (i + 1) { x with ei := i } else none := by
  rcases h with rfl | rfl
  · have : isDigit 101 = false := by decide
    simp [numLoop, this]
  · have : isDigit 69 = false := by decide
    simp [numLoop, this]

theorem numLoop_sign {c : UInt8} (r : Bytes) (i : Int) (x : NumIdx) (h : c = 43 ∨ c = 45) :
    numLoop (c :: r) i x = if x.si = -1 then numLoop r (i + 1) { x with si := i } else none := by
  rcases h with rfl | rfl
  · have : isDigit 43 = false := by decide
    simp [numLoop, this]
  · have : isDigit 45 = false := by decide
    simp [numLoop, this]

theorem numLoop_other {c : UInt8} (r : Bytes) (i : Int) (x : NumIdx) (h : numChar c = false) :
    numLoop (c :: r) i x = some (i, x, c :: r) := by
  obtain ⟨h1, h2, h3, h4, h5, h6⟩ := numChar_false h
  simp [numLoop, h1, h2, h3, h4, h5, h6]

/-- every byte is a digit, `.`, an exponent letter, a sign, or none of them -/
theorem byte_cases (c : UInt8) :
    isDigit c = true ∨ c = 46 ∨ (c = 101 ∨ c = 69) ∨ (c = 43 ∨ c = 45) ∨ numChar c = false := by
  by_cases h1 : isDigit c = true
  · exact Or.inl h1
  by_cases h2 : c = 46
  · exact Or.inr (Or.inl h2)
  by_cases h3 : c = 101
  · exact Or.inr (Or.inr (Or.inl (Or.inl h3)))
  by_cases h4 : c = 69
  · exact Or.inr (Or.inr (Or.inl (Or.inr h4)))
  by_cases h5 : c = 43
  · exact Or.inr (Or.inr (Or.inr (Or.inl (Or.inl h5))))
  by_cases h6 : c = 45
  · exact Or.inr (Or.inr (Or.inr (Or.inl (Or.inr h6))))
  · refine Or.inr (Or.inr (Or.inr (Or.inr ?_)))
    simp [numChar, h1, h2, h3, h4, h5, h6]

/-! ### states from which `check_index` can only fail -/

def Bad (x : NumIdx) : Prop :=
  x.di = 0 ∨ x.ei = 0 ∨ x.si = 0 ∨ (x.si > 0 ∧ x.ei ≠ x.si - 1) ∨ (x.di ≥ 0 ∧ x.ei ≥ 0 ∧ x.di ≥ x.ei - 1)

theorem numCheck_false_of_bad {n : Int} {x : NumIdx} (h : Bad x) : numCheck n x = false := by
  unfold numCheck
  unfold Bad at h
  repeat' split
  all_goals first | rfl | (exfalso; omega)

theorem numCheck_true {n : Int} {x : NumIdx} (h : numCheck n x = true) :
    ¬(x.di = 0 ∨ x.si = 0 ∨ x.ei = 0) ∧ ¬(x.di = n - 1 ∨ x.si = n - 1 ∨ x.ei = n - 1) ∧
    ¬(x.si > 0 ∧ x.ei ≠ x.si - 1) ∧ ¬(x.di ≥ 0 ∧ x.ei ≥ 0 ∧ x.di > x.ei - 1) ∧
    ¬(x.di ≥ 0 ∧ x.ei ≥ 0 ∧ x.di = x.ei - 1) := by
  unfold numCheck at h
  repeat' split at h
  all_goals first | (cases h; done) | (refine ⟨?_, ?_, ?_, ?_, ?_⟩ <;> assumption)

theorem bad_persist : ∀ (s : Bytes) (i : Int) (x : NumIdx) (n : Int) (x' : NumIdx) (rest : Bytes),
    Bad x → x.si < i → numLoop s i x = some (n, x', rest) → numCheck n x' = false := by
  intro s
  induction s with
  | nil =>
    intro i x n x' rest hb _ h
    simp only [numLoop, Option.some.injEq, Prod.mk.injEq] at h
    obtain ⟨rfl, rfl, _⟩ := h
    exact numCheck_false_of_bad hb
  | cons c r ih =>
    intro i x n x' rest hb hsi h
    rcases byte_cases c with hd | rfl | he | hs | ho
    · rw [numLoop_digit r i x hd] at h
      exact ih _ _ _ _ _ hb (by omega) h
    · rw [numLoop_dot] at h
      split at h
      · rename_i hdi
        refine ih _ _ _ _ _ ?_ (by simpa using (by omega : x.si < i + 1)) h
        unfold Bad at hb ⊢
        simp only
        omega
      · cases h
    · rw [numLoop_exp r i x he] at h
      split at h
      · rename_i hei
        refine ih _ _ _ _ _ ?_ (by simpa using (by omega : x.si < i + 1)) h
        unfold Bad at hb ⊢
        simp only
        omega
      · cases h
    · rw [numLoop_sign r i x hs] at h
      split at h
      · rename_i hsi'
        refine ih _ _ _ _ _ ?_ (by show i < i + 1; omega) h
        unfold Bad at hb ⊢
        simp only
        omega
      · cases h
    · rw [numLoop_other r i x ho] at h
      simp only [Option.some.injEq, Prod.mk.injEq] at h
      obtain ⟨rfl, rfl, _⟩ := h
      exact numCheck_false_of_bad hb

/-! ### soundness: one lemma per state of the number automaton.
    `i` = number of bytes consumed so far, `x` = the three indices at that point. -/

/-- inside the exponent digits (at least one read) -/
theorem st_exp : ∀ (s : Bytes) (i : Int) (x : NumIdx) (n : Int) (x' : NumIdx) (rest : Bytes),
    x.ei ≥ 1 → x.ei + 1 < i → (x.si = -1 ∨ x.si = x.ei + 1) → x.si + 1 < i → x.di < x.ei →
    numLoop s i x = some (n, x', rest) → numCheck n x' = true →
    ∃ ds, s = ds ++ rest ∧ AllDigits ds := by
  intro s
  induction s with
  | nil =>
    intro i x n x' rest _ _ _ _ _ h _
    simp only [numLoop, Option.some.injEq, Prod.mk.injEq] at h
    obtain ⟨_, _, rfl⟩ := h
    exact ⟨[], rfl, by intro c hc; cases hc⟩
  | cons c r ih =>
    intro i x n x' rest h1 h2 h3 h4 h5 h hck
    rcases byte_cases c with hd | rfl | he | hs | ho
    · rw [numLoop_digit r i x hd] at h
      obtain ⟨ds, rfl, hds⟩ := ih (i + 1) x n x' rest h1 (by omega) h3 (by omega) h5 h hck
      refine ⟨c :: ds, rfl, ?_⟩
      intro d hd'
      rcases List.mem_cons.mp hd' with rfl | hd'
      · exact hd
      · exact hds d hd'
    · rw [numLoop_dot] at h
      by_cases hc : x.di = -1
      · rw [if_pos hc] at h
        have := bad_persist r (i + 1) _ n x' rest
          (by unfold Bad; simp only; omega) (by show x.si < i + 1; omega) h
        rw [this] at hck; cases hck
      · rw [if_neg hc] at h; cases h
    · rw [numLoop_exp r i x he] at h
      by_cases hc : x.ei = -1
      · rw [if_pos hc] at h
        omega
      · rw [if_neg hc] at h; cases h
    · rw [numLoop_sign r i x hs] at h
      by_cases hc : x.si = -1
      · rw [if_pos hc] at h
        have := bad_persist r (i + 1) _ n x' rest
          (by unfold Bad; simp only; omega) (by show i < i + 1; omega) h
        rw [this] at hck; cases hck
      · rw [if_neg hc] at h; cases h
    · rw [numLoop_other r i x ho] at h
      simp only [Option.some.injEq, Prod.mk.injEq] at h
      obtain ⟨_, _, rfl⟩ := h
      exact ⟨[], rfl, by intro c hc; cases hc⟩

theorem allDigits_cons {c : UInt8} {ds : Bytes} (hc : isDigit c = true) (h : AllDigits ds) : AllDigits (c :: ds) := by
  intro d hd
  rcases List.mem_cons.mp hd with rfl | hd
  · exact hc
  · exact h d hd

theorem allDigits_nil : AllDigits [] := by intro c hc; cases hc

/-- just after the exponent sign (sign at `i-1`, letter at `i-2`) -/
theorem st_sgn (s : Bytes) (i : Int) (x : NumIdx) (n : Int) (x' : NumIdx) (rest : Bytes)
    (h1 : x.si = i - 1) (h2 : x.ei = i - 2) (h3 : x.ei ≥ 1) (h5 : x.di < x.ei)
    (h : numLoop s i x = some (n, x', rest)) (hck : numCheck n x' = true) :
    ∃ ds, ds ≠ [] ∧ s = ds ++ rest ∧ AllDigits ds := by
  cases s with
  | nil =>
    simp only [numLoop, Option.some.injEq, Prod.mk.injEq] at h
    obtain ⟨rfl, rfl, _⟩ := h
    exfalso
    have := numCheck_true hck
    omega
  | cons c r =>
    rcases byte_cases c with hd | rfl | he | hs | ho
    · rw [numLoop_digit r i x hd] at h
      obtain ⟨ds, rfl, hds⟩ := st_exp r (i + 1) x n x' rest h3 (by omega) (by omega) (by omega) h5 h hck
      exact ⟨c :: ds, by simp, rfl, allDigits_cons hd hds⟩
    · rw [numLoop_dot] at h
      by_cases hc : x.di = -1
      · rw [if_pos hc] at h
        have := bad_persist r (i + 1) _ n x' rest
          (by unfold Bad; simp only; omega) (by show x.si < i + 1; omega) h
        rw [this] at hck; cases hck
      · rw [if_neg hc] at h; cases h
    · rw [numLoop_exp r i x he] at h
      by_cases hc : x.ei = -1
      · rw [if_pos hc] at h
        omega
      · rw [if_neg hc] at h; cases h
    · rw [numLoop_sign r i x hs] at h
      by_cases hc : x.si = -1
      · rw [if_pos hc] at h
        omega
      · rw [if_neg hc] at h; cases h
    · rw [numLoop_other r i x ho] at h
      simp only [Option.some.injEq, Prod.mk.injEq] at h
      obtain ⟨rfl, rfl, _⟩ := h
      exfalso
      have := numCheck_true hck
      omega

/-- the tail of an exponent after its letter: digits, or a sign and digits -/
inductive ExpTail : Bytes → Prop
  | unsigned (ds : Bytes) : ds ≠ [] → AllDigits ds → ExpTail ds
  | signed (sg : UInt8) (ds : Bytes) : (sg = 43 ∨ sg = 45) → ds ≠ [] → AllDigits ds → ExpTail (sg :: ds)

theorem expPart_of_tail {e : UInt8} {t : Bytes} (he : e = 101 ∨ e = 69) (h : ExpTail t) : ExpPart (e :: t) := by
  cases h with
  | unsigned _ h1 h2 => exact .unsigned e _ he h1 h2
  | signed sg ds h0 h1 h2 => exact .signed e sg ds he h0 h1 h2

/-- just after the exponent letter (at `i-1`) -/
theorem st_e (s : Bytes) (i : Int) (x : NumIdx) (n : Int) (x' : NumIdx) (rest : Bytes)
    (h2 : x.ei = i - 1) (h3 : x.ei ≥ 1) (h4 : x.si = -1) (h5 : x.di = -1 ∨ (1 ≤ x.di ∧ x.di + 1 < x.ei))
    (h : numLoop s i x = some (n, x', rest)) (hck : numCheck n x' = true) :
    ∃ t, s = t ++ rest ∧ ExpTail t := by
  cases s with
  | nil =>
    simp only [numLoop, Option.some.injEq, Prod.mk.injEq] at h
    obtain ⟨rfl, rfl, _⟩ := h
    exfalso
    have := numCheck_true hck
    omega
  | cons c r =>
    rcases byte_cases c with hd | rfl | he | hs | ho
    · rw [numLoop_digit r i x hd] at h
      obtain ⟨ds, rfl, hds⟩ := st_exp r (i + 1) x n x' rest h3 (by omega) (by omega) (by omega) (by omega) h hck
      exact ⟨c :: ds, rfl, .unsigned _ (by simp) (allDigits_cons hd hds)⟩
    · rw [numLoop_dot] at h
      by_cases hc : x.di = -1
      · rw [if_pos hc] at h
        have := bad_persist r (i + 1) _ n x' rest
          (by unfold Bad; simp only; omega) (by show x.si < i + 1; omega) h
        rw [this] at hck; cases hck
      · rw [if_neg hc] at h; cases h
    · rw [numLoop_exp r i x he] at h
      by_cases hc : x.ei = -1
      · rw [if_pos hc] at h
        omega
      · rw [if_neg hc] at h; cases h
    · rw [numLoop_sign r i x hs] at h
      by_cases hc : x.si = -1
      · rw [if_pos hc] at h
        obtain ⟨ds, hne, rfl, hds⟩ := st_sgn r (i + 1) ⟨x.di, x.ei, i⟩ n x' rest
          (by show i = i + 1 - 1; omega) (by show x.ei = i + 1 - 2; omega) h3 (by show x.di < x.ei; omega) h hck
        exact ⟨c :: ds, rfl, .signed c ds hs hne hds⟩
      · rw [if_neg hc] at h; cases h
    · rw [numLoop_other r i x ho] at h
      simp only [Option.some.injEq, Prod.mk.injEq] at h
      obtain ⟨rfl, rfl, _⟩ := h
      exfalso
      have := numCheck_true hck
      omega

/-- inside the fraction digits (at least one read) -/
theorem st_frac : ∀ (s : Bytes) (i : Int) (x : NumIdx) (n : Int) (x' : NumIdx) (rest : Bytes),
    x.di ≥ 1 → x.di + 1 < i → x.ei = -1 → x.si = -1 →
    numLoop s i x = some (n, x', rest) → numCheck n x' = true →
    ∃ ds e, s = ds ++ (e ++ rest) ∧ AllDigits ds ∧ ExpPart e := by
  intro s
  induction s with
  | nil =>
    intro i x n x' rest _ _ _ _ h _
    simp only [numLoop, Option.some.injEq, Prod.mk.injEq] at h
    obtain ⟨_, _, rfl⟩ := h
    exact ⟨[], [], rfl, allDigits_nil, .none⟩
  | cons c r ih =>
    intro i x n x' rest h1 h2 h3 h4 h hck
    rcases byte_cases c with hd | rfl | he | hs | ho
    · rw [numLoop_digit r i x hd] at h
      obtain ⟨ds, e, rfl, hds, he⟩ := ih (i + 1) x n x' rest h1 (by omega) h3 h4 h hck
      exact ⟨c :: ds, e, rfl, allDigits_cons hd hds, he⟩
    · rw [numLoop_dot] at h
      by_cases hc : x.di = -1
      · rw [if_pos hc] at h
        omega
      · rw [if_neg hc] at h; cases h
    · rw [numLoop_exp r i x he] at h
      by_cases hc : x.ei = -1
      · rw [if_pos hc] at h
        obtain ⟨t, rfl, ht⟩ := st_e r (i + 1) ⟨x.di, i, x.si⟩ n x' rest (by show i = i + 1 - 1; omega) (by show i ≥ 1; omega)
          (by show x.si = -1; exact h4) (by show x.di = -1 ∨ (1 ≤ x.di ∧ x.di + 1 < i); omega) h hck
        exact ⟨[], c :: t, rfl, allDigits_nil, expPart_of_tail he ht⟩
      · rw [if_neg hc] at h; cases h
    · rw [numLoop_sign r i x hs] at h
      by_cases hc : x.si = -1
      · rw [if_pos hc] at h
        have := bad_persist r (i + 1) _ n x' rest
          (by unfold Bad; simp only; omega) (by show i < i + 1; omega) h
        rw [this] at hck; cases hck
      · rw [if_neg hc] at h; cases h
    · rw [numLoop_other r i x ho] at h
      simp only [Option.some.injEq, Prod.mk.injEq] at h
      obtain ⟨_, _, rfl⟩ := h
      exact ⟨[], [], rfl, allDigits_nil, .none⟩

/-- just after the decimal point (at `i-1`) -/
theorem st_dot (s : Bytes) (i : Int) (x : NumIdx) (n : Int) (x' : NumIdx) (rest : Bytes)
    (h1 : x.di = i - 1) (h2 : x.di ≥ 1) (h3 : x.ei = -1) (h4 : x.si = -1)
    (h : numLoop s i x = some (n, x', rest)) (hck : numCheck n x' = true) :
    ∃ ds e, ds ≠ [] ∧ s = ds ++ (e ++ rest) ∧ AllDigits ds ∧ ExpPart e := by
  cases s with
  | nil =>
    simp only [numLoop, Option.some.injEq, Prod.mk.injEq] at h
    obtain ⟨rfl, rfl, _⟩ := h
    exfalso
    have := numCheck_true hck
    omega
  | cons c r =>
    rcases byte_cases c with hd | rfl | he | hs | ho
    · rw [numLoop_digit r i x hd] at h
      obtain ⟨ds, e, rfl, hds, he⟩ := st_frac r (i + 1) x n x' rest h2 (by omega) h3 h4 h hck
      exact ⟨c :: ds, e, by simp, rfl, allDigits_cons hd hds, he⟩
    · rw [numLoop_dot] at h
      by_cases hc : x.di = -1
      · rw [if_pos hc] at h
        omega
      · rw [if_neg hc] at h; cases h
    · rw [numLoop_exp r i x he] at h
      by_cases hc : x.ei = -1
      · rw [if_pos hc] at h
        have := bad_persist r (i + 1) _ n x' rest
          (by unfold Bad; simp only; omega) (by show x.si < i + 1; omega) h
        rw [this] at hck; cases hck
      · rw [if_neg hc] at h; cases h
    · rw [numLoop_sign r i x hs] at h
      by_cases hc : x.si = -1
      · rw [if_pos hc] at h
        have := bad_persist r (i + 1) _ n x' rest
          (by unfold Bad; simp only; omega) (by show i < i + 1; omega) h
        rw [this] at hck; cases hck
      · rw [if_neg hc] at h; cases h
    · rw [numLoop_other r i x ho] at h
      simp only [Option.some.injEq, Prod.mk.injEq] at h
      obtain ⟨rfl, rfl, _⟩ := h
      exfalso
      have := numCheck_true hck
      omega

/-- inside the integer digits (at least one read, nothing else seen) -/
theorem st_int : ∀ (s : Bytes) (i : Int) (x : NumIdx) (n : Int) (x' : NumIdx) (rest : Bytes),
    i ≥ 1 → x.di = -1 → x.ei = -1 → x.si = -1 →
    numLoop s i x = some (n, x', rest) → numCheck n x' = true →
    ∃ ds f e, s = ds ++ (f ++ (e ++ rest)) ∧ AllDigits ds ∧ FracPart f ∧ ExpPart e := by
  intro s
  induction s with
  | nil =>
    intro i x n x' rest _ _ _ _ h _
    simp only [numLoop, Option.some.injEq, Prod.mk.injEq] at h
    obtain ⟨_, _, rfl⟩ := h
    exact ⟨[], [], [], rfl, allDigits_nil, .none, .none⟩
  | cons c r ih =>
    intro i x n x' rest h1 h2 h3 h4 h hck
    rcases byte_cases c with hd | rfl | he | hs | ho
    · rw [numLoop_digit r i x hd] at h
      obtain ⟨ds, f, e, rfl, hds, hf, he⟩ := ih (i + 1) x n x' rest (by omega) h2 h3 h4 h hck
      exact ⟨c :: ds, f, e, rfl, allDigits_cons hd hds, hf, he⟩
    · rw [numLoop_dot] at h
      by_cases hc : x.di = -1
      · rw [if_pos hc] at h
        obtain ⟨ds, e, hne, rfl, hds, he⟩ := st_dot r (i + 1) ⟨i, x.ei, x.si⟩ n x' rest (by show i = i + 1 - 1; omega)
          (by show i ≥ 1; omega) (by show x.ei = -1; exact h3) (by show x.si = -1; exact h4) h hck
        exact ⟨[], 46 :: ds, e, rfl, allDigits_nil, .some ds hne hds, he⟩
      · rw [if_neg hc] at h; cases h
    · rw [numLoop_exp r i x he] at h
      by_cases hc : x.ei = -1
      · rw [if_pos hc] at h
        obtain ⟨t, rfl, ht⟩ := st_e r (i + 1) ⟨x.di, i, x.si⟩ n x' rest (by show i = i + 1 - 1; omega) (by show i ≥ 1; omega)
          (by show x.si = -1; exact h4) (by show x.di = -1 ∨ (1 ≤ x.di ∧ x.di + 1 < i); omega) h hck
        exact ⟨[], [], c :: t, rfl, allDigits_nil, .none, expPart_of_tail he ht⟩
      · rw [if_neg hc] at h; cases h
    · rw [numLoop_sign r i x hs] at h
      by_cases hc : x.si = -1
      · rw [if_pos hc] at h
        have := bad_persist r (i + 1) _ n x' rest
          (by unfold Bad; simp only; omega) (by show i < i + 1; omega) h
        rw [this] at hck; cases hck
      · rw [if_neg hc] at h; cases h
    · rw [numLoop_other r i x ho] at h
      simp only [Option.some.injEq, Prod.mk.injEq] at h
      obtain ⟨_, _, rfl⟩ := h
      exact ⟨[], [], [], rfl, allDigits_nil, .none, .none⟩

/-! ### `do_skip_number` is sound -/

theorem doSkipNumber_sound (s rest : Bytes) (h : doSkipNumber s = some rest) :
    ∃ nb, s = nb ++ rest ∧ NumBody nb := by
  cases s with
  | nil => simp [doSkipNumber] at h
  | cons c r =>
    rw [doSkipNumber] at h
    by_cases hz : c = 48 ∧ zeroStop r = true
    · rw [if_pos hz] at h
      cases h
      obtain ⟨rfl, _⟩ := hz
      exact ⟨[48], rfl, by simpa using NumBody.mk [48] [] [] .zero .none .none⟩
    · rw [if_neg hz] at h
      cases hn : numLoop (c :: r) 0 {} with
      | none => rw [hn] at h; cases h
      | some t =>
        obtain ⟨n, x', rest'⟩ := t
        rw [hn] at h
        simp only at h
        by_cases hck : numCheck n x' = true
        · rw [if_pos hck] at h
          cases h
          rcases byte_cases c with hd | rfl | he | hs | ho
          · rw [numLoop_digit r 0 {} hd] at hn
            obtain ⟨ds, f, e, rfl, hds, hf, he⟩ := st_int r (0 + 1) {} n x' rest (by omega) rfl rfl rfl hn hck
            have hi : IntPart (c :: ds) := by
              by_cases hc : c = 48
              · subst hc
                have hzs : zeroStop (ds ++ (f ++ (e ++ rest))) = false := by
                  cases hzz : zeroStop (ds ++ (f ++ (e ++ rest))) with
                  | false => rfl
                  | true => exact absurd ⟨rfl, hzz⟩ hz
                cases ds with
                | nil => exact .zero
                | cons d ds' =>
                  exfalso
                  have hdd : isDigit d = true := hds d (by simp)
                  obtain ⟨h1, h2, h3, _, _⟩ := digit_ne hdd
                  simp [zeroStop, isDotOrExp, h1, h2, h3] at hzs
              · exact .nz c ds hd hc hds
            refine ⟨(c :: ds) ++ (f ++ e), by simp, .mk _ _ _ hi hf he⟩
          · exfalso
            rw [numLoop_dot, if_pos rfl] at hn
            have := bad_persist r (0 + 1) _ n x' rest (by unfold Bad; simp) (by show (-1 : Int) < 0 + 1; omega) hn
            rw [this] at hck; cases hck
          · exfalso
            rw [numLoop_exp r 0 {} he, if_pos rfl] at hn
            have := bad_persist r (0 + 1) _ n x' rest (by unfold Bad; simp) (by show (-1 : Int) < 0 + 1; omega) hn
            rw [this] at hck; cases hck
          · exfalso
            rw [numLoop_sign r 0 {} hs, if_pos rfl] at hn
            have := bad_persist r (0 + 1) _ n x' rest (by unfold Bad; simp) (by show (0 : Int) < 0 + 1; omega) hn
            rw [this] at hck; cases hck
          · exfalso
            rw [numLoop_other r 0 {} ho] at hn
            simp only [Option.some.injEq, Prod.mk.injEq] at hn
            obtain ⟨rfl, rfl, _⟩ := hn
            revert hck; decide
        · rw [if_neg hck] at h; cases h

/-! ### completeness under maximal munch -/

theorem numLoop_digits : ∀ (ds s : Bytes) (i : Int) (x : NumIdx), AllDigits ds →
    numLoop (ds ++ s) i x = numLoop s (i + (ds.length : Int)) x := by
  intro ds
  induction ds with
  | nil => intro s i x _; simp
  | cons d ds ih =>
    intro s i x h
    have hd : isDigit d = true := h d (by simp)
    have hds : AllDigits ds := fun c hc => h c (by simp [hc])
    rw [List.cons_append, numLoop_digit _ i x hd, ih s (i + 1) x hds]
    congr 1
    simp only [List.length_cons]
    omega

theorem numLoop_end (rest : Bytes) (i : Int) (x : NumIdx) (h : NumEnd rest) :
    numLoop rest i x = some (i, x, rest) := by
  cases rest with
  | nil => rfl
  | cons c r => exact numLoop_other r i x (h c r rfl)

theorem numCheck_intro {n : Int} {x : NumIdx}
    (h1 : ¬(x.di = 0 ∨ x.si = 0 ∨ x.ei = 0)) (h2 : ¬(x.di = n - 1 ∨ x.si = n - 1 ∨ x.ei = n - 1))
    (h3 : ¬(x.si > 0 ∧ x.ei ≠ x.si - 1)) (h4 : ¬(x.di ≥ 0 ∧ x.ei ≥ 0 ∧ x.di > x.ei - 1))
    (h5 : ¬(x.di ≥ 0 ∧ x.ei ≥ 0 ∧ x.di = x.ei - 1)) : numCheck n x = true := by
  unfold numCheck
  rw [if_neg h1, if_neg h2, if_neg h3, if_neg h4, if_neg h5]

theorem length_pos_int {ds : Bytes} (h : ds ≠ []) : (ds.length : Int) ≥ 1 := by
  cases ds with
  | nil => exact absurd rfl h
  | cons d r => simp only [List.length_cons]; omega

theorem expC (e rest : Bytes) (k : Int) (x : NumIdx) (he : ExpPart e) (hr : NumEnd rest) (hk : k ≥ 1)
    (hei : x.ei = -1) (hsi : x.si = -1) (hdi : x.di = -1 ∨ (1 ≤ x.di ∧ x.di + 1 < k)) :
    ∃ n x', numLoop (e ++ rest) k x = some (n, x', rest) ∧ numCheck n x' = true := by
  cases he with
  | none =>
    refine ⟨k, x, numLoop_end rest k x hr, numCheck_intro ?_ ?_ ?_ ?_ ?_⟩ <;> omega
  | unsigned ec ds hec hne hds =>
    have hl := length_pos_int hne
    refine ⟨k + 1 + (ds.length : Int), ⟨x.di, k, x.si⟩, ?_, numCheck_intro ?_ ?_ ?_ ?_ ?_⟩
    · rw [List.cons_append, numLoop_exp _ k x hec, if_pos hei, numLoop_digits ds rest _ _ hds]
      exact numLoop_end rest _ _ hr
    all_goals (dsimp only; omega)
  | signed ec sg ds hec hsg hne hds =>
    have hl := length_pos_int hne
    refine ⟨k + 1 + 1 + (ds.length : Int), ⟨x.di, k, k + 1⟩, ?_, numCheck_intro ?_ ?_ ?_ ?_ ?_⟩
    · rw [List.cons_append, List.cons_append, numLoop_exp _ k x hec, if_pos hei,
        numLoop_sign _ (k + 1) _ hsg, if_pos (by exact hsi), numLoop_digits ds rest _ _ hds]
      exact numLoop_end rest _ _ hr
    all_goals (dsimp only; omega)

theorem fracC (f e rest : Bytes) (j : Int) (hf : FracPart f) (he : ExpPart e) (hr : NumEnd rest) (hj : j ≥ 1) :
    ∃ n x', numLoop (f ++ (e ++ rest)) j {} = some (n, x', rest) ∧ numCheck n x' = true := by
  cases hf with
  | none => exact expC e rest j {} he hr hj rfl rfl (Or.inl rfl)
  | some ds hne hds =>
    have hl := length_pos_int hne
    rw [List.cons_append, numLoop_dot, if_pos rfl, numLoop_digits ds _ _ _ hds]
    exact expC e rest _ ⟨j, -1, -1⟩ he hr (by omega) rfl rfl (Or.inr ⟨by dsimp only; omega, by dsimp only; omega⟩)

theorem numEnd_not_dotexp {rest : Bytes} (hr : NumEnd rest) : zeroStop rest = true := by
  cases rest with
  | nil => rfl
  | cons c r =>
    obtain ⟨_, h2, h3, h4, _, _⟩ := numChar_false (hr c r rfl)
    simp [zeroStop, isDotOrExp, h2, h3, h4]

theorem doSkipNumber_complete (nb rest : Bytes) (h : NumBody nb) (hr : NumEnd rest) :
    doSkipNumber (nb ++ rest) = some rest := by
  cases h with
  | mk i f e hi hf he =>
    have general : ∀ (c : UInt8) (ds : Bytes), isDigit c = true → AllDigits ds →
        ¬(c = 48 ∧ zeroStop (ds ++ (f ++ (e ++ rest))) = true) →
        doSkipNumber ((c :: ds) ++ (f ++ (e ++ rest))) = some rest := by
      intro c ds hc hds hz
      rw [List.cons_append, doSkipNumber, if_neg hz, numLoop_digit _ 0 {} hc, numLoop_digits ds _ _ _ hds]
      obtain ⟨n, x', h1, h2⟩ := fracC f e rest (0 + 1 + (ds.length : Int)) hf he hr (by omega)
      rw [h1]
      simp only [h2, if_true]
    rw [List.append_assoc, List.append_assoc]
    cases hi with
    | zero =>
      by_cases hz : zeroStop (f ++ (e ++ rest)) = true
      · -- then f and e are empty
        cases hf with
        | some ds _ _ => simp [zeroStop, isDotOrExp] at hz
        | none =>
          cases he with
          | none => simp only [List.nil_append, List.cons_append] at hz ⊢; rw [doSkipNumber, if_pos ⟨rfl, hz⟩]
          | unsigned ec ds hec _ _ => rcases hec with rfl | rfl <;> simp [zeroStop, isDotOrExp] at hz
          | signed ec sg ds hec _ _ _ => rcases hec with rfl | rfl <;> simp [zeroStop, isDotOrExp] at hz
      · exact general 48 [] (by decide) allDigits_nil (by simpa using hz)
    | nz c ds hc hne hds =>
      exact general c ds hc hds (fun hh => hne hh.1)

/-! ### the two entry points -/

theorem skipPositive_sound {ch : UInt8} {r rest : Bytes} (h : skipPositive ch r = .ok rest) :
    ∃ n, ch :: r = n ++ rest ∧ Number n := by
  unfold skipPositive at h
  cases hd : doSkipNumber (ch :: r) with
  | none => rw [hd] at h; cases h
  | some t =>
    rw [hd] at h
    cases h
    obtain ⟨nb, h1, h2⟩ := doSkipNumber_sound _ _ hd
    exact ⟨nb, h1, .pos nb h2⟩

theorem skipNegative_sound {r rest : Bytes} (h : skipNegative r = .ok rest) :
    ∃ n, 45 :: r = n ++ rest ∧ Number n := by
  unfold skipNegative at h
  cases r with
  | nil => cases h
  | cons c r' =>
    simp only at h
    by_cases hc : isDigit c = true
    · rw [if_pos hc] at h
      cases hd : doSkipNumber (c :: r') with
      | none => rw [hd] at h; cases h
      | some t =>
        rw [hd] at h
        cases h
        obtain ⟨nb, h1, h2⟩ := doSkipNumber_sound _ _ hd
        exact ⟨45 :: nb, by rw [h1]; rfl, .neg nb h2⟩
    · rw [if_neg hc] at h; cases h

theorem numBody_head {nb : Bytes} (h : NumBody nb) : ∃ c t, nb = c :: t ∧ isDigit c = true := by
  cases h with
  | mk i f e hi _ _ =>
    cases hi with
    | zero => exact ⟨48, _, rfl, by decide⟩
    | nz c ds hc _ _ => exact ⟨c, _, rfl, hc⟩

/-- a number token at the head of the input, followed by something that is not a number byte:
    the value switch consumes exactly the number -/
theorem number_complete {n rest : Bytes} (h : Number n) (hr : NumEnd rest) :
    ∃ ch t, n = ch :: t ∧ ((isDigit ch = true ∧ skipPositive ch (t ++ rest) = .ok rest) ∨
      (isDigit ch = false ∧ ch = 45 ∧ skipNegative (t ++ rest) = .ok rest)) := by
  cases h with
  | pos nb hb =>
    obtain ⟨c, t, rfl, hc⟩ := numBody_head hb
    refine ⟨c, t, rfl, Or.inl ⟨hc, ?_⟩⟩
    unfold skipPositive
    have := doSkipNumber_complete _ rest hb hr
    rw [List.cons_append] at this
    rw [this]
  | neg nb hb =>
    obtain ⟨c, t, rfl, hc⟩ := numBody_head hb
    refine ⟨45, c :: t, rfl, Or.inr ⟨by decide, rfl, ?_⟩⟩
    have := doSkipNumber_complete _ rest hb hr
    unfold skipNegative
    simp only [List.cons_append] at this ⊢
    rw [if_pos hc, this]

end SonicSpec.Json
