/-
  Helper lemmas for C20, HTML escaping and the restartable loops (quote, HTML escape).
-/
import SonicSpec.Model.Str
import SonicSpec.Model.StrSpec
import SonicSpec.Proofs.U8
namespace SonicSpec.Str

theorem htmlEscape_nil : htmlEscape [] = [] := by rw [htmlEscape]

theorem htmlEscape_ls (c x y : UInt8) (t' : Bytes) (h : (c == 226 && x == 128 && y == 168) = true) :
    htmlEscape (c :: x :: y :: t') = htmlLS ++ htmlEscape t' := by
  rw [htmlEscape]; simp only [h, ↓reduceIte]

theorem htmlEscape_ps (c x y : UInt8) (t' : Bytes) (h1 : ¬ (c == 226 && x == 128 && y == 168) = true)
    (h : (c == 226 && x == 128 && y == 169) = true) :
    htmlEscape (c :: x :: y :: t') = htmlPS ++ htmlEscape t' := by
  rw [htmlEscape]; simp only [h1, h, ↓reduceIte, Bool.false_eq_true]

theorem htmlEscape_other (c x y : UInt8) (t' : Bytes) (h1 : ¬ (c == 226 && x == 128 && y == 168) = true)
    (h2 : ¬ (c == 226 && x == 128 && y == 169) = true) :
    htmlEscape (c :: x :: y :: t') = htmlByte c ++ htmlEscape (x :: y :: t') := by
  rw [htmlEscape]; simp only [h1, h2, ↓reduceIte, Bool.false_eq_true]

theorem htmlEscape_short (c : UInt8) (t : Bytes) (h : ∀ (x y : UInt8) (t' : List UInt8), t = x :: y :: t' → False) :
    htmlEscape (c :: t) = htmlByte c ++ htmlEscape t := by
  match t, h with
  | [], _ => simp [htmlEscape]
  | [x], _ => simp [htmlEscape]
  | x :: y :: t', h => exact absurd rfl (fun e => h x y t' e)

/-! ### restartable loops: the result does not depend on when the destination fills up -/

/-- one native call: what was written, followed by the escaping of what was not consumed, is the
    escaping of the whole input -/
theorem htmlCall_spec (room : Nat) (src : Bytes) :
    (htmlCall room src).1 ++ htmlEscape (htmlCall room src).2 = htmlEscape src := by
  fun_induction htmlCall room src with
  | case1 => simp [htmlEscape_nil]
  | case2 room c x y t' h1 hr => simp
  | case3 room c x y t' h1 hr o r heq ih =>
    rw [heq] at ih
    simp only at ih ⊢
    rw [List.append_assoc, ih, htmlEscape_ls c x y t' h1]
  | case4 room c x y t' h1 h2 hr => simp
  | case5 room c x y t' h1 h2 hr o r heq ih =>
    rw [heq] at ih
    simp only at ih ⊢
    rw [List.append_assoc, ih, htmlEscape_ps c x y t' h1 h2]
  | case6 room c x y t' h1 h2 hr => simp
  | case7 room c x y t' h1 h2 hr o r heq ih =>
    rw [heq] at ih
    simp only at ih ⊢
    rw [List.append_assoc, ih, htmlEscape_other c x y t' h1 h2]
  | case8 room c t hne hr => simp
  | case9 room c t hne hr o r heq ih =>
    rw [heq] at ih
    simp only at ih ⊢
    rw [List.append_assoc, ih, htmlEscape_short c t hne]

/-- spec.go:124: whatever free space the successive native calls are offered, the buffer ends up as the
    prefix followed by the escaped source -/
theorem htmlLoop_eq (rooms : List Nat) (buf src : Bytes) : htmlLoop rooms buf src = buf ++ htmlEscape src := by
  induction rooms generalizing buf src with
  | nil => rw [htmlLoop]
  | cons room rooms ih =>
    have hs := htmlCall_spec room src
    rw [htmlLoop]
    split
    · rename_i o heq
      rw [heq] at hs
      simp only [htmlEscape_nil, List.append_nil] at hs
      rw [hs]
    · rename_i o r hne heq
      rw [heq] at hs
      simp only at hs
      rw [ih, List.append_assoc, hs]

theorem quoteCall_spec (tab : UInt8 → Bytes) (room : Nat) (src : Bytes) :
    (quoteCall tab room src).1 ++ (quoteCall tab room src).2.flatMap tab = src.flatMap tab := by
  fun_induction quoteCall tab room src with
  | case1 => simp
  | case2 room c t hr => simp
  | case3 room c t hr o r heq ih =>
    rw [heq] at ih
    simp only at ih ⊢
    rw [List.append_assoc, ih, List.flatMap_cons]

/-- spec.go:64: the same for Quote -/
theorem quoteLoop_eq (tab : UInt8 → Bytes) (rooms : List Nat) (buf src : Bytes) :
    quoteLoop tab rooms buf src = buf ++ src.flatMap tab := by
  induction rooms generalizing buf src with
  | nil => rw [quoteLoop]
  | cons room rooms ih =>
    have hs := quoteCall_spec tab room src
    rw [quoteLoop]
    split
    · rename_i o heq
      rw [heq] at hs
      simp only [List.flatMap_nil, List.append_nil] at hs
      rw [hs]
    · rename_i o r hne heq
      rw [heq] at hs
      simp only at hs
      rw [ih, List.append_assoc, hs]

/-! ### nothing special is left in the output -/

theorem htmlByte_mem : ∀ c : UInt8, ∀ b ∈ htmlByte c, b ≠ 60 ∧ b ≠ 62 ∧ b ≠ 38 := by
  apply forall_uint8
  decide +kernel

theorem htmlByte_shape : ∀ c : UInt8, htmlByte c = [c] ∨ ((htmlByte c).head? = some 92 ∧ ∀ b ∈ htmlByte c, b ≠ 226) := by
  apply forall_uint8
  decide +kernel

theorem htmlLS_mem : ∀ b ∈ htmlLS, b ≠ 60 ∧ b ≠ 62 ∧ b ≠ 38 := by decide
theorem htmlPS_mem : ∀ b ∈ htmlPS, b ≠ 60 ∧ b ≠ 62 ∧ b ≠ 38 := by decide

theorem htmlEscape_mem (s : Bytes) : ∀ b ∈ htmlEscape s, b ≠ 60 ∧ b ≠ 62 ∧ b ≠ 38 := by
  fun_induction htmlEscape s with
  | case1 => simp
  | case2 c x y t' h1 ih =>
    intro b hb
    rcases List.mem_append.mp hb with hb | hb
    · exact htmlLS_mem b hb
    · exact ih b hb
  | case3 c x y t' h1 h2 ih =>
    intro b hb
    rcases List.mem_append.mp hb with hb | hb
    · exact htmlPS_mem b hb
    · exact ih b hb
  | case4 c x y t' h1 h2 ih =>
    intro b hb
    rcases List.mem_append.mp hb with hb | hb
    · exact htmlByte_mem c b hb
    · exact ih b hb
  | case5 c t hne ih =>
    intro b hb
    rcases List.mem_append.mp hb with hb | hb
    · exact htmlByte_mem c b hb
    · exact ih b hb

theorem hasLSPS_cons_ne (a : UInt8) (t : Bytes) (h : a ≠ 226) : hasLSPS (a :: t) = hasLSPS t := by
  match t with
  | [] => simp [hasLSPS]
  | [b] => simp [hasLSPS]
  | b :: c :: t' =>
    rw [hasLSPS]
    have : (a == 226) = false := by simpa using h
    simp [this]

theorem hasLSPS_append_ne (l t : Bytes) (h : ∀ b ∈ l, b ≠ 226) : hasLSPS (l ++ t) = hasLSPS t := by
  induction l with
  | nil => rfl
  | cons a l ih =>
    rw [List.cons_append, hasLSPS_cons_ne a _ (h a (by simp))]
    exact ih (fun b hb => h b (by simp [hb]))

/-- the first byte of the output is a backslash or the first input byte copied -/
theorem htmlEscape_head (x : UInt8) (rest : Bytes) :
    (htmlEscape (x :: rest)).head? = some 92 ∨ htmlEscape (x :: rest) = x :: htmlEscape rest := by
  have hb := htmlByte_shape x
  have key : htmlEscape (x :: rest) = htmlByte x ++ htmlEscape rest →
      ((htmlEscape (x :: rest)).head? = some 92 ∨ htmlEscape (x :: rest) = x :: htmlEscape rest) := fun e => by
    rcases hb with hb | ⟨hb, _⟩
    · right; rw [e, hb]; rfl
    · left; rw [e]
      cases hx : htmlByte x with
      | nil => rw [hx] at hb; cases hb
      | cons a l => rw [hx] at hb; simpa using hb
  match rest with
  | [] => exact key (htmlEscape_short x [] (by intro _ _ _ e; cases e))
  | [y] => exact key (htmlEscape_short x [y] (by intro _ _ _ e; cases e))
  | y :: z :: t' =>
    by_cases h1 : (x == 226 && y == 128 && z == 168) = true
    · left; rw [htmlEscape_ls x y z t' h1]; rfl
    · by_cases h2 : (x == 226 && y == 128 && z == 169) = true
      · left; rw [htmlEscape_ps x y z t' h1 h2]; rfl
      · exact key (htmlEscape_other x y z t' h1 h2)

/-- if the output starts with 80 A8 or 80 A9, so does the input -/
theorem htmlEscape_starts (s : Bytes) (z : UInt8) (rest : Bytes) (hz : z = 168 ∨ z = 169)
    (h : htmlEscape s = 128 :: z :: rest) : ∃ t, s = 128 :: z :: t := by
  match s with
  | [] => rw [htmlEscape_nil] at h; cases h
  | x :: r =>
    rcases htmlEscape_head x r with hh | hh
    · rw [h] at hh; simp at hh
    · rw [hh] at h
      have hx : x = 128 := by injection h
      have hr : htmlEscape r = z :: rest := by injection h
      match r with
      | [] => rw [htmlEscape_nil] at hr; cases hr
      | y :: r' =>
        rcases htmlEscape_head y r' with hh2 | hh2
        · rw [hr] at hh2
          simp only [List.head?_cons, Option.some.injEq] at hh2
          rcases hz with hz | hz <;> rw [hz] at hh2 <;> cases hh2
        · rw [hh2] at hr
          have hy : y = z := by injection hr
          exact ⟨r', by rw [hx, hy]⟩

theorem hasLSPS_226 (E : Bytes) (hE : hasLSPS E = false)
    (hs : ∀ z rest, (z = 168 ∨ z = 169) → E = 128 :: z :: rest → False) : hasLSPS (226 :: E) = false := by
  match E with
  | [] => simp [hasLSPS]
  | [e] => simp [hasLSPS]
  | e1 :: e2 :: E' =>
    rw [hasLSPS, hE]
    simp only [beq_self_eq_true, Bool.true_and, Bool.or_false, Bool.and_eq_false_iff, Bool.or_eq_false_iff,
      beq_eq_false_iff_ne, ne_eq]
    by_cases h1 : e1 = 128
    · right
      constructor
      · intro h2; exact hs e2 E' (Or.inl h2) (by rw [h1])
      · intro h2; exact hs e2 E' (Or.inr h2) (by rw [h1])
    · left; exact h1

theorem htmlEscape_noLSPS (s : Bytes) : hasLSPS (htmlEscape s) = false := by
  fun_induction htmlEscape s with
  | case1 => simp [hasLSPS]
  | case2 c x y t' h1 ih => rw [hasLSPS_append_ne _ _ (by decide)]; exact ih
  | case3 c x y t' h1 h2 ih => rw [hasLSPS_append_ne _ _ (by decide)]; exact ih
  | case4 c x y t' h1 h2 ih =>
    rcases htmlByte_shape c with hb | ⟨_, hb⟩
    · rw [hb]
      by_cases hc : c = 226
      · subst hc
        refine hasLSPS_226 _ ih ?_
        intro z rest hz hE
        obtain ⟨t, ht⟩ := htmlEscape_starts _ z rest hz hE
        injection ht with hx ht
        injection ht with hy _
        subst hx; subst hy
        rcases hz with hz | hz <;> subst hz
        · exact h1 (by decide)
        · exact h2 (by decide)
      · exact (hasLSPS_cons_ne c _ hc).trans ih
    · rw [hasLSPS_append_ne _ _ hb]; exact ih
  | case5 c t hne ih =>
    rcases htmlByte_shape c with hb | ⟨_, hb⟩
    · rw [hb]
      by_cases hc : c = 226
      · subst hc
        refine hasLSPS_226 _ ih ?_
        intro z rest hz hE
        obtain ⟨t', ht⟩ := htmlEscape_starts _ z rest hz hE
        exact hne 128 z t' ht
      · exact (hasLSPS_cons_ne c _ hc).trans ih
    · rw [hasLSPS_append_ne _ _ hb]; exact ih

/-- `hasLSPS` is the occurrence of one of the two byte triples -/
theorem hasLSPS_of_infix (l pre suf : Bytes) (z : UInt8) (hz : z = 168 ∨ z = 169)
    (h : l = pre ++ 226 :: 128 :: z :: suf) : hasLSPS l = true := by
  induction pre generalizing l with
  | nil =>
    subst h
    rcases hz with hz | hz <;> subst hz <;> simp [hasLSPS]
  | cons p pre ih =>
    subst h
    have := ih (pre ++ 226 :: 128 :: z :: suf) rfl
    match hp : pre ++ 226 :: 128 :: z :: suf with
    | [] => rw [hp] at this; simp [hasLSPS] at this
    | [a] => rw [hp] at this; simp [hasLSPS] at this
    | a :: b :: t =>
      rw [hp] at this
      rw [List.cons_append, hp, hasLSPS, this]
      simp

end SonicSpec.Str
