/-
  Encoder IR, proof infrastructure: termination with a result (`Halts`), fuel monotonicity, determinism,
  the one-instruction rules in continuation form, and `At` (a code fragment sits at a position of a program).
-/
import SonicSpec.Model.IrExec
namespace SonicSpec.Ir
open SonicSpec SonicSpec.Go SonicSpec.Enc SonicSpec.Json

abbrev Res := Except XErr (Stack × Bytes)

/-- the machine started at `pc` returns `res` (for some, hence every larger, amount of fuel) -/
def Halts (o : EncOpts) (co : COpts) (fpv : Bool) (P : Program) (pc : Nat) (r : Regs) (s : Stack) (b : Bytes) (res : Res) : Prop :=
  ∃ n, run o co n fpv P pc r s b = some res

theorem run_mono (o : EncOpts) (co : COpts) : ∀ (n : Nat) (fpv : Bool) (P : Program) (pc : Nat) (r : Regs) (s : Stack) (b : Bytes) (res : Res),
    run o co n fpv P pc r s b = some res → run o co (n + 1) fpv P pc r s b = some res := by
  intro n
  induction n with
  | zero => intro fpv P pc r s b res h; rw [run] at h; cases h
  | succ n ih =>
    intro fpv P pc r s b res h
    rw [run] at h
    rw [run]
    cases hf : P[pc]? with
    | none => rw [hf] at h; exact h
    | some ins =>
      rw [hf] at h
      simp only at h ⊢
      cases hs : step o ins pc r s b with
      | next pc' r' s' b' => rw [hs] at h; simp only at h ⊢; exact ih _ _ _ _ _ _ _ h
      | err e => rw [hs] at h; exact h
      | call T pv c =>
        rw [hs] at h
        simp only at h ⊢
        cases hc : run o co n (fpv || pv) (compile co T (fpv || pv)) 0 (Regs.start c) s b with
        | none => rw [hc] at h; cases h
        | some rc =>
          rw [hc] at h
          rw [ih _ _ _ _ _ _ _ hc]
          cases rc with
          | error e => exact h
          | ok sb =>
            obtain ⟨s', b'⟩ := sb
            simp only at h ⊢
            exact ih _ _ _ _ _ _ _ h

theorem run_mono_add (o : EncOpts) (co : COpts) {n : Nat} {fpv : Bool} {P : Program} {pc : Nat} {r : Regs} {s : Stack} {b : Bytes} {res : Res}
    (h : run o co n fpv P pc r s b = some res) (k : Nat) : run o co (n + k) fpv P pc r s b = some res := by
  induction k with
  | zero => exact h
  | succ k ih => exact run_mono o co _ _ _ _ _ _ _ _ ih

theorem run_mono_le (o : EncOpts) (co : COpts) {n m : Nat} {fpv : Bool} {P : Program} {pc : Nat} {r : Regs} {s : Stack} {b : Bytes} {res : Res}
    (h : run o co n fpv P pc r s b = some res) (hm : n ≤ m) : run o co m fpv P pc r s b = some res := by
  obtain ⟨k, rfl⟩ := Nat.exists_eq_add_of_le hm
  exact run_mono_add o co h k

/-- the result does not depend on the fuel -/
theorem Halts.unique {o : EncOpts} {co : COpts} {fpv : Bool} {P : Program} {pc : Nat} {r : Regs} {s : Stack} {b : Bytes} {a c : Res}
    (ha : Halts o co fpv P pc r s b a) (hc : Halts o co fpv P pc r s b c) : a = c := by
  obtain ⟨n, hn⟩ := ha
  obtain ⟨m, hm⟩ := hc
  have h1 := run_mono_le o co hn (Nat.le_max_left n m)
  have h2 := run_mono_le o co hm (Nat.le_max_right n m)
  rw [h1] at h2
  injection h2

variable {o : EncOpts} {co : COpts} {fpv : Bool} {P : Program}

/-- end of the program: `Execute` returns nil -/
theorem halts_done {pc : Nat} {r : Regs} {s : Stack} {b : Bytes} (h : P[pc]? = none) :
    Halts o co fpv P pc r s b (.ok (s, b)) := ⟨1, by rw [run, h]⟩

theorem halts_step {pc : Nat} {r : Regs} {s : Stack} {b : Bytes} {ins : Instr} {pc' : Nat} {r' : Regs} {s' : Stack} {b' : Bytes} {res : Res}
    (hf : P[pc]? = some ins) (hs : step o ins pc r s b = .next pc' r' s' b')
    (h : Halts o co fpv P pc' r' s' b' res) : Halts o co fpv P pc r s b res := by
  obtain ⟨n, hn⟩ := h
  exact ⟨n + 1, by rw [run, hf]; simp only [hs]; exact hn⟩

theorem halts_err {pc : Nat} {r : Regs} {s : Stack} {b : Bytes} {ins : Instr} {e : XErr}
    (hf : P[pc]? = some ins) (hs : step o ins pc r s b = .err e) : Halts o co fpv P pc r s b (.error e) :=
  ⟨1, by rw [run, hf]; simp only [hs]⟩

/-- OP_recurse / OP_eface: the callee returns, the caller goes on behind the instruction with its own registers -/
theorem halts_call {pc : Nat} {r : Regs} {s : Stack} {b : Bytes} {ins : Instr} {T : GoType} {pv : Bool} {c : Cur} {s' : Stack} {b' : Bytes} {res : Res}
    (hf : P[pc]? = some ins) (hs : step o ins pc r s b = .call T pv c)
    (hc : Halts o co (fpv || pv) (compile co T (fpv || pv)) 0 (Regs.start c) s b (.ok (s', b')))
    (h : Halts o co fpv P (pc + 1) r s' b' res) : Halts o co fpv P pc r s b res := by
  obtain ⟨n, hn⟩ := hc
  obtain ⟨m, hm⟩ := h
  refine ⟨max n m + 1, ?_⟩
  rw [run, hf]
  simp only [hs]
  rw [run_mono_le o co hn (Nat.le_max_left n m)]
  exact run_mono_le o co hm (Nat.le_max_right n m)

theorem halts_callErr {pc : Nat} {r : Regs} {s : Stack} {b : Bytes} {ins : Instr} {T : GoType} {pv : Bool} {c : Cur} {e : XErr}
    (hf : P[pc]? = some ins) (hs : step o ins pc r s b = .call T pv c)
    (hc : Halts o co (fpv || pv) (compile co T (fpv || pv)) 0 (Regs.start c) s b (.error e)) :
    Halts o co fpv P pc r s b (.error e) := by
  obtain ⟨n, hn⟩ := hc
  refine ⟨n + 1, ?_⟩
  rw [run, hf]
  simp only [hs]
  rw [hn]

/-! ### code at a position -/

/-- the fragment `c` occupies the positions `pc ..` of `P` -/
def At (P : Program) (pc : Nat) (c : Program) : Prop := ∃ pre post, P = pre ++ c ++ post ∧ pre.length = pc

theorem At.whole (c : Program) : At c 0 c := ⟨[], [], by simp, rfl⟩

theorem At.left {pc : Nat} {a c : Program} (h : At P pc (a ++ c)) : At P pc a := by
  obtain ⟨pre, post, rfl, hl⟩ := h
  exact ⟨pre, c ++ post, by simp, hl⟩

theorem At.right {pc : Nat} {a c : Program} (h : At P pc (a ++ c)) : At P (pc + a.length) c := by
  obtain ⟨pre, post, rfl, hl⟩ := h
  exact ⟨pre ++ a, post, by simp, by simp [hl]⟩

theorem At.right' {pc q : Nat} {a c : Program} (h : At P pc (a ++ c)) (hq : q = pc + a.length) : At P q c := hq ▸ h.right

theorem At.head {pc : Nat} {i : Instr} {c : Program} (h : At P pc (i :: c)) : P[pc]? = some i := by
  obtain ⟨pre, post, rfl, hl⟩ := h
  subst hl
  simp

theorem At.tail {pc : Nat} {i : Instr} {c : Program} (h : At P pc (i :: c)) : At P (pc + 1) c :=
  At.right (a := [i]) (by simpa using h)

theorem At.tail' {pc q : Nat} {i : Instr} {c : Program} (h : At P pc (i :: c)) (hq : q = pc + 1) : At P q c := hq ▸ h.tail

/-- past the last instruction of the whole program -/
theorem At.end_none {c : Program} {pc : Nat} (hp : pc = c.length) : c[pc]? = none := by
  subst hp; simp

end SonicSpec.Ir
