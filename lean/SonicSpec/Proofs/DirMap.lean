/-
  Decoder IR: compileMapOp for map[string]E - the member loop (an element is decoded INTO the entry `_OP_map_key_str` finds or
  makes) does what the single-pass specification says as long as every key is new to the map (`freshKeys`); with a repeated
  key the two differ (Props/C01Dir `map_dup_key_deviates`).
-/
import SonicSpec.Proofs.DirCorrect
namespace SonicSpec.Dir
open SonicSpec SonicSpec.Go SonicSpec.Json SonicSpec.Bind SonicSpec.Stream

variable {o : DecOpts} {co : COpts}

/-- no key of the object at `s` (decoded into a map that holds `acc`) is in the map already - decided along the
    specification's own run over the members -/
def freshKeys (o : DecOpts) : Nat → GoType → Bytes → List (GoVal × GoVal) → Bool
  | 0, _, _, _ => true
  | n + 1, E, s, acc =>
    match s with
    | 34 :: r =>
      match scanString r with
      | some (k, r1) =>
        match skipWs r1 with
        | 58 :: r2 =>
          match unquote k with
          | some key =>
            !(acc.any fun p => keyEq p.1 (.str key)) &&
              (match decodeVal o n E (skipWs r2) (zeroOf E) with
                | .ok (v, _, r3) =>
                  match skipWs r3 with
                  | 44 :: t => freshKeys o n E (skipWs t) (acc ++ [(.str key, v)])
                  | _ => true
                | .error _ => true)
          | none => true
        | _ => true
      | none => true
    | _ => true

theorem dm_zero (o : DecOpts) (K E : GoType) (s : Bytes) (acc : List (GoVal × GoVal)) : decodeMap o 0 K E s acc = .error .syntax := by
  rw [decodeMap]

theorem dm_succ (o : DecOpts) (n : Nat) (E : GoType) (r0 : Bytes) (acc : List (GoVal × GoVal)) :
    decodeMap o (n + 1) .str E (34 :: r0) acc =
      match scanString r0 with
      | none => .error .syntax
      | some (k, r1) =>
        match skipWs r1 with
        | 58 :: r2 =>
          match unquote k with
          | none => .error .syntax
          | some key =>
            match decodeVal o n E (skipWs r2) (zeroOf E) with
            | .error e => .error e
            | .ok (v, e, r3) =>
              match skipWs r3 with
              | 44 :: t =>
                match decodeMap o n .str E (skipWs t) (mapSet acc (.str key) v) with
                | .error e' => .error e'
                | .ok (res, e', t') => .ok (res, merge e e', t')
              | 125 :: t => .ok (mapSet acc (.str key) v, e, t)
              | _ => .error .syntax
        | _ => .error .syntax := by
  rw [decodeMap]
  simp only [bindKey]
  cases scanString r0 with
  | none => rfl
  | some p =>
    obtain ⟨k, r1⟩ := p
    simp only
    split
    · rename_i r2 heq
      simp only [heq]
      cases unquote k with
      | none => rfl
      | some key =>
        simp only
        cases decodeVal o n E (skipWs r2) (zeroOf E) with
        | error x => rfl
        | ok q => rfl
    · rename_i hne
      split
      · rename_i r2 heq; exact absurd heq (hne r2)
      · rfl

theorem dm_head (o : DecOpts) (n : Nat) (K E : GoType) (s : Bytes) (acc res : List (GoVal × GoVal)) (e : Option DErr) (r : Bytes)
    (h : decodeMap o n K E s acc = .ok (res, e, r)) : ∃ r0, s = 34 :: r0 := by
  cases n with
  | zero => rw [dm_zero] at h; cases h
  | succ n =>
    cases s with
    | nil => simp [decodeMap] at h
    | cons c r0 =>
      by_cases hc : c = 34
      · subst hc; exact ⟨_, rfl⟩
      · rw [decodeMap] at h
        · cases h
        · intro r hr; injection hr with h1 _; exact hc h1

theorem mapSet_fresh (acc : List (GoVal × GoVal)) (k v : GoVal) (h : (acc.any fun p => keyEq p.1 k) = false) :
    mapSet acc k v = acc ++ [(k, v)] := by
  unfold mapSet
  rw [h]; rfl

theorem getAt_map_child {root : GoVal} {p : Path} {kvs : List (GoVal × GoVal)} {k x : GoVal} (hg : ∃ y, getAt root p = some y) :
    getAt (setAt root p (.map (kvs ++ [(k, x)]))) (p ++ [.child kvs.length]) = some x := by
  obtain ⟨y, hy⟩ := hg
  rw [getAt_setAt_below root p _ y _ hy, getAt_cons]
  simp [child1, getAt_nil]

theorem setAt_map_child {root : GoVal} {p : Path} {kvs : List (GoVal × GoVal)} {k x v : GoVal} (hg : ∃ y, getAt root p = some y) :
    setAt (setAt root p (.map (kvs ++ [(k, x)]))) (p ++ [.child kvs.length]) v = setAt root p (.map (kvs ++ [(k, v)])) := by
  obtain ⟨y, hy⟩ := hg
  rw [setAt_setAt_below root p _ y _ _ hy, setAt_cons]
  simp [child1, put1, setAt_nil]

/-- `_OP_map_key_str` with a key the map does not hold: a zero element is added, VP goes to it -/
theorem e_mapKey_fresh {P : Program} {R : Out → Prop} {pc tgt : Nat} {σ : St} {K E : GoType} {kvs : List (GoVal × GoVal)} {k key r : Bytes}
    (hf : P[pc]? = some (.mapKey .str (.map K E) tgt)) (hsc : scanString σ.inp = some (k, r)) (hu : unquote k = some key)
    (hg : getAt σ.root σ.vp = some (.map kvs)) (hfr : (kvs.any fun p => keyEq p.1 (.str key)) = false)
    (kk : Ends o co none R P (pc + 1)
      { (σ.put (.map (kvs ++ [(.str key, zeroOf E)]))) with inp := r, vp := σ.vp ++ [.child kvs.length] }) :
    Ends o co none R P pc σ := by
  refine ends_step hf ?_ kk
  simp only [step, hsc, hu, hg]
  have : List.findIdx? (fun p => keyEq p.1 (.str key)) kvs = none := by
    rw [List.findIdx?_eq_none_iff]
    intro x hx
    have := List.any_eq_false.mp hfr x hx
    simpa using this
  rw [this]

/-- the member loop of compileMapOp (string keys), entered at the `_OP_match_char '"'` of a key: the first copy, or the
    one behind the comma; every key is new to the map (`freshKeys`) -/
def MapOK (o : DecOpts) (co : COpts) (n : Nat) : Prop :=
  ∀ (E : GoType) (s : Bytes) (acc res : List (GoVal × GoVal)) (e : Option DErr) (r : Bytes),
    Sub E = true →
    decodeMap o n .str E s acc = .ok (res, e, r) → freshKeys o n E s acc = true →
    ∀ (lib : LibCode) (tab : Tab) (P : Program) (sp a k0 dropAt : Nat) (K : GoType) (c c2 : Program),
      Above tab E →
      c = (one co lib tab (a + 4) sp E).1 → c2 = (one co lib tab (k0 + 8) sp E).1 →
      At P a ([.matchChar 34, .mapKey .str (.map K E) (a + 4 + c.length), .lspace, .matchChar 58] ++ c ++ [.load]) →
      (∀ (R : Out → Prop) σ, Ends o co none R P k0 σ → Ends o co none R P (a + 4 + c.length + 1) σ) →
      At P k0 ([.lspace, .checkChar dropAt 125, .matchChar 44, .lspace, .matchChar 34, .mapKey .str (.map K E) (k0 + 8 + c2.length), .lspace, .matchChar 58] ++
        c2 ++ [.load, .goto k0]) →
      ∀ (σ : St) (p : Path) (stk : List Frame),
        σ.inp = s → σ.vp = p → σ.stack = { vp := p, n := 0 } :: stk → getAt σ.root p = some (.map acc) →
        ∀ R : Out → Prop, (e ≠ none → Tol R) →
          (∀ σ' : St, σ'.inp = r → σ'.root = setAt σ.root p (.map res) → σ'.stack = σ.stack → σ'.et = merge σ.et e →
            Ends o co none R P dropAt σ') →
          Ends o co none R P a σ

theorem mapOK_zero : MapOK o co 0 := by
  intro E s acc res e r _ h
  rw [dm_zero] at h; cases h

theorem mapOK_succ (n : Nat) (hv : ValOK o co n) (ih : MapOK o co n) : MapOK o co (n + 1) := by
  intro E s acc res e r hs h hfr
  obtain ⟨r0, hs0⟩ := dm_head o _ _ _ _ _ _ _ _ h
  subst hs0
  rw [dm_succ] at h
  simp only [freshKeys] at hfr
  cases hsc : scanString r0 with
  | none => rw [hsc] at h; cases h
  | some q =>
    obtain ⟨k, r1⟩ := q
    rw [hsc] at h hfr
    simp only at h hfr
    have hcol : ∃ r2, skipWs r1 = 58 :: r2 := by
      revert h
      split
      · rename_i r2 heq; intro _; exact ⟨r2, heq⟩
      · intro h; cases h
    obtain ⟨r2, hw1⟩ := hcol
    rw [hw1] at h hfr
    simp only at h hfr
    cases hu : unquote k with
    | none => rw [hu] at h; cases h
    | some key =>
      rw [hu] at h hfr
      simp only at h hfr
      cases hd : decodeVal o n E (skipWs r2) (zeroOf E) with
      | error x => rw [hd] at h; cases h
      | ok q2 =>
        obtain ⟨v, e1, r3⟩ := q2
        rw [hd] at h hfr
        simp only [Bool.and_eq_true, Bool.not_eq_true'] at h hfr
        obtain ⟨hfresh, hfr2⟩ := hfr
        rw [mapSet_fresh acc _ v hfresh] at h
        have hv1 := hv E r2 (zeroOf E) v e1 r3 hs (wt_zero E hs) hd
        -- the member: key, colon, the element decoded into the new entry, back at `k0`
        have hmember : ∀ (lib : LibCode) (tab : Tab) (P : Program) (sp a k0 : Nat) (K : GoType) (c : Program),
            Above tab E → c = (one co lib tab (a + 4) sp E).1 →
            At P a ([.matchChar 34, .mapKey .str (.map K E) (a + 4 + c.length), .lspace, .matchChar 58] ++ c ++ [.load]) →
            (∀ (R : Out → Prop) σ, Ends o co none R P k0 σ → Ends o co none R P (a + 4 + c.length + 1) σ) →
            ∀ (σ : St) (p : Path) (stk : List Frame),
              σ.inp = 34 :: r0 → σ.vp = p → σ.stack = { vp := p, n := 0 } :: stk → getAt σ.root p = some (.map acc) →
              ∀ R : Out → Prop, (e1 ≠ none → Tol R) →
                (∀ σ' : St, σ'.inp = r3 → σ'.vp = p → σ'.root = setAt σ.root p (.map (acc ++ [(.str key, v)])) → σ'.stack = σ.stack →
                  σ'.et = merge σ.et e1 → Ends o co none R P k0 σ') →
                Ends o co none R P a σ := by
          intro lib tab P sp a k0 K c ha hc hat hreach σ p stk hi hvp hst hg R ht k
          have hh := hat.left.left
          refine e_matchChar (hh.get 0 rfl) hi ?_
          refine e_mapKey_fresh (hh.get 1 rfl) (σ := { σ with inp := r0 }) hsc hu (by simp only; rw [hvp]; exact hg) hfresh ?_
          refine e_lspace (hh.get 2 rfl) (c := 58) (r := r2) hw1 ?_
          refine e_matchChar (hh.get 3 rfl) (c := 58) (r := r2) rfl ?_
          have hatc : At P (a + 4) (one co lib tab (a + 4) sp E).1 := by rw [← hc]; exact hat.left.right
          refine hv1.2 lib tab P (a + 4) sp ha hatc _ rfl (by
            simp only [St.put]; rw [hvp]; exact getAt_map_child ⟨_, hg⟩) R ht ?_
          intro σ2 hp
          rw [← hc]
          have hload : P[a + 4 + c.length]? = some Instr.load := (hat.right' (by simp; omega)).get 0 rfl
          refine e_load hload (f := { vp := p, n := 0 }) (rest := stk) (by rw [hp.2.2.1]; exact hst) ?_
          refine hreach R _ ?_
          refine k _ hp.1 rfl ?_ hp.2.2.1 hp.2.2.2
          simp only
          rw [hp.2.1]
          simp only [St.put]
          rw [hvp]
          exact setAt_map_child ⟨_, hg⟩
        cases hw3 : skipWs r3 with
        | nil => rw [hw3] at h; cases h
        | cons b t =>
          rw [hw3] at h hfr2
          by_cases h44 : b = 44
          · subst h44
            simp only at h hfr2
            cases hd2 : decodeMap o n .str E (skipWs t) (acc ++ [(.str key, v)]) with
            | error x => rw [hd2] at h; cases h
            | ok q3 =>
              obtain ⟨res', e', t'⟩ := q3
              rw [hd2] at h
              simp only at h
              injection h with h; injection h with h1 h2; injection h2 with h2 h3
              subst h1; subst h2; subst h3
              have ih2 := ih E (skipWs t) _ res' e' t' hs hd2 hfr2
              obtain ⟨r0', hs'⟩ := dm_head o _ _ _ _ _ _ _ _ hd2
              intro lib tab P sp a k0 dropAt K c c2 ha hc hc2 hat hreach hatk σ p stk hi hvp hst hg R ht k
              refine hmember lib tab P sp a k0 K c ha hc hat hreach σ p stk hi hvp hst hg R (fun hne => ht (merge_ne_none_left hne)) ?_
              intro σ1 h1i h1v h1r h1s h1e
              refine e_lspace (hatk.left.left.get 0 rfl) (c := 44) (r := t) (by rw [h1i]; exact hw3) ?_
              refine e_checkChar_miss (hatk.left.left.get 1 rfl) (b := 44) (r := t) rfl (by decide) ?_
              refine e_matchChar (hatk.left.left.get 2 rfl) (c := 44) (r := t) rfl ?_
              refine e_lspace (hatk.left.left.get 3 rfl) (c := 34) (r := r0') (by simp only; exact hs') ?_
              have hatk' : At P k0 ([Instr.lspace, Instr.checkChar dropAt 125, Instr.matchChar 44, Instr.lspace] ++
                  ([Instr.matchChar 34, Instr.mapKey .str (.map K E) (k0 + 8 + c2.length), Instr.lspace, Instr.matchChar 58] ++ c2 ++ [Instr.load]) ++ [Instr.goto k0]) := by
                have e0 : ([Instr.lspace, Instr.checkChar dropAt 125, Instr.matchChar 44, Instr.lspace, Instr.matchChar 34, Instr.mapKey .str (.map K E) (k0 + 8 + c2.length), Instr.lspace, Instr.matchChar 58] ++
                    c2 ++ [Instr.load, Instr.goto k0] : Program) = [Instr.lspace, Instr.checkChar dropAt 125, Instr.matchChar 44, Instr.lspace] ++
                  ([Instr.matchChar 34, Instr.mapKey .str (.map K E) (k0 + 8 + c2.length), Instr.lspace, Instr.matchChar 58] ++ c2 ++ [Instr.load]) ++ [Instr.goto k0] := by simp
                exact e0 ▸ hatk
              have hatB : At P (k0 + 4) ([Instr.matchChar 34, Instr.mapKey .str (.map K E) (k0 + 4 + 4 + c2.length), Instr.lspace, Instr.matchChar 58] ++ c2 ++ [Instr.load]) := by
                have := hatk'.mid
                have e1 : k0 + 8 + c2.length = k0 + 4 + 4 + c2.length := by omega
                rw [e1] at this
                exact this
              have hgoto : P[k0 + 4 + 4 + c2.length + 1]? = some (Instr.goto k0) := (hatk'.right' (q := k0 + 4 + 4 + c2.length + 1) (by simp only [List.length_append, List.length_cons, List.length_nil]; omega)).get 0 rfl
              refine ih2 lib tab P sp (k0 + 4) k0 dropAt K c2 c2 ha (by rw [hc2]) hc2 hatB (fun R' σ' h' => e_goto hgoto h') hatk
                _ p stk (by simp only; exact hs'.symm) (by simp only; exact h1v) (by simp only; rw [h1s, hst]) (by simp only; rw [h1r]; exact getAt_setAt_self _ _ _ _ hg) R
                (fun hne => ht (merge_ne_none_right hne)) ?_
              intro σ' h'i h'r h's h'e
              refine k σ' h'i ?_ ?_ ?_
              · rw [h'r]; simp only; rw [h1r, setAt_setAt _ _ _ _ _ hg]
              · rw [h's]; simp only; exact h1s
              · rw [h'e]; simp only; rw [h1e, merge_assoc]
          · by_cases h125 : b = 125
            · subst h125
              simp only at h
              injection h with h; injection h with h1 h2; injection h2 with h2 h3
              subst h1; subst h2; subst h3
              intro lib tab P sp a k0 dropAt K c c2 ha hc hc2 hat hreach hatk σ p stk hi hvp hst hg R ht k
              refine hmember lib tab P sp a k0 K c ha hc hat hreach σ p stk hi hvp hst hg R ht ?_
              intro σ1 h1i h1v h1r h1s h1e
              refine e_lspace (hatk.left.left.get 0 rfl) (c := 125) (r := t) (by rw [h1i]; exact hw3) ?_
              refine e_checkChar_hit (hatk.left.left.get 1 rfl) (c := 125) (r := t) rfl ?_
              exact k _ rfl h1r h1s h1e
            · exfalso
              revert h
              split
              · rename_i heq; injection heq with hb _; exact absurd hb h44
              · rename_i heq; injection heq with hb _; exact absurd hb h125
              · intro h; cases h

theorem mapOK_all (hco : 0 < co.maxInlineDepth) : ∀ n : Nat, MapOK o co n
  | 0 => mapOK_zero
  | n + 1 => mapOK_succ n (all_ok hco n).1 (mapOK_all hco n)

theorem dv_map (o : DecOpts) (n : Nat) (E : GoType) (s : Bytes) (cur : GoVal) (hn : isNullLit s = none) :
    decodeVal o (n + 1) (.map .str E) s cur =
      match tok s with
      | .obj r =>
        match skipWs r with
        | 125 :: t' => .ok (.map (curEntries cur), none, t')
        | r' =>
          match decodeMap o n .str E r' (curEntries cur) with
          | .error e => .error e
          | .ok (es, e, t') => .ok (.map es, e, t')
      | _ => skipMismatch o.validateString (n + 1) (.map .str E) s cur .mismatch := by
  rw [decodeVal]; simp only [hn, ptrBase, peel, wrapPtr, mapKeyOk, if_true]
  repeat' (first | rfl | split)

/-- the keys of the top-level object are pairwise different -/
def freshDoc (o : DecOpts) (E : GoType) (s : Bytes) : Bool :=
  match skipWs s with
  | 123 :: r0 =>
    match skipWs r0 with
    | 125 :: _ => true
    | r' => freshKeys o s.length E r' []
  | _ => true

theorem mapCode_shape (lib : LibCode) (tab : Tab) (pc sp : Nat) (K E : GoType) (hs : Sub E = true) (ha : Above tab E) :
    let c1 := (one co lib tab (pc + 14) sp E).1
    let load1 := pc + 14 + c1.length
    let c2 := (one co lib tab (load1 + 9) sp E).1
    let load2 := load1 + 9 + c2.length
    let dropAt := load2 + 2
    (mapCode tab pc (.map K E) .str fun tb p => one co lib tb p sp E).1 =
      ([.isNull (dropAt + 2)] ++ chk (pc + 1) (.map K E) 123 (dropAt + 3) ++ [.save false, .mapInit, .save false, .lspace, .checkChar dropAt 125]) ++
        ([.matchChar 34, .mapKey .str (.map K E) load1, .lspace, .matchChar 58] ++ c1 ++ [.load]) ++
        ([.lspace, .checkChar dropAt 125, .matchChar 44, .lspace, .matchChar 34, .mapKey .str (.map K E) load2, .lspace, .matchChar 58] ++ c2 ++
          [.load, .goto (load1 + 1)]) ++ [.drop2, .goto (dropAt + 3), .nil1] := by
  simp only [mapCode, one_tab hs lib ha]
  simp

theorem e_drop2 {P : Program} {R : Out → Prop} {pc : Nat} {σ : St} {f1 f : Frame} {stk : List Frame}
    (hf : P[pc]? = some .drop2) (hst : σ.stack = f1 :: f :: stk)
    (k : Ends o co none R P (pc + 1) { σ with stack := stk, vp := f.vp }) : Ends o co none R P pc σ :=
  ends_step hf (by simp only [step, hst]) k

theorem ops_map_code (lib : LibCode) (tab : Tab) (pc sp : Nat) (E : GoType) :
    (ops co lib false tab pc sp (.map .str E)).1 = (mapCode tab pc (.map .str E) .str fun tb p => one co lib tb p (sp + 2) E).1 := by
  rw [ops]
  simp only [fin, Bool.not_false, if_true]
  rfl

/-- compileMapOp for map[string]E decoded into a nil map, every key of the object new -/
theorem map_top (hco : 0 < co.maxInlineDepth) (n : Nat) (E : GoType) (hs : Sub E = true) (s : Bytes) (v : GoVal) (e : Option DErr) (r : Bytes)
    (h : decodeVal o (n + 1) (.map .str E) s .nil = .ok (v, e, r))
    (hf : (match tok s with
      | .obj r0 => (match skipWs r0 with
        | 125 :: _ => true
        | r' => freshKeys o n E r' [])
      | _ => true) = true) :
    ∀ (lib : LibCode) (tab : Tab) (P : Program) (pc sp : Nat), (∀ U ∈ tab, tsz (.map .str E) ≤ tsz U) →
      At P pc (ops co lib false tab pc sp (.map .str E)).1 →
      ∀ σ : St, σ.inp = s → getAt σ.root σ.vp = some .nil →
      Sim o co P pc (ops co lib false tab pc sp (.map .str E)).1 σ v e r := by
  intro lib tab P pc sp hle hat σ hi hg
  have ha : Above tab E := tsz_le_above hle (by simp [tsz])
  have hshape := mapCode_shape (co := co) lib tab pc (sp + 2) .str E hs ha
  simp only at hshape
  rw [ops_map_code, hshape] at hat ⊢
  generalize hc1 : (one co lib tab (pc + 14) (sp + 2) E).1 = c1 at hat ⊢
  generalize hc2 : (one co lib tab (pc + 14 + c1.length + 9) (sp + 2) E).1 = c2 at hat ⊢
  have hend : pc + 14 + c1.length + 9 + c2.length + 2 + 3 =
      pc + (([Instr.isNull (pc + 14 + c1.length + 9 + c2.length + 2 + 2)] ++ chk (pc + 1) (.map .str E) 123 (pc + 14 + c1.length + 9 + c2.length + 2 + 3) ++
        [Instr.save false, Instr.mapInit, Instr.save false, Instr.lspace, Instr.checkChar (pc + 14 + c1.length + 9 + c2.length + 2) 125]) ++
        ([Instr.matchChar 34, Instr.mapKey .str (.map .str E) (pc + 14 + c1.length), Instr.lspace, Instr.matchChar 58] ++ c1 ++ [Instr.load]) ++
        ([Instr.lspace, Instr.checkChar (pc + 14 + c1.length + 9 + c2.length + 2) 125, Instr.matchChar 44, Instr.lspace, Instr.matchChar 34,
          Instr.mapKey .str (.map .str E) (pc + 14 + c1.length + 9 + c2.length), Instr.lspace, Instr.matchChar 58] ++ c2 ++
          [Instr.load, Instr.goto (pc + 14 + c1.length + 1)]) ++
        [Instr.drop2, Instr.goto (pc + 14 + c1.length + 9 + c2.length + 2 + 3), Instr.nil1]).length := by
    simp [chk]; omega
  have hhead := hat.left.left.left
  have htail : At P (pc + 14 + c1.length + 9 + c2.length + 2)
      [Instr.drop2, Instr.goto (pc + 14 + c1.length + 9 + c2.length + 2 + 3), Instr.nil1] :=
    hat.right' (by simp [chk]; omega)
  intro R ht k
  cases hn : isNullLit s with
  | some r0 =>
    rw [dv_null o n _ s r0 _ hn] at h
    injection h with h; injection h with h1 h2; injection h2 with h2 h3
    subst h1; subst h2; subst h3
    refine e_isNull_hit (hhead.get 0 rfl) (by rw [hi]; exact hn) ?_
    refine e_nil1 (htail.get 2 rfl) ?_
    rw [show pc + 14 + c1.length + 9 + c2.length + 2 + 2 + 1 = pc + 14 + c1.length + 9 + c2.length + 2 + 3 from rfl, hend]
    exact k _ ⟨rfl, rfl, rfl, (merge_none_right' _).symm⟩
  | none =>
    rw [dv_map o n E s _ hn] at h
    refine e_isNull_miss (hhead.get 0 rfl) (by rw [hi]; exact hn) ?_
    have hchk : At P (pc + 1) (chk (pc + 1) (.map .str E) 123 (pc + 14 + c1.length + 9 + c2.length + 2 + 3)) := by
      have := hhead.left.right (a := [Instr.isNull (pc + 14 + c1.length + 9 + c2.length + 2 + 2)])
      simpa using this
    have h5 : At P (pc + 5) [Instr.save false, Instr.mapInit, Instr.save false, Instr.lspace, Instr.checkChar (pc + 14 + c1.length + 9 + c2.length + 2) 125] :=
      hhead.right' (by simp [chk])
    cases htk : tok s with
    | obj r0 =>
      rw [htk] at h hf
      simp only [curEntries] at h hf
      have hs0 := tok_obj_of htk
      refine e_chk_hit hchk (c := 123) (r := r0) (by rw [hi]; exact hs0) ?_
      refine e_save (h5.get 0 rfl) ?_
      simp only [Bool.false_eq_true, if_false]
      refine ends_step (h5.get 1 rfl) (pc' := pc + 5 + 1 + 1)
        (s' := ({ σ with inp := r0, stack := { vp := σ.vp, n := 0 } :: σ.stack } : St).put (.map [])) (by simp only [step, hg]) ?_
      refine e_save (h5.get 2 rfl) ?_
      simp only [Bool.false_eq_true, if_false, St.put]
      cases hw : skipWs r0 with
      | nil =>
        rw [hw] at h
        simp only at h
        cases hd : decodeMap o n .str E [] [] with
        | error x => rw [hd] at h; cases h
        | ok q => obtain ⟨a1, a2, a3⟩ := q; obtain ⟨r', hr'⟩ := dm_head o _ _ _ _ _ _ _ _ hd; cases hr'
      | cons b r1 =>
        rw [hw] at h hf
        by_cases h125 : b = 125
        · subst h125
          simp only at h
          injection h with h; injection h with h1 h2; injection h2 with h2 h3
          subst h1; subst h2; subst h3
          refine e_lspace (h5.get 3 rfl) (c := 125) (r := r1) hw ?_
          refine e_checkChar_hit (h5.get 4 rfl) (c := 125) (r := r1) rfl ?_
          refine e_drop2 (htail.get 0 rfl) (f1 := { vp := σ.vp, n := 0 }) (f := { vp := σ.vp, n := 0 }) (stk := σ.stack) rfl ?_
          refine e_goto (htail.get 1 rfl) ?_
          rw [hend]
          exact k _ ⟨rfl, rfl, rfl, (merge_none_right' _).symm⟩
        · have h' : (match decodeMap o n .str E (b :: r1) [] with
              | .error e => (.error e : Res GoVal)
              | .ok (es, e, t') => .ok (.map es, e, t')) = .ok (v, e, r) := by
            revert h
            split
            · rename_i heq; injection heq with hb _; exact absurd hb h125
            · intro h; exact h
          have hf' : freshKeys o n E (b :: r1) [] = true := by
            revert hf
            split
            · rename_i heq; injection heq with hb _; exact absurd hb h125
            · intro h; exact h
          cases hd : decodeMap o n .str E (b :: r1) [] with
          | error x => rw [hd] at h'; cases h'
          | ok q =>
            obtain ⟨res, e', t'⟩ := q
            rw [hd] at h'
            simp only at h'
            injection h' with h'; injection h' with h1 h2; injection h2 with h2 h3
            subst h1; subst h2; subst h3
            obtain ⟨r0', hs'⟩ := dm_head o _ _ _ _ _ _ _ _ hd
            injection hs' with hb hr1
            subst hb; subst hr1
            have hm := mapOK_all (o := o) (co := co) hco n E _ [] res e' t' hs hd hf'
            refine e_lspace (h5.get 3 rfl) (c := 34) (r := _) hw ?_
            refine e_checkChar_miss (h5.get 4 rfl) (b := 34) (r := _) rfl (by decide) ?_
            have hA : At P (pc + 10) ([Instr.matchChar 34, Instr.mapKey .str (.map .str E) (pc + 10 + 4 + c1.length), Instr.lspace, Instr.matchChar 58] ++ c1 ++ [Instr.load]) := by
              have := hat.left.left.right' (q := pc + 10) (by simp [chk])
              exact this
            have hK : At P (pc + 14 + c1.length + 1)
                ([Instr.lspace, Instr.checkChar (pc + 14 + c1.length + 9 + c2.length + 2) 125, Instr.matchChar 44, Instr.lspace, Instr.matchChar 34,
                  Instr.mapKey .str (.map .str E) (pc + 14 + c1.length + 1 + 8 + c2.length), Instr.lspace, Instr.matchChar 58] ++ c2 ++
                  [Instr.load, Instr.goto (pc + 14 + c1.length + 1)]) := by
              have := hat.left.right' (q := pc + 14 + c1.length + 1) (by simp [chk]; omega)
              exact this
            refine hm lib tab P (sp + 2) (pc + 10) (pc + 14 + c1.length + 1) (pc + 14 + c1.length + 9 + c2.length + 2) .str c1 c2 ha
              (by rw [← hc1]) (by rw [← hc2]) hA (fun R' σ' h' => h') hK _ σ.vp ({ vp := σ.vp, n := 0 } :: σ.stack) (by rfl) (by rfl) (by rfl)
              (getAt_setAt_self _ _ _ _ hg) R ht ?_
            intro σ' h'i h'r h's h'e
            refine e_drop2 (htail.get 0 rfl) (f1 := { vp := σ.vp, n := 0 }) (f := { vp := σ.vp, n := 0 }) (stk := σ.stack) (by rw [h's]) ?_
            refine e_goto (htail.get 1 rfl) ?_
            rw [hend]
            refine k _ ⟨h'i, ?_, rfl, h'e⟩
            simp only
            rw [h'r]
            simp only
            rw [setAt_setAt _ _ _ _ _ hg]
    | str r0 | arr r0 | lit | other =>
      rw [htk] at h
      simp only at h
      obtain ⟨hsk, hv, he⟩ := skipMismatch_ok h
      simp only [wrapPtr, peel] at hv
      subst hv; subst he
      have hx := (skipVal_exec hsk).1
      cases hs1 : s with
      | nil => rw [hs1, skipVal_nil] at hsk; cases hsk
      | cons c s' =>
        have hne : c ≠ 123 := tok_ne_obj hs1 (fun r0 h0 => by rw [htk] at h0; cases h0)
        refine e_chk_miss hchk (by rw [hi]; exact hs1) hne (by rw [hi]; exact hx) ?_
        rw [hend]
        exact k _ (by rw [hi]; exact ⟨rfl, (setAt_same _ _ _ hg).symm, rfl, rfl⟩)

theorem one_map_code (lib : LibCode) (pc sp : Nat) (E : GoType) :
    (one co lib [] pc sp (.map .str E)).1 = .lspace :: (ops co lib false [.map .str E] (pc + 1) sp (.map .str E)).1 := by
  unfold one wrapOne
  have h1 : tabHas [] (.map .str E) = false := rfl
  have h2 : marshalerCode pc (.map .str E) 0 = none := by simp [marshalerCode, implJ, implT]
  rw [h1, h2]
  rfl

/-- map[string]E, E in the sub-universe: whatever the specification decodes from a document whose top-level object has no
    key twice, the program decodes -/
theorem exec_of_stream_ok_map (hco : 0 < co.maxInlineDepth) {E : GoType} (hs : Sub E = true) {s : Bytes} {v : GoVal}
    (h : Stream.decode o (.map .str E) s = .ok v) (hf : freshDoc o E s = true) :
    exec o co none (compile co (.map .str E)) s .nil = .ok v := by
  obtain ⟨r, hd, hr⟩ := decode_ok_inv h
  have hz : zeroOf (.map .str E) = .nil := by simp [zeroOf]
  rw [hz] at hd
  have hne : skipWs s ≠ [] := by
    intro h0
    rw [h0, decodeVal] at hd
    simp [isNullLit, ptrBase, tok, mapKeyOk, skipMismatch, skipVal_nil] at hd
  obtain ⟨c0, s', hs'⟩ : ∃ c0 s', skipWs s = c0 :: s' := by
    cases hq : skipWs s with
    | nil => exact absurd hq hne
    | cons c0 s' => exact ⟨c0, s', rfl⟩
  have hf' : (match tok (skipWs s) with
      | .obj r0 => (match skipWs r0 with
        | 125 :: _ => true
        | r' => freshKeys o s.length E r' [])
      | _ => true) = true := by
    cases htk : tok (skipWs s) with
    | obj r0 =>
      have := tok_obj_of htk
      unfold freshDoc at hf
      rw [this] at hf
      exact hf
    | _ => rfl
  have hsim := map_top (o := o) (co := co) hco s.length E hs (skipWs s) v none r hd hf'
    (libK co (co.maxInlineDepth + 2)) [.map .str E] (compile co (.map .str E)) 1 0
    (by intro U hU; cases hU with | head => exact Nat.le_refl _ | tail _ h => cases h)
  have hcomp : compile co (.map .str E) = .lspace :: (ops co (libK co (co.maxInlineDepth + 2)) false [.map .str E] 1 0 (.map .str E)).1 := by
    unfold compile; rw [one_map_code]
  have hatw : At (compile co (.map .str E)) 0 (Instr.lspace :: (ops co (libK co (co.maxInlineDepth + 2)) false [.map .str E] 1 0 (.map .str E)).1) := by
    rw [← hcomp]; exact At.whole _
  have hat1 : At (compile co (.map .str E)) 1 (ops co (libK co (co.maxInlineDepth + 2)) false [.map .str E] 1 0 (.map .str E)).1 := by
    simpa using hatw.tail
  have hrun : Ends o co none (fun out => ∃ σ', out = .ok σ' ∧ σ'.inp = r ∧ σ'.root = v ∧ σ'.et = none) (compile co (.map .str E)) 0 (St.start s .nil) := by
    refine e_lspace (hatw.get 0 rfl) (c := c0) (r := s') hs' ?_
    refine hsim hat1 { St.start s .nil with inp := c0 :: s' } (by simp only; exact hs'.symm) (getAt_nil _) _ (fun hne => absurd rfl hne) ?_
    intro σ' hp
    refine ends_done (At.end_none (by rw [hcomp]; simp only [List.length_cons]; omega)) ⟨σ', rfl, hp.1, ?_, ?_⟩
    · rw [hp.2.1]; exact setAt_nil _ _
    · rw [hp.2.2.2]; rfl
  obtain ⟨out, hh, σ', ho, h1, h2, h3⟩ := hrun
  subst ho
  rw [exec_of_halts hh]
  simp only [finish, h1, hr, if_true, h3, h2]

end SonicSpec.Dir
