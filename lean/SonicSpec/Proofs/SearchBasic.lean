/-
  C14 helper lemmas, part 1: white space, inversion of the strict parser of `Json`, the shape of
  number literals, and the elementary steps of the fast scanners.
-/
import SonicSpec.Model.Search
import SonicSpec.Proofs.U8
namespace SonicSpec.Search
open SonicSpec SonicSpec.Json

/-! ## white space and neutral bytes -/

theorem skipWs_cons_of_not_space {c : UInt8} {r : Bytes} (h : isSpace c = false) : skipWs (c :: r) = c :: r := by
  rw [skipWs]; simp [h]

theorem skipWs_cons_of_space {c : UInt8} {r : Bytes} (h : isSpace c = true) : skipWs (c :: r) = skipWs r := by
  rw [skipWs]; simp [h]

theorem skipWs_head_not_space : ∀ {s : Bytes} {c : UInt8} {t : Bytes}, skipWs s = c :: t → isSpace c = false := by
  intro s
  induction s with
  | nil => intro c t h; simp [skipWs] at h
  | cons a r ih =>
    intro c t h
    by_cases ha : isSpace a = true
    · rw [skipWs_cons_of_space ha] at h; exact ih h
    · have ha' : isSpace a = false := by simpa using ha
      rw [skipWs_cons_of_not_space ha'] at h
      cases h; exact ha'

theorem skipWs_idem (s : Bytes) : skipWs (skipWs s) = skipWs s := by
  cases h : skipWs s with
  | nil => simp [skipWs]
  | cons c t => exact skipWs_cons_of_not_space (skipWs_head_not_space h)

/-- the two bracket pairs the fast skipper is instantiated with -/
def IsPair (lc rc : UInt8) : Prop := (lc = 91 ∧ rc = 93) ∨ (lc = 123 ∧ rc = 125)

/-- a byte the container scan does not react to -/
def Neutral (lc rc c : UInt8) : Prop := c ≠ 92 ∧ c ≠ 34 ∧ c ≠ lc ∧ c ≠ rc

theorem pairScan_cons_neutral {lc rc c : UInt8} (h : Neutral lc rc c) (d : Nat) (q : Bool) (r : Bytes) :
    pairScan lc rc d q (c :: r) = pairScan lc rc d q r := by
  obtain ⟨h1, h2, h3, h4⟩ := h
  rw [pairScan.eq_def]
  simp [h1, h2, h3, h4]

theorem pairScan_append_neutral {lc rc : UInt8} (l : Bytes) (h : ∀ c ∈ l, Neutral lc rc c) (d : Nat) (q : Bool) (r : Bytes) :
    pairScan lc rc d q (l ++ r) = pairScan lc rc d q r := by
  induction l with
  | nil => rfl
  | cons c l ih =>
    rw [List.cons_append, pairScan_cons_neutral (h c (by simp))]
    exact ih (fun x hx => h x (by simp [hx]))

theorem space_neutral {lc rc c : UInt8} (hp : IsPair lc rc) (h : isSpace c = true) : Neutral lc rc c := by
  revert c
  unfold Neutral
  rcases hp with ⟨rfl, rfl⟩ | ⟨rfl, rfl⟩ <;> (apply forall_uint8; decide +kernel)

theorem pairScan_skipWs {lc rc : UInt8} (hp : IsPair lc rc) (d : Nat) (q : Bool) (s : Bytes) :
    pairScan lc rc d q (skipWs s) = pairScan lc rc d q s := by
  induction s with
  | nil => rfl
  | cons a r ih =>
    by_cases ha : isSpace a = true
    · rw [skipWs_cons_of_space ha, ih, pairScan_cons_neutral (space_neutral hp ha)]
    · have ha' : isSpace a = false := by simpa using ha
      rw [skipWs_cons_of_not_space ha']

/-! ## strings -/

theorem strEnd_esc (e : UInt8) (r : Bytes) :
    strEnd (92 :: e :: r) = (strEnd r).map fun (b, t) => (92 :: e :: b, t) := by
  rw [strEnd.eq_def]; simp

theorem strEnd_quote (r : Bytes) : strEnd (34 :: r) = some ([], r) := by
  rw [strEnd.eq_def]; simp

theorem strEnd_plain {c : UInt8} (h1 : c ≠ 92) (h2 : c ≠ 34) (r : Bytes) :
    strEnd (c :: r) = (strEnd r).map fun (b, t) => (c :: b, t) := by
  rw [strEnd.eq_def]; simp [h1, h2]

theorem hex_plain : ∀ c : UInt8, isHex c = true → c ≠ 92 ∧ c ≠ 34 := by
  apply forall_uint8; decide +kernel

theorem pairScan_esc (lc rc : UInt8) (d : Nat) (q : Bool) (e : UInt8) (r : Bytes) :
    pairScan lc rc d q (92 :: e :: r) = pairScan lc rc d q r := by
  rw [pairScan.eq_def]; simp

theorem pairScan_quote (lc rc : UInt8) (d : Nat) (q : Bool) (r : Bytes) :
    pairScan lc rc d q (34 :: r) = pairScan lc rc d (!q) r := by
  rw [pairScan.eq_def]; simp

theorem pairScan_inq {lc rc c : UInt8} (h1 : c ≠ 92) (h2 : c ≠ 34) (d : Nat) (r : Bytes) :
    pairScan lc rc d true (c :: r) = pairScan lc rc d true r := by
  rw [pairScan.eq_def]; simp [h1, h2]

/-- on a strictly valid string body the non-validating end-of-string scan finds the same end -/
theorem strEnd_of_scanString (s : Bytes) : ∀ {b r : Bytes}, scanString s = some (b, r) → strEnd s = some (b, r) := by
  fun_induction scanString s with
  | case1 => intro b r h; cases h
  | case2 r => intro b r' h; simp at h; obtain ⟨rfl, rfl⟩ := h; exact strEnd_quote _
  | case3 a b c d r hx ih =>
    intro b' r' h
    simp only [Option.map_eq_some_iff] at h
    obtain ⟨⟨b0, t0⟩, h0, h1⟩ := h
    simp only [Bool.and_eq_true] at hx
    obtain ⟨⟨⟨ha, hb⟩, hc⟩, hd⟩ := hx
    rw [strEnd_esc, strEnd_plain (hex_plain a ha).1 (hex_plain a ha).2, strEnd_plain (hex_plain b hb).1 (hex_plain b hb).2,
      strEnd_plain (hex_plain c hc).1 (hex_plain c hc).2, strEnd_plain (hex_plain d hd).1 (hex_plain d hd).2, ih h0]
    simpa using h1
  | case4 => intro b r h; cases h
  | case5 e r _ he ih =>
    intro b' r' h
    simp only [Option.map_eq_some_iff] at h
    obtain ⟨⟨b0, t0⟩, h0, h1⟩ := h
    rw [strEnd_esc, ih h0]; simpa using h1
  | case6 => intro b r h; cases h
  | case7 => intro b r h; cases h
  | case8 c r h34 _ _ hc ih =>
    intro b' r' h
    simp only [Option.map_eq_some_iff] at h
    obtain ⟨⟨b0, t0⟩, h0, h1⟩ := h
    have h92 : c ≠ 92 := by intro h; simp [h] at hc
    rw [strEnd_plain h92 (fun h => h34 h), ih h0]; simpa using h1

/-! ## inversion of the strict parser -/

theorem parseVal_zero (s : Bytes) : parseVal 0 s = none := by unfold parseVal; rfl
theorem parseElems_zero (s : Bytes) : parseElems 0 s = none := by unfold parseElems; rfl
theorem parseMembers_zero (s : Bytes) : parseMembers 0 s = none := by unfold parseMembers; rfl

/-- the shapes of a successful `parseVal` -/
inductive ValShape (n : Nat) (s : Bytes) (v : JVal) (r : Bytes) : Prop where
  | null (hs : s = 110 :: 117 :: 108 :: 108 :: r) (hv : v = .null)
  | tru (hs : s = 116 :: 114 :: 117 :: 101 :: r) (hv : v = .bool true)
  | fls (hs : s = 102 :: 97 :: 108 :: 115 :: 101 :: r) (hv : v = .bool false)
  | str (t b : Bytes) (hs : s = 34 :: t) (h : scanString t = some (b, r)) (hv : v = .str b)
  | arr0 (t : Bytes) (hs : s = 91 :: t) (h : skipWs t = 93 :: r) (hv : v = .arr [])
  | arr (t : Bytes) (xs : List JVal) (hs : s = 91 :: t) (hne : ∀ t', skipWs t = 93 :: t' → False)
      (h : parseElems n (skipWs t) = some (xs, r)) (hv : v = .arr xs)
  | obj0 (t : Bytes) (hs : s = 123 :: t) (h : skipWs t = 125 :: r) (hv : v = .obj [])
  | obj (t : Bytes) (kvs : List (Bytes × JVal)) (hs : s = 123 :: t) (hne : ∀ t', skipWs t = 125 :: t' → False)
      (h : parseMembers n (skipWs t) = some (kvs, r)) (hv : v = .obj kvs)
  | num (l : Bytes) (h : scanNumber s = some (l, r)) (hv : v = .num l)

theorem parseVal_inv {n : Nat} {s : Bytes} {v : JVal} {r : Bytes} (h : parseVal (n + 1) s = some (v, r)) :
    ValShape n s v r := by
  unfold parseVal at h
  split at h
  · cases h; exact .null rfl rfl
  · cases h; exact .tru rfl rfl
  · cases h; exact .fls rfl rfl
  · rename_i t
    simp only [Option.map_eq_some_iff] at h
    obtain ⟨⟨b, t'⟩, h0, h1⟩ := h
    cases h1
    exact .str t b rfl h0 rfl
  · rename_i t
    split at h
    · rename_i t' heq
      cases h
      exact .arr0 t rfl heq rfl
    · rename_i hne
      simp only [Option.map_eq_some_iff] at h
      obtain ⟨⟨xs, t'⟩, h0, h1⟩ := h
      cases h1
      exact .arr t xs rfl hne h0 rfl
  · rename_i t
    split at h
    · rename_i t' heq
      cases h
      exact .obj0 t rfl heq rfl
    · rename_i hne
      simp only [Option.map_eq_some_iff] at h
      obtain ⟨⟨xs, t'⟩, h0, h1⟩ := h
      cases h1
      exact .obj t xs rfl hne h0 rfl
  · simp only [Option.map_eq_some_iff] at h
    obtain ⟨⟨l, t'⟩, h0, h1⟩ := h
    cases h1
    exact .num l h0 rfl

theorem parseElems_inv {n : Nat} {s : Bytes} {xs : List JVal} {r : Bytes} (h : parseElems (n + 1) s = some (xs, r)) :
    ∃ v r1, parseVal n s = some (v, r1) ∧
      ((∃ t xs', skipWs r1 = 44 :: t ∧ parseElems n (skipWs t) = some (xs', r) ∧ xs = v :: xs') ∨
       (skipWs r1 = 93 :: r ∧ xs = [v])) := by
  unfold parseElems at h
  split at h
  · cases h
  · rename_i v r1 hv
    refine ⟨v, r1, hv, ?_⟩
    split at h
    · rename_i t heq
      simp only [Option.map_eq_some_iff] at h
      obtain ⟨⟨xs', t'⟩, h0, h1⟩ := h
      cases h1
      exact .inl ⟨t, xs', heq, h0, rfl⟩
    · rename_i t heq
      cases h
      exact .inr ⟨heq, rfl⟩
    · cases h

theorem parseMembers_inv {n : Nat} {s : Bytes} {kvs : List (Bytes × JVal)} {r : Bytes}
    (h : parseMembers (n + 1) s = some (kvs, r)) :
    ∃ t k r1 r2 v r3, s = 34 :: t ∧ scanString t = some (k, r1) ∧ skipWs r1 = 58 :: r2 ∧
      parseVal n (skipWs r2) = some (v, r3) ∧
      ((∃ t' kvs', skipWs r3 = 44 :: t' ∧ parseMembers n (skipWs t') = some (kvs', r) ∧ kvs = (k, v) :: kvs') ∨
       (skipWs r3 = 125 :: r ∧ kvs = [(k, v)])) := by
  unfold parseMembers at h
  split at h
  · rename_i t
    split at h
    · cases h
    · rename_i k r1 hk
      split at h
      · rename_i r2 h58
        split at h
        · cases h
        · rename_i v r3 hv
          refine ⟨t, k, r1, r2, v, r3, rfl, hk, h58, hv, ?_⟩
          split at h
          · rename_i t' heq
            simp only [Option.map_eq_some_iff] at h
            obtain ⟨⟨kvs', t''⟩, h0, h1⟩ := h
            cases h1
            exact .inl ⟨t', kvs', heq, h0, rfl⟩
          · rename_i t' heq
            cases h
            exact .inr ⟨heq, rfl⟩
          · cases h
      · cases h
  · cases h

/-! ## number literals -/

/-- bytes a number literal is made of -/
def isNumChar (c : UInt8) : Bool := isDigit c || c == 45 || c == 43 || c == 46 || c == 101 || c == 69

def AllNum (l : Bytes) : Prop := ∀ c ∈ l, isNumChar c = true

theorem AllNum.nil : AllNum [] := by intro c h; cases h
theorem AllNum.cons {c : UInt8} {l : Bytes} (hc : isNumChar c = true) (hl : AllNum l) : AllNum (c :: l) := by
  intro x hx
  simp only [List.mem_cons] at hx
  rcases hx with rfl | hx
  · exact hc
  · exact hl x hx
theorem AllNum.append {a b : Bytes} (ha : AllNum a) (hb : AllNum b) : AllNum (a ++ b) := by
  intro x hx
  simp only [List.mem_append] at hx
  rcases hx with hx | hx
  · exact ha x hx
  · exact hb x hx

theorem takeDigits_spec (s : Bytes) : s = (takeDigits s).1 ++ (takeDigits s).2 ∧ AllNum (takeDigits s).1 := by
  induction s with
  | nil => simp [takeDigits, AllNum]
  | cons c r ih =>
    unfold takeDigits
    by_cases hc : isDigit c = true
    · simp only [hc, if_true]
      exact ⟨by simpa using ih.1, AllNum.cons (by simp [isNumChar, hc]) ih.2⟩
    · simp [hc, AllNum]

def signPart (s : Bytes) : Bytes × Bytes :=
  match s with
  | 45 :: r => ([45], r)
  | _ => ([], s)

def intPart (s1 : Bytes) : Option (Bytes × Bytes) :=
  match s1 with
  | 48 :: r => some ([48], r)
  | c :: r => if isDigit c then let (d, t) := takeDigits r; some (c :: d, t) else none
  | [] => none

def fracPart (s2 : Bytes) : Option (Bytes × Bytes) :=
  match s2 with
  | 46 :: r => let (d, t) := takeDigits r; if d.isEmpty then none else some (46 :: d, t)
  | _ => some ([], s2)

def expSign (r : Bytes) : Bytes × Bytes :=
  match r with
  | 43 :: r' => ([43], r')
  | 45 :: r' => ([45], r')
  | _ => ([], r)

def expPart (s3 : Bytes) : Option (Bytes × Bytes) :=
  match s3 with
  | c :: r =>
    if c == 101 || c == 69 then
      let (sg, r2) := expSign r
      let (d, t) := takeDigits r2
      if d.isEmpty then none else some (c :: (sg ++ d), t)
    else some ([], s3)
  | [] => some ([], s3)

theorem expSign_spec (r : Bytes) : r = (expSign r).1 ++ (expSign r).2 ∧ AllNum (expSign r).1 := by
  unfold expSign
  split
  · exact ⟨rfl, AllNum.cons (by decide) AllNum.nil⟩
  · exact ⟨rfl, AllNum.cons (by decide) AllNum.nil⟩
  · exact ⟨rfl, AllNum.nil⟩

theorem scanNumber_stages (s : Bytes) :
    scanNumber s =
      match signPart s with
      | (sign, s1) =>
        match intPart s1 with
        | none => none
        | some (ip, s2) =>
          match fracPart s2 with
          | none => none
          | some (fp, s3) =>
            match expPart s3 with
            | none => none
            | some (ep, s4) => some (sign ++ ip ++ fp ++ ep, s4) := by
  rfl

theorem signPart_spec (s : Bytes) : s = (signPart s).1 ++ (signPart s).2 ∧ AllNum (signPart s).1 ∧
    ((signPart s).1 = [45] ∨ (signPart s).1 = []) := by
  unfold signPart
  split
  · exact ⟨rfl, AllNum.cons (by decide) AllNum.nil, .inl rfl⟩
  · exact ⟨rfl, AllNum.nil, .inr rfl⟩

theorem intPart_spec {s p t : Bytes} (h : intPart s = some (p, t)) :
    s = p ++ t ∧ AllNum p ∧ ∃ c0 p', p = c0 :: p' ∧ isDigit c0 = true := by
  unfold intPart at h
  split at h
  · cases h; exact ⟨rfl, AllNum.cons (by decide) AllNum.nil, 48, [], rfl, by decide⟩
  · rename_i c r _
    split at h
    · rename_i hc
      have := takeDigits_spec r
      cases h
      refine ⟨by simpa using this.1, AllNum.cons (by simp [isNumChar, hc]) this.2, c, _, rfl, hc⟩
    · cases h
  · cases h

theorem fracPart_spec {s p t : Bytes} (h : fracPart s = some (p, t)) : s = p ++ t ∧ AllNum p := by
  unfold fracPart at h
  split at h
  · rename_i r
    have := takeDigits_spec r
    simp only at h
    split at h
    · cases h
    · cases h
      exact ⟨by simpa using this.1, AllNum.cons (by decide) this.2⟩
  · cases h; exact ⟨rfl, AllNum.nil⟩

theorem expPart_spec {s p t : Bytes} (h : expPart s = some (p, t)) : s = p ++ t ∧ AllNum p := by
  unfold expPart at h
  split at h
  · rename_i c r
    split at h
    · rename_i hc
      have hcn : isNumChar c = true := by
        simp only [Bool.or_eq_true, beq_iff_eq] at hc
        rcases hc with rfl | rfl <;> decide
      have h1 := expSign_spec r
      generalize expSign r = es at h h1
      obtain ⟨sg, r2⟩ := es
      have h2 := takeDigits_spec r2
      simp only at h h1
      split at h
      · cases h
      · cases h
        refine ⟨?_, AllNum.cons hcn (AllNum.append h1.2 h2.2)⟩
        have e : r = sg ++ ((takeDigits r2).fst ++ (takeDigits r2).snd) := by rw [← h2.1]; exact h1.1
        rw [e]; simp
    · cases h; exact ⟨rfl, AllNum.nil⟩
  · cases h; exact ⟨rfl, AllNum.nil⟩

/-- a successful `scanNumber` splits its input into a literal made of number characters that
    starts with `-` or a digit, and the rest -/
theorem scanNumber_spec {s l r : Bytes} (h : scanNumber s = some (l, r)) :
    s = l ++ r ∧ AllNum l ∧ ∃ c0 t, l = c0 :: t ∧ (c0 = 45 ∨ isDigit c0 = true) := by
  rw [scanNumber_stages] at h
  have hs := signPart_spec s
  generalize signPart s = sp at h hs
  obtain ⟨sign, s1⟩ := sp
  simp only at h hs
  split at h
  · cases h
  · rename_i ip s2 hi
    have hi' := intPart_spec hi
    split at h
    · cases h
    · rename_i fp s3 hf
      have hf' := fracPart_spec hf
      split at h
      · cases h
      · rename_i ep s4 he
        have he' := expPart_spec he
        cases h
        obtain ⟨c0, p', hp, hd⟩ := hi'.2.2
        refine ⟨?_, AllNum.append (AllNum.append (AllNum.append hs.2.1 hi'.2.1) hf'.2) he'.2, ?_⟩
        · rw [hs.1, hi'.1, hf'.1, he'.1]; simp
        · rcases hs.2.2 with h45 | h0
          · exact ⟨45, ip ++ fp ++ ep, by simp [h45], .inl rfl⟩
          · exact ⟨c0, p' ++ fp ++ ep, by simp [h0, hp], .inr hd⟩

end SonicSpec.Search
