/-
  C02, lexical layer 2: white space, literals and the three string scanners against the two
  string-body grammars.
-/
import SonicSpec.Model.JsonValidate
import SonicSpec.Proofs.U8
namespace SonicSpec.Json

/-! ### white space -/

theorem allSpace_nil : AllSpace [] := by intro c hc; cases hc

theorem allSpace_cons {c : UInt8} {w : Bytes} (hc : isSpace c = true) (hw : AllSpace w) : AllSpace (c :: w) := by
  intro d hd
  rcases List.mem_cons.mp hd with rfl | hd
  · exact hc
  · exact hw d hd

theorem allSpace_append {a b : Bytes} (ha : AllSpace a) (hb : AllSpace b) : AllSpace (a ++ b) := by
  intro d hd
  rcases List.mem_append.mp hd with h | h
  · exact ha d h
  · exact hb d h

theorem skipWs_append (w s : Bytes) (h : AllSpace w) : skipWs (w ++ s) = skipWs s := by
  induction w with
  | nil => rfl
  | cons c w ih =>
    have hc : isSpace c = true := h c (by simp)
    rw [List.cons_append, skipWs, if_pos hc]
    exact ih (fun d hd => h d (by simp [hd]))

theorem skipWs_nonspace {c : UInt8} (r : Bytes) (h : isSpace c = false) : skipWs (c :: r) = c :: r := by
  rw [skipWs]; simp [h]

/-- `skipWs` removes a space prefix and stops at a non-space byte (or the end) -/
theorem skipWs_spec (s : Bytes) : ∃ w, s = w ++ skipWs s ∧ AllSpace w ∧
    (∀ c r, skipWs s = c :: r → isSpace c = false) := by
  induction s with
  | nil => exact ⟨[], rfl, allSpace_nil, by intro c r h; simp [skipWs] at h⟩
  | cons c s ih =>
    by_cases hc : isSpace c = true
    · obtain ⟨w, h1, h2, h3⟩ := ih
      refine ⟨c :: w, ?_, allSpace_cons hc h2, ?_⟩
      · rw [skipWs, if_pos hc, List.cons_append, ← h1]
      · rw [skipWs, if_pos hc]; exact h3
    · have hc' : isSpace c = false := by simpa using hc
      refine ⟨[], ?_, allSpace_nil, ?_⟩
      · rw [skipWs_nonspace s hc']; rfl
      · rw [skipWs_nonspace s hc']
        intro d r h
        cases h
        exact hc'

theorem advanceNs_some {s : Bytes} {ch : UInt8} {r : Bytes} (h : advanceNs s = some (ch, r)) :
    ∃ w, s = w ++ ch :: r ∧ AllSpace w ∧ isSpace ch = false ∧ ch ≠ 0 := by
  obtain ⟨w, h1, h2, h3⟩ := skipWs_spec s
  unfold advanceNs at h
  cases hs : skipWs s with
  | nil => rw [hs] at h; cases h
  | cons c t =>
    rw [hs] at h
    simp only at h
    by_cases hc : c = 0
    · rw [if_pos hc] at h; cases h
    · rw [if_neg hc] at h
      cases h
      exact ⟨w, by rw [hs] at h1; exact h1, h2, h3 _ _ hs, hc⟩

theorem advanceNs_ws {w : Bytes} {ch : UInt8} (r : Bytes) (hw : AllSpace w) (h1 : isSpace ch = false) (h2 : ch ≠ 0) :
    advanceNs (w ++ ch :: r) = some (ch, r) := by
  unfold advanceNs
  rw [skipWs_append w _ hw, skipWs_nonspace r h1]
  simp [h2]

/-! ### literals -/

theorem lit_ok {pat r r' : Bytes} (h : lit pat r = .ok r') : r = pat ++ r' := by
  unfold lit at h
  simp only at h
  split at h
  · cases h
  · split at h
    · rename_i h2
      cases h
      conv => lhs; rw [← List.take_append_drop pat.length r]
      rw [h2]
    · cases h

theorem lit_append (pat r : Bytes) : lit pat (pat ++ r) = .ok r := by
  unfold lit
  simp

/-! ### byte facts -/

theorem hex_plain : ∀ c : UInt8, isHex c = true → c ≥ 32 ∧ c ≠ 34 ∧ c ≠ 92 ∧ isCtl c = false := by
  apply forall_uint8
  decide +kernel

theorem simpleEsc_ge : ∀ c : UInt8, isSimpleEsc c = true → c ≥ 32 ∧ isCtl c = false ∧ c ≠ 117 := by
  apply forall_uint8
  decide +kernel

theorem isCtl_iff (c : UInt8) : isCtl c = false ↔ c ≥ 32 := by
  unfold isCtl
  simp [UInt8.not_lt]

/-! ### string bodies: strict ⊆ lax -/

theorem laxBody_hex4 {h1 h2 h3 h4 : UInt8} {b : Bytes} (x1 : isHex h1 = true) (x2 : isHex h2 = true)
    (x3 : isHex h3 = true) (x4 : isHex h4 = true) (hb : LaxBody b) : LaxBody (h1 :: h2 :: h3 :: h4 :: b) := by
  obtain ⟨_, a1, a2, _⟩ := hex_plain h1 x1
  obtain ⟨_, b1, b2, _⟩ := hex_plain h2 x2
  obtain ⟨_, c1, c2, _⟩ := hex_plain h3 x3
  obtain ⟨_, d1, d2, _⟩ := hex_plain h4 x4
  exact .plain _ _ a1 a2 (.plain _ _ b1 b2 (.plain _ _ c1 c2 (.plain _ _ d1 d2 hb)))

theorem strictBody_lax {b : Bytes} (h : StrictBody b) : LaxBody b := by
  induction h with
  | nil => exact .nil
  | plain c b _ h2 h3 _ ih => exact .plain c b h2 h3 ih
  | esc e b _ _ ih => exact .esc e b ih
  | uni h1 h2 h3 h4 b x1 x2 x3 x4 _ ih => exact .esc 117 _ (laxBody_hex4 x1 x2 x3 x4 ih)

theorem strictBody_hex4 {h1 h2 h3 h4 : UInt8} {b : Bytes} (x1 : isHex h1 = true) (x2 : isHex h2 = true)
    (x3 : isHex h3 = true) (x4 : isHex h4 = true) (hb : StrictBody b) : StrictBody (h1 :: h2 :: h3 :: h4 :: b) := by
  obtain ⟨a0, a1, a2, _⟩ := hex_plain h1 x1
  obtain ⟨b0, b1, b2, _⟩ := hex_plain h2 x2
  obtain ⟨c0, c1, c2, _⟩ := hex_plain h3 x3
  obtain ⟨d0, d1, d2, _⟩ := hex_plain h4 x4
  exact .plain _ _ a0 a1 a2 (.plain _ _ b0 b1 b2 (.plain _ _ c0 c1 c2 (.plain _ _ d0 d1 d2 hb)))

/-! ### advance_string_default ⇔ LaxBody -/

theorem strDefault_quote (r : Bytes) : strDefault (34 :: r) = .ok r := by
  rw [strDefault.eq_def]; simp

theorem strDefault_plain {c : UInt8} (r : Bytes) (h1 : c ≠ 34) (h2 : c ≠ 92) : strDefault (c :: r) = strDefault r := by
  conv => lhs; rw [strDefault.eq_def]
  simp [h1, h2]

theorem strDefault_esc (c : UInt8) (r : Bytes) : strDefault (92 :: c :: r) = strDefault r := by
  conv => lhs; rw [strDefault.eq_def]
  simp

theorem strDefault_complete {b : Bytes} (r : Bytes) (h : LaxBody b) : strDefault (b ++ 34 :: r) = .ok r := by
  induction h with
  | nil => exact strDefault_quote r
  | plain c b h1 h2 _ ih => rw [List.cons_append, strDefault_plain _ h1 h2]; exact ih
  | esc c b _ ih => rw [List.cons_append, List.cons_append, strDefault_esc]; exact ih

theorem strDefault_sound : ∀ (n : Nat) (s r : Bytes), s.length ≤ n → strDefault s = .ok r →
    ∃ b, s = b ++ 34 :: r ∧ LaxBody b := by
  intro n
  induction n with
  | zero =>
    intro s r hl h
    cases s with
    | nil => simp [strDefault] at h
    | cons c t => simp at hl
  | succ n ih =>
    intro s r hl h
    cases s with
    | nil => simp [strDefault] at h
    | cons c t =>
      by_cases h1 : c = 34
      · subst h1
        rw [strDefault_quote] at h
        cases h
        exact ⟨[], rfl, .nil⟩
      by_cases h2 : c = 92
      · subst h2
        cases t with
        | nil => simp [strDefault] at h
        | cons d t' =>
          rw [strDefault_esc] at h
          obtain ⟨b, rfl, hb⟩ := ih t' r (by simp at hl; omega) h
          exact ⟨92 :: d :: b, rfl, .esc d b hb⟩
      · rw [strDefault_plain _ h1 h2] at h
        obtain ⟨b, rfl, hb⟩ := ih t r (by simp at hl; omega) h
        exact ⟨c :: b, rfl, .plain c b h1 h2 hb⟩

/-! ### the scanner of the Strict grammar ⇔ StrictBody -/

theorem strStrict_quote (r : Bytes) : strStrict (34 :: r) = .ok r := by
  rw [strStrict.eq_def]; simp

theorem strStrict_plain {c : UInt8} (r : Bytes) (h1 : c ≠ 34) (h2 : c ≠ 92) (h3 : isCtl c = false) :
    strStrict (c :: r) = strStrict r := by
  conv => lhs; rw [strStrict.eq_def]
  simp [h1, h2, h3]

theorem strStrict_esc {e : UInt8} (r : Bytes) (h : isSimpleEsc e = true) : strStrict (92 :: e :: r) = strStrict r := by
  conv => lhs; rw [strStrict.eq_def]
  simp [h]

theorem strStrict_uni {h1 h2 h3 h4 : UInt8} (r : Bytes) (x1 : isHex h1 = true) (x2 : isHex h2 = true)
    (x3 : isHex h3 = true) (x4 : isHex h4 = true) :
    strStrict (92 :: 117 :: h1 :: h2 :: h3 :: h4 :: r) = strStrict r := by
  conv => lhs; rw [strStrict.eq_def]
  have : isSimpleEsc 117 = false := by decide
  simp [this, x1, x2, x3, x4]

theorem strStrict_complete {b : Bytes} (r : Bytes) (h : StrictBody b) : strStrict (b ++ 34 :: r) = .ok r := by
  induction h with
  | nil => exact strStrict_quote r
  | plain c b h0 h1 h2 _ ih =>
    rw [List.cons_append, strStrict_plain _ h1 h2 ((isCtl_iff c).mpr h0)]; exact ih
  | esc e b he _ ih => rw [List.cons_append, List.cons_append, strStrict_esc _ he]; exact ih
  | uni h1 h2 h3 h4 b x1 x2 x3 x4 _ ih =>
    simp only [List.cons_append]
    rw [strStrict_uni _ x1 x2 x3 x4]; exact ih

theorem strStrict_sound : ∀ (n : Nat) (s r : Bytes), s.length ≤ n → strStrict s = .ok r →
    ∃ b, s = b ++ 34 :: r ∧ StrictBody b := by
  intro n
  induction n with
  | zero =>
    intro s r hl h
    cases s with
    | nil => simp [strStrict] at h
    | cons c t => simp at hl
  | succ n ih =>
    intro s r hl h
    cases s with
    | nil => simp [strStrict] at h
    | cons c t =>
      by_cases h1 : c = 34
      · subst h1
        rw [strStrict_quote] at h
        cases h
        exact ⟨[], rfl, .nil⟩
      by_cases h2 : c = 92
      · subst h2
        cases t with
        | nil => rw [strStrict.eq_def] at h; simp at h
        | cons e t1 =>
          by_cases he : isSimpleEsc e = true
          · rw [strStrict_esc _ he] at h
            obtain ⟨b, rfl, hb⟩ := ih t1 r (by simp at hl; omega) h
            exact ⟨92 :: e :: b, rfl, .esc e b he hb⟩
          · have he' : isSimpleEsc e = false := by simpa using he
            by_cases hu : e = 117
            · subst hu
              rcases t1 with _ | ⟨h1, _ | ⟨h2, _ | ⟨h3, _ | ⟨h4, r5⟩⟩⟩⟩
              · rw [strStrict.eq_def] at h; simp [he'] at h
              · rw [strStrict.eq_def] at h; simp [he'] at h
              · rw [strStrict.eq_def] at h; simp [he'] at h
              · rw [strStrict.eq_def] at h; simp [he'] at h
              · by_cases hx : (isHex h1 && isHex h2 && isHex h3 && isHex h4) = true
                · simp only [Bool.and_eq_true] at hx
                  obtain ⟨⟨⟨x1, x2⟩, x3⟩, x4⟩ := hx
                  rw [strStrict_uni _ x1 x2 x3 x4] at h
                  obtain ⟨b, rfl, hb⟩ := ih r5 r (by simp at hl; omega) h
                  exact ⟨92 :: 117 :: h1 :: h2 :: h3 :: h4 :: b, rfl, .uni h1 h2 h3 h4 b x1 x2 x3 x4 hb⟩
                · rw [strStrict.eq_def] at h; simp [he', hx] at h
            · rw [strStrict.eq_def] at h; simp [he', hu] at h
      · by_cases h3 : isCtl c = true
        · rw [strStrict.eq_def] at h; simp [h1, h2, h3] at h
        · have h3' : isCtl c = false := by simpa using h3
          rw [strStrict_plain _ h1 h2 h3'] at h
          obtain ⟨b, rfl, hb⟩ := ih t r (by simp at hl; omega) h
          exact ⟨c :: b, rfl, .plain c b ((isCtl_iff c).mp h3') h1 h2 hb⟩

/-! ### advance_string_validate: sound for LaxBody, complete for StrictBody -/

/-- the bytes of a validated escape sequence never contain a raw quote or a dangling backslash -/
theorem escLen_lax {t : Bytes} {k : Nat} (h : escLen t = .ok k) {b : Bytes} (hb : LaxBody b) :
    LaxBody (92 :: (t.take k ++ b)) := by
  unfold escLen at h
  split at h
  · cases h
  · split at h
    · cases h; exact .esc _ _ hb
    · split at h
      · split at h
        · split at h
          · rename_i hx
            simp only [Bool.and_eq_true] at hx
            obtain ⟨⟨⟨x1, x2⟩, x3⟩, x4⟩ := hx
            have five : ∀ (c : UInt8) (r4 : Bytes),
                LaxBody (92 :: (List.take 5 (c :: _ :: _ :: _ :: _ :: r4) ++ b)) :=
              fun c r4 => by simpa using LaxBody.esc c _ (laxBody_hex4 x1 x2 x3 x4 hb)
            dsimp only at h
            split at h
            · split at h
              · split at h
                · rename_i hy
                  simp only [Bool.and_eq_true] at hy
                  obtain ⟨⟨⟨y1, y2⟩, y3⟩, y4⟩ := hy
                  split at h
                  · cases h
                    simpa using LaxBody.esc _ _ (laxBody_hex4 x1 x2 x3 x4 (.esc 117 _ (laxBody_hex4 y1 y2 y3 y4 hb)))
                  · cases h; exact five _ _
                · cases h; exact five _ _
              · cases h; exact five _ _
            · cases h; exact five _ _
          · cases h
        · cases h
      · cases h

theorem strValTail_zero_cons (c : UInt8) (r : Bytes) : strValTail 0 (c :: r) =
    if c = 34 then .ok r
    else if c = 92 then
      match r with
      | [] => .err .eof []
      | _ :: _ => match escLen r with
        | .ok k => strValTail k r
        | .error e => .err e (c :: r)
    else if isCtl c then .err .inval (c :: r)
    else strValTail 0 r := by
  conv => lhs; unfold strValTail
  rfl

theorem strValTail_sound : ∀ (s : Bytes) (k : Nat) (r : Bytes), strValTail k s = .ok r →
    ∃ b, s.drop k = b ++ 34 :: r ∧ LaxBody b := by
  intro s
  induction s with
  | nil => intro k r h; cases k <;> simp [strValTail] at h
  | cons c t ih =>
    intro k r h
    cases k with
    | succ k' =>
      rw [strValTail] at h
      obtain ⟨b, h1, h2⟩ := ih k' r h
      exact ⟨b, by simpa using h1, h2⟩
    | zero =>
      rw [strValTail_zero_cons] at h
      by_cases h1 : c = 34
      · rw [if_pos h1] at h; cases h; subst h1; exact ⟨[], rfl, .nil⟩
      rw [if_neg h1] at h
      by_cases h2 : c = 92
      · rw [if_pos h2] at h
        subst h2
        cases t with
        | nil => cases h
        | cons d t' =>
          simp only at h
          cases he : escLen (d :: t') with
          | error e => rw [he] at h; cases h
          | ok k2 =>
            rw [he] at h
            simp only at h
            obtain ⟨b, hb1, hb2⟩ := ih k2 r h
            refine ⟨92 :: ((d :: t').take k2 ++ b), ?_, escLen_lax he hb2⟩
            rw [List.drop_zero, List.cons_append, List.append_assoc, ← hb1, List.take_append_drop]
      · rw [if_neg h2] at h
        by_cases h3 : isCtl c = true
        · rw [if_pos h3] at h; cases h
        · rw [if_neg h3] at h
          obtain ⟨b, hb1, hb2⟩ := ih 0 r h
          exact ⟨c :: b, by simpa using hb1, .plain c b h1 h2 hb2⟩

theorem strValBlocks_sound : ∀ (n : Nat) (esc : Bool) (s r : Bytes), strValBlocks n esc s = .ok r →
    (esc = false → ∃ b, s = b ++ 34 :: r ∧ LaxBody b) ∧
    (esc = true → ∃ c b, s = c :: (b ++ 34 :: r) ∧ LaxBody b) := by
  intro n
  induction n with
  | zero =>
    intro esc s r h
    cases esc with
    | true =>
      refine ⟨(by intro h; cases h), fun _ => ?_⟩
      cases s with
      | nil => simp [strValBlocks] at h
      | cons c t =>
        simp only [strValBlocks, if_true] at h
        obtain ⟨b, h1, h2⟩ := strValTail_sound t 0 r h
        exact ⟨c, b, by simpa using h1, h2⟩
    | false =>
      refine ⟨fun _ => ?_, (by intro h; cases h)⟩
      simp only [strValBlocks] at h
      obtain ⟨b, h1, h2⟩ := strValTail_sound s 0 r (by simpa using h)
      exact ⟨b, by simpa using h1, h2⟩
  | succ n ih =>
    intro esc s r h
    cases s with
    | nil => simp [strValBlocks] at h
    | cons c t =>
      cases esc with
      | true =>
        refine ⟨(by intro h; cases h), fun _ => ?_⟩
        rw [strValBlocks] at h
        by_cases h3 : isCtl c = true
        · rw [if_pos h3] at h; cases h
        · rw [if_neg h3] at h
          obtain ⟨b, rfl, hb⟩ := (ih false t r h).1 rfl
          exact ⟨c, b, rfl, hb⟩
      | false =>
        refine ⟨fun _ => ?_, (by intro h; cases h)⟩
        rw [strValBlocks] at h
        by_cases h1 : c = 34
        · rw [if_pos h1] at h; cases h; subst h1; exact ⟨[], rfl, .nil⟩
        rw [if_neg h1] at h
        by_cases h3 : isCtl c = true
        · rw [if_pos h3] at h; cases h
        rw [if_neg h3] at h
        by_cases h2 : c = 92
        · subst h2
          obtain ⟨d, b, rfl, hb⟩ := (ih true t r (by simpa using h)).2 rfl
          exact ⟨92 :: d :: b, rfl, .esc d b hb⟩
        · have : (c == 92) = false := by simpa using h2
          rw [this] at h
          obtain ⟨b, rfl, hb⟩ := (ih false t r h).1 rfl
          exact ⟨c :: b, rfl, .plain c b h1 h2 hb⟩

theorem strValidate_sound {s r : Bytes} (h : strValidate s = .ok r) : ∃ b, s = b ++ 34 :: r ∧ LaxBody b :=
  (strValBlocks_sound _ false s r h).1 rfl

theorem strValTail_skip : ∀ (u s : Bytes) (k : Nat), u.length = k → strValTail k (u ++ s) = strValTail 0 s := by
  intro u
  induction u with
  | nil => intro s k h; simp at h; subst h; rfl
  | cons c u ih =>
    intro s k h
    cases k with
    | zero => simp at h
    | succ k' =>
      rw [List.cons_append, strValTail]
      exact ih s k' (by simpa using h)

theorem escLen_simple {e : UInt8} (r : Bytes) (h : isSimpleEsc e = true) : escLen (e :: r) = .ok 1 := by
  simp [escLen, h]

/-- a `\uXXXX` escape is 5 bytes after the backslash, or 11 when it is a high surrogate directly followed
    by a low surrogate escape -/
theorem escLen_uni {h1 h2 h3 h4 : UInt8} (r : Bytes) (x1 : isHex h1 = true) (x2 : isHex h2 = true)
    (x3 : isHex h3 = true) (x4 : isHex h4 = true) :
    escLen (117 :: h1 :: h2 :: h3 :: h4 :: r) = .ok 5 ∨
    (escLen (117 :: h1 :: h2 :: h3 :: h4 :: r) = .ok 11 ∧
      ∃ g1 g2 g3 g4 r', r = 92 :: 117 :: g1 :: g2 :: g3 :: g4 :: r' ∧
        isHex g1 = true ∧ isHex g2 = true ∧ isHex g3 = true ∧ isHex g4 = true) := by
  have hs : isSimpleEsc 117 = false := by decide
  simp only [escLen, hs, x1, x2, x3, x4, Bool.and_self, if_true, Bool.false_eq_true, if_false]
  split
  · split
    · rename_i g1 g2 g3 g4 r'
      split
      · rename_i hy
        simp only [Bool.and_eq_true] at hy
        obtain ⟨⟨⟨y1, y2⟩, y3⟩, y4⟩ := hy
        split
        · exact Or.inr ⟨rfl, g1, g2, g3, g4, r', rfl, y1, y2, y3, y4⟩
        · exact Or.inl rfl
      · exact Or.inl rfl
    · exact Or.inl rfl
  · exact Or.inl rfl

theorem strValTail_complete : ∀ (n : Nat) (b r : Bytes), b.length ≤ n → StrictBody b →
    strValTail 0 (b ++ 34 :: r) = .ok r := by
  intro n
  induction n with
  | zero =>
    intro b r hl hb
    cases hb with
    | nil => rw [List.nil_append, strValTail_zero_cons, if_pos rfl]
    | plain _ _ _ _ _ _ => simp at hl
    | esc _ _ _ _ => simp at hl
    | uni _ _ _ _ _ _ _ _ _ _ => simp at hl
  | succ n ih =>
    intro b r hl hb
    cases hb with
    | nil => rw [List.nil_append, strValTail_zero_cons, if_pos rfl]
    | plain c b' h0 h1 h2 hb' =>
      rw [List.cons_append, strValTail_zero_cons, if_neg h1, if_neg h2, if_neg (by rw [(isCtl_iff c).mpr h0]; simp)]
      exact ih b' r (by simp at hl; omega) hb'
    | esc e b' he hb' =>
      rw [List.cons_append, List.cons_append, strValTail_zero_cons, if_neg (by decide), if_pos rfl]
      simp only [escLen_simple _ he]
      rw [strValTail]
      exact ih b' r (by simp at hl; omega) hb'
    | uni h1 h2 h3 h4 b' x1 x2 x3 x4 hb' =>
      simp only [List.cons_append]
      rw [strValTail_zero_cons, if_neg (by decide), if_pos rfl]
      simp only
      rcases escLen_uni (b' ++ 34 :: r) x1 x2 x3 x4 with h5 | ⟨h11, g1, g2, g3, g4, r', hr', y1, y2, y3, y4⟩
      · rw [h5]
        simp only
        have := strValTail_skip [117, h1, h2, h3, h4] (b' ++ 34 :: r) 5 rfl
        simp only [List.cons_append, List.nil_append] at this
        rw [this]
        exact ih b' r (by simp at hl; omega) hb'
      · rw [h11]
        simp only
        -- b' itself starts with the low-surrogate escape
        cases hb' with
        | nil => simp at hr'
        | plain c b'' _ _ hc _ => simp at hr'; exact absurd hr'.1 hc
        | esc e b'' he _ =>
          simp at hr'
          obtain ⟨rfl, _⟩ := hr'
          exact absurd he (by decide)
        | uni a1 a2 a3 a4 b'' _ _ _ _ hb'' =>
          simp only [List.cons_append, List.cons.injEq, true_and] at hr'
          obtain ⟨rfl, rfl, rfl, rfl, rfl⟩ := hr'
          have := strValTail_skip [117, h1, h2, h3, h4, 92, 117, a1, a2, a3, a4] (b'' ++ 34 :: r) 11 rfl
          simp only [List.cons_append, List.nil_append] at this ⊢
          rw [this]
          exact ih b'' r (by simp at hl; omega) hb''

theorem strValBlocks_complete : ∀ (n : Nat) (b r : Bytes),
    (StrictBody b → strValBlocks n false (b ++ 34 :: r) = .ok r) ∧
    (∀ c : UInt8, c ≥ 32 → StrictBody b → strValBlocks n true (c :: (b ++ 34 :: r)) = .ok r) := by
  intro n
  induction n with
  | zero =>
    intro b r
    refine ⟨fun hb => ?_, fun c _ hb => ?_⟩
    · simp only [strValBlocks, Bool.false_eq_true, if_false]
      exact strValTail_complete _ b r (Nat.le_refl _) hb
    · simp only [strValBlocks, if_true]
      exact strValTail_complete _ b r (Nat.le_refl _) hb
  | succ n ih =>
    intro b r
    refine ⟨fun hb => ?_, fun c hc hb => ?_⟩
    · cases hb with
      | nil => rw [List.nil_append, strValBlocks, if_pos rfl]
      | plain c b' h0 h1 h2 hb' =>
        rw [List.cons_append, strValBlocks, if_neg h1, if_neg (by rw [(isCtl_iff c).mpr h0]; simp)]
        have : (c == 92) = false := by simpa using h2
        rw [this]
        exact (ih b' r).1 hb'
      | esc e b' he hb' =>
        rw [List.cons_append, List.cons_append, strValBlocks, if_neg (by decide), if_neg (by decide)]
        exact (ih b' r).2 e (simpleEsc_ge e he).1 hb'
      | uni h1 h2 h3 h4 b' x1 x2 x3 x4 hb' =>
        simp only [List.cons_append]
        rw [strValBlocks, if_neg (by decide), if_neg (by decide)]
        exact (ih (h1 :: h2 :: h3 :: h4 :: b') r).2 117 (by decide) (strictBody_hex4 x1 x2 x3 x4 hb')
    · rw [strValBlocks, if_neg (by rw [(isCtl_iff c).mpr hc]; simp)]
      exact (ih b r).1 hb

theorem strValidate_complete {b : Bytes} (r : Bytes) (h : StrictBody b) : strValidate (b ++ 34 :: r) = .ok r :=
  (strValBlocks_complete _ b r).1 h

/-! ### the three modes against the two grammars -/

theorem scanStr_sound (m : StrMode) {s r : Bytes} (h : scanStr m s = .ok r) : ∃ b, s = b ++ 34 :: r ∧ LaxBody b := by
  cases m with
  | dflt => exact strDefault_sound _ s r (Nat.le_refl _) h
  | validate => exact strValidate_sound h
  | strict =>
    obtain ⟨b, h1, h2⟩ := strStrict_sound _ s r (Nat.le_refl _) h
    exact ⟨b, h1, strictBody_lax h2⟩

theorem scanStr_complete (m : StrMode) {b : Bytes} (r : Bytes) (h : StrictBody b) : scanStr m (b ++ 34 :: r) = .ok r := by
  cases m with
  | dflt => exact strDefault_complete r (strictBody_lax h)
  | validate => exact strValidate_complete r h
  | strict => exact strStrict_complete r h

end SonicSpec.Json
