/-
  C15 - every mutator of the chunked child storage is the list operation on the slots in use, and so
  is every sequence of them (abstraction `toList`, per-operation commutation, induction).
-/
import SonicSpec.Proofs.AstChunk
import SonicSpec.Model.AstChunkStore
set_option linter.unusedSimpArgs false
namespace SonicSpec.Ast.Linked
variable {α : Type}

theorem toList_length (c : Nat) (s : Linked α) (h : WF c s) : (toList s).length = s.size := by
  have := full_length c s h
  have hs := h.2.2
  show ((full s).take s.size).length = s.size
  rw [List.length_take]; omega

/-- `*At(i) = v` -/
theorem assign_toList (c : Nat) (hc : 0 < c) (s : Linked α) (h : WF c s) (i : Nat) (v : α) :
    WF c (assign c s i v) ∧ (assign c s i v).size = s.size ∧
    toList (assign c s i v) = (toList s).set i v := by
  have hlen := toList_length c s h
  have hfl := full_length c s h
  obtain ⟨hh, ht, hs⟩ := h
  unfold assign
  by_cases hi : i < s.size
  · rw [if_pos hi]
    by_cases hic : i < c
    · rw [if_pos hic]
      refine ⟨⟨by simp [hh], ht, hs⟩, rfl, ?_⟩
      show ((s.head.set i v ++ s.tail.flatten)).take s.size = ((s.head ++ s.tail.flatten).take s.size).set i v
      rw [← List.set_append_left _ _ (by omega), take_set_lt v _ i s.size hi]
    · rw [if_neg hic]
      have hci : c ≤ i := Nat.le_of_not_lt hic
      have hb : i % c < c := Nat.mod_lt i hc
      have hdm := Nat.div_add_mod i c
      have hq : 1 ≤ i / c := (Nat.one_le_div_iff hc).mpr hci
      have h1 : i / c < s.tail.length + 1 := by
        rw [Nat.div_lt_iff_lt_mul hc, Nat.mul_comm]; omega
      have ha : i / c - 1 < s.tail.length := by omega
      have hidx : (i / c - 1) * c + i % c = i - c := by
        have e1 : (i / c - 1) * c = i / c * c - c := by rw [Nat.sub_mul, Nat.one_mul]
        have e2 : c * (i / c) = i / c * c := Nat.mul_comm _ _
        have e3 : c ≤ i / c * c := by
          calc c = 1 * c := (Nat.one_mul c).symm
            _ ≤ i / c * c := Nat.mul_le_mul_right c hq
        omega
      refine ⟨⟨hh, modify_uniform c _ v _ _ ht, by simpa using hs⟩, rfl, ?_⟩
      show (s.head ++ (s.tail.modify (i / c - 1) (fun ch => ch.set (i % c) v)).flatten).take s.size
        = ((s.head ++ s.tail.flatten).take s.size).set i v
      have hle : s.head.length ≤ i := by omega
      rw [flatten_modify_set c v _ _ _ ht ha hb, hidx, ← take_set_lt v _ i s.size hi,
        List.set_append_right _ _ hle, hh]
  · rw [if_neg hi]
    refine ⟨⟨hh, ht, hs⟩, rfl, ?_⟩
    rw [List.set_eq_of_length_le (by omega)]

theorem copySlot_toList (c : Nat) (hc : 0 < c) (s : Linked α) (h : WF c s) (d src : Nat) :
    WF c (copySlot c s d src) ∧ (copySlot c s d src).size = s.size ∧
    toList (copySlot c s d src) = LOps.copySlot (toList s) d src := by
  unfold copySlot LOps.copySlot
  rw [at_eq_getElem? c hc s h src]
  cases (toList s)[src]? with
  | none => exact ⟨h, rfl, rfl⟩
  | some v => exact assign_toList c hc s h d v

theorem shiftUp_toList (c : Nat) (hc : 0 < c) : ∀ (k i : Nat) (s : Linked α), WF c s →
    WF c (shiftUp c k i s) ∧ (shiftUp c k i s).size = s.size ∧
    toList (shiftUp c k i s) = LOps.shiftUp k i (toList s)
  | 0, _, s, h => ⟨h, rfl, rfl⟩
  | k + 1, i, s, h => by
    obtain ⟨w, sz, tl⟩ := copySlot_toList c hc s h i (i + 1)
    obtain ⟨w', sz', tl'⟩ := shiftUp_toList c hc k (i + 1) _ w
    exact ⟨w', by rw [shiftUp, sz', sz], by rw [shiftUp, tl', tl]; rfl⟩

theorem shiftDown_toList (c : Nat) (hc : 0 < c) : ∀ (k i : Nat) (s : Linked α), WF c s →
    WF c (shiftDown c k i s) ∧ (shiftDown c k i s).size = s.size ∧
    toList (shiftDown c k i s) = LOps.shiftDown k i (toList s)
  | 0, _, s, h => ⟨h, rfl, rfl⟩
  | k + 1, i, s, h => by
    obtain ⟨w, sz, tl⟩ := copySlot_toList c hc s h i (i - 1)
    obtain ⟨w', sz', tl'⟩ := shiftDown_toList c hc k (i - 1) _ w
    exact ⟨w', by rw [shiftDown, sz', sz], by rw [shiftDown, tl', tl]; rfl⟩

/-- `MoveOne(source, target)` -/
theorem moveOne_toList (c : Nat) (hc : 0 < c) (s : Linked α) (h : WF c s) (a b : Nat) :
    WF c (moveOne c s a b) ∧ toList (moveOne c s a b) = LOps.moveOne (toList s) a b := by
  have hlen := toList_length c s h
  unfold moveOne LOps.moveOne
  rw [hlen, at_eq_getElem? c hc s h a]
  by_cases hab : a = b
  · rw [if_pos hab, if_pos hab]; exact ⟨h, rfl⟩
  · rw [if_neg hab, if_neg hab]
    by_cases hr : a ≥ s.size ∨ b ≥ s.size
    · rw [if_pos hr, if_pos hr]; exact ⟨h, rfl⟩
    · rw [if_neg hr, if_neg hr]
      cases (toList s)[a]? with
      | none => exact ⟨h, rfl⟩
      | some n =>
        simp only
        by_cases hlt : a < b
        · rw [if_pos hlt, if_pos hlt]
          obtain ⟨w, _, tl⟩ := shiftUp_toList c hc (b - a) a s h
          obtain ⟨w', _, tl'⟩ := assign_toList c hc _ w b n
          exact ⟨w', by rw [tl', tl]⟩
        · rw [if_neg hlt, if_neg hlt]
          obtain ⟨w, _, tl⟩ := shiftDown_toList c hc (a - b) a s h
          obtain ⟨w', _, tl'⟩ := assign_toList c hc _ w b n
          exact ⟨w', by rw [tl', tl]⟩

/-- `Swap(i, j)` -/
theorem swap_toList (c : Nat) (hc : 0 < c) (s : Linked α) (h : WF c s) (i j : Nat) :
    WF c (swap c s i j) ∧ toList (swap c s i j) = LOps.swap (toList s) i j := by
  unfold swap LOps.swap
  rw [at_eq_getElem? c hc s h i, at_eq_getElem? c hc s h j]
  cases (toList s)[i]? with
  | none => exact ⟨h, rfl⟩
  | some x =>
    cases (toList s)[j]? with
    | none => exact ⟨h, rfl⟩
    | some y =>
      simp only
      obtain ⟨w, _, tl⟩ := assign_toList c hc s h i y
      obtain ⟨w', _, tl'⟩ := assign_toList c hc _ w j x
      exact ⟨w', by rw [tl', tl]⟩

/-- one mutator commutes with the abstraction -/
theorem applyOp_toList (c : Nat) (hc : 0 < c) (zero : α) (s : Linked α) (h : WF c s) (o : COp α) :
    WF c (applyOp c zero s o) ∧ toList (applyOp c zero s o) = LOps.applyOp zero (toList s) o := by
  cases o with
  | assign i v => obtain ⟨w, _, tl⟩ := assign_toList c hc s h i v; exact ⟨w, tl⟩
  | unset i => obtain ⟨w, _, tl⟩ := assign_toList c hc s h i zero; exact ⟨w, tl⟩
  | push v => exact push_toList c hc zero s h v
  | pop => exact pop_toList c hc zero s h
  | moveOne a b => exact moveOne_toList c hc s h a b
  | swap i j => exact swap_toList c hc s h i j

/-- every finite sequence of mutators: the chunked storage and the plain list stay in step -/
theorem runOps_toList (c : Nat) (hc : 0 < c) (zero : α) : ∀ (ops : List (COp α)) (s : Linked α), WF c s →
    WF c (runOps c zero s ops) ∧ toList (runOps c zero s ops) = LOps.runOps zero (toList s) ops
  | [], s, h => ⟨h, rfl⟩
  | o :: os, s, h => by
    obtain ⟨w, tl⟩ := applyOp_toList c hc zero s h o
    obtain ⟨w', tl'⟩ := runOps_toList c hc zero os _ w
    exact ⟨w', by rw [runOps, tl', tl]; rfl⟩

end SonicSpec.Ast.Linked

/-! ### on lists: `MoveOne` is `moveElem`, the Pop loop is `popLive` (the functions `NodeM` uses) -/

namespace SonicSpec.Ast.LOps
variable {α : Type}

theorem copySlot_getElem? (l : List α) (d s j : Nat) (hs : s < l.length) (hd : d < l.length) :
    (copySlot l d s)[j]? = if d = j then l[s]? else l[j]? := by
  unfold copySlot
  have : l[s]? = some l[s] := by simp [hs]
  rw [this]
  simp only [List.getElem?_set, hd, if_true]

theorem copySlot_length (l : List α) (d s : Nat) : (copySlot l d s).length = l.length := by
  unfold copySlot; cases l[s]? <;> simp

theorem shiftUp_length : ∀ (k i : Nat) (l : List α), (shiftUp k i l).length = l.length
  | 0, _, _ => rfl
  | k + 1, i, l => by rw [shiftUp, shiftUp_length k (i + 1), copySlot_length]

theorem shiftDown_length : ∀ (k i : Nat) (l : List α), (shiftDown k i l).length = l.length
  | 0, _, _ => rfl
  | k + 1, i, l => by rw [shiftDown, shiftDown_length k (i - 1), copySlot_length]

theorem shiftUp_getElem? : ∀ (k i : Nat) (l : List α) (j : Nat), i + k < l.length →
    (shiftUp k i l)[j]? = if i ≤ j ∧ j < i + k then l[j + 1]? else l[j]?
  | 0, i, l, j, _ => by simp [shiftUp]; omega
  | k + 1, i, l, j, h => by
    rw [shiftUp, shiftUp_getElem? k (i + 1) _ j (by rw [copySlot_length]; omega)]
    rw [copySlot_getElem? l i (i + 1) (j + 1) (by omega) (by omega),
      copySlot_getElem? l i (i + 1) j (by omega) (by omega)]
    by_cases h1 : i + 1 ≤ j ∧ j < i + 1 + k
    · rw [if_pos h1, if_neg (by omega), if_pos (by omega)]
    · rw [if_neg h1]
      by_cases h2 : i = j
      · subst h2; rw [if_pos rfl, if_pos (by omega)]
      · rw [if_neg h2, if_neg (by omega)]

theorem shiftDown_getElem? : ∀ (k i : Nat) (l : List α) (j : Nat), k ≤ i → i < l.length →
    (shiftDown k i l)[j]? = if i - k < j ∧ j ≤ i then l[j - 1]? else l[j]?
  | 0, i, l, j, _, _ => by simp [shiftDown]; omega
  | k + 1, i, l, j, hk, hi => by
    rw [shiftDown, shiftDown_getElem? k (i - 1) _ j (by omega) (by rw [copySlot_length]; omega)]
    rw [copySlot_getElem? l i (i - 1) (j - 1) (by omega) (by omega),
      copySlot_getElem? l i (i - 1) j (by omega) (by omega)]
    by_cases h1 : i - 1 - k < j ∧ j ≤ i - 1
    · rw [if_pos h1, if_neg (by omega), if_pos (by omega)]
    · rw [if_neg h1]
      by_cases h2 : i = j
      · subst h2; rw [if_pos rfl, if_pos (by omega)]
      · rw [if_neg h2, if_neg (by omega)]

/-- `MoveOne` on a list is "take the element out at `source`, put it in at `target`" -/
theorem moveOne_eq_moveElem (l : List α) (a b : Nat) : moveOne l a b = moveElem l b a := by
  unfold moveOne moveElem
  by_cases hab : a = b
  · subst hab
    rw [if_pos rfl]
    by_cases hr : a < l.length ∧ a < l.length
    · rw [if_pos hr]
      have : l[a]? = some l[a] := by simp [hr.1]
      rw [this]
      apply List.ext_getElem?
      intro j
      simp only [List.getElem?_insertIdx, List.getElem?_eraseIdx, List.length_eraseIdx, hr.1, if_true]
      by_cases h1 : j < a
      · rw [if_pos h1, if_pos h1]
      · rw [if_neg h1]
        by_cases h2 : j = a
        · subst h2; rw [if_pos rfl, if_pos (by omega)]; simp [hr.1]
        · rw [if_neg h2, if_neg (by omega)]
          have : j - 1 + 1 = j := by omega
          rw [this]
    · rw [if_neg hr]
  · rw [if_neg hab]
    by_cases hr : a ≥ l.length ∨ b ≥ l.length
    · rw [if_pos hr, if_neg (by omega)]
    · have ha : a < l.length := by omega
      have hb : b < l.length := by omega
      rw [if_neg hr, if_pos (show a < l.length ∧ b < l.length from ⟨ha, hb⟩)]
      have hget : l[a]? = some l[a] := by simp [ha]
      rw [hget]
      simp only
      by_cases hlt : a < b
      · rw [if_pos hlt]
        apply List.ext_getElem?
        intro j
        simp only [List.getElem?_insertIdx, List.getElem?_eraseIdx, List.length_eraseIdx, ha, if_true,
          List.getElem?_set, shiftUp_length]
        rw [shiftUp_getElem? (b - a) a l j (by omega)]
        by_cases hj : b = j
        · subst hj; rw [if_pos rfl, if_pos hb, if_neg (by omega), if_pos rfl, if_pos (by omega)]
        · rw [if_neg hj]
          by_cases h1 : a ≤ j ∧ j < a + (b - a)
          · rw [if_pos h1, if_pos (by omega), if_neg (by omega)]
          · rw [if_neg h1]
            by_cases h2 : j < b
            · rw [if_pos h2, if_pos (by omega)]
            · rw [if_neg h2, if_neg (by omega), if_neg (by omega)]
              have : j - 1 + 1 = j := by omega
              rw [this]
      · rw [if_neg hlt]
        apply List.ext_getElem?
        intro j
        simp only [List.getElem?_insertIdx, List.getElem?_eraseIdx, List.length_eraseIdx, ha, if_true,
          List.getElem?_set, shiftDown_length]
        rw [shiftDown_getElem? (a - b) a l j (by omega) ha]
        by_cases hj : b = j
        · subst hj; rw [if_pos rfl, if_pos hb, if_neg (by omega), if_pos rfl, if_pos (by omega)]
        · rw [if_neg hj]
          by_cases h1 : a - (a - b) < j ∧ j ≤ a
          · rw [if_pos h1, if_neg (by omega), if_neg (by omega), if_pos (by omega)]
          · rw [if_neg h1]
            by_cases h2 : j < b
            · rw [if_pos h2, if_pos (by omega)]
            · rw [if_neg h2, if_neg (by omega), if_neg (by omega)]
              have : j - 1 + 1 = j := by omega
              rw [this]

end SonicSpec.Ast.LOps

namespace SonicSpec.Ast.Linked
variable {α : Type}

theorem popLive_snoc (live : α → Bool) (init : List α) (x : α) :
    popLive live (init ++ [x]) = if live x then (init, true) else popLive live init := by
  unfold popLive
  simp only [List.reverse_append, List.reverse_cons, List.reverse_nil, List.nil_append, List.singleton_append, popRev]
  by_cases h : live x <;> simp [h]

theorem toList_snoc (c : Nat) (hc : 0 < c) (s : Linked α) (h : WF c s) (x : α)
    (hx : slot c s (s.size - 1) = some x) : toList s = (toList s).dropLast ++ [x] := by
  rw [at_eq_getElem? c hc s h] at hx
  have hlen := toList_length c s h
  have hne : toList s ≠ [] := by
    intro he; rw [he] at hx; simp at hx
  have hlast : (toList s).getLast? = some x := by
    rw [List.getLast?_eq_getElem?, hlen]; exact hx
  obtain ⟨ys, hys⟩ := List.getLast?_eq_some_iff.mp hlast
  rw [hys]; simp

/-- the tail loop of `Node.Pop` on the chunked storage is `popLive` on the slots in use -/
theorem popLoop_toList (c : Nat) (hc : 0 < c) (zero : α) (live : α → Bool) : ∀ (k : Nat) (s : Linked α),
    WF c s → s.size ≤ k →
    WF c (popLoop c zero live k s).1 ∧ toList (popLoop c zero live k s).1 = (popLive live (toList s)).1 ∧
    (popLoop c zero live k s).2 = (popLive live (toList s)).2
  | 0, s, h, hk => by
    have hlen := toList_length c s h
    have : toList s = [] := List.eq_nil_of_length_eq_zero (by omega)
    simp [popLoop, this, popLive, popRev, h]
  | k + 1, s, h, hk => by
    have hlen := toList_length c s h
    unfold popLoop
    cases hx : slot c s (s.size - 1) with
    | none =>
      rw [at_eq_getElem? c hc s h] at hx
      have : toList s = [] := by
        apply List.eq_nil_of_length_eq_zero
        rcases Nat.eq_zero_or_pos s.size with h0 | h0
        · omega
        · rw [List.getElem?_eq_none_iff] at hx; omega
      simp [this, popLive, popRev, h]
    | some x =>
      simp only
      have hsn := toList_snoc c hc s h x hx
      obtain ⟨pw, ptl⟩ := pop_toList c hc zero s h
      rw [hsn, popLive_snoc]
      by_cases hl : live x = true
      · rw [if_pos hl, if_pos hl]
        exact ⟨pw, by rw [ptl], rfl⟩
      · rw [if_neg hl, if_neg hl]
        have hps : (pop c zero s).size ≤ k := by
          have := toList_length c _ pw
          rw [ptl, List.length_dropLast, hlen] at this
          omega
        have ih := popLoop_toList c hc zero live k _ pw hps
        rw [ptl] at ih
        exact ih

end SonicSpec.Ast.Linked

namespace SonicSpec.Ast.LOps
variable {α : Type}

/-- a run of `Push` is an append (lazy loading, `skipAllIndex`, `FromSlice`) -/
theorem runOps_push (zero : α) : ∀ (vs l : List α), runOps zero l (vs.map Linked.COp.push) = l ++ vs
  | [], l => by simp [runOps]
  | v :: vs, l => by simp [runOps, applyOp, runOps_push zero vs (l ++ [v])]

end SonicSpec.Ast.LOps

namespace SonicSpec.Ast.StoreOp
variable {α : Type}
open SonicSpec.Ast.Linked

theorem applyC_toList (c : Nat) (hc : 0 < c) (zero : α) (live : α → Bool) (s : Linked α) (h : WF c s)
    (o : StoreOp α) :
    WF c (applyC c zero live s o) ∧ toList (applyC c zero live s o) = applyL zero live (toList s) o := by
  cases o with
  | setAt j v => obtain ⟨w, _, tl⟩ := assign_toList c hc s h j v; exact ⟨w, tl⟩
  | kill j => obtain ⟨w, _, tl⟩ := assign_toList c hc s h j zero; exact ⟨w, tl⟩
  | push v => exact push_toList c hc zero s h v
  | popLive =>
    obtain ⟨w, tl, _⟩ := popLoop_toList c hc zero live s.size s h (Nat.le_refl _)
    exact ⟨w, tl⟩
  | move d sr =>
    obtain ⟨w, tl⟩ := moveOne_toList c hc s h sr d
    exact ⟨w, by rw [applyC, tl, LOps.moveOne_eq_moveElem]; rfl⟩

/-- the store transitions of `NodeM`, in any number and order: chunked storage = plain list -/
theorem runC_toList (c : Nat) (hc : 0 < c) (zero : α) (live : α → Bool) :
    ∀ (ops : List (StoreOp α)) (s : Linked α), WF c s →
      WF c (runC c zero live s ops) ∧ toList (runC c zero live s ops) = runL zero live (toList s) ops
  | [], s, h => ⟨h, rfl⟩
  | o :: os, s, h => by
    obtain ⟨w, tl⟩ := applyC_toList c hc zero live s h o
    obtain ⟨w', tl'⟩ := runC_toList c hc zero live os _ w
    exact ⟨w', by rw [runC, tl', tl]; rfl⟩

end SonicSpec.Ast.StoreOp

/-! ### `FromSlice` -/

namespace SonicSpec.Ast.Linked
variable {α : Type}

theorem pad_length (c : Nat) (zero : α) (l : List α) (h : l.length ≤ c) : (pad c zero l).length = c := by
  simp [pad]; omega

theorem chunksOf_spec (c : Nat) (hc : 0 < c) (zero : α) : ∀ (f : Nat) (l : List α), l.length ≤ f →
    (∀ ch ∈ chunksOf c zero f l, ch.length = c) ∧ ∃ k, (chunksOf c zero f l).flatten = l ++ List.replicate k zero
  | 0, l, h => by
    have : l = [] := List.eq_nil_of_length_eq_zero (by omega)
    subst this
    exact ⟨by simp [chunksOf], 0, by simp [chunksOf]⟩
  | f + 1, l, h => by
    unfold chunksOf
    by_cases he : l.isEmpty = true
    · rw [if_pos he]
      have : l = [] := by simpa using he
      subst this
      exact ⟨by simp, 0, by simp⟩
    · rw [if_neg he]
      have hne : l ≠ [] := by simpa using he
      have hpos : 0 < l.length := List.length_pos_iff.mpr hne
      obtain ⟨u, k, fl⟩ := chunksOf_spec c hc zero f (l.drop c) (by simp; omega)
      refine ⟨?_, ?_⟩
      · intro ch hch
        rcases List.mem_cons.mp hch with rfl | hch
        · exact pad_length c zero _ (by simp; omega)
        · exact u ch hch
      · by_cases hl : l.length ≤ c
        · have hd : l.drop c = [] := List.drop_eq_nil_of_le hl
          have ht : l.take c = l := List.take_of_length_le hl
          rw [hd] at fl
          refine ⟨(c - l.length) + k, ?_⟩
          simp only [List.flatten_cons, hd, fl, pad, ht, List.nil_append, List.append_assoc, List.replicate_append_replicate]
        · have hlen : (l.take c).length = c := by simp; omega
          refine ⟨k, ?_⟩
          simp only [List.flatten_cons, fl, pad, hlen, Nat.sub_self, List.replicate_zero, List.append_nil]
          rw [← List.append_assoc, List.take_append_drop]

/-- `FromSlice`: the slots in use are the slice -/
theorem fromSlice_spec (c : Nat) (hc : 0 < c) (zero : α) (con : List α) :
    WF c (fromSlice c zero con) ∧ toList (fromSlice c zero con) = con := by
  obtain ⟨u, k, fl⟩ := chunksOf_spec c hc zero con.length (con.drop c) (by simp)
  have hh : (pad c zero (con.take c)).length = c := pad_length c zero _ (by simp; omega)
  have hfl : (chunksOf c zero con.length (con.drop c)).flatten.length
      = (chunksOf c zero con.length (con.drop c)).length * c := flatten_length_uniform c _ u
  refine ⟨⟨hh, u, ?_⟩, ?_⟩
  · show con.length ≤ c * ((chunksOf c zero con.length (con.drop c)).length + 1)
    rw [fl] at hfl
    simp only [List.length_append, List.length_drop, List.length_replicate] at hfl
    rw [Nat.mul_add, Nat.mul_one, Nat.mul_comm]
    omega
  · show (pad c zero (con.take c) ++ (chunksOf c zero con.length (con.drop c)).flatten).take con.length = con
    rw [fl]
    by_cases hl : con.length ≤ c
    · have ht : con.take c = con := List.take_of_length_le hl
      simp only [pad, ht, List.append_assoc]
      rw [List.take_append_of_le_length (Nat.le_refl _)]; simp
    · have hlen : (con.take c).length = c := by simp; omega
      simp only [pad, hlen, Nat.sub_self, List.replicate_zero, List.append_nil]
      rw [← List.append_assoc, List.take_append_drop, List.take_append_of_le_length (Nat.le_refl _)]; simp

end SonicSpec.Ast.Linked
