/-
  strconv.AppendInt (two digits per iteration, `smallsString` table) against the specification's
  decimal writer `intDec`.
-/
import SonicSpec.Model.EncCompat
import SonicSpec.Proofs.EncLeaf
namespace SonicSpec.Enc.Compat
open SonicSpec SonicSpec.Enc

def dig (k : Nat) : UInt8 := UInt8.ofNat (48 + k % 10)

theorem natDecAux_acc : ∀ (f n : Nat) (acc : Bytes), natDecAux f n acc = natDecAux f n [] ++ acc := by
  intro f
  induction f with
  | zero => intro n acc; simp [natDecAux]
  | succ f ih =>
    intro n acc
    simp only [natDecAux]
    by_cases hq : (n / 10 == 0) = true
    · simp [hq]
    · simp only [hq, if_false, Bool.false_eq_true]
      rw [ih _ (_ :: acc), ih _ [_]]
      simp

theorem natDecAux_succ (f n : Nat) (acc : Bytes) : natDecAux (f + 1) n acc =
    if (n / 10 == 0) = true then UInt8.ofNat (48 + n % 10) :: acc else natDecAux f (n / 10) (UInt8.ofNat (48 + n % 10) :: acc) := by
  simp [natDecAux]

theorem natDecAux_fuel : ∀ (f g n : Nat), n < 10 ^ (f + 1) → n < 10 ^ (g + 1) →
    natDecAux (f + 1) n [] = natDecAux (g + 1) n [] := by
  intro f
  induction f with
  | zero =>
    intro g n h1 _
    have hq : (n / 10 == 0) = true := by
      have : n / 10 = 0 := by omega
      simpa using this
    simp [natDecAux, hq]
  | succ f ih =>
    intro g n h1 h2
    by_cases hq : (n / 10 == 0) = true
    · simp [natDecAux, hq]
    · have hne : n / 10 ≠ 0 := by simpa using hq
      cases g with
      | zero => omega
      | succ g =>
        have a1 : n / 10 < 10 ^ (f + 1) := by
          have : 10 ^ (f + 1 + 1) = 10 ^ (f + 1) * 10 := Nat.pow_succ 10 (f + 1)
          omega
        have a2 : n / 10 < 10 ^ (g + 1) := by
          have : 10 ^ (g + 1 + 1) = 10 ^ (g + 1) * 10 := Nat.pow_succ 10 (g + 1)
          omega
        rw [natDecAux_succ (f + 1), natDecAux_succ (g + 1)]
        simp only [hq, Bool.false_eq_true, if_false]
        rw [natDecAux_acc (f + 1), natDecAux_acc (g + 1), ih g _ a1 a2]

theorem lt_pow_succ (n : Nat) : n < 10 ^ (n + 1) := by
  have := @Nat.lt_pow_self (n + 1) 10 (by decide)
  omega

/-- the decimal writer, one digit at a time from the right -/
theorem natDec_step (n : Nat) (h : 10 ≤ n) : natDec n = natDec (n / 10) ++ [dig n] := by
  unfold natDec
  have hq : (n / 10 == 0) = false := by
    have : n / 10 ≠ 0 := by omega
    simpa using this
  obtain ⟨m, hm⟩ : ∃ m, n = m + 1 := ⟨n - 1, by omega⟩
  rw [natDecAux_succ]
  simp only [hq, Bool.false_eq_true, if_false]
  rw [natDecAux_acc]
  have a1 : n / 10 < 10 ^ (m + 1) := by
    have := lt_pow_succ (n / 10)
    have h3 : 10 ^ (n / 10 + 1) ≤ 10 ^ (m + 1) := Nat.pow_le_pow_right (by decide) (by omega)
    omega
  have key := natDecAux_fuel m (n / 10) (n / 10) a1 (lt_pow_succ _)
  subst hm
  rw [key]
  rfl

theorem natDec_small (n : Nat) (h : n < 10) : natDec n = [dig n] := by
  unfold natDec
  have hq : (n / 10 == 0) = true := by
    have : n / 10 = 0 := by omega
    simpa using this
  simp [natDecAux, hq, dig]

theorem natDec_two (n : Nat) (h1 : 10 ≤ n) (h2 : n < 100) : natDec n = [dig (n / 10), dig n] := by
  rw [natDec_step n h1, natDec_small (n / 10) (by omega)]
  rfl

theorem natDec_pair (n : Nat) (h : 100 ≤ n) : natDec n = natDec (n / 100) ++ [dig (n / 10), dig n] := by
  rw [natDec_step n (by omega), natDec_step (n / 10) (by omega)]
  have : n / 10 / 10 = n / 100 := by omega
  rw [this]
  simp

theorem smalls_even (m : Nat) (h : m < 100) : smalls (m * 2) = dig (m / 10) := by
  unfold smalls dig
  have : m * 2 % 2 = 0 := by omega
  simp only [this, beq_self_eq_true, if_true]
  have h2 : m * 2 / 2 = m := by omega
  rw [h2]
  have : m / 10 % 10 = m / 10 := by omega
  rw [this]

theorem smalls_odd (m : Nat) : smalls (m * 2 + 1) = dig m := by
  unfold smalls dig
  have : (m * 2 + 1) % 2 = 1 := by omega
  simp only [this]
  have h2 : (m * 2 + 1) / 2 = m := by omega
  simp [h2]

theorem dig_mod (n : Nat) : dig (n % 100) = dig n := by
  unfold dig
  have : n % 100 % 10 = n % 10 := by omega
  rw [this]

theorem dig_mod_div (n : Nat) : dig (n % 100 / 10) = dig (n / 10) := by
  unfold dig
  have : n % 100 / 10 % 10 = n / 10 % 10 := by omega
  rw [this]

theorem pairsLoop_spec : ∀ (f us : Nat) (a : Bytes), us < 100 ^ f →
    (pairsLoop f us a).1 < 100 ∧ natDec (pairsLoop f us a).1 ++ (pairsLoop f us a).2 = natDec us ++ a := by
  intro f
  induction f with
  | zero =>
    intro us a h
    have : us = 0 := by simpa using h
    subst this
    exact ⟨by simp [pairsLoop], by simp [pairsLoop]⟩
  | succ f ih =>
    intro us a h
    simp only [pairsLoop]
    by_cases hge : us ≥ 100
    · simp only [hge, if_true]
      have hlt : us / 100 < 100 ^ f := by
        have : 100 ^ (f + 1) = 100 ^ f * 100 := Nat.pow_succ 100 f
        omega
      obtain ⟨i1, i2⟩ := ih (us / 100) (smalls (us % 100 * 2) :: smalls (us % 100 * 2 + 1) :: a) hlt
      refine ⟨i1, ?_⟩
      rw [i2, natDec_pair us hge, smalls_even _ (Nat.mod_lt _ (by decide)), smalls_odd, dig_mod, dig_mod_div]
      simp
    · simp only [hge, if_false]
      exact ⟨by omega, trivial⟩

theorem formatBits_pos (u : Nat) (h : u < 2 ^ 64) : formatBits u false = natDec u := by
  unfold formatBits
  simp only [Bool.false_eq_true, if_false]
  have hlt : u < 100 ^ 10 := by
    have : (2 : Nat) ^ 64 < 100 ^ 10 := by decide
    omega
  obtain ⟨i1, i2⟩ := pairsLoop_spec 10 u [] hlt
  cases hp : pairsLoop 10 u [] with
  | mk us a =>
    rw [hp] at i1 i2
    simp only at i1 i2 ⊢
    rw [List.append_nil] at i2
    rw [← i2]
    by_cases h10 : us ≥ 10
    · simp only [h10, if_true]
      rw [natDec_two us h10 i1, smalls_even us i1, smalls_odd]
      rfl
    · simp only [h10, if_false]
      rw [natDec_small us (by omega), smalls_odd]
      rfl

theorem formatBits_neg (u : Nat) (h1 : 0 < u) (h : u < 2 ^ 64) :
    formatBits u true = 45 :: natDec (2 ^ 64 - u) := by
  have hpos := formatBits_pos ((2 ^ 64 - u) % 2 ^ 64) (Nat.mod_lt _ (by decide))
  unfold formatBits at hpos ⊢
  simp only [Bool.false_eq_true, if_false, if_true] at hpos ⊢
  have hm : (2 ^ 64 - u) % 2 ^ 64 = 2 ^ 64 - u := Nat.mod_eq_of_lt (by omega)
  rw [hm] at hpos ⊢
  rw [← hpos]

/-- the Go fallback `I64toa` (strconv.AppendInt, base 10) writes exactly the specification's decimal
    text, for every int64 -/
theorem i64toa_eq (v : Int) (hlo : -(2 ^ 63 : Int) ≤ v) (hhi : v < (2 ^ 63 : Int)) : i64toa v = intDec v := by
  unfold i64toa intDec
  by_cases hs : (0 ≤ v ∧ v < 100)
  · have hs' : (decide (0 ≤ v) && decide (v < 100)) = true := by simp [hs.1, hs.2]
    simp only [hs', if_true]
    have hn : ¬ v < 0 := by omega
    simp only [hn, if_false]
    have hk : v.toNat = v.natAbs := by omega
    rw [hk]
    have hlt : v.natAbs < 100 := by omega
    by_cases h10 : v.natAbs < 10
    · simp only [h10, if_true]
      rw [natDec_small _ h10]
      unfold dig
      rw [Nat.mod_eq_of_lt h10]
    · simp only [h10, if_false]
      rw [natDec_two _ (by omega) hlt, smalls_even _ hlt, smalls_odd]
  · have hs' : (decide (0 ≤ v) && decide (v < 100)) = false := by
      simp only [Bool.and_eq_false_iff, decide_eq_false_iff_not]
      by_cases h0 : 0 ≤ v
      · right; intro h; exact hs ⟨h0, h⟩
      · left; exact h0
    simp only [hs', Bool.false_eq_true, if_false]
    by_cases hneg : v < 0
    · simp only [hneg, if_true, decide_true]
      have hu : (v % (2 ^ 64 : Int)).toNat = 2 ^ 64 - v.natAbs := by omega
      rw [hu]
      have hb : 0 < 2 ^ 64 - v.natAbs ∧ 2 ^ 64 - v.natAbs < 2 ^ 64 := by omega
      rw [formatBits_neg _ hb.1 hb.2]
      have : 2 ^ 64 - (2 ^ 64 - v.natAbs) = v.natAbs := by omega
      rw [this]
    · simp only [hneg, if_false, decide_false]
      have hu : (v % (2 ^ 64 : Int)).toNat = v.natAbs := by omega
      rw [hu]
      exact formatBits_pos _ (by omega)

end SonicSpec.Enc.Compat
