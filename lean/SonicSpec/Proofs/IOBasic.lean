/-
  C17 helper lemmas, part 1: white space, `firstNS`/`scan`, stability of the framing functions
  under appending more input.  Core Lean only.
-/
import SonicSpec.Model.IO
set_option linter.unusedSimpArgs false
namespace SonicSpec.IO

theorem wsLen_le (d : Bytes) : wsLen d ≤ d.length := by
  induction d with
  | nil => simp [wsLen]
  | cons c r ih => unfold wsLen; split <;> simp <;> omega

theorem wsLen_append_all (a b : Bytes) (h : wsLen a = a.length) :
    wsLen (a ++ b) = a.length + wsLen b := by
  induction a with
  | nil => simp
  | cons c r ih =>
    unfold wsLen at h
    split at h
    · rename_i hc
      simp only [List.length_cons] at h
      have := ih (by omega)
      simp only [List.cons_append, List.length_cons]
      rw [wsLen]; simp only [hc, if_true]; omega
    · simp at h

theorem wsLen_append_lt (a b : Bytes) (h : wsLen a < a.length) : wsLen (a ++ b) = wsLen a := by
  induction a with
  | nil => simp at h
  | cons c r ih =>
    simp only [List.cons_append]
    rw [wsLen, wsLen]
    by_cases hc : isSpace c = true
    · simp only [hc, if_true]
      rw [wsLen] at h; simp only [hc, if_true, List.length_cons] at h
      rw [ih (by omega)]
    · simp [hc]

theorem dropWs_append_all (a b : Bytes) (h : wsLen a = a.length) : dropWs (a ++ b) = dropWs b := by
  unfold dropWs; rw [wsLen_append_all a b h, ← List.drop_drop]; simp

theorem dropWs_append_lt (a b : Bytes) (h : wsLen a < a.length) : dropWs (a ++ b) = dropWs a ++ b := by
  unfold dropWs; rw [wsLen_append_lt a b h, List.drop_append_of_le_length (by omega)]

theorem dropWs_nil_iff (d : Bytes) : dropWs d = [] ↔ wsLen d = d.length := by
  unfold dropWs
  have := wsLen_le d
  constructor
  · intro h; have := List.drop_eq_nil_iff.mp h; omega
  · intro h; rw [h]; simp

theorem wsLen_dropWs (d : Bytes) : wsLen (dropWs d) = 0 := by
  induction d with
  | nil => simp [dropWs, wsLen]
  | cons c r ih =>
    unfold dropWs
    by_cases hc : isSpace c = true
    · rw [wsLen]; simp only [hc, if_true, List.drop_succ_cons]; exact ih
    · rw [wsLen]; simp only [hc]; simp [wsLen, hc]

theorem dropWs_idem (d : Bytes) : dropWs (dropWs d) = dropWs d := by
  show (dropWs d).drop (wsLen (dropWs d)) = dropWs d
  rw [wsLen_dropWs]; simp

theorem dropWs_head (d : Bytes) (c : UInt8) (r : Bytes) (h : dropWs d = c :: r) : isSpace c = false := by
  have := wsLen_dropWs d
  rw [h, wsLen] at this
  by_cases hc : isSpace c = true
  · simp [hc] at this
  · simpa using hc

theorem dropWs_of_head (c : UInt8) (r : Bytes) (h : isSpace c = false) : dropWs (c :: r) = c :: r := by
  simp [dropWs, wsLen, h]

theorem firstNS_none (l : Bytes) (i : Nat) : firstNS l i = none ↔ wsLen l = l.length := by
  induction l generalizing i with
  | nil => simp [firstNS, wsLen]
  | cons c r ih =>
    rw [firstNS, wsLen]
    by_cases hc : isSpace c = true
    · simp only [hc, if_true, List.length_cons]; rw [ih]; omega
    · simp [hc]

theorem firstNS_some (l : Bytes) (i : Nat) (c : UInt8) (j : Nat) (h : firstNS l i = some (c, j)) :
    j = i + wsLen l ∧ wsLen l < l.length ∧ ∃ r, dropWs l = c :: r := by
  induction l generalizing i with
  | nil => simp [firstNS] at h
  | cons a r ih =>
    rw [firstNS] at h
    by_cases hc : isSpace a = true
    · simp only [hc, if_true] at h
      have ⟨h1, h2, r', h3⟩ := ih (i + 1) h
      refine ⟨?_, ?_, r', ?_⟩
      · rw [wsLen]; simp only [hc, if_true]; omega
      · rw [wsLen]; simp only [hc, if_true, List.length_cons]; omega
      · unfold dropWs; rw [wsLen]; simp only [hc, if_true, List.drop_succ_cons]; exact h3
    · simp only [hc] at h
      simp only [Bool.false_eq_true, if_false, Option.some.injEq, Prod.mk.injEq] at h
      obtain ⟨rfl, rfl⟩ := h
      refine ⟨by simp [wsLen, hc], by simp [wsLen, hc], r, ?_⟩
      simp [dropWs, wsLen, hc]

/-! ## framing functions are stable under more input -/


theorem skipString_stable (p q : Bytes) (n : Nat) (h : skipString p = some n) :
    skipString (p ++ q) = some n ∧ n ≤ p.length ∧ 0 < n := by
  induction p using skipString.induct generalizing n with
  | case1 => simp [skipString] at h
  | case2 c r hc =>
    rw [skipString.eq_def] at h; simp [hc] at h; subst h
    rw [List.cons_append, skipString.eq_def]; simp [hc]
  | case3 c hc1 hc2 => rw [skipString.eq_def] at h; simp [hc1, hc2] at h
  | case4 c hc1 hc2 x r ih =>
    rw [skipString.eq_def] at h; simp [hc1, hc2] at h
    obtain ⟨m, hm, rfl⟩ := h
    have ⟨h1, h2, h3⟩ := ih m hm
    rw [List.cons_append, List.cons_append, skipString.eq_def]; simp [hc1, hc2, h1]; omega
  | case5 c r hc1 hc2 ih =>
    rw [skipString.eq_def] at h; simp [hc1, hc2] at h
    obtain ⟨m, hm, rfl⟩ := h
    have ⟨h1, h2, h3⟩ := ih m hm
    rw [List.cons_append, skipString.eq_def]; simp [hc1, hc2, h1]; omega



theorem skipContainer_stable (lc rc : UInt8) (p q : Bytes) (d : Nat) (iq : Bool) (n : Nat)
    (h : skipContainer lc rc p d iq = some n) :
    skipContainer lc rc (p ++ q) d iq = some n ∧ n ≤ p.length ∧ 0 < n := by
  induction p, d, iq using skipContainer.induct lc rc generalizing n with
  | case1 => simp [skipContainer] at h
  | case2 c d iq h92 => rw [skipContainer.eq_def] at h; simp [h92] at h
  | case3 c d iq h92 x r hx ih =>
    rw [skipContainer.eq_def] at h; simp only [h92, if_true, hx] at h
    simp only [Option.map_eq_some_iff] at h
    obtain ⟨m, hm, rfl⟩ := h
    have ⟨h1, h2, h3⟩ := ih m hm
    rw [List.cons_append, List.cons_append, skipContainer.eq_def]
    simp [h92, hx, h1]
    omega
  | case4 c d iq h92 x r hx ih =>
    rw [skipContainer.eq_def] at h; simp only [h92, if_true, hx] at h
    simp only [Bool.false_eq_true, if_false, Option.map_eq_some_iff] at h
    obtain ⟨m, hm, rfl⟩ := h
    have ⟨h1, h2, h3⟩ := ih m hm
    rw [List.cons_append, List.cons_append, skipContainer.eq_def]
    rw [List.cons_append] at h1
    simp [h92, hx, h1] at h2 ⊢
    omega
  | case5 c r d iq h92 h34 ih =>
    rw [skipContainer.eq_def] at h; simp [h92, h34] at h
    obtain ⟨m, hm, rfl⟩ := h
    have ⟨h1, h2, h3⟩ := ih m hm
    rw [List.cons_append, skipContainer.eq_def]; simp [h92, h34, h1]; omega
  | case6 c r d h92 h34 ih =>
    rw [skipContainer.eq_def] at h; simp [h92, h34] at h
    obtain ⟨m, hm, rfl⟩ := h
    have ⟨h1, h2, h3⟩ := ih m hm
    rw [List.cons_append, skipContainer.eq_def]; simp [h92, h34, h1]; omega
  | case7 c r iq h92 h34 hq hrc =>
    have hq' : iq = false := by simpa using hq
    subst hq'
    rw [skipContainer.eq_def] at h; simp [h92, h34, hq, hrc] at h; subst h
    rw [List.cons_append, skipContainer.eq_def]; simp [h92, h34, hq, hrc]
  | case8 c r iq h92 h34 hq hrc d' ih =>
    have hq' : iq = false := by simpa using hq
    subst hq'
    rw [skipContainer.eq_def] at h; simp [h92, h34, hq, hrc] at h
    obtain ⟨m, hm, rfl⟩ := h
    have ⟨h1, h2, h3⟩ := ih m hm
    rw [List.cons_append, skipContainer.eq_def]; simp [h92, h34, hq, hrc, h1]; omega
  | case9 c r d iq h92 h34 hq hrc hlc ih =>
    have hq' : iq = false := by simpa using hq
    subst hq'
    rw [skipContainer.eq_def] at h; simp [h92, h34, hq, hrc, hlc] at h
    obtain ⟨m, hm, rfl⟩ := h
    have ⟨h1, h2, h3⟩ := ih m hm
    rw [List.cons_append, skipContainer.eq_def]; simp [h92, h34, hq, hrc, hlc, h1]; omega
  | case10 c r d iq h92 h34 hq hrc hlc ih =>
    have hq' : iq = false := by simpa using hq
    subst hq'
    rw [skipContainer.eq_def] at h; simp [h92, h34, hq, hrc, hlc] at h
    obtain ⟨m, hm, rfl⟩ := h
    have ⟨h1, h2, h3⟩ := ih m hm
    rw [List.cons_append, skipContainer.eq_def]; simp [h92, h34, hq, hrc, hlc, h1]; omega

theorem numRun_le (d : Bytes) : numRun d ≤ d.length := by
  induction d with
  | nil => simp [numRun]
  | cons c r ih => unfold numRun; split <;> simp <;> omega

theorem numRun_append_lt (a b : Bytes) (h : numRun a < a.length) : numRun (a ++ b) = numRun a := by
  induction a with
  | nil => simp at h
  | cons c r ih =>
    simp only [List.cons_append]
    rw [numRun, numRun]
    by_cases hc : isNumChar c = true
    · simp only [hc, if_true]
      rw [numRun] at h; simp only [hc, if_true, List.length_cons] at h
      rw [ih (by omega)]
    · simp [hc]



theorem isNumChar_of_isNumStart (c : UInt8) (h : isNumStart c = true) : isNumChar c = true := by
  simp only [isNumStart, isNumChar, Bool.or_eq_true] at h ⊢
  rcases h with h | h <;> simp [h]

theorem numRun_pos (c : UInt8) (r : Bytes) (h : isNumStart c = true) : 0 < numRun (c :: r) := by
  rw [numRun]; simp [isNumChar_of_isNumStart c h]

theorem frame_stable (p q : Bytes) (x : Nat) (h : Fixed.frame p = some x) :
    Fixed.frame (p ++ q) = some x ∧ x ≤ p.length ∧ 0 < x := by
  cases p with
  | nil => simp [Fixed.frame] at h
  | cons c r =>
    simp only [Fixed.frame, List.cons_append] at h ⊢
    split at h
    · rename_i hc
      simp only [Option.map_eq_some_iff] at h; obtain ⟨m, hm, rfl⟩ := h
      have ⟨h1, h2, h3⟩ := skipContainer_stable 91 93 r q 0 false m hm
      simp [hc, h1]; omega
    · rename_i hc
      split at h
      · rename_i hc2
        simp only [Option.map_eq_some_iff] at h; obtain ⟨m, hm, rfl⟩ := h
        have ⟨h1, h2, h3⟩ := skipContainer_stable 123 125 r q 0 false m hm
        simp [hc, hc2, h1]; omega
      · rename_i hc2
        split at h
        · rename_i hc3
          simp only [Option.map_eq_some_iff] at h; obtain ⟨m, hm, rfl⟩ := h
          have ⟨h1, h2, h3⟩ := skipString_stable r q m hm
          simp [hc, hc2, hc3, h1]; omega
        · rename_i hc3
          split at h
          · rename_i hc4
            split at h
            · rename_i hl
              simp at h; subst h
              simp [hc, hc2, hc3, hc4]; omega
            · simp at h
          · rename_i hc4
            split at h
            · rename_i hc5
              split at h
              · rename_i hl
                simp at h; subst h
                simp [hc, hc2, hc3, hc4, hc5]; omega
              · simp at h
            · rename_i hc5
              split at h
              · rename_i hc6
                split at h
                · rename_i hl
                  simp at h; subst h
                  have := numRun_append_lt (c :: r) q hl
                  simp only [List.cons_append] at this
                  have hle := numRun_le (c :: r)
                  simp [hc, hc2, hc3, hc4, hc5, hc6, this]
                  have hp := numRun_pos c r hc6
                  simp only [List.length_cons] at hl hle
                  omega
                · simp at h
              · simp at h


end SonicSpec.IO
