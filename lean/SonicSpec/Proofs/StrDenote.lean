/-
  Helper lemmas for C20: the transliterated `unquote` against the inductive specification `Denotes`,
  and `quote` against the literal grammar `LitBody`.
-/
import SonicSpec.Model.Str
import SonicSpec.Model.StrSpec
import SonicSpec.Proofs.U8
import SonicSpec.Proofs.StrQuote
namespace SonicSpec.Str

theorem consOk_ok {pre o : Bytes} {x : Except UErr Bytes} (h : consOk pre x = .ok o) :
    ∃ o', x = .ok o' ∧ o = pre ++ o' := by
  cases x with
  | error e => cases h
  | ok o' => exact ⟨o', rfl, by cases h; rfl⟩

theorem skipDbl_false (sp : Bytes) : skipDbl false sp = sp := by simp [skipDbl]

theorem lone_ok {u : Bool} {sp o r : Bytes} (h : lone u sp = .ok (o, r)) : u = true ∧ o = fffd ∧ r = sp := by
  unfold lone at h
  split at h
  · rename_i hu; cases h; exact ⟨hu, rfl, rfl⟩
  · cases h

/-! ### soundness: what `unquote` returns is the denotation -/

theorem pairRune_sound {u : Bool} {r0 : Nat} {sp out r : Bytes} (hs : isSurr r0)
    (h : pairRune u r0 sp = .ok (out, r)) {o' : Bytes} (hd : Denotes u r o') {a b c d : UInt8}
    (hx : hex4 a b c d = some r0) : Denotes u (92 :: 117 :: a :: b :: c :: d :: sp) (out ++ o') := by
  unfold pairRune at h
  split at h
  · rename_i e u' a' b' c' d' rest
    split at h
    · rename_i hc
      obtain ⟨hu, rfl, rfl⟩ := lone_ok h
      refine Denotes.lone hu hx hs ?_ hd
      rintro ⟨hhi, a2, b2, c2, d2, r2, t2, he, _, _⟩
      injection he with he1 he; injection he with he2 _
      subst he1; subst he2
      simp only [bne_self_eq_false, Bool.false_or, decide_eq_true_eq] at hc
      exact absurd hhi.2 (by omega)
    · rename_i hc
      simp only [Bool.or_eq_true, bne_iff_ne, ne_eq, decide_eq_true_eq, not_or, Decidable.not_not] at hc
      obtain ⟨⟨he, hu'⟩, hle⟩ := hc
      subst he; subst hu'
      split at h
      · cases h
      · rename_i r1 hx1
        split at h
        · rename_i hr1
          obtain ⟨hu, rfl, rfl⟩ := lone_ok h
          refine Denotes.lone hu hx hs ?_ hd
          rintro ⟨_, a2, b2, c2, d2, r2, t2, he, hx2, hlo⟩
          injection he with _ he; injection he with _ he; injection he with e1 he; injection he with e2 he
          injection he with e3 he; injection he with e4 _
          subst e1; subst e2; subst e3; subst e4
          rw [hx1] at hx2; cases hx2
          simp only [Bool.or_eq_true, decide_eq_true_eq] at hr1
          exact absurd hlo (by unfold isLo; omega)
        · rename_i hr1
          simp only [Bool.or_eq_true, decide_eq_true_eq, not_or, Nat.not_lt] at hr1
          simp only [Except.ok.injEq, Prod.mk.injEq] at h
          obtain ⟨rfl, rfl⟩ := h
          exact Denotes.pair hx ⟨hs.1, by omega⟩ hx1 ⟨by omega, by omega⟩ hd
  · rename_i hne
    obtain ⟨hu, rfl, rfl⟩ := lone_ok h
    refine Denotes.lone hu hx hs ?_ hd
    rintro ⟨_, a2, b2, c2, d2, r2, t2, he, _, _⟩
    exact hne _ _ _ _ _ _ _ he

theorem escStep_sound {u : Bool} {t out r : Bytes} (h : escStep u false t = .ok (out, r)) {o' : Bytes}
    (hd : Denotes u r o') : Denotes u (92 :: t) (out ++ o') := by
  match t with
  | [] => simp [escStep] at h
  | c1 :: sp =>
    rw [escStep_single] at h
    unfold escBody at h
    split at h
    · rename_i hc
      have : c1 = 117 := by simpa using hc
      subst this
      split at h
      · rename_i a b c d rest
        split at h
        · cases h
        · rename_i r0 hx
          unfold decodeRune at h
          split at h
          · rename_i hns
            simp only [Except.ok.injEq, Prod.mk.injEq] at h
            obtain ⟨rfl, rfl⟩ := h
            refine Denotes.bmp hx ?_ hd
            simp only [Bool.or_eq_true, decide_eq_true_eq] at hns
            unfold isSurr; omega
          · rename_i hns
            simp only [Bool.or_eq_true, decide_eq_true_eq, not_or, Nat.not_lt] at hns
            simp only [Bool.false_and, Bool.false_eq_true, ↓reduceIte, skipDbl_false] at h
            exact pairRune_sound ⟨by omega, by omega⟩ h hd hx
      · cases h
    · split at h
      · rename_i v hv
        simp only [Except.ok.injEq, Prod.mk.injEq] at h
        obtain ⟨rfl, rfl⟩ := h
        exact Denotes.simple hv hd
      · cases h

theorem unquote_sound' (u : Bool) (s : Bytes) : ∀ o, unquote u false s = .ok o → Denotes u s o := by
  fun_induction unquote u false s with
  | case1 => intro o h; cases h; exact Denotes.nil
  | case2 c t hc e he => intro o h; cases h
  | case3 c t hc out r he ih =>
    intro o h
    have : c = 92 := by simpa using hc
    subst this
    obtain ⟨o', h1, rfl⟩ := consOk_ok h
    exact escStep_sound he (ih o' h1)
  | case4 c t hc ih =>
    intro o h
    have : c ≠ 92 := by simpa using hc
    obtain ⟨o', h1, rfl⟩ := consOk_ok h
    exact Denotes.plain this (ih o' h1)

/-! ### completeness: every denotation is computed -/

theorem simpleEsc_u : simpleEsc 117 = none := by decide

theorem escStep_simple (u : Bool) (e v : UInt8) (s : Bytes) (h : simpleEsc e = some v) :
    escStep u false (e :: s) = .ok ([v], s) := by
  rw [escStep_single]
  unfold escBody
  have hne : (e == 117) = false := by
    cases hc : e == 117 with
    | false => rfl
    | true =>
      have : e = 117 := by simpa using hc
      subst this
      rw [simpleEsc_u] at h; cases h
  simp only [hne, Bool.false_eq_true, ↓reduceIte, h]

theorem escStep_u (u : Bool) (a b c d : UInt8) (r : Nat) (s : Bytes) (h : hex4 a b c d = some r) :
    escStep u false (117 :: a :: b :: c :: d :: s) = decodeRune u false r s := by
  rw [escStep_single]
  simp only [escBody, beq_self_eq_true, ↓reduceIte, h]

theorem decodeRune_surr (u : Bool) (r : Nat) (s : Bytes) (h : isSurr r) :
    decodeRune u false r s = pairRune u r s := by
  unfold decodeRune
  have : (decide (r < 55296) || decide (r > 57343)) = false := by
    simp only [Bool.or_eq_false_iff, decide_eq_false_iff_not]
    unfold isSurr at h; omega
  simp only [this, Bool.false_eq_true, ↓reduceIte, Bool.false_and, skipDbl_false]

theorem denotes_u_hex {u : Bool} {a b c d : UInt8} {rest o : Bytes}
    (h : Denotes u (92 :: 117 :: a :: b :: c :: d :: rest) o) : ∃ r, hex4 a b c d = some r := by
  cases h with
  | plain hc _ => exact absurd rfl hc
  | simple hv _ => rw [simpleEsc_u] at hv; cases hv
  | bmp hx _ _ => exact ⟨_, hx⟩
  | pair hx _ _ _ _ => exact ⟨_, hx⟩
  | lone _ hx _ _ _ => exact ⟨_, hx⟩

theorem pairRune_lone (r : Nat) (s o : Bytes) (h : ¬ (isHi r ∧ StartsLo s)) (hs : isSurr r)
    (hd : Denotes true s o) : pairRune true r s = .ok (fffd, s) := by
  unfold pairRune
  split
  · rename_i e u' a' b' c' d' rest
    split
    · rfl
    · rename_i hc
      simp only [Bool.or_eq_true, bne_iff_ne, ne_eq, decide_eq_true_eq, not_or, Decidable.not_not] at hc
      obtain ⟨⟨he, hu'⟩, hle⟩ := hc
      subst he; subst hu'
      obtain ⟨r1, hx1⟩ := denotes_u_hex hd
      rw [hx1]
      simp only
      split
      · rfl
      · rename_i hr1
        simp only [Bool.or_eq_true, decide_eq_true_eq, not_or, Nat.not_lt] at hr1
        exact absurd ⟨⟨hs.1, by omega⟩, a', b', c', d', r1, rest, rfl, hx1, ⟨by omega, by omega⟩⟩ h
  · rfl

theorem pairRune_pair (u : Bool) (hi lo : Nat) (a b c d : UInt8) (s : Bytes) (hh : isHi hi)
    (hx : hex4 a b c d = some lo) (hl : isLo lo) :
    pairRune u hi (92 :: 117 :: a :: b :: c :: d :: s)
      = .ok (encodeScalar ((hi - 55296) * 1024 + (lo - 56320) + 65536), s) := by
  unfold pairRune
  have h1 : ¬ hi > 56319 := by unfold isHi at hh; omega
  have h2 : ¬ (lo < 56320 ∨ lo > 57343) := by unfold isLo at hl; omega
  simp only [bne_self_eq_false, Bool.false_or, decide_eq_true_eq, h1, ↓reduceIte, hx, Bool.or_eq_true, h2]

theorem unquote_complete' {u : Bool} {s o : Bytes} (h : Denotes u s o) : unquote u false s = .ok o := by
  induction h with
  | nil => exact unquote_nil u false
  | plain hc _ ih => rw [unquote_plain u false _ _ hc, ih]; rfl
  | simple hv _ ih => rw [unquote_esc_ok u false _ _ _ (escStep_simple u _ _ _ hv), ih]; rfl
  | @bmp a b c d r s o hx hns _ ih =>
    have e : escStep u false (117 :: a :: b :: c :: d :: s) = .ok (encodeScalar r, s) := by
      rw [escStep_u u a b c d r s hx]
      unfold decodeRune
      have : (decide (r < 55296) || decide (r > 57343)) = true := by
        simp only [Bool.or_eq_true, decide_eq_true_eq]
        unfold isSurr at hns; omega
      simp only [this, ↓reduceIte]
    rw [unquote_esc_ok u false _ _ _ e, ih]; rfl
  | @pair a b c d a' b' c' d' hi lo s o hx hh hx' hl _ ih =>
    have e : escStep u false (117 :: a :: b :: c :: d :: 92 :: 117 :: a' :: b' :: c' :: d' :: s)
        = .ok (encodeScalar ((hi - 55296) * 1024 + (lo - 56320) + 65536), s) := by
      rw [escStep_u u a b c d hi _ hx, decodeRune_surr u hi _ ⟨hh.1, by unfold isHi at hh; omega⟩]
      exact pairRune_pair u hi lo a' b' c' d' s hh hx' hl
    rw [unquote_esc_ok u false _ _ _ e, ih]; rfl
  | @lone a b c d r s o hu hx hs hn hd ih =>
    subst hu
    have e : escStep true false (117 :: a :: b :: c :: d :: s) = .ok (fffd, s) := by
      rw [escStep_u true a b c d r s hx, decodeRune_surr true r s hs]
      exact pairRune_lone r s o hn hs hd
    rw [unquote_esc_ok true false _ _ _ e, ih]; rfl

/-! ### `quote` produces a literal -/

theorem litBody_quoteByte (c : UInt8) (t : Bytes) (h : LitBody t) : LitBody (quoteByte c ++ t) := by
  unfold quoteByte
  split
  · exact LitBody.simple (v := 34) (by decide) h
  split
  · exact LitBody.simple (v := 92) (by decide) h
  split
  · exact LitBody.simple (v := 9) (by decide) h
  split
  · exact LitBody.simple (v := 10) (by decide) h
  split
  · exact LitBody.simple (v := 13) (by decide) h
  split
  · rename_i hc
    exact LitBody.uni (hex4_ctl c hc) h
  · rename_i h34 h92 _ _ _ hc
    exact LitBody.plain (UInt8.not_lt.mp hc) (by simpa using h34) (by simpa using h92) h

theorem litBody_quoteBody (s : Bytes) : LitBody (quoteBody s) := by
  induction s with
  | nil => exact LitBody.nil
  | cons c s ih => rw [quoteBody_cons]; exact litBody_quoteByte c _ ih

theorem litBodyOk_of_LitBody {b : Bytes} (h : LitBody b) : litBodyOk b = true := by
  induction h with
  | nil => rfl
  | @plain c t h32 h34 h92 _ ih =>
    rw [litBodyOk.eq_def]
    have a : (c == 92) = false := by simpa using h92
    have b : (c == 34) = false := by simpa using h34
    have d : decide (c < 32) = false := by simpa using UInt8.not_lt.mpr h32
    simp only [a, b, d, Bool.false_eq_true, ↓reduceIte, Bool.or_self, ih]
  | @simple e v t hv _ ih =>
    rw [litBodyOk.eq_def]
    have hne : (e == 117) = false := by
      cases hc : e == 117 with
      | false => rfl
      | true =>
        have : e = 117 := by simpa using hc
        subst this
        rw [simpleEsc_u] at hv; cases hv
    simp only [beq_self_eq_true, ↓reduceIte, hne, Bool.false_eq_true, hv, Option.isSome_some, ih, Bool.and_self]
  | @uni a b c d r t hx _ ih =>
    rw [litBodyOk.eq_def]
    simp only [beq_self_eq_true, ↓reduceIte, hx, Option.isSome_some, ih, Bool.and_self]

/-! ### double quoting -/

theorem quoteByteD_eq : ∀ c : UInt8, quoteByteD c = quoteBody (quoteByte c) := by
  apply forall_uint8
  decide +kernel

theorem quoteBodyD_eq (s : Bytes) : quoteBodyD s = quoteBody (quoteBody s) := by
  induction s with
  | nil => rfl
  | cons c s ih =>
    have : quoteBodyD (c :: s) = quoteByteD c ++ quoteBodyD s := by simp [quoteBodyD]
    rw [this, ih, quoteByteD_eq, quoteBody_cons]
    simp [quoteBody]

theorem unquote_quoteByteD (u : Bool) (c : UInt8) (rest : Bytes) :
    unquote u true (quoteByteD c ++ rest) = consOk [c] (unquote u true rest) := by
  unfold quoteByteD
  split
  · rename_i h; have : c = 34 := by simpa using h
    subst this
    exact unquote_esc_ok u true _ [34] rest (by simp [escStep, escBody, simpleEsc])
  split
  · rename_i h; have : c = 92 := by simpa using h
    subst this
    exact unquote_esc_ok u true _ [92] rest (by simp [escStep, escBody, simpleEsc])
  split
  · rename_i h; have : c = 9 := by simpa using h
    subst this
    exact unquote_esc_ok u true _ [9] rest (by simp [escStep, escBody, simpleEsc])
  split
  · rename_i h; have : c = 10 := by simpa using h
    subst this
    exact unquote_esc_ok u true _ [10] rest (by simp [escStep, escBody, simpleEsc])
  split
  · rename_i h; have : c = 13 := by simpa using h
    subst this
    exact unquote_esc_ok u true _ [13] rest (by simp [escStep, escBody, simpleEsc])
  split
  · rename_i h
    have hc : c.toNat < 55296 := by have := c.toNat_lt; omega
    refine unquote_esc_ok u true _ [c] rest ?_
    show escStep u true (92 :: 117 :: 48 :: 48 :: hexLow (c / 16) :: hexLow (c % 16) :: rest) = _
    simp only [escStep, ↓reduceIte, beq_self_eq_true, show ((117 : UInt8) == 92) = false by decide,
      Bool.false_eq_true, escBody, hex4_ctl c h, decodeRune_small u true _ rest hc,
      encodeScalar_ascii c (lt32_lt128 c h)]
  · rename_i h92 _ _ _ _
    have : c ≠ 92 := by simpa using h92
    exact unquote_plain u true c rest this

theorem unquote_quoteBodyD (u : Bool) (s : Bytes) : unquote u true (quoteBodyD s) = .ok s := by
  induction s with
  | nil => simp [quoteBodyD, unquote_nil]
  | cons c s ih =>
    have : quoteBodyD (c :: s) = quoteByteD c ++ quoteBodyD s := by simp [quoteBodyD]
    rw [this, unquote_quoteByteD, ih]; rfl

theorem unquoteTwice_quoteBodyD (u : Bool) (s : Bytes) : unquoteTwice u (quoteBodyD s) = .ok s := by
  unfold unquoteTwice
  rw [quoteBodyD_eq, unquote_quoteBody]
  simp only
  exact unquote_quoteBody u s

end SonicSpec.Str
