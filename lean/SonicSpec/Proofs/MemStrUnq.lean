/-
  unquote over memory: copying up to the next backslash block-wise (memcchr_p32, any widths) and decoding the
  escape behind it with the scalar code gives exactly `Str.unquote` of the input.
-/
import SonicSpec.Proofs.MemStrFind
import SonicSpec.Proofs.MemStrQuote
import SonicSpec.Proofs.StrQuote
namespace SonicSpec.Mem
open SonicSpec.Str

/-! ### what an escape leaves unconsumed is a suffix of what it was given -/

theorem lone_suffix {unirep : Bool} {sp o r : Bytes} (h : lone unirep sp = .ok (o, r)) : r <:+ sp := by
  rw [lone_rest h]; exact List.suffix_refl _

theorem skipDbl_suffix (dbl : Bool) (sp : Bytes) : skipDbl dbl sp <:+ sp := by
  unfold skipDbl
  split
  · split
    · split
      · exact List.suffix_cons _ _
      · exact List.suffix_refl _
    · exact List.suffix_refl _
  · exact List.suffix_refl _

theorem pairRune_suffix {unirep : Bool} {r0 : Nat} {sp o r : Bytes}
    (h : pairRune unirep r0 sp = .ok (o, r)) : r <:+ sp := by
  unfold pairRune at h
  split at h
  · split at h
    · exact lone_suffix h
    · split at h
      · cases h
      · split at h
        · exact lone_suffix h
        · simp only [Except.ok.injEq, Prod.mk.injEq] at h
          obtain ⟨_, rfl⟩ := h
          exact ⟨[_, _, _, _, _, _], rfl⟩
  · exact lone_suffix h

theorem decodeRune_suffix {unirep dbl : Bool} {r0 : Nat} {sp o r : Bytes}
    (h : decodeRune unirep dbl r0 sp = .ok (o, r)) : r <:+ sp := by
  unfold decodeRune at h
  split at h
  · cases h; exact List.suffix_refl _
  · split at h
    · split at h
      · cases h; exact List.nil_suffix
      · cases h
    · exact (pairRune_suffix h).trans (skipDbl_suffix _ _)

theorem escBody_suffix {unirep dbl : Bool} {c : UInt8} {sp o r : Bytes}
    (h : escBody unirep dbl c sp = .ok (o, r)) : r <:+ sp := by
  unfold escBody at h
  split at h
  · split at h
    · split at h
      · cases h
      · exact (decodeRune_suffix h).trans ⟨[_, _, _, _], rfl⟩
    · cases h
  · split at h
    · cases h; exact List.suffix_refl _
    · cases h

theorem escStep_suffix {unirep dbl : Bool} {t o r : Bytes}
    (h : escStep unirep dbl t = .ok (o, r)) : r <:+ t := by
  unfold escStep at h
  split at h
  · cases h
  · split at h
    · split at h
      · cases h
      · split at h
        · split at h
          · split at h
            · cases h
            · split at h
              · cases h
              · exact (escBody_suffix h).trans ⟨[_, _, _], rfl⟩
          · exact (escBody_suffix h).trans ⟨[_, _], rfl⟩
        · exact (escBody_suffix h).trans ⟨[_], rfl⟩
    · exact (escBody_suffix h).trans ⟨[_], rfl⟩

theorem drop_of_suffix {r t : Bytes} (h : r <:+ t) : t.drop (t.length - r.length) = r := by
  obtain ⟨pre, rfl⟩ := h
  simp

/-! ### plain runs -/

theorem consOk_consOk (a b : Bytes) (x : Except UErr Bytes) : consOk a (consOk b x) = consOk (a ++ b) x := by
  cases x <;> simp [consOk]

theorem consOk_nil (x : Except UErr Bytes) : consOk [] x = x := by
  cases x <;> simp [consOk]

theorem unquote_plain_run (u d : Bool) : ∀ (l t : Bytes), (∀ c ∈ l, isBackslash c = false) →
    unquote u d (l ++ t) = consOk l (unquote u d t)
  | [], t, _ => by simp [consOk_nil]
  | a :: l, t, h => by
    have ha : a ≠ 92 := by
      have := h a List.mem_cons_self
      simpa [isBackslash] using this
    rw [List.cons_append, unquote_plain u d a _ ha,
      unquote_plain_run u d l t (fun c hc => h c (List.mem_cons_of_mem _ hc)), consOk_consOk]
    rfl

/-- native/unquote.c over memory = `Str.unquote` -/
theorem unquoteRun_spec (unirep dbl : Bool) {rd : Rd} {s : Bytes} (h : Holds rd s) (Ws : List Nat) :
    ∀ (fuel p : Nat) (out : Bytes), p ≤ s.length → s.length - p + 1 ≤ fuel →
      unquoteRun unirep dbl Ws rd s.length fuel p out = some (consOk out (unquote unirep dbl (s.drop p)))
  | 0, p, out, hp, hf => by omega
  | fuel + 1, p, out, hp, hf => by
    simp only [unquoteRun]
    by_cases hpl : p ≥ s.length
    · simp only [hpl, if_true]
      rw [List.drop_eq_nil_of_le hpl, unquote_nil]
      simp [consOk]
    · have hlt : p < s.length := by omega
      simp only [hpl, if_false, h.find isBackslash Ws p]
      have hle := runLen_le isBackslash s p
      have hq3 : p + runLen isBackslash s p ≤ s.length := by
        have : max p s.length = s.length := by omega
        omega
      have hload := h.load p (p + runLen isBackslash s p) (by omega) hq3
      rw [Nat.add_sub_cancel_left] at hload
      simp only [Nat.add_sub_cancel_left, hload]
      have hplain := runLen_plain isBackslash s p
      have hsplit := drop_eq_slice_append s p (p + runLen isBackslash s p) (by omega)
      rcases runLen_stop isBackslash s p hp with hend | ⟨hq, hbs⟩
      · -- no backslash left
        simp only [hend, ge_iff_le, Nat.le_refl, if_true]
        rw [hend] at hplain
        rw [hsplit, hend, List.drop_length, unquote_plain_run unirep dbl _ [] hplain, unquote_nil]
        simp [consOk]
      · have hnot : ¬ p + runLen isBackslash s p ≥ s.length := by omega
        simp only [hnot, if_false]
        have h92 : s[p + runLen isBackslash s p] = 92 := by simpa [isBackslash] using hbs
        have hload2 := h.load (p + runLen isBackslash s p + 1) s.length (by omega) (Nat.le_refl _)
        rw [slice_drop s _ s.length (Nat.le_refl _)] at hload2
        simp only [hload2]
        have hdrop : s.drop (p + runLen isBackslash s p) = 92 :: s.drop (p + runLen isBackslash s p + 1) := by
          rw [List.drop_eq_getElem_cons hq, h92]
        rw [hsplit, hdrop, unquote_plain_run unirep dbl _ _ hplain]
        cases he : escStep unirep dbl (s.drop (p + runLen isBackslash s p + 1)) with
        | error e =>
          simp only
          rw [unquote_esc_err unirep dbl _ e he]
          simp [consOk]
        | ok x =>
          obtain ⟨o, r⟩ := x
          simp only
          have hsuf := escStep_suffix he
          have hrl := escStep_rest_le he
          simp only [List.length_drop] at hrl
          have hd := drop_of_suffix hsuf
          simp only [List.length_drop, List.drop_drop] at hd
          have hpos : s.drop (s.length - r.length) = r := by
            have e : p + runLen isBackslash s p + 1 + (s.length - (p + runLen isBackslash s p + 1) - r.length)
                = s.length - r.length := by omega
            rw [e] at hd
            exact hd
          rw [unquoteRun_spec unirep dbl h Ws fuel (s.length - r.length) _ (by omega) (by omega), hpos,
            unquote_esc_ok unirep dbl _ o r he, consOk_consOk, consOk_consOk, List.append_assoc]

theorem unquoteNative_spec (w : StrWidths) (unirep dbl : Bool) {rd : Rd} {s : Bytes} (h : Holds rd s) :
    unquoteNative w unirep dbl rd s.length = some (unquote unirep dbl s) := by
  simp only [unquoteNative]
  rw [unquoteRun_spec unirep dbl h w.find (s.length + 1) 0 [] (Nat.zero_le _) (by omega)]
  simp [consOk_nil]

end SonicSpec.Mem
