/-
  Folding `add` over an association list with pairwise different keys: contents = the list,
  whatever the order and however many rehashes happen on the way.
-/
import SonicSpec.Proofs.ConcPMap
import SonicSpec.Model.ConcLoad
set_option linter.unusedSectionVars false
set_option linter.unusedVariables false
namespace SonicSpec.Conc
open PMap
variable {κ γ : Type} [DecidableEq κ]

/-- insert all pairs, in list order, starting from `m` -/
def addAll (hash : κ → Nat) (m : PMap κ γ) (kvs : List (κ × γ)) : PMap κ γ :=
  kvs.foldl (fun m kv => add hash m kv.1 kv.2) m

theorem addAll_spec (hash : κ → Nat) (kvs : List (κ × γ)) :
    ∀ (m : PMap κ γ), Inv hash m → (∀ kv ∈ kvs, ∀ v, ¬ Mem m kv.1 v) → (kvs.map Prod.fst).Nodup →
      Inv hash (addAll hash m kvs) ∧ (addAll hash m kvs).n = m.n + kvs.length ∧
      ∀ k v, Mem (addAll hash m kvs) k v ↔ (Mem m k v ∨ (k, v) ∈ kvs) := by
  induction kvs with
  | nil =>
    intro m h _ _
    simp [addAll]
    exact h
  | cons kv kvs ih =>
    intro m h hf hn
    obtain ⟨k0, v0⟩ := kv
    simp only [List.map_cons, List.nodup_cons] at hn
    obtain ⟨hi, hcnt, hmem⟩ := add_spec hash m h k0 v0 (hf (k0, v0) (List.mem_cons_self ..))
    have := ih (add hash m k0 v0) hi
      (by
        intro kv hkv v hm
        rcases (hmem kv.1 v).1 hm with ⟨hk, _⟩ | hm
        · apply hn.1
          rw [← hk]
          exact List.mem_map.2 ⟨kv, hkv, rfl⟩
        · exact hf kv (List.mem_cons_of_mem _ hkv) v hm)
      hn.2
    obtain ⟨hi', hcnt', hmem'⟩ := this
    refine ⟨hi', ?_, ?_⟩
    · show (addAll hash (add hash m k0 v0) kvs).n = _
      rw [hcnt', hcnt]
      simp only [List.length_cons]
      omega
    · intro k v
      show Mem (addAll hash (add hash m k0 v0) kvs) k v ↔ _
      rw [hmem', hmem]
      simp only [List.mem_cons, Prod.mk.injEq]
      constructor
      · rintro ((h | h) | h)
        · exact Or.inr (Or.inl h)
        · exact Or.inl h
        · exact Or.inr (Or.inr h)
      · rintro (h | h | h)
        · exact Or.inl (Or.inr h)
        · exact Or.inl (Or.inl h)
        · exact Or.inr h

theorem assoc_none_iff (k : κ) (kvs : List (κ × γ)) : assoc k kvs = none ↔ ∀ v, (k, v) ∉ kvs := by
  induction kvs with
  | nil => simp [assoc]
  | cons kv kvs ih =>
    obtain ⟨k0, v0⟩ := kv
    unfold assoc
    by_cases hk : k0 = k
    · subst hk
      simp only [if_true]
      constructor
      · intro h; cases h
      · intro h
        exact absurd (List.mem_cons_self ..) (h v0)
    · simp only [if_neg hk, ih, List.mem_cons, Prod.mk.injEq]
      constructor
      · intro h v hv
        rcases hv with ⟨h1, _⟩ | hv
        · exact hk h1.symm
        · exact h v hv
      · intro h v hv
        exact h v (Or.inr hv)

theorem assoc_some_mem (k : κ) (v : γ) (kvs : List (κ × γ)) (h : assoc k kvs = some v) : (k, v) ∈ kvs := by
  induction kvs with
  | nil => simp [assoc] at h
  | cons kv kvs ih =>
    obtain ⟨k0, v0⟩ := kv
    unfold assoc at h
    by_cases hk : k0 = k
    · subst hk
      simp only [if_true, Option.some.injEq] at h
      subst h
      exact List.mem_cons_self ..
    · simp only [if_neg hk] at h
      exact List.mem_cons_of_mem _ (ih h)

theorem get_addAll (hash : κ → Nat) (e : Nat) (kvs : List (κ × γ)) (hn : (kvs.map Prod.fst).Nodup) (k : κ) :
    get hash (addAll hash (empty (2 ^ e)) kvs) k = assoc k kvs := by
  obtain ⟨hi, _, hmem⟩ := addAll_spec hash kvs (empty (2 ^ e)) (inv_empty hash e)
    (fun kv _ v hm => mem_empty _ kv.1 v hm) hn
  cases ha : assoc k kvs with
  | none =>
    rw [get_none_iff hash _ hi.1]
    intro v hm
    rcases (hmem k v).1 hm with hm | hm
    · exact mem_empty _ k v hm
    · exact (assoc_none_iff k kvs).1 ha v hm
  | some v =>
    rw [get_iff hash _ hi.1]
    exact (hmem k v).2 (Or.inr (assoc_some_mem k v kvs ha))

end SonicSpec.Conc
