/-
  Encoder IR, compiler correctness (2): slices (the two-phase loop of compileSliceArray), []uint8.
-/
import SonicSpec.Proofs.IrBase
namespace SonicSpec.Ir
open SonicSpec SonicSpec.Go SonicSpec.Enc SonicSpec.Json
variable {o : EncOpts} {co : COpts}

def tailElems : List JVal → Bytes
  | [] => []
  | j :: js => 44 :: (render j ++ tailElems js)

theorem renderElems_cons (j : JVal) (js : List JVal) : renderElems (j :: js) = render j ++ tailElems js := by
  induction js generalizing j with
  | nil => simp [renderElems, tailElems]
  | cons a r ih =>
    rw [renderElems, ih]
    · simp [tailElems]
    · intro h; cases h

/-- the second loop of compileSliceArray: `y0` has been written, `ys` are still to come -/
theorem sliceLoop_ok {t : GoType} {fpv : Bool} {P : Program} {j i : Nat} {sp : Nat} {k : Nat} {tab : List GoType} (hk : libLeft tab ≤ k)
    (hj : At P j [Instr.sliceNext i t, Instr.byte 44])
    (hc : At P (j + 2) (code co (libK co k) tab (j + 2) sp true t))
    (hg : At P (j + 2 + (code co (libK co k) tab (j + 2) sp true t).length) [Instr.goto j])
    (r0 : Regs) (st : Stack) :
    ∀ (ys : List GoVal), (∀ y ∈ ys, CodeOK o co t y) → (∀ y ∈ ys, st.length + needV t y ≤ maxStack) → ∀ (y0 : GoVal) (b : Bytes),
      (∀ js, encL o true t ys = .ok js → ∀ res, (∀ rr, Halts o co fpv P i rr st (b ++ tailElems js) res) →
          Halts o co fpv P j { r0 with x := ys.length, init := false, p := .elems (y0 :: ys) } st b res) ∧
      (∀ e, encL o true t ys = .error e → e = .unsupportedValue ∧
          Halts o co fpv P j { r0 with x := ys.length, init := false, p := .elems (y0 :: ys) } st b (.error (.enc e))) := by
  intro ys
  induction ys with
  | nil =>
    intro _ _ y0 b
    constructor
    · intro js hjs res h
      simp only [encL] at hjs
      injection hjs with hjs; subst hjs
      refine halts_step (hj.get 0 (by omega) rfl) (by simp only [step]; rfl) ?_
      exact halts_cast (h _) rfl rfl rfl (by simp [tailElems])
    · intro e he; simp only [encL] at he; cases he
  | cons y ys ih =>
    intro hall hst y0 b
    have hy := hall y (by simp)
    have ih' := ih (fun z hz => hall z (by simp [hz])) (fun z hz => hst z (by simp [hz])) y
    obtain ⟨hyok, hyerr⟩ := hy k tab hk true fpv P (j + 2) sp true
      { r0 with x := ys.length, init := false, p := .elems (y :: ys) } st (b ++ [44]) hc rfl (hst y (by simp))
    have hnext : step o (Instr.sliceNext i t) j { r0 with x := (y :: ys).length, init := false, p := .elems (y0 :: y :: ys) } st b =
        .next (j + 1) { r0 with x := ys.length, init := false, p := .elems (y :: ys) } st b := by
      simp [step]
    constructor
    · intro js hjs res h
      simp only [encL, bind, Except.bind, pure, Except.pure] at hjs
      split at hjs
      · cases hjs
      · rename_i jy hjy
        split at hjs
        · cases hjs
        · rename_i jr hjr
          injection hjs with hjs; subst hjs
          refine halts_step (hj.get 0 (by omega) rfl) hnext ?_
          refine halts_step (hj.get 1 (by omega) rfl) (by simp only [step]; rfl) ?_
          refine halts_cast (hyok jy hjy res ?_) (by omega) rfl rfl rfl
          refine halts_step (hg.get 0 (by omega) rfl) (by simp only [step]; rfl) ?_
          refine (ih' (b ++ [44] ++ render jy)).1 jr hjr res (fun rr => ?_)
          exact halts_cast (h rr) rfl rfl rfl (by simp [tailElems])
    · intro e he
      simp only [encL, bind, Except.bind, pure, Except.pure] at he
      split at he
      · rename_i e' hjy
        injection he with he; subst he
        obtain ⟨h1, h2⟩ := hyerr _ hjy
        refine ⟨h1, ?_⟩
        refine halts_step (hj.get 0 (by omega) rfl) hnext ?_
        refine halts_step (hj.get 1 (by omega) rfl) (by simp only [step]; rfl) ?_
        exact halts_cast h2 (by omega) rfl rfl rfl
      · rename_i jy hjy
        split at he
        · rename_i e' hjr
          injection he with he; subst he
          obtain ⟨h1, h2⟩ := (ih' (b ++ [44] ++ render jy)).2 _ hjr
          refine ⟨h1, ?_⟩
          refine halts_step (hj.get 0 (by omega) rfl) hnext ?_
          refine halts_step (hj.get 1 (by omega) rfl) (by simp only [step]; rfl) ?_
          refine halts_cast (hyok jy hjy _ ?_) (by omega) rfl rfl rfl
          refine halts_step (hg.get 0 (by omega) rfl) (by simp only [step]; rfl) ?_
          exact h2
        · cases he

theorem needL_mem {t : GoType} : ∀ (xs : List GoVal), ∀ y ∈ xs, needV t y ≤ needL t xs := by
  intro xs
  induction xs with
  | nil => intro y hy; cases hy
  | cons x r ih =>
    intro y hy
    simp only [needL]
    rcases List.mem_cons.mp hy with hy | hy
    · subst hy; omega
    · have := ih y hy; omega

theorem u8s_of_conf {c0 : COpts} : ∀ (xs : List GoVal), ConfL c0 (.uint 8) xs = true → ∃ bs, u8s xs = some bs := by
  intro xs
  induction xs with
  | nil => intro _; exact ⟨[], rfl⟩
  | cons x r ih =>
    intro h
    simp only [ConfL, Bool.and_eq_true] at h
    obtain ⟨bs, hb⟩ := ih h.2
    cases x <;> try (simp [Conf] at h; done)
    rename_i n
    exact ⟨UInt8.ofNat n :: bs, by simp [u8s, hb]⟩

theorem isU8_eq {t : GoType} (h : isU8 t = true) : t = .uint 8 := by
  unfold isU8 at h
  split at h
  · rfl
  · cases h

/-- a slice of bytes (`[]uint8` spelled as a slice type) -/
theorem codeOK_slU8 {c0 : COpts} {t : GoType} (hu : isU8 t = true) (v : GoVal) (hc : Conf c0 (.sl t) v = true) : CodeOKn o co (.sl t) v := by
  intro k tab _hk hnh addr fpv P pc sp pv r s b hat hg _hs
  rw [code, if_neg (by simp [hnh]), if_pos hu] at hat ⊢
  cases v <;> try (simp [Conf] at hc; done)
  case nil =>
    constructor
    · intro j hj res h
      simp only [encV] at hj
      injection hj with hj; subst hj
      refine halts_step (hat.get 0 (by omega) rfl) (by simp only [step, hg, jumpIf]; rfl) ?_
      refine halts_step (hat.get 3 (by omega) rfl) (by simp only [step]; rfl) ?_
      exact halts_cast h (by simp) rfl rfl rfl
    · intro e he; simp only [encV] at he; cases he
  case sl xs =>
    simp only [Conf] at hc
    have ht := isU8_eq hu
    subst ht
    obtain ⟨bs, hbs⟩ := u8s_of_conf xs hc
    constructor
    · intro j hj res h
      simp only [encV, hu, if_true, hbs] at hj
      injection hj with hj; subst hj
      refine halts_step (hat.get 0 (by omega) rfl) (by simp only [step, hg, jumpIf]; rfl) ?_
      refine halts_step (hat.get 1 (by omega) rfl) (by simp only [step, hg, hbs]; rfl) ?_
      refine halts_step (hat.get 2 (by omega) rfl) (by simp only [step]; rfl) ?_
      exact halts_cast h (by simp) rfl rfl (by simp [render])
    · intro e he; simp only [encV, hu, if_true, hbs] at he; cases he

theorem codeOK_sl_nil {t : GoType} (hu : isU8 t = false) : CodeOKn o co (.sl t) .nil := by
  intro k tab _hk hnh addr fpv P pc sp pv r s b hat hg _hs
  rw [code, if_neg (by simp [hnh])] at hat ⊢
  simp only [hu, Bool.false_eq_true, if_false] at hat ⊢
  constructor
  · intro j hj res h
    simp only [encV] at hj
    injection hj with hj; subst hj
    simp only [List.append_assoc, List.cons_append, List.nil_append] at hat h
    refine halts_step (hat.get 0 (by omega) rfl) (by simp only [step, hg, jumpIf]; rfl) ?_
    have h6 := (hat.skip 6).right
    have h8 := (h6.skip 2).right
    refine halts_step (h8.get 4 (by omega) rfl) (by simp only [step]; rfl) ?_
    exact halts_cast h (by simp; omega) rfl rfl rfl
  · intro e he; simp only [encV] at he; cases he


theorem step_sliceNext_zero {i : Nat} {t : GoType} {pc : Nat} {r : Regs} {s : Stack} {b : Bytes} (h : r.x = 0) :
    step o (Instr.sliceNext i t) pc r s b = .next i r s b := by
  simp [step, h]

theorem codeOK_sl {t : GoType} (hu : isU8 t = false) (xs : List GoVal) (hall : ∀ x ∈ xs, CodeOK o co t x) :
    CodeOKn o co (.sl t) (.sl xs) := by
  intro k tab hk hnh addr fpv P pc sp pv r s b hat hg hs
  rw [code, if_neg (by simp [hnh])] at hat ⊢
  simp only [hu, Bool.false_eq_true, if_false] at hat ⊢
  simp only [needV, hu, Bool.false_eq_true, if_false] at hs
  have hk' : libLeft (.sl t :: tab) ≤ k := Nat.le_trans (libLeft_cons_le _ _) hk
  have hnl : ∀ y ∈ xs, needV t y ≤ needL t xs := needL_mem xs
  generalize hc1 : code co (libK co k) (.sl t :: tab) (pc + 6) (sp + 1) true t = c1 at hat ⊢
  generalize hc2 : code co (libK co k) (.sl t :: tab) (pc + 6 + c1.length + 2) (sp + 1) true t = c2 at hat ⊢
  -- the pieces
  have hA : At P pc [Instr.isNil (pc + 6 + c1.length + 2 + c2.length + 1 + 3), Instr.byte 91, Instr.isNil (pc + 6 + c1.length + 2 + c2.length + 1 + 1),
      Instr.save false, Instr.sliceLen, Instr.sliceNext (pc + 6 + c1.length + 2 + c2.length + 1) t] := hat.left.left.left.left
  have hC1 : At P (pc + 6) c1 := At.right' hat.left.left.left (by simp <;> omega)
  have hL2 : At P (pc + 6 + c1.length) [Instr.sliceNext (pc + 6 + c1.length + 2 + c2.length + 1) t, Instr.byte 44] :=
    At.right' hat.left.left (by simp <;> omega)
  have hC2 : At P (pc + 6 + c1.length + 2) c2 := At.right' hat.left (by simp <;> omega)
  have hL5 : At P (pc + 6 + c1.length + 2 + c2.length) [Instr.goto (pc + 6 + c1.length), Instr.drop, Instr.byte 93,
      Instr.goto (pc + 6 + c1.length + 2 + c2.length + 1 + 4), Instr.emptyArr] := At.right' hat (by simp <;> omega)
  have hsave : ∀ q bb, step o (.save false) q r s bb = .next (q + 1) r (r :: s) bb := by
    intro q bb
    simp only [step]
    rw [if_neg (by omega)]
    simp
  simp only [encV, hu, Bool.false_eq_true, if_false]
  -- the common prefix: `[`, save, slice_len
  have pre : ∀ res, Halts o co fpv P (pc + 5) { r with x := xs.length, p := .elems xs, init := true } (r :: s) (b ++ [91]) res →
      Halts o co fpv P pc r s b res := by
    intro res h
    refine halts_step (hA.get 0 (by omega) rfl) (by simp only [step, hg, jumpIf]; rfl) ?_
    refine halts_step (hA.get 1 (by omega) rfl) (by simp only [step]; rfl) ?_
    refine halts_step (hA.get 2 (by omega) rfl) (by simp only [step, hg, jumpIf]; rfl) ?_
    refine halts_step (hA.get 3 (by omega) rfl) (hsave _ _) ?_
    refine halts_step (hA.get 4 (by omega) rfl) (by simp only [step, hg]; rfl) ?_
    exact halts_cast h (by omega) rfl rfl rfl
  -- the common suffix: drop, `]`, goto
  have post : ∀ res rr bb, Halts o co fpv P (pc + 6 + c1.length + 2 + c2.length + 1 + 4) r s (bb ++ [93]) res →
      Halts o co fpv P (pc + 6 + c1.length + 2 + c2.length + 1) rr (r :: s) bb res := by
    intro res rr bb h
    refine halts_step (hL5.get 1 (by omega) rfl) (by simp only [step]; rfl) ?_
    refine halts_step (hL5.get 2 (by omega) rfl) (by simp only [step]; rfl) ?_
    refine halts_step (hL5.get 3 (by omega) rfl) (by simp only [step]; rfl) ?_
    exact h
  cases xs with
  | nil =>
    constructor
    · intro j hj res h
      simp only [encL, Except.map] at hj
      injection hj with hj; subst hj
      refine pre res ?_
      refine halts_step (hA.get 5 (by omega) rfl) (step_sliceNext_zero rfl) ?_
      refine post res _ _ ?_
      exact halts_cast h (by simp; omega) rfl rfl (by simp [render, renderElems])
    · intro e he; simp only [encL, Except.map] at he; cases he
  | cons x xs =>
    have hx := hall x (by simp)
    obtain ⟨hxok, hxerr⟩ := hx k (.sl t :: tab) hk' true fpv P (pc + 6) (sp + 1) true
      { r with x := xs.length, init := false, p := .elems (x :: xs) } (r :: s) (b ++ [91]) (hc1 ▸ hC1) rfl
      (by have := hnl x (by simp); simp; omega)
    have hfirst : step o (Instr.sliceNext (pc + 6 + c1.length + 2 + c2.length + 1) t) (pc + 5)
        { r with x := (x :: xs).length, p := .elems (x :: xs), init := true } (r :: s) (b ++ [91]) =
        .next (pc + 5 + 1) { r with x := xs.length, init := false, p := .elems (x :: xs) } (r :: s) (b ++ [91]) := by
      simp [step]
    have hloop := sliceLoop_ok (o := o) (co := co) (fpv := fpv) (sp := sp + 1) hk' hL2 (hc2 ▸ hC2)
      (by rw [hc2]; exact At.left (c := [_, _, _, _]) (by simpa using hL5)) r (r :: s) xs
      (fun y hy => hall y (by simp [hy])) (fun y hy => by have := hnl y (by simp [hy]); simp; omega) x
    rw [hc1] at hxok
    constructor
    · intro j hj res h
      simp only [encL, bind, Except.bind, pure, Except.pure, Except.map] at hj
      split at hj
      · cases hj
      · rename_i js hjs
        injection hj with hj; subst hj
        split at hjs
        · cases hjs
        · rename_i jx hjx
          split at hjs
          · cases hjs
          · rename_i jr hjr
            injection hjs with hjs; subst hjs
            refine pre res ?_
            refine halts_step (hA.get 5 (by omega) rfl) hfirst ?_
            refine halts_cast (hxok jx hjx res ?_) (by omega) rfl rfl rfl
            refine (hloop (b ++ [91] ++ render jx)).1 jr hjr res (fun rr => ?_)
            refine post res rr _ ?_
            exact halts_cast h (by simp; omega) rfl rfl (by simp [render, renderElems_cons])
    · intro e he
      simp only [encL, bind, Except.bind, pure, Except.pure, Except.map] at he
      split at he
      · rename_i e' hjs
        injection he with he; subst he
        split at hjs
        · rename_i e'' hjx
          injection hjs with hjs; subst hjs
          obtain ⟨h1, h2⟩ := hxerr _ hjx
          refine ⟨h1, pre _ ?_⟩
          refine halts_step (hA.get 5 (by omega) rfl) hfirst ?_
          exact halts_cast h2 (by omega) rfl rfl rfl
        · rename_i jx hjx
          split at hjs
          · rename_i e'' hjr
            injection hjs with hjs; subst hjs
            obtain ⟨h1, h2⟩ := (hloop (b ++ [91] ++ render jx)).2 _ hjr
            refine ⟨h1, pre _ ?_⟩
            refine halts_step (hA.get 5 (by omega) rfl) hfirst ?_
            exact halts_cast (hxok jx hjx _ h2) (by omega) rfl rfl rfl
          · cases hjs
      · cases he

end SonicSpec.Ir
