/-
  Encoder IR, compiler correctness (5): one iteration of the field loop of compileStructBody - index, the skipping
  tests, comma and key, the value (plain or `,string`), load.
-/
import SonicSpec.Proofs.IrField
namespace SonicSpec.Ir
open SonicSpec SonicSpec.Go SonicSpec.Enc SonicSpec.Json
variable {o : EncOpts} {co : COpts}

/-- the code of the type a pointer field points to, as a function of its start position -/
def elemCode (co : COpts) (lib : LibCode) (tab : List GoType) (t : GoType) (sp : Nat) (pv : Bool) : Nat → Program :=
  fun pc' => match t with | .ptr e => code co lib tab pc' sp pv e | _ => []

/-- the value part of a field's code (compiler.go:506-510) -/
def fieldValCode (co : COpts) (lib : LibCode) (tab : List GoType) (f : Field) (t : GoType) (sp : Nat) (pv : Bool) (vpc : Nat) : Program :=
  if f.quoted then
    strCode t (fun pc' => code co lib tab pc' sp pv t) (elemCode co lib tab t sp pv) vpc
  else code co lib tab vpc sp pv t

/-- what the specification writes for the member's value -/
def fieldSpec (o : EncOpts) (addr : Bool) (f : Field) (t : GoType) (v : GoVal) : Except EErr JVal :=
  if f.quoted then quotedVal o t v else encV o addr t v

theorem strCode_nonptr {t : GoType} (h : ∀ e, t ≠ .ptr e) (w el : Nat → Program) (pc : Nat) :
    strCode t w el pc = (if stringable t then (if isStrT t then [Instr.quote] else [Instr.byte 34] ++ w (pc + 1) ++ [Instr.byte 34]) else w pc) := by
  cases t <;> first | rfl | exact absurd rfl (h _)

theorem quotedVal_nonptr {t : GoType} (h : ∀ e, t ≠ .ptr e) (v : GoVal) : quotedVal o t v = quotedLeaf o t v := by
  cases t <;> first | (simp only [quotedVal]; done) | exact absurd rfl (h _)

theorem regs_p_self (r : Regs) : ({ r with p := r.p } : Regs) = r := by cases r; rfl

theorem fieldVal_ok {c0 : COpts} {t : GoType} {v : GoVal} {f : Field} {addr fpv : Bool} {P : Program} {sp : Nat} {pv : Bool} {lv : Nat} {tab : List GoType}
    (hlv : libLeft tab ≤ lv) (hC : Conf c0 t v = true) (hq : f.quoted = true → quotedOK t = true) (hns : (f.quoted && strLike t) = false)
    (hv : CodeOK o co t v) (hw : ∀ e w, t = .ptr e → v = .ptr w → stringable e = true → CodeOK o co e w)
    (vpc : Nat) (r1 : Regs) (hg : r1.p.get = some v) (st : Stack) (b : Bytes) (hroom : st.length + needV t v ≤ maxStack)
    (hat : At P vpc (fieldValCode co (libK co lv) tab f t sp pv vpc)) :
    (∀ j, fieldSpec o addr f t v = .ok j → ∀ res,
        (∀ c', Halts o co fpv P (vpc + (fieldValCode co (libK co lv) tab f t sp pv vpc).length) { r1 with p := c' } st (b ++ render j) res) →
        Halts o co fpv P vpc r1 st b res) ∧
    (∀ e, fieldSpec o addr f t v = .error e → e = .unsupportedValue ∧ Halts o co fpv P vpc r1 st b (.error (.enc e))) := by
  unfold fieldValCode elemCode at hat ⊢
  unfold fieldSpec
  cases hfq : f.quoted with
  | false =>
    simp only [hfq, Bool.false_eq_true, if_false] at hat ⊢
    obtain ⟨h1, h2⟩ := hv lv tab hlv addr fpv P vpc sp pv r1 st b hat hg hroom
    refine ⟨fun j hj res h => h1 j hj res ?_, h2⟩
    exact halts_cast (h r1.p) rfl (regs_p_self r1).symm rfl rfl
  | true =>
    simp only [hfq, if_true] at hat ⊢
    have hqo := hq hfq
    simp only [hfq, Bool.true_and] at hns
    by_cases hp : ∃ e, t = .ptr e
    · obtain ⟨e, rfl⟩ := hp
      have hst : stringable e = true := hqo
      have hns' : isStrT e = false := by
        cases e <;> first | rfl | (simp [strLike] at hns)
      simp only [strCode, hst, hns', if_true, Bool.false_eq_true, if_false] at hat ⊢
      generalize hc : code co (libK co lv) tab (vpc + 3) sp pv e = c at hat ⊢
      have hA : At P vpc [Instr.isNil (vpc + 2 + ([Instr.byte 34] ++ c ++ [Instr.byte 34]).length + 1), Instr.deref] := hat.left.left
      have hI : At P (vpc + 2) ([Instr.byte 34] ++ c ++ [Instr.byte 34]) := At.right' hat.left (by simp)
      have hE : At P (vpc + 2 + ([Instr.byte 34] ++ c ++ [Instr.byte 34]).length)
          [Instr.goto (vpc + 2 + ([Instr.byte 34] ++ c ++ [Instr.byte 34]).length + 2), Instr.null] := At.right' hat (by simp <;> omega)
      cases v <;> try (simp [Conf] at hC; done)
      case nil =>
        simp only [quotedVal]
        constructor
        · intro j hj res h
          injection hj with hj; subst hj
          refine halts_step (hA.get 0 (by omega) rfl) (by simp only [step, hg, jumpIf]; rfl) ?_
          refine halts_step (hE.get 1 (by omega) rfl) (by simp only [step]; rfl) ?_
          exact halts_cast (h r1.p) (by simp <;> omega) (regs_p_self r1).symm rfl rfl
        · intro e' he; cases he
      case ptr w =>
        simp only [Conf] at hC
        simp only [quotedVal]
        have hB : At P (vpc + 3) c := At.right' hI.left (by simp)
        have hQ : At P (vpc + 3 + c.length) [Instr.byte 34] := At.right' hI (by simp <;> omega)
        obtain ⟨h1, h2⟩ := hw e w rfl rfl hst lv tab hlv addr fpv P (vpc + 3) sp pv { r1 with p := .val w } st (b ++ [34]) (hc ▸ hB) rfl
          (by simp only [needV] at hroom; omega)
        rw [hc] at h1
        have hql := quotedLeaf_eq (o := o) addr hst hns' hC
        constructor
        · intro j hj res h
          rw [hj] at hql
          cases hev : encV o addr e w with
          | error e' => rw [hev] at hql; cases hql
          | ok j' =>
            rw [hev] at hql
            simp only [Except.map] at hql
            injection hql with hql
            refine halts_step (hA.get 0 (by omega) rfl) (by simp only [step, hg, jumpIf]; rfl) ?_
            refine halts_step (hA.get 1 (by omega) rfl) (by simp only [step, hg]; rfl) ?_
            refine halts_step (hI.get 0 (by omega) rfl) (by simp only [step]; rfl) ?_
            refine halts_cast (h1 j' hev res ?_) (by omega) rfl rfl rfl
            refine halts_step (hQ.get 0 (by omega) rfl) (by simp only [step]; rfl) ?_
            refine halts_step (hE.get 0 (by simp <;> omega) rfl) (by simp only [step]; rfl) ?_
            exact halts_cast (h (.val w)) (by simp <;> omega) rfl rfl (by rw [hql]; simp)
        · intro e' hj
          rw [hj] at hql
          cases hev : encV o addr e w with
          | ok j' => rw [hev] at hql; cases hql
          | error e'' =>
            rw [hev] at hql
            simp only [Except.map] at hql
            injection hql with hql
            subst hql
            obtain ⟨h3, h4⟩ := h2 _ hev
            refine ⟨h3, ?_⟩
            refine halts_step (hA.get 0 (by omega) rfl) (by simp only [step, hg, jumpIf]; rfl) ?_
            refine halts_step (hA.get 1 (by omega) rfl) (by simp only [step, hg]; rfl) ?_
            refine halts_step (hI.get 0 (by omega) rfl) (by simp only [step]; rfl) ?_
            exact halts_cast h4 (by omega) rfl rfl rfl
    · have hnp : ∀ e, t ≠ .ptr e := fun e he => hp ⟨e, he⟩
      have hst : stringable t = true := by
        cases t <;> first | exact hqo | exact absurd rfl (hnp _)
      have hns' : isStrT t = false := by
        cases t <;> first | rfl | (simp [strLike] at hns)
      rw [strCode_nonptr hnp] at hat ⊢
      rw [quotedVal_nonptr hnp]
      simp only [hst, hns', if_true, Bool.false_eq_true, if_false] at hat ⊢
      have hA : At P vpc [Instr.byte 34] := hat.left.left
      have hB : At P (vpc + 1) (code co (libK co lv) tab (vpc + 1) sp pv t) := At.right' hat.left (by simp)
      have hE : At P (vpc + 1 + (code co (libK co lv) tab (vpc + 1) sp pv t).length) [Instr.byte 34] := At.right' hat (by simp <;> omega)
      obtain ⟨h1, h2⟩ := hv lv tab hlv addr fpv P (vpc + 1) sp pv r1 st (b ++ [34]) hB hg hroom
      have hql := quotedLeaf_eq (o := o) addr hst hns' hC
      constructor
      · intro j hj res h
        rw [hj] at hql
        cases hev : encV o addr t v with
        | error e => rw [hev] at hql; cases hql
        | ok j' =>
          rw [hev] at hql
          simp only [Except.map] at hql
          injection hql with hql
          refine halts_step (hA.get 0 (by omega) rfl) (by simp only [step]; rfl) ?_
          refine h1 j' hev res ?_
          refine halts_step (hE.get 0 (by omega) rfl) (by simp only [step]; rfl) ?_
          exact halts_cast (h r1.p) (by simp <;> omega) (regs_p_self r1).symm rfl (by rw [hql]; simp)
      · intro e hj
        rw [hj] at hql
        cases hev : encV o addr t v with
        | ok j' => rw [hev] at hql; cases hql
        | error e' =>
          rw [hev] at hql
          simp only [Except.map] at hql
          injection hql with hql
          subst hql
          obtain ⟨h3, h4⟩ := h2 _ hev
          refine ⟨h3, ?_⟩
          refine halts_step (hA.get 0 (by omega) rfl) (by simp only [step]; rfl) ?_
          exact h4


/-- the skipping tests of one field (compiler.go:478-493): both jump to `done` -/
def fieldTests (te : Option (Nat → Instr)) (z : Bool) (done : Nat) : Program :=
  (match te with | some mk => [mk done] | none => []) ++ (if z then [Instr.isZero done] else [])

theorem fieldTests_length (te : Option (Nat → Instr)) (z : Bool) (done : Nat) :
    (fieldTests te z done).length = (if te.isSome then 1 else 0) + (if z then 1 else 0) := by
  cases te <;> cases z <;> rfl

theorem tests_ok {v : GoVal} {fpv : Bool} {P : Program} (te : Option (Nat → Instr)) (z : Bool) (done q : Nat) (c1 : Bool)
    (r1 : Regs) (hg : r1.p.get = some v) (st : Stack) (b : Bytes)
    (he : ∀ mk, te = some mk → ∀ pc r s b, r.p.get = some v → step o (mk done) pc r s b = jumpIf c1 done pc r s b)
    (hat : At P q (fieldTests te z done)) :
    (((te.isSome && c1) || (z && isZeroV v)) = true → ∀ res, Halts o co fpv P done r1 st b res → Halts o co fpv P q r1 st b res) ∧
    (((te.isSome && c1) || (z && isZeroV v)) = false → ∀ res,
        Halts o co fpv P (q + (fieldTests te z done).length) r1 st b res → Halts o co fpv P q r1 st b res) := by
  have hz : ∀ pc, step o (Instr.isZero done) pc r1 st b = jumpIf (isZeroV v) done pc r1 st b := by
    intro pc; simp only [step, hg]
  cases te with
  | none =>
    cases z with
    | false =>
      constructor
      · intro h; simp at h
      · intro _ res h
        exact halts_cast h (by simp [fieldTests]) rfl rfl rfl
    | true =>
      simp only [fieldTests, if_true, List.nil_append] at hat ⊢
      simp only [Option.isSome_none, Bool.false_and, Bool.false_or, Bool.true_and]
      constructor
      · intro hc res h
        exact halts_step (hat.get 0 (by omega) rfl) (by rw [hz, hc]; rfl) h
      · intro hc res h
        exact halts_step (hat.get 0 (by omega) rfl) (by rw [hz, hc]; rfl) h
  | some mk =>
    have h1 := he mk rfl
    cases z with
    | false =>
      simp only [fieldTests, Bool.false_eq_true, if_false, List.append_nil] at hat ⊢
      simp only [Option.isSome_some, Bool.true_and, Bool.false_and, Bool.or_false]
      constructor
      · intro hc res h
        exact halts_step (hat.get 0 (by omega) rfl) (by rw [h1 _ _ _ _ hg, hc]; rfl) h
      · intro hc res h
        exact halts_step (hat.get 0 (by omega) rfl) (by rw [h1 _ _ _ _ hg, hc]; rfl) h
    | true =>
      simp only [fieldTests, if_true] at hat ⊢
      simp only [Option.isSome_some, Bool.true_and]
      constructor
      · intro hc res h
        cases hc1 : c1 with
        | true => exact halts_step (hat.get 0 (by omega) rfl) (by rw [h1 _ _ _ _ hg, hc1]; rfl) h
        | false =>
          rw [hc1] at hc
          simp only [Bool.false_or] at hc
          refine halts_step (hat.get 0 (by omega) rfl) (by rw [h1 _ _ _ _ hg, hc1]; rfl) ?_
          exact halts_step (hat.get 1 (by omega) rfl) (by rw [hz, hc]; rfl) h
      · intro hc res h
        simp only [Bool.or_eq_false_iff] at hc
        refine halts_step (hat.get 0 (by omega) rfl) (by rw [h1 _ _ _ _ hg, hc.1]; rfl) ?_
        exact halts_step (hat.get 1 (by omega) rfl) (by rw [hz, hc.2]; rfl) h


theorem fieldCode_eq (lv : Nat) (tab : List GoType) (f : Field) (t : GoType) (sp : Nat) (pv : Bool) (i off pc : Nat) :
    fieldCode co f t (fun pc' => code co (libK co lv) tab pc' sp pv t) (elemCode co (libK co lv) tab t sp pv) i off pc =
    if skipField f t then []
    else
      let te := omitTest co f t
      let vpc := pc + 1 + ((if te.isSome then 1 else 0) + (if f.omitZero then 1 else 0)) + 3
      let done := vpc + (fieldValCode co (libK co lv) tab f t sp pv vpc).length
      [Instr.index i off] ++ fieldTests te f.omitZero done ++ [Instr.condTestc (vpc - 1), Instr.byte 44, Instr.key f.name] ++
        fieldValCode co (libK co lv) tab f t sp pv vpc ++ [Instr.load] := by
  unfold fieldCode fieldTests fieldValCode elemCode
  rfl

theorem skipField_true {f : Field} {t : GoType} (h : skipField f t = true) : f.omitEmpty = true ∧ ∃ e, t = .arr 0 e := by
  unfold skipField at h
  split at h
  · exact ⟨h, _, rfl⟩
  · cases h

theorem regs_load_cond (fr : Regs) (c : Bool) (p' : Cur) :
    ({ ({ fr with cond := c, p := p' } : Regs) with x := fr.x, p := fr.p, q := fr.q } : Regs) = { fr with cond := c } := by
  cases fr; rfl


/-- the specification skips the member -/
def fieldSkip (f : Field) (t : GoType) (v : GoVal) : Bool := (f.omitEmpty && isEmptyV t v) || (f.omitZero && isZeroV v)

/-- one iteration of the loop of compileStructBody -/
theorem field_ok {f : Field} {t : GoType} {v : GoVal} {vs : List GoVal} {i off : Nat} {addr fpv : Bool} {P : Program} {sp : Nat} {pv : Bool} {lv : Nat} {tab : List GoType}
    (hlv : libLeft tab ≤ lv) (hon : omitNullOK co f t v = true)
    (hC : Conf co t v = true) (hnz : (f.omitEmpty && negZero v) = false)
    (hq : f.quoted = true → quotedOK t = true) (hns : (f.quoted && strLike t) = false)
    (hv : CodeOK o co t v) (hw : ∀ e w, t = .ptr e → v = .ptr w → stringable e = true → CodeOK o co e w)
    (fr : Regs) (hfr : fr.p.get = some (.st vs)) (hi : vs[i]? = some v) (s : Stack) (hroom : (fr :: s).length + needV t v ≤ maxStack)
    (pc : Nat) (c : Bool) (b : Bytes)
    (hat : At P pc (fieldCode co f t (fun pc' => code co (libK co lv) tab pc' sp pv t) (elemCode co (libK co lv) tab t sp pv) i off pc)) :
    (fieldSkip f t v = true → ∀ res,
      Halts o co fpv P (pc + (fieldCode co f t (fun pc' => code co (libK co lv) tab pc' sp pv t) (elemCode co (libK co lv) tab t sp pv) i off pc).length)
        { fr with cond := c } (fr :: s) b res → Halts o co fpv P pc { fr with cond := c } (fr :: s) b res) ∧
    (fieldSkip f t v = false →
      (∀ j, fieldSpec o addr f t v = .ok j → ∀ res,
        Halts o co fpv P (pc + (fieldCode co f t (fun pc' => code co (libK co lv) tab pc' sp pv t) (elemCode co (libK co lv) tab t sp pv) i off pc).length)
          { fr with cond := false } (fr :: s) (b ++ ((if c then [] else [44]) ++ memb (nameKey o f.name, j))) res →
        Halts o co fpv P pc { fr with cond := c } (fr :: s) b res) ∧
      (∀ e, fieldSpec o addr f t v = .error e → e = .unsupportedValue ∧
        Halts o co fpv P pc { fr with cond := c } (fr :: s) b (.error (.enc e)))) := by
  rw [fieldCode_eq] at hat ⊢
  by_cases hsk : skipField f t = true
  · -- `[0]T` with omitempty: no code, and the specification omits it too
    obtain ⟨hom, e, rfl⟩ := skipField_true hsk
    have hskip : fieldSkip f (.arr 0 e) v = true := by
      cases v <;> try (simp [Conf] at hC; done)
      rename_i xs
      simp only [Conf, Bool.and_eq_true, beq_iff_eq] at hC
      have : xs = [] := List.length_eq_zero_iff.mp hC.1
      subst this
      simp [fieldSkip, hom, isEmptyV]
    simp only [hsk, if_true, List.length_nil, Nat.add_zero]
    exact ⟨fun _ res h => h, fun h => by rw [hskip] at h; cases h⟩
  · have hsk' : skipField f t = false := by simpa using hsk
    simp only [hsk', Bool.false_eq_true, if_false] at hat ⊢
    generalize hte : omitTest co f t = te at hat ⊢
    generalize hvpc : pc + 1 + ((if te.isSome then 1 else 0) + (if f.omitZero then 1 else 0)) + 3 = vpc at hat ⊢
    generalize hval : fieldValCode co (libK co lv) tab f t sp pv vpc = val at hat ⊢
    have htl := fieldTests_length te f.omitZero (vpc + val.length)
    -- the pieces
    have hI : At P pc [Instr.index i off] := hat.left.left.left.left
    have hT : At P (pc + 1) (fieldTests te f.omitZero (vpc + val.length)) := At.right' hat.left.left.left (by simp)
    have hM : At P (vpc - 3) [Instr.condTestc (vpc - 1), Instr.byte 44, Instr.key f.name] :=
      At.right' hat.left.left (by simp only [List.length_append, htl]; simp; omega)
    have hV : At P vpc val := At.right' hat.left (by simp only [List.length_append, htl]; simp; omega)
    have hL : At P (vpc + val.length) [Instr.load] := At.right' hat (by simp only [List.length_append, htl]; simp; omega)
    have hlen : pc + ([Instr.index i off] ++ fieldTests te f.omitZero (vpc + val.length) ++ [Instr.condTestc (vpc - 1), Instr.byte 44, Instr.key f.name] ++
        val ++ [Instr.load]).length = vpc + val.length + 1 := by
      simp only [List.length_append, htl]; simp; omega
    rw [hlen]
    -- index
    have hidx : ∀ bb, step o (Instr.index i off) pc { fr with cond := c } (fr :: s) bb =
        .next (pc + 1) { fr with cond := c, p := .val v } (fr :: s) bb := by
      intro bb
      simp only [step, hfr, hi]
    have hload : ∀ cc p' bb, step o Instr.load (vpc + val.length) { fr with cond := cc, p := p' } (fr :: s) bb =
        .next (vpc + val.length + 1) { fr with cond := cc } (fr :: s) bb := by
      intro cc p' bb
      simp only [step]
    -- the tests decide `fieldSkip`
    have he : ∀ mk, te = some mk → ∀ pc r s b, r.p.get = some v →
        step o (mk (vpc + val.length)) pc r s b =
          jumpIf (if co.encOnlyOmitNull then isNilV v else isEmptyV t v) (vpc + val.length) pc r s b := by
      intro mk hmk pc r s b hg
      rw [← hte] at hmk
      unfold omitTest at hmk
      cases hom : f.omitEmpty with
      | false => rw [hom] at hmk; simp at hmk
      | true =>
        rw [hom] at hmk hnz
        cases hnull : co.encOnlyOmitNull with
        | false =>
          simp only [if_true, hnull, Bool.false_eq_true, if_false] at hmk ⊢
          exact emptyTest_step hC (by simpa using hnz) hmk _ _ _ _ _ hg
        | true =>
          simp only [if_true, hnull] at hmk ⊢
          exact nilTest_step hmk _ _ _ _ _ hg
    have hskipEq : ((te.isSome && (if co.encOnlyOmitNull then isNilV v else isEmptyV t v)) || (f.omitZero && isZeroV v)) = fieldSkip f t v := by
      unfold fieldSkip
      congr 1
      rw [← hte]
      unfold omitTest
      cases hom : f.omitEmpty with
      | false => simp
      | true =>
        cases hnull : co.encOnlyOmitNull with
        | false =>
          simp only [if_true, Bool.false_eq_true, if_false, Bool.true_and]
          cases hem : emptyTest t with
          | some mk => simp
          | none => simp [emptyTest_none hC hem hsk' hom]
        | true =>
          simp only [if_true, Bool.true_and]
          unfold omitNullOK at hon
          simp only [hnull, hom, hsk', Bool.not_true, Bool.false_or, beq_iff_eq] at hon
          rw [hon]
    obtain ⟨tskip, tkeep⟩ := tests_ok (o := o) (co := co) (fpv := fpv) (P := P) te f.omitZero (vpc + val.length) (pc + 1) (if co.encOnlyOmitNull then isNilV v else isEmptyV t v)
      { fr with cond := c, p := .val v } rfl (fr :: s) b he hT
    rw [hskipEq] at tskip tkeep
    constructor
    · intro hs res h
      refine halts_step (hI.get 0 (by omega) rfl) (hidx _) ?_
      refine tskip hs res ?_
      exact halts_step (hL.get 0 (by omega) rfl) (hload _ _ _) h
    · intro hs
      -- up to the value: the comma unless first, the key
      have pre : ∀ res, Halts o co fpv P vpc { fr with cond := false, p := .val v } (fr :: s)
            (b ++ (if c then [] else [44]) ++ 34 :: (nameKey o f.name ++ [34, 58])) res →
          Halts o co fpv P pc { fr with cond := c } (fr :: s) b res := by
        intro res h
        refine halts_step (hI.get 0 (by omega) rfl) (hidx _) ?_
        refine tkeep hs res ?_
        rw [htl]
        cases c with
        | true =>
          refine halts_step (hM.get 0 (by omega) rfl) (by simp only [step]; rfl) ?_
          refine halts_step (hM.get 2 (by omega) rfl) (by simp only [step]; rfl) ?_
          exact halts_cast h (by omega) rfl rfl (by simp)
        | false =>
          refine halts_step (hM.get 0 (by omega) rfl) (by simp only [step]; rfl) ?_
          refine halts_step (hM.get 1 (by omega) rfl) (by simp only [step]; rfl) ?_
          refine halts_step (hM.get 2 (by omega) rfl) (by simp only [step]; rfl) ?_
          exact halts_cast h (by omega) rfl rfl (by simp)
      obtain ⟨vok, verr⟩ := fieldVal_ok (o := o) (co := co) (addr := addr) (fpv := fpv) (P := P) (sp := sp) (pv := pv) hlv hC hq hns hv hw vpc
        { fr with cond := false, p := .val v } rfl (fr :: s) (b ++ (if c then [] else [44]) ++ 34 :: (nameKey o f.name ++ [34, 58])) hroom (hval ▸ hV)
      rw [hval] at vok
      constructor
      · intro j hj res h
        refine pre res (vok j hj res (fun c' => ?_))
        refine halts_step (hL.get 0 (by omega) rfl) (hload _ _ _) ?_
        exact halts_cast h rfl rfl rfl (by simp [memb])
      · intro e hj
        obtain ⟨h1, h2⟩ := verr e hj
        exact ⟨h1, pre _ h2⟩

end SonicSpec.Ir
