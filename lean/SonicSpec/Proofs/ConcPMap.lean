/-
  Helper lemmas for the open-addressing program map (Model/ConcPMap.lean):
  the structural invariant `WF`, the load-factor invariant `Inv`, and the
  characterisation of `get` / `insert` / `rehash` / `add` through `Mem`.
-/
import SonicSpec.Model.ConcPMap
set_option linter.unusedSectionVars false
set_option linter.unusedVariables false
namespace SonicSpec.Conc.PMap
variable {κ γ : Type} [DecidableEq κ]

abbrev Buckets (κ γ : Type) := List (Option (κ × γ))

/-- walking from bucket `p` over occupied buckets (step `(p+1) % c`) reaches `i` within `f` probes -/
def Path (b : Buckets κ γ) (c : Nat) : Nat → Nat → Nat → Prop
  | 0, _, _ => False
  | f + 1, p, i => p = i ∨ ((slot b p).isSome = true ∧ Path b c f ((p + 1) % c) i)

/-- `(k,v)` is stored in some bucket -/
def Mem (m : PMap κ γ) (k : κ) (v : γ) : Prop := ∃ i, slot m.b i = some (k, v)

/-- structural invariant: capacity a power of two, `len(b) = m+1`, `n` counts the occupied buckets,
    no key twice, no tombstones: every entry is reachable from its home bucket over occupied buckets -/
structure WF (hash : κ → Nat) (m : PMap κ γ) : Prop where
  pow2 : ∃ e, m.mask + 1 = 2 ^ e
  len : m.b.length = m.mask + 1
  cnt : m.n = m.b.countP Option.isSome
  distinct : ∀ i j k v v', slot m.b i = some (k, v) → slot m.b j = some (k, v') → i = j
  reach : ∀ i k v, slot m.b i = some (k, v) →
    Path m.b (m.mask + 1) (m.mask + 1) (hash k % (m.mask + 1)) i

/-- the invariant of every published table: `WF` and load factor ≤ 1/2 (`_LoadFactor`) -/
def Inv (hash : κ → Nat) (m : PMap κ γ) : Prop := WF hash m ∧ 2 * m.n ≤ m.mask + 1

theorem and_mask {mask e : Nat} (h : mask + 1 = 2 ^ e) (x : Nat) : x &&& mask = x % (mask + 1) := by
  have hm : mask = 2 ^ e - 1 := by omega
  rw [h, hm]
  exact Nat.and_two_pow_sub_one_eq_mod x e

theorem slot_lt {b : Buckets κ γ} {p : Nat} {x : κ × γ} (h : slot b p = some x) : p < b.length := by
  unfold slot at h
  by_cases hp : p < b.length
  · exact hp
  · rw [List.getElem?_eq_none (by omega)] at h
    simp at h

theorem slot_set (b : Buckets κ γ) (q p : Nat) (e : Option (κ × γ)) :
    slot (b.set q e) p = if q = p ∧ q < b.length then e else slot b p := by
  unfold slot
  rw [List.getElem?_set]
  by_cases hqp : q = p
  · subst hqp
    by_cases hl : q < b.length
    · simp [hl]
    · simp [hl]
  · simp [hqp]

theorem slot_replicate (c p : Nat) : slot (List.replicate c (none : Option (κ × γ))) p = none := by
  unfold slot
  rw [List.getElem?_replicate]
  split <;> rfl

theorem probeGet_sound (b : Buckets κ γ) (mask : Nat) (k : κ) (v : γ) :
    ∀ f p, probeGet b mask k f p = some v → ∃ i, slot b i = some (k, v) := by
  intro f
  induction f with
  | zero => intro p h; simp [probeGet] at h
  | succ f ih =>
    intro p h
    unfold probeGet at h
    split at h
    · rename_i k' v' hs
      split at h
      · rename_i hk
        subst hk
        cases h
        exact ⟨p, hs⟩
      · exact ih _ h
    · cases h

theorem probeGet_complete (b : Buckets κ γ) (mask c : Nat) (hm : ∀ x, x &&& mask = x % c)
    (hd : ∀ i j k v v', slot b i = some (k, v) → slot b j = some (k, v') → i = j)
    (k : κ) (v : γ) (i : Nat) (hi : slot b i = some (k, v)) :
    ∀ f p, Path b c f p i → probeGet b mask k f p = some v := by
  intro f
  induction f with
  | zero => intro p h; exact absurd h (by simp [Path])
  | succ f ih =>
    intro p h
    unfold probeGet
    unfold Path at h
    split
    · rename_i k' v' hs
      split
      · rename_i hk
        subst hk
        have := hd p i k' v' v hs hi
        subst this
        rw [hs] at hi
        cases hi
        rfl
      · rename_i hk
        rcases h with h | ⟨_, h⟩
        · subst h
          rw [hs] at hi
          cases hi
          exact absurd rfl hk
        · rw [hm]
          exact ih _ h
    · rename_i hs
      rcases h with h | ⟨ho, _⟩
      · subst h
        rw [hs] at hi
        cases hi
      · rw [hs] at ho
        cases ho

theorem probeFree_some (b : Buckets κ γ) (mask c : Nat) (hm : ∀ x, x &&& mask = x % c) (q : Nat) :
    ∀ f p, probeFree b mask f p = some q → slot b q = none ∧ Path b c f p q := by
  intro f
  induction f with
  | zero => intro p h; simp [probeFree] at h
  | succ f ih =>
    intro p h
    unfold probeFree at h
    split at h
    · rename_i x hs
      rw [hm] at h
      have := ih _ h
      refine ⟨this.1, ?_⟩
      unfold Path
      exact Or.inr ⟨by rw [hs]; rfl, this.2⟩
    · rename_i hs
      cases h
      exact ⟨hs, by unfold Path; exact Or.inl rfl⟩

theorem probeFree_none (b : Buckets κ γ) (mask c : Nat) (hc : 0 < c) (hm : ∀ x, x &&& mask = x % c) :
    ∀ f p, p < c → probeFree b mask f p = none → ∀ j, j < f → (slot b ((p + j) % c)).isSome = true := by
  intro f
  induction f with
  | zero => intro p _ _ j hj; omega
  | succ f ih =>
    intro p hp h j hj
    unfold probeFree at h
    split at h
    · rename_i x hs
      rw [hm] at h
      cases j with
      | zero =>
        rw [Nat.add_zero, Nat.mod_eq_of_lt hp, hs]
        rfl
      | succ j =>
        have := ih ((p + 1) % c) (Nat.mod_lt _ hc) h j (by omega)
        rw [Nat.mod_add_mod] at this
        have e : p + (j + 1) = p + 1 + j := by omega
        rw [e]
        exact this
    · cases h

/-- a table that is not full always yields a free bucket within `c` probes -/
theorem probeFree_exists (b : Buckets κ γ) (mask c : Nat) (hc : 0 < c) (hm : ∀ x, x &&& mask = x % c)
    (hl : b.length = c) (hn : b.countP Option.isSome < c) (p : Nat) (hp : p < c) :
    ∃ q, probeFree b mask c p = some q := by
  cases hq : probeFree b mask c p with
  | some q => exact ⟨q, rfl⟩
  | none =>
    exfalso
    have hall := probeFree_none b mask c hc hm c p hp hq
    have : b.countP Option.isSome = b.length := by
      rw [List.countP_eq_length]
      intro a ha
      obtain ⟨i, hi, hia⟩ := List.getElem_of_mem ha
      have hic : i < c := by omega
      have h1 := hall ((i + c - p) % c) (Nat.mod_lt _ hc)
      rw [Nat.add_mod_mod] at h1
      have e : p + (i + c - p) = i + c := by omega
      rw [e, Nat.add_mod_right, Nat.mod_eq_of_lt hic] at h1
      unfold slot at h1
      rw [List.getElem?_eq_getElem hi, hia] at h1
      exact h1
    omega

theorem Path_mono (b : Buckets κ γ) (c q : Nat) (e : κ × γ) (hq : slot b q = none) (i : Nat) :
    ∀ f p, Path b c f p i → Path (b.set q (some e)) c f p i := by
  intro f
  induction f with
  | zero => intro p h; exact h
  | succ f ih =>
    intro p h
    unfold Path at h ⊢
    rcases h with h | ⟨ho, h⟩
    · exact Or.inl h
    · refine Or.inr ⟨?_, ih _ h⟩
      rw [slot_set]
      split
      · rfl
      · exact ho

theorem wf_empty (hash : κ → Nat) (e : Nat) : WF hash (empty (2 ^ e) : PMap κ γ) := by
  have hp : 0 < 2 ^ e := Nat.two_pow_pos e
  refine ⟨⟨e, ?_⟩, ?_, ?_, ?_, ?_⟩
  · simp only [empty]; omega
  · simp only [empty, List.length_replicate]; omega
  · simp only [empty]
    rw [List.countP_replicate]
    simp
  · intro i j k v v' h
    simp only [empty, slot_replicate] at h
    cases h
  · intro i k v h
    simp only [empty, slot_replicate] at h
    cases h

theorem inv_empty (hash : κ → Nat) (e : Nat) : Inv hash (empty (2 ^ e) : PMap κ γ) :=
  ⟨wf_empty hash e, by simp [empty]⟩

theorem mem_empty (c : Nat) (k : κ) (v : γ) : ¬ Mem (empty c : PMap κ γ) k v := by
  intro ⟨i, h⟩
  simp only [empty, slot_replicate] at h
  cases h

/-- `get` finds exactly what is stored -/
theorem get_iff (hash : κ → Nat) (m : PMap κ γ) (h : WF hash m) (k : κ) (v : γ) :
    get hash m k = some v ↔ Mem m k v := by
  obtain ⟨e, he⟩ := h.pow2
  constructor
  · intro hg
    exact probeGet_sound _ _ _ _ _ _ hg
  · intro ⟨i, hi⟩
    unfold get
    rw [and_mask he]
    exact probeGet_complete m.b m.mask (m.mask + 1) (and_mask he) h.distinct k v i hi _ _ (h.reach i k v hi)

theorem get_none_iff (hash : κ → Nat) (m : PMap κ γ) (h : WF hash m) (k : κ) :
    get hash m k = none ↔ ∀ v, ¬ Mem m k v := by
  constructor
  · intro hg v hm
    rw [(get_iff hash m h k v).2 hm] at hg
    cases hg
  · intro hn
    cases hg : get hash m k with
    | none => rfl
    | some v => exact absurd ((get_iff hash m h k v).1 hg) (hn v)

/-- stored values are functional in the key -/
theorem mem_unique (hash : κ → Nat) (m : PMap κ γ) (h : WF hash m) {k : κ} {v v' : γ}
    (h1 : Mem m k v) (h2 : Mem m k v') : v = v' := by
  obtain ⟨i, hi⟩ := h1
  obtain ⟨j, hj⟩ := h2
  have := h.distinct i j k v v' hi hj
  subst this
  rw [hi] at hj
  cases hj
  rfl

/-- `insert` of a fresh key into a table that is not full: lands in a free bucket, never panics -/
theorem insert_spec (hash : κ → Nat) (m : PMap κ γ) (h : WF hash m) (hn : m.n < m.mask + 1)
    (k : κ) (v : γ) (hf : ∀ v', ¬ Mem m k v') :
    WF hash (insert hash m k v) ∧ (insert hash m k v).n = m.n + 1 ∧
    (insert hash m k v).mask = m.mask ∧
    (∀ k' v', Mem (insert hash m k v) k' v' ↔ ((k' = k ∧ v' = v) ∨ Mem m k' v')) := by
  obtain ⟨e, he⟩ := h.pow2
  have hm := and_mask he
  have hc : 0 < m.mask + 1 := by omega
  obtain ⟨q, hq⟩ := probeFree_exists m.b m.mask (m.mask + 1) hc hm h.len (by rw [← h.cnt]; exact hn)
    (hash k % (m.mask + 1)) (Nat.mod_lt _ hc)
  have hins : insert hash m k v = { m with b := m.b.set q (some (k, v)), n := m.n + 1 } := by
    unfold insert
    rw [hm, hq]
  obtain ⟨hqn, hpath⟩ := probeFree_some m.b m.mask (m.mask + 1) hm q _ _ hq
  have hql : q < m.b.length := by
    -- the probe stays below the capacity
    by_cases hql : q < m.b.length
    · exact hql
    · exfalso
      -- a path from a position < c only visits positions < c
      have : ∀ f p, p < m.mask + 1 → Path m.b (m.mask + 1) f p q → q < m.mask + 1 := by
        intro f
        induction f with
        | zero => intro p _ hp; exact absurd hp (by simp [Path])
        | succ f ih =>
          intro p hp hpa
          unfold Path at hpa
          rcases hpa with hpa | ⟨_, hpa⟩
          · omega
          · exact ih _ (Nat.mod_lt _ hc) hpa
      have := this _ _ (Nat.mod_lt _ hc) hpath
      rw [h.len] at hql
      omega
  rw [hins]
  have hslot : ∀ p, slot (m.b.set q (some (k, v))) p = if q = p then some (k, v) else slot m.b p := by
    intro p
    rw [slot_set]
    by_cases hqp : q = p
    · subst hqp; simp [hql]
    · simp [hqp]
  have hmem : ∀ k' v', Mem ({ m with b := m.b.set q (some (k, v)), n := m.n + 1 } : PMap κ γ) k' v' ↔
      ((k' = k ∧ v' = v) ∨ Mem m k' v') := by
    intro k' v'
    constructor
    · intro ⟨i, hi⟩
      simp only [hslot] at hi
      split at hi
      · cases hi
        exact Or.inl ⟨rfl, rfl⟩
      · exact Or.inr ⟨i, hi⟩
    · intro hh
      rcases hh with ⟨hk, hv⟩ | ⟨i, hi⟩
      · subst hk; subst hv
        exact ⟨q, by simp only [hslot]; simp⟩
      · refine ⟨i, ?_⟩
        simp only [hslot]
        split
        · rename_i hqi
          subst hqi
          rw [hqn] at hi
          cases hi
        · exact hi
  refine ⟨⟨⟨e, he⟩, ?_, ?_, ?_, ?_⟩, rfl, rfl, hmem⟩
  · simp only [List.length_set]
    exact h.len
  · simp only
    rw [List.countP_set hql]
    have hqe : m.b[q] = none := by
      have := hqn
      unfold slot at this
      rw [List.getElem?_eq_getElem hql] at this
      simpa using this
    rw [hqe, h.cnt]
    simp
  · intro i j k' v1 v2 hi hj
    simp only [hslot] at hi hj
    split at hi
    · rename_i hqi
      cases hi
      split at hj
      · omega
      · exact absurd ⟨j, hj⟩ (hf _)
    · split at hj
      · cases hj
        exact absurd ⟨i, hi⟩ (hf _)
      · exact h.distinct i j k' v1 v2 hi hj
  · intro i k' v' hi
    simp only [hslot] at hi
    simp only
    split at hi
    · rename_i hqi
      cases hi
      subst hqi
      exact Path_mono m.b _ q (k, v) hqn q _ _ hpath
    · exact Path_mono m.b _ q (k, v) hqn i _ _ (h.reach i k' v' hi)

/-- folding `insert` over a list of buckets with pairwise different, fresh keys -/
theorem fold_insert_spec (hash : κ → Nat) (es : Buckets κ γ) :
    ∀ (r : PMap κ γ), WF hash r → r.n + es.countP Option.isSome < r.mask + 1 →
    (∀ k v, some (k, v) ∈ es → ∀ v', ¬ Mem r k v') →
    es.Pairwise (fun a b => ∀ k v k' v', a = some (k, v) → b = some (k', v') → k ≠ k') →
    let r' := es.foldl (reinsert hash) r
    WF hash r' ∧ r'.n = r.n + es.countP Option.isSome ∧ r'.mask = r.mask ∧
    (∀ k v, Mem r' k v ↔ (Mem r k v ∨ some (k, v) ∈ es)) := by
  induction es with
  | nil =>
    intro r h _ _ _
    simp
    exact h
  | cons a es ih =>
    intro r h hn hf hp
    rw [List.pairwise_cons] at hp
    cases a with
    | none =>
      simp only [List.foldl_cons, reinsert]
      have hc : (none :: es).countP Option.isSome = es.countP Option.isSome := by
        rw [List.countP_cons_of_neg (by simp)]
      rw [hc] at hn ⊢
      have := ih r h hn (fun k v hm => hf k v (List.mem_cons_of_mem _ hm)) hp.2
      obtain ⟨w, n', m', mem'⟩ := this
      refine ⟨w, n', m', ?_⟩
      intro k v
      rw [mem']
      simp
    | some kv =>
      obtain ⟨k0, v0⟩ := kv
      simp only [List.foldl_cons, reinsert]
      have hc : (some (k0, v0) :: es).countP Option.isSome = es.countP Option.isSome + 1 := by
        rw [List.countP_cons_of_pos (by simp)]
      rw [hc] at hn ⊢
      obtain ⟨w1, n1, m1, mem1⟩ := insert_spec hash r h (by omega) k0 v0 (hf k0 v0 (List.mem_cons_self ..))
      have := ih (insert hash r k0 v0) w1 (by rw [n1, m1]; omega)
        (by
          intro k v hm v' hmem
          rw [mem1] at hmem
          rcases hmem with ⟨hk, _⟩ | hmem
          · exact hp.1 (some (k, v)) hm k0 v0 k v rfl rfl hk.symm
          · exact hf k v (List.mem_cons_of_mem _ hm) v' hmem)
        hp.2
      obtain ⟨w, n', m', mem'⟩ := this
      refine ⟨w, by rw [n', n1]; omega, by rw [m', m1], ?_⟩
      intro k v
      rw [mem', mem1]
      simp only [List.mem_cons, Option.some.injEq, Prod.mk.injEq]
      constructor
      · rintro ((⟨a, b⟩ | h) | h)
        · exact Or.inr (Or.inl ⟨a, b⟩)
        · exact Or.inl h
        · exact Or.inr (Or.inr h)
      · rintro (h | ⟨a, b⟩ | h)
        · exact Or.inl (Or.inr h)
        · exact Or.inl (Or.inl ⟨a, b⟩)
        · exact Or.inr h

theorem mem_iff_mem_b (m : PMap κ γ) (k : κ) (v : γ) : Mem m k v ↔ some (k, v) ∈ m.b := by
  constructor
  · intro ⟨i, hi⟩
    have hl := slot_lt hi
    unfold slot at hi
    rw [List.getElem?_eq_getElem hl] at hi
    simp only [Option.getD_some] at hi
    rw [← hi]
    exact List.getElem_mem hl
  · intro hm
    obtain ⟨i, hi, hia⟩ := List.getElem_of_mem hm
    exact ⟨i, by unfold slot; rw [List.getElem?_eq_getElem hi, hia]; rfl⟩

theorem pairwise_of_distinct (b : Buckets κ γ)
    (hd : ∀ i j k v v', slot b i = some (k, v) → slot b j = some (k, v') → i = j) :
    b.Pairwise (fun a b => ∀ k v k' v', a = some (k, v) → b = some (k', v') → k ≠ k') := by
  rw [List.pairwise_iff_getElem]
  intro i j hi hj hij k v k' v' ha hb hk
  subst hk
  have h1 : slot b i = some (k, v) := by unfold slot; rw [List.getElem?_eq_getElem hi, ha]; rfl
  have h2 : slot b j = some (k, v') := by unfold slot; rw [List.getElem?_eq_getElem hj, hb]; rfl
  have := hd i j k v v' h1 h2
  omega

/-- `rehash`: same contents, capacity doubled, structure intact -/
theorem rehash_spec (hash : κ → Nat) (m : PMap κ γ) (h : WF hash m) :
    WF hash (rehash hash m) ∧ (rehash hash m).n = m.n ∧ (rehash hash m).mask + 1 = 2 * (m.mask + 1) ∧
    (∀ k v, Mem (rehash hash m) k v ↔ Mem m k v) := by
  obtain ⟨e, he⟩ := h.pow2
  have hcap : (m.mask + 1) <<< 1 = 2 ^ (e + 1) := by
    rw [Nat.shiftLeft_eq, he, Nat.pow_succ]
    omega
  have hle : m.b.countP Option.isSome ≤ m.b.length := List.countP_le_length
  have hp : 0 < 2 ^ e := Nat.two_pow_pos e
  have hem : (empty (2 ^ (e + 1)) : PMap κ γ).mask + 1 = 2 * (m.mask + 1) := by
    simp only [empty]
    rw [Nat.pow_succ, he]
    omega
  have := fold_insert_spec hash m.b (empty ((m.mask + 1) <<< 1)) (by rw [hcap]; exact wf_empty hash (e + 1))
    (by
      rw [hcap, hem]
      simp only [empty]
      rw [h.len] at hle
      omega)
    (fun k v _ v' hm => mem_empty _ k v' hm)
    (pairwise_of_distinct m.b h.distinct)
  obtain ⟨w, n', m', mem'⟩ := this
  refine ⟨w, ?_, ?_, ?_⟩
  · unfold rehash
    rw [n', ← h.cnt]
    simp [empty]
  · unfold rehash
    rw [m', hcap, hem]
  · intro k v
    unfold rehash
    rw [mem', mem_iff_mem_b m]
    constructor
    · rintro (h | h)
      · exact absurd h (mem_empty _ k v)
      · exact h
    · exact Or.inr

/-- `add` of a fresh key: invariant kept, contents extended by exactly `(k,v)` -/
theorem add_spec (hash : κ → Nat) (m : PMap κ γ) (h : Inv hash m) (k : κ) (v : γ)
    (hf : ∀ v', ¬ Mem m k v') :
    Inv hash (add hash m k v) ∧ (add hash m k v).n = m.n + 1 ∧
    (∀ k' v', Mem (add hash m k v) k' v' ↔ ((k' = k ∧ v' = v) ∨ Mem m k' v')) := by
  obtain ⟨hw, hl⟩ := h
  obtain ⟨e, he⟩ := hw.pow2
  have hp : 0 < 2 ^ e := Nat.two_pow_pos e
  unfold add
  simp only
  by_cases hr : needRehash m = true
  · rw [if_pos hr]
    obtain ⟨w, n', m', mem'⟩ := rehash_spec hash m hw
    obtain ⟨w1, n1, m1, mem1⟩ := insert_spec hash (rehash hash m) w (by omega) k v
      (fun v' hm => hf v' ((mem' k v').1 hm))
    refine ⟨⟨w1, by rw [n1, m1, n']; omega⟩, by rw [n1, n'], ?_⟩
    intro k' v'
    rw [mem1, mem']
  · rw [if_neg hr]
    have hr' : ¬ (m.mask + 1 < 2 * (m.n + 1)) := by
      simpa [needRehash] using hr
    obtain ⟨w1, n1, m1, mem1⟩ := insert_spec hash m hw (by omega) k v hf
    exact ⟨⟨w1, by rw [n1, m1]; omega⟩, n1, mem1⟩

/-! ### soundness of the executable check -/

theorem isPow2_sound : ∀ fuel c, isPow2 fuel c = true → ∃ e, c = 2 ^ e := by
  intro fuel
  induction fuel with
  | zero => intro c h; simp [isPow2] at h
  | succ f ih =>
    intro c h
    unfold isPow2 at h
    simp only [Bool.or_eq_true, Bool.and_eq_true, beq_iff_eq] at h
    rcases h with h | ⟨h1, h2⟩
    · exact ⟨0, by rw [h]⟩
    · obtain ⟨e, he⟩ := ih _ h2
      refine ⟨e + 1, ?_⟩
      rw [Nat.pow_succ, ← he]
      omega

theorem probeIdx_spec (b : Buckets κ γ) (mask c : Nat) (hm : ∀ x, x &&& mask = x % c) (k : κ) (i : Nat) :
    ∀ f p, probeIdx b mask k f p = some i → Path b c f p i := by
  intro f
  induction f with
  | zero => intro p h; simp [probeIdx] at h
  | succ f ih =>
    intro p h
    unfold probeIdx at h
    unfold Path
    split at h
    · rename_i k' v' hs
      split at h
      · cases h
        exact Or.inl rfl
      · rw [hm] at h
        exact Or.inr ⟨by rw [hs]; rfl, ih _ h⟩
    · cases h

theorem invCheck_inv (hash : κ → Nat) (m : PMap κ γ) (h : invCheck hash m = true) : Inv hash m := by
  unfold invCheck at h
  simp only [Bool.and_eq_true] at h
  obtain ⟨⟨⟨⟨h1, h2⟩, h3⟩, h4⟩, h5⟩ := h
  obtain ⟨e, he⟩ := isPow2_sound _ _ h1
  have hlen : m.b.length = m.mask + 1 := by simpa [chkLen] using h2
  have hcnt : m.n = m.b.countP Option.isSome := by simpa [chkCount] using h3
  have hload : 2 * m.n ≤ m.mask + 1 := by simpa [chkLoad] using h4
  have hhome : ∀ i k v, slot m.b i = some (k, v) →
      probeIdx m.b m.mask k (m.mask + 1) (hash k &&& m.mask) = some i := by
    intro i k v hs
    have hi : i < m.mask + 1 := by rw [← hlen]; exact slot_lt hs
    unfold chkHome at h5
    rw [List.all_eq_true] at h5
    have := h5 i (List.mem_range.2 hi)
    rw [hs] at this
    simpa using this
  refine ⟨⟨⟨e, he⟩, hlen, hcnt, ?_, ?_⟩, hload⟩
  · intro i j k v v' hi hj
    have a := hhome i k v hi
    have b := hhome j k v' hj
    rw [a] at b
    cases b
    rfl
  · intro i k v hi
    have a := hhome i k v hi
    rw [and_mask he] at a
    exact probeIdx_spec m.b m.mask (m.mask + 1) (and_mask he) k i _ _ a

end SonicSpec.Conc.PMap
