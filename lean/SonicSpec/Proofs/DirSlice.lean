/-
  Decoder IR: compileSliceList / compileSliceBody - the element loop (entered at either `_OP_slice_append`) and the
  code around it do what the single-pass specification says.
-/
import SonicSpec.Proofs.DirPtr
namespace SonicSpec.Dir
open SonicSpec SonicSpec.Go SonicSpec.Json SonicSpec.Bind SonicSpec.Stream

variable {o : DecOpts} {co : COpts}

theorem de_zero (o : DecOpts) (t : GoType) (s : Bytes) (curs : List GoVal) (lim : Option Nat) :
    decodeElems o 0 t s curs lim = .error .syntax := by
  rw [decodeElems]

theorem de_succ (o : DecOpts) (n : Nat) (t : GoType) (s : Bytes) (curs : List GoVal) :
    decodeElems o (n + 1) t s curs none =
      match decodeVal o n t s (curs.headD (zeroOf t)) with
      | .error e => .error e
      | .ok (v, e, r) =>
        match skipWs r with
        | 44 :: r' =>
          match decodeElems o n t (skipWs r') curs.tail none with
          | .error e' => .error e'
          | .ok (vs, e', r'') => .ok (v :: vs, merge e e', r'')
        | 93 :: r' => .ok ([v], e, r')
        | _ => .error .syntax := by
  rw [decodeElems]
  simp only [Option.map_none]
  have : ((none : Option Nat) == some 0) = false := rfl
  rw [this]
  simp only [Bool.false_eq_true, if_false]
  repeat' (first | rfl | split)

/-- the element loop of compileSliceBody, entered at a `_OP_slice_append` (`a`): the first one, or the one behind the comma -/
def ElemsOK (o : DecOpts) (co : COpts) (n : Nat) : Prop :=
  ∀ (t : GoType) (s0 : Bytes) (curs vs : List GoVal) (e : Option DErr) (r : Bytes),
    Sub t = true → WTs t curs = true →
    decodeElems o n t (skipWs s0) curs none = .ok (vs, e, r) →
    WTs t vs = true ∧
    ∀ (lib : LibCode) (tab : Tab) (P : Program) (sp a k0 dropAt : Nat) (c c2 : Program),
      Above tab t →
      c = (one co lib tab (a + 1) sp t).1 → c2 = (one co lib tab (k0 + 4) sp t).1 →
      At P a ([.sliceAppend t] ++ c ++ [.load]) →
      (∀ (R : Out → Prop) σ, Ends o co none R P k0 σ → Ends o co none R P (a + 1 + c.length + 1) σ) →
      At P k0 ([.lspace, .checkChar dropAt 93, .matchChar 44, .sliceAppend t] ++ c2 ++ [.load, .goto k0]) →
      ∀ (σ : St) (p : Path) (done : List GoVal) (stk : List Frame),
        σ.inp = s0 → σ.stack = { vp := p, n := done.length } :: stk → getAt σ.root p = some (.sl (done ++ curs)) →
        ∀ R : Out → Prop, (e ≠ none → Tol R) →
          (∀ σ' : St, σ'.inp = r → σ'.root = setAt σ.root p (.sl (done ++ vs ++ curs.drop vs.length)) →
             σ'.stack = { vp := p, n := done.length + vs.length } :: stk → σ'.et = merge σ.et e → Ends o co none R P dropAt σ') →
          Ends o co none R P a σ

theorem headD_wt {t : GoType} (hs : Sub t = true) {curs : List GoVal} (h : WTs t curs = true) : WT t (curs.headD (zeroOf t)) = true := by
  cases curs with
  | nil => exact wt_zero t hs
  | cons c cs => simp only [WTs, Bool.and_eq_true] at h; exact h.1

theorem tail_wt {t : GoType} {curs : List GoVal} (h : WTs t curs = true) : WTs t curs.tail = true := by
  cases curs with
  | nil => rfl
  | cons c cs => simp only [WTs, Bool.and_eq_true] at h; exact h.2

/-- `_OP_slice_append`: the next element (the old one when there is one, else a fresh zero value) -/
theorem e_sliceAppend {P : Program} {R : Out → Prop} {pc : Nat} {σ : St} {t : GoType} {p : Path} {done curs : List GoVal} {stk : List Frame}
    (hf : P[pc]? = some (.sliceAppend t)) (hst : σ.stack = { vp := p, n := done.length } :: stk)
    (hg : getAt σ.root p = some (.sl (done ++ curs)))
    (k : ∀ σ1 : St, σ1.inp = σ.inp → σ1.vp = p ++ [.child done.length] →
      σ1.root = setAt σ.root p (.sl (done ++ curs.headD (zeroOf t) :: curs.tail)) →
      σ1.stack = { vp := p, n := done.length + 1 } :: stk → σ1.et = σ.et → Ends o co none R P (pc + 1) σ1) :
    Ends o co none R P pc σ := by
  cases curs with
  | nil =>
    refine ends_step hf (pc' := pc + 1)
      (s' := { σ with root := setAt σ.root p (.sl (done ++ [] ++ [zeroOf t])), stack := { vp := p, n := done.length + 1 } :: stk, vp := p ++ [.child done.length] }) ?_ ?_
    · simp only [step, hst, hg]
      rw [if_neg (by simp)]
    · exact k _ rfl rfl (by simp) rfl rfl
  | cons c cs =>
    refine ends_step hf (pc' := pc + 1)
      (s' := { σ with stack := { vp := p, n := done.length + 1 } :: stk, vp := p ++ [.child done.length] }) ?_ ?_
    · simp only [step, hst, hg]
      rw [if_pos (by simp)]
    · exact k _ rfl rfl (by simp only [List.headD_cons, List.tail_cons]; exact (setAt_same _ _ _ hg).symm) rfl rfl

theorem getAt_sl_child {root : GoVal} {p : Path} {done : List GoVal} {x : GoVal} {rest : List GoVal} (hg : ∃ y, getAt root p = some y) :
    getAt (setAt root p (.sl (done ++ x :: rest))) (p ++ [.child done.length]) = some x := by
  obtain ⟨y, hy⟩ := hg
  rw [getAt_setAt_below root p _ y _ hy, getAt_cons]
  simp [child1, getAt_nil]

theorem setAt_sl_child {root : GoVal} {p : Path} {done : List GoVal} {x v : GoVal} {rest : List GoVal} (hg : ∃ y, getAt root p = some y) :
    setAt (setAt root p (.sl (done ++ x :: rest))) (p ++ [.child done.length]) v = setAt root p (.sl (done ++ v :: rest)) := by
  obtain ⟨y, hy⟩ := hg
  rw [setAt_setAt_below root p _ y _ _ hy, setAt_cons]
  simp [child1, put1, setAt_nil]

theorem elemsOK_succ (n : Nat) (hv : ValOK o co n) (ih : ElemsOK o co n) : ElemsOK o co (n + 1) := by
  intro t s0 curs vs e r hs hwc h
  rw [de_succ] at h
  cases hd : decodeVal o n t (skipWs s0) (curs.headD (zeroOf t)) with
  | error x => rw [hd] at h; cases h
  | ok q =>
    obtain ⟨v, e1, r1⟩ := q
    rw [hd] at h
    simp only at h
    have hv1 := hv t s0 (curs.headD (zeroOf t)) v e1 r1 hs (headD_wt hs hwc) hd
    cases hw : skipWs r1 with
    | nil => rw [hw] at h; cases h
    | cons b r' =>
      rw [hw] at h
      by_cases h44 : b = 44
      · subst h44
        simp only at h
        cases hd2 : decodeElems o n t (skipWs r') curs.tail none with
        | error x => rw [hd2] at h; cases h
        | ok q2 =>
          obtain ⟨vs', e', r''⟩ := q2
          rw [hd2] at h
          simp only at h
          injection h with h; injection h with h1 h2; injection h2 with h2 h3
          subst h1; subst h2; subst h3
          have ih2 := ih t r' curs.tail vs' e' r'' hs (tail_wt hwc) hd2
          refine ⟨by simp only [WTs, Bool.and_eq_true]; exact ⟨hv1.1, ih2.1⟩, ?_⟩
          intro lib tab P sp a k0 dropAt c c2 ha hc hc2 hat hreach hatk σ p done stk hi hst hg R ht k
          refine e_sliceAppend (hat.get 0 rfl) hst hg ?_
          intro σ1 h1i h1v h1r h1s h1e
          have hg1 : getAt σ1.root σ1.vp = some (curs.headD (zeroOf t)) := by
            rw [h1r, h1v]; exact getAt_sl_child ⟨_, hg⟩
          have hatc : At P (a + 1) (one co lib tab (a + 1) sp t).1 := by
            have := hat.mid (a := [Instr.sliceAppend t]) (b := c) (c := [Instr.load])
            rw [hc] at this; simpa using this
          refine hv1.2 lib tab P (a + 1) sp ha hatc σ1 (by rw [h1i, hi]) hg1 R (fun hne => ht (merge_ne_none_left hne)) ?_
          intro σ2 hp
          rw [← hc]
          have hload : P[a + 1 + c.length]? = some Instr.load := by
            have := hat.right' (a := [Instr.sliceAppend t] ++ c) (c := [Instr.load]) (q := a + 1 + c.length) (by simp; omega)
            exact this.get 0 rfl
          refine e_load hload (f := { vp := p, n := done.length + 1 }) (rest := stk) (by rw [hp.2.2.1, h1s]) ?_
          refine hreach R _ ?_
          refine e_lspace (hatk.get 0 rfl) (c := 44) (r := r') (by simp only; rw [hp.1]; exact hw) ?_
          refine e_checkChar_miss (hatk.get 1 rfl) (b := 44) (r := r') rfl (by decide) ?_
          refine e_matchChar (hatk.get 2 rfl) (c := 44) (r := r') rfl ?_
          have hatk' : At P k0 ([Instr.lspace, Instr.checkChar dropAt 93, Instr.matchChar 44] ++ ([Instr.sliceAppend t] ++ c2 ++ [Instr.load]) ++ [Instr.goto k0]) := by
            have e : ([Instr.lspace, Instr.checkChar dropAt 93, Instr.matchChar 44, Instr.sliceAppend t] ++ c2 ++ [Instr.load, Instr.goto k0] : Program) =
                [Instr.lspace, Instr.checkChar dropAt 93, Instr.matchChar 44] ++ ([Instr.sliceAppend t] ++ c2 ++ [Instr.load]) ++ [Instr.goto k0] := by simp
            exact e ▸ hatk
          have hatB : At P (k0 + 3) ([Instr.sliceAppend t] ++ c2 ++ [Instr.load]) := hatk'.mid
          have hgoto : P[k0 + 3 + 1 + c2.length + 1]? = some (Instr.goto k0) := by
            have := hatk'.right' (q := k0 + 3 + 1 + c2.length + 1) (by simp; omega)
            exact this.get 0 rfl
          have hroot2 : σ2.root = setAt σ.root p (.sl ((done ++ [v]) ++ curs.tail)) := by
            rw [hp.2.1, h1r, h1v, setAt_sl_child ⟨_, hg⟩]; simp
          refine ih2.2 lib tab P sp (k0 + 3) k0 dropAt c2 c2 ha (by rw [hc2]) hc2 hatB (fun R' σ' h' => e_goto hgoto h') hatk
            _ p (done ++ [v]) stk rfl (by simp only; rw [hp.2.2.1, h1s]; simp) (by simp only; rw [hroot2]; exact getAt_setAt_self _ _ _ _ hg) R
            (fun hne => ht (merge_ne_none_right hne)) ?_
          intro σ' h'i h'r h's h'e
          refine k σ' h'i ?_ ?_ ?_
          · rw [h'r]; simp only; rw [hroot2, setAt_setAt _ _ _ _ _ hg]
            congr 2
            simp [List.drop_tail]
          · rw [h's]; simp; omega
          · rw [h'e]; simp only; rw [hp.2.2.2, h1e, merge_assoc]
      · by_cases h93 : b = 93
        · subst h93
          simp only at h
          injection h with h; injection h with h1 h2; injection h2 with h2 h3
          subst h1; subst h2; subst h3
          refine ⟨by simp only [WTs, Bool.and_eq_true]; exact ⟨hv1.1, trivial⟩, ?_⟩
          intro lib tab P sp a k0 dropAt c c2 ha hc hc2 hat hreach hatk σ p done stk hi hst hg R ht k
          refine e_sliceAppend (hat.get 0 rfl) hst hg ?_
          intro σ1 h1i h1v h1r h1s h1e
          have hg1 : getAt σ1.root σ1.vp = some (curs.headD (zeroOf t)) := by
            rw [h1r, h1v]; exact getAt_sl_child ⟨_, hg⟩
          have hatc : At P (a + 1) (one co lib tab (a + 1) sp t).1 := by
            have := hat.mid (a := [Instr.sliceAppend t]) (b := c) (c := [Instr.load])
            rw [hc] at this; simpa using this
          refine hv1.2 lib tab P (a + 1) sp ha hatc σ1 (by rw [h1i, hi]) hg1 R ht ?_
          intro σ2 hp
          rw [← hc]
          have hload : P[a + 1 + c.length]? = some Instr.load := by
            have := hat.right' (a := [Instr.sliceAppend t] ++ c) (c := [Instr.load]) (q := a + 1 + c.length) (by simp; omega)
            exact this.get 0 rfl
          refine e_load hload (f := { vp := p, n := done.length + 1 }) (rest := stk) (by rw [hp.2.2.1, h1s]) ?_
          refine hreach R _ ?_
          refine e_lspace (hatk.get 0 rfl) (c := 93) (r := r') (by simp only; rw [hp.1]; exact hw) ?_
          refine e_checkChar_hit (hatk.get 1 rfl) (c := 93) (r := r') rfl ?_
          refine k _ rfl ?_ ?_ ?_
          · simp only; rw [hp.2.1, h1r, h1v, setAt_sl_child ⟨_, hg⟩]
            congr 2
            simp [List.drop_one]
          · simp only; rw [hp.2.2.1, h1s]; rfl
          · simp only; rw [hp.2.2.2, h1e]
        · exfalso
          revert h
          split
          · rename_i heq; injection heq with hb _; exact absurd hb h44
          · rename_i heq; injection heq with hb _; exact absurd hb h93
          · intro h; cases h

theorem elemsOK_zero : ElemsOK o co 0 := by
  intro t s0 curs vs e r _ _ h
  rw [de_zero] at h; cases h

theorem curElems_wt {t : GoType} {cur : GoVal} (h : WT (.sl t) cur = true) : WTs t (curElems cur) = true := by
  cases cur <;> simp_all [WT, curElems, WTs]

/-- `_OP_slice_init`: an empty slice is made when there is none; the old elements stay where they are -/
theorem e_sliceInit {P : Program} {R : Out → Prop} {pc : Nat} {σ : St} {t : GoType} {cur : GoVal}
    (hf : P[pc]? = some (.sliceInit t)) (hg : getAt σ.root σ.vp = some cur) (hwt : WT (.sl t) cur = true)
    (k : ∀ σ1 : St, σ1.inp = σ.inp → σ1.vp = σ.vp → σ1.root = setAt σ.root σ.vp (.sl (curElems cur)) →
      σ1.stack = σ.stack → σ1.et = σ.et → Ends o co none R P (pc + 1) σ1) : Ends o co none R P pc σ := by
  cases cur with
  | nil =>
    refine ends_step hf (pc' := pc + 1) (s' := σ.put (.sl [])) (by simp only [step, hg]) ?_
    exact k _ rfl rfl rfl rfl rfl
  | sl xs =>
    refine ends_step hf (pc' := pc + 1) (s' := σ) (by simp only [step, hg]) ?_
    exact k _ rfl rfl (by simp only [curElems]; exact (setAt_same _ _ _ hg).symm) rfl rfl
  | _ => simp [WT] at hwt

/-- `_OP_drop` of a slice frame: the slice is cut to its length -/
theorem e_drop_sl {P : Program} {R : Out → Prop} {pc : Nat} {σ : St} {p : Path} {k' : Nat} {stk : List Frame} {xs : List GoVal}
    (hf : P[pc]? = some .drop) (hst : σ.stack = { vp := p, n := k' } :: stk) (hg : getAt σ.root p = some (.sl xs))
    (k : Ends o co none R P (pc + 1) { σ with stack := stk, vp := p, root := setAt σ.root p (.sl (xs.take k')) }) :
    Ends o co none R P pc σ :=
  ends_step hf (by simp only [step, hst, hg]) k

theorem tok_arr_of {s r0 : Bytes} (h : tok s = .arr r0) : s = 91 :: r0 := tok_arr_inv s r0 h

theorem tok_ne_arr {s : Bytes} {c : UInt8} {r : Bytes} (hs : s = c :: r) (h : ∀ r0, tok s ≠ .arr r0) : c ≠ 91 := by
  intro hc; subst hc; subst hs; exact h r rfl

theorem tok_ne_obj {s : Bytes} {c : UInt8} {r : Bytes} (hs : s = c :: r) (h : ∀ r0, tok s ≠ .obj r0) : c ≠ 123 := by
  intro hc; subst hc; subst hs; exact h r rfl

theorem one_tab {t : GoType} (hs : Sub t = true) (lib : LibCode) {tab : Tab} (ha : Above tab t) (pc sp : Nat) :
    (one co lib tab pc sp t).2 = tab := by
  unfold one
  exact elem_tab co lib hs sp (ops_tab co lib t hs).1 ha pc

/-- the layout of compileSliceBody: head, the first element, the loop, `drop` -/
theorem sliceBody_code {t : GoType} (hs : Sub t = true) (lib : LibCode) {tab : Tab} (ha : Above tab t) (pcb sp : Nat) :
    let c1 := (one co lib tab (pcb + 5) sp t).1
    let k0 := pcb + 5 + c1.length + 1
    let c2 := (one co lib tab (k0 + 4) sp t).1
    let dropAt := k0 + 4 + c2.length + 2
    (sliceBody tab pcb t fun tb p => one co lib tb p sp t).1 =
      [.lspace, .checkEmpty (dropAt + 1) 93, .sliceInit t, .save false] ++ ([.sliceAppend t] ++ c1 ++ [.load]) ++
        ([.lspace, .checkChar dropAt 93, .matchChar 44, .sliceAppend t] ++ c2 ++ [.load, .goto k0]) ++ [.drop] := by
  simp only [sliceBody, one_tab hs lib ha]
  simp

theorem opsOK_sl (n : Nat) (ih : ElemsOK o co n) (t : GoType) (hst : Sub (.sl t) = true) : OpsOK o co (n + 1) (.sl t) := by
  simp only [Sub, Bool.and_eq_true] at hst
  obtain ⟨hnu, hs⟩ := hst
  intro s cur v e r hwt _ h
  -- the code
  have hcode : ∀ (lib : LibCode) (tab : Tab) (pc sp : Nat),
      (ops co lib false tab pc sp (.sl t)).1 =
        (sliceList tab pc (.sl t) t fun tb' p' => wrapOne tb' p' t fun tb'' p'' => ops co lib false tb'' p'' (sp + 1) t).1 := by
    intro lib tab pc sp
    rw [ops]
    simp only [fin, Bool.not_false, if_true]
    split
    · simp [notU8] at hnu
    · rfl
  cases hn : isNullLit s with
  | some r0 =>
    rw [dv_null o n _ s r0 cur hn] at h
    injection h with h; injection h with h1 h2; injection h2 with h2 h3
    subst h1; subst h2; subst h3
    refine ⟨rfl, ?_⟩
    intro lib tab P pc sp _ hat σ hi hg
    rw [hcode] at hat ⊢
    simp only [sliceList] at hat ⊢
    generalize (sliceBody tab (pc + 5) t fun tb' p' => wrapOne tb' p' t fun tb'' p'' => ops co lib false tb'' p'' (sp + 1) t).1 = B at hat ⊢
    intro R _ k
    refine e_isNull_hit (hat.get 0 rfl) (by rw [hi]; exact hn) ?_
    have htl := hat.right' (q := pc + 5 + B.length) (a := [Instr.isNull _] ++ chk (pc + 1) (.sl t) 91 _ ++ B) (by simp [chk]; omega)
    refine e_nil3 (htl.get 1 rfl) ?_
    have hl : pc + 5 + B.length + 1 + 1 =
        pc + ([Instr.isNull (pc + 5 + B.length + 1)] ++ chk (pc + 1) (.sl t) 91 (pc + 5 + B.length + 1 + 1) ++ B ++
          [Instr.goto (pc + 5 + B.length + 1 + 1), Instr.nil3]).length := by
      simp [chk]; omega
    rw [hl]
    exact k _ ⟨rfl, rfl, rfl, (merge_none_right' _).symm⟩
  | none =>
    rw [dv_sl o n t hnu s cur hn] at h
    have hwc : WTs t (curElems cur) = true := curElems_wt hwt
    cases htk : tok s with
    | arr r0 =>
      rw [htk] at h
      simp only at h
      have hs0 := tok_arr_of htk
      cases hw : skipWs r0 with
      | nil =>
        rw [hw] at h
        simp only at h
        cases n with
        | zero => rw [de_zero] at h; cases h
        | succ n => rw [de_succ, decodeVal_nil o n t hs] at h; cases h
      | cons b r1 =>
        rw [hw] at h
        by_cases h93 : b = 93
        · subst h93
          simp only at h
          injection h with h; injection h with h1 h2; injection h2 with h2 h3
          subst h1; subst h2; subst h3
          refine ⟨rfl, ?_⟩
          intro lib tab P pc sp hle hat σ hi hg
          have ha : Above tab t := tsz_le_above hle (by simp [tsz])
          rw [hcode] at hat ⊢
          simp only [sliceList] at hat ⊢
          have hbc := sliceBody_code (co := co) hs lib ha (pc + 5) (sp + 1)
          simp only at hbc
          have hE : (fun tb' p' => wrapOne tb' p' t fun tb'' p'' => ops co lib false tb'' p'' (sp + 1) t) = fun tb p => one co lib tb p (sp + 1) t := rfl
          rw [hE] at hat ⊢
          generalize hB : (sliceBody tab (pc + 5) t fun tb p => one co lib tb p (sp + 1) t).1 = B at hat hbc ⊢
          generalize (one co lib tab (pc + 5 + 5) (sp + 1) t).1 = c1 at hbc
          generalize (one co lib tab (pc + 5 + 5 + c1.length + 1 + 4) (sp + 1) t).1 = c2 at hbc
          intro R _ k
          refine e_isNull_miss (hat.get 0 rfl) (by rw [hi]; exact hn) ?_
          have hchk : At P (pc + 1) (chk (pc + 1) (.sl t) 91 (pc + 5 + B.length + 1 + 1)) := by
            have := hat.left.left.right (a := [Instr.isNull (pc + 5 + B.length + 1)])
            simpa using this
          refine e_chk_hit hchk (c := 91) (r := r0) (by rw [hi]; exact hs0) ?_
          have hb : At P (pc + 5) B := by
            have := hat.left.right' (q := pc + 5) (a := [Instr.isNull (pc + 5 + B.length + 1)] ++ chk (pc + 1) (.sl t) 91 (pc + 5 + B.length + 1 + 1)) (by simp [chk])
            exact this
          rw [hbc] at hb
          refine e_lspace (hb.get 0 rfl) (c := 93) (r := r1) (by simp only; exact hw) ?_
          refine ends_step (hb.get 1 rfl) (pc' := pc + 5 + 5 + c1.length + 1 + 4 + c2.length + 2 + 1)
            (s' := { ({ σ with inp := 93 :: r1 } : St).put (.sl []) with inp := r1 }) (by simp only [step, beq_self_eq_true, if_true]) ?_
          have hlen : B.length = 4 + (1 + c1.length + 1) + (4 + c2.length + 2) + 1 := by rw [hbc]; simp; omega
          have hgoto : P[pc + 5 + B.length]? = some (Instr.goto (pc + 5 + B.length + 1 + 1)) := by
            have := hat.right' (q := pc + 5 + B.length) (a := [Instr.isNull (pc + 5 + B.length + 1)] ++ chk (pc + 1) (.sl t) 91 (pc + 5 + B.length + 1 + 1) ++ B) (by simp [chk]; omega)
            exact this.get 0 rfl
          have hpos : pc + 5 + 5 + c1.length + 1 + 4 + c2.length + 2 + 1 = pc + 5 + B.length := by rw [hlen]; omega
          rw [hpos]
          refine e_goto hgoto ?_
          have hl : pc + 5 + B.length + 1 + 1 =
              pc + ([Instr.isNull (pc + 5 + B.length + 1)] ++ chk (pc + 1) (.sl t) 91 (pc + 5 + B.length + 1 + 1) ++ B ++
                [Instr.goto (pc + 5 + B.length + 1 + 1), Instr.nil3]).length := by
            simp [chk]; omega
          rw [hl]
          exact k _ ⟨rfl, rfl, rfl, (merge_none_right' _).symm⟩
        · have h' : (match decodeElems o n t (b :: r1) (curElems cur) none with
              | .error e => (.error e : Res GoVal)
              | .ok (vs, e, t') => .ok (.sl vs, e, t')) = .ok (v, e, r) := by
            revert h
            split
            · rename_i heq; injection heq with hb _; exact absurd hb h93
            · intro h; exact h
          cases hd : decodeElems o n t (b :: r1) (curElems cur) none with
          | error x => rw [hd] at h'; cases h'
          | ok q =>
            obtain ⟨vs, e', t'⟩ := q
            rw [hd] at h'
            simp only at h'
            injection h' with h'; injection h' with h1 h2; injection h2 with h2 h3
            subst h1; subst h2; subst h3
            have hidem : skipWs (b :: r1) = b :: r1 := by rw [← hw]; exact skipWs_idem r0
            have ihe := ih t (b :: r1) (curElems cur) vs e' t' hs hwc (by rw [hidem]; exact hd)
            refine ⟨by simp only [WT]; exact ihe.1, ?_⟩
            intro lib tab P pc sp hle hat σ hi hg
            have ha : Above tab t := tsz_le_above hle (by simp [tsz])
            rw [hcode] at hat ⊢
            simp only [sliceList] at hat ⊢
            have hbc := sliceBody_code (co := co) hs lib ha (pc + 5) (sp + 1)
            simp only at hbc
            have hE : (fun tb' p' => wrapOne tb' p' t fun tb'' p'' => ops co lib false tb'' p'' (sp + 1) t) = fun tb p => one co lib tb p (sp + 1) t := rfl
            rw [hE] at hat ⊢
            generalize hB : (sliceBody tab (pc + 5) t fun tb p => one co lib tb p (sp + 1) t).1 = B at hat hbc ⊢
            generalize hc1 : (one co lib tab (pc + 5 + 5) (sp + 1) t).1 = c1 at hbc
            generalize hc2 : (one co lib tab (pc + 5 + 5 + c1.length + 1 + 4) (sp + 1) t).1 = c2 at hbc
            intro R ht k
            refine e_isNull_miss (hat.get 0 rfl) (by rw [hi]; exact hn) ?_
            have hchk : At P (pc + 1) (chk (pc + 1) (.sl t) 91 (pc + 5 + B.length + 1 + 1)) := by
              have := hat.left.left.right (a := [Instr.isNull (pc + 5 + B.length + 1)])
              simpa using this
            refine e_chk_hit hchk (c := 91) (r := r0) (by rw [hi]; exact hs0) ?_
            have hb : At P (pc + 5) B :=
              hat.left.right' (q := pc + 5) (a := [Instr.isNull (pc + 5 + B.length + 1)] ++ chk (pc + 1) (.sl t) 91 (pc + 5 + B.length + 1 + 1)) (by simp [chk])
            rw [hbc] at hb
            refine e_lspace (hb.get 0 rfl) (c := b) (r := r1) (by simp only; exact hw) ?_
            refine ends_step (hb.get 1 rfl) (pc' := pc + 5 + 1 + 1) (s' := { σ with inp := b :: r1 }) (by simp only [step]; rw [if_neg (by simpa using h93)]) ?_
            refine e_sliceInit (hb.get 2 rfl) (cur := cur) hg hwt ?_
            intro σ1 h1i h1v h1r h1s h1e
            refine e_save (hb.get 3 rfl) ?_
            simp only [Bool.false_eq_true, if_false]
            have hA : At P (pc + 5 + 4) ([Instr.sliceAppend t] ++ c1 ++ [Instr.load]) := hb.left.left.right
            have hK : At P (pc + 5 + 5 + c1.length + 1)
                ([Instr.lspace, Instr.checkChar (pc + 5 + 5 + c1.length + 1 + 4 + c2.length + 2) 93, Instr.matchChar 44, Instr.sliceAppend t] ++ c2 ++
                  [Instr.load, Instr.goto (pc + 5 + 5 + c1.length + 1)]) :=
              hb.left.right' (by simp; omega)
            have hD : P[pc + 5 + 5 + c1.length + 1 + 4 + c2.length + 2]? = some Instr.drop := by
              have := hb.right' (q := pc + 5 + 5 + c1.length + 1 + 4 + c2.length + 2) (by simp; omega)
              exact this.get 0 rfl
            refine ihe.2 lib tab P (sp + 1) (pc + 5 + 4) (pc + 5 + 5 + c1.length + 1) (pc + 5 + 5 + c1.length + 1 + 4 + c2.length + 2) c1 c2 ha
              (by rw [← hc1]) (by rw [← hc2]) hA (fun R' σ' h' => by
                have : pc + 5 + 4 + 1 + c1.length + 1 = pc + 5 + 5 + c1.length + 1 := by omega
                rw [this]; exact h') hK
              _ σ.vp [] σ.stack (by simp only; exact h1i) (by simp only; rw [h1s, h1v]; rfl)
              (by simp only [List.nil_append]; rw [h1r]; exact getAt_setAt_self _ _ _ _ hg) R ht ?_
            intro σ' h'i h'r h's h'e
            have hg' : getAt σ'.root σ.vp = some (.sl (vs ++ (curElems cur).drop vs.length)) := by
              rw [h'r]; simp only [List.nil_append]; rw [h1r, setAt_setAt _ _ _ _ _ hg]; exact getAt_setAt_self _ _ _ _ hg
            refine e_drop_sl hD (p := σ.vp) (k' := vs.length) (stk := σ.stack) (by rw [h's]; simp) hg' ?_
            have hlen : B.length = 4 + (1 + c1.length + 1) + (4 + c2.length + 2) + 1 := by rw [hbc]; simp; omega
            have hgoto : P[pc + 5 + B.length]? = some (Instr.goto (pc + 5 + B.length + 1 + 1)) := by
              have := hat.right' (q := pc + 5 + B.length) (a := [Instr.isNull (pc + 5 + B.length + 1)] ++ chk (pc + 1) (.sl t) 91 (pc + 5 + B.length + 1 + 1) ++ B) (by simp [chk]; omega)
              exact this.get 0 rfl
            have hpos : pc + 5 + 5 + c1.length + 1 + 4 + c2.length + 2 + 1 = pc + 5 + B.length := by rw [hlen]; omega
            rw [hpos]
            refine e_goto hgoto ?_
            have hl : pc + 5 + B.length + 1 + 1 =
                pc + ([Instr.isNull (pc + 5 + B.length + 1)] ++ chk (pc + 1) (.sl t) 91 (pc + 5 + B.length + 1 + 1) ++ B ++
                  [Instr.goto (pc + 5 + B.length + 1 + 1), Instr.nil3]).length := by
              simp [chk]; omega
            rw [hl]
            refine k _ ⟨h'i, ?_, rfl, ?_⟩
            · simp only
              rw [h'r]; simp only [List.nil_append]
              rw [h1r, setAt_setAt _ _ _ _ _ hg, setAt_setAt _ _ _ _ _ hg]
              congr 2
              simp
            · simp only; rw [h'e]; simp only; rw [h1e]
    | str r0 | obj r0 | lit | other =>
      rw [htk] at h
      simp only at h
      obtain ⟨hsk, hv, he⟩ := skipMismatch_ok h
      simp only [wrapPtr, peel] at hv
      subst hv; subst he
      refine ⟨hwt, ?_⟩
      intro lib tab P pc sp hle hat σ hi hg
      rw [hcode] at hat ⊢
      simp only [sliceList] at hat ⊢
      generalize (sliceBody tab (pc + 5) t fun tb' p' => wrapOne tb' p' t fun tb'' p'' => ops co lib false tb'' p'' (sp + 1) t).1 = B at hat ⊢
      intro R ht k
      refine e_isNull_miss (hat.get 0 rfl) (by rw [hi]; exact hn) ?_
      have hchk : At P (pc + 1) (chk (pc + 1) (.sl t) 91 (pc + 5 + B.length + 1 + 1)) := by
        have := hat.left.left.right (a := [Instr.isNull (pc + 5 + B.length + 1)])
        simpa using this
      have hx := (skipVal_exec hsk).1
      cases hs1 : s with
      | nil => rw [hs1, skipVal_nil] at hsk; cases hsk
      | cons c s' =>
        have hne : c ≠ 91 := tok_ne_arr hs1 (fun r0 h0 => by rw [htk] at h0; cases h0)
        refine e_chk_miss hchk (by rw [hi]; exact hs1) hne (by rw [hi]; exact hx) ?_
        have hl : pc + 5 + B.length + 1 + 1 =
            pc + ([Instr.isNull (pc + 5 + B.length + 1)] ++ chk (pc + 1) (.sl t) 91 (pc + 5 + B.length + 1 + 1) ++ B ++
              [Instr.goto (pc + 5 + B.length + 1 + 1), Instr.nil3]).length := by
          simp [chk]; omega
        rw [hl]
        exact k _ (by rw [hi]; exact ⟨rfl, (setAt_same _ _ _ hg).symm, rfl, rfl⟩)

end SonicSpec.Dir
