/-
  C02: facts about the grammar itself - monotone in the string-body class (so Strict ⊆ Structural),
  frames bounded by the length of the text, frames vs. plain nesting depth.
-/
import SonicSpec.Proofs.JsonLex
namespace SonicSpec.Json

section
variable {SB SB' : Bytes → Prop}

mutual
theorem val_mono (h : ∀ b, SB b → SB' b) : ∀ {k : Nat} {v : Bytes}, Val SB k v → Val SB' k v
  | _, _, .nul => .nul
  | _, _, .tru => .tru
  | _, _, .fls => .fls
  | _, _, .num n hn => .num n hn
  | _, _, .str b hb => .str b (h b hb)
  | _, _, .arr k t ht => .arr k t (arrBody_mono h ht)
  | _, _, .obj k t ht => .obj k t (objBody_mono h ht)
theorem arrBody_mono (h : ∀ b, SB b → SB' b) : ∀ {k : Nat} {t : Bytes}, ArrBody SB k t → ArrBody SB' k t
  | _, _, .empty w hw => .empty w hw
  | _, _, .elems w v t k m hw hv ht => .elems w v t k m hw (val_mono h hv) (arrTail_mono h ht)
theorem arrTail_mono (h : ∀ b, SB b → SB' b) : ∀ {k : Nat} {t : Bytes}, ArrTail SB k t → ArrTail SB' k t
  | _, _, .close w hw => .close w hw
  | _, _, .more w w' v t k m hw hw' hv ht => .more w w' v t k m hw hw' (val_mono h hv) (arrTail_mono h ht)
theorem objBody_mono (h : ∀ b, SB b → SB' b) : ∀ {k : Nat} {t : Bytes}, ObjBody SB k t → ObjBody SB' k t
  | _, _, .empty w hw => .empty w hw
  | _, _, .members w key w1 w2 v t k m hw hkey hw1 hw2 hv ht =>
    .members w key w1 w2 v t k m hw (h key hkey) hw1 hw2 (val_mono h hv) (objTail_mono h ht)
theorem objTail_mono (h : ∀ b, SB b → SB' b) : ∀ {k : Nat} {t : Bytes}, ObjTail SB k t → ObjTail SB' k t
  | _, _, .close w hw => .close w hw
  | _, _, .more w w0 key w1 w2 v t k m hw hw0 hkey hw1 hw2 hv ht =>
    .more w w0 key w1 w2 v t k m hw hw0 (h key hkey) hw1 hw2 (val_mono h hv) (objTail_mono h ht)
end

theorem doc_mono (h : ∀ b, SB b → SB' b) {k : Nat} {s : Bytes} (hd : Doc SB k s) : Doc SB' k s := by
  cases hd with
  | mk w v w' k hw hv hw' => exact .mk w v w' k hw (val_mono h hv) hw'

/-! ### a text of `n` bytes never needs more than `n` frames -/

theorem arrTail_len_pos {k : Nat} {t : Bytes} (h : ArrTail SB k t) : t.length ≥ 1 := by
  cases h <;> (simp only [List.length_append, List.length_cons]; omega)

mutual
theorem val_frames_le : ∀ {k : Nat} {v : Bytes}, Val SB k v → k ≤ v.length
  | _, _, .nul => Nat.zero_le _
  | _, _, .tru => Nat.zero_le _
  | _, _, .fls => Nat.zero_le _
  | _, _, .num _ _ => Nat.zero_le _
  | _, _, .str _ _ => Nat.zero_le _
  | _, _, .arr k t ht => by have := arrBody_frames_le ht; simp only [List.length_cons]; omega
  | _, _, .obj k t ht => by have := objBody_frames_le ht; simp only [List.length_cons]; omega
theorem arrBody_frames_le : ∀ {k : Nat} {t : Bytes}, ArrBody SB k t → k ≤ t.length
  | _, _, .empty w _ => by simp
  | _, _, .elems w v t k m _ hv ht => by
    have h1 := val_frames_le hv
    have h2 := arrTail_frames_le ht
    have h3 := arrTail_len_pos ht
    simp only [List.length_append]
    omega
theorem arrTail_frames_le : ∀ {k : Nat} {t : Bytes}, ArrTail SB k t → k ≤ t.length
  | _, _, .close w _ => by simp
  | _, _, .more w w' v t k m _ _ hv ht => by
    have h1 := val_frames_le hv
    have h2 := arrTail_frames_le ht
    have h3 := arrTail_len_pos ht
    simp only [List.length_append, List.length_cons]
    omega
theorem objBody_frames_le : ∀ {k : Nat} {t : Bytes}, ObjBody SB k t → k ≤ t.length
  | _, _, .empty w _ => by simp
  | _, _, .members w key w1 w2 v t k m _ _ _ _ hv ht => by
    have h1 := val_frames_le hv
    have h2 := objTail_frames_le ht
    simp only [List.length_append, List.length_cons]
    omega
theorem objTail_frames_le : ∀ {k : Nat} {t : Bytes}, ObjTail SB k t → k ≤ t.length
  | _, _, .close w _ => by simp
  | _, _, .more w w0 key w1 w2 v t k m _ _ _ _ _ hv ht => by
    have h1 := val_frames_le hv
    have h2 := objTail_frames_le ht
    simp only [List.length_append, List.length_cons]
    omega
end

theorem doc_frames_le {k : Nat} {s : Bytes} (hd : Doc SB k s) : k ≤ s.length := by
  cases hd with
  | mk w v w' k _ hv _ =>
    have := val_frames_le hv
    simp only [List.length_append]
    omega

/-! ### frames against plain nesting depth
    `depth` of a value: 0 for scalars, 1 + the deepest element for a container.  The machine's frame
    count is the depth, plus one when a comma (array) or a member (object) occurs at the deepest level:
    `depth ≤ frames ≤ depth + 1`. -/

mutual
/-- `ValDepth d v`: the nesting depth of `v` is `d` (same grammar, another attribute) -/
inductive ValDepth (SB : Bytes → Prop) : Nat → Bytes → Prop
  | scalar (v : Bytes) : Val SB 0 v → ValDepth SB 0 v
  | arr (d : Nat) (t : Bytes) : ArrDepth SB d t → ValDepth SB (d + 1) (91 :: t)
  | obj (d : Nat) (t : Bytes) : ObjDepth SB d t → ValDepth SB (d + 1) (123 :: t)
/-- deepest element of what follows `[` or an element (0 when there is none) -/
inductive ArrDepth (SB : Bytes → Prop) : Nat → Bytes → Prop
  | close (w : Bytes) : AllSpace w → ArrDepth SB 0 (w ++ [93])
  | elem (w v t : Bytes) (d e : Nat) : AllSpace w → ValDepth SB d v → ArrDepth SB e t →
      ArrDepth SB (max d e) (w ++ (v ++ t))
  | comma (w t : Bytes) (e : Nat) : AllSpace w → ArrDepth SB e t → ArrDepth SB e (w ++ 44 :: t)
inductive ObjDepth (SB : Bytes → Prop) : Nat → Bytes → Prop
  | close (w : Bytes) : AllSpace w → ObjDepth SB 0 (w ++ [125])
  | member (w key w1 w2 v t : Bytes) (d e : Nat) : AllSpace w → SB key → AllSpace w1 → AllSpace w2 →
      ValDepth SB d v → ObjDepth SB e t →
      ObjDepth SB (max d e) (w ++ 34 :: (key ++ 34 :: (w1 ++ 58 :: (w2 ++ (v ++ t)))))
  | comma (w t : Bytes) (e : Nat) : AllSpace w → ObjDepth SB e t → ObjDepth SB e (w ++ 44 :: t)
end

mutual
/-- every value has a depth `d` with `d ≤ frames ≤ d + 1` -/
theorem val_depth : ∀ {k : Nat} {v : Bytes}, Val SB k v → ∃ d, ValDepth SB d v ∧ d ≤ k ∧ k ≤ d + 1
  | _, _, .nul => ⟨0, .scalar _ .nul, Nat.le_refl _, Nat.zero_le _⟩
  | _, _, .tru => ⟨0, .scalar _ .tru, Nat.le_refl _, Nat.zero_le _⟩
  | _, _, .fls => ⟨0, .scalar _ .fls, Nat.le_refl _, Nat.zero_le _⟩
  | _, _, .num n hn => ⟨0, .scalar _ (.num n hn), Nat.le_refl _, Nat.zero_le _⟩
  | _, _, .str b hb => ⟨0, .scalar _ (.str b hb), Nat.le_refl _, Nat.zero_le _⟩
  | _, _, .arr k t ht => by
    obtain ⟨d, hd, h1, h2⟩ := arrBody_depth ht
    exact ⟨d + 1, .arr d t hd, by omega, by omega⟩
  | _, _, .obj k t ht => by
    obtain ⟨d, hd, h1, h2⟩ := objBody_depth ht
    exact ⟨d + 1, .obj d t hd, by omega, by omega⟩
theorem arrBody_depth : ∀ {k : Nat} {t : Bytes}, ArrBody SB k t → ∃ d, ArrDepth SB d t ∧ d + 1 ≤ k ∧ k ≤ d + 2
  | _, _, .empty w hw => ⟨0, .close w hw, Nat.le_refl _, by omega⟩
  | _, _, .elems w v t k m hw hv ht => by
    obtain ⟨d, hd, h1, h2⟩ := val_depth hv
    obtain ⟨e, he, h3, h4⟩ := arrTail_depth ht
    exact ⟨max d e, .elem w v t d e hw hd he, by omega, by omega⟩
theorem arrTail_depth : ∀ {k : Nat} {t : Bytes}, ArrTail SB k t → ∃ d, ArrDepth SB d t ∧ d + 1 ≤ k ∧ k ≤ d + 2
  | _, _, .close w hw => ⟨0, .close w hw, Nat.le_refl _, by omega⟩
  | _, _, .more w w' v t k m hw hw' hv ht => by
    obtain ⟨d, hd, h1, h2⟩ := val_depth hv
    obtain ⟨e, he, h3, h4⟩ := arrTail_depth ht
    exact ⟨max d e, .comma w _ _ hw (.elem w' v t d e hw' hd he), by omega, by omega⟩
theorem objBody_depth : ∀ {k : Nat} {t : Bytes}, ObjBody SB k t → ∃ d, ObjDepth SB d t ∧ d + 1 ≤ k ∧ k ≤ d + 2
  | _, _, .empty w hw => ⟨0, .close w hw, Nat.le_refl _, by omega⟩
  | _, _, .members w key w1 w2 v t k m hw hkey hw1 hw2 hv ht => by
    obtain ⟨d, hd, h1, h2⟩ := val_depth hv
    obtain ⟨e, he, h3, h4⟩ := objTail_depth ht
    exact ⟨max d e, .member w key w1 w2 v t d e hw hkey hw1 hw2 hd he, by omega, by omega⟩
theorem objTail_depth : ∀ {k : Nat} {t : Bytes}, ObjTail SB k t → ∃ d, ObjDepth SB d t ∧ d + 1 ≤ k ∧ k ≤ d + 2
  | _, _, .close w hw => ⟨0, .close w hw, Nat.le_refl _, by omega⟩
  | _, _, .more w w0 key w1 w2 v t k m hw hw0 hkey hw1 hw2 hv ht => by
    obtain ⟨d, hd, h1, h2⟩ := val_depth hv
    obtain ⟨e, he, h3, h4⟩ := objTail_depth ht
    exact ⟨max d e, .comma w _ _ hw (.member w0 key w1 w2 v t d e hw0 hkey hw1 hw2 hd he), by omega, by omega⟩
end

end

end SonicSpec.Json
