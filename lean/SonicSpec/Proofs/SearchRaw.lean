/-
  C14 helper lemmas, part 5: rest independence.  A value is read the same way whatever follows it
  (as long as what follows cannot extend a number), hence the raw slice of a located value, read
  on its own, is that value.
-/
import SonicSpec.Proofs.SearchLocate
namespace SonicSpec.Search
open SonicSpec SonicSpec.Json

/-! ## numbers -/

/-- `X` does not begin with a byte satisfying `P` -/
def NoHead (P : UInt8 → Bool) (X : Bytes) : Prop := ∀ c t, X = c :: t → P c = false

theorem NoHead.nil (P : UInt8 → Bool) : NoHead P [] := by intro c t h; cases h
theorem NoHead.cons {P : UInt8 → Bool} {c : UInt8} (h : P c = false) (t : Bytes) : NoHead P (c :: t) := by
  intro c' t' e; cases e; exact h
theorem NoHead.append_cons {P : UInt8 → Bool} {c : UInt8} (h : P c = false) (t X : Bytes) : NoHead P ((c :: t) ++ X) := by
  intro c' t' e; cases e; exact h

theorem takeDigits_fst_digits (s : Bytes) : ∀ c ∈ (takeDigits s).1, isDigit c = true := by
  induction s with
  | nil => simp [takeDigits]
  | cons c r ih =>
    unfold takeDigits
    by_cases hc : isDigit c = true
    · simp only [hc, if_true]
      intro x hx
      simp only [List.mem_cons] at hx
      rcases hx with rfl | hx
      · exact hc
      · exact ih x hx
    · simp [hc]

theorem takeDigits_append {d X : Bytes} (hd : ∀ c ∈ d, isDigit c = true) (hX : NoHead isDigit X) :
    takeDigits (d ++ X) = (d, X) := by
  induction d with
  | nil =>
    cases X with
    | nil => rfl
    | cons c t => simp [takeDigits, hX c t rfl]
  | cons c d ih =>
    rw [List.cons_append, takeDigits]
    simp [hd c (by simp), ih (fun x hx => hd x (by simp [hx]))]

/-- what may follow a number literal without changing how it is read -/
def Stop (r : Bytes) : Prop := NoHead isNumChar r

theorem numChar_of : ∀ c : UInt8, (isDigit c = true ∨ c = 45 ∨ c = 43 ∨ c = 46 ∨ c = 101 ∨ c = 69) → isNumChar c = true := by
  apply forall_uint8; decide +kernel

theorem Stop.noDigit {r : Bytes} (h : Stop r) : NoHead isDigit r := by
  intro c t e
  have := h c t e
  cases hd : isDigit c with
  | false => rfl
  | true => rw [numChar_of c (.inl hd)] at this; cases this

theorem Stop.ne {r : Bytes} (h : Stop r) {x : UInt8} (hx : isNumChar x = true) : ∀ t, r ≠ x :: t := by
  intro t e
  have := h x t e
  rw [hx] at this; cases this

theorem expPart_ri {s3 ep r : Bytes} (h : expPart s3 = some (ep, r)) {r' : Bytes} (hr : Stop r') :
    expPart (ep ++ r') = some (ep, r') := by
  have fallthrough : expPart r' = some ([], r') := by
    unfold expPart
    split
    · rename_i c t
      have h1 := hr.ne (x := 101) (by decide) t
      have h2 := hr.ne (x := 69) (by decide) t
      have : (c == 101 || c == 69) = false := by
        simp only [Bool.or_eq_false_iff, beq_eq_false_iff_ne]
        exact ⟨fun e => h1 (by rw [e]), fun e => h2 (by rw [e])⟩
      simp [this]
    · rfl
  unfold expPart at h
  split at h
  · rename_i c rr
    split at h
    · rename_i hc
      have hd := takeDigits_fst_digits (expSign rr).2
      have hes : expSign rr = ((expSign rr).1, (expSign rr).2) := rfl
      simp only at h
      split at h
      · cases h
      · rename_i hne
        cases h
        -- ep = c :: (sg ++ d)
        generalize hsg : (expSign rr).1 = sg at *
        generalize hdd : (takeDigits (expSign rr).2).1 = d at *
        have hdne : d ≠ [] := by intro e; simp [e] at hne
        have hsign : expSign (sg ++ (d ++ r')) = (sg, d ++ r') := by
          obtain ⟨d0, d', rfl⟩ : ∃ d0 d', d = d0 :: d' := by
            cases d with
            | nil => exact absurd rfl hdne
            | cons a b => exact ⟨a, b, rfl⟩
          have hd0 : isDigit d0 = true := hd d0 (by simp)
          unfold expSign at hsg
          split at hsg
          · cases hsg; rfl
          · cases hsg; rfl
          · cases hsg
            simp only [List.nil_append]
            unfold expSign
            split
            · rename_i heq; injection heq with h1 _; subst h1; exact absurd hd0 (by decide)
            · rename_i heq; injection heq with h1 _; subst h1; exact absurd hd0 (by decide)
            · rfl
        unfold expPart
        simp only [List.cons_append, List.append_assoc, hc, if_true, hsign,
          takeDigits_append hd hr.noDigit]
        cases d with
        | nil => exact absurd rfl hdne
        | cons a b => simp
    · cases h; exact fallthrough
  · cases h; exact fallthrough

theorem fracPart_ri {s2 fp s3 : Bytes} (h : fracPart s2 = some (fp, s3)) {Y : Bytes}
    (hY : NoHead isDigit Y) (hdot : fp = [] → ∀ t, Y ≠ 46 :: t) : fracPart (fp ++ Y) = some (fp, Y) := by
  unfold fracPart at h
  split at h
  · rename_i rr
    have hd := takeDigits_fst_digits rr
    simp only at h
    split at h
    · cases h
    · rename_i hne
      cases h
      generalize (takeDigits rr).1 = d at *
      unfold fracPart
      simp only [List.cons_append, takeDigits_append hd hY]
      cases d with
      | nil => simp at hne
      | cons a b => simp
  · rename_i hn46
    cases h
    simp only [List.nil_append]
    unfold fracPart
    split
    · rename_i t; exact absurd rfl (hdot rfl t)
    · rfl

theorem intPart_ri {s1 ip s2 : Bytes} (h : intPart s1 = some (ip, s2)) {X : Bytes} (hX : NoHead isDigit X) :
    intPart (ip ++ X) = some (ip, X) := by
  unfold intPart at h
  split at h
  · cases h; rfl
  · rename_i c rr hn48
    split at h
    · rename_i hc
      have hd := takeDigits_fst_digits rr
      cases h
      generalize (takeDigits rr).1 = d at *
      unfold intPart
      simp only [List.cons_append]
      split
      · rw [takeDigits_append hd hX]
      · rename_i hnc; exact absurd hc hnc
    · cases h
  · cases h

theorem digit_not_minus : ∀ c : UInt8, isDigit c = true → c ≠ 45 := by
  apply forall_uint8; decide +kernel

/-- a number literal is read the same way whatever follows it, as long as what follows cannot
    extend it -/
theorem scanNumber_ri {s l r : Bytes} (h : scanNumber s = some (l, r)) {r' : Bytes} (hr : Stop r') :
    scanNumber (l ++ r') = some (l, r') := by
  rw [scanNumber_stages] at h
  have hs := signPart_spec s
  generalize signPart s = sp at h hs
  obtain ⟨sign, s1⟩ := sp
  simp only at h hs
  split at h
  · cases h
  · rename_i ip s2 hi
    split at h
    · cases h
    · rename_i fp s3 hf
      split at h
      · cases h
      · rename_i ep s4 he
        cases h
        have he' := expPart_ri he hr
        have hep : ep = [] ∨ ∃ t, ep = 101 :: t ∨ ep = 69 :: t := by
          unfold expPart at he
          split at he
          · rename_i c rr
            split at he
            · rename_i hc
              simp only at he
              split at he
              · cases he
              · cases he
                simp only [Bool.or_eq_true, beq_iff_eq] at hc
                rcases hc with rfl | rfl
                · exact .inr ⟨_, .inl rfl⟩
                · exact .inr ⟨_, .inr rfl⟩
            · cases he; exact .inl rfl
          · cases he; exact .inl rfl
        have hY : NoHead isDigit (ep ++ r') := by
          rcases hep with rfl | ⟨t, rfl | rfl⟩
          · simpa using hr.noDigit
          · exact NoHead.append_cons (by decide) _ _
          · exact NoHead.append_cons (by decide) _ _
        have hdot : ∀ t, ep ++ r' ≠ 46 :: t := by
          rcases hep with rfl | ⟨t, rfl | rfl⟩
          · simpa using hr.ne (x := 46) (by decide)
          · intro t' e; cases e
          · intro t' e; cases e
        have hf' := fracPart_ri hf hY (fun _ => hdot)
        have hfp : fp = [] ∨ ∃ t, fp = 46 :: t := by
          unfold fracPart at hf
          split at hf
          · simp only at hf
            split at hf
            · cases hf
            · cases hf; exact .inr ⟨_, rfl⟩
          · cases hf; exact .inl rfl
        have hX : NoHead isDigit (fp ++ (ep ++ r')) := by
          rcases hfp with rfl | ⟨t, rfl⟩
          · simpa using hY
          · exact NoHead.append_cons (by decide) _ _
        have hi' := intPart_ri hi hX
        obtain ⟨_, _, c0, p', hip, hd0⟩ := intPart_spec hi
        have hsign : signPart (sign ++ (ip ++ (fp ++ (ep ++ r')))) = (sign, ip ++ (fp ++ (ep ++ r'))) := by
          rcases hs.2.2 with h45 | h0
          · rw [h45]; rfl
          · rw [h0, hip]
            simp only [List.nil_append, List.cons_append]
            unfold signPart
            split
            · rename_i heq; injection heq with h1 _; exact absurd h1 (digit_not_minus c0 hd0)
            · rfl
        rw [scanNumber_stages]
        simp only [List.append_assoc, hsign, hi', hf', he']

/-! ## strings -/

theorem esc_not_u : ∀ e : UInt8,
    (e == 34 || e == 92 || e == 47 || e == 98 || e == 102 || e == 110 || e == 114 || e == 116) = true → e ≠ 117 := by
  apply forall_uint8; decide +kernel

/-- a string literal is read the same way whatever follows its closing quote -/
theorem scanString_ri (s : Bytes) : ∀ {b r : Bytes}, scanString s = some (b, r) →
    ∀ r', scanString (b ++ 34 :: r') = some (b, r') := by
  fun_induction scanString s with
  | case1 => intro b r h; cases h
  | case2 r => intro b r' h; simp at h; obtain ⟨rfl, rfl⟩ := h; intro r''; simp [scanString]
  | case3 a b c d r hx ih =>
    intro b' r' h
    simp only [Option.map_eq_some_iff] at h
    obtain ⟨⟨b0, t0⟩, h0, h1⟩ := h
    cases h1
    intro r''
    simp [scanString, hx, ih h0 r'']
  | case4 => intro b r h; cases h
  | case5 e r _ he ih =>
    intro b' r' h
    simp only [Option.map_eq_some_iff] at h
    obtain ⟨⟨b0, t0⟩, h0, h1⟩ := h
    cases h1
    intro r''
    have hne := esc_not_u e he
    simp only [List.cons_append]
    unfold scanString
    split
    · rename_i heq; cases heq
    · rename_i heq; cases heq
    · rename_i heq; injection heq with _ h2; injection h2 with h3 _; exact absurd h3.symm (by simpa using hne.symm)
    · rename_i e' r2 _ heq
      injection heq with _ h2; injection h2 with h3 h4; subst h3 h4
      simp [he, ih h0 r'']
    · rename_i c r2 h34 hnu hn heq
      injection heq with h1 h2
      exact absurd h2.symm (hn _ _ h1.symm)
  | case6 => intro b r h; cases h
  | case7 => intro b r h; cases h
  | case8 c r h34 hnu hne hc ih =>
    intro b' r' h
    simp only [Option.map_eq_some_iff] at h
    obtain ⟨⟨b0, t0⟩, h0, h1⟩ := h
    cases h1
    intro r''
    have h92 : c ≠ 92 := by intro h; simp [h] at hc
    simp only [List.cons_append]
    unfold scanString
    split
    · rename_i heq; cases heq
    · rename_i heq; injection heq with h1 _; exact absurd h1 (fun e => h34 e)
    · rename_i heq; injection heq with h1 _; exact absurd h1 h92
    · rename_i heq; injection heq with h1 _; exact absurd h1 h92
    · rename_i c' r2 _ _ _ heq
      injection heq with h1 h2; subst h1 h2
      simp [hc, ih h0 r'']

/-! intro rules of the strict parser -/

theorem parseVal_str_intro (n : Nat) {t b r : Bytes} (h : scanString t = some (b, r)) :
    parseVal (n + 1) (34 :: t) = some (.str b, r) := by
  unfold parseVal; simp [h]

theorem parseVal_arr0_intro (n : Nat) {t r : Bytes} (h : skipWs t = 93 :: r) :
    parseVal (n + 1) (91 :: t) = some (.arr [], r) := by
  unfold parseVal; simp [h]

theorem parseVal_obj0_intro (n : Nat) {t r : Bytes} (h : skipWs t = 125 :: r) :
    parseVal (n + 1) (123 :: t) = some (.obj [], r) := by
  unfold parseVal; simp [h]

theorem parseVal_arr_intro (n : Nat) {t r : Bytes} {xs : List JVal} (hne : ∀ t', skipWs t = 93 :: t' → False)
    (h : parseElems n (skipWs t) = some (xs, r)) : parseVal (n + 1) (91 :: t) = some (.arr xs, r) := by
  unfold parseVal
  simp only
  simp [h]

theorem parseVal_obj_intro (n : Nat) {t r : Bytes} {kvs : List (Bytes × JVal)} (hne : ∀ t', skipWs t = 125 :: t' → False)
    (h : parseMembers n (skipWs t) = some (kvs, r)) : parseVal (n + 1) (123 :: t) = some (.obj kvs, r) := by
  unfold parseVal
  simp only
  simp [h]

theorem parseVal_num_intro (n : Nat) {c0 : UInt8} {t l r : Bytes} (hc : c0 = 45 ∨ isDigit c0 = true)
    (h : scanNumber (c0 :: t) = some (l, r)) : parseVal (n + 1) (c0 :: t) = some (.num l, r) := by
  obtain ⟨h1, h2, h3, h4, h5, h6⟩ := numStart_kind c0 hc
  unfold parseVal
  split
  · rename_i heq; injection heq with e _; exact absurd e h5
  · rename_i heq; injection heq with e _; exact absurd e h4
  · rename_i heq; injection heq with e _; exact absurd e h6
  · rename_i heq; injection heq with e _; exact absurd e h3
  · rename_i heq; injection heq with e _; exact absurd e h1
  · rename_i heq; injection heq with e _; exact absurd e h2
  · simp [h]

theorem parseElems_close_intro {n : Nat} {s r1 r : Bytes} {v : JVal} (hv : parseVal n s = some (v, r1))
    (hc : skipWs r1 = 93 :: r) : parseElems (n + 1) s = some ([v], r) := by
  unfold parseElems; simp [hv, hc]

theorem parseElems_comma_intro {n : Nat} {s r1 t r : Bytes} {v : JVal} {xs : List JVal} (hv : parseVal n s = some (v, r1))
    (hc : skipWs r1 = 44 :: t) (he : parseElems n (skipWs t) = some (xs, r)) :
    parseElems (n + 1) s = some (v :: xs, r) := by
  unfold parseElems; simp [hv, hc, he]

theorem parseMembers_close_intro {n : Nat} {t k r1 r2 r3 r : Bytes} {v : JVal} (hk : scanString t = some (k, r1))
    (h58 : skipWs r1 = 58 :: r2) (hv : parseVal n (skipWs r2) = some (v, r3)) (hc : skipWs r3 = 125 :: r) :
    parseMembers (n + 1) (34 :: t) = some ([(k, v)], r) := by
  unfold parseMembers; simp [hk, h58, hv, hc]

theorem parseMembers_comma_intro {n : Nat} {t k r1 r2 r3 t' r : Bytes} {v : JVal} {kvs : List (Bytes × JVal)}
    (hk : scanString t = some (k, r1)) (h58 : skipWs r1 = 58 :: r2) (hv : parseVal n (skipWs r2) = some (v, r3))
    (hc : skipWs r3 = 44 :: t') (hm : parseMembers n (skipWs t') = some (kvs, r)) :
    parseMembers (n + 1) (34 :: t) = some ((k, v) :: kvs, r) := by
  unfold parseMembers; simp [hk, h58, hv, hc, hm]

/-! ## the parser -/

theorem skipWs_ri : ∀ {t pre r : Bytes}, skipWs t = pre ++ r → pre ≠ [] →
    ∃ pt, pre.length ≤ pt.length ∧ t = pt ++ r ∧ ∀ r', skipWs (pt ++ r') = pre ++ r' := by
  intro t
  induction t with
  | nil =>
    intro pre r h hp
    cases pre with
    | nil => exact absurd rfl hp
    | cons a b => simp [skipWs] at h
  | cons a t0 ih =>
    intro pre r h hp
    by_cases ha : isSpace a = true
    · rw [skipWs_cons_of_space ha] at h
      obtain ⟨pt0, hl, e, hw⟩ := ih h hp
      refine ⟨a :: pt0, by simp; omega, by rw [e]; rfl, ?_⟩
      intro r'
      rw [List.cons_append, skipWs_cons_of_space ha]; exact hw r'
    · have ha' : isSpace a = false := by simpa using ha
      rw [skipWs_cons_of_not_space ha'] at h
      refine ⟨pre, Nat.le_refl _, h, ?_⟩
      intro r'
      cases pre with
      | nil => exact absurd rfl hp
      | cons p0 pre' =>
        injection h with h1 _
        subst h1
        rw [List.cons_append, skipWs_cons_of_not_space ha']

theorem skipWs_ri1 {t r : Bytes} {c : UInt8} (h : skipWs t = c :: r) :
    ∃ pt, 1 ≤ pt.length ∧ t = pt ++ r ∧ ∀ r', skipWs (pt ++ r') = c :: r' :=
  skipWs_ri (pre := [c]) h (by simp)

theorem space_not_numChar : ∀ c : UInt8, isSpace c = true → isNumChar c = false := by
  apply forall_uint8; decide +kernel

theorem stop_of_ws_prefix {pw : Bytes} {c : UInt8} (h : ∀ r', skipWs (pw ++ r') = c :: r') (hc : isNumChar c = false) :
    ∀ X, Stop (pw ++ X) := by
  intro X
  cases pw with
  | nil =>
    have := h []
    simp [skipWs] at this
  | cons a pw' =>
    apply NoHead.append_cons
    by_cases ha : isSpace a = true
    · exact space_not_numChar a ha
    · have ha' : isSpace a = false := by simpa using ha
      have := h []
      rw [List.append_nil, skipWs_cons_of_not_space ha'] at this
      injection this with h1 _
      rw [h1]; exact hc

/-- REST INDEPENDENCE of the strict parser (and fuel sufficiency: any fuel not below the number of
    bytes read will do) -/
theorem parse_ri : ∀ n,
    (∀ s v r, parseVal n s = some (v, r) →
      ∃ pre, 1 ≤ pre.length ∧ s = pre ++ r ∧ ∀ m, pre.length ≤ m → ∀ r', Stop r' → parseVal m (pre ++ r') = some (v, r')) ∧
    (∀ s xs r, parseElems n s = some (xs, r) →
      ∃ pre, 1 ≤ pre.length ∧ s = pre ++ r ∧ ∀ m, pre.length ≤ m → ∀ r', parseElems m (pre ++ r') = some (xs, r')) ∧
    (∀ s kvs r, parseMembers n s = some (kvs, r) →
      ∃ pre, 1 ≤ pre.length ∧ s = pre ++ r ∧ ∀ m, pre.length ≤ m → ∀ r', parseMembers m (pre ++ r') = some (kvs, r')) := by
  intro n
  induction n with
  | zero =>
    refine ⟨?_, ?_, ?_⟩
    · intro s v r h; rw [parseVal_zero] at h; cases h
    · intro s v r h; rw [parseElems_zero] at h; cases h
    · intro s v r h; rw [parseMembers_zero] at h; cases h
  | succ n ih =>
    obtain ⟨ihv, ihe, ihm⟩ := ih
    refine ⟨?_, ?_, ?_⟩
    · intro s v r h
      cases parseVal_inv h with
      | null hs hv =>
        subst hv
        refine ⟨[110, 117, 108, 108], by simp, hs, fun m hm r' _ => ?_⟩
        obtain ⟨m', rfl⟩ : ∃ m', m = m' + 1 := ⟨m - 1, by simp at hm; omega⟩
        unfold parseVal; rfl
      | tru hs hv =>
        subst hv
        refine ⟨[116, 114, 117, 101], by simp, hs, fun m hm r' _ => ?_⟩
        obtain ⟨m', rfl⟩ : ∃ m', m = m' + 1 := ⟨m - 1, by simp at hm; omega⟩
        unfold parseVal; rfl
      | fls hs hv =>
        subst hv
        refine ⟨[102, 97, 108, 115, 101], by simp, hs, fun m hm r' _ => ?_⟩
        obtain ⟨m', rfl⟩ : ∃ m', m = m' + 1 := ⟨m - 1, by simp at hm; omega⟩
        unfold parseVal; rfl
      | str t b hs hb hv =>
        subst hv
        refine ⟨34 :: (b ++ [34]), by simp, ?_, ?_⟩
        · rw [hs, strEnd_split t (strEnd_of_scanString t hb)]; simp
        · intro m hm r' _
          obtain ⟨m', rfl⟩ : ∃ m', m = m' + 1 := ⟨m - 1, by simp at hm; omega⟩
          have := scanString_ri t hb r'
          simpa using parseVal_str_intro m' this
      | arr0 t hs h0 hv =>
        subst hv
        obtain ⟨pt, _, e, hw⟩ := skipWs_ri1 h0
        refine ⟨91 :: pt, by simp, by rw [hs, e]; rfl, ?_⟩
        intro m hm r' _
        obtain ⟨m', rfl⟩ : ∃ m', m = m' + 1 := ⟨m - 1, by simp at hm; omega⟩
        exact parseVal_arr0_intro m' (hw r')
      | obj0 t hs h0 hv =>
        subst hv
        obtain ⟨pt, _, e, hw⟩ := skipWs_ri1 h0
        refine ⟨123 :: pt, by simp, by rw [hs, e]; rfl, ?_⟩
        intro m hm r' _
        obtain ⟨m', rfl⟩ : ∃ m', m = m' + 1 := ⟨m - 1, by simp at hm; omega⟩
        exact parseVal_obj0_intro m' (hw r')
      | arr t xs hs hne he hv =>
        subst hv
        obtain ⟨pe, hpe, e1, hri⟩ := ihe _ _ _ he
        have hpe' : pe ≠ [] := by intro e; simp [e] at hpe
        obtain ⟨pt, hlen, e2, hw⟩ := skipWs_ri e1 hpe'
        refine ⟨91 :: pt, by simp, by rw [hs, e2]; rfl, ?_⟩
        intro m hm r' _
        obtain ⟨m', rfl⟩ : ∃ m', m = m' + 1 := ⟨m - 1, by simp at hm; omega⟩
        have hm' : pe.length ≤ m' := by simp at hm; omega
        show parseVal (m' + 1) (91 :: (pt ++ r')) = some (JVal.arr xs, r')
        refine parseVal_arr_intro m' ?_ (by rw [hw r']; exact hri m' hm' r')
        intro t' heq
        rw [hw r'] at heq
        cases pe with
        | nil => exact hpe' rfl
        | cons p0 pe' =>
          injection heq with h1 _
          subst h1
          exact hne _ (by rw [e1]; rfl)
      | obj t kvs hs hne hm hv =>
        subst hv
        obtain ⟨pe, hpe, e1, hri⟩ := ihm _ _ _ hm
        have hpe' : pe ≠ [] := by intro e; simp [e] at hpe
        obtain ⟨pt, hlen, e2, hw⟩ := skipWs_ri e1 hpe'
        refine ⟨123 :: pt, by simp, by rw [hs, e2]; rfl, ?_⟩
        intro m hm r' _
        obtain ⟨m', rfl⟩ : ∃ m', m = m' + 1 := ⟨m - 1, by simp at hm; omega⟩
        have hm' : pe.length ≤ m' := by simp at hm; omega
        show parseVal (m' + 1) (123 :: (pt ++ r')) = some (JVal.obj kvs, r')
        refine parseVal_obj_intro m' ?_ (by rw [hw r']; exact hri m' hm' r')
        intro t' heq
        rw [hw r'] at heq
        cases pe with
        | nil => exact hpe' rfl
        | cons p0 pe' =>
          injection heq with h1 _
          subst h1
          exact hne _ (by rw [e1]; rfl)
      | num l hl hv =>
        subst hv
        obtain ⟨hs, _, c0, l', hl0, hc0⟩ := scanNumber_spec hl
        subst hl0
        refine ⟨c0 :: l', by simp, hs, ?_⟩
        intro m hm r' hr'
        obtain ⟨m', rfl⟩ : ∃ m', m = m' + 1 := ⟨m - 1, by simp at hm; omega⟩
        exact parseVal_num_intro m' hc0 (scanNumber_ri hl hr')
    · intro s xs r h
      obtain ⟨v, r1, hv, hrest⟩ := parseElems_inv h
      obtain ⟨pv, hpv, e1, hvri⟩ := ihv _ _ _ hv
      rcases hrest with ⟨t, xs', hc, he, rfl⟩ | ⟨hc, rfl⟩
      · obtain ⟨pw, hpw, e2, hw⟩ := skipWs_ri1 hc
        obtain ⟨pe, hpe, e3, heri⟩ := ihe _ _ _ he
        have hpe' : pe ≠ [] := by intro e; simp [e] at hpe
        obtain ⟨pt, hlen, e4, hwt⟩ := skipWs_ri e3 hpe'
        refine ⟨pv ++ (pw ++ pt), by simp; omega, by rw [e1, e2, e4]; simp, ?_⟩
        intro m hm r'
        obtain ⟨m', rfl⟩ : ∃ m', m = m' + 1 := ⟨m - 1, by simp at hm; omega⟩
        simp only [List.length_append] at hm
        have hstop : Stop (pw ++ (pt ++ r')) := stop_of_ws_prefix hw (by decide) _
        have := parseElems_comma_intro (hvri m' (by omega) _ hstop) (hw _) (by rw [hwt r']; exact heri m' (by omega) r')
        simpa using this
      · obtain ⟨pw, hpw, e2, hw⟩ := skipWs_ri1 hc
        refine ⟨pv ++ pw, by simp; omega, by rw [e1, e2]; simp, ?_⟩
        intro m hm r'
        obtain ⟨m', rfl⟩ : ∃ m', m = m' + 1 := ⟨m - 1, by simp at hm; omega⟩
        simp only [List.length_append] at hm
        have hstop : Stop (pw ++ r') := stop_of_ws_prefix hw (by decide) _
        have := parseElems_close_intro (hvri m' (by omega) _ hstop) (hw _)
        simpa using this
    · intro s kvs r h
      obtain ⟨t, k, r1, r2, v, r3, hs, hk, h58, hv, hrest⟩ := parseMembers_inv h
      have et : t = k ++ 34 :: r1 := strEnd_split t (strEnd_of_scanString t hk)
      obtain ⟨p1, hp1, e1, hw1⟩ := skipWs_ri1 h58
      obtain ⟨pv, hpv, e2, hvri⟩ := ihv _ _ _ hv
      have hpv' : pv ≠ [] := by intro e; simp [e] at hpv
      obtain ⟨p2, hl2, e3, hw2⟩ := skipWs_ri e2 hpv'
      rcases hrest with ⟨t', kvs', hc, hm, rfl⟩ | ⟨hc, rfl⟩
      · obtain ⟨p3, hp3, e4, hw3⟩ := skipWs_ri1 hc
        obtain ⟨pm, hpm, e5, hmri⟩ := ihm _ _ _ hm
        have hpm' : pm ≠ [] := by intro e; simp [e] at hpm
        obtain ⟨p4, hl4, e6, hw4⟩ := skipWs_ri e5 hpm'
        refine ⟨34 :: (k ++ 34 :: (p1 ++ (p2 ++ (p3 ++ p4)))), by simp, by rw [hs, et, e1, e3, e4, e6]; simp, ?_⟩
        intro m hmm r'
        obtain ⟨m', rfl⟩ : ∃ m', m = m' + 1 := ⟨m - 1, by simp at hmm; omega⟩
        simp only [List.length_append, List.length_cons] at hmm
        have hstop : Stop (p3 ++ (p4 ++ r')) := stop_of_ws_prefix hw3 (by decide) _
        have := parseMembers_comma_intro (n := m') (scanString_ri t hk (p1 ++ (p2 ++ (p3 ++ (p4 ++ r'))))) (hw1 _)
          (by rw [hw2]; exact hvri m' (by omega) _ hstop) (hw3 _) (by rw [hw4 r']; exact hmri m' (by omega) r')
        simpa using this
      · obtain ⟨p3, hp3, e4, hw3⟩ := skipWs_ri1 hc
        refine ⟨34 :: (k ++ 34 :: (p1 ++ (p2 ++ p3))), by simp, by rw [hs, et, e1, e3, e4]; simp, ?_⟩
        intro m hmm r'
        obtain ⟨m', rfl⟩ : ∃ m', m = m' + 1 := ⟨m - 1, by simp at hmm; omega⟩
        simp only [List.length_append, List.length_cons] at hmm
        have hstop : Stop (p3 ++ r') := stop_of_ws_prefix hw3 (by decide) _
        have := parseMembers_close_intro (n := m') (scanString_ri t hk (p1 ++ (p2 ++ (p3 ++ r')))) (hw1 _)
          (by rw [hw2]; exact hvri m' (by omega) _ hstop) (hw3 _)
        simpa using this

/-! ## the raw slice read on its own -/

theorem numStart_not_space : ∀ c : UInt8, (c = 45 ∨ isDigit c = true) → isSpace c = false := by
  apply forall_uint8; decide +kernel

theorem parseVal_head_not_space {n : Nat} {s : Bytes} {v : JVal} {r : Bytes} (h : parseVal n s = some (v, r)) :
    skipWs s = s := by
  cases n with
  | zero => rw [parseVal_zero] at h; cases h
  | succ n =>
    cases parseVal_inv h with
    | null hs _ => rw [hs]; exact skipWs_cons_of_not_space (by decide)
    | tru hs _ => rw [hs]; exact skipWs_cons_of_not_space (by decide)
    | fls hs _ => rw [hs]; exact skipWs_cons_of_not_space (by decide)
    | str t b hs _ _ => rw [hs]; exact skipWs_cons_of_not_space (by decide)
    | arr0 t hs _ _ => rw [hs]; exact skipWs_cons_of_not_space (by decide)
    | arr t xs hs _ _ _ => rw [hs]; exact skipWs_cons_of_not_space (by decide)
    | obj0 t hs _ _ => rw [hs]; exact skipWs_cons_of_not_space (by decide)
    | obj t kvs hs _ _ _ => rw [hs]; exact skipWs_cons_of_not_space (by decide)
    | num l hl _ =>
      obtain ⟨hs, _, c0, l', hl0, hc0⟩ := scanNumber_spec hl
      subst hl0
      rw [hs]; exact skipWs_cons_of_not_space (numStart_not_space c0 hc0)

/-- the bytes the parser consumed for a value, read as a document of their own, are that value -/
theorem parseDoc_raw {m : Nat} {st : Bytes} {w : JVal} {rest : Bytes} (h : parseVal m st = some (w, rest)) :
    parseDoc (rawOf (st, rest)) = some w := by
  obtain ⟨pre, hlen, e, hri⟩ := (parse_ri m).1 _ _ _ h
  have hp := hri (pre.length + 1) (by omega) [] (NoHead.nil _)
  rw [List.append_nil] at hp
  subst e
  rw [rawOf_append]
  unfold parseDoc
  rw [parseVal_head_not_space hp, hp]
  simp [skipWs]

/-! ## glue for the property theorems -/

theorem at_of_parseDoc {s : Bytes} {d : JVal} (h : parseDoc s = some d) (hk : keysWF d = true) :
    ∃ r, At (s.length + 1) d s r := by
  unfold parseDoc at h
  split at h
  · rename_i v r hp
    split at h
    · rename_i he
      cases h
      exact ⟨r, s.length + 1, Nat.le_refl _, hp, numFollow_of_skipWs_nil (by simpa using he), hk⟩
    · cases h
  · cases h

theorem locateR_append (d : JVal) (q p : Path) :
    locateR d (q ++ p) = match locateR d q with
      | .found v => locateR v p
      | .notFound => .notFound
      | .inval => .inval
      | .eof => .eof
      | .badPath => .badPath := by
  induction q generalizing d with
  | nil => simp [locateR]
  | cons e q ih =>
    cases e with
    | key k =>
      cases d <;> simp only [List.cons_append, locateR]
      rename_i kvs
      cases lookupKey k kvs <;> simp [ih]
    | idx i =>
      cases d <;> simp only [List.cons_append, locateR]
      rename_i xs
      by_cases hi : i < 0
      · simp [hi]
      · simp only [hi, if_false]
        cases xs[i.toNat]? <;> simp [ih]

end SonicSpec.Search
