/-
  Helper lemmas of the C18 work package, part 4: the two post-passes of `encoder.Encode` commute -
  HTML escaping (`Str.htmlEscape`) and the replacement of ill-formed UTF-8 (`Str.correctWith repl`, for a
  replacement text made of ASCII bytes other than `<`, `>`, `&`), on every byte string.
-/
import SonicSpec.Model.Opts
import SonicSpec.Proofs.StrHtml
import SonicSpec.Proofs.StrUtf8
namespace SonicSpec.Opts
open SonicSpec SonicSpec.Str

/-- `b :: t` starts with E2 80 A8 or E2 80 A9 -/
def lsps (b : UInt8) (t : Bytes) : Bool :=
  match t with
  | x :: y :: _ => b == 226 && x == 128 && (y == 168 || y == 169)
  | _ => false

theorem html_cons_nopat (b : UInt8) (t : Bytes) (h : lsps b t = false) :
    htmlEscape (b :: t) = htmlByte b ++ htmlEscape t := by
  match t, h with
  | [], _ => exact htmlEscape_short b [] (by intro _ _ _ e; cases e)
  | [x], _ => exact htmlEscape_short b [x] (by intro _ _ _ e; cases e)
  | x :: y :: t', h =>
    simp only [lsps] at h
    apply htmlEscape_other
    · intro h1; simp only [Bool.and_eq_true, beq_iff_eq] at h1
      obtain ⟨⟨rfl, rfl⟩, rfl⟩ := h1; simp at h
    · intro h1; simp only [Bool.and_eq_true, beq_iff_eq] at h1
      obtain ⟨⟨rfl, rfl⟩, rfl⟩ := h1; simp at h

theorem lsps_false_of_ne (b : UInt8) (t : Bytes) (h : b ≠ 226) : lsps b t = false := by
  unfold lsps; split <;> simp [h]

theorem htmlByte_plain (b : UInt8) (h : b ≠ 60 ∧ b ≠ 62 ∧ b ≠ 38) : htmlByte b = [b] := by
  simp [htmlByte, h.1, h.2.1, h.2.2]

theorem htmlByte_hi (b : UInt8) (h : 128 ≤ b.toNat) : htmlByte b = [b] := by
  apply htmlByte_plain
  refine ⟨?_, ?_, ?_⟩ <;> (intro e; subst e; simp at h)

theorem htmlByte_ascii (b : UInt8) (h : b.toNat < 128) : ∀ c ∈ htmlByte b, c.toNat < 128 := by
  unfold htmlByte
  split
  · decide
  · split
    · decide
    · split
      · decide
      · intro c hc; simp only [List.mem_singleton] at hc; subst hc; exact h

theorem html_plain_append : ∀ (l r : Bytes), (∀ b ∈ l, b ≠ 226 ∧ b ≠ 60 ∧ b ≠ 62 ∧ b ≠ 38) →
    htmlEscape (l ++ r) = l ++ htmlEscape r
  | [], _, _ => rfl
  | b :: l, r, h => by
    have hb := h b (List.mem_cons_self ..)
    rw [List.cons_append, html_cons_nopat b _ (lsps_false_of_ne b _ hb.1), htmlByte_plain b hb.2,
      html_plain_append l r (fun c hc => h c (List.mem_cons_of_mem _ hc))]
    rfl

theorem html_plain_cons (c : UInt8) (r : Bytes) (h : c ≠ 226 ∧ c ≠ 60 ∧ c ≠ 62 ∧ c ≠ 38) :
    htmlEscape (c :: r) = c :: htmlEscape r :=
  html_plain_append [c] r (by intro b hb; simp only [List.mem_singleton] at hb; subst hb; exact h)

theorem cont_plain (c : UInt8) (h1 : 128 ≤ c.toNat) (h2 : c.toNat < 192) : c ≠ 226 ∧ c ≠ 60 ∧ c ≠ 62 ∧ c ≠ 38 := by
  refine ⟨?_, ?_, ?_, ?_⟩ <;> (intro e; subst e; simp at h1 h2)

/-- a continuation byte at the head of the escaped text is a byte of the input, copied -/
theorem html_cont_head (t : Bytes) (c : UInt8) (u : Bytes) (h1 : 128 ≤ c.toNat)
    (h : htmlEscape t = c :: u) : ∃ t', t = c :: t' ∧ htmlEscape t' = u := by
  match t with
  | [] => rw [htmlEscape_nil] at h; cases h
  | x :: rest =>
    rcases htmlEscape_head x rest with hh | hh
    · rw [h] at hh; simp only [List.head?_cons, Option.some.injEq] at hh; subst hh; simp at h1
    · rw [hh] at h; injection h with e1 e2; subst e1; exact ⟨rest, rfl, e2⟩

theorem correct_ascii_append (repl : Bytes) : ∀ (l x : Bytes), (∀ b ∈ l, b.toNat < 128) →
    correctWith repl (l ++ x) = l ++ correctWith repl x
  | [], _, _ => rfl
  | b :: l, x, h => by
    have hb := h b (List.mem_cons_self ..)
    rw [List.cons_append, correctWith_cons, seqLen_one b _ hb]
    simp only [Nat.succ_ne_zero, beq_iff_eq, if_false, List.take_succ_cons, List.take_zero, List.drop_succ_cons, List.drop_zero]
    rw [correct_ascii_append repl l x (fun c hc => h c (List.mem_cons_of_mem _ hc))]
    rfl

theorem correct_two (repl : Bytes) (b0 b1 : UInt8) (t : Bytes) (h0 : 194 ≤ b0.toNat) (h0' : b0.toNat < 224)
    (h1 : 128 ≤ b1.toNat) (h1' : b1.toNat < 192) :
    correctWith repl (b0 :: b1 :: t) = b0 :: b1 :: correctWith repl t := by
  rw [correctWith_cons, seqLen_two b0 b1 t h0 h0' h1 h1']; rfl

theorem correct_three (repl : Bytes) (b0 b1 b2 : UInt8) (t : Bytes) (h0 : 224 ≤ b0.toNat) (h0' : b0.toNat < 240)
    (h1 : 128 ≤ b1.toNat) (h1' : b1.toNat < 192) (h2 : 128 ≤ b2.toNat) (h2' : b2.toNat < 192)
    (ha : b0.toNat = 224 → 160 ≤ b1.toNat) (hb : b0.toNat = 237 → b1.toNat < 160) :
    correctWith repl (b0 :: b1 :: b2 :: t) = b0 :: b1 :: b2 :: correctWith repl t := by
  rw [correctWith_cons, seqLen_three b0 b1 b2 t h0 h0' h1 h1' h2 h2' ha hb]; rfl

theorem correct_four (repl : Bytes) (b0 b1 b2 b3 : UInt8) (t : Bytes) (h0 : 240 ≤ b0.toNat) (h0' : b0.toNat < 245)
    (h1 : 128 ≤ b1.toNat) (h1' : b1.toNat < 192) (h2 : 128 ≤ b2.toNat) (h2' : b2.toNat < 192)
    (h3 : 128 ≤ b3.toNat) (h3' : b3.toNat < 192)
    (ha : b0.toNat = 240 → 144 ≤ b1.toNat) (hb : b0.toNat = 244 → b1.toNat < 144) :
    correctWith repl (b0 :: b1 :: b2 :: b3 :: t) = b0 :: b1 :: b2 :: b3 :: correctWith repl t := by
  rw [correctWith_cons, seqLen_four b0 b1 b2 b3 t h0 h0' h1 h1' h2 h2' h3 h3' ha hb]; rfl

/-- an ill-formed head stays ill-formed when the rest is HTML-escaped -/
theorem seqLen_html_zero (b : UInt8) (t : Bytes) (h : seqLen (b :: t) = 0) : seqLen (b :: htmlEscape t) = 0 := by
  by_cases hz : seqLen (b :: htmlEscape t) = 0
  · exact hz
  · exfalso
    have hw := WF_of_seqLen _ hz
    generalize seqLen (b :: htmlEscape t) = n at hw
    generalize he : htmlEscape t = e at hw
    cases hw with
    | one _ _ hb => rw [seqLen_one b t hb] at h; cases h
    | two _ b1 u a a' c c' =>
      obtain ⟨t1, rfl, _⟩ := html_cont_head t b1 u c he
      rw [seqLen_two b b1 t1 a a' c c'] at h; cases h
    | three _ b1 b2 u a a' c c' d d' f g =>
      obtain ⟨t1, rfl, h1⟩ := html_cont_head t b1 _ c he
      obtain ⟨t2, rfl, _⟩ := html_cont_head t1 b2 u d h1
      rw [seqLen_three b b1 b2 t2 a a' c c' d d' f g] at h; cases h
    | four _ b1 b2 b3 u a a' c c' d d' e e' f g =>
      obtain ⟨t1, rfl, h1⟩ := html_cont_head t b1 _ c he
      obtain ⟨t2, rfl, h2⟩ := html_cont_head t1 b2 _ d h1
      obtain ⟨t3, rfl, _⟩ := html_cont_head t2 b3 u e h2
      rw [seqLen_four b b1 b2 b3 t3 a a' c c' d d' e e' f g] at h; cases h

/-- the hypotheses on the replacement text: ASCII, and none of the bytes HTML escaping rewrites -/
def ReplOk (repl : Bytes) : Prop := ∀ b ∈ repl, b.toNat < 128 ∧ b ≠ 60 ∧ b ≠ 62 ∧ b ≠ 38

theorem replOk_plain {repl : Bytes} (hr : ReplOk repl) : ∀ b ∈ repl, b ≠ 226 ∧ b ≠ 60 ∧ b ≠ 62 ∧ b ≠ 38 := by
  intro b hb
  obtain ⟨h1, h2⟩ := hr b hb
  exact ⟨by intro e; subst e; simp at h1, h2⟩

theorem html_correct_comm_aux (repl : Bytes) (hr : ReplOk repl) : ∀ (n : Nat) (s : Bytes), s.length ≤ n →
    htmlEscape (correctWith repl s) = correctWith repl (htmlEscape s)
  | _, [], _ => by rw [correctWith_nil, htmlEscape_nil, correctWith_nil]
  | 0, _ :: _, h => by simp at h
  | n + 1, b :: t, hl => by
    have hlt : t.length ≤ n := by simpa using hl
    have ih := fun (u : Bytes) (hu : u.length ≤ n) => html_correct_comm_aux repl hr n u hu
    by_cases hb : b.toNat < 128
    · -- an ASCII byte: its image is ASCII
      have hne : b ≠ 226 := by intro e; subst e; simp at hb
      have hc : correctWith repl (b :: t) = b :: correctWith repl t := by
        rw [correctWith_cons, seqLen_one b t hb]; rfl
      rw [hc, html_cons_nopat b _ (lsps_false_of_ne b _ hne), html_cons_nopat b _ (lsps_false_of_ne b _ hne),
        correct_ascii_append repl _ _ (htmlByte_ascii b hb), ih t hlt]
    · have hb' : 128 ≤ b.toNat := Nat.le_of_not_lt hb
      by_cases hp : lsps b t = true
      · -- E2 80 A8 / E2 80 A9
        match t, hp with
        | x :: y :: t', hp =>
          simp only [lsps, Bool.and_eq_true, beq_iff_eq, Bool.or_eq_true] at hp
          obtain ⟨⟨rfl, rfl⟩, hy⟩ := hp
          have hlt' : t'.length ≤ n := by simp at hlt; omega
          have hc : correctWith repl (226 :: 128 :: y :: t') = 226 :: 128 :: y :: correctWith repl t' := by
            apply correct_three <;> rcases hy with rfl | rfl <;> simp
          rw [hc]
          rcases hy with rfl | rfl
          · rw [htmlEscape_ls 226 128 168 _ rfl, htmlEscape_ls 226 128 168 _ rfl,
              correct_ascii_append repl _ _ (by decide), ih t' hlt']
          · rw [htmlEscape_ps 226 128 169 _ (by decide) rfl, htmlEscape_ps 226 128 169 _ (by decide) rfl,
              correct_ascii_append repl _ _ (by decide), ih t' hlt']
      · have hp' : lsps b t = false := by simpa using hp
        have hh : htmlEscape (b :: t) = b :: htmlEscape t := by
          rw [html_cons_nopat b t hp', htmlByte_hi b hb']; rfl
        rw [hh]
        by_cases hz : seqLen (b :: t) = 0
        · -- an ill-formed byte: replaced on both sides
          rw [correctWith_cons, correctWith_cons, hz, seqLen_html_zero b t hz]
          simp only [beq_self_eq_true, if_true]
          rw [html_plain_append repl _ (replOk_plain hr), ih t hlt]
        · -- a well-formed multi-byte sequence other than U+2028/9: copied on both sides
          have hw := WF_of_seqLen _ hz
          generalize seqLen (b :: t) = k at hw
          cases hw with
          | one _ _ h1 => exact absurd h1 hb
          | two _ b1 u a a' c c' =>
            have hlu : u.length ≤ n := by simp at hlt; omega
            have p1 := cont_plain b1 c c'
            rw [correct_two repl b b1 u a a' c c',
              html_cons_nopat b _ (lsps_false_of_ne b _ (by intro e; subst e; simp at a')), htmlByte_hi b hb']
            simp only [html_plain_cons b1 _ p1, List.singleton_append]
            rw [correct_two repl b b1 _ a a' c c', ih u hlu]
          | three _ b1 b2 u a a' c c' d d' f g =>
            have hlu : u.length ≤ n := by simp at hlt; omega
            have p1 := cont_plain b1 c c'
            have p2 := cont_plain b2 d d'
            have hp2 : lsps b (b1 :: b2 :: correctWith repl u) = false := by simpa [lsps] using hp'
            rw [correct_three repl b b1 b2 u a a' c c' d d' f g, html_cons_nopat b _ hp2, htmlByte_hi b hb']
            simp only [html_plain_cons b1 _ p1, html_plain_cons b2 _ p2, List.singleton_append]
            rw [correct_three repl b b1 b2 _ a a' c c' d d' f g, ih u hlu]
          | four _ b1 b2 b3 u a a' c c' d d' e e' f g =>
            have hlu : u.length ≤ n := by simp at hlt; omega
            have p1 := cont_plain b1 c c'
            have p2 := cont_plain b2 d d'
            have p3 := cont_plain b3 e e'
            rw [correct_four repl b b1 b2 b3 u a a' c c' d d' e e' f g,
              html_cons_nopat b _ (lsps_false_of_ne b _ (by intro e; subst e; simp at a)), htmlByte_hi b hb']
            simp only [html_plain_cons b1 _ p1, html_plain_cons b2 _ p2, html_plain_cons b3 _ p3, List.singleton_append]
            rw [correct_four repl b b1 b2 b3 _ a a' c c' d d' e e' f g, ih u hlu]

/-- HTML escaping and the replacement of ill-formed UTF-8 commute on every byte string -/
theorem html_correct_comm (repl : Bytes) (hr : ReplOk repl) (s : Bytes) :
    htmlEscape (correctWith repl s) = correctWith repl (htmlEscape s) :=
  html_correct_comm_aux repl hr s.length s (Nat.le_refl _)

theorem replEsc_ok : ReplOk replEsc := by
  intro b hb
  simp only [replEsc, List.mem_cons, List.not_mem_nil, or_false] at hb
  rcases hb with rfl | rfl | rfl | rfl | rfl | rfl <;> decide

end SonicSpec.Opts
