/-
  Decoder IR: one-instruction rules of the machine (unbounded stack) in continuation form, and the shape of the
  simulation statements (`Tol`, `Post`, `Sim`).
-/
import SonicSpec.Proofs.DirStream
namespace SonicSpec.Dir
open SonicSpec SonicSpec.Go SonicSpec.Json SonicSpec.Bind SonicSpec.Stream

variable {o : DecOpts} {co : COpts} {P : Program} {R : Out → Prop}

/-- `R` accepts every failing run -/
def Tol (R : Out → Prop) : Prop := ∀ x, R (.error x)

/-- the state after the value at VP has been decoded: input advanced to `r`, `v` stored, stack as before, error saved -/
def Post (σ : St) (v : GoVal) (e : Option DErr) (r : Bytes) (σ' : St) : Prop :=
  σ'.inp = r ∧ σ'.root = setAt σ.root σ.vp v ∧ σ'.stack = σ.stack ∧ σ'.et = merge σ.et e

/-- the code `c` at `pc` does what the specification's result `(v, e, r)` says; a run that fails is allowed only
    when the specification saved an error (`e ≠ none`) -/
def Sim (o : DecOpts) (co : COpts) (P : Program) (pc : Nat) (c : Program) (σ : St) (v : GoVal) (e : Option DErr) (r : Bytes) : Prop :=
  ∀ R : Out → Prop, (e ≠ none → Tol R) → (∀ σ', Post σ v e r σ' → Ends o co none R P (pc + c.length) σ') → Ends o co none R P pc σ

theorem e_lspace {pc : Nat} {σ : St} {c : UInt8} {r : Bytes} (hf : P[pc]? = some .lspace) (h : skipWs σ.inp = c :: r)
    (k : Ends o co none R P (pc + 1) { σ with inp := c :: r }) : Ends o co none R P pc σ :=
  ends_step hf (by simp only [step, h]) k

theorem e_isNull_hit {pc t : Nat} {σ : St} {r : Bytes} (hf : P[pc]? = some (.isNull t)) (h : isNullLit σ.inp = some r)
    (k : Ends o co none R P t { σ with inp := r }) : Ends o co none R P pc σ :=
  ends_step hf (by simp only [step, h]) k

theorem e_isNull_miss {pc t : Nat} {σ : St} (hf : P[pc]? = some (.isNull t)) (h : isNullLit σ.inp = none)
    (k : Ends o co none R P (pc + 1) σ) : Ends o co none R P pc σ :=
  ends_step hf (by simp only [step, h]) k

theorem e_checkChar_hit {pc t : Nat} {σ : St} {c : UInt8} {r : Bytes} (hf : P[pc]? = some (.checkChar t c)) (h : σ.inp = c :: r)
    (k : Ends o co none R P t { σ with inp := r }) : Ends o co none R P pc σ :=
  ends_step hf (by simp only [step, h, beq_self_eq_true, if_true]) k

theorem e_checkChar_miss {pc t : Nat} {σ : St} {b c : UInt8} {r : Bytes} (hf : P[pc]? = some (.checkChar t c)) (h : σ.inp = b :: r) (hne : b ≠ c)
    (k : Ends o co none R P (pc + 1) σ) : Ends o co none R P pc σ :=
  ends_step hf (by simp only [step, h]; rw [if_neg (by simpa using hne)]) k

theorem e_checkChar0_hit {pc t : Nat} {σ : St} {c : UInt8} {r : Bytes} (hf : P[pc]? = some (.checkChar0 t c)) (h : σ.inp = c :: r)
    (k : Ends o co none R P t σ) : Ends o co none R P pc σ :=
  ends_step hf (by simp only [step, h, beq_self_eq_true, if_true]) k

theorem e_checkChar0_miss {pc t : Nat} {σ : St} {b c : UInt8} {r : Bytes} (hf : P[pc]? = some (.checkChar0 t c)) (h : σ.inp = b :: r) (hne : b ≠ c)
    (k : Ends o co none R P (pc + 1) σ) : Ends o co none R P pc σ :=
  ends_step hf (by simp only [step, h]; rw [if_neg (by simpa using hne)]) k

theorem e_matchChar {pc : Nat} {σ : St} {c : UInt8} {r : Bytes} (hf : P[pc]? = some (.matchChar c)) (h : σ.inp = c :: r)
    (k : Ends o co none R P (pc + 1) { σ with inp := r }) : Ends o co none R P pc σ :=
  ends_step hf (by simp only [step, h, beq_self_eq_true, if_true]) k

theorem e_add1 {pc : Nat} {σ : St} {c : UInt8} {r : Bytes} (hf : P[pc]? = some (.add 1)) (h : σ.inp = c :: r)
    (k : Ends o co none R P (pc + 1) { σ with inp := r }) : Ends o co none R P pc σ :=
  ends_step hf (by simp only [step, h, List.drop_succ_cons, List.drop_zero]) k

theorem e_goto {pc t : Nat} {σ : St} (hf : P[pc]? = some (.goto t)) (k : Ends o co none R P t σ) : Ends o co none R P pc σ :=
  ends_step hf (by simp only [step]) k

theorem e_dismatch {pc : Nat} {σ : St} {T : GoType} (hf : P[pc]? = some (.dismatchErr T))
    (k : Ends o co none R P (pc + 1) { σ with ic := σ.inp, et := merge σ.et (some .mismatch) }) : Ends o co none R P pc σ :=
  ends_step hf (by simp only [step]) k

theorem e_goSkip {pc t : Nat} {σ : St} {r : Bytes} (hf : P[pc]? = some (.goSkip t))
    (h : skipVal o.validateString (skipFuel σ.ic) σ.ic = some r)
    (k : Ends o co none R P t { σ with inp := r }) : Ends o co none R P pc σ :=
  ends_step hf (by simp only [step, skipTo, h]) k

theorem e_load {pc : Nat} {σ : St} {f : Frame} {rest : List Frame} (hf : P[pc]? = some .load) (h : σ.stack = f :: rest)
    (k : Ends o co none R P (pc + 1) { σ with vp := f.vp }) : Ends o co none R P pc σ :=
  ends_step hf (by simp only [step, h]) k

theorem e_save {pc : Nat} {σ : St} {enter : Bool} (hf : P[pc]? = some (.save enter))
    (k : Ends o co none R P (pc + 1) { σ with stack := { vp := σ.vp, n := 0 } :: σ.stack, vp := if enter then σ.vp ++ [.child 0] else σ.vp }) :
    Ends o co none R P pc σ :=
  ends_step hf (by simp only [step]; rfl) k

theorem e_index {pc : Nat} {σ : St} {sel : List Nat} {off : Nat} (hf : P[pc]? = some (.index sel off))
    (k : Ends o co none R P (pc + 1) { σ with vp := σ.vp ++ sel.map .child }) : Ends o co none R P pc σ :=
  ends_step hf (by simp only [step]) k

theorem e_nil1 {pc : Nat} {σ : St} (hf : P[pc]? = some .nil1) (k : Ends o co none R P (pc + 1) (σ.put .nil)) : Ends o co none R P pc σ :=
  ends_step hf (by simp only [step]) k

theorem e_nil3 {pc : Nat} {σ : St} (hf : P[pc]? = some .nil3) (k : Ends o co none R P (pc + 1) (σ.put .nil)) : Ends o co none R P pc σ :=
  ends_step hf (by simp only [step]) k

/-- `checkIfSkip` when the first byte is the expected one: on to the instruction behind it, the byte consumed -/
theorem e_chk_hit {pc skip : Nat} {σ : St} {T : GoType} {c : UInt8} {r : Bytes} (hat : At P pc (chk pc T c skip)) (h : σ.inp = c :: r)
    (k : Ends o co none R P (pc + 4) { σ with inp := r }) : Ends o co none R P pc σ := by
  refine e_checkChar0_hit (hat.get 0 rfl) h ?_
  exact e_add1 (hat.get 3 rfl) h k

/-- `checkIfSkip` when the value is of another kind: the mismatch is saved, the value skipped, on at `skip` -/
theorem e_chk_miss {pc skip : Nat} {σ : St} {T : GoType} {b c : UInt8} {r r' : Bytes} (hat : At P pc (chk pc T c skip)) (h : σ.inp = b :: r) (hne : b ≠ c)
    (hs : skipVal o.validateString (skipFuel σ.inp) σ.inp = some r')
    (k : Ends o co none R P skip { σ with inp := r', ic := σ.inp, et := merge σ.et (some .mismatch) }) : Ends o co none R P pc σ := by
  refine e_checkChar0_miss (hat.get 0 rfl) h hne ?_
  refine e_dismatch (hat.get 1 rfl) ?_
  exact e_goSkip (hat.get 2 rfl) hs k

end SonicSpec.Dir
