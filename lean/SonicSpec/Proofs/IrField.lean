/-
  Encoder IR, compiler correctness (4): helper facts for struct fields - the omitempty tests against isEmptyV,
  the resolver's list aligned with the declaration, the quoted leaves, the member writer with its comma flag.
-/
import SonicSpec.Proofs.IrArray
namespace SonicSpec.Ir
open SonicSpec SonicSpec.Go SonicSpec.Enc SonicSpec.Json
variable {o : EncOpts} {co : COpts}

/-! ### omitempty: the machine's tests against `isEmptyV` -/

theorem f64_zero_test (x : UInt64) (h : (x == 0x8000000000000000) = false) : (x == 0) = floatIsZero64 x := by
  unfold floatIsZero64
  have hlt := x.toNat_lt
  have h1 : x.toNat ≠ 9223372036854775808 := by
    intro hc
    have : x = 0x8000000000000000 := UInt64.toNat_inj.mp (by simpa using hc)
    simp [this] at h
  by_cases h0 : x = 0
  · subst h0; rfl
  · have h2 : x.toNat ≠ 0 := by
      intro hc
      exact h0 (UInt64.toNat_inj.mp (by simpa using hc))
    have : (x == 0) = false := by simpa using h0
    rw [this]
    symm
    simp only [beq_eq_false_iff_ne, ne_eq]
    omega

theorem f32_zero_test (x : UInt32) (h : (x == 0x80000000) = false) : (x == 0) = floatIsZero32 x := by
  unfold floatIsZero32
  have hlt := x.toNat_lt
  have h1 : x.toNat ≠ 2147483648 := by
    intro hc
    have : x = 0x80000000 := UInt32.toNat_inj.mp (by simpa using hc)
    simp [this] at h
  by_cases h0 : x = 0
  · subst h0; rfl
  · have h2 : x.toNat ≠ 0 := by
      intro hc
      exact h0 (UInt32.toNat_inj.mp (by simpa using hc))
    have : (x == 0) = false := by simpa using h0
    rw [this]
    symm
    simp only [beq_eq_false_iff_ne, ne_eq]
    omega


theorem jumpIf_congr {c d : Bool} (h : c = d) (t pc : Nat) (r : Regs) (s : Stack) (b : Bytes) :
    jumpIf c t pc r s b = jumpIf d t pc r s b := by rw [h]

/-- compileStructFieldEmpty's instruction decides exactly `isEmptyV` (the specification's omitempty rule) -/
theorem emptyTest_step {c0 : COpts} {t : GoType} {v : GoVal} (hC : Conf c0 t v = true) (hnz : negZero v = false)
    {mk : Nat → Instr} (hmk : emptyTest t = some mk) (tgt pc : Nat) (r : Regs) (s : Stack) (b : Bytes) (hg : r.p.get = some v) :
    step o (mk tgt) pc r s b = jumpIf (isEmptyV t v) tgt pc r s b := by
  cases t <;> simp only [emptyTest] at hmk <;> try (cases hmk; done)
  all_goals (injection hmk with hmk; subst hmk)
  all_goals (cases v <;> try (simp [Conf] at hC; done))
  all_goals try (simp [step, hg, isEmptyV, jumpIf]; done)
  case int.int bits n =>
    unfold isZeroOp
    split
    · simp [step, hg, isEmptyV]
    · split
      · simp [step, hg, isEmptyV]
      · split <;> simp [step, hg, isEmptyV]
  case uint.uint bits n =>
    unfold isZeroOp
    split
    · simp [step, hg, isEmptyV]
    · split
      · simp [step, hg, isEmptyV]
      · split <;> simp [step, hg, isEmptyV]
  case f32.f32 x =>
    simp only [negZero] at hnz
    simp only [step, hg, isEmptyV]
    exact jumpIf_congr (f32_zero_test x hnz) _ _ _ _ _
  case f64.f64 x =>
    simp only [negZero] at hnz
    simp only [step, hg, isEmptyV]
    exact jumpIf_congr (f64_zero_test x hnz) _ _ _ _ _


/-- no test is compiled for arrays and structs: such a field is never empty unless it is the skipped `[0]T` -/
theorem emptyTest_none {c0 : COpts} {t : GoType} {v : GoVal} {f : Field} (hC : Conf c0 t v = true) (hmk : emptyTest t = none)
    (hskip : skipField f t = false) (hom : f.omitEmpty = true) : isEmptyV t v = false := by
  cases t <;> simp only [emptyTest] at hmk <;> try (cases hmk; done)
  all_goals (cases v <;> try (simp [Conf] at hC; done))
  case arr.arr n t xs =>
    simp only [Conf, Bool.and_eq_true, beq_iff_eq] at hC
    cases xs with
    | nil =>
      simp only [List.length_nil] at hC
      have := hC.1
      subst this
      simp [skipField, hom] at hskip
    | cons x r => simp [isEmptyV]
  case st.st => simp [isEmptyV]
  case lib.st => simp [isEmptyV]
  case lib.lib => simp [isEmptyV]

/-! ### the resolver's field list is aligned with the declaration -/

def Aligned : List (String × Option Bytes × GoType) → List (Option Field) → Prop
  | [], [] => True
  | (_, _, t) :: fs, k :: ks => (∀ f, k = some f → f.typ = t ∧ (f.quoted = true → quotedOK t = true)) ∧ Aligned fs ks
  | _, _ => False

theorem fieldOf_spec {n : String} {tg : Option Bytes} {t : GoType} {f : Field} (h : fieldOf n tg t = some (some f)) :
    f.typ = t ∧ (f.quoted = true → quotedOK t = true) := by
  unfold fieldOf at h
  split at h
  · injection h with h; injection h with h; subst h; simp
  · split at h
    · cases h
    · simp only at h
      split at h
      · cases h
      · injection h with h; injection h with h; subst h
        simp

theorem fieldsOf_aligned (p : Field → Bool) : ∀ (fs : List (String × Option Bytes × GoType)) (all : List (Option Field)),
    fieldsOf fs = some all →
    Aligned fs (all.map fun g => match g with | some f => if p f then some f else none | none => none) := by
  intro fs
  induction fs with
  | nil =>
    intro all h
    simp only [fieldsOf] at h
    injection h with h; subst h
    trivial
  | cons d fs ih =>
    intro all h
    obtain ⟨n, tg, t⟩ := d
    simp only [fieldsOf] at h
    split at h
    · rename_i g gs hg hgs
      injection h with h; subst h
      simp only [List.map_cons, Aligned]
      refine ⟨?_, ih gs hgs⟩
      intro f hf
      cases g with
      | none => simp at hf
      | some f0 =>
        simp only at hf
        split at hf
        · injection hf with hf; subst hf
          exact fieldOf_spec hg
        · cases hf
    · cases h

theorem keepList_aligned {fs : List (String × Option Bytes × GoType)} {ks : List (Option Field)} (h : keepList fs = some ks) :
    Aligned fs ks := by
  unfold keepList at h
  cases hf : fieldsOf fs with
  | none => rw [hf] at h; cases h
  | some all =>
    rw [hf] at h
    simp only [Option.map] at h
    injection h with h; subst h
    exact fieldsOf_aligned (dominant all) fs all hf


/-! ### `,string` -/

theorem quotedLeaf_eq {c0 : COpts} {t : GoType} {v : GoVal} (addr : Bool) (hs : stringable t = true) (hn : isStrT t = false) (hC : Conf c0 t v = true) :
    (quotedLeaf o t v).map render = (encV o addr t v).map (fun j => 34 :: (render j ++ [34])) := by
  cases t <;> simp only [stringable] at hs <;> try (cases hs; done)
  all_goals (cases v <;> try (simp [Conf] at hC; done))
  case bool.bool x =>
    cases x <;> simp only [quotedLeaf, encV, Except.map, render] <;> rfl
  case int.int => simp only [quotedLeaf, encV, Except.map, render]
  case uint.uint => simp only [quotedLeaf, encV, Except.map, render]
  case f32.f32 x =>
    simp only [quotedLeaf, encV]
    cases floatLit o (fmtF32 x) with
    | error e => rfl
    | ok l => simp only [Except.map, render, render_floatVal]
  case f64.f64 x =>
    simp only [quotedLeaf, encV]
    cases floatLit o (fmtF64 x) with
    | error e => rfl
    | ok l => simp only [Except.map, render, render_floatVal]
  case str.str => simp [isStrT] at hn
  case num.num x =>
    simp only [quotedLeaf, encV]
    cases numberLit x with
    | error e => rfl
    | ok l => simp only [Except.map, render]

/-! ### members of an object, written one by one with the comma flag -/

def memb (m : Bytes × JVal) : Bytes := 34 :: (m.1 ++ 34 :: 58 :: render m.2)

/-- `c` = no member has been written yet -/
def emitM : Bool → List (Bytes × JVal) → Bytes
  | _, [] => []
  | c, m :: ms => (if c then [] else [44]) ++ memb m ++ emitM false ms

theorem renderMembers_cons (m : Bytes × JVal) (ms : List (Bytes × JVal)) : renderMembers (m :: ms) = memb m ++ emitM false ms := by
  induction ms generalizing m with
  | nil => obtain ⟨k, v⟩ := m; simp [renderMembers, emitM, memb]
  | cons a r ih =>
    obtain ⟨k, v⟩ := m
    rw [renderMembers, ih]
    · simp [emitM, memb]
    · intro h; cases h

theorem render_obj (ms : List (Bytes × JVal)) : render (.obj ms) = 123 :: (emitM true ms ++ [125]) := by
  cases ms with
  | nil => simp [render, renderMembers, emitM]
  | cons m ms => simp [render, renderMembers_cons, emitM]


/-- compileStructFieldOmitNilPtr's instruction (option EncOnlyOmitNull) decides nil-ness -/
theorem nilTest_step {t : GoType} {v : GoVal} {mk : Nat → Instr} (hmk : nilTest t = some mk) (tgt pc : Nat) (r : Regs) (s : Stack) (b : Bytes)
    (hg : r.p.get = some v) : step o (mk tgt) pc r s b = jumpIf (isNilV v) tgt pc r s b := by
  cases t <;> simp only [nilTest] at hmk <;> try (cases hmk; done)
  all_goals (injection hmk with hmk; subst hmk)
  all_goals (cases v <;> simp [step, hg, isNilV, jumpIf])

end SonicSpec.Ir
