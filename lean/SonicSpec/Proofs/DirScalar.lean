/-
  Decoder IR: the compiled code of the scalar kinds (bool, the integers, string) does what the single-pass
  specification says.
-/
import SonicSpec.Proofs.DirStep
import SonicSpec.Proofs.DirAny
namespace SonicSpec.Dir
open SonicSpec SonicSpec.Go SonicSpec.Json SonicSpec.Bind SonicSpec.Stream

variable {o : DecOpts} {co : COpts}

/-- compileOps of a non-pointer type `B`, at any position: the specification's successful result is what the code does -/
def OpsOK (o : DecOpts) (co : COpts) (n : Nat) (B : GoType) : Prop :=
  ∀ (s : Bytes) (cur v : GoVal) (e : Option DErr) (r : Bytes),
    WT B cur = true → skipWs s = s → decodeVal o n B s cur = .ok (v, e, r) →
    WT B v = true ∧
    ∀ (lib : LibCode) (tab : Tab) (P : Program) (pc sp : Nat), (∀ U ∈ tab, tsz B ≤ tsz U) →
      At P pc (ops co lib false tab pc sp B).1 →
      ∀ σ : St, σ.inp = s → getAt σ.root σ.vp = some cur →
      Sim o co P pc (ops co lib false tab pc sp B).1 σ v e r

theorem skipMismatch_ok {strict : Bool} {n : Nat} {T : GoType} {s : Bytes} {cur v : GoVal} {d : DErr} {e : Option DErr} {r : Bytes}
    (h : skipMismatch strict n T s cur d = .ok (v, e, r)) :
    skipVal strict n s = some r ∧ v = wrapPtr T (peel T cur) ∧ e = some d := by
  unfold skipMismatch at h
  cases hs : skipVal strict n s with
  | none => rw [hs] at h; cases h
  | some r' =>
    rw [hs] at h
    injection h with h
    injection h with h1 h2
    injection h2 with h2 h3
    exact ⟨by rw [h3], h1.symm, h2.symm⟩

theorem boolLit_len {s r : Bytes} {b : Bool} (h : boolLit s = some (b, r)) : ¬ s.length < 4 := by
  unfold boolLit at h
  split at h <;> first | (simp only [List.length_cons]; omega) | cases h

theorem step_bool_ok {pc : Nat} {σ : St} {b : Bool} {r : Bytes} (h : boolLit σ.inp = some (b, r)) :
    step o none .bool pc σ = .next (pc + 1) { (σ.put (.bool b)) with inp := r } := by
  simp only [step, h]
  rw [if_neg (boolLit_len h)]

theorem step_bool_short {pc : Nat} {σ : St} (h : σ.inp.length < 4) : step o none .bool pc σ = .err (.dec .syntax) := by
  simp only [step]
  rw [if_pos h]

theorem step_bool_f {pc : Nat} {σ : St} {s' : Bytes} (hl : ¬ σ.inp.length < 4) (hb : boolLit σ.inp = none) (hs : σ.inp = 102 :: s') :
    step o none .bool pc σ = .err (.dec .syntax) := by
  simp only [step]
  rw [if_neg hl, hb]
  simp only [hs]

theorem step_bool_skip {pc : Nat} {σ : St} {c : UInt8} {s' r : Bytes} (hl : ¬ σ.inp.length < 4) (hb : boolLit σ.inp = none)
    (hs : σ.inp = c :: s') (hc : c ≠ 102) (hx : skipVal o.validateString (skipFuel σ.inp) σ.inp = some r) :
    step o none .bool pc σ = .next (pc + 1) { σ with inp := r, et := merge σ.et (some .mismatch) } := by
  simp only [step]
  rw [if_neg hl, hb]
  simp only
  split
  · rename_i heq; rw [hs] at heq; injection heq with h1 _; exact absurd h1 hc
  · simp only [skipTo, hx]

/-- the value was null: nothing is stored, the code is left at its end -/
theorem post_same {σ : St} {cur : GoVal} {r : Bytes} (hg : getAt σ.root σ.vp = some cur) :
    Post σ cur none r { σ with inp := r } :=
  ⟨rfl, (setAt_same _ _ _ hg).symm, rfl, (merge_none_right' _).symm⟩

/-- the value was of another kind: it is skipped, the mismatch saved, nothing stored -/
theorem post_skip {σ : St} {cur : GoVal} {r ic : Bytes} (hg : getAt σ.root σ.vp = some cur) :
    Post σ cur (some .mismatch) r { σ with inp := r, ic := ic, et := merge σ.et (some .mismatch) } :=
  ⟨rfl, (setAt_same _ _ _ hg).symm, rfl, rfl⟩

theorem opsOK_bool (n : Nat) : OpsOK o co n .bool := by
  intro s cur v e r hwt _ h
  cases n with
  | zero => rw [dv_zero] at h; cases h
  | succ n =>
    cases hn : isNullLit s with
    | some r0 =>
      rw [dv_null o n _ s r0 cur hn] at h
      injection h with h; injection h with h1 h2; injection h2 with h2 h3
      subst h1; subst h2; subst h3
      refine ⟨hwt, ?_⟩
      intro lib tab P pc sp _ hat σ hi hg R _ k
      rw [ops] at hat k
      simp only [fin, Bool.not_false, if_true, prim] at hat k
      refine e_isNull_hit (hat.get 0 rfl) (by rw [hi]; exact hn) ?_
      exact k _ (post_same hg)
    | none =>
      rw [dv_bool o n s cur hn] at h
      cases hb : boolLit s with
      | some p =>
        obtain ⟨b, r1⟩ := p
        rw [hb] at h
        injection h with h; injection h with h1 h2; injection h2 with h2 h3
        subst h1; subst h2; subst h3
        refine ⟨rfl, ?_⟩
        intro lib tab P pc sp _ hat σ hi hg R _ k
        rw [ops] at hat k
        simp only [fin, Bool.not_false, if_true, prim] at hat k
        refine e_isNull_miss (hat.get 0 rfl) (by rw [hi]; exact hn) ?_
        refine ends_step (hat.get 1 rfl) (step_bool_ok (by rw [hi]; exact hb)) ?_
        exact k _ ⟨rfl, rfl, rfl, (merge_none_right' _).symm⟩
      | none =>
        rw [hb] at h
        obtain ⟨hsk, hv, he⟩ := skipMismatch_ok h
        simp only [wrapPtr, peel] at hv
        subst hv; subst he
        refine ⟨hwt, ?_⟩
        intro lib tab P pc sp _ hat σ hi hg R htol k
        have htol := htol (by simp)
        rw [ops] at hat k
        simp only [fin, Bool.not_false, if_true, prim] at hat k
        refine e_isNull_miss (hat.get 0 rfl) (by rw [hi]; exact hn) ?_
        by_cases hlen : σ.inp.length < 4
        · exact ends_err (hat.get 1 rfl) (step_bool_short hlen) (htol _)
        · cases hs : σ.inp with
          | nil => simp [hs] at hlen
          | cons c s' =>
            by_cases hc : c = 102
            · subst hc
              exact ends_err (hat.get 1 rfl) (step_bool_f hlen (by rw [hi]; exact hb) hs) (htol _)
            · have hx := (skipVal_exec hsk).1
              refine ends_step (hat.get 1 rfl) (step_bool_skip hlen (by rw [hi]; exact hb) hs hc (by rw [hi]; exact hx)) ?_
              exact k _ ⟨rfl, (setAt_same _ _ _ hg).symm, rfl, rfl⟩

theorem step_intOp {w : Nat} (hw : okWidth w = true) (pc : Nat) (σ : St) : step o none (intOp w) pc σ = numOp o (.int w) pc σ := by
  simp only [okWidth, Bool.or_eq_true, beq_iff_eq] at hw
  rcases hw with ((h | h) | h) | h <;> subst h <;> rfl

theorem step_uintOp {w : Nat} (hw : okWidth w = true) (pc : Nat) (σ : St) : step o none (uintOp w) pc σ = numOp o (.uint w) pc σ := by
  simp only [okWidth, Bool.or_eq_true, beq_iff_eq] at hw
  rcases hw with ((h | h) | h) | h <;> subst h <;> rfl

theorem storeInt_cases (o : DecOpts) (l : Bytes) (w : Nat) (cur : GoVal) :
    (∃ n, storeNumber o false l (.int w) cur = (.int n, none)) ∨ storeNumber o false l (.int w) cur = (cur, some .mismatch) := by
  simp only [storeNumber]
  cases bindInt w l with
  | none => exact Or.inr rfl
  | some n => exact Or.inl ⟨n, rfl⟩

theorem storeUint_cases (o : DecOpts) (l : Bytes) (w : Nat) (cur : GoVal) :
    (∃ n, storeNumber o false l (.uint w) cur = (.uint n, none)) ∨ storeNumber o false l (.uint w) cur = (cur, some .mismatch) := by
  simp only [storeNumber]
  cases bindUint w l with
  | none => exact Or.inr rfl
  | some n => exact Or.inl ⟨n, rfl⟩

/-- the number opcodes: shared by the signed and the unsigned kinds -/
theorem num_sim {T : GoType} {s : Bytes} {cur v : GoVal} {e : Option DErr} {r : Bytes} {n : Nat}
    (hcases : ∀ l, (∃ w, storeNumber o false l T cur = (w, none) ∧ WT T w = true) ∨ ∃ err, storeNumber o false l T cur = (cur, some err))
    (hwt : WT T cur = true)
    (hn : isNullLit s = none)
    (h : (match tok s with
      | .other =>
        match scanNumber s with
        | some (l, r) => (.ok ((storeNumber o false l T cur).1, (storeNumber o false l T cur).2, r) : Res GoVal)
        | none => .error .syntax
      | _ => skipMismatch o.validateString (n + 1) T s cur .mismatch) = .ok (v, e, r))
    (hpeel : wrapPtr T (peel T cur) = cur) :
    WT T v = true ∧
    ∀ (P : Program) (pc : Nat) (op : Instr), (∀ pc σ, step o none op pc σ = numOp o T pc σ) → At P pc [.isNull (pc + 2), op] →
      ∀ σ : St, σ.inp = s → getAt σ.root σ.vp = some cur → Sim o co P pc [.isNull (pc + 2), op] σ v e r := by
  cases htk : tok s with
  | other =>
    rw [htk] at h
    simp only at h
    cases hsn : scanNumber s with
    | none => rw [hsn] at h; cases h
    | some p =>
      obtain ⟨l, r1⟩ := p
      rw [hsn] at h
      simp only at h
      injection h with h; injection h with h1 h2; injection h2 with h2 h3
      subst h3
      rcases hcases l with ⟨w, hst, hww⟩ | hst
      · rw [hst] at h1 h2
        simp only at h1 h2
        subst h1; subst h2
        refine ⟨hww, ?_⟩
        intro P pc op hop hat σ hi hg R _ k
        refine e_isNull_miss (hat.get 0 rfl) (by rw [hi]; exact hn) ?_
        refine ends_step (hat.get 1 rfl) (pc' := pc + 1 + 1) (s' := { (σ.put w) with inp := r1 }) ?_ ?_
        · rw [hop]
          simp only [numOp, hi, htk, hsn, hg, hst]
        · exact k _ ⟨rfl, rfl, rfl, (merge_none_right' _).symm⟩
      · obtain ⟨err, hst⟩ := hst
        rw [hst] at h1 h2
        simp only at h1 h2
        subst h1; subst h2
        refine ⟨hwt, ?_⟩
        intro P pc op hop hat σ hi hg R htol k
        have htol := htol (by simp)
        refine e_isNull_miss (hat.get 0 rfl) (by rw [hi]; exact hn) ?_
        by_cases hh : hardRange T l = true
        · exact ends_err (hat.get 1 rfl) (e := .dec err) (by rw [hop]; simp only [numOp, hi, htk, hsn, hg, hst, hh, if_true]) (htol _)
        · refine ends_step (hat.get 1 rfl) (pc' := pc + 1 + 1) (s' := { σ with inp := r1, et := merge σ.et (some err) }) ?_ ?_
          · rw [hop]
            simp only [numOp, hi, htk, hsn, hg, hst]
            rw [if_neg hh]
          · exact k _ ⟨rfl, (setAt_same _ _ _ hg).symm, rfl, rfl⟩
  | str r0 | arr r0 | obj r0 | lit =>
    rw [htk] at h
    simp only at h
    obtain ⟨hsk, hv, he⟩ := skipMismatch_ok h
    rw [hpeel] at hv
    subst hv; subst he
    refine ⟨hwt, ?_⟩
    intro P pc op hop hat σ hi hg R htol k
    refine e_isNull_miss (hat.get 0 rfl) (by rw [hi]; exact hn) ?_
    have hx := (skipVal_exec hsk).1
    refine ends_step (hat.get 1 rfl) (pc' := pc + 1 + 1) (s' := { σ with inp := r, et := merge σ.et (some .mismatch) }) ?_ ?_
    · rw [hop]
      simp only [numOp, hi, htk, skipTo, hx]
    · exact k _ ⟨rfl, (setAt_same _ _ _ hg).symm, rfl, rfl⟩

theorem opsOK_int (n : Nat) (w : Nat) (hw : okWidth w = true) : OpsOK o co n (.int w) := by
  intro s cur v e r hwt _ h
  cases n with
  | zero => rw [dv_zero] at h; cases h
  | succ n =>
    cases hn : isNullLit s with
    | some r0 =>
      rw [dv_null o n _ s r0 cur hn] at h
      injection h with h; injection h with h1 h2; injection h2 with h2 h3
      subst h1; subst h2; subst h3
      refine ⟨hwt, ?_⟩
      intro lib tab P pc sp _ hat σ hi hg R _ k
      rw [ops] at hat k
      simp only [fin, Bool.not_false, if_true, prim] at hat k
      refine e_isNull_hit (hat.get 0 rfl) (by rw [hi]; exact hn) ?_
      exact k _ (post_same hg)
    | none =>
      rw [dv_int o n w s cur hn] at h
      have := num_sim (o := o) (co := co) (T := .int w) (n := n) (fun l => by
        rcases storeInt_cases o l w cur with ⟨m, hm⟩ | hm
        · exact Or.inl ⟨_, hm, rfl⟩
        · exact Or.inr ⟨_, hm⟩) hwt hn h rfl
      refine ⟨this.1, ?_⟩
      intro lib tab P pc sp _ hat σ hi hg
      rw [ops] at hat ⊢
      simp only [fin, Bool.not_false, if_true, prim] at hat ⊢
      exact this.2 P pc _ (step_intOp hw) hat σ hi hg

theorem opsOK_uint (n : Nat) (w : Nat) (hw : okWidth w = true) : OpsOK o co n (.uint w) := by
  intro s cur v e r hwt _ h
  cases n with
  | zero => rw [dv_zero] at h; cases h
  | succ n =>
    cases hn : isNullLit s with
    | some r0 =>
      rw [dv_null o n _ s r0 cur hn] at h
      injection h with h; injection h with h1 h2; injection h2 with h2 h3
      subst h1; subst h2; subst h3
      refine ⟨hwt, ?_⟩
      intro lib tab P pc sp _ hat σ hi hg R _ k
      rw [ops] at hat k
      simp only [fin, Bool.not_false, if_true, prim] at hat k
      refine e_isNull_hit (hat.get 0 rfl) (by rw [hi]; exact hn) ?_
      exact k _ (post_same hg)
    | none =>
      rw [dv_uint o n w s cur hn] at h
      have := num_sim (o := o) (co := co) (T := .uint w) (n := n) (fun l => by
        rcases storeUint_cases o l w cur with ⟨m, hm⟩ | hm
        · exact Or.inl ⟨_, hm, rfl⟩
        · exact Or.inr ⟨_, hm⟩) hwt hn h rfl
      refine ⟨this.1, ?_⟩
      intro lib tab P pc sp _ hat σ hi hg
      rw [ops] at hat ⊢
      simp only [fin, Bool.not_false, if_true, prim] at hat ⊢
      exact this.2 P pc _ (step_uintOp hw) hat σ hi hg

theorem storeF64_cases (o : DecOpts) (l : Bytes) (cur : GoVal) :
    (∃ b, storeNumber o false l .f64 cur = (.f64 b, none)) ∨ ∃ err, storeNumber o false l .f64 cur = (cur, some err) := by
  simp only [storeNumber, bindF64]
  cases floatHook64 o l with
  | none => exact Or.inr ⟨_, rfl⟩
  | some q => cases q with
    | none => exact Or.inr ⟨_, rfl⟩
    | some b => exact Or.inl ⟨b, rfl⟩

theorem storeF32_cases (o : DecOpts) (l : Bytes) (cur : GoVal) :
    (∃ b, storeNumber o false l .f32 cur = (.f32 b, none)) ∨ ∃ err, storeNumber o false l .f32 cur = (cur, some err) := by
  simp only [storeNumber, bindF32]
  cases floatHook32 o l with
  | none => exact Or.inr ⟨_, rfl⟩
  | some q => cases q with
    | none => exact Or.inr ⟨_, rfl⟩
    | some b => exact Or.inl ⟨b, rfl⟩

theorem opsOK_f64 (n : Nat) : OpsOK o co n .f64 := by
  intro s cur v e r hwt _ h
  cases n with
  | zero => rw [dv_zero] at h; cases h
  | succ n =>
    cases hn : isNullLit s with
    | some r0 =>
      rw [dv_null o n _ s r0 cur hn] at h
      injection h with h; injection h with h1 h2; injection h2 with h2 h3
      subst h1; subst h2; subst h3
      refine ⟨hwt, ?_⟩
      intro lib tab P pc sp _ hat σ hi hg R _ k
      rw [ops] at hat k
      simp only [fin, Bool.not_false, if_true, prim] at hat k
      refine e_isNull_hit (hat.get 0 rfl) (by rw [hi]; exact hn) ?_
      exact k _ (post_same hg)
    | none =>
      rw [dv_f64 o n s cur hn] at h
      have := num_sim (o := o) (co := co) (T := .f64) (n := n) (fun l => by
        rcases storeF64_cases o l cur with ⟨m, hm⟩ | hm
        · exact Or.inl ⟨_, hm, rfl⟩
        · exact Or.inr hm) hwt hn h rfl
      refine ⟨this.1, ?_⟩
      intro lib tab P pc sp _ hat σ hi hg
      rw [ops] at hat ⊢
      simp only [fin, Bool.not_false, if_true, prim] at hat ⊢
      exact this.2 P pc _ (fun _ _ => rfl) hat σ hi hg

theorem opsOK_f32 (n : Nat) : OpsOK o co n .f32 := by
  intro s cur v e r hwt _ h
  cases n with
  | zero => rw [dv_zero] at h; cases h
  | succ n =>
    cases hn : isNullLit s with
    | some r0 =>
      rw [dv_null o n _ s r0 cur hn] at h
      injection h with h; injection h with h1 h2; injection h2 with h2 h3
      subst h1; subst h2; subst h3
      refine ⟨hwt, ?_⟩
      intro lib tab P pc sp _ hat σ hi hg R _ k
      rw [ops] at hat k
      simp only [fin, Bool.not_false, if_true, prim] at hat k
      refine e_isNull_hit (hat.get 0 rfl) (by rw [hi]; exact hn) ?_
      exact k _ (post_same hg)
    | none =>
      rw [dv_f32 o n s cur hn] at h
      have := num_sim (o := o) (co := co) (T := .f32) (n := n) (fun l => by
        rcases storeF32_cases o l cur with ⟨m, hm⟩ | hm
        · exact Or.inl ⟨_, hm, rfl⟩
        · exact Or.inr hm) hwt hn h rfl
      refine ⟨this.1, ?_⟩
      intro lib tab P pc sp _ hat σ hi hg
      rw [ops] at hat ⊢
      simp only [fin, Bool.not_false, if_true, prim] at hat ⊢
      exact this.2 P pc _ (fun _ _ => rfl) hat σ hi hg

theorem tok_str_of {s r0 : Bytes} (h : tok s = .str r0) : s = 34 :: r0 := tok_str_inv s r0 h

theorem tok_ne_quote {s : Bytes} {c : UInt8} {r : Bytes} (hs : s = c :: r) (h : ∀ r0, tok s ≠ .str r0) : c ≠ 34 := by
  intro hc; subst hc; subst hs; exact h r rfl

theorem opsOK_str (n : Nat) : OpsOK o co n .str := by
  intro s cur v e r hwt _ h
  cases n with
  | zero => rw [dv_zero] at h; cases h
  | succ n =>
    cases hn : isNullLit s with
    | some r0 =>
      rw [dv_null o n _ s r0 cur hn] at h
      injection h with h; injection h with h1 h2; injection h2 with h2 h3
      subst h1; subst h2; subst h3
      refine ⟨hwt, ?_⟩
      intro lib tab P pc sp _ hat σ hi hg R _ k
      rw [ops] at hat k
      simp only [fin, Bool.not_false, if_true, strBody, chk, List.cons_append, List.nil_append] at hat k
      refine e_isNull_hit (hat.get 0 rfl) (by rw [hi]; exact hn) ?_
      exact k _ (post_same hg)
    | none =>
      rw [dv_str o n s cur hn] at h
      cases htk : tok s with
      | str r0 =>
        rw [htk] at h
        simp only at h
        have hs := tok_str_of htk
        cases hsc : scanString r0 with
        | none => rw [hsc] at h; cases h
        | some p =>
          obtain ⟨b, t⟩ := p
          rw [hsc] at h
          simp only at h
          cases hu : unquote b with
          | none => rw [hu] at h; cases h
          | some u =>
            rw [hu] at h
            simp only at h
            injection h with h; injection h with h1 h2; injection h2 with h2 h3
            subst h1; subst h2; subst h3
            refine ⟨rfl, ?_⟩
            intro lib tab P pc sp _ hat σ hi hg R _ k
            rw [ops] at hat k
            simp only [fin, Bool.not_false, if_true, strBody] at hat k
            refine e_isNull_miss (hat.get 0 rfl) (by rw [hi]; exact hn) ?_
            have hchk : At P (pc + 1) (chk (pc + 1) .str 34 (pc + 6)) := by
              have := hat.mid (a := [Instr.isNull (pc + 6)]) (b := chk (pc + 1) .str 34 (pc + 6)) (c := [Instr.str])
              simpa using this
            refine e_chk_hit hchk (by rw [hi]; exact hs) ?_
            refine ends_step (hat.get 5 rfl) (pc' := pc + 6) (s' := { ({ σ with inp := r0 } : St).put (.str u) with inp := t }) ?_ ?_
            · simp only [step, hsc, hu]
            · exact k _ ⟨rfl, rfl, rfl, (merge_none_right' _).symm⟩
      | other | arr r0 | obj r0 | lit =>
        rw [htk] at h
        simp only at h
        obtain ⟨hsk, hv, he⟩ := skipMismatch_ok h
        simp only [wrapPtr, peel] at hv
        subst hv; subst he
        refine ⟨hwt, ?_⟩
        intro lib tab P pc sp _ hat σ hi hg R htol k
        rw [ops] at hat k
        simp only [fin, Bool.not_false, if_true, strBody] at hat k
        refine e_isNull_miss (hat.get 0 rfl) (by rw [hi]; exact hn) ?_
        have hchk : At P (pc + 1) (chk (pc + 1) .str 34 (pc + 6)) := by
          have := hat.mid (a := [Instr.isNull (pc + 6)]) (b := chk (pc + 1) .str 34 (pc + 6)) (c := [Instr.str])
          simpa using this
        have hx := (skipVal_exec hsk).1
        cases hs : s with
        | nil => rw [hs, skipVal_nil] at hsk; cases hsk
        | cons c s' =>
          have hne : c ≠ 34 := tok_ne_quote hs (by intro r0 h0; rw [htk] at h0; cases h0)
          refine e_chk_miss hchk (by rw [hi]; exact hs) hne (by rw [hi]; exact hx) ?_
          exact k _ (by rw [hi]; exact ⟨rfl, (setAt_same _ _ _ hg).symm, rfl, rfl⟩)

theorem anyNumber_wt (o : DecOpts) (l : Bytes) : WT .any (anyNumber o l).1 = true := by
  unfold anyNumber
  split
  · rfl
  · split
    · rfl
    · split <;> rfl

theorem toAny_wt (o : DecOpts) (j : RVal) : WT .any (toAny o j).1 = true := by
  cases j with
  | null => simp [toAny, WT]
  | bool b => simp [toAny, WT, notPtrT]
  | num l => simp only [toAny]; exact anyNumber_wt o l
  | str b u => simp [toAny, WT, notPtrT]
  | arr raw xs => simp [toAny, WT, notPtrT]
  | obj raw kvs => simp [toAny, WT, notPtrT]

theorem step_any {pc : Nat} {σ : St} {cur : GoVal} {j : RVal} {r : Bytes} (hg : getAt σ.root σ.vp = some cur) (hwt : WT .any cur = true)
    (hp : parseR (skipFuel σ.inp) σ.inp = some (j, r)) :
    step o none .any pc σ = match toAny o j with
      | (g, none) => .next (pc + 1) { (σ.put g) with inp := r }
      | (_, some e) => .err (.dec e) := by
  simp only [step, hg]
  cases cur with
  | nil => simp only [hp]; cases toAny o j with | mk g e => cases e <;> rfl
  | any t w =>
    cases t with
    | ptr t' => simp [WT, notPtrT] at hwt
    | _ => simp only [hp]; cases toAny o j with | mk g e => cases e <;> rfl
  | _ => simp [WT] at hwt

/-- interface{}: `_OP_any`, the generic decoder -/
theorem opsOK_any (n : Nat) : OpsOK o co n .any := by
  intro s cur v e r hwt _ h
  cases n with
  | zero => rw [dv_zero] at h; cases h
  | succ n =>
    cases hn : isNullLit s with
    | some r0 =>
      rw [dv_null o n _ s r0 cur hn] at h
      injection h with h; injection h with h1 h2; injection h2 with h2 h3
      subst h1; subst h2; subst h3
      refine ⟨rfl, ?_⟩
      intro lib tab P pc sp _ hat σ hi hg R _ k
      rw [ops] at hat k
      simp only [fin, Bool.not_false, if_true] at hat k
      refine e_isNull_hit (hat.get 0 rfl) (by rw [hi]; exact hn) ?_
      refine ends_step (hat.get 3 rfl) (pc' := pc + 3 + 1) (s' := ({ σ with inp := r0 } : St).put .nil) (by simp only [step]) ?_
      exact k _ ⟨rfl, rfl, rfl, (merge_none_right' _).symm⟩
    | none =>
      rw [dv_any o n s cur hn] at h
      cases hp : parseR (n + 1) s with
      | none => rw [hp] at h; cases h
      | some q =>
        obtain ⟨j, r1⟩ := q
        rw [hp] at h
        simp only at h
        injection h with h; injection h with h1 h2; injection h2 with h2 h3
        subst h1; subst h2; subst h3
        refine ⟨toAny_wt o j, ?_⟩
        intro lib tab P pc sp _ hat σ hi hg R ht k
        rw [ops] at hat k
        simp only [fin, Bool.not_false, if_true] at hat k
        refine e_isNull_miss (hat.get 0 rfl) (by rw [hi]; exact hn) ?_
        have hx := parseR_exec hp
        have hst := step_any (o := o) (pc := pc + 1) (σ := σ) hg hwt (by rw [hi]; exact hx)
        cases hta : toAny o j with
        | mk g e' =>
          rw [hta] at hst ht k
          cases e' with
          | none =>
            simp only at hst
            refine ends_step (hat.get 1 rfl) hst ?_
            refine e_goto (hat.get 2 rfl) ?_
            exact k _ ⟨rfl, rfl, rfl, (merge_none_right' _).symm⟩
          | some x =>
            simp only at hst
            exact ends_err (hat.get 1 rfl) hst (ht (by simp) _)

end SonicSpec.Dir
