/-
  C16 - preservation of the invariant by the mutex operations.
-/
import SonicSpec.Proofs.RWStore
namespace SonicSpec.RW

variable {pf : Bool}

theorem inv_same {s : State} {i : Nat} {th : Th} (hI : Inv pf s) (hth : s.ths[i]? = some th) :
    Inv pf ⟨s.sh, s.ths.set i th⟩ := by
  rw [set_same hth]; exact hI

theorem abs_flag_false {b : Bool} (h : (!b) = true) : b = false := by simpa using h

theorem inv_acqW {s : State} {i : Nat} {th : Th} {a : Abs} {K : Prog}
    (hI : Inv pf s) (hth : s.ths[i]? = some th) (hok : ThOK i s.sh th a)
    (hR : a.hR = false) (hW : a.hW = false) (hK : safe pf { a with hW := true } K = true) :
    Inv pf ⟨(execOp i s.sh th .acqW K).1, s.ths.set i (execOp i s.sh th .acqW K).2⟩ := by
  have hG := hI.1
  simp only [execOp]
  split
  next hfree =>
    dsimp only
    obtain ⟨hw, hr⟩ := hfree
    have hnow : s.sh.t = .raw → ∀ b ∈ s.sh.hist, b.wr = true → False := by
      intro ht b hb hbw
      have := (hG.wrBy ht b hb hbw).1
      rw [hw] at this; cases this
    apply inv_update hI hth
    · constructor
      · exact hG.m
      · exact hG.norace
      · exact hG.noerr
      · intro j _; exact hr
      · intro hn; cases hn
      · exact hG.gRaw
      · exact hG.gParsed
      · exact hG.hbT
      · intro ht b hb hbw; exact (hnow ht b hb hbw).elim
      · exact hG.wrAtomicT
      · exact hG.wrNotM
      · exact hG.atomicT
      · intro ht b hb hbw hba hbm
        rcases hG.rdRel ht b hb hbw hba hbm with h | h | h | h
        · exact Or.inl h
        · exact Or.inr (Or.inl h)
        · rw [hw] at h; cases h
        · rw [hr] at h; cases h
      · intro j thj hj
        simp only at hj ⊢
        rw [getElem?_set_ite hth] at hj
        by_cases hij : i = j
        · subst hij
          simp only [if_true] at hj
          cases hj
          refine ⟨fun _ => ⟨fun x hx => ?_, fun x hx => ?_⟩, fun h => ?_⟩
          · exact List.mem_append_right _ (List.mem_append_left _ hx)
          · exact List.mem_append_left _ hx
          · rw [hr] at h; cases h
        · simp only [hij, if_false] at hj
          refine ⟨fun h => ?_, fun h => ?_⟩
          · injection h with h; exact absurd h hij
          · rw [hr] at h; cases h
      · intro b hb thj hj
        simp only at hb hj
        rw [getElem?_set_ite hth] at hj
        by_cases hij : i = b.tid
        · simp only [hij, if_true] at hj
          cases hj
          exact List.mem_append_right _ (List.mem_append_right _ (hG.own b hb th (hij ▸ hth)))
        · simp only [hij, if_false] at hj
          exact hG.own b hb thj hj
      · exact ordered_mono hG.ordered hth (fun x hx => List.mem_append_right _ (List.mem_append_right _ hx))
      · exact hG.rawNoStore
      · exact hG.noWriteAfterStore
    · refine ⟨_, hK, ?_⟩
      have hfl := hG.wfree hw
      have hawl : a.wl = false := by
        cases h : a.wl
        · rfl
        · have := hok.wlH h; rw [hW] at this; cases this
      have hawp : a.wp = false := by
        cases h : a.wp
        · rfl
        · have := hok.wpH h; rw [hW] at this; cases this
      have hawc : a.wc = false := by
        cases h : a.wc
        · rfl
        · have := hok.wcH h; rw [hW] at this; cases this
      refine { hW := ⟨fun _ => rfl, fun _ => rfl⟩, hR := ?_, lkHeld := ?_, wlw := ?_, wlH := fun _ => rfl,
               wpH := fun _ => rfl, wcH := fun _ => rfl, tvok := hok.tvok, nofault := hok.nofault, mread := hok.mread, lv := hok.lv,
               know := ?_, view := viewOK_congr hok.view rfl rfl rfl }
      · exact hok.hR
      · intro h; exact Or.inr rfl
      · intro _; exact ⟨by rw [hfl.1, hawl], by rw [hfl.2.1, hawp], by rw [hfl.2.2, hawc]⟩
      · exact hok.know.transfer rfl (fun h => h) rfl rfl rfl rfl
          (fun x hx => List.mem_append_right _ (List.mem_append_right _ hx))
    · intro j thj aj hji hj hokj
      apply ThOK.frame_lock hokj
      · simp only
        constructor
        · intro h; injection h with h; exact absurd h.symm hji
        · intro h; rw [hw] at h; cases h
      all_goals first | rfl | exact Iff.rfl
  next => exact inv_same hI hth

theorem inv_acqR {s : State} {i : Nat} {th : Th} {a : Abs} {K : Prog}
    (hI : Inv pf s) (hth : s.ths[i]? = some th) (hok : ThOK i s.sh th a)
    (hR : a.hR = false) (hW : a.hW = false) (hK : safe pf { a with hR := true } K = true) :
    Inv pf ⟨(execOp i s.sh th .acqR K).1, s.ths.set i (execOp i s.sh th .acqR K).2⟩ := by
  have hG := hI.1
  simp only [execOp]
  split
  next hw =>
    dsimp only
    apply inv_update hI hth
    · constructor
      · exact hG.m
      · exact hG.norace
      · exact hG.noerr
      · intro j hj; simp only at hj; rw [hw] at hj; cases hj
      · exact hG.wfree
      · exact hG.gRaw
      · exact hG.gParsed
      · exact hG.hbT
      · exact hG.wrBy
      · exact hG.wrAtomicT
      · exact hG.wrNotM
      · exact hG.atomicT
      · intro ht b hb hbw hba hbm
        rcases hG.rdRel ht b hb hbw hba hbm with h | h | h | h
        · exact Or.inl h
        · exact Or.inr (Or.inl h)
        · exact Or.inr (Or.inr (Or.inl h))
        · exact Or.inr (Or.inr (Or.inr (List.mem_cons_of_mem _ h)))
      · intro j thj hj
        simp only at hj ⊢
        rw [getElem?_set_ite hth] at hj
        by_cases hij : i = j
        · subst hij
          simp only [if_true] at hj
          cases hj
          refine ⟨fun h => ?_, fun _ x hx => List.mem_append_left _ hx⟩
          rw [hw] at h; cases h
        · simp only [hij, if_false] at hj
          refine ⟨(hG.holdHB j thj hj).1, fun h => ?_⟩
          rcases List.mem_cons.mp h with h | h
          · exact absurd h.symm hij
          · exact (hG.holdHB j thj hj).2 h
      · intro b hb thj hj
        simp only at hb hj
        rw [getElem?_set_ite hth] at hj
        by_cases hij : i = b.tid
        · simp only [hij, if_true] at hj
          cases hj
          exact List.mem_append_right _ (hG.own b hb th (hij ▸ hth))
        · simp only [hij, if_false] at hj
          exact hG.own b hb thj hj
      · exact ordered_mono hG.ordered hth (fun x hx => List.mem_append_right _ hx)
      · exact hG.rawNoStore
      · exact hG.noWriteAfterStore
    · refine ⟨_, hK, ?_⟩
      refine { hW := ?_, hR := ⟨fun _ => List.mem_cons_self, fun _ => rfl⟩, lkHeld := ?_, wlw := ?_,
               wlH := hok.wlH, wpH := hok.wpH, wcH := hok.wcH, tvok := hok.tvok, nofault := hok.nofault, mread := hok.mread, lv := hok.lv,
               know := ?_, view := viewOK_congr hok.view rfl rfl rfl }
      · exact hok.hW
      · intro _; exact Or.inl rfl
      · exact hok.wlw
      · exact hok.know.transfer rfl (fun h => h) rfl rfl rfl rfl
          (fun x hx => List.mem_append_right _ hx)
    · intro j thj aj hji hj hokj
      apply ThOK.frame_lock hokj
      · exact Iff.rfl
      · simp only
        constructor
        · intro h
          rcases List.mem_cons.mp h with h | h
          · exact absurd h hji
          · exact h
        · intro h; exact List.mem_cons_of_mem _ h
      all_goals rfl
  next => exact inv_same hI hth

theorem inv_relW {s : State} {i : Nat} {th : Th} {a : Abs} {K : Prog}
    (hI : Inv pf s) (hth : s.ths[i]? = some th) (hok : ThOK i s.sh th a)
    (hW : a.hW = true) (hwl : a.wl = false) (hwp : a.wp = false) (hwc : a.wc = false)
    (hK : safe pf { a with hW := false, lk := false } K = true) :
    Inv pf ⟨(execOp i s.sh th .relW K).1, s.ths.set i (execOp i s.sh th .relW K).2⟩ := by
  have hG := hI.1
  have hw := hok.hW.mp hW
  have hr := hG.excl i hw
  have hfl := hok.wlw hW
  simp only [execOp, hw, if_true]
  apply inv_update hI hth
  · constructor
    · exact hG.m
    · exact hG.norace
    · exact hG.noerr
    · intro j hj; cases hj
    · intro _; exact ⟨by rw [hfl.1, hwl], by rw [hfl.2.1, hwp], by rw [hfl.2.2, hwc]⟩
    · exact hG.gRaw
    · exact hG.gParsed
    · exact hG.hbT
    · intro ht b hb hbw
      obtain ⟨_, h⟩ := hG.wrBy ht b hb hbw
      rw [hfl.1, hfl.2.1, hfl.2.2, hwl, hwp, hwc] at h
      rcases h with h | h | h <;> cases h
    · exact hG.wrAtomicT
    · exact hG.wrNotM
    · exact hG.atomicT
    · intro ht b hb hbw hba hbm
      simp only
      rcases hG.rdRel ht b hb hbw hba hbm with h | h | h | h
      · exact Or.inl h
      · exact Or.inr (Or.inl (List.mem_append_right _ h))
      · rw [hw] at h; injection h with h
        exact Or.inr (Or.inl (List.mem_append_left _ (hG.own b hb th (h ▸ hth))))
      · exact Or.inr (Or.inr (Or.inr h))
    · intro j thj hj
      simp only at hj ⊢
      refine ⟨fun h => (by cases h), fun h => ?_⟩
      rw [hr] at h; cases h
    · intro b hb thj hj
      simp only at hb hj
      rw [getElem?_set_ite hth] at hj
      by_cases hij : i = b.tid
      · simp only [hij, if_true] at hj
        cases hj
        exact hG.own b hb th (hij ▸ hth)
      · simp only [hij, if_false] at hj
        exact hG.own b hb thj hj
    · exact ordered_mono hG.ordered hth (fun x hx => hx)
    · exact hG.rawNoStore
    · exact hG.noWriteAfterStore
  · refine ⟨_, hK, ?_⟩
    refine { hW := ⟨fun h => (by cases h), fun h => (by cases h)⟩, hR := hok.hR, lkHeld := (by intro h; cases h),
             wlw := (by intro h; cases h), wlH := (by intro h; rw [hwl] at h; cases h),
             wpH := (by intro h; rw [hwp] at h; cases h), wcH := (by intro h; rw [hwc] at h; cases h), tvok := hok.tvok,
             nofault := hok.nofault, mread := hok.mread, lv := hok.lv,
             know := ?_, view := viewOK_congr hok.view rfl rfl rfl }
    exact hok.know.transfer rfl (by intro h; cases h) rfl rfl rfl rfl (fun x hx => hx)
  · intro j thj aj hji hj hokj
    apply ThOK.frame_lock hokj
    · simp only
      constructor
      · intro h; cases h
      · intro h; rw [hw] at h; injection h with h; exact absurd h.symm hji
    all_goals first | rfl | exact Iff.rfl

theorem inv_relR {s : State} {i : Nat} {th : Th} {a : Abs} {K : Prog}
    (hI : Inv pf s) (hth : s.ths[i]? = some th) (hok : ThOK i s.sh th a)
    (hR : a.hR = true) (hK : safe pf { a with hR := false, lk := false } K = true) :
    Inv pf ⟨(execOp i s.sh th .relR K).1, s.ths.set i (execOp i s.sh th .relR K).2⟩ := by
  have hG := hI.1
  have hr := hok.hR.mp hR
  have hwn : s.sh.w = none := by
    cases hw : s.sh.w with
    | none => rfl
    | some j => have := hG.excl j hw; rw [this] at hr; cases hr
  have hW : a.hW = false := by
    cases h : a.hW
    · rfl
    · have := hok.hW.mp h; rw [hwn] at this; cases this
  have hmem : ∀ j, j ≠ i → (j ∈ s.sh.r.filter (· != i) ↔ j ∈ s.sh.r) := by
    intro j hji
    simp [List.mem_filter, hji]
  simp only [execOp, hr, if_true]
  apply inv_update hI hth
  · constructor
    · exact hG.m
    · exact hG.norace
    · exact hG.noerr
    · intro j hj; simp only at hj; rw [hwn] at hj; cases hj
    · exact hG.wfree
    · exact hG.gRaw
    · exact hG.gParsed
    · exact hG.hbT
    · exact hG.wrBy
    · exact hG.wrAtomicT
    · exact hG.wrNotM
    · exact hG.atomicT
    · intro ht b hb hbw hba hbm
      simp only
      rcases hG.rdRel ht b hb hbw hba hbm with h | h | h | h
      · exact Or.inl (List.mem_append_right _ h)
      · exact Or.inr (Or.inl h)
      · exact Or.inr (Or.inr (Or.inl h))
      · by_cases hbi : b.tid = i
        · exact Or.inl (List.mem_append_left _ (hG.own b hb th (hbi ▸ hth)))
        · exact Or.inr (Or.inr (Or.inr ((hmem _ hbi).mpr h)))
    · intro j thj hj
      simp only at hj ⊢
      rw [getElem?_set_ite hth] at hj
      by_cases hij : i = j
      · subst hij
        simp only [if_true] at hj
        cases hj
        refine ⟨fun h => ?_, fun h => ?_⟩
        · rw [hwn] at h; cases h
        · simp [List.mem_filter] at h
      · simp only [hij, if_false] at hj
        refine ⟨fun h => ?_, fun h => ?_⟩
        · rw [hwn] at h; cases h
        · exact (hG.holdHB j thj hj).2 ((hmem j (fun h => hij h.symm)).mp h)
    · intro b hb thj hj
      simp only at hb hj
      rw [getElem?_set_ite hth] at hj
      by_cases hij : i = b.tid
      · simp only [hij, if_true] at hj
        cases hj
        exact hG.own b hb th (hij ▸ hth)
      · simp only [hij, if_false] at hj
        exact hG.own b hb thj hj
    · exact ordered_mono hG.ordered hth (fun x hx => hx)
    · exact hG.rawNoStore
    · exact hG.noWriteAfterStore
  · refine ⟨_, hK, ?_⟩
    refine { hW := hok.hW, hR := ⟨fun h => (by cases h), fun h => ?_⟩, lkHeld := (by intro h; cases h),
             wlw := hok.wlw, wlH := hok.wlH, wpH := hok.wpH, wcH := hok.wcH, tvok := hok.tvok,
             nofault := hok.nofault, mread := hok.mread, lv := hok.lv,
             know := ?_, view := viewOK_congr hok.view rfl rfl rfl }
    · simp [List.mem_filter] at h
    · exact hok.know.transfer rfl (by intro h; cases h) rfl rfl rfl rfl (fun x hx => hx)
  · intro j thj aj hji hj hokj
    apply ThOK.frame_lock hokj
    · exact Iff.rfl
    · exact hmem j hji
    all_goals rfl

theorem inv_setLockVar {s : State} {i : Nat} {th : Th} {a : Abs} {K : Prog}
    (hI : Inv pf s) (hth : s.ths[i]? = some th) (hok : ThOK i s.sh th a)
    (hK : safe pf { a with lv := a.mread } K = true) :
    Inv pf ⟨(execOp i s.sh th .setLockVar K).1, s.ths.set i (execOp i s.sh th .setLockVar K).2⟩ := by
  simp only [execOp]
  apply inv_update hI hth
  · exact glob_local hI.1 hth rfl
  · refine ⟨_, hK, ?_⟩
    exact { hW := hok.hW, hR := hok.hR, lkHeld := hok.lkHeld, wlw := hok.wlw, wlH := hok.wlH, wpH := hok.wpH, wcH := hok.wcH,
            tvok := hok.tvok, nofault := hok.nofault, mread := hok.mread, lv := hok.mread,
            know := hok.know.transfer rfl (fun h => h) rfl rfl rfl rfl (fun x hx => hx),
            view := viewOK_congr hok.view rfl rfl rfl }
  · intro j thj aj _ _ hokj; exact hokj

end SonicSpec.RW
