/-
  C15 - the hash index of loaded objects: finite-map lemmas, coherence (`ixOk`), lookups.
-/
import SonicSpec.Proofs.AstRep
set_option linter.unusedSimpArgs false
namespace SonicSpec.Ast

/-! ### the hash index as a finite map -/

theorem ixGet_ixDel (m : Index) (h h' : Hash) :
    ixGet (ixDel m h) h' = if h = h' then none else ixGet m h' := by
  induction m with
  | nil => simp [ixDel, ixGet]
  | cons e r ih =>
    obtain ⟨a, i⟩ := e
    unfold ixDel at ih ⊢
    by_cases ha : a = h
    · subst ha
      simp only [List.filter_cons, decide_true, Bool.not_true, Bool.false_eq_true, if_false, ih]
      by_cases hh : a = h' <;> simp [ixGet, hh]
    · simp only [List.filter_cons, ha, decide_false, Bool.not_false, if_true, ixGet]
      by_cases hh : a = h'
      · subst hh; simp [ha, Ne.symm ha]
      · simp [hh, ih]

theorem ixGet_ixSet (m : Index) (h h' : Hash) (i : Nat) :
    ixGet (ixSet m h i) h' = if h = h' then some i else ixGet m h' := by
  unfold ixSet
  by_cases hh : h = h'
  · simp [ixGet, hh]
  · simp [ixGet, hh, ixGet_ixDel]

/-- first slot whose pair carries hash `h` -/
def firstHash (h : Hash) : List PairM → Option Nat
  | [] => none
  | p :: r => if p.1 = h then some 0 else (firstHash h r).map (· + 1)

theorem ixGet_buildIndexAt (h : Hash) : ∀ (st : List PairM) (i : Nat),
    ixGet (buildIndexAt i st) h = (firstHash h st).map (· + i)
  | [], i => by simp [buildIndexAt, ixGet, firstHash]
  | p :: r, i => by
    simp only [buildIndexAt, ixGet_ixSet, firstHash]
    by_cases hp : p.1 = h
    · simp [hp]
    · simp only [hp, if_false, ixGet_buildIndexAt h r (i + 1), Option.map_map]
      congr 1; funext x; simp; omega

theorem ixGet_buildIndex (h : Hash) (st : List PairM) : ixGet (buildIndex st) h = firstHash h st := by
  simp [buildIndex, ixGet_buildIndexAt]

/-! ### `ixOk` as a statement; it only looks at (hash, key, liveness) of the slots -/

theorem ixOk_iff (st : List PairM) (m : Index) :
    ixOk st (some m) = true ↔
      ∀ j p, st[j]? = some p → pairLive p = true →
        ∃ f, ixGet m p.1 = some f ∧ (f = j → firstLiveKey p.2.1 st = some j) := by
  unfold ixOk
  rw [List.all_eq_true]
  constructor
  · intro h j p hj hl
    have hjl : j < st.length := by
      rcases Nat.lt_or_ge j st.length with h' | h'
      · exact h'
      · rw [List.getElem?_eq_none h'] at hj; simp at hj
    have := h j (List.mem_range.mpr hjl)
    simp only [hj, hl, if_true] at this
    cases hg : ixGet m p.1 with
    | none => simp [hg] at this
    | some f =>
      simp only [hg] at this
      refine ⟨f, rfl, fun hf => ?_⟩
      simpa [hf] using this
  · intro h j hj
    have hjl := List.mem_range.mp hj
    cases hq : st[j]? with
    | none => simp
    | some p =>
      simp only
      by_cases hl : pairLive p = true
      · obtain ⟨f, h1, h2⟩ := h j p hq hl
        simp only [hl, if_true, h1]
        by_cases hf : f = j
        · simp [hf, h2 hf]
        · simp [hf]
      · simp [hl]

def skelOf (p : PairM) : Hash × Key × Bool := (p.1, p.2.1, pairLive p)

theorem firstLiveKey_congr (k : Key) : ∀ (a b : List PairM), a.map skelOf = b.map skelOf →
    firstLiveKey k a = firstLiveKey k b
  | [], [], _ => rfl
  | [], _ :: _, h => by simp at h
  | _ :: _, [], h => by simp at h
  | x :: xs, y :: ys, h => by
    simp only [List.map_cons, List.cons.injEq] at h
    obtain ⟨h1, h2⟩ := h
    have ih := firstLiveKey_congr k xs ys h2
    simp only [skelOf, Prod.mk.injEq] at h1
    simp only [firstLiveKey, h1.2.2, h1.2.1, ih]

theorem ixOk_congr (a b : List PairM) (ix : Option Index) (h : a.map skelOf = b.map skelOf) :
    ixOk a ix = ixOk b ix := by
  cases ix with
  | none => rfl
  | some m =>
    have key : ∀ (a b : List PairM), a.map skelOf = b.map skelOf → ixOk a (some m) = true → ixOk b (some m) = true := by
      intro a b h ha
      rw [ixOk_iff] at ha ⊢
      intro j p hj hl
      have hmap : (a.map skelOf)[j]? = some (skelOf p) := by rw [h]; simp [hj]
      simp only [List.getElem?_map, Option.map_eq_some_iff] at hmap
      obtain ⟨q, hq, hs⟩ := hmap
      simp only [skelOf, Prod.mk.injEq] at hs
      obtain ⟨f, h1, h2⟩ := ha j q hq (by rw [hs.2.2]; exact hl)
      refine ⟨f, by rw [← hs.1]; exact h1, fun hf => ?_⟩
      rw [← hs.2.1, ← firstLiveKey_congr q.2.1 a b h]; exact h2 hf
    cases hb : ixOk b (some m) with
    | true => 
      exact key b a h.symm hb
    | false =>
      cases ha : ixOk a (some m) with
      | false => rfl
      | true => rw [key a b h ha] at hb; exact absurd hb (by simp)

/-! ### first live pair with a key -/

theorem firstLiveKey_some (k : Key) : ∀ (st : List PairM) (f : Nat), firstLiveKey k st = some f →
    ∃ p, st[f]? = some p ∧ pairLive p = true ∧ p.2.1 = k ∧
      ∀ j q, j < f → st[j]? = some q → ¬ (pairLive q = true ∧ q.2.1 = k)
  | [], f, h => by simp [firstLiveKey] at h
  | p :: r, f, h => by
    unfold firstLiveKey at h
    by_cases hp : (pairLive p && p.2.1 == k) = true
    · simp only [hp, if_true, Option.some.injEq] at h
      subst h
      simp only [Bool.and_eq_true, beq_iff_eq] at hp
      exact ⟨p, by simp, hp.1, hp.2, fun j q hj => by omega⟩
    · simp only [hp, if_false] at h
      cases hq : firstLiveKey k r with
      | none => simp [hq] at h
      | some g =>
        simp [hq] at h; subst h
        obtain ⟨q, h1, h2, h3, h4⟩ := firstLiveKey_some k r g hq
        refine ⟨q, by simpa using h1, h2, h3, ?_⟩
        intro j q' hj hq'
        cases j with
        | zero =>
          simp at hq'; subst hq'
          simpa [Bool.and_eq_true, beq_iff_eq] using hp
        | succ j => exact h4 j q' (by omega) (by simpa using hq')

theorem firstLiveKey_none (k : Key) : ∀ (st : List PairM), firstLiveKey k st = none →
    ∀ q ∈ st, ¬ (pairLive q = true ∧ q.2.1 = k)
  | [], _, q, hq => by simp at hq
  | p :: r, h, q, hq => by
    unfold firstLiveKey at h
    by_cases hp : (pairLive p && p.2.1 == k) = true
    · simp [hp] at h
    · rw [if_neg hp, Option.map_eq_none_iff] at h
      rcases List.mem_cons.mp hq with rfl | hq'
      · simpa [Bool.and_eq_true, beq_iff_eq] using hp
      · exact firstLiveKey_none k r h q hq'

theorem firstLiveKey_isSome (k : Key) : ∀ (st : List PairM) (j : Nat) (p : PairM), st[j]? = some p →
    pairLive p = true → p.2.1 = k → ∃ f, f ≤ j ∧ firstLiveKey k st = some f
  | [], j, p, h, _, _ => by simp at h
  | x :: r, j, p, h, hl, hk => by
    unfold firstLiveKey
    by_cases hx : (pairLive x && x.2.1 == k) = true
    · exact ⟨0, by omega, by simp [hx]⟩
    · cases j with
      | zero =>
        simp at h; subst h
        simp [hl, hk] at hx
      | succ j =>
        obtain ⟨f, h1, h2⟩ := firstLiveKey_isSome k r j p (by simpa using h) hl hk
        exact ⟨f + 1, by omega, by simp [hx, h2]⟩

/-- the first live pair with the key, seen from the abstraction -/
theorem firstLiveKey_findKey (key : Key) : ∀ st : List PairM,
    match firstLiveKey key st with
    | some p => ∃ q, st[p]? = some q ∧ pairLive q = true ∧ q.2.1 = key ∧
        findKey key (absPairs st) = some (countLive pairLive (st.take p))
    | none => findKey key (absPairs st) = none
  | [] => by simp [firstLiveKey, absPairs, findKey]
  | (h, k, v) :: xs => by
    have ih := firstLiveKey_findKey key xs
    unfold firstLiveKey
    by_cases hp : (pairLive (h, k, v) && (h, k, v).2.1 == key) = true
    · simp only [hp, if_true]
      simp only [Bool.and_eq_true, beq_iff_eq, pairLive] at hp
      obtain ⟨hv, hk⟩ := hp
      subst hk
      exact ⟨(h, k, v), by simp, by simpa [pairLive] using hv, rfl, by simp [absPairs, hv, findKey, countLive]⟩
    · simp only [hp, if_false]
      cases hl : firstLiveKey key xs with
      | none =>
        simp only [hl] at ih
        simp only [Option.map_none]
        by_cases hv : v.live
        · have hk : ¬ k = key := by
            intro hk; apply hp; simp [pairLive, hv, hk]
          simp [absPairs, hv, findKey, hk, ih]
        · simp [absPairs, hv, ih]
      | some p =>
        simp only [hl] at ih
        obtain ⟨q, h1, h2, h3, h4⟩ := ih
        simp only [Option.map_some]
        refine ⟨q, by simpa using h1, h2, h3, ?_⟩
        by_cases hv : v.live
        · have hk : ¬ k = key := by
            intro hk; apply hp; simp [pairLive, hv, hk]
          simp [absPairs, hv, findKey, hk, h4, List.take_succ_cons, countLive_cons, pairLive]
          omega
        · simp [absPairs, hv, h4, List.take_succ_cons, countLive_cons, pairLive]

/-! ### with the representation invariant: hashes follow keys, unset = not live -/

theorem rep_live_hash (st : List PairM) (hr : repPairs st = true) (p : PairM) (hp : p ∈ st)
    (hl : pairLive p = true) : p.1 = some p.2.1 := (((repPairs_iff st).mp hr p hp).1 hl).2

theorem rep_dead (st : List PairM) (hr : repPairs st = true) (p : PairM) (hp : p ∈ st)
    (hl : pairLive p = false) : p.2.1 = [] ∧ p.1 = none := ((repPairs_iff st).mp hr p hp).2 hl

theorem repPairs_tail (p : PairM) (r : List PairM) (h : repPairs (p :: r) = true) : repPairs r = true := by
  rw [repPairs_iff] at h ⊢
  exact fun q hq => h q (by simp [hq])

theorem firstHash_live (k : Key) : ∀ (st : List PairM), repPairs st = true →
    firstHash (some k) st = firstLiveKey k st
  | [], _ => rfl
  | p :: r, hr => by
    have ih := firstHash_live k r (repPairs_tail p r hr)
    unfold firstHash firstLiveKey
    by_cases hl : pairLive p = true
    · have hh := rep_live_hash (p :: r) hr p (by simp) hl
      by_cases hk : p.2.1 = k
      · simp [hh, hl, hk]
      · simp [hh, hl, hk, ih]
    · have hl' : pairLive p = false := by simpa using hl
      have hd := rep_dead (p :: r) hr p (by simp) hl'
      simp [hd.2, hl', ih]

theorem linearGet_eq (k : Key) : ∀ (st : List PairM), repPairs st = true →
    linearGet k st = firstLiveKey k st
  | [], _ => rfl
  | p :: r, hr => by
    have ih := linearGet_eq k r (repPairs_tail p r hr)
    unfold linearGet firstLiveKey
    by_cases hl : pairLive p = true
    · have hh := rep_live_hash (p :: r) hr p (by simp) hl
      have hu : unsetPair p = false := by simp [unsetPair, hh]
      by_cases hk : p.2.1 = k
      · simp [hu, hl, hk]
      · simp [hu, hl, hk, ih]
    · have hl' : pairLive p = false := by simpa using hl
      have hd := rep_dead (p :: r) hr p (by simp) hl'
      have hu : unsetPair p = true := by
        simp only [pairLive] at hl'
        simp [unsetPair, hd.1, hd.2, hl']
      simp [hu, hl', ih]

theorem ixOk_build (st : List PairM) (hr : repPairs st = true) : ixOk st (some (buildIndex st)) = true := by
  rw [ixOk_iff]
  intro j p hj hl
  have hmem := List.mem_of_getElem? hj
  have hh := rep_live_hash st hr p hmem hl
  obtain ⟨f, _, hf⟩ := firstLiveKey_isSome p.2.1 st j p hj hl rfl
  refine ⟨f, by rw [ixGet_buildIndex, hh, firstHash_live _ st hr, hf], fun h => by rw [hf, h]⟩

/-- `linkedPairs.Get` under the invariant: the first live pair with the key, index or not -/
theorem pairsGet_spec (st : List PairM) (ix : Option Index) (key : Key) (hr : repPairs st = true)
    (hok : ixOk st ix = true) :
    pairsGet st ix key = (match firstLiveKey key st with | some j => .at j | none => .no) := by
  have hlin : linearFound st key = (match firstLiveKey key st with | some j => Found.at j | none => .no) := by
    simp only [linearFound, linearGet_eq key st hr]
    cases firstLiveKey key st <;> rfl
  cases ix with
  | none => simpa [pairsGet] using hlin
  | some m =>
    rw [ixOk_iff] at hok
    simp only [pairsGet]
    cases hg : ixGet m (some key) with
    | none =>
      cases hf : firstLiveKey key st with
      | none => rfl
      | some f =>
        obtain ⟨p, h1, h2, h3, _⟩ := firstLiveKey_some key st f hf
        obtain ⟨g, hg', _⟩ := hok f p h1 h2
        rw [rep_live_hash st hr p (List.mem_of_getElem? h1) h2, h3, hg] at hg'
        simp at hg'
    | some i =>
      simp only
      cases hq : st[i]? with
      | none => simpa using hlin
      | some p =>
        simp only
        by_cases hc : (p.2.1 = key && !unsetPair p) = true
        · simp only [hc, if_true]
          simp only [Bool.and_eq_true, decide_eq_true_eq, Bool.not_eq_true'] at hc
          have hmem := List.mem_of_getElem? hq
          have hl : pairLive p = true := by
            by_cases hl : pairLive p = true
            · exact hl
            · have hl' : pairLive p = false := by simpa using hl
              have hd := rep_dead st hr p hmem hl'
              simp only [pairLive] at hl'
              simp [unsetPair, hd.1, hd.2, hl'] at hc
          obtain ⟨f, h1, h2⟩ := hok i p hq hl
          rw [rep_live_hash st hr p hmem hl, hc.1, hg] at h1
          simp at h1
          rw [hc.1] at h2
          rw [h2 h1.symm]
        · simp only [hc, if_false]
          simpa using hlin

/-! ### the invariant is kept by Push, soft delete, Pop, Sort -/

theorem firstLiveKey_intro (k : Key) (st : List PairM) (f : Nat) (p : PairM) (h1 : st[f]? = some p)
    (h2 : pairLive p = true) (h3 : p.2.1 = k)
    (h4 : ∀ j q, j < f → st[j]? = some q → ¬ (pairLive q = true ∧ q.2.1 = k)) :
    firstLiveKey k st = some f := by
  obtain ⟨g, hg, hf⟩ := firstLiveKey_isSome k st f p h1 h2 h3
  obtain ⟨q, q1, q2, q3, _⟩ := firstLiveKey_some k st g hf
  rcases Nat.lt_or_ge g f with hlt | hge
  · exact absurd ⟨q2, q3⟩ (h4 g q hlt q1)
  · have : g = f := by omega
    rw [hf, this]

theorem ixOk_push (st : List PairM) (m : Index) (k : Key) (v : NodeM)
    (hr : repPairs st = true) (hok : ixOk st (some m) = true) (hnone : firstLiveKey k st = none) :
    ixOk (st ++ [mkPair k v]) (some (ixSet m (some k) st.length)) = true := by
  rw [ixOk_iff] at hok ⊢
  have hno := firstLiveKey_none k st hnone
  intro j p hj hl
  rcases Nat.lt_or_ge j st.length with hlt | hge
  · have hj' : st[j]? = some p := by rwa [List.getElem?_append_left hlt] at hj
    have hmem := List.mem_of_getElem? hj'
    have hk : p.2.1 ≠ k := fun h => hno p hmem ⟨hl, h⟩
    have hh := rep_live_hash st hr p hmem hl
    obtain ⟨f, h1, h2⟩ := hok j p hj' hl
    refine ⟨f, ?_, fun hf => ?_⟩
    · rw [ixGet_ixSet, if_neg (by rw [hh]; intro h; injection h with h; exact hk h.symm)]; exact h1
    · obtain ⟨q, q1, q2, q3, q4⟩ := firstLiveKey_some _ st j (h2 hf)
      apply firstLiveKey_intro p.2.1 (st ++ [mkPair k v]) j p hj hl rfl
      intro i q' hi hq'
      have : st[i]? = some q' := by rwa [List.getElem?_append_left (by omega)] at hq'
      exact q4 i q' hi this
  · have hlen : j < (st ++ [mkPair k v]).length := by
      rcases Nat.lt_or_ge j (st ++ [mkPair k v]).length with h | h
      · exact h
      · rw [List.getElem?_eq_none h] at hj; simp at hj
    have hjeq : j = st.length := by simp at hlen; omega
    subst hjeq
    have hp : p = mkPair k v := by simpa using hj.symm
    subst hp
    refine ⟨st.length, by simp [ixGet_ixSet, mkPair], fun _ => ?_⟩
    apply firstLiveKey_intro k (st ++ [mkPair k v]) st.length (mkPair k v) hj hl rfl
    intro i q hi hq
    have : st[i]? = some q := by rwa [List.getElem?_append_left hi] at hq
    exact hno q (List.mem_of_getElem? this)

theorem ixOk_kill (st : List PairM) (ix : Option Index) (j : Nat) (hok : ixOk st ix = true) :
    ixOk (st.set j deadPair) ix = true := by
  cases ix with
  | none => rfl
  | some m =>
    rw [ixOk_iff] at hok ⊢
    intro i p hi hl
    have hne : j ≠ i := by
      intro h; subst h
      rw [List.getElem?_set] at hi
      simp only [if_true] at hi
      split at hi
      · injection hi with hi; subst hi; simp [deadPair, pairLive, NodeM.live] at hl
      · simp at hi
    have hi' : st[i]? = some p := by rwa [List.getElem?_set, if_neg hne] at hi
    obtain ⟨f, h1, h2⟩ := hok i p hi' hl
    refine ⟨f, h1, fun hf => ?_⟩
    obtain ⟨q, q1, q2, q3, q4⟩ := firstLiveKey_some _ st i (h2 hf)
    apply firstLiveKey_intro p.2.1 _ i p hi hl rfl
    intro t q' ht hq'
    rw [List.getElem?_set] at hq'
    by_cases hjt : j = t
    · simp only [hjt, if_true] at hq'
      split at hq'
      · injection hq' with hq'; subst hq'; simp [deadPair, pairLive, NodeM.live]
      · simp at hq'
    · rw [if_neg hjt] at hq'
      exact q4 t q' ht hq'

/-- does one of the popped slots `i, i+1, ...` (pairs `r`) remove the entry `h ↦ f`? -/
def popHit : Nat → List PairM → Nat → Hash → Bool
  | _, [], _, _ => false
  | i, p :: r, f, h => (f == i && p.1 == h) || popHit (i + 1) r f h

theorem ixGet_ixPopSlots (h : Hash) : ∀ (r : List PairM) (m : Index) (i : Nat),
    ixGet (ixPopSlots m i r) h = (ixGet m h).bind (fun f => if popHit i r f h then none else some f)
  | [], m, i => by cases hg : ixGet m h <;> simp [ixPopSlots, popHit, hg]
  | p :: r, m, i => by
    simp only [ixPopSlots]
    rw [ixGet_ixPopSlots h r _ (i + 1)]
    by_cases hc : ixGet m p.1 = some i
    · rw [if_pos hc, ixGet_ixDel]
      by_cases hp : p.1 = h
      · subst hp
        simp [hc, popHit]
      · rw [if_neg hp]
        cases hg : ixGet m h with
        | none => rfl
        | some f => simp [popHit, hp]
    · rw [if_neg hc]
      cases hg : ixGet m h with
      | none => rfl
      | some f =>
        simp only [Option.bind_some, popHit]
        by_cases hp : p.1 = h
        · subst hp
          have : f ≠ i := fun hf => hc (by rw [hg, hf])
          simp [this]
        · simp [hp]

theorem popHit_spec : ∀ (r : List PairM) (i f : Nat) (h : Hash), popHit i r f h = true →
    i ≤ f ∧ ∃ p, r[f - i]? = some p ∧ p.1 = h
  | [], _, _, _, hh => by simp [popHit] at hh
  | p :: r, i, f, h, hh => by
    simp only [popHit, Bool.or_eq_true, Bool.and_eq_true, beq_iff_eq] at hh
    rcases hh with ⟨h1, h2⟩ | hh
    · subst h1; exact ⟨by omega, p, by simp, h2⟩
    · obtain ⟨h1, q, h2, h3⟩ := popHit_spec r (i + 1) f h hh
      refine ⟨by omega, q, ?_, h3⟩
      have : f - i = (f - (i + 1)) + 1 := by omega
      rw [this]; simpa using h2

theorem ixOk_pop (st : List PairM) (ix : Option Index) (n : Nat) (hr : repPairs st = true)
    (hok : ixOk st ix = true) :
    ixOk (st.take n) (ix.map (fun m => ixPopSlots m n (st.drop n))) = true := by
  cases ix with
  | none => rfl
  | some m =>
    simp only [Option.map_some]
    rw [ixOk_iff] at hok ⊢
    intro j p hj hl
    have hjn : j < n := by
      rcases Nat.lt_or_ge j n with h | h
      · exact h
      · rw [List.getElem?_eq_none (by simp; omega)] at hj; simp at hj
    have hj' : st[j]? = some p := by rwa [List.getElem?_take_of_lt hjn] at hj
    have hmem := List.mem_of_getElem? hj'
    have hh := rep_live_hash st hr p hmem hl
    obtain ⟨f, h1, h2⟩ := hok j p hj' hl
    have hkeep : popHit n (st.drop n) f p.1 = false := by
      cases hph : popHit n (st.drop n) f p.1 with
      | false => rfl
      | true =>
        exfalso
        obtain ⟨hnf, q, hq, hqh⟩ := popHit_spec _ n f p.1 hph
        have hq' : st[f]? = some q := by
          rw [List.getElem?_drop] at hq
          have : n + (f - n) = f := by omega
          rwa [this] at hq
        have hqm := List.mem_of_getElem? hq'
        have hql : pairLive q = true := by
          by_cases hql : pairLive q = true
          · exact hql
          · have := (rep_dead st hr q hqm (by simpa using hql)).2
            rw [this, hh] at hqh; simp at hqh
        have hqk : q.2.1 = p.2.1 := by
          have := rep_live_hash st hr q hqm hql
          rw [this, hh] at hqh; injection hqh
        obtain ⟨g, g1, g2⟩ := hok f q hq' hql
        rw [hqh, h1] at g1
        injection g1 with g1
        obtain ⟨_, _, _, _, w4⟩ := firstLiveKey_some _ st f (g2 g1.symm)
        exact w4 j p (by omega) hj' ⟨hl, hqk.symm⟩
    refine ⟨f, by rw [ixGet_ixPopSlots, h1]; simp [hkeep], fun hf => ?_⟩
    obtain ⟨_, _, _, _, w4⟩ := firstLiveKey_some _ st j (h2 hf)
    apply firstLiveKey_intro p.2.1 _ j p hj hl rfl
    intro t q ht hq
    have : st[t]? = some q := by rwa [List.getElem?_take_of_lt (by omega)] at hq
    exact w4 t q ht this


theorem mkObject_spec (st : List PairM) (hr : repPairs st = true) (hl : ∀ p ∈ st, pairLive p = true) :
    (mkObject st).abs = .obj (absPairs st) ∧ (mkObject st).repOk = true := by
  have hb := ixOk_build st hr
  unfold mkObject
  by_cases h : st.length > 16
  · simp [h, NodeM.abs, NodeM.repOk, hr, countLive_all _ _ hl, hb]
  · simp [h, NodeM.abs, NodeM.repOk, hr, countLive_all _ _ hl, ixOk]

theorem skel_live (a b : List PairM) (h : a.map skelOf = b.map skelOf) : a.map pairLive = b.map pairLive := by
  have : a.map pairLive = (a.map skelOf).map (·.2.2) := by simp [skelOf, Function.comp_def]
  rw [this, h]; simp [skelOf, Function.comp_def]

theorem allLive_of_map (a b : List PairM) (h : a.map pairLive = b.map pairLive)
    (hb : ∀ p ∈ b, pairLive p = true) : ∀ p ∈ a, pairLive p = true := by
  intro p hp
  have : pairLive p ∈ a.map pairLive := List.mem_map_of_mem hp
  rw [h] at this
  obtain ⟨q, hq, he⟩ := List.mem_map.mp this
  rw [← he]; exact hb q hq

end SonicSpec.Ast
