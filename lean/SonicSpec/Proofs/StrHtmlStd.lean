/-
  Helper lemmas for C20: `htmlEscape` is idempotent, and equals the transliteration of
  encoding/json.appendHTMLEscape (Model/StrStd.lean).
-/
import SonicSpec.Model.Str
import SonicSpec.Model.StrSpec
import SonicSpec.Model.StrStd
import SonicSpec.Proofs.U8
import SonicSpec.Proofs.StrHtml
import SonicSpec.Proofs.StrHtmlDenote
namespace SonicSpec.Str

/-! ### idempotence -/

theorem htmlByte_plain (c : UInt8) (h : c ≠ 60 ∧ c ≠ 62 ∧ c ≠ 38) : htmlByte c = [c] := by
  have a : (c == 60) = false := by simpa using h.1
  have b : (c == 62) = false := by simpa using h.2.1
  have d : (c == 38) = false := by simpa using h.2.2
  simp only [htmlByte, a, b, d, Bool.false_eq_true, ↓reduceIte]

theorem hasLSPS_tail {a b c : UInt8} {t : Bytes} (h : hasLSPS (a :: b :: c :: t) = false) :
    (a == 226 && b == 128 && (c == 168 || c == 169)) = false ∧ hasLSPS (b :: c :: t) = false := by
  rw [hasLSPS] at h
  simpa [Bool.or_eq_false_iff] using h

/-- nothing to escape: the text is returned unchanged -/
theorem htmlEscape_id_of_clean (l : Bytes) (h1 : ∀ b ∈ l, b ≠ 60 ∧ b ≠ 62 ∧ b ≠ 38) (h2 : hasLSPS l = false) :
    htmlEscape l = l := by
  fun_induction htmlEscape l with
  | case1 => rfl
  | case2 c x y t' hc ih =>
    have := (hasLSPS_tail h2).1
    simp only [Bool.and_eq_true, beq_iff_eq] at hc
    obtain ⟨⟨rfl, rfl⟩, rfl⟩ := hc
    simp at this
  | case3 c x y t' hc1 hc ih =>
    have := (hasLSPS_tail h2).1
    simp only [Bool.and_eq_true, beq_iff_eq] at hc
    obtain ⟨⟨rfl, rfl⟩, rfl⟩ := hc
    simp at this
  | case4 c x y t' hc1 hc2 ih =>
    rw [htmlByte_plain c (h1 c (by simp)), ih (fun b hb => h1 b (by simp [hb])) (hasLSPS_tail h2).2]
    rfl
  | case5 c t hne ih =>
    rw [htmlByte_plain c (h1 c (by simp))]
    have : hasLSPS t = false := by
      match t, hne with
      | [], _ => rfl
      | [x], _ => rfl
      | x :: y :: t', hne => exact (hne x y t' rfl).elim
    rw [ih (fun b hb => h1 b (by simp [hb])) this]
    rfl

theorem htmlEscape_idem (s : Bytes) : htmlEscape (htmlEscape s) = htmlEscape s :=
  htmlEscape_id_of_clean _ (htmlEscape_mem s) (htmlEscape_noLSPS s)

/-! ### slices -/

theorem drop_succ_of_cons {src rest : Bytes} {c : UInt8} {i : Nat} (h : src.drop i = c :: rest) :
    src.drop (i + 1) = rest := by
  have : src.drop (i + 1) = (src.drop i).drop 1 := by rw [List.drop_drop]
  rw [this, h]; rfl

theorem slice_self (src : Bytes) (a : Nat) : slice src a a = [] := by simp [slice]

theorem slice_succ {src rest : Bytes} {c : UInt8} {i start : Nat} (h : src.drop i = c :: rest) (hs : start ≤ i) :
    slice src start (i + 1) = slice src start i ++ [c] := by
  unfold slice
  have e : i + 1 - start = (i - start) + 1 := by omega
  rw [e, List.take_add_one]
  congr 1
  rw [List.getElem?_drop]
  have : start + (i - start) = i := by omega
  rw [this]
  have h0 : (src.drop i)[0]? = some c := by rw [h]; rfl
  rw [List.getElem?_drop] at h0
  simpa using h0

theorem slice_to_end {src : Bytes} {i start : Nat} (h : src.drop i = []) (hs : start ≤ i) :
    slice src start i = src.drop start := by
  unfold slice
  apply List.take_of_length_le
  have : src.length ≤ i := by simpa using h
  simp only [List.length_drop]
  omega

/-! ### one iteration of the loop of appendHTMLEscape -/

def IsTriple (c : UInt8) (rest : Bytes) : Prop :=
  c = 226 ∧ ∃ y t, rest = 128 :: y :: t ∧ (y = 168 ∨ y = 169)

theorem and254 : ∀ y : UInt8, ((y &&& 254) == 168) = (y == 168 || y == 169) := by
  apply forall_uint8; decide +kernel

theorem stdIf1_special (src : Bytes) (c : UInt8) (i : Nat) (st : Nat × Bytes) (h : c = 60 ∨ c = 62 ∨ c = 38) :
    stdIf1 src c i st = (i + 1, st.2 ++ slice src st.1 i ++ htmlByte c) := by
  rcases h with rfl | rfl | rfl <;> rfl

theorem stdIf1_other (src : Bytes) (c : UInt8) (i : Nat) (st : Nat × Bytes) (h : c ≠ 60 ∧ c ≠ 62 ∧ c ≠ 38) :
    stdIf1 src c i st = st := by
  have a : (c == 60) = false := by simpa using h.1
  have b : (c == 62) = false := by simpa using h.2.1
  have d : (c == 38) = false := by simpa using h.2.2
  simp [stdIf1, a, b, d]

theorem stdIf2_triple (src : Bytes) (y : UInt8) (t : Bytes) (i : Nat) (st : Nat × Bytes) (hy : y = 168 ∨ y = 169) :
    stdIf2 src 226 (128 :: y :: t) i st =
      (i + 3, st.2 ++ slice src st.1 i ++ (if y = 168 then htmlLS else htmlPS)) := by
  rcases hy with rfl | rfl <;> rfl

theorem stdIf2_other (src : Bytes) (c : UInt8) (rest : Bytes) (i : Nat) (st : Nat × Bytes) (h : ¬ IsTriple c rest) :
    stdIf2 src c rest i st = st := by
  unfold stdIf2
  split
  · rename_i x y t
    split
    · rename_i hc
      rw [and254] at hc
      simp only [Bool.and_eq_true, beq_iff_eq, Bool.or_eq_true] at hc
      obtain ⟨⟨rfl, rfl⟩, hy⟩ := hc
      exact absurd ⟨rfl, y, t, rfl, hy⟩ h
    · rfl
  · rfl

theorem htmlEscape_triple (y : UInt8) (t : Bytes) (hy : y = 168 ∨ y = 169) :
    htmlEscape (226 :: 128 :: y :: t) = (if y = 168 then htmlLS else htmlPS) ++ htmlEscape t := by
  rcases hy with rfl | rfl
  · rw [htmlEscape_ls 226 128 168 t (by decide)]; rfl
  · rw [htmlEscape_ps 226 128 169 t (by decide) (by decide)]; rfl

theorem htmlEscape_not_triple (c : UInt8) (rest : Bytes) (h : ¬ IsTriple c rest) :
    htmlEscape (c :: rest) = htmlByte c ++ htmlEscape rest := by
  apply htmlEscape_cons_single
  · intro t' e hc; exact h ⟨hc, 168, t', e, Or.inl rfl⟩
  · intro t' e hc; exact h ⟨hc, 169, t', e, Or.inr rfl⟩

/-- the state of the loop at index `i` is consistent: everything before `start` has been written, and either
    `src[start:i]` is a run of bytes that need no escaping, or `i` is inside a U+2028/9 triple just written -/
def Good (src : Bytes) (i start : Nat) : Prop :=
  (start ≤ i ∧ htmlEscape (src.drop start) = slice src start i ++ htmlEscape (src.drop i)) ∨
  (start = i + 1 ∧ ∃ y t, src.drop i = y :: t ∧ (y = 168 ∨ y = 169)) ∨
  (start = i + 2 ∧ ∃ y t, src.drop i = 128 :: y :: t ∧ (y = 168 ∨ y = 169))

theorem stdLoop_spec (src : Bytes) : ∀ (rest : Bytes) (i start : Nat) (dst : Bytes),
    src.drop i = rest → Good src i start → stdLoop src rest i (start, dst) = dst ++ htmlEscape (src.drop start) := by
  intro rest
  induction rest with
  | nil =>
    intro i start dst hd hg
    rw [stdLoop]
    rcases hg with ⟨hle, he⟩ | ⟨_, y, t, e, _⟩ | ⟨_, y, t, e, _⟩
    · rw [he, hd, htmlEscape_nil, List.append_nil, slice_to_end hd hle]
    · rw [hd] at e; cases e
    · rw [hd] at e; cases e
  | cons c rest ih =>
    intro i start dst hd hg
    have hd1 : src.drop (i + 1) = rest := drop_succ_of_cons hd
    rw [stdLoop]
    rcases hg with ⟨hle, he⟩ | ⟨hst, y, t, e, hy⟩ | ⟨hst, y, t, e, hy⟩
    · -- a run of plain bytes is pending
      rw [hd] at he
      by_cases hsp : c = 60 ∨ c = 62 ∨ c = 38
      · have hnt : ¬ IsTriple c rest := by
          rintro ⟨rfl, _⟩; rcases hsp with h | h | h <;> cases h
        rw [stdIf1_special src c i _ hsp, stdIf2_other src c rest i _ hnt]
        rw [ih (i + 1) (i + 1) _ hd1 (Or.inl ⟨Nat.le_refl _, by rw [slice_self]; rfl⟩)]
        rw [he, htmlEscape_not_triple c rest hnt, hd1]
        simp [List.append_assoc]
      · have hsp' : c ≠ 60 ∧ c ≠ 62 ∧ c ≠ 38 := by
          refine ⟨fun h => hsp (Or.inl h), fun h => hsp (Or.inr (Or.inl h)), fun h => hsp (Or.inr (Or.inr h))⟩
        rw [stdIf1_other src c i _ hsp']
        by_cases htr : IsTriple c rest
        · obtain ⟨rfl, y, t, rfl, hy⟩ := htr
          rw [stdIf2_triple src y t i _ hy]
          have hd3 : src.drop (i + 3) = t := drop_succ_of_cons (drop_succ_of_cons hd1)
          rw [ih (i + 1) (i + 3) _ hd1 (Or.inr (Or.inr ⟨rfl, y, t, hd1, hy⟩))]
          rw [he, htmlEscape_triple y t hy, hd3]
          simp [List.append_assoc]
        · rw [stdIf2_other src c rest i _ htr]
          refine ih (i + 1) start dst hd1 (Or.inl ⟨by omega, ?_⟩)
          rw [he, htmlEscape_not_triple c rest htr, htmlByte_plain c hsp', slice_succ hd hle, hd1]
          simp [List.append_assoc]
    · -- the last byte of a triple that has been written
      rw [hd] at e
      injection e with e1 e2
      subst e1
      have hsp' : c ≠ 60 ∧ c ≠ 62 ∧ c ≠ 38 := by rcases hy with rfl | rfl <;> decide
      have hnt : ¬ IsTriple c rest := by rintro ⟨rfl, _⟩; rcases hy with h | h <;> cases h
      rw [stdIf1_other src c i _ hsp', stdIf2_other src c rest i _ hnt]
      refine ih (i + 1) start dst hd1 (Or.inl ⟨by omega, ?_⟩)
      rw [hst, slice_self]; rfl
    · -- the middle byte of a triple that has been written
      rw [hd] at e
      injection e with e1 e2
      subst e1
      have hnt : ¬ IsTriple 128 rest := by rintro ⟨h, _⟩; cases h
      rw [stdIf1_other src 128 i _ (by decide), stdIf2_other src 128 rest i _ hnt]
      refine ih (i + 1) start dst hd1 (Or.inr (Or.inl ⟨by omega, y, t, ?_, hy⟩))
      rw [hd1, e2]

/-- `encoding/json.appendHTMLEscape(dst, src)` = `dst ++ htmlEscape src` -/
theorem stdHtmlEscape_eq (dst src : Bytes) : stdHtmlEscape dst src = dst ++ htmlEscape src := by
  unfold stdHtmlEscape
  have := stdLoop_spec src src 0 0 dst rfl (Or.inl ⟨Nat.le_refl _, by rw [slice_self]; rfl⟩)
  simpa using this

end SonicSpec.Str
