/-
  C02: the fuel of `run` is never what decides - `length input + 1` turns always suffice, so the answer
  of `skipOne` is the answer of the native loop (which terminates because every turn consumes a byte).
-/
import SonicSpec.Proofs.JsonFsm
namespace SonicSpec.Json

theorem lit_err {pat r p : Bytes} {e : Err} (h : lit pat r = .err e p) : e ≠ .fuel := by
  unfold lit at h
  simp only at h
  repeat' split at h
  all_goals first | (cases h; done) | (cases h; decide)

theorem skipPositive_err {ch : UInt8} {r p : Bytes} {e : Err} (h : skipPositive ch r = .err e p) : e ≠ .fuel := by
  unfold skipPositive at h
  split at h
  · cases h
  · cases h; decide

theorem skipNegative_err {r p : Bytes} {e : Err} (h : skipNegative r = .err e p) : e ≠ .fuel := by
  unfold skipNegative at h
  repeat' split at h
  all_goals first | (cases h; done) | (cases h; decide)

theorem strDefault_err : ∀ (n : Nat) (s p : Bytes) (e : Err), s.length ≤ n → strDefault s = .err e p → e ≠ .fuel := by
  intro n
  induction n with
  | zero =>
    intro s p e hl h
    cases s with
    | nil => simp only [strDefault, Res.err.injEq] at h; obtain ⟨rfl, _⟩ := h; decide
    | cons c t => simp at hl
  | succ n ih =>
    intro s p e hl h
    cases s with
    | nil => simp only [strDefault, Res.err.injEq] at h; obtain ⟨rfl, _⟩ := h; decide
    | cons c t =>
      by_cases h1 : c = 34
      · subst h1; rw [strDefault_quote] at h; cases h
      by_cases h2 : c = 92
      · subst h2
        cases t with
        | nil => rw [strDefault.eq_def] at h; simp at h; obtain ⟨rfl, _⟩ := h; decide
        | cons d t' =>
          rw [strDefault_esc] at h
          exact ih t' p e (by simp at hl; omega) h
      · rw [strDefault_plain _ h1 h2] at h
        exact ih t p e (by simp at hl; omega) h

theorem strStrict_err : ∀ (n : Nat) (s p : Bytes) (e : Err), s.length ≤ n → strStrict s = .err e p → e ≠ .fuel := by
  intro n
  induction n with
  | zero =>
    intro s p e hl h
    cases s with
    | nil => simp only [strStrict, Res.err.injEq] at h; obtain ⟨rfl, _⟩ := h; decide
    | cons c t => simp at hl
  | succ n ih =>
    intro s p e hl h
    cases s with
    | nil => simp only [strStrict, Res.err.injEq] at h; obtain ⟨rfl, _⟩ := h; decide
    | cons c t =>
      by_cases h1 : c = 34
      · subst h1; rw [strStrict_quote] at h; cases h
      by_cases h2 : c = 92
      · subst h2
        cases t with
        | nil => rw [strStrict.eq_def] at h; simp at h; obtain ⟨rfl, _⟩ := h; decide
        | cons e' t1 =>
          by_cases he : isSimpleEsc e' = true
          · rw [strStrict_esc _ he] at h
            exact ih t1 p e (by simp at hl; omega) h
          · have he' : isSimpleEsc e' = false := by simpa using he
            by_cases hu : e' = 117
            · subst hu
              rcases t1 with _ | ⟨h1, _ | ⟨h2, _ | ⟨h3, _ | ⟨h4, r5⟩⟩⟩⟩
              · rw [strStrict.eq_def] at h; simp [he'] at h; obtain ⟨rfl, _⟩ := h; decide
              · rw [strStrict.eq_def] at h; simp [he'] at h; obtain ⟨rfl, _⟩ := h; decide
              · rw [strStrict.eq_def] at h; simp [he'] at h; obtain ⟨rfl, _⟩ := h; decide
              · rw [strStrict.eq_def] at h; simp [he'] at h; obtain ⟨rfl, _⟩ := h; decide
              · by_cases hx : (isHex h1 && isHex h2 && isHex h3 && isHex h4) = true
                · simp only [Bool.and_eq_true] at hx
                  obtain ⟨⟨⟨x1, x2⟩, x3⟩, x4⟩ := hx
                  rw [strStrict_uni _ x1 x2 x3 x4] at h
                  exact ih r5 p e (by simp at hl; omega) h
                · rw [strStrict.eq_def] at h; simp [he', hx] at h; obtain ⟨rfl, _⟩ := h; decide
            · rw [strStrict.eq_def] at h; simp [he', hu] at h; obtain ⟨rfl, _⟩ := h; decide
      · by_cases h3 : isCtl c = true
        · rw [strStrict.eq_def] at h; simp [h1, h2, h3] at h; obtain ⟨rfl, _⟩ := h; decide
        · have h3' : isCtl c = false := by simpa using h3
          rw [strStrict_plain _ h1 h2 h3'] at h
          exact ih t p e (by simp at hl; omega) h

theorem escLen_err {t : Bytes} {e : Err} (h : escLen t = .error e) : e ≠ .fuel := by
  unfold escLen at h
  split at h
  · cases h; decide
  · split at h
    · cases h
    · split at h
      · split at h
        · split at h
          · dsimp only at h
            split at h
            · split at h
              · split at h
                · split at h <;> cases h
                · cases h
              · cases h
            · cases h
          · cases h; decide
        · cases h; decide
      · cases h; decide

theorem strValTail_err : ∀ (s : Bytes) (k : Nat) (p : Bytes) (e : Err), strValTail k s = .err e p → e ≠ .fuel := by
  intro s
  induction s with
  | nil => intro k p e h; cases k <;> (simp only [strValTail, Res.err.injEq] at h; obtain ⟨rfl, _⟩ := h; decide)
  | cons c t ih =>
    intro k p e h
    cases k with
    | succ k' => rw [strValTail] at h; exact ih k' p e h
    | zero =>
      rw [strValTail_zero_cons] at h
      by_cases h1 : c = 34
      · rw [if_pos h1] at h; cases h
      rw [if_neg h1] at h
      by_cases h2 : c = 92
      · rw [if_pos h2] at h
        cases t with
        | nil => simp only [Res.err.injEq] at h; obtain ⟨rfl, _⟩ := h; decide
        | cons d t' =>
          simp only at h
          cases he : escLen (d :: t') with
          | error e2 =>
            rw [he] at h
            simp only [Res.err.injEq] at h
            obtain ⟨rfl, _⟩ := h
            exact escLen_err he
          | ok k2 => rw [he] at h; exact ih k2 p e h
      · rw [if_neg h2] at h
        by_cases h3 : isCtl c = true
        · rw [if_pos h3] at h; simp only [Res.err.injEq] at h; obtain ⟨rfl, _⟩ := h; decide
        · rw [if_neg h3] at h; exact ih 0 p e h

theorem strValBlocks_err : ∀ (n : Nat) (esc : Bool) (s p : Bytes) (e : Err), strValBlocks n esc s = .err e p → e ≠ .fuel := by
  intro n
  induction n with
  | zero =>
    intro esc s p e h
    cases esc with
    | true =>
      cases s with
      | nil => simp only [strValBlocks, if_true, Res.err.injEq] at h; obtain ⟨rfl, _⟩ := h; decide
      | cons c t => simp only [strValBlocks, if_true] at h; exact strValTail_err t 0 p e h
    | false =>
      simp only [strValBlocks] at h
      exact strValTail_err s 0 p e (by simpa using h)
  | succ n ih =>
    intro esc s p e h
    cases s with
    | nil => simp only [strValBlocks, Res.err.injEq] at h; obtain ⟨rfl, _⟩ := h; decide
    | cons c t =>
      cases esc with
      | true =>
        rw [strValBlocks] at h
        by_cases h3 : isCtl c = true
        · rw [if_pos h3] at h; simp only [Res.err.injEq] at h; obtain ⟨rfl, _⟩ := h; decide
        · rw [if_neg h3] at h; exact ih false t p e h
      | false =>
        rw [strValBlocks] at h
        by_cases h1 : c = 34
        · rw [if_pos h1] at h; cases h
        rw [if_neg h1] at h
        by_cases h3 : isCtl c = true
        · rw [if_pos h3] at h; simp only [Res.err.injEq] at h; obtain ⟨rfl, _⟩ := h; decide
        · rw [if_neg h3] at h; exact ih _ t p e h

theorem scanStr_err (m : StrMode) {s p : Bytes} {e : Err} (h : scanStr m s = .err e p) : e ≠ .fuel := by
  cases m with
  | dflt => exact strDefault_err _ s p e (Nat.le_refl _) h
  | validate => exact strValBlocks_err _ false s p e h
  | strict => exact strStrict_err _ s p e (Nat.le_refl _) h

section
variable {B : Nat} {m : StrMode}

theorem ofRes_fail {st : List Frame} {sp : Nat} {res : Res} {e : Err} {p : Bytes}
    (h : Step.ofRes st sp res = .fail e p) : res = .err e p := by
  cases res with
  | ok r => simp [Step.ofRes] at h
  | err e' p' => simp only [Step.ofRes, Step.fail.injEq] at h; obtain ⟨rfl, rfl⟩ := h; rfl

theorem value_fail {st : List Frame} {sp : Nat} {ch : UInt8} {r0 p : Bytes} {e : Err}
    (h : value B m st sp ch r0 = .fail e p) : e ≠ .fuel := by
  unfold value at h
  repeat' split at h
  all_goals first
    | (cases h; done)
    | (cases h; decide)
    | exact skipPositive_err (ofRes_fail h)
    | exact skipNegative_err (ofRes_fail h)
    | exact lit_err (ofRes_fail h)
    | exact scanStr_err m (ofRes_fail h)

theorem step_fail {f : Frame} {st : List Frame} {sp : Nat} {s p : Bytes} {e : Err}
    (h : step B m f st sp s = .fail e p) : e ≠ .fuel := by
  unfold step at h
  cases ha : advanceNs s with
  | none => rw [ha] at h; simp only [Step.fail.injEq] at h; obtain ⟨rfl, _⟩ := h; decide
  | some q =>
    obtain ⟨ch, r0⟩ := q
    rw [ha] at h
    simp only at h
    cases f with
    | val => exact value_fail h
    | arr =>
      simp only at h
      repeat' split at h
      all_goals first | (cases h; done) | (cases h; decide)
    | obj =>
      simp only at h
      repeat' split at h
      all_goals first | (cases h; done) | (cases h; decide)
    | key =>
      simp only at h
      split at h
      · exact scanStr_err m (ofRes_fail h)
      · cases h; decide
    | elem =>
      simp only at h
      split at h
      · cases h
      · cases h; decide
    | arr0 =>
      simp only at h
      split at h
      · cases h
      · exact value_fail h
    | obj0 =>
      simp only at h
      split at h
      · cases h
      · split at h
        · cases hr : scanStr m r0 with
          | err e2 p2 =>
            rw [hr] at h
            simp only [Step.fail.injEq] at h
            obtain ⟨rfl, _⟩ := h
            exact scanStr_err m hr
          | ok r' =>
            rw [hr] at h
            simp only at h
            split at h
            · cases h
            · cases h; decide
        · cases h; decide

/-- with more fuel than bytes, `run` never answers "out of fuel" -/
theorem run_no_fuel : ∀ (n : Nat) (st : List Frame) (s : Bytes) (p : Bytes), s.length < n →
    run B m n st st.length s ≠ .err .fuel p := by
  intro n
  induction n with
  | zero => intro st s p h; omega
  | succ n ih =>
    intro st s p hn
    cases st with
    | nil => simp [run]
    | cons f st' =>
      rw [run]
      have e : (f :: st').length - 1 = st'.length := by simp
      rw [e]
      cases hstep : step B m f st' st'.length s with
      | fail e2 p2 =>
        simp only
        intro hh
        simp only [Res.err.injEq] at hh
        exact step_fail hstep hh.1
      | next st2 sp2 r2 =>
        simp only
        obtain ⟨rfl, hlt⟩ := step_progress hstep
        exact ih st2 r2 p (by omega)

theorem skipOne_no_fuel (s p : Bytes) : skipOne B m s ≠ .err .fuel p :=
  run_no_fuel _ [.val] s p (Nat.lt_succ_self _)

end

end SonicSpec.Json
