/-
  C02: the generic decoder's table machine (Model/JsonGeneric.lean) against the token grammar.
-/
import SonicSpec.Model.JsonGeneric
namespace SonicSpec.Json

/-- the stack as a recursive-descent context -/
def GConts (B : Nat) : List GState → List GTok → Prop
  | [], c => c = []
  | .val :: st, c => ∃ v c' k, c = v ++ c' ∧ TVal k v ∧ (k = 0 ∨ st.length + 1 + k ≤ B) ∧ GConts B st c'
  | .arr0 :: .arr :: st, c => ∃ t c' k, c = t ++ c' ∧ TArr0 k t ∧ st.length + 1 + k ≤ B ∧ GConts B st c'
  | .arr :: st, c => ∃ t c' m, c = t ++ c' ∧ TArrT m t ∧ (m = 0 ∨ st.length + 1 + m ≤ B) ∧ GConts B st c'
  | .obj0 :: st, c => ∃ t c' m, c = t ++ c' ∧ TObj0 m t ∧ (m = 0 ∨ st.length + 1 + m ≤ B) ∧ GConts B st c'
  | .obj :: st, c => ∃ t c' m, c = t ++ c' ∧ TObjT m t ∧ (m = 0 ∨ st.length + 1 + m ≤ B) ∧ GConts B st c'
  | .objSep :: st, c => ∃ v t c' k m, c = .str :: .colon :: (v ++ (t ++ c')) ∧ TVal k v ∧ TObjT m t ∧
      st.length + 1 + max (k + 1) m ≤ B ∧ GConts B st c'
  | .objDelim :: _ :: st, c => ∃ v t c' k m, c = .colon :: (v ++ (t ++ c')) ∧ TVal k v ∧ TObjT m t ∧
      st.length + 1 + max (k + 1) m ≤ B ∧ GConts B st c'
  | _, _ => False

/-- shapes the machine builds: `arr_0` sits on `arr`, `obj_delim` on `obj_0`/`obj_sep`; never more than `B`
    states except for the initial one -/
def GWf : List GState → Prop
  | [] => True
  | [x] => x ≠ .arr0 ∧ x ≠ .objDelim
  | x :: y :: st => (x = .arr0 → y = .arr) ∧ (x = .objDelim → (y = .obj0 ∨ y = .objSep)) ∧ GWf (y :: st)

def GOk (B : Nat) (st : List GState) : Prop := GWf st ∧ (st.length ≤ B ∨ st.length ≤ 1)

theorem gwf_tail {x : GState} {st : List GState} (h : GWf (x :: st)) : GWf st := by
  cases st with
  | nil => trivial
  | cons y r => exact h.2.2

theorem gwf_cons {x : GState} {st : List GState} (hx : x ≠ .arr0) (hx' : x ≠ .objDelim) (h : GWf st) : GWf (x :: st) := by
  cases st with
  | nil => exact ⟨hx, hx'⟩
  | cons y r => exact ⟨fun e => absurd e hx, fun e => absurd e hx', h⟩

theorem gwf_pair {x y : GState} {st : List GState} (a : x = .arr0 → y = .arr)
    (b : x = .objDelim → (y = .obj0 ∨ y = .objSep)) (c : GWf (y :: st)) : GWf (x :: y :: st) := ⟨a, b, c⟩

theorem gok_len {B x st} (h : GOk B (x :: st)) : st.length ≤ B := by
  rcases h.2 with h | h
  · simp at h; omega
  · have h' : st.length + 1 ≤ 1 := by simpa using h
    omega

theorem gok_len2 {B x y st} (h : GOk B (x :: y :: st)) : st.length + 2 ≤ B := by
  rcases h.2 with h | h
  · simpa using h
  · simp at h

theorem gwf_arr0 {st0 : List GState} (h : GWf (.arr0 :: st0)) : ∃ st1, st0 = .arr :: st1 := by
  cases st0 with
  | nil => exact absurd rfl h.1
  | cons y r => exact ⟨r, by rw [h.1 rfl]⟩

theorem gwf_delim {st0 : List GState} (h : GWf (.objDelim :: st0)) : ∃ y st1, st0 = y :: st1 := by
  cases st0 with
  | nil => exact absurd rfl h.2
  | cons y r => exact ⟨y, r, rfl⟩

theorem gwf_swap {x y : GState} {st : List GState} (hy : y ≠ .arr0) (hy' : y ≠ .objDelim) (h : GWf (x :: st)) :
    GWf (y :: st) := gwf_cons hy hy' (gwf_tail h)

/-- SOUNDNESS of the table machine: what it consumes completes its stack, read as a grammar context -/
theorem grun_sound (B : Nat) : ∀ (ts : List GTok) (st : List GState) (rest : List GTok), GOk B st →
    grun B st ts = .ok rest → ∃ c, ts = c ++ rest ∧ GConts B st c := by
  intro ts
  induction ts with
  | nil =>
    intro st rest _ h
    cases st with
    | nil => simp only [grun, Except.ok.injEq] at h; subst h; exact ⟨[], rfl, rfl⟩
    | cons x r => simp [grun] at h
  | cons t ts ih =>
    intro st rest hok h
    cases st with
    | nil => simp only [grun, Except.ok.injEq] at h; subst h; exact ⟨[], rfl, rfl⟩
    | cons top st0 =>
      have hw := hok.1
      have hl := gok_len hok
      cases t <;> cases top
      case scalar.val =>
        simp only [grun, gTable, gApply, Option.getD, List.drop] at h
        obtain ⟨c', rfl, hc'⟩ := ih st0 rest ⟨gwf_tail hw, Or.inl hl⟩ h
        exact ⟨.scalar :: c', rfl, [.scalar], c', 0, rfl, .scalar, Or.inl rfl, hc'⟩
      case str.val =>
        simp only [grun, gTable, gApply, Option.getD, List.drop] at h
        obtain ⟨c', rfl, hc'⟩ := ih st0 rest ⟨gwf_tail hw, Or.inl hl⟩ h
        exact ⟨.str :: c', rfl, [.str], c', 0, rfl, .str, Or.inl rfl, hc'⟩
      case scalar.arr0 =>
        obtain ⟨st1, rfl⟩ := gwf_arr0 hw
        have h2 := gok_len2 hok
        simp only [grun, gTable, gApply, Option.getD, List.drop] at h
        obtain ⟨c', rfl, t, c'', m, rfl, ht, hm, hc''⟩ := ih _ rest ⟨gwf_tail hw, Or.inl hl⟩ h
        exact ⟨.scalar :: (t ++ c''), by simp, [.scalar] ++ t, c'', _, by simp, .first 0 m [.scalar] t .scalar ht, by omega, hc''⟩
      case str.arr0 =>
        obtain ⟨st1, rfl⟩ := gwf_arr0 hw
        have h2 := gok_len2 hok
        simp only [grun, gTable, gApply, Option.getD, List.drop] at h
        obtain ⟨c', rfl, t, c'', m, rfl, ht, hm, hc''⟩ := ih _ rest ⟨gwf_tail hw, Or.inl hl⟩ h
        exact ⟨.str :: (t ++ c''), by simp, [.str] ++ t, c'', _, by simp, .first 0 m [.str] t .str ht, by omega, hc''⟩
      case str.obj0 =>
        simp only [grun, gTable, gApply, Option.getD] at h
        by_cases hb : st0.length + 1 < B
        · simp only [hb, if_true] at h
          obtain ⟨c', rfl, v, t2, c'', k, m, rfl, hv, ht, hbd, hc''⟩ := ih _ rest
            ⟨gwf_pair (fun e => by cases e) (fun _ => Or.inl rfl) hw, Or.inl (by simp; omega)⟩ h
          exact ⟨.str :: .colon :: (v ++ (t2 ++ c'')), rfl, .str :: .colon :: (v ++ t2), c'', _, by simp,
            .first k m v t2 hv ht, Or.inr hbd, hc''⟩
        · simp [hb] at h
      case str.objSep =>
        simp only [grun, gTable, gApply, Option.getD] at h
        by_cases hb : st0.length + 1 < B
        · simp only [hb, if_true] at h
          obtain ⟨c', rfl, v, t2, c'', k, m, rfl, hv, ht, hbd, hc''⟩ := ih _ rest
            ⟨gwf_pair (fun e => by cases e) (fun _ => Or.inr rfl) hw, Or.inl (by simp; omega)⟩ h
          exact ⟨.str :: .colon :: (v ++ (t2 ++ c'')), rfl, v, t2, c'', k, m, rfl, hv, ht, hbd, hc''⟩
        · simp [hb] at h
      case lb.val =>
        simp only [grun, gTable, gApply, Option.getD] at h
        by_cases hb : st0.length + 1 < B
        · simp only [hb, if_true] at h
          obtain ⟨c', rfl, t2, c'', k, rfl, ht, hbd, hc''⟩ := ih _ rest
            ⟨gwf_pair (fun _ => rfl) (fun e => by cases e) (gwf_swap (by decide) (by decide) hw), Or.inl (by simp; omega)⟩ h
          exact ⟨.lb :: (t2 ++ c''), rfl, .lb :: t2, c'', k, rfl, .arr k t2 ht, Or.inr hbd, hc''⟩
        · simp [hb] at h
      case lb.arr0 =>
        obtain ⟨st1, rfl⟩ := gwf_arr0 hw
        simp only [grun, gTable, gApply, Option.getD, List.length_cons] at h
        by_cases hb : st1.length + 1 + 1 < B
        · simp only [hb, if_true] at h
          obtain ⟨c', rfl, t2, c'', k, rfl, ht, hbd, t3, c3, m, rfl, ht3, hm, hc3⟩ := ih _ rest
            ⟨gwf_pair (fun _ => rfl) (fun e => by cases e) (gwf_swap (by decide) (by decide) hw), Or.inl (by simp at hb ⊢; omega)⟩ h
          refine ⟨.lb :: (t2 ++ (t3 ++ c3)), rfl, (.lb :: t2) ++ t3, c3, _, by simp, .first k m (.lb :: t2) t3 (.arr k t2 ht) ht3, ?_, hc3⟩
          (try simp only [List.length_cons] at hbd); omega
        · simp [hb] at h
      case lc.val =>
        simp only [grun, gTable, gApply, Option.getD, List.drop] at h
        obtain ⟨c', rfl, t2, c'', m, rfl, ht, hm, hc''⟩ := ih _ rest
          ⟨gwf_swap (by decide) (by decide) hw, by simpa using hok.2⟩ h
        exact ⟨.lc :: (t2 ++ c''), rfl, .lc :: t2, c'', m, rfl, .obj m t2 ht, hm, hc''⟩
      case lc.arr0 =>
        obtain ⟨st1, rfl⟩ := gwf_arr0 hw
        have h2 := gok_len2 hok
        simp only [grun, gTable, gApply, Option.getD, List.drop] at h
        obtain ⟨c', rfl, t2, c'', m, rfl, ht, hm, t3, c3, m3, rfl, ht3, hm3, hc3⟩ := ih _ rest
          ⟨gwf_swap (by decide) (by decide) hw, Or.inl (by simp; omega)⟩ h
        refine ⟨.lc :: (t2 ++ (t3 ++ c3)), rfl, (.lc :: t2) ++ t3, c3, _, by simp, .first m m3 (.lc :: t2) t3 (.obj m t2 ht) ht3, ?_, hc3⟩
        (try simp only [List.length_cons] at hm); omega
      case colon.objDelim =>
        obtain ⟨y, st1, rfl⟩ := gwf_delim hw
        have h2 := gok_len2 hok
        simp only [grun, gTable, gApply, Option.getD, List.drop] at h
        obtain ⟨c', rfl, v, c'', k, rfl, hv, hk, t3, c3, m, rfl, ht3, hm, hc3⟩ := ih _ rest
          ⟨gwf_pair (fun e => by cases e) (fun e => by cases e) (gwf_swap (by decide) (by decide) (gwf_tail hw)), Or.inl (by simp; omega)⟩ h
        refine ⟨.colon :: (v ++ (t3 ++ c3)), rfl, v, t3, c3, k, m, rfl, hv, ht3, ?_, hc3⟩
        (try simp only [List.length_cons] at hk); omega
      case comma.arr =>
        simp only [grun, gTable, gApply, Option.getD] at h
        by_cases hb : st0.length + 1 < B
        · simp only [hb, if_true] at h
          obtain ⟨c', rfl, v, c'', k, rfl, hv, hk, t3, c3, m, rfl, ht3, hm, hc3⟩ := ih _ rest
            ⟨gwf_pair (fun e => by cases e) (fun e => by cases e) hw, Or.inl (by simp; omega)⟩ h
          refine ⟨.comma :: (v ++ (t3 ++ c3)), rfl, .comma :: (v ++ t3), c3, _, by simp, .more k m v t3 hv ht3, Or.inr ?_, hc3⟩
          (try simp only [List.length_cons] at hk); omega
        · simp [hb] at h
      case comma.obj =>
        simp only [grun, gTable, gApply, Option.getD, List.drop] at h
        obtain ⟨c', rfl, v, t2, c'', k, m, rfl, hv, ht, hbd, hc''⟩ := ih _ rest
          ⟨gwf_swap (by decide) (by decide) hw, by simpa using hok.2⟩ h
        exact ⟨.comma :: .str :: .colon :: (v ++ (t2 ++ c'')), rfl, .comma :: .str :: .colon :: (v ++ t2), c'', _, by simp,
          .more k m v t2 hv ht, Or.inr hbd, hc''⟩
      case rb.arr0 =>
        obtain ⟨st1, rfl⟩ := gwf_arr0 hw
        have h2 := gok_len2 hok
        simp only [grun, gTable, gApply, Option.getD, List.drop] at h
        obtain ⟨c', rfl, hc'⟩ := ih st1 rest ⟨gwf_tail (gwf_tail hw), Or.inl (by omega)⟩ h
        exact ⟨.rb :: c', rfl, [.rb], c', 1, rfl, .close, by omega, hc'⟩
      case rb.arr =>
        simp only [grun, gTable, gApply, Option.getD, List.drop] at h
        obtain ⟨c', rfl, hc'⟩ := ih st0 rest ⟨gwf_tail hw, Or.inl hl⟩ h
        exact ⟨.rb :: c', rfl, [.rb], c', 0, rfl, .close, Or.inl rfl, hc'⟩
      case rc.obj0 =>
        simp only [grun, gTable, gApply, Option.getD, List.drop] at h
        obtain ⟨c', rfl, hc'⟩ := ih st0 rest ⟨gwf_tail hw, Or.inl hl⟩ h
        exact ⟨.rc :: c', rfl, [.rc], c', 0, rfl, .close, Or.inl rfl, hc'⟩
      case rc.obj =>
        simp only [grun, gTable, gApply, Option.getD, List.drop] at h
        obtain ⟨c', rfl, hc'⟩ := ih st0 rest ⟨gwf_tail hw, Or.inl hl⟩ h
        exact ⟨.rc :: c', rfl, [.rc], c', 0, rfl, .close, Or.inl rfl, hc'⟩
      all_goals (simp [grun, gTable] at h)

/-! ### completeness: derivations drive the table machine (continuation stack arbitrary) -/

mutual
theorem gval_ok (B : Nat) : ∀ {k : Nat} {v : List GTok}, TVal k v → ∀ (top : GState) (st : List GState) (r : List GTok),
    (top = .val ∨ top = .arr0) → (k = 0 ∨ st.length + 1 + k ≤ B) → grun B (top :: st) (v ++ r) = grun B st r
  | _, _, .scalar, top, st, r, htop, _ => by
    rcases htop with rfl | rfl <;> simp [grun, gTable, gApply]
  | _, _, .str, top, st, r, htop, _ => by
    rcases htop with rfl | rfl <;> simp [grun, gTable, gApply]
  | _, _, .arr k t ht, top, st, r, htop, hk => by
    have hpos : k ≥ 1 := by
      cases ht with
      | close => exact Nat.le_refl _
      | first k' m' _ _ _ _ => omega
    have hb : st.length + 1 < B := by omega
    have := garr0_ok B ht st r (by omega)
    rcases htop with rfl | rfl <;> simpa [grun, gTable, gApply, hb] using this
  | _, _, .obj k t ht, top, st, r, htop, hk => by
    have := gobj0_ok B ht st r hk
    rcases htop with rfl | rfl <;> simpa [grun, gTable, gApply] using this
theorem garr0_ok (B : Nat) : ∀ {k : Nat} {t : List GTok}, TArr0 k t → ∀ (st : List GState) (r : List GTok),
    st.length + 1 + k ≤ B → grun B (.arr0 :: .arr :: st) (t ++ r) = grun B st r
  | _, _, .close, st, r, _ => by simp [grun, gTable, gApply]
  | _, _, .first k m v t hv ht, st, r, hk => by
    have h1 := gval_ok B hv .arr0 (.arr :: st) (t ++ r) (Or.inr rfl) (by simp only [List.length_cons]; omega)
    have h2 := garrT_ok B ht st r (by omega)
    rw [List.append_assoc, h1, h2]
theorem garrT_ok (B : Nat) : ∀ {m : Nat} {t : List GTok}, TArrT m t → ∀ (st : List GState) (r : List GTok),
    (m = 0 ∨ st.length + 1 + m ≤ B) → grun B (.arr :: st) (t ++ r) = grun B st r
  | _, _, .close, st, r, _ => by simp [grun, gTable, gApply]
  | _, _, .more k m v t hv ht, st, r, hm => by
    have hb : st.length + 1 < B := by omega
    have h1 := gval_ok B hv .val (.arr :: st) (t ++ r) (Or.inl rfl) (by simp only [List.length_cons]; omega)
    have h2 := garrT_ok B ht st r (by omega)
    have : grun B (.arr :: st) ((.comma :: (v ++ t)) ++ r) = grun B (.val :: .arr :: st) (v ++ (t ++ r)) := by
      simp [grun, gTable, gApply, hb]
    rw [this, h1, h2]
theorem gobj0_ok (B : Nat) : ∀ {m : Nat} {t : List GTok}, TObj0 m t → ∀ (st : List GState) (r : List GTok),
    (m = 0 ∨ st.length + 1 + m ≤ B) → grun B (.obj0 :: st) (t ++ r) = grun B st r
  | _, _, .close, st, r, _ => by simp [grun, gTable, gApply]
  | _, _, .first k m v t hv ht, st, r, hm => by
    have hb : st.length + 1 < B := by omega
    have h1 := gval_ok B hv .val (.obj :: st) (t ++ r) (Or.inl rfl) (by simp only [List.length_cons]; omega)
    have h2 := gobjT_ok B ht st r (by omega)
    have : grun B (.obj0 :: st) ((.str :: .colon :: (v ++ t)) ++ r) = grun B (.val :: .obj :: st) (v ++ (t ++ r)) := by
      simp [grun, gTable, gApply, hb]
    rw [this, h1, h2]
theorem gobjT_ok (B : Nat) : ∀ {m : Nat} {t : List GTok}, TObjT m t → ∀ (st : List GState) (r : List GTok),
    (m = 0 ∨ st.length + 1 + m ≤ B) → grun B (.obj :: st) (t ++ r) = grun B st r
  | _, _, .close, st, r, _ => by simp [grun, gTable, gApply]
  | _, _, .more k m v t hv ht, st, r, hm => by
    have hb : st.length + 1 < B := by omega
    have h1 := gval_ok B hv .val (.obj :: st) (t ++ r) (Or.inl rfl) (by simp only [List.length_cons]; omega)
    have h2 := gobjT_ok B ht st r (by omega)
    have : grun B (.obj :: st) ((.comma :: .str :: .colon :: (v ++ t)) ++ r) = grun B (.val :: .obj :: st) (v ++ (t ++ r)) := by
      simp [grun, gTable, gApply, hb]
    rw [this, h1, h2]
end

/-! ### beyond the budget: the table machine answers with the depth error -/

mutual
theorem gval_err (B : Nat) : ∀ {k : Nat} {v : List GTok}, TVal k v → ∀ (top : GState) (st : List GState) (r : List GTok),
    (top = .val ∨ top = .arr0) → k ≠ 0 → B < st.length + 1 + k → grun B (top :: st) (v ++ r) = .error .depth
  | _, _, .scalar, _, _, _, _, hk, _ => absurd rfl hk
  | _, _, .str, _, _, _, _, hk, _ => absurd rfl hk
  | _, _, .arr k t ht, top, st, r, htop, _, hB => by
    by_cases hb : st.length + 1 < B
    · have := garr0_err B ht st r (by omega) hB
      rcases htop with rfl | rfl <;> simpa [grun, gTable, gApply, hb] using this
    · rcases htop with rfl | rfl <;> simp [grun, gTable, gApply, hb]
  | _, _, .obj k t ht, top, st, r, htop, hk, hB => by
    have := gobj0_err B ht st r hk hB
    rcases htop with rfl | rfl <;> simpa [grun, gTable, gApply] using this
theorem garr0_err (B : Nat) : ∀ {k : Nat} {t : List GTok}, TArr0 k t → ∀ (st : List GState) (r : List GTok),
    st.length + 2 ≤ B → B < st.length + 1 + k → grun B (.arr0 :: .arr :: st) (t ++ r) = .error .depth
  | _, _, .close, st, r, h1, h2 => by omega
  | _, _, .first k m v t hv ht, st, r, h1, h2 => by
    rw [List.append_assoc]
    by_cases hA : B < st.length + 2 + k
    · exact gval_err B hv .arr0 (.arr :: st) (t ++ r) (Or.inr rfl) (by omega) (by simp only [List.length_cons]; omega)
    · rw [gval_ok B hv .arr0 (.arr :: st) (t ++ r) (Or.inr rfl) (by simp only [List.length_cons]; omega)]
      exact garrT_err B ht st r (by omega) (by omega)
theorem garrT_err (B : Nat) : ∀ {m : Nat} {t : List GTok}, TArrT m t → ∀ (st : List GState) (r : List GTok),
    m ≠ 0 → B < st.length + 1 + m → grun B (.arr :: st) (t ++ r) = .error .depth
  | _, _, .close, _, _, hm, _ => absurd rfl hm
  | _, _, .more k m v t hv ht, st, r, _, h2 => by
    by_cases hb : st.length + 1 < B
    · have e : grun B (.arr :: st) ((.comma :: (v ++ t)) ++ r) = grun B (.val :: .arr :: st) (v ++ (t ++ r)) := by
        simp [grun, gTable, gApply, hb]
      rw [e]
      by_cases hA : B < st.length + 2 + k
      · exact gval_err B hv .val (.arr :: st) (t ++ r) (Or.inl rfl) (by omega) (by simp only [List.length_cons]; omega)
      · rw [gval_ok B hv .val (.arr :: st) (t ++ r) (Or.inl rfl) (by simp only [List.length_cons]; omega)]
        exact garrT_err B ht st r (by omega) (by omega)
    · simp [grun, gTable, gApply, hb]
theorem gobj0_err (B : Nat) : ∀ {m : Nat} {t : List GTok}, TObj0 m t → ∀ (st : List GState) (r : List GTok),
    m ≠ 0 → B < st.length + 1 + m → grun B (.obj0 :: st) (t ++ r) = .error .depth
  | _, _, .close, _, _, hm, _ => absurd rfl hm
  | _, _, .first k m v t hv ht, st, r, _, h2 => by
    by_cases hb : st.length + 1 < B
    · have e : grun B (.obj0 :: st) ((.str :: .colon :: (v ++ t)) ++ r) = grun B (.val :: .obj :: st) (v ++ (t ++ r)) := by
        simp [grun, gTable, gApply, hb]
      rw [e]
      by_cases hA : B < st.length + 2 + k
      · exact gval_err B hv .val (.obj :: st) (t ++ r) (Or.inl rfl) (by omega) (by simp only [List.length_cons]; omega)
      · rw [gval_ok B hv .val (.obj :: st) (t ++ r) (Or.inl rfl) (by simp only [List.length_cons]; omega)]
        exact gobjT_err B ht st r (by omega) (by omega)
    · simp [grun, gTable, gApply, hb]
theorem gobjT_err (B : Nat) : ∀ {m : Nat} {t : List GTok}, TObjT m t → ∀ (st : List GState) (r : List GTok),
    m ≠ 0 → B < st.length + 1 + m → grun B (.obj :: st) (t ++ r) = .error .depth
  | _, _, .close, _, _, hm, _ => absurd rfl hm
  | _, _, .more k m v t hv ht, st, r, _, h2 => by
    by_cases hb : st.length + 1 < B
    · have e : grun B (.obj :: st) ((.comma :: .str :: .colon :: (v ++ t)) ++ r) = grun B (.val :: .obj :: st) (v ++ (t ++ r)) := by
        simp [grun, gTable, gApply, hb]
      rw [e]
      by_cases hA : B < st.length + 2 + k
      · exact gval_err B hv .val (.obj :: st) (t ++ r) (Or.inl rfl) (by omega) (by simp only [List.length_cons]; omega)
      · rw [gval_ok B hv .val (.obj :: st) (t ++ r) (Or.inl rfl) (by simp only [List.length_cons]; omega)]
        exact gobjT_err B ht st r (by omega) (by omega)
    · simp [grun, gTable, gApply, hb]
end

end SonicSpec.Json
