/-
  UTF-8 validation over memory: the scalar validator is `Str.validate` of the content; the vector validator only
  loads inside the input and its verdict is a function of the content; `validate_utf8_fast` = scalar verdict
  whenever the vector verdict "valid" is never wrong (`VecSound`).
-/
import SonicSpec.Proofs.MemStrBase
namespace SonicSpec.Mem
open SonicSpec.Str

theorem utf8Scalar_spec {rd : Rd} {s : Bytes} (h : Holds rd s) : utf8Scalar rd s.length = some (validate s) := by
  have := h.load 0 s.length (Nat.zero_le _) (Nat.le_refl _)
  simp only [Nat.sub_zero] at this
  simp [utf8Scalar, this, slice]

theorem utf8VecRun_congr {rd rd' : Rd} (len : Nat) (h : ∀ i, i < len → rd i = rd' i) :
    ∀ (Ws : List Nat) (st : U8St) (off : Nat), utf8VecRun rd len Ws st off = utf8VecRun rd' len Ws st off := by
  intro Ws st off
  fun_induction utf8VecRun rd len Ws st off with
  | case1 st off hl =>
    conv => rhs; rw [utf8VecRun, ← loadW_congr (len - off) off (fun i h1 h2 => h i (by omega)), hl]
  | case2 st off rest hl =>
    conv => rhs; rw [utf8VecRun, ← loadW_congr (len - off) off (fun i h1 h2 => h i (by omega)), hl]
  | case3 W Ws st off hc hl =>
    conv => rhs; rw [utf8VecRun, dif_pos hc, ← loadW_congr W off (fun i h1 h2 => h i (by omega)), hl]
  | case4 W Ws st off hc bs hl ih =>
    conv => rhs; rw [utf8VecRun, dif_pos hc, ← loadW_congr W off (fun i h1 h2 => h i (by omega)), hl]
    exact ih
  | case5 W Ws st off hc ih =>
    conv => rhs; rw [utf8VecRun, dif_neg hc]
    exact ih

theorem utf8VecRun_ne_none {rd : Rd} (len : Nat) (h : ∀ i, i < len → rd i ≠ none) :
    ∀ (Ws : List Nat) (st : U8St) (off : Nat), utf8VecRun rd len Ws st off ≠ none := by
  intro Ws st off
  fun_induction utf8VecRun rd len Ws st off with
  | case1 st off hl => exact absurd hl (loadW_ne_none (len - off) off (fun i h1 h2 => h i (by omega)))
  | case2 st off rest hl => simp
  | case3 W Ws st off hc hl => exact absurd hl (loadW_ne_none W off (fun i h1 h2 => h i (by omega)))
  | case4 W Ws st off hc bs hl ih => exact ih
  | case5 W Ws st off hc ih => exact ih

theorem utf8Vec_congr {rd rd' : Rd} (len : Nat) (h : ∀ i, i < len → rd i = rd' i) (Ws : List Nat) :
    utf8Vec Ws rd len = utf8Vec Ws rd' len := by
  simp only [utf8Vec]
  split
  · rfl
  · exact utf8VecRun_congr len h Ws _ 0

theorem utf8Vec_ne_none {rd : Rd} (len : Nat) (h : ∀ i, i < len → rd i ≠ none) (Ws : List Nat) :
    utf8Vec Ws rd len ≠ none := by
  simp only [utf8Vec]
  split
  · simp
  · exact utf8VecRun_ne_none len h Ws _ 0

theorem utf8Fast_spec (w : StrWidths) (hs : w.utf8 = [] ∨ VecSound w.utf8) {rd : Rd} {s : Bytes} (h : Holds rd s) :
    utf8Fast w rd s.length = some (validate s) := by
  simp only [utf8Fast]
  by_cases he : w.utf8.isEmpty = true
  · simp only [he, if_true]
    exact utf8Scalar_spec h
  · simp only [he, Bool.false_eq_true, if_false]
    have hsound : VecSound w.utf8 := by
      rcases hs with hs | hs
      · simp [hs] at he
      · exact hs
    rw [utf8Vec_congr s.length h.agree w.utf8]
    cases hv : utf8Vec w.utf8 (ofList s) s.length with
    | none => exact absurd hv (utf8Vec_ne_none s.length (fun i hi => by simp [ofList, hi]) w.utf8)
    | some b =>
      cases b with
      | true => simp only; rw [hsound s hv]
      | false => simp only; exact utf8Scalar_spec h

end SonicSpec.Mem
