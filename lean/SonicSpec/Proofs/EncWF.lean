/-
  Every tree the Marshal specification produces is well-formed (`JWF`): number literals are JSON
  numbers, string bodies and member names are string bodies; hence (Proofs/EncJsonTree) its
  rendering parses back to exactly that tree.
-/
import SonicSpec.Proofs.EncLeaf
import SonicSpec.Proofs.EncNumBridge
namespace SonicSpec.Enc
open SonicSpec SonicSpec.Json SonicSpec.Go

theorem floatLit_cases {o : EncOpts} {f : Option Bytes} {l : Bytes} (hf : ∀ x, f = some x → NumShape x)
    (h : floatLit o f = .ok l) : l = nullLit ∨ NumShape l := by
  unfold floatLit at h
  split at h
  · injection h with h; subst h; exact Or.inr (hf _ rfl)
  · split at h
    · injection h with h; subst h; exact Or.inl rfl
    · cases h

theorem floatVal_wf {o : EncOpts} {f : Option Bytes} {j : JVal} (hf : ∀ x, f = some x → NumShape x)
    (h : ((floatLit o f).map fun l => if l == nullLit then JVal.null else JVal.num l) = .ok j) : JWF j := by
  cases hl : floatLit o f with
  | error e => simp [hl, Except.map] at h
  | ok l =>
    simp only [hl, Except.map] at h
    injection h with h
    subst h
    rcases floatLit_cases hf hl with h1 | h1
    · subst h1; simp [JWF]
    · split
      · simp [JWF]
      · simpa [JWF] using h1

theorem floatStr_wf {o : EncOpts} {f : Option Bytes} {j : JVal} (hf : ∀ x, f = some x → NumShape x)
    (h : ((floatLit o f).map JVal.str) = .ok j) : JWF j := by
  cases hl : floatLit o f with
  | error e => simp [hl, Except.map] at h
  | ok l =>
    simp only [hl, Except.map] at h
    injection h with h
    subst h
    simp only [JWF]
    rcases floatLit_cases hf hl with h1 | h1
    · subst h1; exact plain_ok (by decide)
    · exact numShape_strOK h1

theorem marshalerOut_wf {o : EncOpts} {m : Bytes} {j : JVal} (h : marshalerOut o m = .ok j) : JWF j := by
  unfold marshalerOut at h
  split at h
  · rename_i j' hp; injection h with h; subst h; exact parseDoc_sound hp
  · cases h

theorem strVal_wf (o : EncOpts) (s : Bytes) : JWF (strVal o s) := by
  simp only [strVal, JWF]; exact quoteBody_ok _ _ _

theorem textOut_wf {o : EncOpts} {t : Bytes} {j : JVal} (h : textOut o t = .ok j) : JWF j := by
  unfold textOut at h
  split at h
  · split at h
    · rename_i j' hp; injection h with h; subst h; exact parseDoc_sound hp
    · cases h
  · injection h with h; subst h; exact strVal_wf o t

theorem numberVal_wf {s : Bytes} {j : JVal} (h : (numberLit s).map JVal.num = .ok j) : JWF j := by
  cases hl : numberLit s with
  | error e => simp [hl, Except.map] at h
  | ok l =>
    simp only [hl, Except.map] at h
    injection h with h; subst h
    simpa [JWF] using numberLit_shape hl

theorem numberStr_wf {s : Bytes} {j : JVal} (h : (numberLit s).map JVal.str = .ok j) : JWF j := by
  cases hl : numberLit s with
  | error e => simp [hl, Except.map] at h
  | ok l =>
    simp only [hl, Except.map] at h
    injection h with h; subst h
    simpa [JWF] using numShape_strOK (numberLit_shape hl)

theorem quotedLeaf_wf {o : EncOpts} {t : GoType} {v : GoVal} {j : JVal} (h : quotedLeaf o t v = .ok j) : JWF j := by
  unfold quotedLeaf at h
  split at h
  · injection h with h; subst h
    simp only [JWF]
    split <;> exact plain_ok (by decide)
  · injection h with h; subst h; simpa [JWF] using numShape_strOK (intDec_shape _)
  · injection h with h; subst h; simpa [JWF] using numShape_strOK (natDec_shape _)
  · exact floatStr_wf (fun x hx => numFmtF64_shape hx) h
  · exact floatStr_wf (fun x hx => numFmtF32_shape hx) h
  · exact numberStr_wf h
  · injection h with h; subst h; simpa [JWF] using quoteBody_ok _ _ _
  · cases h

theorem quotedVal_wf {o : EncOpts} {t : GoType} {v : GoVal} {j : JVal} (h : quotedVal o t v = .ok j) : JWF j := by
  unfold quotedVal at h
  split at h
  · injection h with h; subst h; trivial
  · exact quotedLeaf_wf h
  · exact quotedLeaf_wf h

theorem keyBody_ok {o : EncOpts} {k : GoType} {ks b : Bytes} (h : keyBody o k ks = .ok b) : StrOK b := by
  unfold keyBody at h
  split at h
  · split at h
    · rename_i b' hp
      injection h with h; subst h
      have := parseDoc_sound hp
      simpa [JWF] using this
    · cases h
  · injection h with h; subst h; exact quoteBody_ok _ _ _

theorem keyBodies_wf {o : EncOpts} {k : GoType} : ∀ (es : List (Bytes × JVal)) (out : List (Bytes × JVal)),
    keyBodies o k es = .ok out → (∀ e ∈ es, JWF e.2) → JWFM out := by
  intro es
  induction es with
  | nil => intro out h _; simp [keyBodies] at h; cases h; trivial
  | cons e r ih =>
    intro out h hv
    obtain ⟨ks, j⟩ := e
    simp only [keyBodies] at h
    cases hb : keyBody o k ks with
    | error e => simp [hb, bind, Except.bind] at h
    | ok b =>
      cases hr : keyBodies o k r with
      | error e => simp [hb, hr, bind, Except.bind] at h
      | ok rs =>
        simp [hb, hr, bind, Except.bind, pure, Except.pure] at h
        subst h
        exact ⟨keyBody_ok hb, hv (ks, j) (by simp), ih rs hr (fun e he => hv e (by simp [he]))⟩

theorem mem_insertKV {e x : Bytes × JVal} : ∀ {l : List (Bytes × JVal)}, x ∈ insertKV e l → x = e ∨ x ∈ l := by
  intro l
  induction l with
  | nil => intro h; simp [insertKV] at h; exact Or.inl h
  | cons f r ih =>
    intro h
    simp only [insertKV] at h
    split at h
    · simp at h; rcases h with h | h | h
      · exact Or.inl h
      · exact Or.inr (by simp [h])
      · exact Or.inr (by simp [h])
    · simp at h; rcases h with h | h
      · exact Or.inr (by simp [h])
      · rcases ih h with h | h
        · exact Or.inl h
        · exact Or.inr (by simp [h])

theorem mem_sortKV {x : Bytes × JVal} : ∀ {l : List (Bytes × JVal)}, x ∈ sortKV l → x ∈ l := by
  intro l
  induction l with
  | nil => intro h; simpa [sortKV] using h
  | cons e r ih =>
    intro h
    simp only [sortKV] at h
    rcases mem_insertKV h with h | h
    · simp [h]
    · simp [ih h]


theorem except_map_ok {ε α β : Type} {x : Except ε α} {f : α → β} {b : β} (h : x.map f = .ok b) :
    ∃ a, x = .ok a ∧ f a = b := by
  cases x with
  | error e => simp [Except.map] at h
  | ok a => simp [Except.map] at h; exact ⟨a, rfl, h⟩

theorem except_bind_ok {ε α β : Type} {x : Except ε α} {f : α → Except ε β} {b : β} (h : x.bind f = .ok b) :
    ∃ a, x = .ok a ∧ f a = .ok b := by
  cases x with
  | error e => simp [Except.bind] at h
  | ok a => exact ⟨a, rfl, h⟩

theorem nameKey_ok (o : EncOpts) (n : Bytes) : StrOK (nameKey o n) := quoteBody_ok _ _ _

theorem nilSlice_wf (o : EncOpts) : JWF (nilSlice o) := by
  unfold nilSlice; split <;> simp [JWF, JWFL]

theorem nilMap_wf (o : EncOpts) : JWF (nilMap o) := by
  unfold nilMap; split <;> simp [JWF, JWFM]

theorem mapArr_wf {x : Except EErr (List JVal)} {j : JVal} (h : x.map JVal.arr = .ok j)
    (ih : ∀ js, x = .ok js → JWFL js) : JWF j := by
  obtain ⟨js, h1, h2⟩ := except_map_ok h
  subst h2
  simpa [JWF] using ih js h1

theorem mapObj_wf {x : Except EErr (List (Bytes × JVal))} {j : JVal} (h : x.map JVal.obj = .ok j)
    (ih : ∀ js, x = .ok js → JWFM js) : JWF j := by
  obtain ⟨js, h1, h2⟩ := except_map_ok h
  subst h2
  simpa [JWF] using ih js h1

set_option hygiene false in
local macro "enc_simp" : tactic =>
  `(tactic| (intros; rename_i h; simp only [encV, encF, encM, encL, *] at h))

set_option hygiene false in
local macro "enc_ok" : tactic =>
  `(tactic| (enc_simp; injection h with h; subst h))

theorem enc_wf (o : EncOpts) :
    (∀ (addr : Bool) (T : GoType) (v : GoVal), ∀ j, encV o addr T v = .ok j → JWF j) ∧
    (∀ (addr : Bool) (ks : List (Option Field)) (vs : List GoVal), ∀ js, encF o addr ks vs = .ok js → JWFM js) ∧
    (∀ (k t : GoType) (kvs : List (GoVal × GoVal)), ∀ es, encM o k t kvs = .ok es → ∀ e ∈ es, JWF e.2) ∧
    (∀ (addr : Bool) (t : GoType) (xs : List GoVal), ∀ js, encL o addr t xs = .ok js → JWFL js) := by
  apply encV.mutual_induct o
    (motive_1 := fun addr T v => ∀ j, encV o addr T v = .ok j → JWF j)
    (motive_2 := fun addr ks vs => ∀ js, encF o addr ks vs = .ok js → JWFM js)
    (motive_3 := fun k t kvs => ∀ es, encM o k t kvs = .ok es → ∀ e ∈ es, JWF e.2)
    (motive_4 := fun addr t xs => ∀ js, encL o addr t xs = .ok js → JWFL js)
  case case1 => enc_ok; trivial
  case case2 => enc_ok; simpa [JWF] using intDec_shape _
  case case3 => enc_ok; simpa [JWF] using natDec_shape _
  case case4 => enc_simp; exact floatVal_wf (fun x hx => numFmtF64_shape hx) h
  case case5 => enc_simp; exact floatVal_wf (fun x hx => numFmtF32_shape hx) h
  case case6 => enc_ok; exact strVal_wf _ _
  case case7 => enc_simp; exact numberVal_wf h
  case case8 => enc_ok; exact nilSlice_wf _
  case case9 => enc_ok; simpa [JWF] using b64_ok _
  case case10 => enc_simp; exact marshalerOut_wf h
  case case11 => enc_simp; exact marshalerOut_wf h
  case case12 => enc_ok; trivial
  case case13 => intros; rename_i ih j h; simp only [encV] at h; exact ih j h
  case case14 => enc_ok; trivial
  case case15 => intros; rename_i ih j h; simp only [encV] at h; exact ih j h
  case case16 => enc_ok; exact nilSlice_wf _
  case case17 => enc_ok; simpa [JWF] using b64_ok _
  case case18 => enc_simp; cases h
  case case19 =>
    intros; rename_i hu ih j h
    simp only [encV, hu] at h
    exact mapArr_wf h ih
  case case20 =>
    intros; rename_i hl ih j h
    simp only [encV, hl, if_true] at h
    exact mapArr_wf h ih
  case case21 => enc_simp; cases h
  case case22 => enc_ok; exact nilMap_wf _
  case case23 => enc_simp; cases h
  case case24 =>
    intros; rename_i hk ih j h
    simp only [encV, hk, if_true] at h
    obtain ⟨es, h1, h2⟩ := except_bind_ok h
    obtain ⟨out, h3, h4⟩ := except_map_ok h2
    subst h4
    simp only [JWF]
    refine keyBodies_wf _ _ h3 ?_
    intro e he
    split at he
    · exact ih es h1 e (mem_sortKV he)
    · exact ih es h1 e he
  case case25 => enc_simp; cases h
  case case26 =>
    intros; rename_i hk hl ih j h
    simp only [encV, hk, hl, if_true] at h
    exact mapObj_wf h ih
  case case27 => enc_simp; cases h
  case case28 => enc_simp; cases h
  case case29 => enc_simp; exact marshalerOut_wf h
  case case30 => enc_simp; exact marshalerOut_wf (by simpa using h)
  case case31 =>
    enc_simp
    injection h with h; subst h
    simp only [JWF, JWFM]
    exact ⟨nameKey_ok _ _, intDec_shape _, trivial⟩
  case case32 => enc_simp; exact textOut_wf h
  case case33 => enc_simp; exact textOut_wf (by simpa using h)
  case case34 =>
    enc_simp
    injection h with h; subst h
    simp only [JWF, JWFM]
    exact ⟨nameKey_ok _ _, intDec_shape _, trivial⟩
  case case35 => enc_simp; exact marshalerOut_wf h
  case case36 => enc_simp; exact marshalerOut_wf (by simpa using h)
  case case37 =>
    enc_simp
    injection h with h; subst h
    simp only [JWF, JWFM]
    exact ⟨nameKey_ok _ _, b64_ok _, trivial⟩
  case case38 => enc_simp; exact textOut_wf h
  case case39 =>
    enc_simp
    obtain ⟨cs, h1, h2⟩ := except_map_ok h
    subst h2
    have hcs : JWFM cs := by
      unfold embOuterC at h1
      split at h1
      · injection h1 with h1; subst h1; trivial
      · injection h1 with h1; subst h1
        exact ⟨nameKey_ok _ _, intDec_shape _, trivial⟩
      · cases h1
    have happ : ∀ (a b : List (Bytes × JVal)), JWFM a → JWFM b → JWFM (a ++ b) := by
      intro a
      induction a with
      | nil => intro b _ hb; simpa using hb
      | cons x r ih =>
        intro b ha hb
        obtain ⟨k, v⟩ := x
        exact ⟨ha.1, ha.2.1, ih b ha.2.2 hb⟩
    simp only [JWF]
    refine happ _ _ (happ _ _ ?_ hcs) ?_
    · exact ⟨nameKey_ok _ _, strVal_wf _ _, trivial⟩
    · exact ⟨nameKey_ok _ _, intDec_shape _, nameKey_ok _ _, intDec_shape _, trivial⟩
  case case40 =>
    intros; rename_i ih j h
    simp only [encV, *] at h
    exact mapObj_wf (by simpa using h) ih
  case case41 => enc_simp; simp at h
  case case42 => enc_simp; cases h
  case case43 => enc_simp; cases h
  case case44 => enc_simp; cases h
  case case45 => intros; rename_i ih js h; simp only [encF] at h; exact ih js h
  case case46 => intros; rename_i hc ih js h; simp only [encF, hc, if_true] at h; exact ih js h
  case case47 =>
    intros; rename_i hc hq ih js h
    simp only [encF, hc, hq, if_true, if_false] at h
    obtain ⟨j, h1, h2⟩ := except_bind_ok h
    obtain ⟨rs, h3, h4⟩ := except_bind_ok h2
    injection h4 with h4; subst h4
    exact ⟨nameKey_ok _ _, quotedVal_wf h1, ih rs h3⟩
  case case48 =>
    intros; rename_i hc hq ih2 ih1 js h
    simp only [encF, hc, hq, if_false] at h
    obtain ⟨j, h1, h2⟩ := except_bind_ok h
    obtain ⟨rs, h3, h4⟩ := except_bind_ok h2
    injection h4 with h4; subst h4
    exact ⟨nameKey_ok _ _, ih1 j h1, ih2 rs h3⟩
  case case49 => enc_ok; trivial
  case case50 => enc_ok; trivial
  case case51 =>
    intros; rename_i ih2 ih1 js h
    simp only [encL] at h
    obtain ⟨j, h1, h2⟩ := except_bind_ok h
    obtain ⟨rs, h3, h4⟩ := except_bind_ok h2
    injection h4 with h4; subst h4
    exact ⟨ih2 j h1, ih1 rs h3⟩
  case case52 =>
    intros; rename_i h e he
    simp only [encM] at h
    injection h with h; subst h
    cases he
  case case53 =>
    intros; rename_i hk es h e he
    simp only [encM, hk] at h
    cases h
  case case54 =>
    intros; rename_i hk ih2 ih1 es h e he
    simp only [encM, hk] at h
    obtain ⟨j, h1, h2⟩ := except_bind_ok h
    obtain ⟨rs, h3, h4⟩ := except_bind_ok h2
    injection h4 with h4; subst h4
    rcases List.mem_cons.mp he with he | he
    · subst he; exact ih2 j h1
    · exact ih1 rs h3 e he

theorem encV_wf {o : EncOpts} {addr : Bool} {T : GoType} {v : GoVal} {j : JVal} (h : encV o addr T v = .ok j) : JWF j :=
  (enc_wf o).1 addr T v j h

end SonicSpec.Enc
