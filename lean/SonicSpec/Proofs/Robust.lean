/-
  C07 - helper lemmas for Props/C07.lean (core Lean only).
-/
import SonicSpec.Model.Robust
set_option linter.unusedSimpArgs false
namespace SonicSpec.Proofs.Robust
open SonicSpec.Gen SonicSpec.Robust

/-- the regenerated ast excerpt arithmetic yields a legal slice and legal Repeat counts exactly
    outside the region "source ≤ 32 bytes and position more than 16 past its end" -/
theorem astBounds_char (size pos : Int) (hs : 0 < size) :
    let r := astDescriptionBounds size pos
    (0 ≤ r.1 ∧ r.1 ≤ r.2.2.1 ∧ r.2.2.1 ≤ size ∧ 0 ≤ r.2.1 ∧ 0 ≤ r.2.2.2) ↔ ¬ (size ≤ 32 ∧ size + 16 < pos) := by
  simp only [astDescriptionBounds, clamp_zero, Id.run, pure, bind, Bool.or_eq_true, decide_eq_true_eq, ge_iff_le,
    beq_iff_eq]
  repeat' split
  all_goals (simp only []; omega)

theorem compose_panic_iff (size : Int) (r : Int × Int × Int × Int) :
    compose size r = Fmt.panic ↔ ¬ (0 ≤ r.1 ∧ r.1 ≤ r.2.2.1 ∧ r.2.2.1 ≤ size ∧ 0 ≤ r.2.1 ∧ 0 ≤ r.2.2.2) := by
  unfold compose sliceOk repeatOk
  simp only [Bool.and_eq_true, decide_eq_true_eq]
  split
  · rename_i h; simp only [reduceCtorEq, false_iff, Classical.not_not]; omega
  · rename_i h; simp only [true_iff]; omega

/-- invariant step: `sp = d*S`, `d ≤ M` is preserved; a save at `d = M` is the error, never an access -/
theorem run_bracketed (M S : Nat) (hS : 0 < S) (ops : List SOp) :
    ∀ d, d ≤ M → bracketed d ops = true →
      run M S (d * S) ops = SRes.tooDeep ∨ ∃ d', d' ≤ M ∧ run M S (d * S) ops = SRes.ok (d' * S) := by
  induction ops with
  | nil => intro d hd _; exact Or.inr ⟨d, hd, rfl⟩
  | cons op rest ih =>
    intro d hd hb
    cases op with
    | save =>
      simp only [bracketed] at hb
      by_cases hlt : d < M
      · have h1 : ¬ (d * S ≥ M * S) := by
          have := Nat.mul_lt_mul_of_lt_of_le hlt (Nat.le_refl S) hS
          omega
        have h2 : d * S + S ≤ M * S := by
          have := Nat.mul_le_mul_right S (Nat.succ_le_of_lt hlt)
          rw [Nat.succ_mul] at this; exact this
        have hs : step M S (d * S) SOp.save = SRes.ok ((d + 1) * S) := by
          simp only [step, push, if_neg h1, if_pos h2, Nat.succ_mul]
        simp only [run, hs]
        exact ih (d + 1) hlt hb
      · have hd' : d = M := by omega
        left
        simp only [run, step, push, hd', ge_iff_le, Nat.le_refl, if_true]
    | load =>
      simp only [bracketed, Bool.and_eq_true, decide_eq_true_eq] at hb
      have h1 : ¬ (d * S < S) := by
        have := Nat.mul_le_mul_right S hb.1; omega
      have h2 : d * S ≤ M * S := Nat.mul_le_mul_right S hd
      simp only [run, step, cur, if_neg h1, if_pos h2]
      exact ih d hd hb.2
    | drop =>
      simp only [bracketed, Bool.and_eq_true, decide_eq_true_eq] at hb
      have h1 : ¬ (d * S < S) := by
        have := Nat.mul_le_mul_right S hb.1; omega
      have e : d * S - S = (d - 1) * S := by rw [Nat.sub_mul, Nat.one_mul]
      have h2 : d * S - S + S ≤ M * S := by
        have := Nat.mul_le_mul_right S hd; omega
      have hp : pop M S (d * S) = SRes.ok ((d - 1) * S) := by
        simp only [pop, if_neg h1, if_pos h2]; rw [e]
      simp only [run, step, hp]
      exact ih (d - 1) (by omega) hb.2
    | drop2 =>
      simp only [bracketed, Bool.and_eq_true, decide_eq_true_eq] at hb
      have hge : 2 * S ≤ d * S := Nat.mul_le_mul_right S hb.1
      have h1 : ¬ (d * S < S) := by omega
      have e1 : d * S - S = (d - 1) * S := by rw [Nat.sub_mul, Nat.one_mul]
      have e2 : (d - 1) * S - S = (d - 2) * S := by
        rw [← e1, Nat.sub_sub, ← Nat.two_mul, Nat.sub_mul]
      have hM : d * S ≤ M * S := Nat.mul_le_mul_right S hd
      have h2 : d * S - S + S ≤ M * S := by omega
      have h3 : ¬ ((d - 1) * S < S) := by rw [← e1]; omega
      have h4 : (d - 1) * S - S + S ≤ M * S := by rw [← e1]; omega
      have hp1 : pop M S (d * S) = SRes.ok ((d - 1) * S) := by
        simp only [pop, if_neg h1, if_pos h2]; rw [e1]
      have hp2 : pop M S ((d - 1) * S) = SRes.ok ((d - 2) * S) := by
        simp only [pop, if_neg h3, if_pos h4]; rw [e2]
      simp only [run, step, hp1, hp2]
      exact ih (d - 2) (by omega) hb.2


theorem dropSpace_length (l : List UInt8) : (dropSpace l).length ≤ l.length := by
  induction l with
  | nil => simp [dropSpace]
  | cons c r ih => unfold dropSpace; split <;> simp <;> omega

end SonicSpec.Proofs.Robust
