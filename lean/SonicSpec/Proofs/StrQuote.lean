/-
  Helper lemmas for C20: unfolding of `unquote`, images of single bytes under quote / unquote.
-/
import SonicSpec.Model.Str
import SonicSpec.Proofs.U8
namespace SonicSpec.Str

theorem unquote_nil (u d : Bool) : unquote u d [] = .ok [] := by
  rw [unquote]

theorem unquote_plain (u d : Bool) (c : UInt8) (t : Bytes) (h : c ≠ 92) :
    unquote u d (c :: t) = consOk [c] (unquote u d t) := by
  rw [unquote]
  simp [h]

theorem unquote_esc_ok (u d : Bool) (t o r : Bytes) (h : escStep u d t = .ok (o, r)) :
    unquote u d (92 :: t) = consOk o (unquote u d r) := by
  rw [unquote]
  simp only [beq_self_eq_true, ↓reduceIte]
  split
  · rename_i e he; rw [h] at he; cases he
  · rename_i o2 r2 he; rw [h] at he; cases he; rfl

theorem unquote_esc_err (u d : Bool) (t : Bytes) (e : UErr) (h : escStep u d t = .error e) :
    unquote u d (92 :: t) = .error e := by
  rw [unquote]
  simp only [beq_self_eq_true, ↓reduceIte]
  split
  · rename_i e' he; rw [h] at he; cases he; rfl
  · rename_i o2 r2 he; rw [h] at he; cases he

theorem escStep_single (u : Bool) (c : UInt8) (sp : Bytes) :
    escStep u false (c :: sp) = escBody u false c sp := by
  simp [escStep]

/-- the two hex digits `quoteByte` writes for a control character read back as that character -/
theorem hex4_ctl : ∀ c : UInt8, c < 32 → hex4 48 48 (hexLow (c / 16)) (hexLow (c % 16)) = some c.toNat := by
  apply forall_uint8
  decide +kernel

theorem encodeScalar_ascii : ∀ c : UInt8, c < 128 → encodeScalar c.toNat = [c] := by
  apply forall_uint8
  decide +kernel

theorem decodeRune_small (u d : Bool) (r : Nat) (sp : Bytes) (h : r < 55296) :
    decodeRune u d r sp = .ok (encodeScalar r, sp) := by
  simp [decodeRune, h]

theorem lt32_lt128 : ∀ c : UInt8, c < 32 → c < 128 := by
  apply forall_uint8
  decide +kernel

/-- reading back the image of one byte (single quoting) -/
theorem unquote_quoteByte (u : Bool) (c : UInt8) (rest : Bytes) :
    unquote u false (quoteByte c ++ rest) = consOk [c] (unquote u false rest) := by
  unfold quoteByte
  split
  · rename_i h; have : c = 34 := by simpa using h
    subst this
    exact unquote_esc_ok u false _ [34] rest (by simp [escStep, escBody, simpleEsc])
  split
  · rename_i h; have : c = 92 := by simpa using h
    subst this
    exact unquote_esc_ok u false _ [92] rest (by simp [escStep, escBody, simpleEsc])
  split
  · rename_i h; have : c = 9 := by simpa using h
    subst this
    exact unquote_esc_ok u false _ [9] rest (by simp [escStep, escBody, simpleEsc])
  split
  · rename_i h; have : c = 10 := by simpa using h
    subst this
    exact unquote_esc_ok u false _ [10] rest (by simp [escStep, escBody, simpleEsc])
  split
  · rename_i h; have : c = 13 := by simpa using h
    subst this
    exact unquote_esc_ok u false _ [13] rest (by simp [escStep, escBody, simpleEsc])
  split
  · rename_i h
    have hc : c.toNat < 55296 := by have := c.toNat_lt; omega
    refine unquote_esc_ok u false _ [c] rest ?_
    show escStep u false (117 :: 48 :: 48 :: hexLow (c / 16) :: hexLow (c % 16) :: rest) = _
    rw [escStep_single]
    simp only [escBody, beq_self_eq_true, ↓reduceIte, hex4_ctl c h, decodeRune_small u false _ rest hc,
      encodeScalar_ascii c (lt32_lt128 c h)]
  · rename_i h92 _ _ _ _
    have : c ≠ 92 := by simpa using h92
    exact unquote_plain u false c rest this

theorem quoteBody_cons (c : UInt8) (s : Bytes) : quoteBody (c :: s) = quoteByte c ++ quoteBody s := by
  simp [quoteBody]

theorem unquote_quoteBody (u : Bool) (s : Bytes) : unquote u false (quoteBody s) = .ok s := by
  induction s with
  | nil => simp [quoteBody, unquote_nil]
  | cons c s ih => rw [quoteBody_cons, unquote_quoteByte, ih]; rfl

end SonicSpec.Str
