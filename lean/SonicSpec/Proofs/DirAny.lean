/-
  Decoder IR: the generic decoder behind `_OP_any` is specified as parse-then-`toAny` (`Stream.decodeAny`); the parser
  does not depend on its fuel once the fuel covers the input.
-/
import SonicSpec.Proofs.DirSkip
namespace SonicSpec.Dir
open SonicSpec SonicSpec.Go SonicSpec.Json SonicSpec.Bind SonicSpec.Stream

theorem parse_fuel : ∀ n : Nat,
    (∀ s v r m, parseR n s = some (v, r) → skipFuelV s ≤ m → parseR m s = some (v, r) ∧ r.length ≤ s.length) ∧
    (∀ s xs r m, parseRElems n s = some (xs, r) → skipFuelE s ≤ m → parseRElems m s = some (xs, r) ∧ r.length ≤ s.length) ∧
    (∀ s kvs r m, parseRMembers n s = some (kvs, r) → skipFuelE s ≤ m → parseRMembers m s = some (kvs, r) ∧ r.length ≤ s.length) := by
  intro n
  induction n with
  | zero =>
    refine ⟨?_, ?_, ?_⟩ <;> intro s v r m h <;> simp [parseR, parseRElems, parseRMembers] at h
  | succ n ih =>
    obtain ⟨ihV, ihE, ihM⟩ := ih
    refine ⟨?_, ?_, ?_⟩
    · intro s v r m h hm
      unfold skipFuelV at hm
      obtain ⟨m, rfl⟩ : ∃ k, m = k + 1 := ⟨m - 1, by omega⟩
      unfold parseR at h
      split at h
      · cases h; rw [parseR]; exact ⟨rfl, by simp only [List.length_cons]; omega⟩
      · cases h; rw [parseR]; exact ⟨rfl, by simp only [List.length_cons]; omega⟩
      · cases h; rw [parseR]; exact ⟨rfl, by simp only [List.length_cons]; omega⟩
      · rename_i r0
        cases hs : scanString r0 with
        | none => simp [hs] at h
        | some p =>
          obtain ⟨b, t⟩ := p
          simp only [hs] at h
          cases hu : unquote b with
          | none => simp [hu] at h
          | some u =>
            simp only [hu] at h
            cases h
            have := scanString_len hs
            rw [parseR]; simp only [hs, hu]; exact ⟨trivial, by simp only [List.length_cons]; omega⟩
      · rename_i r0
        have hw := skipWs_length_le r0
        split at h
        · rename_i t ht
          cases h
          rw [parseR]; simp only [ht]
          refine ⟨trivial, ?_⟩
          have : r.length < (skipWs r0).length := by rw [ht]; simp
          simp only [List.length_cons]; omega
        · rename_i r' hr'
          rw [parseR]
          cases he : parseRElems n (skipWs r0) with
          | none => simp [he] at h
          | some q =>
            obtain ⟨xs, t⟩ := q
            simp only [he, Option.map_some] at h
            cases h
            have := ihE _ _ _ m he (by unfold skipFuelE; simp only [List.length_cons] at hm; omega)
            split
            · rename_i t' ht'; exact absurd ht' (hr' t')
            · simp only [this.1, Option.map_some]; exact ⟨trivial, by simp only [List.length_cons]; omega⟩
      · rename_i r0
        have hw := skipWs_length_le r0
        split at h
        · rename_i t ht
          cases h
          rw [parseR]; simp only [ht]
          refine ⟨trivial, ?_⟩
          have : r.length < (skipWs r0).length := by rw [ht]; simp
          simp only [List.length_cons]; omega
        · rename_i r' hr'
          rw [parseR]
          cases he : parseRMembers n (skipWs r0) with
          | none => simp [he] at h
          | some q =>
            obtain ⟨xs, t⟩ := q
            simp only [he, Option.map_some] at h
            cases h
            have := ihM _ _ _ m he (by unfold skipFuelE; simp only [List.length_cons] at hm; omega)
            split
            · rename_i t' ht'; exact absurd ht' (hr' t')
            · simp only [this.1, Option.map_some]; exact ⟨trivial, by simp only [List.length_cons]; omega⟩
      · cases hn : scanNumber s with
        | none => simp [hn] at h
        | some p =>
          obtain ⟨l, t⟩ := p
          simp only [hn, Option.map_some] at h
          cases h
          have hl := scanNumber_len hn
          rw [parseR]
          · simp only [hn, Option.map_some]; exact ⟨trivial, hl⟩
          all_goals (intro r' hc; subst hc; simp_all)
    · intro s xs r m h hm
      unfold skipFuelE at hm
      obtain ⟨m, rfl⟩ : ∃ k, m = k + 1 := ⟨m - 1, by omega⟩
      unfold parseRElems at h
      rw [parseRElems]
      cases hv : parseR n s with
      | none => simp [hv] at h
      | some q =>
        obtain ⟨v, r1⟩ := q
        simp only [hv] at h
        have h1 := ihV _ _ _ m hv (by unfold skipFuelV; omega)
        simp only [h1.1]
        have hw := skipWs_length_le r1
        split at h
        · rename_i t ht
          have hw2 := skipWs_length_le t
          have : t.length < (skipWs r1).length := by rw [ht]; simp
          cases he : parseRElems n (skipWs t) with
          | none => simp [he] at h
          | some q2 =>
            obtain ⟨ys, t'⟩ := q2
            simp only [he, Option.map_some] at h
            cases h
            have h2 := ihE _ _ _ m he (by unfold skipFuelE; omega)
            simp only [ht, h2.1, Option.map_some]
            exact ⟨trivial, by omega⟩
        · rename_i t ht
          cases h
          have : r.length < (skipWs r1).length := by rw [ht]; simp
          simp only [ht]
          exact ⟨trivial, by omega⟩
        · cases h
    · intro s kvs r m h hm
      unfold skipFuelE at hm
      obtain ⟨m, rfl⟩ : ∃ k, m = k + 1 := ⟨m - 1, by omega⟩
      unfold parseRMembers at h
      split at h
      · rename_i r0
        cases hs : scanString r0 with
        | none => simp [hs] at h
        | some p =>
          obtain ⟨k, r1⟩ := p
          simp only [hs] at h
          have hl1 := scanString_len hs
          have hw1 := skipWs_length_le r1
          split at h
          · rename_i r2 hr2
            have hl2 : r2.length < (skipWs r1).length := by rw [hr2]; simp
            have hw2 := skipWs_length_le r2
            cases hu : unquote k with
            | none => simp [hu] at h
            | some key =>
              simp only [hu] at h
              cases hv : parseR n (skipWs r2) with
              | none => simp [hv] at h
              | some q =>
                obtain ⟨v, r3⟩ := q
                simp only [hv] at h
                have h1 := ihV _ _ _ m hv (by unfold skipFuelV; simp only [List.length_cons] at hm; omega)
                have hw3 := skipWs_length_le r3
                rw [parseRMembers]
                simp only [hs, hr2, hu, h1.1]
                split at h
                · rename_i t ht
                  have hw4 := skipWs_length_le t
                  have : t.length < (skipWs r3).length := by rw [ht]; simp
                  cases he : parseRMembers n (skipWs t) with
                  | none => simp [he] at h
                  | some q2 =>
                    obtain ⟨ys, t'⟩ := q2
                    simp only [he, Option.map_some] at h
                    cases h
                    have h2 := ihM _ _ _ m he (by unfold skipFuelE; simp only [List.length_cons] at hm; omega)
                    simp only [ht, h2.1, Option.map_some]
                    exact ⟨trivial, by simp only [List.length_cons]; omega⟩
                · rename_i t ht
                  cases h
                  have : r.length < (skipWs r3).length := by rw [ht]; simp
                  simp only [ht]
                  exact ⟨trivial, by simp only [List.length_cons]; omega⟩
                · cases h
          · cases h
      · cases h

/-- whatever the parser accepts with some fuel it accepts with the machine's fuel -/
theorem parseR_exec {n : Nat} {s r : Bytes} {v : RVal} (h : parseR n s = some (v, r)) :
    parseR (skipFuel s) s = some (v, r) :=
  ((parse_fuel n).1 s v r _ h (by unfold skipFuelV skipFuel; omega)).1

end SonicSpec.Dir
