/-
  Decoder IR: compileStruct / compileStructBody around the member loop - the field blocks found through the switch
  table, the struct without JSON-visible fields, and `_OP_recurse` for a struct compiled out of line.
-/
import SonicSpec.Proofs.DirStruct
namespace SonicSpec.Dir
open SonicSpec SonicSpec.Go SonicSpec.Json SonicSpec.Bind SonicSpec.Stream

variable {o : DecOpts} {co : COpts}

theorem offsets_length : ∀ (fs : List (String × Option Bytes × GoType)) (off : Nat), (offsets fs off).length = fs.length
  | [], _ => rfl
  | (_, _, t) :: fs, off => by simp [offsets, offsets_length fs]

/-- the field blocks laid out by the loop of compileStructBody: the block of every JSON-visible declared index is found
    in the table of block positions -/
theorem fieldBlocks_at (lib : LibCode) (tab : Tab) (P : Program) (y0 sp : Nat) (rs : List Field) (hq : ∀ f ∈ rs, f.quoted = false) :
    ∀ (fs : List (String × Option Bytes × GoType)) (i pc : Nat) (offs : List Nat),
      SubF fs = true → (∀ nm tg t, (nm, tg, t) ∈ fs → Above tab t) → offs.length = fs.length →
      At P pc (fieldBlocks co lib tab pc y0 sp rs i fs offs).2.1 →
      ∀ idx f nm tg t, i ≤ idx → fs[idx - i]? = some (nm, tg, t) → rs.find? (fun g => g.idx == idx) = some f →
        ∃ bpc off, (fieldBlocks co lib tab pc y0 sp rs i fs offs).1.find? (fun p => p.1 == idx) = some (idx, bpc) ∧
          At P bpc ([.index [idx] off] ++ (one co lib tab (bpc + 1) (sp + 1) t).1 ++ [.load, .goto y0])
  | [], i, pc, offs, _, _, _, _, idx, f, nm, tg, t, _, hfs, _ => by simp at hfs
  | (n0, tg0, t0) :: fs, i, pc, offs, hsf, hab, hlen, hat, idx, f, nm, tg, t, hle, hfs, hfind => by
    simp only [SubF, Bool.and_eq_true] at hsf
    cases offs with
    | nil => simp at hlen
    | cons off offs =>
      simp only [List.length_cons, Nat.add_right_cancel_iff] at hlen
      have hab' : ∀ nm tg t, (nm, tg, t) ∈ fs → Above tab t := fun nm tg t hm => hab nm tg t (List.mem_cons_of_mem _ hm)
      simp only [fieldBlocks, fieldWhole_sub hsf.1] at hat ⊢
      cases hf0 : List.find? (fun g => g.idx == i) rs with
      | none =>
        simp only [hf0] at hat ⊢
        have hne : idx ≠ i := by
          intro h; subst h; rw [hf0] at hfind; cases hfind
        have hfs' : fs[idx - (i + 1)]? = some (nm, tg, t) := by
          have : idx - i = (idx - (i + 1)) + 1 := by omega
          rw [this] at hfs; simpa using hfs
        exact fieldBlocks_at lib tab P y0 sp rs hq fs (i + 1) pc offs hsf.2 hab' hlen hat idx f nm tg t (by omega) hfs' hfind
      | some f0 =>
        have hqf : f0.quoted = false := hq f0 (List.mem_of_find?_eq_some hf0)
        have hlib : libStr t0 = false := libStr_sub hsf.1
        have ha0 : Above tab t0 := hab n0 tg0 t0 List.mem_cons_self
        simp only [hf0, isQuoted, hqf, hlib, Bool.false_and, Bool.or_false, Bool.false_eq_true, if_false] at hat ⊢
        have hE : (wrapOne tab (pc + 1) t0 fun tb' p' => ops co lib false tb' p' (sp + 1) t0) = one co lib tab (pc + 1) (sp + 1) t0 := rfl
        rw [hE] at hat ⊢
        rw [one_tab hsf.1 lib ha0] at hat ⊢
        by_cases hi : idx = i
        · subst hi
          simp only [Nat.sub_self, List.getElem?_cons_zero] at hfs
          injection hfs with hfs; injection hfs with _ h2; injection h2 with _ h3
          subst h3
          refine ⟨pc, off, by simp, ?_⟩
          have := hat.left
          simpa [fieldBlock] using this
        · have hfs' : fs[idx - (i + 1)]? = some (nm, tg, t) := by
            have : idx - i = (idx - (i + 1)) + 1 := by omega
            rw [this] at hfs; simpa using hfs
          have hat' := hat.right
          obtain ⟨bpc, off', h1, h2⟩ := fieldBlocks_at lib tab P y0 sp rs hq fs (i + 1) _ offs hsf.2 hab' hlen hat' idx f nm tg t (by omega) hfs' hfind
          refine ⟨bpc, off', ?_, h2⟩
          simp only [List.find?_cons]
          have : (i == idx) = false := by simpa using (fun h => hi h.symm)
          rw [this]
          exact h1

theorem blocksOK_of (lib : LibCode) (tab : Tab) (P : Program) (pc sp : Nat) (fs : List (String × Option Bytes × GoType))
    (hsf : SubF fs = true) (hq : ∀ f ∈ resolveFields fs, f.quoted = false) (hab : ∀ nm tg t, (nm, tg, t) ∈ fs → Above tab t)
    (hat : At P (pc + 25) (fieldBlocks co lib tab (pc + 25) (pc + 14) sp (resolveFields fs) 0 fs (offsets fs 0)).2.1) :
    BlocksOK co P (resolveFields fs) (swOf (resolveFields fs) (fieldBlocks co lib tab (pc + 25) (pc + 14) sp (resolveFields fs) 0 fs (offsets fs 0)).1)
      lib tab sp (pc + 14) := by
  intro f hf
  obtain ⟨j, f', hpos, hj, hidx⟩ := fieldPos_mem hf
  obtain ⟨nm, tg, hfs⟩ := resolve_mem hf
  cases hfind : List.find? (fun g => g.idx == f.idx) (resolveFields fs) with
  | none =>
    have := List.find?_eq_none.mp hfind f hf
    simp at this
  | some f'' =>
    obtain ⟨bpc, off, h1, h2⟩ := fieldBlocks_at (co := co) lib tab P (pc + 14) sp (resolveFields fs) hq fs 0 (pc + 25) (offsets fs 0) hsf hab
      (offsets_length fs 0) hat f.idx f'' nm tg f.ty (Nat.zero_le _) (by simpa using hfs) hfind
    refine ⟨j, bpc, off, hpos, ?_, h2⟩
    simp only [swOf, List.getElem?_map, hj, Option.map_some, hidx, h1, Option.getD_some]

/-- compileStructBody in place (compiler.go:1042) -/
def stCode (co : COpts) (lib : LibCode) (tab : Tab) (pc sp : Nat) (fs : List (String × Option Bytes × GoType)) : Program :=
  if (resolveFields fs).isEmpty then emptyStruct pc (.st fs)
  else
    structHead pc (.st fs) (resolveFields fs)
        (swOf (resolveFields fs) (fieldBlocks co lib tab (pc + 25) (pc + 14) sp (resolveFields fs) 0 fs (offsets fs 0)).1)
        (pc + 25 + (fieldBlocks co lib tab (pc + 25) (pc + 14) sp (resolveFields fs) 0 fs (offsets fs 0)).2.1.length) ++
      (fieldBlocks co lib tab (pc + 25) (pc + 14) sp (resolveFields fs) 0 fs (offsets fs 0)).2.1 ++ [.drop]

theorem ops_st_code (lib : LibCode) (tab : Tab) (pc sp : Nat) (fs : List (String × Option Bytes × GoType)) :
    (ops co lib false tab pc sp (.st fs)).1 = if cutOff co pc sp fs.length then [.recurse (.st fs)] else stCode co lib tab pc sp fs := by
  rw [ops]
  simp only [fin, Bool.not_false, if_true, stCode]
  split
  · rfl
  · split <;> rfl

/-- `_OP_drop` of a frame that is not a slice's -/
theorem e_drop_st {P : Program} {R : Out → Prop} {pc : Nat} {σ : St} {p : Path} {k' : Nat} {stk : List Frame} {vs : List GoVal}
    (hf : P[pc]? = some .drop) (hst : σ.stack = { vp := p, n := k' } :: stk) (hg : getAt σ.root p = some (.st vs))
    (k : Ends o co none R P (pc + 1) { σ with stack := stk, vp := p }) : Ends o co none R P pc σ :=
  ends_step hf (by simp only [step, hst, hg]) k

theorem tok_obj_of {s r0 : Bytes} (h : tok s = .obj r0) : s = 123 :: r0 := tok_obj_inv s r0 h

theorem wt_st {fs : List (String × Option Bytes × GoType)} {cur : GoVal} (h : WT (.st fs) cur = true) :
    ∃ vs, cur = .st vs ∧ WTf fs vs = true := by
  cases cur <;> simp_all [WT]

theorem step_skipEmpty_members {pc t : Nat} {σ : St} {r0 r1 t' : Bytes} {b : UInt8} (hi : σ.inp = 123 :: r0) (hw : skipWs r0 = b :: r1)
    (h125 : b ≠ 125) (hx : skipMembers o.validateString (skipFuel (b :: r1)) (b :: r1) = some t') :
    step o none (.skipEmpty t) pc σ =
      if o.disallowUnknown then .err (.dec .unknownField) else .next t { σ with inp := t' } := by
  simp only [step, hi, hw]
  split
  · rename_i heq; injection heq with hb _; exact absurd hb h125
  · simp only [hx]

theorem step_skipEmpty_other {pc t : Nat} {σ : St} {c : UInt8} {s' r : Bytes} (hi : σ.inp = c :: s') (hne : c ≠ 123)
    (hx : skipVal o.validateString (skipFuel σ.inp) σ.inp = some r) :
    step o none (.skipEmpty t) pc σ =
      if (o.disallowUnknown && (consumed σ.inp r).contains 58) = true then .err (.dec .unknownField) else .next t { σ with inp := r } := by
  simp only [step]
  split
  · rename_i heq; rw [hi] at heq; injection heq with hb _; exact absurd hb hne
  · simp only [hx]

theorem st_inline (n : Nat) (ihS : StructOK o co n) (fs : List (String × Option Bytes × GoType)) (hs : Sub (.st fs) = true)
    (s : Bytes) (cur v : GoVal) (e : Option DErr) (r : Bytes)
    (hwt : WT (.st fs) cur = true) (h : decodeVal o (n + 1) (.st fs) s cur = .ok (v, e, r)) :
    WT (.st fs) v = true ∧
    ∀ (lib : LibCode) (tab : Tab) (P : Program) (pc sp : Nat), (∀ U ∈ tab, tsz (.st fs) ≤ tsz U) →
      At P pc (stCode co lib tab pc sp fs) →
      ∀ σ : St, σ.inp = s → getAt σ.root σ.vp = some cur →
      Sim o co P pc (stCode co lib tab pc sp fs) σ v e r := by
  simp only [Sub, Bool.and_eq_true] at hs
  obtain ⟨hsf, hqa⟩ := hs
  have hq : ∀ f ∈ resolveFields fs, f.quoted = false := fun f hf => by simpa using List.all_eq_true.mp hqa f hf
  obtain ⟨vs, hcur, hwf⟩ := wt_st hwt
  subst hcur
  cases hn : isNullLit s with
  | some r0 =>
    rw [dv_null o n _ s r0 _ hn] at h
    injection h with h; injection h with h1 h2; injection h2 with h2 h3
    subst h1; subst h2; subst h3
    refine ⟨hwt, ?_⟩
    intro lib tab P pc sp _ hat σ hi hg
    unfold stCode at hat ⊢
    split at hat
    · rename_i hemp
      rw [if_pos hemp]
      intro R _ k
      simp only [emptyStruct] at hat k
      refine e_isNull_hit (hat.get 0 rfl) (by rw [hi]; exact hn) ?_
      exact k _ (post_same hg)
    · rename_i hemp
      rw [if_neg hemp]
      generalize (fieldBlocks co lib tab (pc + 25) (pc + 14) sp (resolveFields fs) 0 fs (offsets fs 0)) = FB at hat ⊢
      intro R _ k
      refine e_isNull_hit (hat.left.left.get 0 rfl) (by rw [hi]; exact hn) ?_
      have hl : pc + 25 + FB.2.1.length + 1 =
          pc + (structHead pc (.st fs) (resolveFields fs) (swOf (resolveFields fs) FB.1) (pc + 25 + FB.2.1.length) ++ FB.2.1 ++ [Instr.drop]).length := by
        simp [structHead]; omega
      rw [hl]
      exact k _ (post_same hg)
  | none =>
    rw [dv_st o n fs s _ hn] at h
    cases htk : tok s with
    | obj r0 =>
      rw [htk] at h
      simp only [curFields] at h
      have hs0 := tok_obj_of htk
      cases hw : skipWs r0 with
      | nil =>
        rw [hw] at h
        simp only at h
        split at h
        · cases n with
          | zero => simp [skipMembers] at h
          | succ n => simp [skipMembers] at h
        · cases n with
          | zero => rw [ds_zero] at h; cases h
          | succ n =>
            have := ds_head o (n + 1) (resolveFields fs) [] vs
            cases hd : decodeStruct o (n + 1) (resolveFields fs) [] vs with
            | error x => rw [hd] at h; cases h
            | ok q => obtain ⟨a1, a2, a3⟩ := q; obtain ⟨r', hr'⟩ := this a1 a2 a3 hd; cases hr'
      | cons b r1 =>
        rw [hw] at h
        by_cases h125 : b = 125
        · subst h125
          simp only at h
          injection h with h; injection h with h1 h2; injection h2 with h2 h3
          subst h1; subst h2; subst h3
          refine ⟨hwt, ?_⟩
          intro lib tab P pc sp _ hat σ hi hg
          unfold stCode at hat ⊢
          split at hat
          · rename_i hemp
            rw [if_pos hemp]
            intro R _ k
            simp only [emptyStruct] at hat k
            refine e_isNull_miss (hat.get 0 rfl) (by rw [hi]; exact hn) ?_
            refine e_checkChar0_hit (hat.get 1 rfl) (c := 123) (r := r0) (by rw [hi]; exact hs0) ?_
            refine ends_step (hat.get 3 rfl) (pc' := pc + 4) (s' := { σ with inp := r1 }) (by simp only [step, hi, hs0, hw]) ?_
            exact k _ (post_same hg)
          · rename_i hemp
            rw [if_neg hemp]
            generalize (fieldBlocks co lib tab (pc + 25) (pc + 14) sp (resolveFields fs) 0 fs (offsets fs 0)) = FB at hat ⊢
            intro R _ k
            have hh := hat.left.left
            refine e_isNull_miss (hh.get 0 rfl) (by rw [hi]; exact hn) ?_
            refine e_checkChar0_hit (hh.get 1 rfl) (c := 123) (r := r0) (by rw [hi]; exact hs0) ?_
            refine e_add1 (hh.get 4 rfl) (c := 123) (r := r0) (by rw [hi]; exact hs0) ?_
            refine e_save (hh.get 5 rfl) ?_
            simp only [Bool.false_eq_true, if_false]
            refine e_lspace (hh.get 6 rfl) (c := 125) (r := r1) hw ?_
            refine e_checkChar_hit (hh.get 7 rfl) (c := 125) (r := r1) rfl ?_
            have hD : P[pc + 25 + FB.2.1.length]? = some Instr.drop := by
              have := hat.right' (q := pc + 25 + FB.2.1.length) (by simp [structHead]; omega)
              exact this.get 0 rfl
            refine e_drop_st hD (p := σ.vp) (k' := 0) (stk := σ.stack) (vs := vs) rfl hg ?_
            have hl : pc + 25 + FB.2.1.length + 1 =
                pc + (structHead pc (.st fs) (resolveFields fs) (swOf (resolveFields fs) FB.1) (pc + 25 + FB.2.1.length) ++ FB.2.1 ++ [Instr.drop]).length := by
              simp [structHead]; omega
            rw [hl]
            exact k _ ⟨rfl, (setAt_same _ _ _ hg).symm, rfl, (merge_none_right' _).symm⟩
        · have h' : (if (resolveFields fs).isEmpty then
                (match skipMembers o.validateString n (b :: r1) with
                  | none => (.error .syntax : Res GoVal)
                  | some t' => .ok (.st vs, if o.disallowUnknown then some .unknownField else none, t'))
              else
                match decodeStruct o n (resolveFields fs) (b :: r1) vs with
                | .error e => .error e
                | .ok (vs', e, t') => .ok (.st vs', e, t')) = .ok (v, e, r) := by
            revert h
            split
            · rename_i heq; injection heq with hb _; exact absurd hb h125
            · intro h; exact h
          by_cases hemp : (resolveFields fs).isEmpty = true
          · rw [if_pos hemp] at h'
            cases hsm : skipMembers o.validateString n (b :: r1) with
            | none => rw [hsm] at h'; cases h'
            | some t' =>
              rw [hsm] at h'
              simp only at h'
              injection h' with h'; injection h' with h1 h2; injection h2 with h2 h3
              subst h1; subst h2; subst h3
              refine ⟨hwt, ?_⟩
              intro lib tab P pc sp _ hat σ hi hg
              unfold stCode at hat ⊢
              rw [if_pos hemp] at hat ⊢
              intro R ht k
              simp only [emptyStruct] at hat k
              refine e_isNull_miss (hat.get 0 rfl) (by rw [hi]; exact hn) ?_
              refine e_checkChar0_hit (hat.get 1 rfl) (c := 123) (r := r0) (by rw [hi]; exact hs0) ?_
              have hx := (skipMembers_exec hsm).1
              have hstep := step_skipEmpty_members (o := o) (pc := pc + 3) (t := pc + 4) (σ := σ) (by rw [hi]; exact hs0) hw h125 hx
              by_cases hdu : o.disallowUnknown = true
              · have ht := ht (by simp [hdu])
                exact ends_err (hat.get 3 rfl) (e := .dec .unknownField) (by rw [hstep, if_pos hdu]) (ht _)
              · refine ends_step (hat.get 3 rfl) (pc' := pc + 4) (s' := { σ with inp := t' }) (by rw [hstep, if_neg hdu]) ?_
                refine k _ ⟨rfl, (setAt_same _ _ _ hg).symm, rfl, ?_⟩
                simp only [hdu, Bool.false_eq_true, if_false]; exact (merge_none_right' _).symm
          · rw [if_neg hemp] at h'
            cases hd : decodeStruct o n (resolveFields fs) (b :: r1) vs with
            | error x => rw [hd] at h'; cases h'
            | ok q =>
              obtain ⟨res, e', t'⟩ := q
              rw [hd] at h'
              simp only at h'
              injection h' with h'; injection h' with h1 h2; injection h2 with h2 h3
              subst h1; subst h2; subst h3
              have ihs := ihS fs (b :: r1) vs res e' t' hsf hq hwf hd
              obtain ⟨r0', hs'⟩ := ds_head o _ _ _ _ _ _ _ hd
              injection hs' with hb hr1
              subst hb; subst hr1
              refine ⟨by simp only [WT]; exact ihs.1, ?_⟩
              intro lib tab P pc sp hle hat σ hi hg
              have hab : ∀ nm tg t, (nm, tg, t) ∈ fs → Above tab t := fun nm tg t hm => tsz_le_above hle (tsz_field hm)
              unfold stCode at hat ⊢
              rw [if_neg hemp] at hat ⊢
              have hblocks := blocksOK_of (co := co) lib tab P pc sp fs hsf hq hab (by
                have := hat.left.right' (q := pc + 25) (by simp [structHead])
                exact this)
              generalize (fieldBlocks co lib tab (pc + 25) (pc + 14) sp (resolveFields fs) 0 fs (offsets fs 0)) = FB at hat hblocks ⊢
              intro R ht k
              have hh := hat.left.left
              refine e_isNull_miss (hh.get 0 rfl) (by rw [hi]; exact hn) ?_
              refine e_checkChar0_hit (hh.get 1 rfl) (c := 123) (r := r0) (by rw [hi]; exact hs0) ?_
              refine e_add1 (hh.get 4 rfl) (c := 123) (r := r0) (by rw [hi]; exact hs0) ?_
              refine e_save (hh.get 5 rfl) ?_
              simp only [Bool.false_eq_true, if_false]
              refine e_lspace (hh.get 6 rfl) (c := 34) (r := _) hw ?_
              refine e_checkChar_miss (hh.get 7 rfl) (b := 34) (r := _) rfl (by decide) ?_
              have hA : At P (pc + 8) [Instr.matchChar 34, Instr.structField (resolveFields fs), Instr.lspace, Instr.matchChar 58,
                  Instr.switch (swOf (resolveFields fs) FB.1), Instr.objectNext] := by
                have e : structHead pc (.st fs) (resolveFields fs) (swOf (resolveFields fs) FB.1) (pc + 25 + FB.2.1.length) =
                    [Instr.isNull (pc + 25 + FB.2.1.length + 1), Instr.checkChar0 (pc + 4) 123, Instr.dismatchErr (.st fs), Instr.goSkip (pc + 25 + FB.2.1.length + 1),
                      Instr.add 1, Instr.save false, Instr.lspace, Instr.checkChar (pc + 25 + FB.2.1.length) 125] ++
                    [Instr.matchChar 34, Instr.structField (resolveFields fs), Instr.lspace, Instr.matchChar 58,
                      Instr.switch (swOf (resolveFields fs) FB.1), Instr.objectNext] ++
                    [Instr.lspace, Instr.checkChar (pc + 25 + FB.2.1.length) 125, Instr.matchChar 44, Instr.lspace, Instr.matchChar 34,
                      Instr.structField (resolveFields fs), Instr.lspace, Instr.matchChar 58, Instr.switch (swOf (resolveFields fs) FB.1), Instr.objectNext,
                      Instr.goto (pc + 14)] := rfl
                rw [e] at hh
                exact hh.mid
              have hY : At P (pc + 14) [Instr.lspace, Instr.checkChar (pc + 25 + FB.2.1.length) 125, Instr.matchChar 44, Instr.lspace, Instr.matchChar 34,
                  Instr.structField (resolveFields fs), Instr.lspace, Instr.matchChar 58, Instr.switch (swOf (resolveFields fs) FB.1), Instr.objectNext,
                  Instr.goto (pc + 14)] := by
                have e : structHead pc (.st fs) (resolveFields fs) (swOf (resolveFields fs) FB.1) (pc + 25 + FB.2.1.length) =
                    [Instr.isNull (pc + 25 + FB.2.1.length + 1), Instr.checkChar0 (pc + 4) 123, Instr.dismatchErr (.st fs), Instr.goSkip (pc + 25 + FB.2.1.length + 1),
                      Instr.add 1, Instr.save false, Instr.lspace, Instr.checkChar (pc + 25 + FB.2.1.length) 125,
                      Instr.matchChar 34, Instr.structField (resolveFields fs), Instr.lspace, Instr.matchChar 58,
                      Instr.switch (swOf (resolveFields fs) FB.1), Instr.objectNext] ++
                    [Instr.lspace, Instr.checkChar (pc + 25 + FB.2.1.length) 125, Instr.matchChar 44, Instr.lspace, Instr.matchChar 34,
                      Instr.structField (resolveFields fs), Instr.lspace, Instr.matchChar 58, Instr.switch (swOf (resolveFields fs) FB.1), Instr.objectNext,
                      Instr.goto (pc + 14)] := rfl
                rw [e] at hh
                exact hh.right
              have hD : P[pc + 25 + FB.2.1.length]? = some Instr.drop := by
                have := hat.right' (q := pc + 25 + FB.2.1.length) (by simp [structHead]; omega)
                exact this.get 0 rfl
              refine ihs.2 lib tab P sp (pc + 8) (pc + 14) (pc + 25 + FB.2.1.length) (swOf (resolveFields fs) FB.1) hab hblocks hA
                (fun R' σ' h' => h') hY _ σ.vp σ.stack (by rfl) (by rfl) (by rfl) (by simp only; exact hg) R ht ?_
              intro σ' h'i h'r h's h'e
              have hg' : getAt σ'.root σ.vp = some (.st res) := by rw [h'r]; exact getAt_setAt_self _ _ _ _ hg
              refine e_drop_st hD (p := σ.vp) (k' := 0) (stk := σ.stack) (vs := res) (by rw [h's]) hg' ?_
              have hl : pc + 25 + FB.2.1.length + 1 =
                  pc + (structHead pc (.st fs) (resolveFields fs) (swOf (resolveFields fs) FB.1) (pc + 25 + FB.2.1.length) ++ FB.2.1 ++ [Instr.drop]).length := by
                simp [structHead]; omega
              rw [hl]
              exact k _ ⟨h'i, h'r, rfl, h'e⟩
    | str r0 | arr r0 | lit | other =>
      rw [htk] at h
      simp only at h
      obtain ⟨hsk, hv, he⟩ := skipMismatch_ok h
      simp only [wrapPtr, peel] at hv
      subst hv; subst he
      refine ⟨hwt, ?_⟩
      intro lib tab P pc sp _ hat σ hi hg
      have hx := (skipVal_exec hsk).1
      cases hs1 : s with
      | nil => rw [hs1, skipVal_nil] at hsk; cases hsk
      | cons c s' =>
        have hne : c ≠ 123 := tok_ne_obj hs1 (fun r0 h0 => by rw [htk] at h0; cases h0)
        unfold stCode at hat ⊢
        split at hat
        · rename_i hemp
          rw [if_pos hemp]
          intro R ht k
          have ht := ht (by simp)
          simp only [emptyStruct] at hat k
          refine e_isNull_miss (hat.get 0 rfl) (by rw [hi]; exact hn) ?_
          refine e_checkChar0_miss (hat.get 1 rfl) (b := c) (r := s') (by rw [hi]; exact hs1) hne ?_
          refine e_dismatch (hat.get 2 rfl) ?_
          have hstep := step_skipEmpty_other (o := o) (pc := pc + 1 + 1 + 1) (t := pc + 4)
            (σ := { σ with ic := σ.inp, et := merge σ.et (some .mismatch) }) (c := c) (s' := s') (r := r) (by simp only; rw [hi]; exact hs1) hne
            (by simp only; rw [hi]; exact hx)
          by_cases hcol : (o.disallowUnknown && (consumed σ.inp r).contains 58) = true
          · exact ends_err (hat.get 3 rfl) (e := .dec .unknownField) (by rw [hstep]; simp only [hcol, if_true]) (ht _)
          · refine ends_step (hat.get 3 rfl) (pc' := pc + 4) (s' := { σ with inp := r, ic := σ.inp, et := merge σ.et (some .mismatch) }) (by
              rw [hstep]; simp only; rw [if_neg hcol]) ?_
            exact k _ ⟨rfl, (setAt_same _ _ _ hg).symm, rfl, rfl⟩
        · rename_i hemp
          rw [if_neg hemp]
          generalize (fieldBlocks co lib tab (pc + 25) (pc + 14) sp (resolveFields fs) 0 fs (offsets fs 0)) = FB at hat ⊢
          intro R ht k
          have hh := hat.left.left
          refine e_isNull_miss (hh.get 0 rfl) (by rw [hi]; exact hn) ?_
          refine e_checkChar0_miss (hh.get 1 rfl) (b := c) (r := s') (by rw [hi]; exact hs1) hne ?_
          refine e_dismatch (hh.get 2 rfl) ?_
          refine e_goSkip (hh.get 3 rfl) (r := r) (by simp only; rw [hi]; exact hx) ?_
          have hl : pc + 25 + FB.2.1.length + 1 =
              pc + (structHead pc (.st fs) (resolveFields fs) (swOf (resolveFields fs) FB.1) (pc + 25 + FB.2.1.length) ++ FB.2.1 ++ [Instr.drop]).length := by
            simp [structHead]; omega
          rw [hl]
          exact k _ ⟨rfl, (setAt_same _ _ _ hg).symm, rfl, rfl⟩

theorem cutOff_top (hco : 0 < co.maxInlineDepth) (k : Nat) : cutOff co 1 0 k = false := by
  simp only [cutOff, maxIlbuf, maxFields]
  have : ¬ (0 ≥ co.maxInlineDepth) := by omega
  simp [this]

/-- compileStruct: in place, or - nested too deep / too wide / too late - `_OP_recurse` into the struct's own program -/
theorem opsOK_st (n : Nat) (hco : 0 < co.maxInlineDepth) (ihS : StructOK o co n) (fs : List (String × Option Bytes × GoType))
    (hs : Sub (.st fs) = true) : OpsOK o co (n + 1) (.st fs) := by
  intro s cur v e r hwt hws h
  have hin := st_inline (co := co) n ihS fs hs s cur v e r hwt h
  refine ⟨hin.1, ?_⟩
  intro lib tab P pc sp hle hat σ hi hg
  rw [ops_st_code] at hat ⊢
  by_cases hcut : cutOff co pc sp fs.length = true
  · rw [if_pos hcut] at hat ⊢
    intro R ht k
    refine ends_call (hat.get 0 rfl) ?_
    have hcomp : compile co (.st fs) = .lspace :: stCode co (libK co (co.maxInlineDepth + 2)) [.st fs] 1 0 fs := by
      unfold compile
      rw [one_code hs _ (above_nil _), ops_st_code, cutOff_top hco]
      rfl
    rw [hcomp]
    have hne : s ≠ [] := by
      intro h0; subst h0
      rw [decodeVal_nil o (n + 1) _ hs] at h; cases h
    obtain ⟨c0, s', hs'⟩ : ∃ c0 s', s = c0 :: s' := by
      cases s with
      | nil => exact absurd rfl hne
      | cons c0 s' => exact ⟨c0, s', rfl⟩
    have hatw : At (Instr.lspace :: stCode co (libK co (co.maxInlineDepth + 2)) [.st fs] 1 0 fs) 0
        (Instr.lspace :: stCode co (libK co (co.maxInlineDepth + 2)) [.st fs] 1 0 fs) := At.whole _
    refine e_lspace (hatw.get 0 rfl) (c := c0) (r := s') (by simp only; rw [hi, hws, hs']) ?_
    have hatt : At (Instr.lspace :: stCode co (libK co (co.maxInlineDepth + 2)) [.st fs] 1 0 fs) 1
        (stCode co (libK co (co.maxInlineDepth + 2)) [.st fs] 1 0 fs) := by simpa using hatw.tail
    refine hin.2 (libK co (co.maxInlineDepth + 2)) [.st fs] _ 1 0
      (by intro U hU; cases hU with | head => exact Nat.le_refl _ | tail _ h => cases h) hatt
      { σ with et := none, inp := c0 :: s' } (by simp only; exact hs'.symm) hg _ ?_ ?_
    · intro hne x
      exact ht hne x
    · intro σ' hp
      refine ends_done (At.end_none (by simp only [List.length_cons]; omega)) ?_
      show Ends o co none R P (pc + 1) (retState σ σ')
      refine k _ ⟨hp.1, hp.2.1, hp.2.2.1, ?_⟩
      simp only [retState]
      rw [hp.2.2.2]
      simp only [merge_none_left]
  · have hcut' : cutOff co pc sp fs.length = false := by simpa using hcut
    rw [hcut'] at hat ⊢
    simp only [Bool.false_eq_true, if_false] at hat ⊢
    exact hin.2 lib tab P pc sp hle hat σ hi hg

end SonicSpec.Dir
