/-
  Helper lemmas for C19: encoding/json's choice of notation (`%e` below 1e-6 and from 1e21 on) expressed
  through the decimal exponent of the shortest digits.
-/
import SonicSpec.Proofs.NumFmtTotal
namespace SonicSpec.Num

theorem digitVal_le_9 (c : UInt8) (h : isDigit c = true) : digitVal c ≤ 9 := by
  simp only [isDigit, Bool.and_eq_true, decide_eq_true_eq] at h
  have : c.toNat ≤ 57 := by simpa [UInt8.le_iff_toNat_le] using h.2
  simp only [digitVal]; omega

theorem digitVal_ge_1 (c : UInt8) (h : (49 ≤ c && c ≤ 57) = true) : 1 ≤ digitVal c := by
  simp only [Bool.and_eq_true, decide_eq_true_eq] at h
  have : 49 ≤ c.toNat := by simpa [UInt8.le_iff_toNat_le] using h.1
  simp only [digitVal]; omega

theorem digitsValFrom_bounds : ∀ (ds : Bytes) (acc : Nat), AllDigits ds →
    acc * 10 ^ ds.length ≤ digitsValFrom acc ds ∧ digitsValFrom acc ds < (acc + 1) * 10 ^ ds.length
  | [], acc, _ => by simp [digitsValFrom]
  | c :: r, acc, h => by
    have hc : isDigit c = true := h c (List.mem_cons_self ..)
    have hr : AllDigits r := fun x hx => h x (List.mem_cons_of_mem _ hx)
    obtain ⟨a, b⟩ := digitsValFrom_bounds r (acc * 10 + digitVal c) hr
    have hv := digitVal_le_9 c hc
    simp only [digitsValFrom, List.foldl_cons, List.length_cons] at *
    have e1 : acc * 10 ^ (r.length + 1) = acc * 10 * 10 ^ r.length := by rw [Nat.pow_succ]; ac_rfl
    have e2 : (acc + 1) * 10 ^ (r.length + 1) = (acc * 10 + 10) * 10 ^ r.length := by
      rw [Nat.pow_succ, Nat.add_mul, Nat.add_mul]; ac_rfl
    have m1 : acc * 10 * 10 ^ r.length ≤ (acc * 10 + digitVal c) * 10 ^ r.length :=
      Nat.mul_le_mul_right _ (by omega)
    have m2 : (acc * 10 + digitVal c + 1) * 10 ^ r.length ≤ (acc * 10 + 10) * 10 ^ r.length :=
      Nat.mul_le_mul_right _ (by omega)
    rw [e1, e2]
    exact ⟨by omega, by omega⟩

/-- a positive number with `L` digits lies in `[10^(L-1), 10^L)` -/
theorem natDigits_bounds (d : Nat) (hd : d ≠ 0) :
    1 ≤ (natDigits d).length ∧ 10 ^ ((natDigits d).length - 1) ≤ d ∧ d < 10 ^ (natDigits d).length := by
  obtain ⟨c, r, hds, _, hc2, hr⟩ := natDigits_head d hd
  have hval := (natDigits_spec d).2.2.1
  rw [hds] at hval ⊢
  obtain ⟨a, b⟩ := digitsValFrom_bounds r (digitVal c) hr
  have h1 := digitVal_ge_1 c hc2
  have h9 : digitVal c ≤ 9 := by
    have := (natDigits_spec d).2.1
    rw [hds] at this
    exact digitVal_le_9 c (this c (List.mem_cons_self ..))
  have hv : digitsVal (c :: r) = digitsValFrom (digitVal c) r := by
    simp [digitsVal, digitsValFrom]
  rw [hv] at hval
  simp only [List.length_cons, Nat.add_sub_cancel]
  have m1 : 1 * 10 ^ r.length ≤ digitVal c * 10 ^ r.length := Nat.mul_le_mul_right _ h1
  have m2 : (digitVal c + 1) * 10 ^ r.length ≤ 10 * 10 ^ r.length := Nat.mul_le_mul_right _ (by omega)
  have e : 10 ^ (r.length + 1) = 10 * 10 ^ r.length := by rw [Nat.pow_succ]; ac_rfl
  rw [e]
  exact ⟨by omega, by omega, by omega⟩

/-- order of finite floats by value gives the order of their magnitude bits -/
theorem pack_le_of_val_le (f : Fmt) (hp : 1 ≤ f.prec) (q1 t1 q2 t2 : Nat)
    (h1 : Canonical f.prec q1 t1) (h2 : Canonical f.prec q2 t2) (hv : q1 * 2 ^ t1 ≤ q2 * 2 ^ t2) :
    packBits f q1 t1 ≤ packBits f q2 t2 := by
  have hK := two_pow_eq_double f.prec hp
  simp only [packBits]
  rcases Nat.lt_trichotomy t1 t2 with hlt | heq | hgt
  · have hq2 := h2.2 (by omega)
    have hq1 := h1.1
    have : (t1 + 1) * 2 ^ (f.prec - 1) ≤ t2 * 2 ^ (f.prec - 1) := Nat.mul_le_mul_right _ hlt
    rw [Nat.add_mul, Nat.one_mul] at this
    omega
  · subst heq
    have := Nat.le_of_mul_le_mul_right hv (Nat.two_pow_pos t1)
    omega
  · exfalso
    have hq1 := h1.2 (by omega)
    have hq2 := h2.1
    have a : q2 * 2 ^ t2 < 2 ^ f.prec * 2 ^ t2 := Nat.mul_lt_mul_of_pos_right hq2 (Nat.two_pow_pos _)
    have b : 2 ^ (t2 + 1) ≤ 2 ^ t1 := Nat.pow_le_pow_right (by decide) hgt
    rw [pow_succ_two] at b
    have c : 2 ^ (f.prec - 1) * (2 * 2 ^ t2) ≤ 2 ^ (f.prec - 1) * 2 ^ t1 := Nat.mul_le_mul_left _ b
    have d : 2 ^ (f.prec - 1) * 2 ^ t1 ≤ q1 * 2 ^ t1 := Nat.mul_le_mul_right _ hq1
    have e : 2 ^ (f.prec - 1) * (2 * 2 ^ t2) = 2 ^ f.prec * 2 ^ t2 := by rw [hK]; ac_rfl
    omega

/-- rounding decimals is monotone -/
theorem roundDec_mono (f : Fmt) (hf : f.Ok) (m1 : Nat) (e1 : Int) (m2 : Nat) (e2 : Int) (s : Nat)
    (h1 : 0 ≤ e1 + s) (h2 : 0 ≤ e2 + s) (hle : m1 * 10 ^ (e1 + s).toNat ≤ m2 * 10 ^ (e2 + s).toNat)
    (hm1 : m1 ≠ 0) (hm2 : m2 ≠ 0) (q1 t1 q2 t2 : Nat)
    (hr1 : roundDec f m1 e1 = some (q1, t1)) (hr2 : roundDec f m2 e2 = some (q2, t2)) :
    q1 * 2 ^ t1 ≤ q2 * 2 ^ t2 := by
  obtain ⟨a, _, _⟩ := roundDec_spec f hf m1 e1 hm1 q1 t1 hr1
  obtain ⟨b, _, _⟩ := roundDec_spec f hf m2 e2 hm2 q2 t2 hr2
  exact IsRNE.mono hf.prec_pos (Nat.pos_of_ne_zero (scale_den_ne_zero _ _))
    (Nat.pos_of_ne_zero (scale_den_ne_zero _ _))
    (dec_le_of_shift m1 e1 m2 e2 s (2 ^ f.bias) h1 h2 hle) a b

/-- decimal exponent of `d * 10^j` written `x.xxx * 10^X` -/
def decExp (d : Nat) (j : Int) : Int := ((natDigits d).length : Int) + j - 1

/-- `10^T ≤ d * 10^j` when the decimal exponent is at least `T` -/
theorem pow_le_dec (d : Nat) (j : Int) (hd : d ≠ 0) (T : Int) (h : T ≤ decExp d j) (s : Nat)
    (h1 : 0 ≤ T + s) (h2 : 0 ≤ j + s) : 1 * 10 ^ (T + s).toNat ≤ d * 10 ^ (j + s).toNat := by
  obtain ⟨a, b, _⟩ := natDigits_bounds d hd
  simp only [decExp] at h
  generalize (natDigits d).length = L at *
  have e : (T + s).toNat ≤ (L - 1) + (j + s).toNat := by omega
  have m1 : 10 ^ (T + s).toNat ≤ 10 ^ ((L - 1) + (j + s).toNat) := Nat.pow_le_pow_right (by decide) e
  rw [Nat.pow_add] at m1
  have m2 : 10 ^ (L - 1) * 10 ^ (j + s).toNat ≤ d * 10 ^ (j + s).toNat := Nat.mul_le_mul_right _ b
  omega

/-- `d * 10^j ≤ 10^T` when the decimal exponent is below `T` -/
theorem dec_le_pow (d : Nat) (j : Int) (hd : d ≠ 0) (T : Int) (h : decExp d j < T) (s : Nat)
    (h1 : 0 ≤ T + s) (h2 : 0 ≤ j + s) : d * 10 ^ (j + s).toNat ≤ 1 * 10 ^ (T + s).toNat := by
  obtain ⟨a, _, c⟩ := natDigits_bounds d hd
  simp only [decExp] at h
  generalize (natDigits d).length = L at *
  have e : L + (j + s).toNat ≤ (T + s).toNat := by omega
  have m1 : 10 ^ (L + (j + s).toNat) ≤ 10 ^ (T + s).toNat := Nat.pow_le_pow_right (by decide) e
  rw [Nat.pow_add] at m1
  have m2 : d * 10 ^ (j + s).toNat ≤ 10 ^ L * 10 ^ (j + s).toNat := Nat.mul_le_mul_right _ (Nat.le_of_lt c)
  omega

/-- the stripped shortest digits of finite non-zero magnitude bits -/
def shortDigits (f : Fmt) (mag : Nat) : Option (Nat × Int) :=
  (shortest f (unpack f mag).1 (unpack f mag).2).map fun c => stripZeros 20 c.1 c.2

/-- comparison with a power of ten: the magnitude bits are at least those of `round(10^T)` exactly when
    the decimal exponent of the shortest digits is at least `T` (given that `10^T` prints as `1eT`) -/
theorem decExp_ge_iff (f : Fmt) (hf : f.Ok) (hfin : f.Fin) (mag magT : Nat) (T : Int)
    (hE : (fields f mag).1 < 2 ^ f.ebits - 1) (hET : (fields f magT).1 < 2 ^ f.ebits - 1)
    (hmag : mag ≠ 0)
    (hrT : roundDec f 1 T = some ((unpack f magT).1, (unpack f magT).2))
    (hsT : shortDigits f magT = some (1, T))
    (d : Nat) (j : Int) (hs : shortDigits f mag = some (d, j)) :
    T ≤ decExp d j ↔ magT ≤ mag := by
  obtain ⟨u1, u2, u3, u4⟩ := unpack_spec f hf hfin mag hE
  obtain ⟨v1, v2, v3, _⟩ := unpack_spec f hf hfin magT hET
  -- the digits round back
  simp only [shortDigits, Option.map_eq_some_iff] at hs
  obtain ⟨c, hc, hcd⟩ := hs
  obtain ⟨hr0, hd0⟩ := shortest_rounds f _ _ (u4 hmag) c hc
  obtain ⟨s1, _, k, s2, s3⟩ := stripZeros_spec 20 c.1 c.2 hd0
  rw [hcd] at s1 s2 s3
  simp only at s1 s2 s3
  have hr : roundDec f d j = some ((unpack f mag).1, (unpack f mag).2) := by
    refine roundDec_congr f hf c.1 c.2 d j (-c.2).toNat (by omega) (by omega) ?_ hd0 s1 _ _ hr0
    have : (j + ((-c.2).toNat : Nat)).toNat = k + (c.2 + ((-c.2).toNat : Nat)).toNat := by omega
    rw [this, Nat.pow_add, s3]; ac_rfl
  let s : Nat := (-T).toNat + (-j).toNat
  have h1 : 0 ≤ T + s := by omega
  have h2 : 0 ≤ j + s := by omega
  constructor
  · intro hX
    have := roundDec_mono f hf 1 T d j s h1 h2 (pow_le_dec d j s1 T hX s h1 h2) (by decide) s1 _ _ _ _ hrT hr
    have := pack_le_of_val_le f hf.prec_pos _ _ _ _ v1 u1 this
    rw [u3, v3] at this
    exact this
  · intro hge
    apply Classical.byContradiction
    intro hX
    have hlt : decExp d j < T := by omega
    have := roundDec_mono f hf d j 1 T s h2 h1 (dec_le_pow d j s1 T hlt s h1 h2) s1 (by decide) _ _ _ _ hr hrT
    have := pack_le_of_val_le f hf.prec_pos _ _ _ _ u1 v1 this
    rw [u3, v3] at this
    have heq : mag = magT := by omega
    subst heq
    simp only [shortDigits, hc, Option.map_some, hcd, Option.some.injEq, Prod.mk.injEq] at hsT
    obtain ⟨rfl, rfl⟩ := hsT
    have : decExp 1 j = j := by
      have : (natDigits 1).length = 1 := by decide
      simp only [decExp, this]; omega
    omega

/-- the text of finite non-zero bits in terms of the stripped shortest digits -/
theorem fmtBitsRaw_nonzero (f : Fmt) (th : Thresh) (bits : Nat)
    (hfinite : (fields f (bits % signBit f)).1 ≠ 2 ^ f.ebits - 1) (hmag : bits % signBit f ≠ 0)
    (d : Nat) (j : Int) (hs : shortDigits f (bits % signBit f) = some (d, j)) :
    fmtBitsRaw f th bits = some ((if bits / signBit f % 2 = 1 then [45] else []) ++
      (if bits % signBit f < th.lo ∨ bits % signBit f ≥ th.hi
        then fmtE (natDigits d) (((natDigits d).length : Int) + j)
        else fmtF (natDigits d) (((natDigits d).length : Int) + j))) := by
  simp only [shortDigits, Option.map_eq_some_iff] at hs
  obtain ⟨c, hc, hcd⟩ := hs
  obtain ⟨d0, j0⟩ := c
  simp only [fmtBitsRaw, if_neg hfinite, if_neg hmag, hc]
  simp only at hcd
  rw [hcd]
  split <;> rfl

/-- everything the digit search guarantees, at full strength -/
theorem shortest_full (f : Fmt) (hf : f.Ok) (q t : Nat) (hc : Canonical f.prec q t) (ht : t ≤ f.tmax)
    (c : Nat × Int) (h : shortest f q t = some c) :
    ∃ k', 1 ≤ k' ∧ k' ≤ 17 ∧ c.1 ≤ 10 ^ k' ∧ (stripZeros 20 c.1 c.2).1 < 10 ^ k' ∧
      roundDec f c.1 c.2 = some (q, t) ∧
      (∀ (d' : Nat) (j' : Int), d' ≠ 0 → d' < 10 ^ (k' - 1) → roundDec f d' j' ≠ some (q, t)) ∧
      (∀ K, 1 ≤ K → 2 ^ f.prec < 10 ^ (K - 1) → k' ≤ K) := by
  simp only [shortest] at h
  split at h
  · rename_i hE
    simp only [Bool.and_eq_true, Bool.not_eq_true'] at hE
    obtain ⟨hE1, hE2⟩ := hE
    obtain ⟨k', h1, h2, h3, h4, h5⟩ := searchDigits_spec f q t _ _ _ 17 1 c h
    have hr : roundDec f c.1 c.2 = some (q, t) := by simpa [roundsTo] using h4
    have hle := cand_le _ _ (Nat.two_pow_pos f.bias) _ hE2 k' h1 c h3
    have hfail : ∀ k'', 1 ≤ k'' → k'' < k' →
        ∀ c' ∈ candidates (q * 2 ^ t) (2 ^ f.bias) (floorLog10 (q * 2 ^ t) (2 ^ f.bias)) k'',
          roundDec f c'.1 c'.2 ≠ some (q, t) := by
      intro k'' a b c' hc'
      have := h5 k'' a b c' hc'
      simpa [roundsTo] using this
    refine ⟨k', h1, by omega, hle, ?_, hr, ?_, ?_⟩
    · by_cases hlt : c.1 < 10 ^ k'
      · have := stripZeros_spec_le 20 c.1 c.2
        omega
      · have heq : c.1 = 10 ^ k' := by omega
        have hpos := pow10_pos k'
        have h10 : c.1 % 10 = 0 := by
          rw [heq]
          obtain ⟨k0, rfl⟩ : ∃ k0, k' = k0 + 1 := ⟨k' - 1, by omega⟩
          rw [Nat.pow_succ]; exact Nat.mul_mod_left _ _
        have h20 : (stripZeros 20 c.1 c.2).1 < c.1 := stripZeros_lt 19 c.1 c.2 (by omega) h10
        omega
    · intro d' j' hd0 hd
      by_cases hk1 : k' = 1
      · subst hk1
        simp only [Nat.sub_self, Nat.pow_zero] at hd
        omega
      · exact no_shorter f hf q t hc ht _ hE1 hE2 (k' - 1) (by omega) (hfail (k' - 1) (by omega) (by omega))
          d' j' hd0 hd
    · intro K hK1 hK
      apply Classical.byContradiction
      intro hcon
      obtain ⟨c', hc1, hc2⟩ := nearest_rounds f hf q t hc ht _ hE1 K hK1 hK
      exact hfail K hK1 (by omega) c' hc1 hc2
  · cases h

/-- side conditions on the notation thresholds: they are the floats nearest to 1e-6 and 1e21, finite,
    and these print with the single digit `1` -/
structure Thresh.Ok (f : Fmt) (th : Thresh) : Prop where
  lo_fin : (fields f th.lo).1 < 2 ^ f.ebits - 1
  hi_fin : (fields f th.hi).1 < 2 ^ f.ebits - 1
  lo_round : roundDec f 1 (-6) = some ((unpack f th.lo).1, (unpack f th.lo).2)
  hi_round : roundDec f 1 21 = some ((unpack f th.hi).1, (unpack f th.hi).2)
  lo_short : shortDigits f th.lo = some (1, -6)
  hi_short : shortDigits f th.hi = some (1, 21)

theorem thresh64_ok : thresh64.Ok f64 :=
  ⟨by decide +kernel, by decide +kernel, by decide +kernel, by decide +kernel, by decide +kernel, by decide +kernel⟩
theorem thresh32_ok : thresh32.Ok f32 :=
  ⟨by decide +kernel, by decide +kernel, by decide +kernel, by decide +kernel, by decide +kernel, by decide +kernel⟩

end SonicSpec.Num
