/-
  Encoder IR, compiler correctness (8): string-keyed maps - the entries in iteration order against encM / sortKV /
  keyBodies, one entry, the second loop of compileMapBody.
-/
import SonicSpec.Proofs.IrKey
namespace SonicSpec.Ir
open SonicSpec SonicSpec.Go SonicSpec.Enc SonicSpec.Json
variable {o : EncOpts} {co : COpts}

/-! ### the entries of a map, in iteration order, with the text `kt` of each key -/

/-- one entry as the specification sees it: (key text, value tree) -/
def entrySpec (o : EncOpts) (t : GoType) (kt : GoVal × GoVal → Bytes) (e : GoVal × GoVal) : Except EErr (Bytes × JVal) :=
  (encV o false t e.2).map fun j => (kt e, j)

def encIt (o : EncOpts) (t : GoType) (kt : GoVal × GoVal → Bytes) : Iter → Except EErr (List (Bytes × JVal))
  | [] => .ok []
  | e :: r =>
    match entrySpec o t kt e with
    | .error x => .error x
    | .ok m =>
      match encIt o t kt r with
      | .error x => .error x
      | .ok ms => .ok (m :: ms)

/-- the text of a key of kind `k` (encode.go resolveKeyName) -/
def ktOf (k : GoType) (e : GoVal × GoVal) : Bytes := (keyText k e.1).getD []

theorem keyText_conf {c0 : COpts} {k : GoType} {a : GoVal} (hk : keySub k = true) (hC : Conf c0 k a = true) :
    ∃ ks, keyText k a = some ks ∧ keyTextM k a = some ks := by
  cases k <;> simp only [keySub] at hk <;> try (cases hk; done)
  all_goals (cases a <;> try (simp [Conf] at hC; done))
  all_goals exact ⟨_, rfl, rfl⟩

theorem encM_eq_encIt {c0 : COpts} {k : GoType} (hk : keySub k = true) (t : GoType) :
    ∀ (kvs : List (GoVal × GoVal)), ConfM c0 k t kvs = true → encM o k t kvs = encIt o t (ktOf k) kvs := by
  intro kvs
  induction kvs with
  | nil => intro _; rfl
  | cons e r ih =>
    intro h
    obtain ⟨a, v⟩ := e
    simp only [ConfM, Bool.and_eq_true] at h
    obtain ⟨ks, h1, _⟩ := keyText_conf hk h.1.1
    simp only [encM, h1, encIt, entrySpec, ktOf, Option.getD, ih h.2, bind, Except.bind, pure, Except.pure, Except.map]
    cases encV o false t v <;> simp only
    cases encIt o t (ktOf k) r <;> rfl

/-- the iterator of sorted iteration: every key replaced by its text -/
def rend (k : GoType) (kvs : Iter) : Iter := kvs.map fun e => (GoVal.str (ktOf k e), e.2)

theorem renderKeys_ok {c0 : COpts} {k : GoType} (hk : keySub k = true) (t : GoType) :
    ∀ (kvs : List (GoVal × GoVal)), ConfM c0 k t kvs = true → renderKeys k kvs = some (rend k kvs) := by
  intro kvs
  induction kvs with
  | nil => intro _; rfl
  | cons e r ih =>
    intro h
    obtain ⟨a, v⟩ := e
    simp only [ConfM, Bool.and_eq_true] at h
    obtain ⟨ks, h1, h2⟩ := keyText_conf hk h.1.1
    simp only [renderKeys, h2, ih h.2, rend, List.map_cons, ktOf, h1, Option.getD]

theorem encIt_rend {k t : GoType} : ∀ (kvs : Iter), encIt o t iterKey (rend k kvs) = encIt o t (ktOf k) kvs := by
  intro kvs
  induction kvs with
  | nil => rfl
  | cons e r ih =>
    have : rend k (e :: r) = (GoVal.str (ktOf k e), e.2) :: rend k r := rfl
    rw [this]
    simp only [encIt, entrySpec, iterKey, ih]

theorem entrySpec_key {t : GoType} {kt : GoVal × GoVal → Bytes} {e : GoVal × GoVal} {m : Bytes × JVal} (h : entrySpec o t kt e = .ok m) : m.1 = kt e := by
  unfold entrySpec at h
  cases hv : encV o false t e.2 with
  | error x => rw [hv] at h; cases h
  | ok j => rw [hv] at h; simp only [Except.map] at h; injection h with h; subst h; rfl

theorem encIt_insert {t : GoType} {e : GoVal × GoVal} {m : Bytes × JVal} (he : entrySpec o t iterKey e = .ok m) :
    ∀ (l : Iter) (ms : List (Bytes × JVal)), encIt o t iterKey l = .ok ms → encIt o t iterKey (insertIt e l) = .ok (insertKV m ms) := by
  intro l
  induction l with
  | nil =>
    intro ms h
    simp only [encIt] at h
    injection h with h; subst h
    simp only [insertIt, insertKV, encIt, he]
  | cons f r ih =>
    intro ms h
    simp only [encIt] at h
    split at h
    · cases h
    · rename_i mf hf
      split at h
      · cases h
      · rename_i mr hr
        injection h with h; subst h
        simp only [insertIt, insertKV, entrySpec_key he, entrySpec_key hf]
        split
        · simp only [encIt, he, hf, hr]
        · simp only [encIt, hf, ih mr hr]

theorem encIt_sort {t : GoType} : ∀ (l : Iter) (ms : List (Bytes × JVal)), encIt o t iterKey l = .ok ms → encIt o t iterKey (sortIt l) = .ok (sortKV ms) := by
  intro l
  induction l with
  | nil =>
    intro ms h
    simp only [encIt] at h
    injection h with h; subst h
    rfl
  | cons e r ih =>
    intro ms h
    simp only [encIt] at h
    split at h
    · cases h
    · rename_i m he
      split at h
      · cases h
      · rename_i mr hr
        injection h with h; subst h
        simp only [sortIt, sortKV]
        exact encIt_insert he _ _ (ih mr hr)

theorem mem_insertIt {e x : GoVal × GoVal} : ∀ {l : Iter}, x ∈ insertIt e l ↔ x = e ∨ x ∈ l := by
  intro l
  induction l with
  | nil => simp [insertIt]
  | cons f r ih =>
    simp only [insertIt]
    split
    · simp
    · simp only [List.mem_cons, ih]
      constructor
      · rintro (h | h | h)
        · exact Or.inr (Or.inl h)
        · exact Or.inl h
        · exact Or.inr (Or.inr h)
      · rintro (h | h | h)
        · exact Or.inr (Or.inl h)
        · exact Or.inl h
        · exact Or.inr (Or.inr h)

theorem mem_sortIt {x : GoVal × GoVal} : ∀ {l : Iter}, x ∈ sortIt l ↔ x ∈ l := by
  intro l
  induction l with
  | nil => simp [sortIt]
  | cons e r ih => simp only [sortIt, mem_insertIt, ih, List.mem_cons]

theorem encIt_ok_of_all {t : GoType} {kt : GoVal × GoVal → Bytes} : ∀ (l : Iter), (∀ x ∈ l, ∃ m, entrySpec o t kt x = .ok m) → ∃ ms, encIt o t kt l = .ok ms := by
  intro l
  induction l with
  | nil => intro _; exact ⟨[], rfl⟩
  | cons e r ih =>
    intro h
    obtain ⟨m, hm⟩ := h e (by simp)
    obtain ⟨ms, hms⟩ := ih (fun x hx => h x (by simp [hx]))
    exact ⟨m :: ms, by simp only [encIt, hm, hms]⟩

theorem encIt_all_of_ok {t : GoType} {kt : GoVal × GoVal → Bytes} : ∀ (l : Iter) (ms : List (Bytes × JVal)), encIt o t kt l = .ok ms → ∀ x ∈ l, ∃ m, entrySpec o t kt x = .ok m := by
  intro l
  induction l with
  | nil => intro ms _ x hx; cases hx
  | cons e r ih =>
    intro ms h x hx
    simp only [encIt] at h
    split at h
    · cases h
    · rename_i m he
      split at h
      · cases h
      · rename_i mr hr
        rcases List.mem_cons.mp hx with hx | hx
        · subst hx; exact ⟨m, he⟩
        · exact ih mr hr x hx

/-- an error in the given order is an error in sorted order -/
theorem encIt_sort_err {t : GoType} {kt : GoVal × GoVal → Bytes} {l : Iter} {e : EErr} (h : encIt o t kt l = .error e) : ∃ e', encIt o t kt (sortIt l) = .error e' := by
  cases hs : encIt o t kt (sortIt l) with
  | error e' => exact ⟨e', rfl⟩
  | ok ms =>
    have hall := encIt_all_of_ok (sortIt l) ms hs
    obtain ⟨ms', hms'⟩ := encIt_ok_of_all (o := o) (t := t) (kt := kt) l (fun x hx => hall x (mem_sortIt.mpr hx))
    rw [hms'] at h; cases h


/-! ### the machine's side -/

/-- the member name literal body the machine writes for a key text -/
def qk (o : EncOpts) (m : Bytes × JVal) : Bytes × JVal := (quoteBody o.escapeHTML o.validateString m.1, m.2)

/-- the key's code (compileMapBodyKey) writes the literal of the key's text -/
theorem keyCode_ok {c0 : COpts} {k : GoType} {a : GoVal} {ks : Bytes} (hk : keySub k = true) (hC : Conf c0 k a = true) (hkt : keyText k a = some ks)
    {fpv : Bool} {P : Program} (q : Nat) (hat : At P q (keyCode k)) (r : Regs) (hg : r.p.get = some a) (st : Stack) (b : Bytes) (res : Res)
    (h : Halts o co fpv P (q + (keyCode k).length) r st (b ++ quoteLit o.escapeHTML o.validateString ks) res) :
    Halts o co fpv P q r st b res := by
  cases k <;> simp only [keySub] at hk <;> try (cases hk; done)
  all_goals (cases a <;> try (simp [Conf] at hC; done))
  case int.int bits n =>
    simp only [keyText] at hkt
    injection hkt with hkt; subst hkt
    simp only [keyCode] at hat h
    refine halts_step (hat.get 0 (by omega) rfl) (by simp only [step]; rfl) ?_
    have hop : step o (intOp bits) (q + 1) r st (b ++ [34]) = .next (q + 1 + 1) r st (b ++ [34] ++ intDec n) := by
      unfold intOp
      split
      · simp only [step, hg]
      · split
        · simp only [step, hg]
        · split <;> simp only [step, hg]
    refine halts_step (hat.get 1 (by omega) rfl) hop ?_
    refine halts_step (hat.get 2 (by omega) rfl) (by simp only [step]; rfl) ?_
    exact halts_cast h (by simp) rfl rfl (by simp [quoteLit, quoteBody_plain _ _ _ (intDec_plain n)])
  case uint.uint bits n =>
    simp only [keyText] at hkt
    injection hkt with hkt; subst hkt
    simp only [keyCode] at hat h
    refine halts_step (hat.get 0 (by omega) rfl) (by simp only [step]; rfl) ?_
    have hop : step o (uintOp bits) (q + 1) r st (b ++ [34]) = .next (q + 1 + 1) r st (b ++ [34] ++ natDec n) := by
      unfold uintOp
      split
      · simp only [step, hg]
      · split
        · simp only [step, hg]
        · split <;> simp only [step, hg]
    refine halts_step (hat.get 1 (by omega) rfl) hop ?_
    refine halts_step (hat.get 2 (by omega) rfl) (by simp only [step]; rfl) ?_
    exact halts_cast h (by simp) rfl rfl (by simp [quoteLit, quoteBody_plain _ _ _ (natDec_plain n)])
  case str.str x =>
    simp only [keyText] at hkt
    injection hkt with hkt; subst hkt
    simp only [keyCode] at hat h
    refine halts_step (hat.get 0 (by omega) rfl) (by simp only [step, hg]; rfl) ?_
    exact halts_cast h (by simp) rfl rfl rfl

/-- what the iterator shows for an entry: the rendered text (sorted) or the key itself (unsorted) -/
def KeyShown (o : EncOpts) (co : COpts) (k : GoType) (kt : GoVal × GoVal → Bytes) (e : GoVal × GoVal) : Prop :=
  (o.sortMapKeys = true ∧ e.1 = GoVal.str (kt e)) ∨ (o.sortMapKeys = false ∧ Conf co k e.1 = true ∧ keyText k e.1 = some (kt e))

/-- OP_map_write_key and the key's code: one of them writes the key -/
theorem key_ok {k : GoType} (hk : keySub k = true) {kt : GoVal × GoVal → Bytes} {e : GoVal × GoVal} (hsh : KeyShown o co k kt e)
    {fpv : Bool} {P : Program} (w : Nat) (hat : At P w ([Instr.mapWriteKey (w + 1 + (keyCode k).length)] ++ keyCode k))
    (r : Regs) (hg : r.p = .val e.1) (st : Stack) (b : Bytes) (res : Res)
    (h : Halts o co fpv P (w + 1 + (keyCode k).length) r st (b ++ quoteLit o.escapeHTML o.validateString (kt e)) res) :
    Halts o co fpv P w r st b res := by
  rcases hsh with ⟨hs, he⟩ | ⟨hs, hC, hkt⟩
  · exact halts_step (hat.get 0 (by omega) rfl) (by simp only [step, hs, if_true, hg, he, Cur.get]) h
  · refine halts_step (hat.get 0 (by omega) rfl) (by simp only [step, hs, Bool.false_eq_true, if_false]; rfl) ?_
    exact keyCode_ok hk hC hkt (w + 1) (At.right' hat (by simp)) r (by rw [hg]; rfl) st b res (halts_cast h (by omega) rfl rfl rfl)

/-- key, colon, value of one entry (compileMapBody: OP_map_write_key, the key's code, ':', OP_map_value_next, the value) -/
theorem entry_ok {k t : GoType} (hk : keySub k = true) {kt : GoVal × GoVal → Bytes} {fpv : Bool} {P : Program} {sp : Nat} {lv : Nat} {tab : List GoType} (hlv : libLeft tab ≤ lv) (w : Nat)
    (hat : At P w ([Instr.mapWriteKey (w + 1 + (keyCode k).length)] ++ keyCode k ++ [Instr.byte 58, Instr.mapValueNext] ++
      code co (libK co lv) tab (w + 1 + (keyCode k).length + 2) sp false t))
    (r0 : Regs) (ka val : GoVal) (rest : Iter) (hsh : KeyShown o co k kt (ka, val)) (st : Stack) (b : Bytes) (hroom : st.length + needV t val ≤ maxStack)
    (hv : CodeOK o co t val) :
    (∀ j, encV o false t val = .ok j → ∀ res,
        Halts o co fpv P (w + 1 + (keyCode k).length + 2 + (code co (libK co lv) tab (w + 1 + (keyCode k).length + 2) sp false t).length)
          { r0 with p := .val val, q := some rest } st (b ++ memb (quoteBody o.escapeHTML o.validateString (kt (ka, val)), j)) res →
        Halts o co fpv P w { r0 with p := .val ka, q := some ((ka, val) :: rest) } st b res) ∧
    (∀ e, encV o false t val = .error e → e = .unsupportedValue ∧
        Halts o co fpv P w { r0 with p := .val ka, q := some ((ka, val) :: rest) } st b (.error (.enc e))) := by
  have hK : At P w ([Instr.mapWriteKey (w + 1 + (keyCode k).length)] ++ keyCode k) := hat.left.left
  have hU : At P (w + 1 + (keyCode k).length) [Instr.byte 58, Instr.mapValueNext] := At.right' hat.left (by simp <;> omega)
  have hV : At P (w + 1 + (keyCode k).length + 2) (code co (libK co lv) tab (w + 1 + (keyCode k).length + 2) sp false t) :=
    At.right' hat (by simp <;> omega)
  obtain ⟨vok, verr⟩ := hv lv tab hlv false fpv P (w + 1 + (keyCode k).length + 2) sp false { r0 with p := .val val, q := some rest } st
    (b ++ quoteLit o.escapeHTML o.validateString (kt (ka, val)) ++ [58]) hV rfl hroom
  have key : ∀ res, Halts o co fpv P (w + 1 + (keyCode k).length + 2) { r0 with p := .val val, q := some rest } st
        (b ++ quoteLit o.escapeHTML o.validateString (kt (ka, val)) ++ [58]) res →
      Halts o co fpv P w { r0 with p := .val ka, q := some ((ka, val) :: rest) } st b res := by
    intro res h
    refine key_ok hk hsh w hK _ rfl st b res ?_
    refine halts_step (hU.get 0 (by omega) rfl) (by simp only [step]; rfl) ?_
    refine halts_step (hU.get 1 (by omega) rfl) (by simp only [step]; rfl) ?_
    exact halts_cast h (by omega) rfl rfl rfl
  constructor
  · intro j hj res h
    refine key res (vok j hj res ?_)
    exact halts_cast h rfl rfl rfl (by simp [memb, quoteLit])
  · intro e he
    obtain ⟨h1, h2⟩ := verr e he
    exact ⟨h1, key _ h2⟩

/-- the second loop of compileMapBody: entries `it` still to be visited, a comma before each -/
theorem mapLoop_ok {k t : GoType} (hk : keySub k = true) {kt : GoVal × GoVal → Bytes} {fpv : Bool} {P : Program} {sp : Nat} {j i : Nat} {lv : Nat} {tab : List GoType} (hlv : libLeft tab ≤ lv)
    (hj : At P j [Instr.mapCheckKey i, Instr.byte 44])
    (he : At P (j + 2) ([Instr.mapWriteKey (j + 2 + 1 + (keyCode k).length)] ++ keyCode k ++ [Instr.byte 58, Instr.mapValueNext] ++
      code co (libK co lv) tab (j + 2 + 1 + (keyCode k).length + 2) sp false t))
    (hg : At P (j + 2 + 1 + (keyCode k).length + 2 + (code co (libK co lv) tab (j + 2 + 1 + (keyCode k).length + 2) sp false t).length) [Instr.goto j])
    (r0 : Regs) (st : Stack) :
    ∀ (it : Iter), (∀ e ∈ it, KeyShown o co k kt e) → (∀ e ∈ it, CodeOK o co t e.2) → (∀ e ∈ it, st.length + needV t e.2 ≤ maxStack) →
      ∀ (c : Cur) (b : Bytes),
      (∀ ms, encIt o t kt it = .ok ms → ∀ res, (∀ rr, Halts o co fpv P i rr st (b ++ emitM false (ms.map (qk o))) res) →
          Halts o co fpv P j { r0 with p := c, q := some it } st b res) ∧
      (∀ e, encIt o t kt it = .error e → e = .unsupportedValue ∧
          Halts o co fpv P j { r0 with p := c, q := some it } st b (.error (.enc e))) := by
  intro it
  induction it with
  | nil =>
    intro _ _ _ c b
    constructor
    · intro ms hms res h
      simp only [encIt] at hms
      injection hms with hms; subst hms
      refine halts_step (hj.get 0 (by omega) rfl) (by simp only [step]; rfl) ?_
      exact halts_cast (h _) rfl rfl rfl (by simp [emitM])
    · intro e he; simp only [encIt] at he; cases he
  | cons e it ih =>
    intro hkeys hall hroom c b
    obtain ⟨ka, val⟩ := e
    have ih' := ih (fun x hx => hkeys x (by simp [hx])) (fun x hx => hall x (by simp [hx])) (fun x hx => hroom x (by simp [hx]))
    obtain ⟨eok, eerr⟩ := entry_ok (o := o) (co := co) hk (kt := kt) (fpv := fpv) (P := P) (sp := sp) hlv (j + 2) he r0 ka val it
      (hkeys (ka, val) (by simp)) st (b ++ [44]) (hroom (ka, val) (by simp)) (hall (ka, val) (by simp))
    have hcheck : ∀ bb, step o (Instr.mapCheckKey i) j { r0 with p := c, q := some ((ka, val) :: it) } st bb =
        .next (j + 1) { r0 with p := .val ka, q := some ((ka, val) :: it) } st bb := by
      intro bb; simp only [step]
    have pre : ∀ res, Halts o co fpv P (j + 2) { r0 with p := .val ka, q := some ((ka, val) :: it) } st (b ++ [44]) res →
        Halts o co fpv P j { r0 with p := c, q := some ((ka, val) :: it) } st b res := by
      intro res h
      refine halts_step (hj.get 0 (by omega) rfl) (hcheck _) ?_
      refine halts_step (hj.get 1 (by omega) rfl) (by simp only [step]; rfl) ?_
      exact halts_cast h (by omega) rfl rfl rfl
    constructor
    · intro ms hms res h
      simp only [encIt, entrySpec] at hms
      cases hv : encV o false t val with
      | error x => rw [hv] at hms; simp only [Except.map] at hms; cases hms
      | ok jv =>
        rw [hv] at hms
        simp only [Except.map] at hms
        split at hms
        · cases hms
        · rename_i mr hr
          injection hms with hms; subst hms
          refine pre res (eok jv hv res ?_)
          refine halts_step (hg.get 0 (by omega) rfl) (by simp only [step]; rfl) ?_
          refine (ih' (.val val) _).1 mr hr res (fun rr => ?_)
          exact halts_cast (h rr) rfl rfl rfl (by simp [emitM, qk])
    · intro e hms
      simp only [encIt, entrySpec] at hms
      cases hv : encV o false t val with
      | error x =>
        rw [hv] at hms
        simp only [Except.map] at hms
        injection hms with hms; subst hms
        obtain ⟨h1, h2⟩ := eerr _ hv
        exact ⟨h1, pre _ h2⟩
      | ok jv =>
        rw [hv] at hms
        simp only [Except.map] at hms
        split at hms
        · rename_i x hr
          injection hms with hms; subst hms
          obtain ⟨h1, h2⟩ := (ih' (.val val) (b ++ [44] ++ memb (quoteBody o.escapeHTML o.validateString (kt (ka, val)), jv))).2 _ hr
          refine ⟨h1, pre _ (eok jv hv _ ?_)⟩
          exact halts_step (hg.get 0 (by omega) rfl) (by simp only [step]) h2
        · cases hms

end SonicSpec.Ir
