/-
  Encoder IR, compiler correctness (8): string-keyed maps - the entries in iteration order against encM / sortKV /
  keyBodies, one entry, the second loop of compileMapBody.
-/
import SonicSpec.Proofs.IrStruct
namespace SonicSpec.Ir
open SonicSpec SonicSpec.Go SonicSpec.Enc SonicSpec.Json
variable {o : EncOpts} {co : COpts}

/-! ### the entries of a string-keyed map, in iteration order -/

/-- one entry as the specification sees it: (key text, value tree) -/
def entrySpec (o : EncOpts) (t : GoType) (e : GoVal × GoVal) : Except EErr (Bytes × JVal) :=
  (encV o false t e.2).map fun j => (iterKey e, j)

def encIt (o : EncOpts) (t : GoType) : Iter → Except EErr (List (Bytes × JVal))
  | [] => .ok []
  | e :: r =>
    match entrySpec o t e with
    | .error x => .error x
    | .ok m =>
      match encIt o t r with
      | .error x => .error x
      | .ok ms => .ok (m :: ms)

theorem encM_eq_encIt (t : GoType) : ∀ (kvs : List (GoVal × GoVal)), ConfM .str t kvs = true → encM o .str t kvs = encIt o t kvs := by
  intro kvs
  induction kvs with
  | nil => intro _; rfl
  | cons e r ih =>
    intro h
    obtain ⟨a, v⟩ := e
    simp only [ConfM, Bool.and_eq_true] at h
    cases a <;> try (simp [Conf] at h; done)
    rename_i ks
    simp only [encM, keyText, encIt, entrySpec, iterKey, ih h.2, bind, Except.bind, pure, Except.pure, Except.map]
    cases encV o false t v <;> simp only
    cases encIt o t r <;> rfl

theorem renderKeys_str (t : GoType) : ∀ (kvs : List (GoVal × GoVal)), ConfM .str t kvs = true → renderKeys .str kvs = some kvs := by
  intro kvs
  induction kvs with
  | nil => intro _; rfl
  | cons e r ih =>
    intro h
    obtain ⟨a, v⟩ := e
    simp only [ConfM, Bool.and_eq_true] at h
    cases a <;> try (simp [Conf] at h; done)
    simp only [renderKeys, keyText, ih h.2]

theorem entrySpec_key {t : GoType} {e : GoVal × GoVal} {m : Bytes × JVal} (h : entrySpec o t e = .ok m) : m.1 = iterKey e := by
  unfold entrySpec at h
  cases hv : encV o false t e.2 with
  | error x => rw [hv] at h; cases h
  | ok j => rw [hv] at h; simp only [Except.map] at h; injection h with h; subst h; rfl

theorem encIt_insert {t : GoType} {e : GoVal × GoVal} {m : Bytes × JVal} (he : entrySpec o t e = .ok m) :
    ∀ (l : Iter) (ms : List (Bytes × JVal)), encIt o t l = .ok ms → encIt o t (insertIt e l) = .ok (insertKV m ms) := by
  intro l
  induction l with
  | nil =>
    intro ms h
    simp only [encIt] at h
    injection h with h; subst h
    simp only [insertIt, insertKV, encIt, he]
  | cons f r ih =>
    intro ms h
    simp only [encIt] at h
    split at h
    · cases h
    · rename_i mf hf
      split at h
      · cases h
      · rename_i mr hr
        injection h with h; subst h
        simp only [insertIt, insertKV, entrySpec_key he, entrySpec_key hf]
        split
        · simp only [encIt, he, hf, hr]
        · simp only [encIt, hf, ih mr hr]

theorem encIt_sort {t : GoType} : ∀ (l : Iter) (ms : List (Bytes × JVal)), encIt o t l = .ok ms → encIt o t (sortIt l) = .ok (sortKV ms) := by
  intro l
  induction l with
  | nil =>
    intro ms h
    simp only [encIt] at h
    injection h with h; subst h
    rfl
  | cons e r ih =>
    intro ms h
    simp only [encIt] at h
    split at h
    · cases h
    · rename_i m he
      split at h
      · cases h
      · rename_i mr hr
        injection h with h; subst h
        simp only [sortIt, sortKV]
        exact encIt_insert he _ _ (ih mr hr)

theorem mem_insertIt {e x : GoVal × GoVal} : ∀ {l : Iter}, x ∈ insertIt e l ↔ x = e ∨ x ∈ l := by
  intro l
  induction l with
  | nil => simp [insertIt]
  | cons f r ih =>
    simp only [insertIt]
    split
    · simp
    · simp only [List.mem_cons, ih]
      constructor
      · rintro (h | h | h)
        · exact Or.inr (Or.inl h)
        · exact Or.inl h
        · exact Or.inr (Or.inr h)
      · rintro (h | h | h)
        · exact Or.inr (Or.inl h)
        · exact Or.inl h
        · exact Or.inr (Or.inr h)

theorem mem_sortIt {x : GoVal × GoVal} : ∀ {l : Iter}, x ∈ sortIt l ↔ x ∈ l := by
  intro l
  induction l with
  | nil => simp [sortIt]
  | cons e r ih => simp only [sortIt, mem_insertIt, ih, List.mem_cons]

theorem encIt_ok_of_all {t : GoType} : ∀ (l : Iter), (∀ x ∈ l, ∃ m, entrySpec o t x = .ok m) → ∃ ms, encIt o t l = .ok ms := by
  intro l
  induction l with
  | nil => intro _; exact ⟨[], rfl⟩
  | cons e r ih =>
    intro h
    obtain ⟨m, hm⟩ := h e (by simp)
    obtain ⟨ms, hms⟩ := ih (fun x hx => h x (by simp [hx]))
    exact ⟨m :: ms, by simp only [encIt, hm, hms]⟩

theorem encIt_all_of_ok {t : GoType} : ∀ (l : Iter) (ms : List (Bytes × JVal)), encIt o t l = .ok ms → ∀ x ∈ l, ∃ m, entrySpec o t x = .ok m := by
  intro l
  induction l with
  | nil => intro ms _ x hx; cases hx
  | cons e r ih =>
    intro ms h x hx
    simp only [encIt] at h
    split at h
    · cases h
    · rename_i m he
      split at h
      · cases h
      · rename_i mr hr
        rcases List.mem_cons.mp hx with hx | hx
        · subst hx; exact ⟨m, he⟩
        · exact ih mr hr x hx

/-- an error in the given order is an error in sorted order -/
theorem encIt_sort_err {t : GoType} {l : Iter} {e : EErr} (h : encIt o t l = .error e) : ∃ e', encIt o t (sortIt l) = .error e' := by
  cases hs : encIt o t (sortIt l) with
  | error e' => exact ⟨e', rfl⟩
  | ok ms =>
    have hall := encIt_all_of_ok (sortIt l) ms hs
    obtain ⟨ms', hms'⟩ := encIt_ok_of_all (o := o) (t := t) l (fun x hx => hall x (mem_sortIt.mpr hx))
    rw [hms'] at h; cases h


/-! ### the machine's side -/

/-- the member name literal body the machine writes for a key text -/
def qk (o : EncOpts) (m : Bytes × JVal) : Bytes × JVal := (quoteBody o.escapeHTML o.validateString m.1, m.2)

/-- key, colon, value of one entry (compileMapBody: OP_map_write_key, the key's code, ':', OP_map_value_next, the value) -/
theorem entry_ok {t : GoType} {fpv : Bool} {P : Program} {sp : Nat} (w : Nat)
    (hat : At P w ([Instr.mapWriteKey (w + 2), Instr.str, Instr.byte 58, Instr.mapValueNext] ++ code co (w + 4) sp false t))
    (r0 : Regs) (ks : Bytes) (val : GoVal) (rest : Iter) (st : Stack) (b : Bytes) (hroom : st.length + need t ≤ maxStack)
    (hv : CodeOK o co t val) :
    (∀ j, encV o false t val = .ok j → ∀ res,
        Halts o co fpv P (w + 4 + (code co (w + 4) sp false t).length) { r0 with p := .val val, q := some rest } st
          (b ++ memb (quoteBody o.escapeHTML o.validateString ks, j)) res →
        Halts o co fpv P w { r0 with p := .val (.str ks), q := some ((.str ks, val) :: rest) } st b res) ∧
    (∀ e, encV o false t val = .error e → e = .unsupportedValue ∧
        Halts o co fpv P w { r0 with p := .val (.str ks), q := some ((.str ks, val) :: rest) } st b (.error (.enc e))) := by
  have hA : At P w [Instr.mapWriteKey (w + 2), Instr.str, Instr.byte 58, Instr.mapValueNext] := hat.left
  have hV : At P (w + 4) (code co (w + 4) sp false t) := At.right' hat (by simp)
  obtain ⟨vok, verr⟩ := hv false fpv P (w + 4) sp false { r0 with p := .val val, q := some rest } st
    (b ++ quoteLit o.escapeHTML o.validateString ks ++ [58]) hV rfl hroom
  -- the key is written by OP_map_write_key (sorted) or by the key's code (unsorted)
  have key : ∀ res, Halts o co fpv P (w + 4) { r0 with p := .val val, q := some rest } st
        (b ++ quoteLit o.escapeHTML o.validateString ks ++ [58]) res →
      Halts o co fpv P w { r0 with p := .val (.str ks), q := some ((.str ks, val) :: rest) } st b res := by
    intro res h
    have tail : Halts o co fpv P (w + 2) { r0 with p := .val (.str ks), q := some ((.str ks, val) :: rest) } st
        (b ++ quoteLit o.escapeHTML o.validateString ks) res := by
      refine halts_step (hA.get 2 (by omega) rfl) (by simp only [step]; rfl) ?_
      refine halts_step (hA.get 3 (by omega) rfl) (by simp only [step]; rfl) ?_
      exact halts_cast h (by omega) rfl rfl rfl
    cases hsort : o.sortMapKeys with
    | true =>
      exact halts_step (hA.get 0 (by omega) rfl) (by simp only [step, hsort, if_true, Cur.get]) tail
    | false =>
      refine halts_step (hA.get 0 (by omega) rfl) (by simp only [step, hsort, Bool.false_eq_true, if_false]; rfl) ?_
      refine halts_step (hA.get 1 (by omega) rfl) (by simp only [step, Cur.get]; rfl) ?_
      exact halts_cast tail (by omega) rfl rfl rfl
  constructor
  · intro j hj res h
    refine key res (vok j hj res ?_)
    exact halts_cast h rfl rfl rfl (by simp [memb, quoteLit])
  · intro e he
    obtain ⟨h1, h2⟩ := verr e he
    exact ⟨h1, key _ h2⟩

/-- the second loop of compileMapBody: entries `it` still to be visited, a comma before each -/
theorem mapLoop_ok {t : GoType} {fpv : Bool} {P : Program} {sp : Nat} {j i : Nat}
    (hj : At P j [Instr.mapCheckKey i, Instr.byte 44])
    (he : At P (j + 2) ([Instr.mapWriteKey (j + 2 + 2), Instr.str, Instr.byte 58, Instr.mapValueNext] ++ code co (j + 2 + 4) sp false t))
    (hg : At P (j + 2 + 4 + (code co (j + 2 + 4) sp false t).length) [Instr.goto j])
    (r0 : Regs) (st : Stack) (hroom : st.length + need t ≤ maxStack) :
    ∀ (it : Iter), (∀ e ∈ it, ∃ ks, e.1 = GoVal.str ks) → (∀ e ∈ it, CodeOK o co t e.2) → ∀ (c : Cur) (b : Bytes),
      (∀ ms, encIt o t it = .ok ms → ∀ res, (∀ rr, Halts o co fpv P i rr st (b ++ emitM false (ms.map (qk o))) res) →
          Halts o co fpv P j { r0 with p := c, q := some it } st b res) ∧
      (∀ e, encIt o t it = .error e → e = .unsupportedValue ∧
          Halts o co fpv P j { r0 with p := c, q := some it } st b (.error (.enc e))) := by
  intro it
  induction it with
  | nil =>
    intro _ _ c b
    constructor
    · intro ms hms res h
      simp only [encIt] at hms
      injection hms with hms; subst hms
      refine halts_step (hj.get 0 (by omega) rfl) (by simp only [step]; rfl) ?_
      exact halts_cast (h _) rfl rfl rfl (by simp [emitM])
    · intro e he; simp only [encIt] at he; cases he
  | cons e it ih =>
    intro hkeys hall c b
    obtain ⟨k, val⟩ := e
    obtain ⟨ks, hks⟩ := hkeys (k, val) (by simp)
    simp only at hks
    subst hks
    have ih' := ih (fun x hx => hkeys x (by simp [hx])) (fun x hx => hall x (by simp [hx]))
    obtain ⟨eok, eerr⟩ := entry_ok (o := o) (co := co) (fpv := fpv) (P := P) (sp := sp) (j + 2) he r0 ks val it st (b ++ [44]) hroom
      (hall (.str ks, val) (by simp))
    have hcheck : ∀ bb, step o (Instr.mapCheckKey i) j { r0 with p := c, q := some ((GoVal.str ks, val) :: it) } st bb =
        .next (j + 1) { r0 with p := .val (.str ks), q := some ((GoVal.str ks, val) :: it) } st bb := by
      intro bb; simp only [step]
    have pre : ∀ res, Halts o co fpv P (j + 2) { r0 with p := .val (.str ks), q := some ((GoVal.str ks, val) :: it) } st (b ++ [44]) res →
        Halts o co fpv P j { r0 with p := c, q := some ((GoVal.str ks, val) :: it) } st b res := by
      intro res h
      refine halts_step (hj.get 0 (by omega) rfl) (hcheck _) ?_
      refine halts_step (hj.get 1 (by omega) rfl) (by simp only [step]; rfl) ?_
      exact halts_cast h (by omega) rfl rfl rfl
    constructor
    · intro ms hms res h
      simp only [encIt, entrySpec, iterKey] at hms
      cases hv : encV o false t val with
      | error x => rw [hv] at hms; simp only [Except.map] at hms; cases hms
      | ok jv =>
        rw [hv] at hms
        simp only [Except.map] at hms
        split at hms
        · cases hms
        · rename_i mr hr
          injection hms with hms; subst hms
          refine pre res (eok jv hv res ?_)
          refine halts_step (hg.get 0 (by omega) rfl) (by simp only [step]; rfl) ?_
          refine (ih' (.val val) _).1 mr hr res (fun rr => ?_)
          exact halts_cast (h rr) rfl rfl rfl (by simp [emitM, qk])
    · intro e hms
      simp only [encIt, entrySpec, iterKey] at hms
      cases hv : encV o false t val with
      | error x =>
        rw [hv] at hms
        simp only [Except.map] at hms
        injection hms with hms; subst hms
        obtain ⟨h1, h2⟩ := eerr _ hv
        exact ⟨h1, pre _ h2⟩
      | ok jv =>
        rw [hv] at hms
        simp only [Except.map] at hms
        split at hms
        · rename_i x hr
          injection hms with hms; subst hms
          obtain ⟨h1, h2⟩ := (ih' (.val val) (b ++ [44] ++ memb (quoteBody o.escapeHTML o.validateString ks, jv))).2 _ hr
          refine ⟨h1, pre _ (eok jv hv _ ?_)⟩
          exact halts_step (hg.get 0 (by omega) rfl) (by simp only [step]) h2
        · cases hms

end SonicSpec.Ir
