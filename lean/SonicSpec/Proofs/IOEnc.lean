/-
  C17 helper lemmas, part 3: the write loop of the stream encoder.  Core Lean only.
-/
import SonicSpec.Model.IO
set_option linter.unusedSimpArgs false
namespace SonicSpec.IO

/-- every `Write` accepts everything it is offered -/
def AllOk (ws : List WStep) : Prop := ∀ w ∈ ws, w = .ok
/-- no `Write` returns an error (short counts may occur) -/
def NoFail (ws : List WStep) : Prop := ∀ w ∈ ws, ∀ k, w ≠ .fail k

theorem writeAll_noFail (ws : List WStep) : ∀ b : Bytes, NoFail ws →
    (writeAll b ws).delivered = b ∧ (writeAll b ws).err = none := by
  induction ws with
  | nil => intro b _; simp [writeAll]
  | cons w ws ih =>
    intro b h
    have hws : NoFail ws := fun w' hw' => h w' (List.mem_cons_of_mem _ hw')
    cases w with
    | ok =>
      unfold writeAll
      by_cases hb : b.isEmpty = true
      · simp [hb]; simpa using hb
      · simp [hb]
    | short k =>
      unfold writeAll
      by_cases hb : b.isEmpty = true
      · simp [hb]; simpa using hb
      · have ⟨h1, h2⟩ := ih (b.drop k) hws
        simp [hb, h1, h2]
    | fail k => exact absurd rfl (h (.fail k) (List.mem_cons_self) k)

/-- whatever the writer does: no error reported only if everything was delivered, what was
    delivered is a prefix of what was offered, a reported writer error was really returned by the writer -/
theorem writeAll_sound (ws : List WStep) : ∀ b : Bytes,
    ((writeAll b ws).err = none → (writeAll b ws).delivered = b) ∧
    (writeAll b ws).delivered <+: b ∧
    ((writeAll b ws).err = some .writer → ∃ k, WStep.fail k ∈ ws) ∧
    (writeAll b ws).err ≠ some .shortWrite := by
  induction ws with
  | nil => intro b; simp [writeAll]
  | cons w ws ih =>
    intro b
    cases b with
    | nil => cases w <;> simp [writeAll]
    | cons x xs =>
      cases w with
      | ok => simp [writeAll]
      | short k =>
        have ⟨h1, h2, h3, h4⟩ := ih ((x :: xs).drop k)
        simp only [writeAll, List.isEmpty_cons, Bool.false_eq_true, if_false]
        refine ⟨?_, ?_, ?_, h4⟩
        · intro he; rw [h1 he]; simp
        · obtain ⟨t, ht⟩ := h2
          exact ⟨t, by rw [List.append_assoc, ht]; simp⟩
        · intro he; obtain ⟨k', hk'⟩ := h3 he; exact ⟨k', List.mem_cons_of_mem _ hk'⟩
      | fail k =>
        simp only [writeAll, List.isEmpty_cons, Bool.false_eq_true, if_false]
        refine ⟨by simp, List.take_prefix _ _, fun _ => ⟨k, List.mem_cons_self⟩, by simp⟩

theorem writeOnce_sound (b : Bytes) (ws : List WStep) :
    ((writeOnce b ws).err = none → (writeOnce b ws).delivered = b) ∧
    (writeOnce b ws).delivered <+: b ∧
    ((writeOnce b ws).err = some .writer → ∃ k, WStep.fail k ∈ ws) := by
  cases ws with
  | nil => simp [writeOnce]
  | cons w ws =>
    cases w with
    | ok => simp [writeOnce]
    | short k =>
      simp only [writeOnce]
      refine ⟨?_, List.take_prefix _ _, ?_⟩
      · intro h
        by_cases hk : k < b.length
        · simp [hk] at h
        · exact List.take_of_length_le (by omega)
      · intro h; split at h <;> simp at h
    | fail k =>
      simp only [writeOnce]
      exact ⟨by simp, List.take_prefix _ _, fun _ => ⟨k, List.mem_cons_self⟩⟩

end SonicSpec.IO
