/-
  C17 helper lemmas, part 6 (wave 2): the family of partially repaired decoders (Model/IOPatched.lean)
  with no repair switched on is the shipped decoder.  Core Lean only.
-/
import SonicSpec.Model.IOPatched
set_option linter.unusedSimpArgs false
namespace SonicSpec.IO

theorem Patched.failWith_none (st : DState) (e : RErr) : Patched.failWith {} st e = setErr st e.toTerminal := by
  simp [Patched.failWith]

theorem Patched.endSkip_none (st : DState) (s : Nat) (e : RErr) :
    Patched.endSkip {} st s e =
      match skipOneFast (st.buf.drop s) with
      | .ok y x => .ok st y x [] e
      | _ => .failed (setErr { st with scanp := st.buf.length } e.toTerminal) [] e := by
  unfold Patched.endSkip
  cases skipOneFast (st.buf.drop s) <;> simp [Patched.failWith]

/-- without any repair the family member is the shipped decoder -/
theorem Patched.frameLoop_none (s : Nat) (sc : Script) : ∀ (st : DState) (reskip : Bool) (f : RErr),
    Patched.frameLoop {} st s reskip sc f = Faithful.frameLoop st s reskip sc f := by
  induction sc with
  | nil =>
    intro st reskip f
    unfold Patched.frameLoop Faithful.frameLoop
    cases reskip with
    | true => simp only [if_true, Patched.endSkip_none]; cases skipOneFast (st.buf.drop s) <;> rfl
    | false => simp [Patched.failWith]
  | cons hd rest ih =>
    intro st reskip f
    obtain ⟨d, oe⟩ := hd
    unfold Patched.frameLoop Faithful.frameLoop
    generalize (if reskip = true then skipOneFast (List.drop s st.buf) else SkipRes.eof) = sk
    cases sk with
    | ok y x => simp
    | eof =>
      simp only [Bool.false_and, Bool.false_eq_true, if_false]
      cases oe with
      | none => simp only [ih]; rfl
      | some e =>
        simp only [Patched.endSkip_none, Patched.failWith_none]; rfl
    | inval =>
      simp only [Bool.false_and, Bool.false_eq_true, if_false]
      cases oe with
      | none => simp only [ih]; rfl
      | some e =>
        simp only [Patched.endSkip_none, Patched.failWith_none]; rfl

theorem Patched.decode_none {V : Type} (dec : Bytes → Option (V × Nat)) (st : DState) (sc : Script) (f : RErr) :
    Patched.decode dec {} st sc f = Faithful.decode dec st sc f := by
  unfold Patched.decode Faithful.decode
  simp only [Patched.frameLoop_none, Bool.false_eq_true, if_false]
  rfl

end SonicSpec.IO
