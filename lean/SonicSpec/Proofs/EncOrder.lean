/-
  Helper lemmas about order: the bytewise order on rendered map keys is a total preorder, the
  insertion sort of the specification returns a sorted permutation; which struct members are
  emitted, in which order.
-/
import SonicSpec.Model.Enc
namespace SonicSpec.Enc
open SonicSpec SonicSpec.Json SonicSpec.Go

theorem bytesLe_total : ∀ (a b : Bytes), bytesLe a b = true ∨ bytesLe b a = true := by
  intro a
  induction a with
  | nil => intro b; left; simp [bytesLe]
  | cons x xs ih =>
    intro b
    cases b with
    | nil => right; simp [bytesLe]
    | cons y ys =>
      simp only [bytesLe]
      by_cases h1 : x < y
      · simp [h1]
      · by_cases h2 : y < x
        · simp [h2]
        · simp only [h1, h2, if_false]
          exact ih ys

theorem bytesLe_trans : ∀ (a b c : Bytes), bytesLe a b = true → bytesLe b c = true → bytesLe a c = true := by
  intro a
  induction a with
  | nil => intro b c _ _; simp [bytesLe]
  | cons x xs ih =>
    intro b c hab hbc
    cases b with
    | nil => simp [bytesLe] at hab
    | cons y ys =>
      cases c with
      | nil => simp [bytesLe] at hbc
      | cons z zs =>
        simp only [bytesLe] at hab hbc ⊢
        by_cases hxy : x < y
        · by_cases hyz : y < z
          · have : x < z := UInt8.lt_trans hxy hyz
            simp [this]
          · by_cases hzy : z < y
            · simp [hyz, hzy] at hbc
            · have hyz' : y = z := UInt8.le_antisymm (UInt8.not_lt.mp hzy) (UInt8.not_lt.mp hyz)
              subst hyz'
              simp [hxy]
        · by_cases hyx : y < x
          · simp [hxy, hyx] at hab
          · have hxy' : x = y := UInt8.le_antisymm (UInt8.not_lt.mp hyx) (UInt8.not_lt.mp hxy)
            subst hxy'
            simp only [hxy, if_false] at hab
            by_cases hxz : x < z
            · simp [hxz]
            · by_cases hzx : z < x
              · simp [hxz, hzx] at hbc
              · simp only [hxz, hzx, if_false] at hbc ⊢
                exact ih ys zs hab hbc

theorem bytesLe_refl (a : Bytes) : bytesLe a a = true := by
  rcases bytesLe_total a a with h | h <;> exact h

/-- entries in non-decreasing bytewise order of their rendered keys -/
def SortedKV (l : List (Bytes × JVal)) : Prop := l.Pairwise fun a b => bytesLe a.1 b.1 = true

theorem insertKV_perm (e : Bytes × JVal) : ∀ (l : List (Bytes × JVal)), (insertKV e l).Perm (e :: l) := by
  intro l
  induction l with
  | nil => simp [insertKV]
  | cons f r ih =>
    simp only [insertKV]
    split
    · exact List.Perm.refl _
    · exact (List.Perm.cons f ih).trans (List.Perm.swap e f r)

theorem sortKV_perm : ∀ (l : List (Bytes × JVal)), (sortKV l).Perm l := by
  intro l
  induction l with
  | nil => simp [sortKV]
  | cons e r ih =>
    simp only [sortKV]
    exact (insertKV_perm e _).trans (List.Perm.cons e ih)

theorem insertKV_sorted (e : Bytes × JVal) : ∀ (l : List (Bytes × JVal)), SortedKV l → SortedKV (insertKV e l) := by
  intro l
  induction l with
  | nil => intro _; simp [insertKV, SortedKV]
  | cons f r ih =>
    intro h
    simp only [SortedKV, List.pairwise_cons] at h
    simp only [insertKV]
    split
    · rename_i hle
      simp only [SortedKV, List.pairwise_cons]
      refine ⟨?_, h.1, h.2⟩
      intro x hx
      rcases List.mem_cons.mp hx with hx | hx
      · subst hx; exact hle
      · exact bytesLe_trans _ _ _ hle (h.1 x hx)
    · rename_i hle
      have hfe : bytesLe f.1 e.1 = true := by
        rcases bytesLe_total e.1 f.1 with h' | h'
        · exact absurd h' hle
        · exact h'
      simp only [SortedKV, List.pairwise_cons]
      refine ⟨?_, ih h.2⟩
      intro x hx
      have := (insertKV_perm e r).mem_iff.mp hx
      rcases List.mem_cons.mp this with hx' | hx'
      · subst hx'; exact hfe
      · exact h.1 x hx'

theorem sortKV_sorted : ∀ (l : List (Bytes × JVal)), SortedKV (sortKV l) := by
  intro l
  induction l with
  | nil => simp [sortKV, SortedKV]
  | cons e r ih => exact insertKV_sorted e _ ih

/-! ### struct members -/

/-- the kept fields that survive `omitempty` / `omitzero` for the given values, in declaration order -/
def emitted : List (Option Field) → List GoVal → List Field
  | none :: fs, _ :: vs => emitted fs vs
  | some f :: fs, v :: vs =>
    if (f.omitEmpty && isEmptyV f.typ v) || (f.omitZero && isZeroV v) then emitted fs vs else f :: emitted fs vs
  | _, _ => []

/-- the kept fields, in declaration order -/
def kept : List (Option Field) → List Field
  | [] => []
  | none :: fs => kept fs
  | some f :: fs => f :: kept fs

theorem emitted_sublist : ∀ (ks : List (Option Field)) (vs : List GoVal), (emitted ks vs).Sublist (kept ks) := by
  intro ks
  induction ks with
  | nil => intro vs; simp [emitted, kept]
  | cons k r ih =>
    intro vs
    cases vs with
    | nil => cases k <;> simp [emitted]
    | cons v vs' =>
      cases k with
      | none => simpa [emitted, kept] using ih vs'
      | some f =>
        simp only [emitted, kept]
        split
        · exact (ih vs').cons _
        · exact (ih vs').cons_cons _

theorem encF_names {o : EncOpts} {addr : Bool} : ∀ (ks : List (Option Field)) (vs : List GoVal) (ms : List (Bytes × JVal)),
    encF o addr ks vs = .ok ms → ms.map (·.1) = (emitted ks vs).map fun f => nameKey o f.name := by
  intro ks
  induction ks with
  | nil => intro vs ms h; simp [encF] at h; subst h; simp [emitted]
  | cons k r ih =>
    intro vs ms h
    cases vs with
    | nil => cases k <;> (simp [encF] at h; subst h; simp [emitted])
    | cons v vs' =>
      cases k with
      | none => simp only [encF] at h; simpa [emitted] using ih vs' ms h
      | some f =>
        simp only [encF] at h
        simp only [emitted]
        split
        · rename_i hc; simp only [hc, if_true] at h; exact ih vs' ms h
        · rename_i hc
          simp only [hc, Bool.false_eq_true, if_false] at h
          have hb : ∀ {x : Except EErr JVal} {g : JVal → Except EErr (List (Bytes × JVal))},
              (x >>= g) = .ok ms → ∃ a, x = .ok a ∧ g a = .ok ms := by
            intro x g hh
            cases x with
            | error e => cases hh
            | ok a => exact ⟨a, rfl, hh⟩
          have fin : ∀ (j : JVal), (do let js ← encF o addr r vs'; pure ((nameKey o f.name, j) :: js)) = Except.ok ms →
              List.map (fun x => x.fst) ms = nameKey o f.name :: List.map (fun f => nameKey o f.name) (emitted r vs') := by
            intro j h2
            cases hr : encF o addr r vs' with
            | error e => simp [hr, bind, Except.bind] at h2
            | ok rs =>
              simp [hr, bind, Except.bind, pure, Except.pure] at h2
              subst h2
              simp [ih vs' rs hr]
          split at h
          · obtain ⟨j, _, h2⟩ := hb h
            simpa using fin j h2
          · obtain ⟨j, _, h2⟩ := hb h
            simpa using fin j h2

theorem keyBodies_values {o : EncOpts} {k : GoType} : ∀ (es ms : List (Bytes × JVal)),
    keyBodies o k es = .ok ms → ms.map (·.2) = es.map (·.2) := by
  intro es
  induction es with
  | nil => intro ms h; simp [keyBodies] at h; subst h; rfl
  | cons e r ih =>
    intro ms h
    obtain ⟨ks, j⟩ := e
    simp only [keyBodies] at h
    cases hb : keyBody o k ks with
    | error e => simp [hb, bind, Except.bind] at h
    | ok b =>
      cases hr : keyBodies o k r with
      | error e => simp [hb, hr, bind, Except.bind] at h
      | ok rs =>
        simp [hb, hr, bind, Except.bind, pure, Except.pure] at h
        subst h
        simp [ih rs hr]


end SonicSpec.Enc
