/-
  C16 - every node of the multi-node object runs the one-node system: projection of composite
  executions (helper lemmas).
-/
import SonicSpec.Proofs.RWThm
import SonicSpec.Model.RWMulti
namespace SonicSpec.RW

theorem run_append (pf : Bool) (s : State) (a b : List Nat) : run pf s (a ++ b) = run pf (run pf s a) b := by
  induction a generalizing s with
  | nil => rfl
  | cons x r ih => simp only [List.cons_append, run]; exact ih _

/-- each node's state is a reachable state of its own one-node system -/
def Projects (pf : Bool) (pss : List (List (Prog × List Bool))) (ms : MState) : Prop :=
  ∀ (n : Nat) (s : State), ms.nodes[n]? = some s → ∃ ps sc, pss[n]? = some ps ∧ s = run pf (State.init ps) sc

theorem projects_init (pf : Bool) (pss : List (List (Prog × List Bool))) : Projects pf pss (MState.init pss) := by
  unfold Projects
  intro n s hs
  simp only [MState.init, List.getElem?_map] at hs
  cases hp : pss[n]? with
  | none => rw [hp] at hs; cases hs
  | some ps =>
    rw [hp] at hs
    simp only [Option.map_some] at hs
    cases hs
    exact ⟨ps, [], rfl, rfl⟩

theorem projects_mstep {pf : Bool} {pss : List (List (Prog × List Bool))} {ms : MState} (topo : Nat → Nat)
    (h : Projects pf pss ms) (x : Nat × Nat) : Projects pf pss (mstep pf topo ms x) := by
  unfold mstep
  cases hn : ms.nodes[x.2]? with
  | none => exact h
  | some s =>
    simp only
    split
    · unfold Projects
      intro n s' hs'
      simp only at hs'
      rw [getElem?_set_ite hn] at hs'
      by_cases hx : x.2 = n
      · subst hx
        simp only [if_true] at hs'
        cases hs'
        obtain ⟨ps, sc, h1, h2⟩ := h x.2 s hn
        refine ⟨ps, sc ++ [x.1], h1, ?_⟩
        rw [run_append, ← h2]; rfl
      · simp only [hx, if_false] at hs'
        exact h n s' hs'
    · exact h

theorem projects_mrun {pf : Bool} {pss : List (List (Prog × List Bool))} (topo : Nat → Nat) {ms : MState}
    (h : Projects pf pss ms) (sched : List (Nat × Nat)) : Projects pf pss (mrun pf topo ms sched) := by
  induction sched generalizing ms with
  | nil => exact h
  | cons x r ih => exact ih (projects_mstep topo h x)

/-- every node of every reachable composite state satisfies the one-node invariant -/
theorem inv_composite {pf : Bool} (topo : Nat → Nat) (pss : List (List (Prog × List Bool)))
    (hs : ∀ ps ∈ pss, ∀ p ∈ ps, safe pf Abs.init p.1 = true) (sched : List (Nat × Nat)) :
    ∀ (n : Nat) (s : State), (mrun pf topo (MState.init pss) sched).nodes[n]? = some s → Inv pf s := by
  intro n s hn
  obtain ⟨ps, sc, h1, h2⟩ := projects_mrun topo (projects_init pf pss) sched n s hn
  rw [h2]
  exact inv_reachable ps (hs ps (List.mem_of_getElem? h1)) sc

/-! ### the descent: what a thread that may act on a child knows -/

theorem mem_takeWhile_pred {α} {p : α → Bool} : ∀ {l : List α} {x : α}, x ∈ l.takeWhile p → p x = true
  | [], _, h => by simp at h
  | a :: l, x, h => by
    simp only [List.takeWhile_cons] at h
    split at h
    · rcases List.mem_cons.mp h with rfl | h'
      · assumption
      · exact mem_takeWhile_pred h'
    · simp at h

theorem descended_split {par : State} {i : Nat} (h : descended par i = true) :
    ∃ l1 acc l2 st, par.sh.hist = l1 ++ acc :: l2 ∧ acc.tid = i ∧ acc.f = .c ∧ acc.wr = false ∧
      st ∈ l2 ∧ isStoreT st = true := by
  simp only [descended, Bool.and_eq_true, List.any_eq_true] at h
  obtain ⟨⟨st, hst, hstT⟩, acc, hacc, hq⟩ := h
  obtain ⟨l1, l1', htw⟩ := List.append_of_mem hacc
  have hsplit := List.takeWhile_append_dropWhile (p := fun a => !isStoreT a) (l := par.sh.hist)
  rw [htw] at hsplit
  simp only [isChildRead, Bool.and_eq_true, beq_iff_eq, Bool.not_eq_true'] at hq
  refine ⟨l1, acc, l1' ++ par.sh.hist.dropWhile (fun a => !isStoreT a), st, ?_, hq.1.1, hq.1.2, hq.2, ?_, hstT⟩
  · exact hsplit.symm.trans (by simp)
  · -- the store is not in the prefix (all of whose elements are not stores)
    have hmem : st ∈ (l1 ++ acc :: l1') ++ par.sh.hist.dropWhile (fun a => !isStoreT a) := by
      rw [hsplit]; exact hst
    rcases List.mem_append.mp hmem with hm | hm
    · have : st ∈ par.sh.hist.takeWhile (fun a => !isStoreT a) := by rw [htw]; exact hm
      have := mem_takeWhile_pred this
      simp [hstT] at this
    · exact List.mem_append_right _ hm

/-- PUBLICATION.  In a state satisfying the invariant, a thread that has descended (read a child
    slot after the release-store) has every write to the memory behind `p` made by another thread -
    the creation of the children: their container, their slots, their initial fields and mutexes -
    in its happens-before set; and the node is published (`t` non-raw). -/
theorem creation_in_hb {pf : Bool} {par : State} {i : Nat} {th : Th} (hI : Inv pf par)
    (hd : descended par i = true) (hth : par.ths[i]? = some th) :
    par.sh.t ≠ .raw ∧ ∀ b ∈ par.sh.hist, b.f = .c → b.wr = true → b.tid ≠ i → b.id ∈ th.hb := by
  have hG := hI.1
  obtain ⟨l1, acc, l2, st, hh, hai, haf, haw, hst2, hstT⟩ := descended_split hd
  have hstT' : (st.f == .t && st.wr && st.atomic) = true := hstT
  constructor
  · intro ht
    have := hG.rawNoStore ht st (by rw [hh]; exact List.mem_append_right _ (List.mem_cons_of_mem _ hst2))
    rw [this] at hstT'; cases hstT'
  · intro b hb hbf hbw hbi
    rw [hh] at hb
    have hord := hG.ordered
    have hnw := hG.noWriteAfterStore
    rw [hh] at hord hnw
    rcases List.mem_append.mp hb with hb1 | hb1
    · -- newer than the descent read, hence newer than the store: not a write
      have := (List.pairwise_append.mp hnw).2.2 b hb1 st (List.mem_cons_of_mem _ hst2) hstT'
      rw [this] at hbw; cases hbw
    · rcases List.mem_cons.mp hb1 with rfl | hb2
      · rw [haw] at hbw; cases hbw
      · have hrel := (List.pairwise_cons.mp (List.pairwise_append.mp hord).2.1).1 b hb2
        have hacc_mem : acc ∈ par.sh.hist := by rw [hh]; exact List.mem_append_right _ List.mem_cons_self
        have hna : acc.atomic = false := by
          cases hx : acc.atomic
          · rfl
          · have := hG.atomicT acc hacc_mem hx; rw [haf] at this; cases this
        apply hrel _ th (by rw [hai]; exact hth)
        simp [conflict, hbf, haf, hbw, hna, hai, hbi]

end SonicSpec.RW
