/-
  The single-pass decoder (`Stream`) against the parse-then-bind specification (`Bind`).
-/
import SonicSpec.Proofs.Bind
import SonicSpec.Proofs.U8
open SonicSpec SonicSpec.Go SonicSpec.Json SonicSpec.Bind

namespace SonicSpec.Stream

theorem isHex_ne (c : UInt8) : isHex c = true → c ≠ 34 ∧ c ≠ 92 := by
  revert c
  apply forall_uint8
  decide +kernel

theorem skipStringB_cons (c : UInt8) (r : Bytes) (h1 : c ≠ 34) (h2 : c ≠ 92) :
    skipStringB (c :: r) = (skipStringB r).map fun (b, t) => (c :: b, t) := by
  rw [skipStringB]
  · simp [h2]
  · intro h; exact h1 h
  · intro e r' h _; exact h2 h

/-- the structural string scanner accepts every literal the strict scanner accepts, with the same split -/
theorem skipStringB_of_scanString : ∀ (r b t : Bytes), scanString r = some (b, t) → skipStringB r = some (b, t) := by
  intro r
  induction r using scanString.induct with
  | case1 => intro b t h; simp [scanString] at h
  | case2 r => intro b t h; simp [scanString] at h; simp [skipStringB, h]
  | case3 a b c d r hhex ih =>
    intro b' t h
    rw [scanString] at h
    simp only [hhex, if_true] at h
    cases hs : scanString r with
    | none => simp [hs] at h
    | some p =>
      obtain ⟨b0, t0⟩ := p
      simp only [hs, Option.map_some] at h
      cases h
      have := ih _ _ hs
      simp only [Bool.and_eq_true] at hhex
      obtain ⟨⟨⟨ha, hb⟩, hc⟩, hd⟩ := hhex
      rw [skipStringB, skipStringB_cons a _ (isHex_ne a ha).1 (isHex_ne a ha).2,
        skipStringB_cons b _ (isHex_ne b hb).1 (isHex_ne b hb).2,
        skipStringB_cons c _ (isHex_ne c hc).1 (isHex_ne c hc).2,
        skipStringB_cons d _ (isHex_ne d hd).1 (isHex_ne d hd).2, this]
      rfl
  | case4 a b c d r hhex =>
    intro b' t h
    rw [scanString] at h
    simp [hhex] at h
  | case5 e r hne hesc ih =>
    intro b' t h
    rw [scanString] at h
    · simp only [hesc, if_true] at h
      cases hs : scanString r with
      | none => simp [hs] at h
      | some p =>
        obtain ⟨b0, t0⟩ := p
        simp only [hs, Option.map_some] at h
        cases h
        rw [skipStringB, ih _ _ hs]
        rfl
    · exact hne
  | case6 e r hne hesc =>
    intro b' t h
    rw [scanString] at h
    · simp [hesc] at h
    · exact hne
  | case7 c r h1 h2 h3 hbad =>
    intro b' t h
    rw [scanString] at h
    · simp [hbad] at h
    · exact h1
    · exact h2
    · exact h3
  | case8 c r h1 h2 h3 hok ih =>
    intro b' t h
    rw [scanString] at h
    · simp only [hok] at h
      cases hs : scanString r with
      | none => simp [hs] at h
      | some p =>
        obtain ⟨b0, t0⟩ := p
        simp [hs] at h
        obtain ⟨hb, ht⟩ := h
        subst hb; subst ht
        have hc92 : c ≠ 92 := by
          intro hc; apply hok; simp [hc]
        rw [skipStringB_cons c r h1 hc92, ih _ _ hs]
        rfl
    · exact h1
    · exact h2
    · exact h3


theorem skipStr_of_scanString (strict : Bool) (r b t : Bytes) (h : scanString r = some (b, t)) :
    skipStr strict r = some (b, t) := by
  unfold skipStr
  cases strict
  · simpa using skipStringB_of_scanString r b t h
  · simpa using h

/-- the skipper accepts every value the strict parser accepts and stops at the same place -/
theorem skip_of_parse (strict : Bool) : ∀ n : Nat,
    (∀ s v r, parseR n s = some (v, r) → skipVal strict n s = some r) ∧
    (∀ s xs r, parseRElems n s = some (xs, r) → skipElems strict n s = some r) ∧
    (∀ s kvs r, parseRMembers n s = some (kvs, r) → skipMembers strict n s = some r) := by
  intro n
  induction n with
  | zero =>
    refine ⟨?_, ?_, ?_⟩ <;> intro s v r h <;> simp [parseR, parseRElems, parseRMembers] at h
  | succ n ih =>
    obtain ⟨ihV, ihE, ihM⟩ := ih
    refine ⟨?_, ?_, ?_⟩
    · intro s v r h
      unfold parseR at h
      split at h
      · cases h; rw [skipVal]
      · cases h; rw [skipVal]
      · cases h; rw [skipVal]
      · rename_i r0
        cases hs : scanString r0 with
        | none => simp [hs] at h
        | some p =>
          obtain ⟨b, t⟩ := p
          simp only [hs] at h
          cases hu : unquote b with
          | none => simp [hu] at h
          | some u =>
            simp only [hu] at h
            cases h
            rw [skipVal, skipStr_of_scanString strict _ _ _ hs]; rfl
      · rename_i r0
        split at h
        · rename_i t ht
          cases h
          rw [skipVal]; simp [ht]
        · rename_i r' hr'
          cases he : parseRElems n (skipWs r0) with
          | none => simp [he] at h
          | some p =>
            obtain ⟨xs, t⟩ := p
            simp only [he, Option.map_some] at h
            cases h
            rw [skipVal]
            split
            · rename_i t' ht'; exact absurd ht' (hr' t')
            · exact ihE _ _ _ he
      · rename_i r0
        split at h
        · rename_i t ht
          cases h
          rw [skipVal]; simp [ht]
        · rename_i r' hr'
          cases he : parseRMembers n (skipWs r0) with
          | none => simp [he] at h
          | some p =>
            obtain ⟨xs, t⟩ := p
            simp only [he, Option.map_some] at h
            cases h
            rw [skipVal]
            split
            · rename_i t' ht'; exact absurd ht' (hr' t')
            · exact ihM _ _ _ he
      · cases hn : scanNumber s with
        | none => simp [hn] at h
        | some p =>
          obtain ⟨l, t⟩ := p
          simp only [hn, Option.map_some] at h
          cases h
          rw [skipVal]
          · simp [hn]
          all_goals (intro r' hc; subst hc; simp_all)
    · intro s xs r h
      unfold parseRElems at h
      rw [skipElems]
      cases hv : parseR n s with
      | none => simp [hv] at h
      | some p =>
        obtain ⟨v, r1⟩ := p
        simp only [hv] at h
        simp only [ihV _ _ _ hv]
        split at h
        · rename_i t ht
          cases he : parseRElems n (skipWs t) with
          | none => simp [he] at h
          | some q =>
            obtain ⟨ys, t'⟩ := q
            simp only [he, Option.map_some] at h
            cases h
            simp [ht, ihE _ _ _ he]
        · rename_i t ht
          cases h
          simp [ht]
        · cases h
    · intro s kvs r h
      unfold parseRMembers at h
      split at h
      · rename_i r0
        cases hs : scanString r0 with
        | none => simp [hs] at h
        | some p =>
          obtain ⟨k, r1⟩ := p
          simp only [hs] at h
          split at h
          · rename_i r2 hr2
            cases hu : unquote k with
            | none => simp [hu] at h
            | some key =>
              simp only [hu] at h
              cases hv : parseR n (skipWs r2) with
              | none => simp [hv] at h
              | some q =>
                obtain ⟨v, r3⟩ := q
                simp only [hv] at h
                rw [skipMembers]
                simp only [skipStr_of_scanString strict _ _ _ hs, hr2, ihV _ _ _ hv]
                split at h
                · rename_i t ht
                  cases he : parseRMembers n (skipWs t) with
                  | none => simp [he] at h
                  | some q2 =>
                    obtain ⟨ys, t'⟩ := q2
                    simp only [he, Option.map_some] at h
                    cases h
                    simp [ht, ihM _ _ _ he]
                · rename_i t ht
                  cases h
                  simp [ht]
                · cases h
          · cases h
      · cases h

/-! ### tokens that need no induction -/

theorem ptrBase_ne_ptr : ∀ (T t : GoType), ptrBase T ≠ .ptr t
  | .ptr u, t => by rw [ptrBase]; exact ptrBase_ne_ptr u t
  | .bool, _ | .int _, _ | .uint _, _ | .f32, _ | .f64, _ | .str, _ | .num, _ | .bytes, _ | .raw, _ | .any, _
  | .sl _, _ | .arr _ _, _ | .map _ _, _ | .st _, _ | .lib _, _ => by simp [ptrBase]

theorem scanNumber_head (s : Bytes) (p : Bytes × Bytes) (h : scanNumber s = some p) :
    ∃ c r, s = c :: r ∧ (c = 45 ∨ isDigit c = true) := by
  cases s with
  | nil => simp [scanNumber] at h
  | cons c r =>
    refine ⟨c, r, rfl, ?_⟩
    by_cases hc : c = 45
    · exact Or.inl hc
    · right
      by_cases hd : isDigit c = true
      · exact hd
      · exfalso
        have h48 : c ≠ 48 := by
          intro h0; subst h0; exact hd (by decide)
        unfold scanNumber at h
        simp [hc, h48, hd] at h

theorem numHead_facts : ∀ c : UInt8, (c = 45 ∨ isDigit c = true) →
    c ≠ 34 ∧ c ≠ 91 ∧ c ≠ 123 ∧ c ≠ 116 ∧ c ≠ 102 ∧ c ≠ 110 := by
  apply forall_uint8
  decide +kernel

theorem tok_num (s : Bytes) (p : Bytes × Bytes) (h : scanNumber s = some p) :
    tok s = .other ∧ boolLit s = none ∧ isNullLit s = none := by
  obtain ⟨c, r, rfl, hc⟩ := scanNumber_head s p h
  obtain ⟨h1, h2, h3, h4, h5, h6⟩ := numHead_facts c hc
  refine ⟨?_, ?_, ?_⟩
  · rw [tok] <;> (intros; simp_all)
  · rw [boolLit] <;> (intros; simp_all)
  · rw [isNullLit]; (intros; simp_all)

theorem isNullLit_str (r : Bytes) : isNullLit (34 :: r) = none := rfl
theorem isNullLit_arr (r : Bytes) : isNullLit (91 :: r) = none := rfl
theorem isNullLit_obj (r : Bytes) : isNullLit (123 :: r) = none := rfl
theorem isNullLit_true (r : Bytes) : isNullLit (116 :: r) = none := rfl
theorem isNullLit_false (r : Bytes) : isNullLit (102 :: r) = none := rfl
theorem tok_str (r : Bytes) : tok (34 :: r) = .str r := rfl
theorem tok_arr (r : Bytes) : tok (91 :: r) = .arr r := rfl
theorem tok_obj (r : Bytes) : tok (123 :: r) = .obj r := rfl
theorem tok_true (r : Bytes) : tok (116 :: r) = .lit := rfl
theorem tok_false (r : Bytes) : tok (102 :: r) = .lit := rfl
theorem boolLit_true (r : Bytes) : boolLit (116 :: 114 :: 117 :: 101 :: r) = some (true, r) := rfl
theorem boolLit_false (r : Bytes) : boolLit (102 :: 97 :: 108 :: 115 :: 101 :: r) = some (false, r) := rfl
theorem boolLit_str (r : Bytes) : boolLit (34 :: r) = none := rfl
theorem boolLit_arr (r : Bytes) : boolLit (91 :: r) = none := rfl
theorem boolLit_obj (r : Bytes) : boolLit (123 :: r) = none := rfl

/-- shape of the statements: the stream decoder returns what the binder computes, and stops where the parser stopped -/
def Agree {α : Type} (res : Res α) (b : α × Option DErr) (r : Bytes) : Prop := res = .ok (b.1, b.2, r)

theorem decode_null (o : DecOpts) (n : Nat) (T : GoType) (r : Bytes) (cur : GoVal) :
    Agree (decodeVal o (n+1) T (110 :: 117 :: 108 :: 108 :: r) cur) (bindVal o .null T cur) r := by
  unfold Agree; rw [decodeVal, bindVal]; rfl

theorem decode_bool (o : DecOpts) (n : Nat) (T : GoType) (s r : Bytes) (b : Bool) (cur : GoVal)
    (hp : parseR (n+1) s = some (.bool b, r)) (hb : boolLit s = some (b, r)) (hn : isNullLit s = none) (ht : tok s = .lit) :
    Agree (decodeVal o (n+1) T s cur) (bindVal o (.bool b) T cur) r := by
  unfold Agree
  have hsk : ∀ strict, skipVal strict (n+1) s = some r := fun strict => (skip_of_parse strict (n+1)).1 _ _ _ hp
  rw [decodeVal]
  simp only [hn]
  rw [bindVal]
  cases hB : ptrBase T <;> simp only [storeBool, skipMismatch, hsk, hb, ht, decodeAny, hp, toAny, rawSkip, Option.map_some, boolText]
  all_goals (first | rfl | exact absurd hB (ptrBase_ne_ptr _ _))

theorem decode_str (o : DecOpts) (n : Nat) (T : GoType) (r0 b u t : Bytes) (cur : GoVal)
    (hs : scanString r0 = some (b, t)) (hu : unquote b = some u) :
    Agree (decodeVal o (n+1) T (34 :: r0) cur) (bindVal o (.str b u) T cur) t := by
  unfold Agree
  have hp : parseR (n+1) (34 :: r0) = some (.str b u, t) := by rw [parseR]; simp [hs, hu]
  have hsk : ∀ strict, skipVal strict (n+1) (34 :: r0) = some t := fun strict => (skip_of_parse strict (n+1)).1 _ _ _ hp
  rw [decodeVal]
  simp only [isNullLit_str]
  rw [bindVal]
  cases hB : ptrBase T <;> simp only [storeString, skipMismatch, hsk, hs, hu, decodeAny, hp, toAny, rawSkip, Option.map_some, tok_str, boolLit_str]
  all_goals (first | rfl | exact absurd hB (ptrBase_ne_ptr _ _) | skip)
  -- `[]uint8` takes base64 text, any other slice is a mismatch
  rename_i t'
  split
  · rfl
  · rename_i hne
    split <;> first | rfl | (rename_i h; cases h <;> exact absurd rfl hne)

theorem decode_num (o : DecOpts) (n : Nat) (T : GoType) (s l t : Bytes) (cur : GoVal)
    (hs : scanNumber s = some (l, t)) (hp : parseR (n+1) s = some (.num l, t)) :
    Agree (decodeVal o (n+1) T s cur) (bindVal o (.num l) T cur) t := by
  unfold Agree
  obtain ⟨ht, hb, hn⟩ := tok_num s _ hs
  have hsk : ∀ strict, skipVal strict (n+1) s = some t := fun strict => (skip_of_parse strict (n+1)).1 _ _ _ hp
  rw [decodeVal]
  simp only [hn]
  rw [bindVal]
  cases hB : ptrBase T <;> simp only [storeNumber, skipMismatch, hsk, hs, hb, ht, decodeAny, hp, toAny, rawSkip, Option.map_some]
  all_goals (first | rfl | exact absurd hB (ptrBase_ne_ptr _ _))

/-! ### helpers for the containers -/

theorem decodeQuoted_agrees (o : DecOpts) (n : Nat) (T : GoType) (s r : Bytes) (v : RVal) (cur : GoVal)
    (h : parseR n s = some (v, r)) : Agree (decodeQuoted o n T s cur) (bindQuoted o v T cur) r := by
  unfold Agree
  cases n with
  | zero => simp [parseR] at h
  | succ n =>
    have hsk : skipVal true (n+1) s = some r := (skip_of_parse true (n+1)).1 _ _ _ h
    have h0 := h
    unfold parseR at h
    split at h
    · cases h; simp [decodeQuoted, isNullLit, bindQuoted]
    · cases h; simp [decodeQuoted, isNullLit_true, tok_true, hsk, bindQuoted]
    · cases h; simp [decodeQuoted, isNullLit_false, tok_false, hsk, bindQuoted]
    · rename_i r0
      cases hs : scanString r0 with
      | none => simp [hs] at h
      | some p =>
        obtain ⟨b, t⟩ := p
        simp only [hs] at h
        cases hu : unquote b with
        | none => simp [hu] at h
        | some u =>
          simp only [hu] at h
          cases h
          simp [decodeQuoted, isNullLit_str, tok_str, hs, hu]
    · rename_i r0
      have : ∃ raw xs, v = .arr raw xs := by
        split at h
        · cases h; exact ⟨_, _, rfl⟩
        · cases he : parseRElems n (skipWs r0) with
          | none => simp [he] at h
          | some p => simp [he] at h; obtain ⟨hv, _⟩ := h; exact ⟨_, _, hv.symm⟩
      obtain ⟨raw, xs, rfl⟩ := this
      simp [decodeQuoted, isNullLit_arr, tok_arr, hsk, bindQuoted]
    · rename_i r0
      have : ∃ raw xs, v = .obj raw xs := by
        split at h
        · cases h; exact ⟨_, _, rfl⟩
        · cases he : parseRMembers n (skipWs r0) with
          | none => simp [he] at h
          | some p => simp [he] at h; obtain ⟨hv, _⟩ := h; exact ⟨_, _, hv.symm⟩
      obtain ⟨raw, xs, rfl⟩ := this
      simp [decodeQuoted, isNullLit_obj, tok_obj, hsk, bindQuoted]
    · cases hn : scanNumber s with
      | none => simp [hn] at h
      | some p =>
        obtain ⟨l, t⟩ := p
        simp only [hn, Option.map_some] at h
        cases h
        obtain ⟨ht, hb, hnl⟩ := tok_num s _ hn
        simp [decodeQuoted, hnl, ht, hsk, bindQuoted]

theorem bindElems_zero (o : DecOpts) (xs : List RVal) (t : GoType) (curs : List GoVal) :
    bindElems o xs t curs (some 0) = ([], none) := by
  cases xs <;> simp [bindElems]

theorem bindStruct_nofields (o : DecOpts) (kvs : List (Bytes × RVal)) (vs : List GoVal) (hne : kvs ≠ []) :
    bindStruct o kvs [] vs = (vs, if o.disallowUnknown then some .unknownField else none) := by
  induction kvs with
  | nil => exact absurd rfl hne
  | cons kv rest ih =>
    obtain ⟨k, x⟩ := kv
    cases rest with
    | nil => cases hd : o.disallowUnknown <;> simp [bindStruct, lookupField, merge, hd]
    | cons kv2 rest2 =>
      have := ih (by simp)
      rw [bindStruct]
      simp only [lookupField, List.isEmpty_nil, if_true, this]
      cases o.disallowUnknown <;> simp [merge]

/-! ### containers, given the agreement on their parts -/

theorem decode_arr_empty (o : DecOpts) (n : Nat) (T : GoType) (r0 t : Bytes) (cur : GoVal)
    (ht : skipWs r0 = 93 :: t) :
    Agree (decodeVal o (n+1) T (91 :: r0) cur) (bindVal o (.arr (consumed (91 :: r0) t) []) T cur) t := by
  unfold Agree
  have hp : parseR (n+1) (91 :: r0) = some (.arr (consumed (91 :: r0) t) [], t) := by rw [parseR]; simp [ht]
  have hsk : ∀ strict, skipVal strict (n+1) (91 :: r0) = some t := fun strict => (skip_of_parse strict (n+1)).1 _ _ _ hp
  rw [decodeVal]
  simp only [isNullLit_arr]
  rw [bindVal]
  cases hB : ptrBase T <;> simp only [skipMismatch, hsk, ht, decodeAny, hp, toAny, anyElems, bindElems, rawSkip, Option.map_some, tok_arr, boolLit_arr, toBytes, List.map_nil, List.length_nil, Nat.sub_zero, List.nil_append]
  all_goals (first | rfl | exact absurd hB (ptrBase_ne_ptr _ _))

theorem decode_arr_cons (o : DecOpts) (n : Nat) (T : GoType) (r0 t : Bytes) (xs : List RVal) (cur : GoVal)
    (hne : ∀ t', skipWs r0 = 93 :: t' → False)
    (hx : parseRElems n (skipWs r0) = some (xs, t))
    (hE : ∀ ty curs lim, decodeElems o n ty (skipWs r0) curs lim = .ok ((bindElems o xs ty curs lim).1, (bindElems o xs ty curs lim).2, t)) :
    Agree (decodeVal o (n+1) T (91 :: r0) cur) (bindVal o (.arr (consumed (91 :: r0) t) xs) T cur) t := by
  unfold Agree
  have hp : parseR (n+1) (91 :: r0) = some (.arr (consumed (91 :: r0) t) xs, t) := by
    rw [parseR]
    split
    · rename_i t' ht'; exact absurd ht' (hne t')
    · simp [hx]
  have hsk : ∀ strict, skipVal strict (n+1) (91 :: r0) = some t := fun strict => (skip_of_parse strict (n+1)).1 _ _ _ hp
  have hm : ∀ {α : Type} (a : Bytes → α) (b : Bytes → α),
      (match skipWs r0 with | 93 :: t' => a t' | r' => b r') = b (skipWs r0) := by
    intro α a b
    split
    · rename_i t' ht'; exact absurd ht' (hne t')
    · rfl
  rw [decodeVal]
  simp only [isNullLit_arr]
  rw [bindVal]
  cases hB : ptrBase T <;> simp only [skipMismatch, hsk, hm, hE, decodeAny, hp, toAny, rawSkip, Option.map_some, tok_arr, boolLit_arr]
  all_goals (first | rfl | exact absurd hB (ptrBase_ne_ptr _ _))

theorem decode_obj_empty (o : DecOpts) (n : Nat) (T : GoType) (r0 t : Bytes) (cur : GoVal)
    (ht : skipWs r0 = 125 :: t) :
    Agree (decodeVal o (n+1) T (123 :: r0) cur) (bindVal o (.obj (consumed (123 :: r0) t) []) T cur) t := by
  unfold Agree
  have hp : parseR (n+1) (123 :: r0) = some (.obj (consumed (123 :: r0) t) [], t) := by rw [parseR]; simp [ht]
  have hsk : ∀ strict, skipVal strict (n+1) (123 :: r0) = some t := fun strict => (skip_of_parse strict (n+1)).1 _ _ _ hp
  rw [decodeVal]
  simp only [isNullLit_obj]
  rw [bindVal]
  cases hB : ptrBase T <;> simp only [skipMismatch, hsk, ht, decodeAny, hp, toAny, anyMembers, bindStruct, bindMap, rawSkip, Option.map_some, tok_obj, boolLit_obj]
  all_goals (first | rfl | exact absurd hB (ptrBase_ne_ptr _ _) | skip)
  · split <;> rfl

theorem parseRMembers_ne_nil (n : Nat) (s r : Bytes) (kvs : List (Bytes × RVal)) (h : parseRMembers n s = some (kvs, r)) : kvs ≠ [] := by
  cases n with
  | zero => simp [parseRMembers] at h
  | succ n =>
    unfold parseRMembers at h
    split at h
    · split at h
      · cases h
      · split at h
        · split at h
          · cases h
          · split at h
            · cases h
            · split at h
              · simp at h
                obtain ⟨a, _, ha⟩ := h
                rw [← ha]; simp
              · cases h; simp
              · cases h
        · cases h
    · cases h

theorem decode_obj_cons (o : DecOpts) (n : Nat) (T : GoType) (r0 t : Bytes) (kvs : List (Bytes × RVal)) (cur : GoVal)
    (hne : ∀ t', skipWs r0 = 125 :: t' → False)
    (hx : parseRMembers n (skipWs r0) = some (kvs, t))
    (hS : ∀ fields vs, decodeStruct o n fields (skipWs r0) vs = .ok ((bindStruct o kvs fields vs).1, (bindStruct o kvs fields vs).2, t))
    (hM : ∀ K E acc, decodeMap o n K E (skipWs r0) acc = .ok ((bindMap o kvs K E acc).1, (bindMap o kvs K E acc).2, t)) :
    Agree (decodeVal o (n+1) T (123 :: r0) cur) (bindVal o (.obj (consumed (123 :: r0) t) kvs) T cur) t := by
  unfold Agree
  have hp : parseR (n+1) (123 :: r0) = some (.obj (consumed (123 :: r0) t) kvs, t) := by
    rw [parseR]
    split
    · rename_i t' ht'; exact absurd ht' (hne t')
    · simp [hx]
  have hsk : ∀ strict, skipVal strict (n+1) (123 :: r0) = some t := fun strict => (skip_of_parse strict (n+1)).1 _ _ _ hp
  have hskm : ∀ strict, skipMembers strict n (skipWs r0) = some t := fun strict => (skip_of_parse strict n).2.2 _ _ _ hx
  have hkne := parseRMembers_ne_nil _ _ _ _ hx
  rw [decodeVal]
  simp only [isNullLit_obj]
  rw [bindVal]
  cases hB : ptrBase T <;> simp only [skipMismatch, hsk, hS, hM, decodeAny, hp, toAny, rawSkip, Option.map_some, tok_obj, boolLit_obj]
  all_goals (first | rfl | exact absurd hB (ptrBase_ne_ptr _ _) | skip)
  · split <;> rfl
  · rename_i fs
    by_cases hE : (resolveFields fs).isEmpty = true
    · have hnil : resolveFields fs = [] := List.isEmpty_iff.mp hE
      simp only [hskm, hnil, bindStruct_nofields o kvs _ hkne]
      simp
    · simp only [hE]
      rfl

/-! ### the induction -/

theorem merge_none_right (e : Option DErr) : merge e none = e := by
  cases e with
  | none => rfl
  | some d => cases d <;> rfl

/-- what one member does to a struct (one step of `bindStruct`) -/
def memberRes (o : DecOpts) (fields : List Field) (vs : List GoVal) (key : Bytes) (x : RVal) : List GoVal × Option DErr :=
  match lookupField fields o.caseSensitive key with
  | .outside => (vs, some .outside)
  | .missing => (vs, if o.disallowUnknown then some .unknownField else none)
  | .found f =>
    ((vs.set f.idx (if f.quoted then bindQuoted o x f.ty (vs.getD f.idx (zeroOf f.ty)) else bindVal o x f.ty (vs.getD f.idx (zeroOf f.ty))).1),
     (if f.quoted then bindQuoted o x f.ty (vs.getD f.idx (zeroOf f.ty)) else bindVal o x f.ty (vs.getD f.idx (zeroOf f.ty))).2)

theorem bindStruct_cons (o : DecOpts) (fields : List Field) (vs : List GoVal) (key : Bytes) (x : RVal) (kvs : List (Bytes × RVal)) :
    bindStruct o ((key, x) :: kvs) fields vs =
      ((bindStruct o kvs fields (memberRes o fields vs key x).1).1,
       merge (memberRes o fields vs key x).2 (bindStruct o kvs fields (memberRes o fields vs key x).1).2) := by
  rw [bindStruct]
  unfold memberRes
  cases lookupField fields o.caseSensitive key with
  | outside => rfl
  | missing => rfl
  | found f => cases f.quoted <;> rfl

/-- what one member does to a map (one step of `bindMap`) -/
def entryRes (o : DecOpts) (K E : GoType) (acc : List (GoVal × GoVal)) (key : Bytes) (x : RVal) : List (GoVal × GoVal) × Option DErr :=
  match bindKey K key with
  | .key kv => (mapSet acc kv (bindVal o x E (zeroOf E)).1, (bindVal o x E (zeroOf E)).2)
  | _ => (acc, merge (bindVal o x E (zeroOf E)).2 (some .mismatch))

theorem bindMap_cons (o : DecOpts) (K E : GoType) (acc : List (GoVal × GoVal)) (key : Bytes) (x : RVal) (kvs : List (Bytes × RVal)) :
    bindMap o ((key, x) :: kvs) K E acc =
      ((bindMap o kvs K E (entryRes o K E acc key x).1).1,
       merge (entryRes o K E acc key x).2 (bindMap o kvs K E (entryRes o K E acc key x).1).2) := by
  rw [bindMap]
  unfold entryRes
  cases bindKey K key <;> rfl

/-- on every document the strict parser accepts, the single-pass decoder computes exactly what the binder
    computes from the parsed tree, and stops at the same byte -/
theorem stream_agrees (o : DecOpts) : ∀ n : Nat,
    (∀ s v r, parseR n s = some (v, r) → ∀ T cur, Agree (decodeVal o n T s cur) (bindVal o v T cur) r) ∧
    (∀ s xs r, parseRElems n s = some (xs, r) → ∀ t curs lim, Agree (decodeElems o n t s curs lim) (bindElems o xs t curs lim) r) ∧
    (∀ s kvs r, parseRMembers n s = some (kvs, r) → ∀ fields vs, Agree (decodeStruct o n fields s vs) (bindStruct o kvs fields vs) r) ∧
    (∀ s kvs r, parseRMembers n s = some (kvs, r) → ∀ K E acc, Agree (decodeMap o n K E s acc) (bindMap o kvs K E acc) r) := by
  intro n
  induction n with
  | zero =>
    refine ⟨?_, ?_, ?_, ?_⟩ <;> intro s v r h <;> simp [parseR, parseRElems, parseRMembers] at h
  | succ n ih =>
    obtain ⟨ihV, ihE, ihS, ihM⟩ := ih
    refine ⟨?_, ?_, ?_, ?_⟩
    · intro s v r h T cur
      have h0 := h
      unfold parseR at h
      split at h
      · cases h; exact decode_null ..
      · cases h; exact decode_bool o n T _ _ true cur h0 (boolLit_true _) (isNullLit_true _) (tok_true _)
      · cases h; exact decode_bool o n T _ _ false cur h0 (boolLit_false _) (isNullLit_false _) (tok_false _)
      · rename_i r0
        cases hs : scanString r0 with
        | none => simp [hs] at h
        | some p =>
          obtain ⟨b, t⟩ := p
          simp only [hs] at h
          cases hu : unquote b with
          | none => simp [hu] at h
          | some u =>
            simp only [hu] at h
            cases h
            exact decode_str o n T r0 b u _ cur hs hu
      · rename_i r0
        split at h
        · rename_i t ht
          cases h
          exact decode_arr_empty o n T r0 _ cur ht
        · rename_i r' hr'
          cases he : parseRElems n (skipWs r0) with
          | none => simp [he] at h
          | some p =>
            obtain ⟨xs, t⟩ := p
            simp only [he, Option.map_some] at h
            cases h
            exact decode_arr_cons o n T r0 _ xs cur hr' he (fun ty curs lim => ihE _ _ _ he ty curs lim)
      · rename_i r0
        split at h
        · rename_i t ht
          cases h
          exact decode_obj_empty o n T r0 _ cur ht
        · rename_i r' hr'
          cases he : parseRMembers n (skipWs r0) with
          | none => simp [he] at h
          | some p =>
            obtain ⟨xs, t⟩ := p
            simp only [he, Option.map_some] at h
            cases h
            exact decode_obj_cons o n T r0 _ xs cur hr' he (fun f vs => ihS _ _ _ he f vs) (fun K E acc => ihM _ _ _ he K E acc)
      · cases hn : scanNumber s with
        | none => simp [hn] at h
        | some p =>
          obtain ⟨l, t⟩ := p
          simp only [hn, Option.map_some] at h
          cases h
          exact decode_num o n T s l _ cur hn h0
    · intro s xs r h t curs lim
      unfold Agree
      unfold parseRElems at h
      cases hv : parseR n s with
      | none => simp [hv] at h
      | some p =>
        obtain ⟨v, r1⟩ := p
        simp only [hv] at h
        have hV := ihV _ _ _ hv t (curs.headD (zeroOf t))
        unfold Agree at hV
        have hsk : ∀ strict, skipVal strict n s = some r1 := fun strict => (skip_of_parse strict n).1 _ _ _ hv
        rw [decodeElems]
        by_cases hl : (lim == some 0) = true
        · have hl' : lim = some 0 := by simpa using hl
          subst hl'
          simp only [beq_self_eq_true, if_true, hsk, bindElems_zero]
          split at h
          · rename_i t' ht
            cases he : parseRElems n (skipWs t') with
            | none => simp [he] at h
            | some q =>
              obtain ⟨ys, t''⟩ := q
              simp only [he, Option.map_some] at h
              cases h
              have hE := ihE _ _ _ he t curs (some 0)
              unfold Agree at hE
              simp only [ht, hE, bindElems_zero]
          · rename_i t' ht
            cases h
            simp only [ht]
          · cases h
        · simp only [hl, hV]
          split at h
          · rename_i t' ht
            cases he : parseRElems n (skipWs t') with
            | none => simp [he] at h
            | some q =>
              obtain ⟨ys, t''⟩ := q
              simp only [he, Option.map_some] at h
              cases h
              have hE := ihE _ _ _ he t curs.tail (lim.map (· - 1))
              unfold Agree at hE
              simp only [ht, hE]
              rw [bindElems]
              simp only [hl]
              rfl
          · rename_i t' ht
            cases h
            simp only [ht]
            rw [bindElems]
            simp only [hl, bindElems, merge_none_right]
            rfl
          · cases h
    · intro s kvs r h fields vs
      unfold Agree
      unfold parseRMembers at h
      split at h
      · rename_i r0
        cases hs : scanString r0 with
        | none => simp [hs] at h
        | some p =>
          obtain ⟨k, r1⟩ := p
          simp only [hs] at h
          split at h
          · rename_i r2 hr2
            cases hu : unquote k with
            | none => simp [hu] at h
            | some key =>
              simp only [hu] at h
              cases hv : parseR n (skipWs r2) with
              | none => simp [hv] at h
              | some q =>
                obtain ⟨v, r3⟩ := q
                simp only [hv] at h
                have hsk : ∀ strict, skipVal strict n (skipWs r2) = some r3 := fun strict => (skip_of_parse strict n).1 _ _ _ hv
                rw [decodeStruct]
                simp only [hs, hr2, hu]
                have hVq : ∀ f : Field, decodeVal o n f.ty (skipWs r2) (vs.getD f.idx (zeroOf f.ty)) =
                    .ok ((bindVal o v f.ty (vs.getD f.idx (zeroOf f.ty))).1, (bindVal o v f.ty (vs.getD f.idx (zeroOf f.ty))).2, r3) :=
                  fun f => ihV _ _ _ hv f.ty _
                have hQq : ∀ f : Field, decodeQuoted o n f.ty (skipWs r2) (vs.getD f.idx (zeroOf f.ty)) =
                    .ok ((bindQuoted o v f.ty (vs.getD f.idx (zeroOf f.ty))).1, (bindQuoted o v f.ty (vs.getD f.idx (zeroOf f.ty))).2, r3) :=
                  fun f => decodeQuoted_agrees o n f.ty _ _ _ _ hv
                split at h
                · rename_i t' ht
                  cases he : parseRMembers n (skipWs t') with
                  | none => simp [he] at h
                  | some q2 =>
                    obtain ⟨ys, t''⟩ := q2
                    simp only [he, Option.map_some] at h
                    cases h
                    have hS : ∀ vs', decodeStruct o n fields (skipWs t') vs' =
                        .ok ((bindStruct o ys fields vs').1, (bindStruct o ys fields vs').2, _) := fun vs' => ihS _ _ _ he fields vs'
                    rw [bindStruct_cons]
                    unfold memberRes
                    cases hl : lookupField fields o.caseSensitive key with
                    | outside => simp only [hsk, ht, hS]
                    | missing => simp only [hsk, ht, hS]
                    | found f =>
                      cases hq : f.quoted
                      · simp only [hq, Bool.false_eq_true, if_false, hVq, ht, hS]
                      · simp only [hq, if_true, hQq, ht, hS]
                · rename_i t' ht
                  cases h
                  rw [bindStruct_cons]
                  unfold memberRes
                  cases hl : lookupField fields o.caseSensitive key with
                  | outside => simp only [hsk, ht, bindStruct, merge_none_right]
                  | missing => simp only [hsk, ht, bindStruct, merge_none_right]
                  | found f =>
                    cases hq : f.quoted
                    · simp only [hq, Bool.false_eq_true, if_false, hVq, ht, bindStruct, merge_none_right]
                    · simp only [hq, if_true, hQq, ht, bindStruct, merge_none_right]
                · cases h
          · cases h
      · cases h
    · intro s kvs r h K E acc
      unfold Agree
      unfold parseRMembers at h
      split at h
      · rename_i r0
        cases hs : scanString r0 with
        | none => simp [hs] at h
        | some p =>
          obtain ⟨k, r1⟩ := p
          simp only [hs] at h
          split at h
          · rename_i r2 hr2
            cases hu : unquote k with
            | none => simp [hu] at h
            | some key =>
              simp only [hu] at h
              cases hv : parseR n (skipWs r2) with
              | none => simp [hv] at h
              | some q =>
                obtain ⟨v, r3⟩ := q
                simp only [hv] at h
                rw [decodeMap]
                simp only [hs, hr2, hu]
                have hVq : decodeVal o n E (skipWs r2) (zeroOf E) =
                    .ok ((bindVal o v E (zeroOf E)).1, (bindVal o v E (zeroOf E)).2, r3) := ihV _ _ _ hv E _
                split at h
                · rename_i t' ht
                  cases he : parseRMembers n (skipWs t') with
                  | none => simp [he] at h
                  | some q2 =>
                    obtain ⟨ys, t''⟩ := q2
                    simp only [he, Option.map_some] at h
                    cases h
                    have hM : ∀ acc', decodeMap o n K E (skipWs t') acc' =
                        .ok ((bindMap o ys K E acc').1, (bindMap o ys K E acc').2, _) := fun acc' => ihM _ _ _ he K E acc'
                    rw [bindMap_cons]
                    unfold entryRes
                    cases hk : bindKey K key <;> simp only [hVq, ht, hM]
                · rename_i t' ht
                  cases h
                  rw [bindMap_cons]
                  unfold entryRes
                  cases hk : bindKey K key <;> simp only [hVq, ht, bindMap, merge_none_right]
                · cases h
          · cases h
      · cases h


/-- whole documents: on every document the strict grammar accepts the two decoders return the same
    value and the same first error -/
theorem decodeFull_eq (o : DecOpts) (T : GoType) (s : Bytes) (j : RVal) (h : parseRDoc s = some j) :
    decodeFull o T s = .ok (Bind.decodeFull o T s) := by
  unfold parseRDoc at h
  cases hp : parseR (s.length + 1) (skipWs s) with
  | none => simp [hp] at h
  | some p =>
    obtain ⟨v, r⟩ := p
    simp only [hp] at h
    have hA := (stream_agrees o (s.length + 1)).1 _ _ _ hp T (zeroOf T)
    unfold Agree at hA
    unfold decodeFull Bind.decodeFull parseRDoc
    simp only [hA, hp]
    split at h
    · rename_i he
      cases h
      simp [he]
    · cases h

theorem decode_eq (o : DecOpts) (T : GoType) (s : Bytes) (j : RVal) (h : parseRDoc s = some j) :
    decode o T s = Bind.decode o T s := by
  unfold decode Bind.decode
  rw [decodeFull_eq o T s j h]
  cases hb : Bind.decodeFull o T s with
  | mk v e => cases e <;> rfl

/-! ### the other direction: whatever the single pass walks over, the structural skipper accepts -/

theorem skipStr_mono (strict : Bool) (r b t : Bytes) (h : skipStr strict r = some (b, t)) : skipStr false r = some (b, t) := by
  cases strict
  · exact h
  · unfold skipStr at h ⊢
    simp only [if_true] at h
    simp only [Bool.false_eq_true, if_false]
    exact skipStringB_of_scanString r b t h

/-- whatever the strict skipper accepts, the structural skipper accepts, stopping at the same byte -/
theorem skip_mono (strict : Bool) : ∀ n : Nat,
    (∀ s r, skipVal strict n s = some r → skipVal false n s = some r) ∧
    (∀ s r, skipElems strict n s = some r → skipElems false n s = some r) ∧
    (∀ s r, skipMembers strict n s = some r → skipMembers false n s = some r) := by
  intro n
  induction n with
  | zero =>
    refine ⟨?_, ?_, ?_⟩ <;> intro s r h <;> simp [skipVal, skipElems, skipMembers] at h
  | succ n ih =>
    obtain ⟨ihV, ihE, ihM⟩ := ih
    refine ⟨?_, ?_, ?_⟩
    · intro s r h
      unfold skipVal at h
      split at h
      · cases h; rw [skipVal]
      · cases h; rw [skipVal]
      · cases h; rw [skipVal]
      · rename_i r0
        cases hs : skipStr strict r0 with
        | none => simp [hs] at h
        | some p =>
          obtain ⟨b, t⟩ := p
          simp only [hs, Option.map_some] at h
          cases h
          rw [skipVal, skipStr_mono strict _ _ _ hs]; rfl
      · rename_i r0
        split at h
        · rename_i t ht
          cases h
          rw [skipVal]; simp [ht]
        · rename_i r' hr'
          rw [skipVal]
          split
          · rename_i t' ht'; exact absurd ht' (hr' t')
          · exact ihE _ _ h
      · rename_i r0
        split at h
        · rename_i t ht
          cases h
          rw [skipVal]; simp [ht]
        · rename_i r' hr'
          rw [skipVal]
          split
          · rename_i t' ht'; exact absurd ht' (hr' t')
          · exact ihM _ _ h
      · cases hn : scanNumber s with
        | none => simp [hn] at h
        | some p =>
          obtain ⟨l, t⟩ := p
          simp only [hn, Option.map_some] at h
          cases h
          rw [skipVal]
          · simp [hn]
          all_goals (intro r' hc; subst hc; simp_all)
    · intro s r h
      unfold skipElems at h
      rw [skipElems]
      cases hv : skipVal strict n s with
      | none => simp [hv] at h
      | some r1 =>
        simp only [hv] at h
        simp only [ihV _ _ hv]
        split at h
        · rename_i t ht
          simp [ht, ihE _ _ h]
        · rename_i t ht
          cases h
          simp [ht]
        · cases h
    · intro s r h
      unfold skipMembers at h
      split at h
      · rename_i r0
        cases hs : skipStr strict r0 with
        | none => simp [hs] at h
        | some p =>
          obtain ⟨k, r1⟩ := p
          simp only [hs] at h
          split at h
          · rename_i r2 hr2
            cases hv : skipVal strict n (skipWs r2) with
            | none => simp [hv] at h
            | some r3 =>
              simp only [hv] at h
              rw [skipMembers]
              simp only [skipStr_mono strict _ _ _ hs, hr2, ihV _ _ hv]
              split at h
              · rename_i t ht
                simp [ht, ihM _ _ h]
              · rename_i t ht
                cases h
                simp [ht]
              · cases h
          · cases h
      · cases h

theorem tok_str_inv (s r0 : Bytes) (h : tok s = .str r0) : s = 34 :: r0 := by
  unfold tok at h
  split at h <;> first | (cases h; rfl) | cases h
theorem tok_arr_inv (s r0 : Bytes) (h : tok s = .arr r0) : s = 91 :: r0 := by
  unfold tok at h
  split at h <;> first | (cases h; rfl) | cases h
theorem tok_obj_inv (s r0 : Bytes) (h : tok s = .obj r0) : s = 123 :: r0 := by
  unfold tok at h
  split at h <;> first | (cases h; rfl) | cases h
theorem isNullLit_inv (s r : Bytes) (h : isNullLit s = some r) : s = 110 :: 117 :: 108 :: 108 :: r := by
  unfold isNullLit at h
  split at h <;> first | (cases h; rfl) | cases h
theorem boolLit_inv (s r : Bytes) (b : Bool) (h : boolLit s = some (b, r)) :
    s = 116 :: 114 :: 117 :: 101 :: r ∨ s = 102 :: 97 :: 108 :: 115 :: 101 :: r := by
  unfold boolLit at h
  split at h
  · cases h; exact Or.inl rfl
  · cases h; exact Or.inr rfl
  · cases h

theorem skipVal_true (strict : Bool) (n : Nat) (r : Bytes) : skipVal strict (n+1) (116 :: 114 :: 117 :: 101 :: r) = some r := by
  rw [skipVal]
theorem skipVal_false (strict : Bool) (n : Nat) (r : Bytes) : skipVal strict (n+1) (102 :: 97 :: 108 :: 115 :: 101 :: r) = some r := by
  rw [skipVal]
theorem skipVal_null (strict : Bool) (n : Nat) (r : Bytes) : skipVal strict (n+1) (110 :: 117 :: 108 :: 108 :: r) = some r := by
  rw [skipVal]

theorem skipVal_boolLit (strict : Bool) (n : Nat) (s r : Bytes) (b : Bool) (h : boolLit s = some (b, r)) :
    skipVal strict (n+1) s = some r := by
  rcases boolLit_inv s r b h with h | h <;> subst h
  · exact skipVal_true ..
  · exact skipVal_false ..

theorem skipVal_num (strict : Bool) (n : Nat) (s l t : Bytes) (h : scanNumber s = some (l, t)) :
    skipVal strict (n+1) s = some t := by
  obtain ⟨c, r, rfl, hc⟩ := scanNumber_head s _ h
  obtain ⟨h1, h2, h3, h4, h5, h6⟩ := numHead_facts c hc
  rw [skipVal]
  · simp [h]
  all_goals (intros; simp_all)

theorem skipVal_str (n : Nat) (r0 b t : Bytes) (h : scanString r0 = some (b, t)) :
    skipVal false (n+1) (34 :: r0) = some t := by
  rw [skipVal, skipStr_of_scanString false _ _ _ h]; rfl

theorem skipMismatch_ok (strict : Bool) (n : Nat) (T : GoType) (s : Bytes) (cur : GoVal) (d : DErr) (v : GoVal) (e : Option DErr) (r : Bytes)
    (h : skipMismatch strict n T s cur d = .ok (v, e, r)) : skipVal false n s = some r := by
  unfold skipMismatch at h
  cases hs : skipVal strict n s with
  | none => simp [hs] at h
  | some r' =>
    simp only [hs] at h
    cases h
    exact (skip_mono strict n).1 _ _ hs

theorem skipVal_arr (n : Nat) (r0 r : Bytes)
    (h : skipWs r0 = 93 :: r ∨ ((∀ t', skipWs r0 = 93 :: t' → False) ∧ skipElems false n (skipWs r0) = some r)) :
    skipVal false (n+1) (91 :: r0) = some r := by
  rw [skipVal]
  rcases h with h | ⟨hne, h⟩
  · simp [h]
  · split
    · rename_i t' ht'; exact absurd ht' (hne t')
    · exact h

theorem skipVal_obj (n : Nat) (r0 r : Bytes)
    (h : skipWs r0 = 125 :: r ∨ ((∀ t', skipWs r0 = 125 :: t' → False) ∧ skipMembers false n (skipWs r0) = some r)) :
    skipVal false (n+1) (123 :: r0) = some r := by
  rw [skipVal]
  rcases h with h | ⟨hne, h⟩
  · simp [h]
  · split
    · rename_i t' ht'; exact absurd ht' (hne t')
    · exact h


theorem decodeAny_ok (o : DecOpts) (n : Nat) (s : Bytes) (g : GoVal) (e : Option DErr) (r : Bytes)
    (h : decodeAny o n s = .ok (g, e, r)) : skipVal false n s = some r := by
  unfold decodeAny at h
  cases hp : parseR n s with
  | none => simp [hp] at h
  | some p =>
    obtain ⟨v, r'⟩ := p
    simp only [hp] at h
    cases h
    exact (skip_of_parse false n).1 _ _ _ hp

theorem rawSkip_ok (strict : Bool) (n : Nat) (s txt r : Bytes)
    (h : rawSkip strict (n+1) s = some (txt, r)) : skipVal false (n+1) s = some r := by
  unfold rawSkip at h
  split at h
  · rename_i r0 ht
    have := tok_str_inv _ _ ht; subst this
    cases hs : scanString r0 with
    | none => simp [hs] at h
    | some p => obtain ⟨b, t⟩ := p; simp [hs] at h; rw [← h.2]; exact skipVal_str n r0 b t hs
  · cases hs : skipVal strict (n+1) s with
    | none => simp [hs] at h
    | some t => simp [hs] at h; rw [← h.2]; exact (skip_mono strict (n+1)).1 _ _ hs
  · cases hs : skipVal strict (n+1) s with
    | none => simp [hs] at h
    | some t => simp [hs] at h; rw [← h.2]; exact (skip_mono strict (n+1)).1 _ _ hs
  · cases hb : boolLit s with
    | none => simp [hb] at h
    | some p => obtain ⟨b, t⟩ := p; simp [hb] at h; rw [← h.2]; exact skipVal_boolLit false n s t b hb
  · cases hs : scanNumber s with
    | none => simp [hs] at h
    | some p => obtain ⟨l, t⟩ := p; simp [hs] at h; rw [← h.2]; exact skipVal_num false n s l t hs

theorem decodeQuoted_ok (o : DecOpts) (n : Nat) (T : GoType) (s : Bytes) (cur v : GoVal) (e : Option DErr) (r : Bytes)
    (h : decodeQuoted o n T s cur = .ok (v, e, r)) : skipVal false n s = some r := by
  cases n with
  | zero => simp [decodeQuoted] at h
  | succ n =>
    rw [decodeQuoted] at h
    split at h
    · rename_i r' hn
      cases h
      rw [isNullLit_inv _ _ hn]; exact skipVal_null ..
    · split at h
      · rename_i r0 ht
        have := tok_str_inv _ _ ht; subst this
        cases hs : scanString r0 with
        | none => simp [hs] at h
        | some p =>
          obtain ⟨b, t⟩ := p
          simp only [hs] at h
          cases hu : unquote b with
          | none => simp [hu] at h
          | some u =>
            simp only [hu] at h
            cases h
            exact skipVal_str n r0 b _ hs
      · cases hs : skipVal true (n+1) s with
        | none => simp [hs] at h
        | some t =>
          simp only [hs] at h
          cases h
          exact (skip_mono true (n+1)).1 _ _ hs

/-- whatever the single-pass decoder accepts, the structural skipper accepts, stopping at the same byte -/
theorem stream_ok_structural (o : DecOpts) : ∀ n : Nat,
    (∀ T s cur v e r, decodeVal o n T s cur = .ok (v, e, r) → skipVal false n s = some r) ∧
    (∀ t s curs lim vs e r, decodeElems o n t s curs lim = .ok (vs, e, r) → skipElems false n s = some r) ∧
    (∀ fields s vs0 vs e r, decodeStruct o n fields s vs0 = .ok (vs, e, r) → skipMembers false n s = some r) ∧
    (∀ K E s acc res e r, decodeMap o n K E s acc = .ok (res, e, r) → skipMembers false n s = some r) := by
  intro n
  induction n with
  | zero =>
    refine ⟨?_, ?_, ?_, ?_⟩ <;> intros <;> simp_all [decodeVal, decodeElems, decodeStruct, decodeMap]
  | succ n ih =>
    obtain ⟨ihV, ihE, ihS, ihM⟩ := ih
    refine ⟨?_, ?_, ?_, ?_⟩
    · intro T s cur v e r h
      rw [decodeVal] at h
      cases hnl : isNullLit s with
      | some r' =>
        simp only [hnl] at h
        cases h
        rw [isNullLit_inv _ _ hnl]; exact skipVal_null ..
      | none =>
        simp only [hnl] at h
        cases hB : ptrBase T <;> simp only [hB] at h
        · -- bool
          cases hb : boolLit s with
          | none => simp only [hb] at h; exact skipMismatch_ok _ _ _ _ _ _ _ _ _ h
          | some p => obtain ⟨b, t⟩ := p; simp only [hb] at h; cases h; exact skipVal_boolLit false n s _ b hb
        case int w =>
          split at h
          · cases hs : scanNumber s with
            | none => simp [hs] at h
            | some p => obtain ⟨l, t⟩ := p; simp only [hs] at h; cases h; exact skipVal_num false n s l _ hs
          · exact skipMismatch_ok _ _ _ _ _ _ _ _ _ h
        case uint w =>
          split at h
          · cases hs : scanNumber s with
            | none => simp [hs] at h
            | some p => obtain ⟨l, t⟩ := p; simp only [hs] at h; cases h; exact skipVal_num false n s l _ hs
          · exact skipMismatch_ok _ _ _ _ _ _ _ _ _ h
        case f32 =>
          split at h
          · cases hs : scanNumber s with
            | none => simp [hs] at h
            | some p => obtain ⟨l, t⟩ := p; simp only [hs] at h; cases h; exact skipVal_num false n s l _ hs
          · exact skipMismatch_ok _ _ _ _ _ _ _ _ _ h
        case f64 =>
          split at h
          · cases hs : scanNumber s with
            | none => simp [hs] at h
            | some p => obtain ⟨l, t⟩ := p; simp only [hs] at h; cases h; exact skipVal_num false n s l _ hs
          · exact skipMismatch_ok _ _ _ _ _ _ _ _ _ h
        case str =>
          split at h
          ·
            rename_i r0 ht
            have := tok_str_inv _ _ ht; subst this
            cases hs : scanString r0 with
            | none => simp [hs] at h
            | some p =>
              obtain ⟨b, t⟩ := p
              simp only [hs] at h
              cases hu : unquote b with
              | none => simp [hu] at h
              | some u => simp only [hu] at h; cases h; exact skipVal_str n r0 b _ hs
          · exact skipMismatch_ok _ _ _ _ _ _ _ _ _ h
        case num =>
          split at h
          ·
            rename_i r0 ht
            have := tok_str_inv _ _ ht; subst this
            cases hs : scanString r0 with
            | none => simp [hs] at h
            | some p =>
              obtain ⟨b, t⟩ := p
              simp only [hs] at h
              cases hu : unquote b with
              | none => simp [hu] at h
              | some u => simp only [hu] at h; cases h; exact skipVal_str n r0 b _ hs
          · cases hs : scanNumber s with
            | none => simp [hs] at h
            | some p => obtain ⟨l, t⟩ := p; simp only [hs] at h; cases h; exact skipVal_num false n s l _ hs
          · exact skipMismatch_ok _ _ _ _ _ _ _ _ _ h
        case bytes =>
          split at h
          ·
            rename_i r0 ht
            have := tok_str_inv _ _ ht; subst this
            cases hs : scanString r0 with
            | none => simp [hs] at h
            | some p =>
              obtain ⟨b, t⟩ := p
              simp only [hs] at h
              cases hu : unquote b with
              | none => simp [hu] at h
              | some u => simp only [hu] at h; cases h; exact skipVal_str n r0 b _ hs
          ·
            rename_i r0 ht
            have := tok_arr_inv _ _ ht; subst this
            split at h
            · rename_i t' ht'
              cases h
              exact skipVal_arr n r0 _ (Or.inl ht')
            · rename_i r' hne
              split at h
              · cases h
              · rename_i vs e' t' hd
                cases h
                exact skipVal_arr n r0 _ (Or.inr ⟨hne, ihE _ _ _ _ _ _ _ hd⟩)
          · exact skipMismatch_ok _ _ _ _ _ _ _ _ _ h
        case sl ty =>
          split at h
          ·
            rename_i r0 ht
            have := tok_arr_inv _ _ ht; subst this
            split at h
            · rename_i t' ht'
              cases h
              exact skipVal_arr n r0 _ (Or.inl ht')
            · rename_i r' hne
              split at h
              · cases h
              · rename_i vs e' t' hd
                cases h
                exact skipVal_arr n r0 _ (Or.inr ⟨hne, ihE _ _ _ _ _ _ _ hd⟩)
          · rename_i r0 ht
            have := tok_str_inv _ _ ht; subst this
            split at h
            · cases hs : scanString r0 with
              | none => simp [hs] at h
              | some p =>
                obtain ⟨b, t⟩ := p
                simp only [hs] at h
                cases hu : unquote b with
                | none => simp [hu] at h
                | some u => simp only [hu] at h; cases h; exact skipVal_str n r0 b _ hs
            · exact skipMismatch_ok _ _ _ _ _ _ _ _ _ h
          · exact skipMismatch_ok _ _ _ _ _ _ _ _ _ h
        case arr k ty =>
          split at h
          ·
            rename_i r0 ht
            have := tok_arr_inv _ _ ht; subst this
            split at h
            · rename_i t' ht'
              cases h
              exact skipVal_arr n r0 _ (Or.inl ht')
            · rename_i r' hne
              split at h
              · cases h
              · rename_i vs e' t' hd
                cases h
                exact skipVal_arr n r0 _ (Or.inr ⟨hne, ihE _ _ _ _ _ _ _ hd⟩)
          · exact skipMismatch_ok _ _ _ _ _ _ _ _ _ h
        case any =>
          cases hd : decodeAny o (n+1) s with
          | error e' => simp [hd] at h
          | ok p => obtain ⟨g, e', t⟩ := p; simp only [hd] at h; cases h; exact decodeAny_ok o (n+1) s _ _ _ hd
        case raw =>
          cases hd : rawSkip o.validateString (n+1) s with
          | none => simp [hd] at h
          | some p => obtain ⟨txt, t⟩ := p; simp only [hd] at h; cases h; exact rawSkip_ok _ n s _ _ hd
        case lib nm =>
          cases hd : skipVal true (n+1) s with
          | none => simp [hd] at h
          | some t => simp only [hd] at h; cases h; exact (skip_mono true (n+1)).1 _ _ hd
        case ptr ty => cases h
        case map K E =>
          split at h
          · rename_i r0 ht
            have := tok_obj_inv _ _ ht; subst this
            split at h
            · split at h
              · rename_i t' ht'
                cases h
                exact skipVal_obj n r0 _ (Or.inl ht')
              · rename_i r' hne
                split at h
                · cases h
                · rename_i es e' t' hd
                  cases h
                  exact skipVal_obj n r0 _ (Or.inr ⟨hne, ihM _ _ _ _ _ _ _ hd⟩)
            · exact skipMismatch_ok _ _ _ _ _ _ _ _ _ h
          · exact skipMismatch_ok _ _ _ _ _ _ _ _ _ h
        case st fs =>
          split at h
          · rename_i r0 ht
            have := tok_obj_inv _ _ ht; subst this
            split at h
            · rename_i t' ht'
              cases h
              exact skipVal_obj n r0 _ (Or.inl ht')
            · rename_i r' hne
              split at h
              · cases hm : skipMembers o.validateString n (skipWs r0) with
                | none => simp [hm] at h
                | some t' =>
                  simp only [hm] at h
                  cases h
                  exact skipVal_obj n r0 _ (Or.inr ⟨hne, (skip_mono _ n).2.2 _ _ hm⟩)
              · split at h
                · cases h
                · rename_i vs e' t' hd
                  cases h
                  exact skipVal_obj n r0 _ (Or.inr ⟨hne, ihS _ _ _ _ _ _ hd⟩)
          · exact skipMismatch_ok _ _ _ _ _ _ _ _ _ h
    · intro t s curs lim vs e r h
      rw [decodeElems] at h
      rw [skipElems]
      split at h
      · -- beyond the limit: skipped
        cases hs : skipVal o.validateString n s with
        | none => simp [hs] at h
        | some r1 =>
          simp only [hs] at h
          simp only [(skip_mono _ n).1 _ _ hs]
          split at h
          · rename_i r' ht
            try simp only [ht]
            exact ihE _ _ _ _ _ _ _ h
          · rename_i r' ht
            cases h
            try simp only [ht]
          · cases h
      · split at h
        · cases h
        · rename_i v' e' r1 hd
          simp only [ihV _ _ _ _ _ _ hd]
          split at h
          · rename_i r' ht
            try simp only [ht]
            split at h
            · cases h
            · rename_i vs' e'' r'' hd2
              cases h
              exact ihE _ _ _ _ _ _ _ hd2
          · rename_i r' ht
            cases h
            try simp only [ht]
          · cases h
    · intro fields s vs0 vs e r h
      unfold decodeStruct at h
      split at h
      · rename_i r0
        rw [skipMembers]
        cases hs : scanString r0 with
        | none => simp [hs] at h
        | some p =>
          obtain ⟨k, r1⟩ := p
          simp only [hs] at h
          simp only [skipStr_of_scanString false _ _ _ hs]
          split at h
          · rename_i r2 hr2
            try simp only [hr2]
            -- the member's value
            have hval : ∀ (vs' : List GoVal) (e' : Option DErr) (r3 : Bytes),
                (match unquote k with
                  | none => (.error .syntax : Res (List GoVal))
                  | some key =>
                    match lookupField fields o.caseSensitive key with
                    | .outside =>
                      match skipVal true n (skipWs r2) with
                      | none => .error .syntax
                      | some r3 => .ok (vs0, some .outside, r3)
                    | .missing =>
                      match skipVal o.validateString n (skipWs r2) with
                      | none => .error .syntax
                      | some r3 => .ok (vs0, if o.disallowUnknown then some .unknownField else none, r3)
                    | .found f =>
                      match (if f.quoted then decodeQuoted o n f.ty (skipWs r2) (vs0.getD f.idx (zeroOf f.ty))
                             else decodeVal o n f.ty (skipWs r2) (vs0.getD f.idx (zeroOf f.ty))) with
                      | .error e => .error e
                      | .ok (v, e, r3) => .ok (vs0.set f.idx v, e, r3)) = .ok (vs', e', r3) →
                skipVal false n (skipWs r2) = some r3 := by
              intro vs' e' r3 hst
              cases hu : unquote k with
              | none => simp [hu] at hst
              | some key =>
                simp only [hu] at hst
                cases hl : lookupField fields o.caseSensitive key with
                | outside =>
                  simp only [hl] at hst
                  cases hk : skipVal true n (skipWs r2) with
                  | none => simp [hk] at hst
                  | some t => simp only [hk] at hst; cases hst; exact (skip_mono true n).1 _ _ hk
                | missing =>
                  simp only [hl] at hst
                  cases hk : skipVal o.validateString n (skipWs r2) with
                  | none => simp [hk] at hst
                  | some t => simp only [hk] at hst; cases hst; exact (skip_mono _ n).1 _ _ hk
                | found f =>
                  simp only [hl] at hst
                  cases hq : f.quoted
                  · simp only [hq, Bool.false_eq_true, if_false] at hst
                    split at hst
                    · cases hst
                    · rename_i v0 e0 t0 hd; cases hst; exact ihV _ _ _ _ _ _ hd
                  · simp only [hq, if_true] at hst
                    split at hst
                    · cases hst
                    · rename_i v0 e0 t0 hd; cases hst; exact decodeQuoted_ok _ _ _ _ _ _ _ _ hd
            split at h
            · cases h
            · rename_i vs' e' r3 hst
              have hsv := hval vs' e' r3 hst
              simp only [hsv]
              split at h
              · rename_i t' ht
                try simp only [ht]
                split at h
                · cases h
                · rename_i res e'' t'' hd
                  cases h
                  exact ihS _ _ _ _ _ _ hd
              · rename_i t' ht
                cases h
                try simp only [ht]
              · cases h
          · cases h
      · cases h
    · intro K E s acc res e r h
      unfold decodeMap at h
      split at h
      · rename_i r0
        rw [skipMembers]
        cases hs : scanString r0 with
        | none => simp [hs] at h
        | some p =>
          obtain ⟨k, r1⟩ := p
          simp only [hs] at h
          simp only [skipStr_of_scanString false _ _ _ hs]
          split at h
          · rename_i r2 hr2
            try simp only [hr2]
            have hval : ∀ (acc' : List (GoVal × GoVal)) (e' : Option DErr) (r3 : Bytes),
                (match unquote k with
                  | none => (.error .syntax : Res (List (GoVal × GoVal)))
                  | some key =>
                    match decodeVal o n E (skipWs r2) (zeroOf E) with
                    | .error e => .error e
                    | .ok (v, e, r3) =>
                      match bindKey K key with
                      | .key kv => .ok (mapSet acc kv v, e, r3)
                      | _ => .ok (acc, merge e (some .mismatch), r3)) = .ok (acc', e', r3) →
                skipVal false n (skipWs r2) = some r3 := by
              intro acc' e' r3 hst
              cases hu : unquote k with
              | none => simp [hu] at hst
              | some key =>
                simp only [hu] at hst
                split at hst
                · cases hst
                · rename_i v0 e0 t0 hd
                  have := ihV _ _ _ _ _ _ hd
                  split at hst <;> (cases hst; exact this)
            split at h
            · cases h
            · rename_i acc' e' r3 hst
              have hsv := hval acc' e' r3 hst
              simp only [hsv]
              split at h
              · rename_i t' ht
                try simp only [ht]
                split at h
                · cases h
                · rename_i res' e'' t'' hd
                  cases h
                  exact ihM _ _ _ _ _ _ _ hd
              · rename_i t' ht
                cases h
                try simp only [ht]
              · cases h
          · cases h
      · cases h


/-- whole documents: what the single pass accepts passes the structural grammar -/
theorem decodeFull_ok_structural (o : DecOpts) (T : GoType) (s : Bytes) (v : GoVal) (e : Option DErr)
    (h : decodeFull o T s = .ok (v, e)) : structuralDoc false s = true := by
  unfold decodeFull at h
  unfold structuralDoc
  split at h
  · cases h
  · rename_i v' e' r hd
    have := (stream_ok_structural o (s.length + 1)).1 _ _ _ _ _ _ hd
    simp only [this]
    split at h
    · rename_i he; exact he
    · cases h

theorem decode_ok_structural (o : DecOpts) (T : GoType) (s : Bytes) (v : GoVal)
    (h : decode o T s = .ok v) : structuralDoc false s = true := by
  unfold decode at h
  split at h
  · rename_i v' hd; exact decodeFull_ok_structural o T s _ _ hd
  · cases h
  · cases h

end SonicSpec.Stream
